"""Drive the real package (imported from /repo's working tree, in-process)."""
from __future__ import annotations

import os
import sys

REPO = os.environ.get("JPV_REPO", "/repo")
if REPO not in sys.path:
    sys.path.insert(0, REPO)

import jsonpath_rfc9535 as jp  # noqa: E402
from jsonpath_rfc9535 import filter_expressions as fe  # noqa: E402
from jsonpath_rfc9535 import segments as sg  # noqa: E402
from jsonpath_rfc9535 import selectors as sl  # noqa: E402
from jsonpath_rfc9535.function_extensions import ExpressionType  # noqa: E402
from jsonpath_rfc9535.function_extensions import FilterFunction  # noqa: E402

import wire  # noqa: E402

assert os.path.realpath(os.path.dirname(os.path.dirname(jp.__file__))) == os.path.realpath(
    REPO
), f"jsonpath_rfc9535 imported from {jp.__file__}, not from {REPO}"

TYMAP = {"V": ExpressionType.VALUE, "L": ExpressionType.LOGICAL, "N": ExpressionType.NODES}
TYREV = {v: k for k, v in TYMAP.items()}

DEFAULT_ENVDESC = {
    "maxDepth": 100,
    "minIdx": -(2**53) + 1,
    "maxIdx": 2**53 - 1,
    "nd": False,
    "fns": [
        ("length", ["V"], "V", "length"),
        ("count", ["N"], "V", "count"),
        ("value", ["N"], "V", "value"),
    ],
}


class UnknownShape(Exception):
    """The compiled object graph no longer has the shape the extractor knows."""


def make_probe(arg_types, ret, body, log=None, name=None):
    ats = [TYMAP[t] for t in arg_types]
    rt = TYMAP[ret]

    class Probe(FilterFunction):
        arg_types = ats
        return_type = rt

        def __call__(self, *args):
            if log is not None:
                log.append((name, list(args)))
            if body == "const":
                return {"V": 7, "L": True, "N": jp.JSONPathNodeList()}[ret]
            if body.startswith("pick"):
                return args[int(body[4:])]
            raise RuntimeError(f"unknown probe body {body}")

    return Probe()


def make_env(desc, log=None):
    """Build a real environment from an env description."""
    attrs = {
        "max_recursion_depth": desc["maxDepth"],
        "min_int_index": desc["minIdx"],
        "max_int_index": desc["maxIdx"],
        "nondeterministic": bool(desc["nd"]),
    }
    cls = type("VerifEnv", (jp.JSONPathEnvironment,), attrs)
    env = cls()
    builtin = dict(env.function_extensions)
    env.function_extensions.clear()
    for name, ats, ret, body in desc["fns"]:
        if body in ("length", "count", "value", "match", "search"):
            env.function_extensions[name] = builtin[body]
        else:
            env.function_extensions[name] = make_probe(ats, ret, body, log, name)
    return env


def enc_env(desc) -> str:
    fns = " ".join(
        f"(fn {wire.enc_str(n)} ({' '.join(a)}) {r} {b})" for n, a, r, b in desc["fns"]
    )
    return (
        f"(env {desc['maxDepth']} {desc['minIdx']} {desc['maxIdx']} "
        f"{1 if desc['nd'] else 0}{' ' + fns if fns else ''})"
    )


# ---- AST extraction from the real compiled objects -------------------------------

OPS = {"==": "eq", "!=": "ne", "<": "lt", "<=": "le", ">": "gt", ">=": "ge"}


def ast_expr(e) -> str:
    t = type(e)
    if t is fe.BooleanLiteral or t is fe.NullLiteral or t is fe.StringLiteral:
        return f"(lit {wire.enc_json(e.value)})"
    if t is fe.IntegerLiteral or t is fe.FloatLiteral:
        return f"(lit {wire.enc_json(e.value)})"
    if t is fe.PrefixExpression:
        if e.operator != "!":
            raise UnknownShape(f"prefix operator {e.operator!r}")
        return f"(not {ast_expr(e.right)})"
    if t is fe.LogicalExpression:
        tag = {"&&": "and", "||": "or"}[e.operator]
        return f"({tag} {ast_expr(e.left)} {ast_expr(e.right)})"
    if t is fe.ComparisonExpression:
        return f"(cmp {OPS[e.operator]} {ast_expr(e.left)} {ast_expr(e.right)})"
    if t is fe.RelativeFilterQuery:
        return "(rel" + "".join(" " + ast_segment(s) for s in e.query.segments) + ")"
    if t is fe.RootFilterQuery:
        return "(root" + "".join(" " + ast_segment(s) for s in e.query.segments) + ")"
    if t is fe.FunctionExtension:
        return (
            f"(call {wire.enc_str(e.name)}"
            + "".join(" " + ast_expr(a) for a in e.args)
            + ")"
        )
    raise UnknownShape(f"expression class {t.__name__}")


def ast_selector(s) -> str:
    t = type(s)
    if t is sl.NameSelector:
        return f"(name {wire.enc_str(s.name)})"
    if t is sl.IndexSelector:
        return f"(index {s.index})"
    if t is sl.SliceSelector:
        z = s.slice
        return (
            f"(slice {wire.enc_opt_int(z.start)} {wire.enc_opt_int(z.stop)} "
            f"{wire.enc_opt_int(z.step)})"
        )
    if t is sl.WildcardSelector:
        return "(wild)"
    if t is sl.FilterSelector:
        return f"(filter {ast_expr(s.expression.expression)})"
    raise UnknownShape(f"selector class {t.__name__}")


def ast_segment(s) -> str:
    t = type(s)
    if t is sg.JSONPathChildSegment:
        tag = "child"
    elif t is sg.JSONPathRecursiveDescentSegment:
        tag = "desc"
    else:
        raise UnknownShape(f"segment class {t.__name__}")
    return f"({tag}" + "".join(" " + ast_selector(x) for x in s.selectors) + ")"


def ast_query(q) -> str:
    try:
        return "(query" + "".join(" " + ast_segment(s) for s in q.segments) + ")"
    except (AttributeError, KeyError) as err:
        raise UnknownShape(repr(err)) from err


# ---- observations ------------------------------------------------------------------


def err_name(exc: BaseException) -> str:
    if isinstance(exc, jp.JSONPathError):
        return type(exc).__name__
    return "PY:" + type(exc).__name__


def observe_stream(compiled, doc) -> str:
    """`finditer` as a consumer sees it: nodes, then end or the exception."""
    nodes = []
    try:
        for n in compiled.finditer(doc):
            nodes.append(n)
        tail = "end"
    except RecursionError:
        raise
    except Exception as exc:  # noqa: BLE001
        tail = "err " + err_name(exc)
    return "stream\t" + wire.enc_nodes(nodes) + "\t" + tail


def enc_obj(o) -> str:
    if isinstance(o, jp.JSONPathNodeList):
        return "(nodes " + wire.enc_nodes(o) + ")"
    if o is jp.NOTHING:
        return "nothing"
    return "(val " + wire.enc_json(o) + ")"


def err_offset(exc) -> str:
    tok = getattr(exc, "token", None)
    if tok is None:
        return "none"
    return str(tok.index)


def observe_lex(q: str) -> str:
    from jsonpath_rfc9535.lex import tokenize

    try:
        toks = tokenize(q)
    except RecursionError:
        raise
    except Exception as exc:  # noqa: BLE001
        return f"err {err_name(exc)} {err_offset(exc)}"
    return "tokens\t" + " ".join(
        f"{t.type_.name}:{t.index}:{wire.enc_str(t.value)}" for t in toks
    )


def observe_compile(env, q: str):
    """Returns (wire line, compiled-or-None)."""
    try:
        c = env.compile(q)
    except RecursionError:
        raise
    except Exception as exc:  # noqa: BLE001
        return f"err {err_name(exc)} {err_offset(exc)}", None
    return "ok\t" + ast_query(c), c
