import JPV.Tables.Common
namespace JPV.Tables
open JPV JPV.Impl

/-- no attribute store, global rebinding or container mutation on any object that
outlives a call (selectors, segments, expressions, queries, nodes, environments,
module globals, the document) -/
theorem writes_benign : Generated.writes.all benignWrite = true := by decide +kernel

end JPV.Tables
