#!/venv/bin/python
"""Evaluate a behaviour-preserving change: apply /verif/refactors/<name>/patch.diff to /repo, run the pinned
tests and every check at the quick tier, undo.  A VIOLATION here is a false alarm of the machinery (or the
change is not behaviour-preserving after all — then the replay shows the input)."""
import json, os, subprocess, sys, time

VERIF = os.path.dirname(os.path.dirname(os.path.abspath(__file__)))


def sh(cmd, **kw):
    p = subprocess.run(cmd, shell=True, stdout=subprocess.PIPE, stderr=subprocess.STDOUT, **kw)
    return p.returncode, p.stdout.decode("utf8", "replace")


def in_worktree(name, d, meta, wt):
    sys.path.insert(0, os.path.join(VERIF, "harness"))
    import props
    result = {"ran_at": time.strftime("%Y-%m-%dT%H:%M:%SZ", time.gmtime()), "checks": {}, "where": "scratch worktree (JPV_REPO)"}
    sh(f"git -C {wt} checkout -- . && git -C {wt} clean -fdq -- jsonpath_rfc9535")
    if sh(f"git -C {wt} rev-parse HEAD")[1].strip() != sh("git -C /repo rev-parse HEAD")[1].strip():
        print("refusing: worktree is not at /repo's HEAD"); return 2
    try:
        rc, out = sh(f"git -C {wt} apply {d}/patch.diff")
        if rc != 0:
            print("patch does not apply:", out); return 2
        rc, out = sh(f"cd {wt} && PYTHONPATH={wt} /venv/bin/python -m pytest -q -p no:cacheprovider --timeout=900 --continue-on-collection-errors 2>&1 | tail -1")
        result["tests_with_change"] = out.strip()
        for c in sorted(props.PROPS):
            t = time.time()
            rc, out = sh(f"cd {VERIF} && JPV_REPO={wt} VERIF_SEED=2 /venv/bin/python harness/run_check.py {c} --tier quick 2>&1", timeout=3600)
            lines = [l for l in out.splitlines() if l.startswith(("VIOLATION", "OK ", "INFRA", "  broken", "  mismatch", "  {"))]
            result["checks"][c] = {"exit": rc, "wall_s": round(time.time() - t, 1), "lines": [l[:500] for l in lines[:4]]}
    finally:
        sh(f"git -C {wt} checkout -- . && git -C {wt} clean -fdq -- jsonpath_rfc9535")
        sh(f"cd {VERIF} && git checkout -- evidence && git clean -fdq -- replays evidence")
        sh(f"cd {VERIF} && /venv/bin/python harness/gen_tables.py > /dev/null")
    meta["evaluation"] = result
    json.dump(meta, open(os.path.join(d, "meta.json"), "w"), indent=1)
    alarms = {c: v for c, v in result["checks"].items() if v["exit"] != 0}
    print(name, result["tests_with_change"], "alarms:", list(alarms))
    for c, v in alarms.items():
        for l in v["lines"][:3]:
            print("   ", c, l[:400])
    return 0


def main():
    name = sys.argv[1]
    d = os.path.join(VERIF, "refactors", name)
    meta = json.load(open(os.path.join(d, "meta.json")))
    if "--wt" in sys.argv:
        return in_worktree(name, d, meta, sys.argv[sys.argv.index("--wt") + 1])
    rc, out = sh("git -C /repo status --porcelain")
    if out.strip():
        print("refusing: /repo is not clean"); return 2
    sys.path.insert(0, os.path.join(VERIF, "harness"))
    import props
    result = {"ran_at": time.strftime("%Y-%m-%dT%H:%M:%SZ", time.gmtime()), "checks": {}}
    try:
        rc, out = sh(f"git -C /repo apply {d}/patch.diff")
        if rc != 0:
            print("patch does not apply:", out); return 2
        rc, out = sh("cd /repo && /venv/bin/python -m pytest -q -p no:cacheprovider --timeout=900 --continue-on-collection-errors 2>&1 | tail -1")
        result["tests_with_change"] = out.strip()
        for c in sorted(props.PROPS):
            t = time.time()
            rc, out = sh(f"cd {VERIF} && VERIF_SEED=2 /venv/bin/python harness/run_check.py {c} --tier quick 2>&1", timeout=3600)
            lines = [l for l in out.splitlines() if l.startswith(("VIOLATION", "OK ", "INFRA", "  broken", "  mismatch", "  {"))]
            result["checks"][c] = {"exit": rc, "wall_s": round(time.time() - t, 1), "lines": [l[:500] for l in lines[:4]]}
    finally:
        sh("git -C /repo checkout -- . && git -C /repo clean -fdq -- jsonpath_rfc9535")
        # evidence and replay files written while the change was applied describe the changed tree, not /repo
        sh(f"cd {VERIF} && git checkout -- evidence && git clean -fdq -- replays evidence")
    meta["evaluation"] = result
    json.dump(meta, open(os.path.join(d, "meta.json"), "w"), indent=1)
    alarms = {c: v for c, v in result["checks"].items() if v["exit"] != 0}
    print(name, result["tests_with_change"], "alarms:", list(alarms))
    for c, v in alarms.items():
        for l in v["lines"][:3]:
            print("   ", c, l[:400])
    return 0


if __name__ == "__main__":
    sys.exit(main())
