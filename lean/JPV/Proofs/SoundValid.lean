import JPV.Impl.Parse
import JPV.Spec.Grammar
import JPV.Spec.Valid
import JPV.Spec.Typing
import JPV.Proofs.ParseTyping
import JPV.Proofs.SoundFull
import JPV.Proofs.Sv.ParseInv
import JPV.Proofs.Sv.LexSeg
namespace JPV.Proofs
open JPV JPV.Impl

open JPV.Proofs.Rq JPV.Proofs.Cs JPV.Proofs.Ss JPV.Proofs.Sf in
/-- C05, soundness at the level of the DERIVATION (parentheses kept): whatever string the implementation
compiles, the RFC 9535 validity rules accept its derivation — every function call well-typed for the
environment's own signatures INCLUDING the rules that depend on parentheses (a parenthesised argument is a
logical expression: `count((@.*))` is ill-typed although `count(@.*)` is not), comparison operands
comparable, integers in range.  So `Spec.judge` says `valid` (or `disputed`, D28) for every compiled string. -/
theorem compile_sound_valid (env : Env) (s : Str) (q : Query)
    (h : Impl.compile env s = .ok q) :
    ∃ c, (Spec.judge (sigsOfEnv' env) env.minIdx env.maxIdx s = (.valid, some c) ∨
          Spec.judge (sigsOfEnv' env) env.minIdx env.maxIdx s = (.disputed, some c)) ∧
      Spec.abstractSegs c = q := by
  letI : Sv.SigC := ⟨sigsOfEnv' env⟩
  have hwt := compile_welltyped env s q h
  unfold Impl.compile at h
  cases htok : tokenize s with
  | error e => rw [htok] at h; cases h
  | ok toks =>
    rw [htok] at h
    simp only at h
    have hshape := (tokenize_shapes s toks htok).1
    obtain ⟨r, ts, e, more, rfl, hr, hek, hD⟩ := Sv.parseTop_invF env rfl _ toks q h hshape
    obtain ⟨lf, hh, hg, hlt⟩ := tokenize_run htok
    have h0 : St ({ q := s.toArray } : Lexer) [] [] s [] [] := ⟨by simp, rfl, rfl, rfl, rfl, rfl⟩
    obtain ⟨rr, l1, rfl, h1, hh1⟩ := Ss.root_first h0 hh hg
    have hsuf := hh1.toks_suffix
    rw [h1.toks, hlt] at hsuf
    have hr1 : (⟨.root, ['$'], (([] : List Char).length : Nat)⟩ : Token) = r := by
      obtain ⟨x, hx⟩ := hsuf
      have := congrArg List.reverse hx
      simp only [List.reverse_append, List.reverse_reverse, List.reverse_cons, List.reverse_nil,
        List.nil_append, List.singleton_append, List.cons.injEq] at this
      exact this.1
    have hem : Emits .segment l1 (ts ++ e :: more) lf := ⟨hh1, by rw [h1.toks, hlt, hr1]; simp⟩
    have hcfg : SCfg lf 0 [] rr (ts ++ e :: more) :=
      ⟨l1, _, _, ⟨h1.q, h1.start, h1.pos, h1.toks, h1.br, h1.fd⟩, hem⟩
    have hsegs := (Sv.PAll.all hg (ts.length + 1)).top q ts hD (Nat.lt_succ_self _) rr e more hcfg hek
    obtain ⟨c, hc, ha, hgd⟩ := Sv.HSegs.top hsegs
    refine ⟨c, ?_, ha⟩
    have hsh : (Spec.cmpShapeSegs c).1 = true := cmpShape_of_wt _ c (by rw [ha]; exact hwt.1)
    have hv : (Spec.cSegs (sigsOfEnv' env) env.minIdx env.maxIdx c).1 = true :=
      Sv.cSegs_of_good env.minIdx env.maxIdx c hgd (by rw [ha]; exact hwt.1) (by rw [ha]; exact hwt.2)
    have hpq : Spec.parseQuery ('$' :: rr) =
        if (Spec.cmpShapeSegs c).2 then .disputed c else .valid c := by
      unfold Spec.parseQuery
      simp only [hc, hsh]
      cases (Spec.cmpShapeSegs c).2 <;> simp
    unfold Spec.judge
    rw [hpq]
    cases (Spec.cmpShapeSegs c).2 <;>
      cases h2 : (Spec.cSegs (sigsOfEnv' env) env.minIdx env.maxIdx c).2 <;> simp [hv, h2]

end JPV.Proofs
