#!/venv/bin/python
"""Regenerate MANIFEST.json from harness/props.py and the claim texts below."""
import json, os, sys
HERE = os.path.dirname(os.path.abspath(__file__))
VERIF = os.path.dirname(HERE)
sys.path.insert(0, os.path.join(VERIF, "harness"))
import props  # noqa: E402

NOTE = ("Trusted: Lean 4.33 kernel (axioms propext, Classical.choice, Quot.sound only, audited on every run); Spec.* as the "
        "reading of RFC 9535; the hand-written model Impl.* is tied to /repo by regenerated tables (Tie A: Lean theorems over "
        "Generated.lean) and by differential runs against the real package (Tie B), which are sampling, not proof; CPython "
        "primitives in Py.lean are modelled, not verified.")
TECH = ("Lean 4 theorems about a hand-written executable model + regenerated-table obligations + correspondence check and "
        "RFC-oracle search on the real code")

CLAIMS = {
 "C01": ("eval_correct/C01: for every filter-free compiled query and every well-formed JSON value within the depth limit, Impl.find = RFC selection (lists: order and duplicates included), by mutual induction over the AST and the nested Json type; C07 slice/index lemmas. Text->AST is covered by the independent RFC oracle (Spec.Grammar) in the exploration, not yet by a theorem.", "§7 C01"),
 "C02": ("eval_correct: for every well-typed compiled query (arbitrary function registry satisfying an explicit contract, proved for length/count/value), every well-formed JSON value within the depth limit, the dynamically typed evaluator model returns exactly the RFC 9535 nodelist; existence/logic/scoping lemmas. Tie B on filter queries over documents with children of every kind, judged by the independent RFC oracle.", "§7 C02"),
 "C03": ("PARTIAL. Proved: the lexical clauses — C09: for every input, the two-phase string-literal reader (lexer string loop + _decode_string_literal with its replace pair and surrogate arithmetic) accepts exactly what the RFC string-literal grammar derives, in either quote style and every escape form, with the RFC's denotation; C13_lex/C13_token_shapes: the lexer is total and hands over well-shaped tokens; Tie A obligations pin the regexes, ESCAPES, dispatch maps, precedences and built-in signatures the model was written against. NOT proved: whole-language completeness of the Pratt parser (every valid query compiles to the derivation's AST); that clause is decided on every run by the oracle search: grammar-directed valid strings judged by the independent recogniser Spec.Grammar+Spec.Valid, real compile() must accept and build the same AST.", "§7 C03"),
 "C04": ("PARTIAL. Proved: C05_partial — nothing ill-typed or out of the integer range is ever given a query object, for every string and registry; C09 — a literal outside the grammar (raw control, unknown/truncated escape, other quote escaped, unpaired surrogate) is rejected, for every input; C13_lex/C13_token_shapes. NOT proved: 'accepted => derivable' for the whole grammar (parser soundness against Spec.Grammar); decided on every run by the oracle search: every single-edit neighbour / mutant / token sequence that the independent recogniser judges invalid must make real compile() raise a JSONPathError, and the model must predict class and offset.", "§7 C04"),
 "C05": ("C05_partial (soundness, all strings, all registries): whatever compile() returns is well-typed under RFC 9535 §2.4.3 for the registry's own signatures and within the configured integer range (Hoare-style proof over the 14 mutually recursive parser functions); C05_arg_rule: check_well_typedness is the RFC rule per parameter type. Completeness (every valid query compiles) is decided by the oracle search with random registries, not yet a theorem.", "§7 C05"),
 "C06": ("C06: Impl.compare (the _compare/_eq/_json_eq/_lt model) equals the RFC comparison table for all comparands (any JSON kind at any depth, Nothing, empty nodelist) and all six operators; jsonEq is an equivalence; booleans never equal numbers; only numbers and strings are ordered.", "§7 C06"),
 "C07": ("C07_slice/C07_index: the slice.indices+range+zip model and the negative-index model equal the RFC normalize/bounds/iterate procedure for all lengths and all (start,end,step) over unbounded integers; locations non-negative and in range; step 0 and non-arrays select nothing. Tie B incl. the CPython slice primitive itself.", "§7 C07"),
 "C08": ("C08_loc: every node any query yields on a well-formed value satisfies getAt root location = value (any query, any registry, streams cut short by errors included); C08_canonical/C08_path_normal: canonical_string (json.dumps + two str.replace) and path() equal the RFC normalized name/path for every string over every Unicode scalar value; C08_unique: normalized paths determine the location. Object identity and the re-query clause are explored on the real code (is / find(path())), the latter not yet a theorem.", "§7 C08"),
 "C09": ("C09 (full statement, every input): implString q inp = Spec.stringBody q ... — the implementation's two-phase reading of a string literal (lexer string loop, then the quote-normalising replace pair and the escape decoder) equals the one-pass RFC recogniser: same acceptance, same denoted string, same remaining input, for both quote styles; hence every \\b \\f \\n \\r \\t \\/ \\\\ own-quote, \\uXXXX of either hex case incl. controls and U+0000, and surrogate pairs decode as the RFC says, and raw controls / unknown or truncated escapes / the other quote escaped / unpaired surrogates are rejected; C09_surrogate_arith for all 1024x1024 pairs; the decoder cannot raise IndexError on lexer output. The link lexer-object-loop = scanString is part of C13_token_shapes.", "§7 C09"),
 "C10": ("C10_args: what a function body receives (evaluate + _unpack_node_lists) is exactly the RFC conversion of the arguments to the declared parameter types, for any registry and any well-typed argument list; length/count/value specs; result use by declared type. Tie B with recording probe functions.", "§7 C10"),
 "C12": ("PARTIAL. Proved: C12_partial — for every filter-free query (any mix of child/descendant segments and name, index, slice, wildcard selectors; names over all characters; all integers) the text str() prints is derived by the RFC 9535 grammar (the independent recogniser Spec.parseQuery accepts it) and denotes the same query up to writing an omitted slice step as 1 (which selects the same nodes, C07_slice); C12_fixpoint — printing is idempotent on that normal form; C12_quoting/C08_canonical — names and string literals appear in the canonical single-quoted RFC form for every string. NOT proved: the filter-expression fragment (precedence-aware parenthesisation vs the Pratt parser) and the number clause (repr(float) is CPython runtime, modelled in Py.lean); both are decided on every run by the oracle search: str(compile(q)) must be judged valid by Spec.Grammar, reparse (real parser and oracle) to the same AST, be a fixed point, and select the same nodes; the printer and repr(float) models are compared with the real ones.", "§7 C12"),
 "C13": ("PARTIAL. Proved: C13_lex — for every string the lexer terminates within its fuel (potential 3*(n-pos)+rank strictly decreases) and returns tokens or a JSONPathError; C13_token_shapes — token lists end in EOF, INDEX texts are -?[0-9]+ (int() cannot fail), string texts were accepted by the string loop (the decoder cannot raise IndexError: C09_no_index_error); C13_eval_partial — a query compile() returns, applied to a well-formed value within the depth limit with the built-in registry, evaluates without any exception (C05_partial + eval_correct). NOT yet proved: the parser half of compile totality (no non-JSONPath exception, fuel sufficiency) and evaluation beyond the depth limit; explored with garbage strings to 1024 chars / nesting 32 and every JSON kind as root and child, the model predicting the exact outcome class.", "§7 C13"),
 "C14": ("C14_history: after ANY finite history of API operations that registers nothing on a query's own environment, applying the query gives the outcome it gave before (induction over operation lists on the World model); apply/find are pure (world unchanged); outcome is a function of (AST, environment configuration, value); frame theorems for register/subclass; recompilation gives identical behaviour. What makes this about the code: the regenerated effect table (no store/mutation on any object that outlives a call: Tables.writes_benign) and the hist correspondence op replaying random histories on the real objects; non-modification of the document is observed (deep snapshot), not proved.", "§7 C14"),
 "C15": ("C15_*: find = list(finditer), find_one = head (even when a later element would raise), environment and module-level paths = compile followed by the compiled query's methods, invalid queries raise the same class eagerly from every entry point — equations between the model's definitions of the 11 public callables; that the real callables are wired this way is explored by pushing every (query, value) through all of them.", "§7 C15"),
 "C16": ("C16 (interleave_independent): for any number of result-iterator cursors and ANY schedule of next() calls, what iterator i sees is the prefix of its solitary run (induction on the schedule), abandoned iterators included; premise 'nothing shared is written' is the regenerated effect table. Real code: every interleaving of k<=3 live iterators up to the combined result length (enumerated or sampled). Threads are a stress test under a minimal switch interval, not proved (GIL scheduling is outside any model).", "§7 C16"),
 "C18": ("C18_boundary/complete/raise/steps for the deterministic traversal on finite trees: raises JSONPathRecursionError iff container nesting exceeds the limit, otherwise visits exactly the input node and its container descendants in pre-order, work bounded by document size. Partial: cyclic data, nondeterministic mode and the interpreter stack are explored on the real code, not proved.", "§7 C18"),
 "C19": ("C19_linecol: Token.position (count/rfind over the query) is the line/column of the offset for every text and offset; C19_offset: every JSONPathError compile() raises carries a token whose offset lies in [0, len] (lexer invariant + a Hoare logic over the token stream and the 14 parser functions); C19_tokens. Tie B: printed line/column vs an independent scan on multi-line rejected queries.", "§7 C19"),
 "C20": ("C20_compile_errors/C20_evaluate_errors/C20_hierarchy_covered/C20_wiring: about the handler tables regenerated from cli.py on every run — for every class of the JSONPath exception hierarchy and for JSONDecodeError/UnicodeDecodeError, the enclosing try has a clause that catches it, re-raises only under --debug, writes one stderr line and exits 1 before any output; the two try blocks wrap compile and load+find, the dump comes after both (kernel evaluation over the finite tables). Partial by construction: argparse, json.load/json.dump, files and process exit are modelled, not verified; explored by running the real CLI in-process and as subprocesses over every option combination.", "§7 C20"),
}

def main():
    with open(os.path.join(VERIF, "properties.jsonl")) as fd:
        ids = [json.loads(l)["id"] for l in fd]
    m = json.load(open(os.path.join(VERIF, "MANIFEST.json")))
    na_old = {x["property_id"]: x["reason"] for x in m.get("not_applicable", [])}
    checks = []
    for pid in ids:
        if pid not in props.PROPS:
            continue
        text, ref = CLAIMS[pid]
        checks.append({
            "property_id": pid,
            "quick_cmd": f"/venv/bin/python harness/run_check.py {pid} --tier quick",
            "thorough_cmd": f"/venv/bin/python harness/run_check.py {pid} --tier thorough",
            "evidence_file": f"evidence/{pid}.json",
            "replay_cmd_template": f"/venv/bin/python harness/run_check.py {pid} --replay {{path}}",
            "engine": "lean4-jpv",
            "level_claimed": {"category": "proof", "text": text, "design_ref": ref},
            "level_note": NOTE,
            "technique": TECH,
        })
    m["checks"] = checks
    m["engines"][0]["serves_properties"] = [c["property_id"] for c in checks]
    m["not_applicable"] = [
        {"property_id": pid, "reason": na_old.get(pid, "machinery for this property is not built yet (work in progress, see DESIGN.md section 10)")}
        for pid in ids if pid not in props.PROPS]
    json.dump(m, open(os.path.join(VERIF, "MANIFEST.json"), "w"), indent=1)
    print("claimed:", [c["property_id"] for c in checks])

main()
