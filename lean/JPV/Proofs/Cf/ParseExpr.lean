/-
`Proofs.Cf.ParseExpr` — the Pratt parser on the tokens of a filter expression: the statements for terms,
parenthesised expressions, basic / logical-and / logical-or expressions, their induction steps on the length
of the token list, and the induction itself (`pall`).
-/
import JPV.Proofs.Cf.ParseArgs
set_option linter.unusedSimpArgs false
set_option linter.unusedVariables false
namespace JPV.Proofs.Cf
open JPV JPV.Impl JPV.Proofs.Rq

/-- terms (literal / query / function call) as units, token lists of length `≤ n` -/
def StTerm (env : Env) (n : Nat) : Prop :=
  ∀ (e : Spec.CExpr) (ts : List Token), TermShape e ts → WT env e → ts.length ≤ n →
    ∀ (x : Token) (more : List Token), folTerm x.kind = true →
    ∃ t ts' h, ts = t :: ts' ∧ tokenMap t.kind = some h ∧ termStart t.kind = true ∧
      UnitRes env (Spec.abstractExpr e) h ⟨t, [], ts' ++ x :: more⟩ x more

/-- parenthesised expressions as units, token lists (with the parentheses) of length `≤ n` -/
def StParen (env : Env) (n : Nat) : Prop :=
  ∀ (e : Spec.CExpr) (ts : List Token), OrShape e ts → TestOK env e → ts.length + 2 ≤ n →
    ∀ (lp rp x : Token) (more : List Token), lp.kind = .lparen → rp.kind = .rparen → folBasic x.kind = true →
    UnitRes env (Spec.abstractExpr e) .grouped ⟨lp, [], ts ++ rp :: x :: more⟩ x more

/-- the chain statement for basic-exprs -/
def StBasic (env : Env) (n : Nat) : Prop :=
  ∀ (e : Spec.CExpr) (ts : List Token), BasicShape e ts → WT env e → ts.length ≤ n →
    ∀ (p : Nat), p ≤ precRelational → ∀ (x : Token) (more : List Token), folBasic x.kind = true →
    ∃ t ts', ts = t :: ts' ∧ ChainRes env p (Spec.abstractExpr e) ⟨t, [], ts' ++ x :: more⟩ x more

/-- the chain statement for logical-and-exprs -/
def StAnd (env : Env) (n : Nat) : Prop :=
  ∀ (e : Spec.CExpr) (ts : List Token), AndShape e ts → WT env e → ts.length ≤ n →
    ∀ (p : Nat), p ≤ precAnd → ∀ (x : Token) (more : List Token), folAnd x.kind = true →
    ∃ t ts', ts = t :: ts' ∧ ChainRes env p (Spec.abstractExpr e) ⟨t, [], ts' ++ x :: more⟩ x more

section
variable {env : Env} {n : Nat}

/-- the loop goes on with an operator: the left operand's chain, then `parseInfix` -/
theorem ChainRes.step {p : Nat} {eL e' : Expr} {st : TStream} {opTok : Token} {rest1 : List Token} {x : Token}
    {more : List Token} (hc : ChainRes env p eL st opTok rest1) (hcont : Continues p opTok.kind = true)
    (hinf : ∀ left : PExpr, left.e = eL → InfixRes env left e' ⟨opTok, [], rest1⟩ x more) :
    ChainRes env p e' st x more := by
  obtain ⟨h, ht, px, st', he, hr, hk⟩ := hc
  obtain ⟨px', st2, he', hr', hev⟩ := hinf px he
  exact ⟨h, ht, px', st2, he', hr', fun R hl => hk R (loop_step env p px hr hcont hev hl)⟩

/-! ### terms -/

theorem term_step (hS : StSegs env (n + 1)) (hO : StOr env n) : StTerm env (n + 1) := by
  intro e ts h hv hl x more hx
  cases h with
  | lit t v hlit =>
    obtain ⟨h, ht, hu⟩ := unit_lit env hlit x more
    exact ⟨t, [], h, rfl, ht, hlit.termStart, hu⟩
  | rel q ts tv k hq =>
    exact ⟨_, _, .relQuery, rfl, rfl, rfl, unit_rel hS hq hv.rel (by simp at hl; omega) _ rfl x more hx⟩
  | root q ts tv k hq =>
    exact ⟨_, _, .rootQuery, rfl, rfl, rfl, unit_root hS hq hv.root (by simp at hl; omega) _ rfl x more hx⟩
  | call name args ts k tv' k' ha =>
    refine ⟨_, _, .function, rfl, rfl, rfl, ?_⟩
    have := unit_call hO ha hv (by simp at hl; omega) ⟨.function, name, k⟩ ⟨.rparen, tv', k'⟩ rfl rfl rfl x more
    simpa [Spec.abstractExpr] using this

theorem paren_step (hO : StOr env n) : StParen env (n + 1) := by
  intro e ts h hv hl lp rp x more hlp hrp hx
  obtain ⟨t, ts', rfl, hE⟩ := hO.expr e ts h hv (by omega) rp (x :: more) (by simp [hrp, isCloser])
  have := unit_paren hlp hrp hx (testLike_of e hv) hE
  simpa using this

/-! ### basic-exprs -/

/-- `parseFilterExpr precPrefix` on a unit followed by a token that can follow a basic-expr -/
theorem UnitRes.prefixExpr {a : Expr} {h : Handler} {st : TStream} {x : Token} {more : List Token}
    (hu : UnitRes env a h st x more) (ht : tokenMap st.cur.kind = some h) (hx : folBasic x.kind = true) :
    ExprRes env precPrefix a st x more :=
  ((hu.chain ht).stop (stops_prefix_of_folBasic hx)).expr

theorem basic_step {m : Nat} (hT : StTerm env m) (hP : StParen env m) : StBasic env m := by
  intro e ts h hv hl p hp x more hx
  cases h with
  | paren e ts v1 k1 v2 k2 ho =>
    have hu := hP e ts ho hv.paren (by simp at hl; omega) ⟨.lparen, v1, k1⟩ ⟨.rparen, v2, k2⟩ x more rfl rfl hx
    refine ⟨_, _, rfl, ?_⟩
    have := hu.chain (p := p) rfl
    simpa [Spec.abstractExpr] using this
  | notParen e ts v0 k0 v1 k1 v2 k2 ho =>
    have hu := hP e ts ho hv.not.paren (by simp at hl; omega) ⟨.lparen, v1, k1⟩ ⟨.rparen, v2, k2⟩ x more rfl rfl hx
    have hn := unit_not (nt := ⟨.not, v0, k0⟩) rfl (by simp) (testLike_of e hv.not.paren) (hu.prefixExpr rfl hx)
    refine ⟨_, _, rfl, ?_⟩
    have := hn.chain (p := p) rfl
    simpa [Spec.abstractExpr] using this
  | notTerm e ts v0 k0 hterm hnl =>
    obtain ⟨t, ts', h, rfl, ht, hts, hu⟩ := hT e ts hterm hv.not.wt (by simp at hl; omega) x more
      (folTerm_of_folBasic hx)
    have hn := unit_not (nt := ⟨.not, v0, k0⟩) rfl (termStart_ne hts).2.2.1 (testLike_of e hv.not)
      (hu.prefixExpr ht hx)
    refine ⟨_, _, rfl, ?_⟩
    have := hn.chain (p := p) rfl
    simpa [Spec.abstractExpr] using this
  | cmp op l r tl tr v k hl' hr' =>
    have hlen : tl.length + tr.length + 1 ≤ m := by simp at hl; omega
    obtain ⟨t, ts', h, rfl, ht, hts, hu⟩ := hT l tl hl' hv.cmp.1.wt (by omega) ⟨copKind op, v, k⟩ (tr ++ x :: more)
      (folTerm_copKind op)
    refine ⟨t, ts' ++ ⟨copKind op, v, k⟩ :: tr, by simp, ?_⟩
    have hc : ChainRes env p (Spec.abstractExpr l) ⟨t, [], ts' ++ ⟨copKind op, v, k⟩ :: (tr ++ x :: more)⟩
        ⟨copKind op, v, k⟩ (tr ++ x :: more) := hu.chain ht
    have := hc.step (e' := Spec.abstractExpr (.cmp op l r)) (x := x) (more := more) (continues_cop op hp) ?_
    · simpa using this
    · intro left hle
      obtain ⟨t2, tr', h2, rfl, ht2, hts2, hu2⟩ := hT r tr hr' hv.cmp.2.wt (by omega) x more
        (folTerm_of_folBasic hx)
      obtain ⟨pr, st', hpe, hrd, hev⟩ := ((hu2.chain (p := precRelational) ht2).stop
        (stops_rel_of_folBasic hx)).expr
      have hcl : CmpLike env left.e := by rw [hle]; exact cmpLike_of hv.cmp.1
      have hcr : CmpLike env pr.e := by rw [hpe]; exact cmpLike_of hv.cmp.2
      refine ⟨_, st', ?_, hrd, infix_cmp_core left (op := op) rfl hts2 hcl hcr hev⟩
      simp [Spec.abstractExpr, hle, hpe]
  | test e ts hterm hnl =>
    obtain ⟨t, ts', h, rfl, ht, hts, hu⟩ := hT e ts hterm hv hl x more (folTerm_of_folBasic hx)
    exact ⟨t, ts', rfl, hu.chain ht⟩

/-! ### logical-and-exprs and logical-or-exprs -/

theorem and_step (hB : StBasic env (n + 1)) (hA : StAnd env n) : StAnd env (n + 1) := by
  intro e ts h hv hl p hp x more hx
  cases h with
  | one e ts hb =>
    exact hB e ts hb hv hl p (by simp [precAnd, precRelational] at hp ⊢; omega) x more (folBasic_of_folAnd hx)
  | and l r tl tr v k hl' hr' =>
    have hlen : tl.length + tr.length + 1 ≤ n + 1 := by simp at hl; omega
    obtain ⟨t, ts', rfl, hc⟩ := hB l tl hl' hv.and.1.wt (by omega) p
      (by simp [precAnd, precRelational] at hp ⊢; omega) ⟨.and, v, k⟩ (tr ++ x :: more) folBasic_and
    refine ⟨t, ts' ++ ⟨.and, v, k⟩ :: tr, by simp, ?_⟩
    have := hc.step (e' := Spec.abstractExpr (.and l r)) (x := x) (more := more) (continues_and hp) ?_
    · simpa using this
    · intro left hle
      obtain ⟨t2, tr', rfl, hc2⟩ := hA r tr hr' hv.and.2.wt (by omega) precAnd (Nat.le_refl _) x more hx
      obtain ⟨pr, st', hpe, hrd, hev⟩ := (hc2.stop (stops_and_of_folAnd hx)).expr
      have hcl : TestLike env left.e := by rw [hle]; exact testLike_of l hv.and.1
      have hcr : TestLike env pr.e := by rw [hpe]; exact testLike_of r hv.and.2
      refine ⟨_, st', ?_, hrd, infix_logical_core left (opTok := ⟨.and, v, k⟩) (op := .and) rfl hcl hcr hev⟩
      simp [Spec.abstractExpr, hle, hpe]

theorem or_step (hA : StAnd env (n + 1)) (hO : StOr env n) : StOr env (n + 1) := by
  intro e ts h hv hl p hp x more hx
  cases h with
  | one e ts hb =>
    exact hA e ts hb hv hl p (by simp [precAnd, precOr] at hp ⊢; omega) x more (folAnd_of_isCloser hx)
  | or l r tl tr v k hl' hr' =>
    have hlen : tl.length + tr.length + 1 ≤ n + 1 := by simp at hl; omega
    obtain ⟨t, ts', rfl, hc⟩ := hA l tl hl' hv.or.1.wt (by omega) p
      (by simp [precAnd, precOr] at hp ⊢; omega) ⟨.or, v, k⟩ (tr ++ x :: more) folAnd_or
    refine ⟨t, ts' ++ ⟨.or, v, k⟩ :: tr, by simp, ?_⟩
    have := hc.step (e' := Spec.abstractExpr (.or l r)) (x := x) (more := more) (continues_or hp) ?_
    · simpa using this
    · intro left hle
      obtain ⟨t2, tr', rfl, hc2⟩ := hO r tr hr' hv.or.2.wt (by omega) precOr (Nat.le_refl _) x more hx
      obtain ⟨pr, st', hpe, hrd, hev⟩ := (hc2.stop (stops_of_isCloser _ hx)).expr
      have hcl : TestLike env left.e := by rw [hle]; exact testLike_of l hv.or.1
      have hcr : TestLike env pr.e := by rw [hpe]; exact testLike_of r hv.or.2
      refine ⟨_, st', ?_, hrd, infix_logical_core left (opTok := ⟨.or, v, k⟩) (op := .or) rfl hcl hcr hev⟩
      simp [Spec.abstractExpr, hle, hpe]

end

/-! ### the induction on the length of the token list -/

/-- all statements at one length -/
structure PAll (env : Env) (n : Nat) : Prop where
  term : StTerm env n
  paren : StParen env n
  and_ : StAnd env n
  or_ : StOr env n
  segs : StSegs env (n + 1)

theorem pall_zero (env : Env) : PAll env 0 := by
  have hO : StOr env 0 := by
    intro e ts h _ hl
    obtain ⟨t, ts', rfl⟩ := h.start
    simp at hl
  refine ⟨?_, ?_, ?_, hO, parse_segs hO.expr⟩
  · intro e ts h _ hl
    obtain ⟨t, ts', rfl, _⟩ := h.start
    simp at hl
  · intro e ts h _ hl
    omega
  · intro e ts h _ hl
    obtain ⟨t, ts', rfl⟩ := h.start
    simp at hl

theorem pall_succ {env : Env} {n : Nat} (h : PAll env n) : PAll env (n + 1) := by
  have hT := term_step h.segs h.or_
  have hP := paren_step h.or_
  have hB := basic_step hT hP
  have hA := and_step hB h.and_
  have hO := or_step hA h.or_
  exact ⟨hT, hP, hA, hO, parse_segs hO.expr⟩

theorem pall (env : Env) : ∀ n, PAll env n
  | 0 => pall_zero env
  | n + 1 => pall_succ (pall env n)

/-- `parseFilterExpr precLowest` on the tokens of any well-typed logical-or-expr followed by a closer -/
theorem parse_expr (env : Env) {e : Spec.CExpr} {ts : List Token} (h : OrShape e ts) (hv : TestOK env e)
    (x : Token) (more : List Token) (hx : isCloser x.kind = true) :
    ∃ t ts', ts = t :: ts' ∧
      ExprRes env precLowest (Spec.abstractExpr e) ⟨t, [], ts' ++ x :: more⟩ x more :=
  (pall env ts.length).or_.expr e ts h hv (Nat.le_refl _) x more hx

/-- `parseQuery` on the tokens of any well-typed segment list followed by a token that starts no segment -/
theorem parse_segs_full (env : Env) : ∀ n, StSegs env n := fun n => by
  intro segs ts h hv hl
  exact (pall env ts.length).segs segs ts h hv (by omega)

end JPV.Proofs.Cf
