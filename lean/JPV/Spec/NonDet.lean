/-
`Spec.NonDet` — the set of nodelists RFC 9535 permits for a query on a value
when the unspecified orders are left open (§2.3.2.2 wildcard / §2.3.5.2 filter on
objects: members in any order; §2.5.2.2 descendant segment: the input node and
its descendants D1..Dn in any order in which every node comes before its
descendants and the elements of any array come in array order; the result is
the concatenation R1..Rn of the child-segment results on D1..Dn).
`outcomes` enumerates that set (with repetitions) — exponential, meant for the
small inputs of the exhaustive exploration.
-/
import JPV.Spec.Semantics
namespace JPV.Spec.ND

/-- every way of removing one element: (element, rest) -/
def picks {α} : List α → List (α × List α)
  | [] => []
  | x :: xs => (x, xs) :: (picks xs).map (fun p => (p.1, x :: p.2))

/-- all permutations (fuel = length) -/
def permsAux {α} : Nat → List α → List (List α)
  | 0, _ => [[]]
  | _ + 1, [] => [[]]
  | n + 1, xs => (picks xs).flatMap (fun p => (permsAux n p.2).map (fun r => p.1 :: r))

def perms {α} (xs : List α) : List (List α) := permsAux xs.length xs

/-- all concatenations choosing one alternative per position -/
def product {α} : List (List (List α)) → List (List α)
  | [] => [[]]
  | alts :: rest => alts.flatMap (fun a => (product rest).map (fun r => a ++ r))

/-- a frontier item of the visit order enumeration: a node that may be visited next, with the
right siblings that become available after it (array elements) -/
structure Item where
  node : Node
  later : List Node

/-- the items a node's children contribute once the node has been visited -/
def childItems (n : Node) : List Item :=
  match n.val with
  | .obj kvs => kvs.map (fun p => ⟨child n (.name p.1) p.2, []⟩)
  | .arr xs =>
    match arrChildren n xs with
    | [] => []
    | c :: cs => [⟨c, cs⟩]
  | _ => []

/-- all visit orders reachable from a frontier (fuel = number of nodes still to visit) -/
def orders : Nat → List Item → List (List Node)
  | 0, _ => [[]]
  | _ + 1, [] => [[]]
  | fuel + 1, frontier =>
    (picks frontier).flatMap (fun p =>
      let it := p.1
      let next := (match it.later with
        | [] => []
        | s :: ss => [⟨s, ss⟩]) ++ childItems it.node
      (orders fuel (p.2 ++ next)).map (fun r => it.node :: r))

/-- all permitted orders D1..Dn of a node and its descendants -/
def visitOrders (n : Node) : List (List Node) :=
  (orders (n.val.size + 1) (childItems n)).map (fun r => n :: r)

/-- permitted results of one selector on one node -/
def selOutcomes (reg : Registry) (root : Json) (s : Selector) (n : Node) : List (List Node) :=
  match s with
  | .wild =>
    (match n.val with
     | .obj _ => perms (children n)
     | _ => [children n])
  | .filter e =>
    let kept := (children n).filter (fun c => testOf reg root c.val e)
    (match n.val with
     | .obj _ => perms kept
     | _ => [kept])
  | s => [selectSel reg root s n]

def selsOutcomes (reg : Registry) (root : Json) (sels : List Selector) (n : Node) : List (List Node) :=
  product (sels.map (fun s => selOutcomes reg root s n))

/-- permitted results of one segment applied to a nodelist -/
def segOutcomes (reg : Registry) (root : Json) (seg : Segment) (ns : List Node) : List (List Node) :=
  match seg with
  | .child sels => product (ns.map (selsOutcomes reg root sels))
  | .desc sels =>
    product (ns.map (fun n =>
      (visitOrders n).flatMap (fun ord => product (ord.map (selsOutcomes reg root sels)))))

/-- permitted results of a query (with repetitions) -/
def outcomesFrom (reg : Registry) (root : Json) : List Segment → List (List Node) → List (List Node)
  | [], acc => acc
  | seg :: segs, acc => outcomesFrom reg root segs (acc.flatMap (segOutcomes reg root seg))

def outcomes (reg : Registry) (q : Query) (v : Json) : List (List Node) :=
  outcomesFrom reg v q [[⟨[], v⟩]]

end JPV.Spec.ND
