import JPV.Tables.Common
namespace JPV.Tables
open JPV JPV.Impl

/-- the regex engine is called with the pattern and the subject only (no flags), and the
only exceptions swallowed are `TypeError` and `re.error` -/
theorem re_calls_model : Generated.reCalls =
    [("function_extensions/match.py", "re.fullmatch", 2, []),
     ("function_extensions/match.py", "except", 1, ["(TypeError,re.error)"]),
     ("function_extensions/search.py", "re.search", 2, []),
     ("function_extensions/search.py", "except", 1, ["(TypeError,re.error)"])] := by decide +kernel

end JPV.Tables
