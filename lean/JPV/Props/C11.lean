/-
C11 — match() and search() implement I-Regexp whole-string / substring matching.

Property text: "For every I-Regexp pattern built from literals, escaped
metacharacters, '.', character classes (ranges, negation, category escapes),
groups, alternation and quantifiers, and every string, match() is true iff the
entire string is in the pattern's language and search() is true iff some
substring is, with '.' matching any character except LF and CR and class contents
taken literally. If either argument is not a string, or the pattern is not a valid
I-Regexp, both are false; neither ever raises."

Partial by construction: the two engines (`regex`, `iregexp_check`) are third-party
compiled code, *modelled as parameters* (`Impl.Engines`), not verified; they are
compared with `Spec.IRegexp` (RFC 9485 grammar + derivative semantics) by the
exploration on every run.  Proved here:
  * `C11_logic`: whatever the engines do, `match`/`search` return a boolean and never
    raise; they are false when the pattern is not a string, when `check` refuses it,
    and when the subject is not a string;
  * `C11_translation`: on every pattern the RFC 9485 grammar derives, `map_re` rewrites
    exactly the dot *atoms* (not dots inside character classes, not escaped dots) and
    copies everything else verbatim: `mapRe p = Spec translation of the parse of p`;
  * `C11_semantics`: the derivative matcher used as the oracle is language membership
    for the inductive semantics `Matches` ('.' = any character except LF and CR,
    classes literal, counted repetition), so "entire string in the language" and "some
    substring in the language" are what `fullMatch` and `searchMatch` decide.
-/
import JPV.Impl.Regex
import JPV.Spec.IRegexp
import JPV.Proofs.Regex
import JPV.Proofs.IRegexpAbnfEquiv
namespace JPV.Props
open JPV JPV.Impl

/-- never raises, always a boolean; false for a non-string pattern, a refused pattern or a non-string subject -/
theorem C11_logic (eng : Engines) (subject pattern : Obj) :
    (∃ b, matchBody eng [subject, pattern] = .ok (.val (.bool b))) ∧
    (∃ b, searchBody eng [subject, pattern] = .ok (.val (.bool b))) ∧
    ((∀ p, pattern ≠ .val (.str p)) → matchBody eng [subject, pattern] = .ok (.val (.bool false)) ∧
        searchBody eng [subject, pattern] = .ok (.val (.bool false))) ∧
    (∀ p, pattern = .val (.str p) → eng.check p = false →
        matchBody eng [subject, pattern] = .ok (.val (.bool false)) ∧ searchBody eng [subject, pattern] = .ok (.val (.bool false))) ∧
    ((∀ s, subject ≠ .val (.str s)) → matchBody eng [subject, pattern] = .ok (.val (.bool false)) ∧
        searchBody eng [subject, pattern] = .ok (.val (.bool false))) :=
  Proofs.regex_logic eng subject pattern

/-- `map_re` rewrites exactly the dot atoms of a valid I-Regexp -/
theorem C11_translation (p : Str) (h : (Spec.IRe.parse p).isSome = true) :
    Impl.mapRe p = Proofs.translateDots p := Proofs.mapRe_translation p h

/-- the oracle's matcher is membership in the pattern's language -/
theorem C11_semantics (p : Str) (r : Spec.IRe.Re) (hp : Spec.IRe.parse p = some r) (s : List Spec.IRe.CChar) :
    (Spec.IRe.fullMatch r s = true ↔ Proofs.Matches r s) ∧
    (Spec.IRe.searchMatch r s = true ↔ ∃ pre mid post, s = pre ++ mid ++ post ∧ Proofs.Matches r mid) :=
  Proofs.deriv_correct r (Proofs.parse_reOk p r hp) s

/-- the oracle's pattern recogniser decides exactly the DECLARATIVE grammar of RFC 9485 §4 (`Spec/IRegexpAbnf.lean`:
one inductive per non-terminal, no lookahead, no fuel), with the same syntax tree; the grammar is unambiguous -/
theorem C11_grammar (p : Str) (r : Spec.IRe.Re) :
    Spec.IRe.parse p = some r ↔ Spec.IReAbnf.IRegexp p r := Proofs.ire_parse_iff p r

theorem C11_grammar_unambiguous (p : Str) (r r' : Spec.IRe.Re) :
    Spec.IReAbnf.IRegexp p r → Spec.IReAbnf.IRegexp p r' → r = r' := Proofs.ire_unambiguous p r r'

/-- `C11_translation` and `C11_semantics` for every pattern the declarative grammar derives -/
theorem C11_translation_abnf (p : Str) (r : Spec.IRe.Re) (h : Spec.IReAbnf.IRegexp p r) :
    Impl.mapRe p = Proofs.translateDots p :=
  C11_translation p (by rw [(C11_grammar p r).2 h]; rfl)

theorem C11_semantics_abnf (p : Str) (r : Spec.IRe.Re) (h : Spec.IReAbnf.IRegexp p r) (s : List Spec.IRe.CChar) :
    (Spec.IRe.fullMatch r s = true ↔ Proofs.Matches r s) ∧
    (Spec.IRe.searchMatch r s = true ↔ ∃ pre mid post, s = pre ++ mid ++ post ∧ Proofs.Matches r mid) :=
  C11_semantics p r ((C11_grammar p r).2 h) s

-- not vacuous: a pattern with a class, a category escape, a counted group and an alternative is derivable
example : ∃ r, Spec.IReAbnf.IRegexp "[^a-c\\p{Lu}-]+(x|\\.){2,3}".toList r := by
  cases h : Spec.IRe.parse "[^a-c\\p{Lu}-]+(x|\\.){2,3}".toList with
  | some r => exact ⟨r, (C11_grammar _ r).1 h⟩
  | none => exact absurd h (by decide +kernel)

end JPV.Props
