"""Seeded generators: JSON documents, RFC 9535 query texts (grammar-directed,
mostly valid), environments.  Every random choice comes from the Random passed in."""
from __future__ import annotations

import random
import re

NAMES = ["a", "b", "c", "d", "ab", "", "a b", "'", '"', "\\", "é", "😀", "\n", "\x00", "_x", "A1",
         # every supplementary plane parity (surrogate arithmetic), and quotes at the ends
         "\U00020000", "\U000e0001x", "\U0010ffff", "x\"", "\"x", "y'", "\\",
         # canonically equivalent but different scalar sequences (no normalisation in RFC 9535), compatibility characters
         "e\u0301", "\u212b", "\u00c5", "A\u030a", "\uf900", "\u8c48", "\ufb01", "fi",
         # a backslash next to a quote, several backslashes
         "a\\\"b", "\\\"", "\\'", "\\\\'", "\\\\\\\""]
SIMPLE_NAMES = ["a", "b", "c", "d"]

SCALARS = [
    None, True, False, 0, 1, -1, 2, 3, 10, 0.0, -0.0, 1.0, 1.5, -2.5, 2.0,
    "", "a", "b", "ab", "abc", "A", "é", "😀", "a😀", "0", "1", "true", "null",
    2**53 - 1, -(2**53) + 1, 1e100, 5e-324, [], {},
]


def gen_doc(rng: random.Random, depth=3, width=4, names=SIMPLE_NAMES, scalars=SCALARS):
    r = rng.random()
    if depth <= 0 or r < 0.35:
        return _copy(rng.choice(scalars))
    if r < 0.68:
        return [gen_doc(rng, depth - 1, width, names, scalars) for _ in range(rng.randint(0, width))]
    d = {}
    for _ in range(rng.randint(0, width)):
        d[rng.choice(names)] = gen_doc(rng, depth - 1, width, names, scalars)
    return d


def gen_container(rng, depth=3, width=4, names=SIMPLE_NAMES, scalars=SCALARS):
    while True:
        d = gen_doc(rng, depth, width, names, scalars)
        if isinstance(d, (list, dict)):
            return d


def _copy(v):
    if isinstance(v, list):
        return list(v)
    if isinstance(v, dict):
        return dict(v)
    return v


# ---------------------------------------------------------------------------------
# query text generator


def _hex4(cp, rng):
    h = format(cp, "04x")
    return "".join(c.upper() if rng.random() < 0.5 else c for c in h)


def quote_name(rng: random.Random, s: str, plain=False) -> str:
    """A string literal denoting `s`, with random quote style and escape spellings."""
    q = rng.choice("'\"")
    out = []
    for ch in s:
        cp = ord(ch)
        if ch == q:
            out.append("\\" + ch)
        elif ch == "\\":
            out.append("\\\\")
        elif cp < 0x20:
            short = {8: "b", 9: "t", 10: "n", 12: "f", 13: "r"}
            if cp in short and rng.random() < 0.6:
                out.append("\\" + short[cp])
            else:
                out.append("\\u" + _hex4(cp, rng))
        elif not plain and rng.random() < (0.45 if cp > 0xFFFF else 0.08):
            if cp > 0xFFFF:
                v = cp - 0x10000
                out.append("\\u" + _hex4(0xD800 + (v >> 10), rng) + "\\u" + _hex4(0xDC00 + (v & 0x3FF), rng))
            else:
                out.append("\\u" + _hex4(cp, rng))
        elif ch == "/" and rng.random() < 0.3:
            out.append("\\/")
        else:
            out.append(ch)
    return q + "".join(out) + q


def is_shorthand(s: str) -> bool:
    if not s:
        return False

    def first(c):
        return c.isascii() and (c.isalpha() or c == "_") or (ord(c) >= 0x80 and not 0xD800 <= ord(c) <= 0xDFFF)

    def rest(c):
        return first(c) or (c.isascii() and c.isdigit())

    return first(s[0]) and all(rest(c) for c in s[1:])


class QueryGen:
    def __init__(self, rng, names=SIMPLE_NAMES, fns=None, blanks=0.15, max_filter_depth=2,
                 literals=None):
        self.rng = rng
        self.names = names
        self.fns = fns if fns is not None else [
            ("length", ["V"], "V"), ("count", ["N"], "V"), ("value", ["N"], "V")]
        self.blanks = blanks
        self.max_filter_depth = max_filter_depth
        self.literals = literals

    # -- lexical helpers
    def S(self):
        r = self.rng
        if r.random() >= self.blanks:
            return ""
        return "".join(r.choice(" \t\n\r ") for _ in range(r.randint(1, 2)))

    def name(self):
        return self.rng.choice(self.names)

    def int_(self, lo=-3, hi=4):
        r = self.rng
        if r.random() < 0.06:
            return str(r.choice([2**53 - 1, -(2**53) + 1, 100, -100]))
        return str(r.randint(lo, hi))

    def number_literal(self):
        r = self.rng
        if self.literals and r.random() < 0.7:
            return r.choice(self.literals)
        k = r.random()
        if k < 0.55:
            return str(r.randint(-3, 12))
        if k < 0.7:
            return r.choice(["0", "-0", "1.0", "1.5", "-2.5", "0.0", "-0.0", "2.00", "10", "100"])
        if k < 0.85:
            return r.choice(["1e0", "1e1", "2E0", "1e+1", "15e-1", "0e0", "0E+3", "-1e0", "1.5e0", "25e-1",
                             "1.0E+0", "0.1e1", "100e-2", "1e2", "-0e1"])
        return r.choice(["9007199254740991", "-9007199254740991", "1e100", "5e-324", "0.5", "3", "2"])

    def literal(self):
        r = self.rng
        k = r.random()
        if k < 0.45:
            return self.number_literal()
        if k < 0.75:
            return quote_name(r, r.choice(["", "a", "b", "ab", "abc", "A", "é", "😀", "0", "1", "'", '"', "\\", "\n"]))
        return r.choice(["true", "false", "null"])

    # -- segments and selectors
    def query(self, root="$", nseg=None, depth=0, singular=False):
        r = self.rng
        if nseg is None:
            nseg = r.choice([0, 1, 1, 2, 2, 3]) if depth else r.choice([1, 1, 2, 2, 3, 4])
        out = [root]
        for _ in range(nseg):
            out.append(self.S() if depth == 0 or True else "")
            out.append(self.singular_segment() if singular else self.segment(depth))
        return "".join(out)

    def singular_segment(self):
        r = self.rng
        k = r.random()
        nm = self.name()
        if k < 0.4 and is_shorthand(nm):
            return "." + nm
        if k < 0.75:
            return "[" + quote_name(r, nm) + "]"
        return "[" + self.int_() + "]"

    def segment(self, depth):
        r = self.rng
        k = r.random()
        dd = ".." if r.random() < 0.2 else None
        if k < 0.3:
            nm = self.name()
            if is_shorthand(nm):
                return (dd or ".") + nm
            return (dd or "") + "[" + quote_name(r, nm) + "]"
        if k < 0.42:
            return (dd or ".") + "*"
        n = r.choice([1, 1, 1, 2, 3])
        sels = [self.selector(depth) for _ in range(n)]
        body = (self.S() + "," + self.S()).join(sels)
        return (dd or "") + "[" + self.S() + body + self.S() + "]"

    def selector(self, depth):
        r = self.rng
        k = r.random()
        if k < 0.25:
            return quote_name(r, self.name())
        if k < 0.42:
            return self.int_()
        if k < 0.6:
            return self.slice_()
        if k < 0.7:
            return "*"
        if depth >= self.max_filter_depth:
            return "*"
        return "?" + self.S() + self.logical_or(depth + 1)

    def slice_(self):
        r = self.rng
        a = self.int_() if r.random() < 0.6 else ""
        b = self.int_() if r.random() < 0.6 else ""
        out = a + self.S() + ":" + self.S() + b
        if r.random() < 0.5:
            c = self.int_(-3, 3) if r.random() < 0.8 else ""
            out += self.S() + ":" + (self.S() + c if c else "")
        return out

    # -- filter expressions
    def logical_or(self, depth, budget=3):
        r = self.rng
        n = r.choice([1, 1, 1, 2]) if budget > 0 else 1
        return (self.S() + "||" + self.S()).join(self.logical_and(depth, budget - 1) for _ in range(n))

    def logical_and(self, depth, budget):
        r = self.rng
        n = r.choice([1, 1, 1, 2]) if budget > 0 else 1
        return (self.S() + "&&" + self.S()).join(self.basic(depth, budget - 1) for _ in range(n))

    def basic(self, depth, budget):
        r = self.rng
        k = r.random()
        if k < 0.15 and budget > 0:
            neg = "!" + self.S() if r.random() < 0.4 else ""
            return neg + "(" + self.S() + self.logical_or(depth, budget - 1) + self.S() + ")"
        if k < 0.6:
            return self.comparison(depth)
        neg = "!" + self.S() if r.random() < 0.3 else ""
        return neg + self.test(depth)

    def comparison(self, depth):
        op = self.rng.choice(["==", "!=", "<", "<=", ">", ">="])
        return self.comparable(depth) + self.S() + op + self.S() + self.comparable(depth)

    def comparable(self, depth):
        r = self.rng
        k = r.random()
        if k < 0.4:
            return self.literal()
        if k < 0.8:
            return self.query(r.choice("@@@$"), nseg=r.choice([0, 1, 1, 2]), depth=depth, singular=True)
        c = self.call("V", depth)
        return c if c is not None else self.literal()

    def test(self, depth):
        r = self.rng
        if r.random() < 0.75:
            return self.query(r.choice("@@@$"), depth=depth)
        t = r.choice(["L", "N"])
        c = self.call(t, depth)
        return c if c is not None else self.query("@", depth=depth)

    def call(self, ret, depth, nest=0):
        r = self.rng
        cands = [f for f in self.fns if f[2] == ret]
        if not cands:
            return None
        name, ats, _ = r.choice(cands)
        args = [self.arg(t, depth, nest) for t in ats]
        return name + "(" + self.S() + (self.S() + "," + self.S()).join(args) + self.S() + ")"

    def arg(self, t, depth, nest):
        r = self.rng
        if t == "V":
            k = r.random()
            if k < 0.3:
                return self.literal()
            if k < 0.8 or nest >= 1:
                return self.query(r.choice("@@@$"), nseg=r.choice([0, 1, 1, 2]), depth=depth, singular=True)
            c = self.call("V", depth, nest + 1)
            return c if c is not None else self.literal()
        if t == "N":
            if r.random() < 0.85 or nest >= 1:
                return self.query(r.choice("@@@$"), depth=depth)
            c = self.call("N", depth, nest + 1)
            return c if c is not None else self.query("@", depth=depth)
        # logical
        k = r.random()
        if k < 0.5 or nest >= 1:
            return self.logical_or(depth, 1)
        c = self.call(r.choice(["L", "N"]), depth, nest + 1)
        return c if c is not None else self.logical_or(depth, 1)


def structural_query(rng, names=SIMPLE_NAMES, blanks=0.15):
    g = QueryGen(rng, names=names, blanks=blanks, max_filter_depth=0)
    return g.query()


PROBE_FNS = [
    ("length", ["V"], "V", "length"),
    ("count", ["N"], "V", "count"),
    ("value", ["N"], "V", "value"),
    ("vf", ["V"], "V", "pick0"),
    ("lf", ["L"], "L", "pick0"),
    ("nf", ["N"], "N", "pick0"),
    ("vvl", ["V", "V"], "L", "const"),
    ("lnv", ["L", "N"], "V", "const"),
    ("zl", [], "L", "const"),
    # names that begin with a keyword literal (D33)
    ("truex", ["V"], "L", "const"),
    ("nullify", ["V"], "V", "pick0"),
    ("false_1", ["N"], "L", "const"),
]


# ---------------------------------------------------------------------------------
# invalid / arbitrary query strings

ALPHABET = list("$@.[]()?*,:'\"\\!=<>&| \t\n-+0123456789eEabcdftnrlsu_/") + ["é", "😀", "\x00", "\x1f", "\x7f", "A", "Z", "x", "{", "}", "%", "\u00a0", "\u2028", "\u0663", "\uff11", "\U0001d7cf", "\u0967", "\u00b2", "\u2160"]
TOKENS = ["$", "@", ".", "..", "[", "]", "(", ")", "?", "*", ",", ":", "'a'", '"b"', "!", "==", "!=", "<", "<=", ">", ">=",
          "&&", "||", " ", "\n", "-", "0", "1", "-1", "01", "-0", "1.5", "1e2", "1E-2", "0e0", "true", "false", "null",
          "True", "a", "b", "length", "count", "value", "match", "search", "length(", "count(", "foo(", "\\", "\\u0061",
          "'", '"', "é", "😀", "=", "&", "|", "1:", ":2", "::", "..*", ".*", "[*]", "[?", "@.a", "$.b", "0.0", "-0.0", "00",
          "1.", ".5", "1e", "1e+", "+1", "--1", "''", '""',
          # numbers spelled with decimal digits outside %x30-39 (lenient digit classes accept them, float()/int() too)
          "1.\u0665", "\u0661.5", "1e-\u0662", "\uff11.5", "\u0663", "\U0001d7cf.\U0001d7d3", "1.5e\u0661", "-\u0661", "1\u0660", "\u0967.\u0967",
          "1.5\u0660", "2e-1\u0663", "0.\uff10", "{", "}", "{}", "{0}", "{a}", "%s", "%(a)s", ".a{", ".a\u00a0", "..x\u2028", ".\u3000"]


def mutate(rng: random.Random, q: str) -> str:
    """One random edit: delete / insert / replace / duplicate / transpose a character or a token."""
    if not q:
        return rng.choice(TOKENS)
    k = rng.random()
    i = rng.randrange(len(q))
    if k < 0.1:
        m = structural(rng, q)
        if m is not None:
            return m
    if k < 0.25:
        return q[:i] + q[i + 1 :]
    if k < 0.5:
        return q[:i] + rng.choice(ALPHABET) + q[i:]
    if k < 0.65:
        return q[:i] + rng.choice(ALPHABET) + q[i + 1 :]
    if k < 0.75:
        return q[:i] + q[i] + q[i:]
    if k < 0.85 and len(q) > 1:
        i = rng.randrange(len(q) - 1)
        return q[:i] + q[i + 1] + q[i] + q[i + 2 :]
    if k < 0.95:
        return q[:i] + rng.choice(TOKENS) + q[i:]
    j = rng.randrange(i, len(q))
    return q[:i] + q[j:]


_OPERAND = re.compile(r"""(?:[@$](?:\.[A-Za-z_]\w*|\[\d+\]|\['[^'\\]*'\])*|\b[a-z_]\w*\([^()]*\)|-?\d+(?:\.\d+)?|'[^'\\]*'|"[^"\\]*"|\btrue\b|\bfalse\b|\bnull\b)""")


def structural(rng: random.Random, q: str):
    """One edit that keeps the text well bracketed: an operand (query, call, literal) gains parentheses or a negation,
    is doubled with an operator, or swaps sides with its neighbour — almost-valid filters whose verdict hangs on one
    grammar rule (comparands are not parenthesized or negated, literals are not tests, ...)."""
    ms = list(_OPERAND.finditer(q))
    ms = [m for m in ms if m.end() > m.start()]
    if not ms:
        return None
    m = rng.choice(ms)
    t = m.group(0)
    r = rng.choice(["(" + t + ")", "!" + t, "!(" + t + ")", "((" + t + "))", "( " + t + " )", t + " == " + t, t + " && " + t,
                    "(" + t + " || " + t + ")", t + " < (" + t + ")", "(" + t + ") >= " + t, "!!" + t, "-" + t, "(" + t, t + ")"])
    return q[: m.start()] + r + q[m.end() :]


def soup(rng: random.Random, n=None) -> str:
    n = n or rng.randint(1, 8)
    return "$" * (rng.random() < 0.8) + "".join(rng.choice(TOKENS) for _ in range(n))
