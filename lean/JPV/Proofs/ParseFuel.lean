/-
`Proofs.ParseFuel` — the parser's fuel is sufficient: every function, started with fuel at
least `c + 4 * live` (`live` = the number of non-EOF tokens the stream still holds, `c` a
constant of the function), never runs out of fuel.
-/
import JPV.Proofs.ParseWp
import JPV.Proofs.ParseSafeInv
namespace JPV.Impl
open JPV

/-- the number of non-EOF tokens held by the stream (the current one included) -/
def TStream.live (st : TStream) : Nat := st.all.countP (fun t => t.kind ≠ .eof)

abbrev InvF (st : TStream) : Prop := SInv (fun _ => True) st

def NoFuel (e : Err) : Prop := e.kind ≠ .fuel

section
variable {st : TStream}

theorem TStream.live_next (st : TStream) :
    st.next.2.live ≤ st.live ∧ (st.cur.kind ≠ .eof → st.next.2.live + 1 = st.live) := by
  obtain ⟨cur, pushed, rest⟩ := st
  cases pushed with
  | cons p ps =>
    simp only [TStream.next, TStream.live, TStream.all, List.countP_cons, List.countP_append]
    by_cases hc : cur.kind = .eof <;> simp [hc] <;> omega
  | nil =>
    by_cases hc : cur.kind = .eof
    · simp [TStream.next, hc]
    · cases rest with
      | nil => simp [TStream.next, hc, TStream.live, TStream.all, eofTok]
      | cons r rs => simp [TStream.next, hc, TStream.live, TStream.all, List.countP_cons]

theorem TStream.live_peek (h : InvF st) : st.peek.2.live = st.live := by
  obtain ⟨cur, pushed, rest⟩ := st
  have hs := h.short
  simp only at hs
  cases pushed with
  | cons p ps =>
    cases ps with
    | cons _ _ => simp at hs
    | nil => simp [TStream.peek, TStream.next, TStream.push, TStream.live, TStream.all]
  | nil =>
    by_cases hc : cur.kind = .eof
    · simp [TStream.peek, TStream.next, TStream.push, TStream.live, TStream.all, hc]
    · cases rest with
      | nil =>
        obtain ⟨t, hl, hk⟩ := h.last
        simp [TStream.all] at hl
        subst hl
        exact absurd hk hc
      | cons r rs => simp [TStream.peek, TStream.next, TStream.push, TStream.live, TStream.all, hc]

theorem TStream.peek_pushed {q : Token} (hq : st.pushed = [q]) : st.peek.1 = q := by
  obtain ⟨cur, pushed, rest⟩ := st
  simp only at hq; subst hq
  rfl

theorem TStream.live_push (he : st.pushed = []) (t : Token) :
    (st.push t).live ≤ st.live + 1 ∧ (st.push t).pushed = [st.cur] ∧ (st.push t).cur = t := by
  obtain ⟨cur, pushed, rest⟩ := st
  simp only at he; subst he
  refine ⟨?_, rfl, rfl⟩
  simp only [TStream.push, TStream.live, TStream.all, List.countP_cons, List.nil_append, List.cons_append]
  split <;> split <;> omega

theorem TStream.live_init {toks : List Token} (hl : ∃ t, toks.getLast? = some t ∧ t.kind = .eof) :
    (TStream.init toks).live + 1 ≤ toks.length := by
  obtain ⟨t, hl, hk⟩ := hl
  cases toks with
  | nil => simp at hl
  | cons x xs =>
    have : TStream.init (x :: xs) = { cur := x, pushed := [], rest := xs } := by
      simp [TStream.init, TStream.next, initTok]
    rw [this]
    simp only [TStream.live, TStream.all, List.nil_append]
    have hmem : t ∈ x :: xs := List.mem_of_getLast? hl
    have : List.countP (fun t : Token => decide (t.kind ≠ .eof)) (x :: xs) < (x :: xs).length := by
      rw [List.countP_eq_length_filter]
      exact List.length_filter_lt_length_iff_exists.mpr ⟨t, hmem, by simp [hk]⟩
    omega

end

/-! ### atoms -/

section
variable {α : Type} {Q : α → TStream → Prop} {E : Err → Prop} {st : TStream}

theorem f_nextTok {Q : Token → TStream → Prop} (h : InvF st)
    (k : ∀ st', InvF st' → st'.pushed = [] → (∀ p, st.pushed = [p] → st'.cur = p) →
      st'.live ≤ st.live → (st.cur.kind ≠ .eof → st'.live + 1 = st.live) → Q st.cur st') :
    wp nextTok Q E st :=
  wp_nextTok.mpr (k _ h.next.1 h.next.2.1 (fun _ hp => h.next_cur hp) st.live_next.1 st.live_next.2)

theorem f_peekTok {Q : Token → TStream → Prop} (h : InvF st)
    (k : ∀ p st', InvF st' → st'.pushed = [p] → st'.cur = st.cur → st'.live = st.live →
      (∀ q, st.pushed = [q] → p = q) → Q p st') :
    wp peekTok Q E st :=
  wp_peekTok.mpr (k _ _ h.peek'.1 h.peek'.2.1 h.peek'.2.2 (TStream.live_peek h)
    (fun _ hq => TStream.peek_pushed hq))

theorem f_pushTok {Q : Unit → TStream → Prop} {t : Token} (h : InvF st) (he : st.pushed = [])
    (k : ∀ st', InvF st' → st'.pushed = [st.cur] → st'.cur = t → st'.live ≤ st.live + 1 → Q () st') :
    wp (pushTok t) Q E st :=
  wp_pushTok.mpr (k _ (h.push he trivial) (TStream.live_push he t).2.1 (TStream.live_push he t).2.2
    (TStream.live_push he t).1)

/-- use the specification of a state-preserving action -/
theorem f_pres {m : P α} {R : α → Prop}
    (h : wp m (fun a st' => st' = st ∧ R a) E st) (k : ∀ a, R a → Q a st) : wp m Q E st :=
  wp_mono h (fun a _ ⟨h1, h2⟩ => h1 ▸ k a h2) (fun _ h => h)

theorem f_call {m : P α} {R : α → TStream → Prop}
    (h : wp m (fun a st' => InvF st' ∧ R a st') E st)
    (k : ∀ a st', InvF st' → R a st' → Q a st') : wp m Q E st :=
  wp_mono h (fun a st' h => k a st' h.1 h.2) (fun _ h => h)

end

/-- a `for` loop whose body does not touch the stream -/
theorem f_forIn_pres {γ σ : Type} {Q : σ → TStream → Prop} {E : Err → Prop} {st : TStream}
    (l : List γ) (init : σ) (body : γ → σ → P (ForInStep σ))
    (hb : ∀ x s, wp (body x s) (fun _ st' => st' = st ∧ True) E st) (k : ∀ a, Q a st) :
    wp (forIn l init body) Q E st := by
  refine wp_mono (wp_forIn (fun st' => st' = st) l init body ?_ rfl) (fun a st' h => h ▸ k a) (fun _ h => h)
  intro x s st' h
  subst h
  exact wp_mono (hb x s) (fun _ _ h => h.1) (fun _ h => h)

theorem NoFuel.mk {k : ErrKind} {t : Option Token} (h : k ≠ .fuel) : NoFuel ⟨k, t⟩ := h

/-- `cur` is not the EOF token -/
syntax "noneof_tac" : tactic
macro_rules | `(tactic| noneof_tac) => `(tactic| first
  | assumption
  | (intro hne; simp [*] at hne; done)
  | (intro hne; simp_all; done)
  | fail "noneof_tac")

/-- actions with a known specification -/
syntax "f_atom" : tactic
macro_rules | `(tactic| f_atom) => `(tactic| first
  | (refine wp_cur.mpr ?_)
  | (refine f_peekTok (by assumption) ?_; intro _ _ _ _ _ _ _)
  | (refine f_pushTok (by assumption) (by assumption) ?_; intro _ _ _ _ _))

syntax "f_step" : tactic
syntax "f_step_core" : tactic
syntax "f_close" : tactic
macro_rules | `(tactic| f_step) => `(tactic| first
  | (with_reducible (refine f_nextTok (by assumption) ?_; intro _ _ _ _ _ _);
     try (have := ‹_ ≠ TokKind.eof → _› (by noneof_tac)))
  | with_reducible f_step_core
  | f_close
  | dsimp only
  | split)

macro_rules | `(tactic| f_close) => `(tactic| first
  | exact NoFuel.mk (fun h => by cases h)
  | exact ⟨rfl, True.intro⟩
  | exact ⟨rfl, by assumption⟩
  | exact ⟨by assumption, by omega⟩)

macro_rules | `(tactic| f_step_core) => `(tactic| first
  | assumption
  | refine wp_failAt.mpr ?_
  | refine wp_keyError.mpr ?_
  | refine wp_throw.mpr ?_
  | refine wp_bind.mpr ?_
  | refine wp_pure.mpr ?_
  | f_atom)

macro "f_auto" : tactic => `(tactic| repeat' f_step)

theorem g_expect (k : TokKind) (st : TStream) :
    wp (expect k) (fun _ st' => st' = st ∧ st.cur.kind = k) NoFuel st := by
  unfold expect
  f_auto
  rename_i h
  exact ⟨rfl, Decidable.not_not.mp h⟩

theorem g_expectPeek (k : TokKind) (st : TStream) (h : InvF st) :
    wp (expectPeek k) (fun _ st' => InvF st' ∧ (st'.live = st.live ∧ st'.cur = st.cur ∧
      ∃ p, st'.pushed = [p] ∧ p.kind = k)) NoFuel st := by
  unfold expectPeek
  f_auto
  rename_i hk
  exact ⟨by assumption, by assumption, by assumption, _, by assumption, Decidable.not_not.mp hk⟩

theorem g_expectPeekNot (k : TokKind) (st : TStream) (h : InvF st) :
    wp (expectPeekNot k) (fun _ st' => InvF st' ∧ (st'.live = st.live ∧ st'.cur = st.cur)) NoFuel st := by
  unfold expectPeekNot
  f_auto
  exact ⟨by assumption, by assumption, by assumption⟩

theorem g_maybeIndex (t : Token) (st : TStream) :
    wp (maybeIndex t) (fun r st' => st' = st ∧ (r = true → t.kind = .index)) NoFuel st := by
  unfold maybeIndex
  f_auto
  · exact ⟨rfl, fun _ => by assumption⟩
  · exact ⟨rfl, fun h => by cases h⟩

theorem g_intOf (t : Token) (st : TStream) :
    wp (intOf t) (fun _ st' => st' = st ∧ True) NoFuel st := by
  unfold intOf
  f_auto

theorem g_decodeAt (t : Token) (st : TStream) :
    wp (decodeAt t) (fun _ st' => st' = st ∧ True) NoFuel st := by
  unfold decodeAt
  f_auto

theorem g_raiseForUncompared (env : Env) (x : PExpr) (st : TStream) :
    wp (raiseForUncompared env x) (fun _ st' => st' = st ∧ True) NoFuel st := by
  unfold raiseForUncompared
  f_auto

theorem g_raiseForNonComparable (env : Env) (x : PExpr) (tok : Token) (st : TStream) :
    wp (raiseForNonComparable env x tok) (fun _ st' => st' = st ∧ True) NoFuel st := by
  unfold raiseForNonComparable
  f_auto

theorem g_validateSignature (env : Env) (tok : Token) (args : List Expr) (st : TStream) :
    wp (validateSignature env tok args) (fun _ st' => st' = st ∧ True) NoFuel st := by
  unfold validateSignature
  f_auto

macro_rules | `(tactic| f_atom) => `(tactic| first
  | (refine f_pres (g_expect _ _) ?_; intro _ _)
  | (refine f_call (g_expectPeek _ _ (by assumption)) ?_; rintro _ _ _ ⟨_, _, _, _, _⟩)
  | (refine f_call (g_expectPeekNot _ _ (by assumption)) ?_; rintro _ _ _ ⟨_, _⟩)
  | (refine f_pres (g_maybeIndex _ _) ?_; intro _ _)
  | (refine f_pres (g_intOf _ _) ?_; intro _ _)
  | (refine f_pres (g_decodeAt _ _) ?_; intro _ _)
  | (refine f_pres (g_raiseForUncompared _ _ _) ?_; intro _ _)
  | (refine f_pres (g_raiseForNonComparable _ _ _ _) ?_; intro _ _)
  | (refine f_pres (g_validateSignature _ _ _ _) ?_; intro _ _)
  | (refine f_forIn_pres _ _ _ ?_ ?_ <;> intros))

theorem g_parseLiteral (h : Handler) (st : TStream) :
    wp (parseLiteral h) (fun _ st' => st' = st ∧ True) NoFuel st := by
  unfold parseLiteral
  f_auto

/-- `parseSlice` leaves the token after the slice both current and queued -/
theorem g_parseSlice (env : Env) (st : TStream) (hi : InvF st) :
    wp (parseSlice env) (fun _ st' => InvF st' ∧ (st'.live ≤ st.live ∧ st'.pushed = [st'.cur])) NoFuel st := by
  unfold parseSlice
  f_auto
  all_goals (refine ⟨by assumption, by omega, ?_⟩; simp [*])

/-! ### the mutually recursive functions -/

/-- the fuel specification of all fourteen functions at one fuel level -/
structure AllFuel (env : Env) (fuel : Nat) : Prop where
  parseQuery : ∀ inFilter acc st, InvF st → st.pushed = [] → 5 + 4 * st.live ≤ fuel →
    wp (parseQuery env inFilter fuel acc) (fun _ st' => InvF st' ∧ st'.live ≤ st.live + 1) NoFuel st
  parseSelectors : ∀ st, InvF st → 4 + 4 * st.live ≤ fuel →
    wp (parseSelectors env fuel) (fun _ st' => InvF st' ∧ (st'.live ≤ st.live ∧
      (st.cur.kind = .lbracket → st'.live + 1 ≤ st.live) ∧
      (st.cur.kind ≠ .lbracket → st'.cur = st.cur))) NoFuel st
  parseBracketed : ∀ open_ acc st, InvF st → 7 + 4 * st.live ≤ fuel →
    wp (parseBracketed env open_ fuel acc) (fun _ st' => InvF st' ∧ st'.live ≤ st.live) NoFuel st
  parseFilterSelector : ∀ st, InvF st → st.cur.kind ≠ .eof → 6 + 4 * st.live ≤ fuel →
    wp (parseFilterSelector env fuel) (fun _ st' => InvF st' ∧ st'.live + 1 ≤ st.live) NoFuel st
  parseByHandler : ∀ h st, InvF st → tokenMap st.cur.kind = some h → 2 + 4 * st.live ≤ fuel →
    wp (parseByHandler env h fuel) (fun _ st' => InvF st' ∧ st'.live ≤ st.live) NoFuel st
  parseFilterExpr : ∀ prec st, InvF st → 3 + 4 * st.live ≤ fuel →
    wp (parseFilterExpr env prec fuel) (fun _ st' => InvF st' ∧ st'.live ≤ st.live) NoFuel st
  filterExprLoop : ∀ prec left st, InvF st → 2 + 4 * st.live ≤ fuel →
    wp (filterExprLoop env prec fuel left) (fun _ st' => InvF st' ∧ st'.live ≤ st.live) NoFuel st
  parseInfix : ∀ left st, InvF st → st.cur.kind ≠ .eof → 1 + 4 * st.live ≤ fuel →
    wp (parseInfix env left fuel) (fun _ st' => InvF st' ∧ st'.live + 1 ≤ st.live) NoFuel st
  parsePrefix : ∀ st, InvF st → st.cur.kind ≠ .eof → 1 + 4 * st.live ≤ fuel →
    wp (parsePrefix env fuel) (fun _ st' => InvF st' ∧ st'.live ≤ st.live) NoFuel st
  parseGrouped : ∀ st, InvF st → st.cur.kind ≠ .eof → 1 + 4 * st.live ≤ fuel →
    wp (parseGrouped env fuel) (fun _ st' => InvF st' ∧ st'.live ≤ st.live) NoFuel st
  groupedLoop : ∀ x st, InvF st → 4 + 4 * st.live ≤ fuel →
    wp (groupedLoop env fuel x) (fun _ st' => InvF st' ∧ st'.live ≤ st.live) NoFuel st
  parseFunction : ∀ st, InvF st → st.cur.kind ≠ .eof → 1 + 4 * st.live ≤ fuel →
    wp (parseFunction env fuel) (fun _ st' => InvF st' ∧ st'.live ≤ st.live) NoFuel st
  functionArgs : ∀ args parens st, InvF st →
    (4 + 4 * st.live ≤ fuel ∨ (st.cur.kind = .rparen ∧ 1 ≤ fuel)) →
    wp (functionArgs env fuel args parens) (fun _ st' => InvF st' ∧ st'.live ≤ st.live) NoFuel st
  functionArgInfix : ∀ x st, InvF st → 3 + 4 * st.live ≤ fuel →
    wp (functionArgInfix env fuel x) (fun _ st' => InvF st' ∧ st'.live ≤ st.live) NoFuel st

macro_rules | `(tactic| f_atom) => `(tactic| first
  | (refine f_pres (g_parseLiteral _ _) ?_; intro _ _)
  | (refine f_call (g_parseSlice _ _ (by assumption)) ?_; rintro _ _ _ ⟨_, _⟩)
  | (refine f_call (AllFuel.parseQuery (by assumption) _ _ _ (by assumption) (by assumption) (by omega)) ?_;
      intro _ _ _ _)
  | (refine f_call (AllFuel.parseSelectors (by assumption) _ (by assumption) (by omega)) ?_;
      rintro _ _ _ ⟨_, _, _⟩)
  | (refine f_call (AllFuel.parseBracketed (by assumption) _ _ _ (by assumption) (by omega)) ?_; intro _ _ _ _)
  | (refine f_call (AllFuel.parseFilterSelector (by assumption) _ (by assumption)
      (by with_unfolding_all noneof_tac) (by omega)) ?_; intro _ _ _ _)
  | (refine f_call (AllFuel.parseByHandler (by assumption) _ _ (by assumption) (by assumption) (by omega)) ?_;
      intro _ _ _ _)
  | (refine f_call (AllFuel.parseFilterExpr (by assumption) _ _ (by assumption) (by omega)) ?_; intro _ _ _ _)
  | (refine f_call (AllFuel.filterExprLoop (by assumption) _ _ _ (by assumption) (by omega)) ?_; intro _ _ _ _)
  | (refine f_call (AllFuel.parseInfix (by assumption) _ _ (by assumption)
      (by with_unfolding_all noneof_tac) (by omega)) ?_; intro _ _ _ _)
  | (refine f_call (AllFuel.parsePrefix (by assumption) _ (by assumption)
      (by with_unfolding_all noneof_tac) (by omega)) ?_; intro _ _ _ _)
  | (refine f_call (AllFuel.parseGrouped (by assumption) _ (by assumption)
      (by with_unfolding_all noneof_tac) (by omega)) ?_; intro _ _ _ _)
  | (refine f_call (AllFuel.groupedLoop (by assumption) _ _ (by assumption) (by omega)) ?_; intro _ _ _ _)
  | (refine f_call (AllFuel.parseFunction (by assumption) _ (by assumption)
      (by with_unfolding_all noneof_tac) (by omega)) ?_; intro _ _ _ _)
  | (refine f_call (AllFuel.functionArgs (by assumption) _ _ _ (by assumption) (Or.inl (by omega))) ?_;
      intro _ _ _ _)
  | (refine f_call (AllFuel.functionArgInfix (by assumption) _ _ (by assumption) (by omega)) ?_; intro _ _ _ _))

variable {env : Env} {fuel : Nat}

theorem parseQuery_fl (ih : AllFuel env fuel) (inFilter acc st) (hi : InvF st) (hp : st.pushed = [])
    (hf : 5 + 4 * st.live ≤ fuel + 1) :
    wp (parseQuery env inFilter (fuel + 1) acc) (fun _ st' => InvF st' ∧ st'.live ≤ st.live + 1) NoFuel st := by
  rw [parseQuery]
  f_auto
  rename_i hk _ _ _ hle hlb hcur _ _ _ _ hle2 hprog
  have : 5 + 4 * TStream.live ‹TStream› ≤ fuel := by
    by_cases hl : st.cur.kind = .lbracket
    · have := hlb hl
      omega
    · have hc := hcur hl
      have := hprog (by rw [hc]; intro hne; simp [hne] at hk)
      omega
  f_auto

theorem parseSelectors_fl (ih : AllFuel env fuel) (st) (hi : InvF st) (hf : 4 + 4 * st.live ≤ fuel + 1) :
    wp (parseSelectors env (fuel + 1)) (fun _ st' => InvF st' ∧ (st'.live ≤ st.live ∧
      (st.cur.kind = .lbracket → st'.live + 1 ≤ st.live) ∧
      (st.cur.kind ≠ .lbracket → st'.cur = st.cur))) NoFuel st := by
  rw [parseSelectors]
  f_auto
  · exact ⟨hi, Nat.le_refl _, fun h => by simp_all, fun _ => rfl⟩
  · exact ⟨hi, Nat.le_refl _, fun h => by simp_all, fun _ => rfl⟩
  · exact ⟨by assumption, by omega, fun _ => by omega, fun h => absurd ‹_ = TokKind.lbracket› h⟩
  · exact ⟨hi, Nat.le_refl _, fun h => by simp_all, fun _ => rfl⟩

theorem parseBracketed_fl (ih : AllFuel env fuel) (open_ acc st) (hi : InvF st)
    (hf : 7 + 4 * st.live ≤ fuel + 1) :
    wp (parseBracketed env open_ (fuel + 1) acc) (fun _ st' => InvF st' ∧ st'.live ≤ st.live) NoFuel st := by
  rw [parseBracketed]
  f_auto

theorem tokenMap_ne_eof {k : TokKind} {h : Handler} (hh : tokenMap k = some h) : k ≠ .eof := by
  intro hk; subst hk; simp [tokenMap] at hh

theorem binaryOp_ne_eof {k : TokKind} (hh : ¬(binaryOp k).isNone = true) : k ≠ .eof := by
  intro hk; subst hk; simp [binaryOp] at hh

theorem parseFilterSelector_fl (ih : AllFuel env fuel) (st) (hi : InvF st) (hne : st.cur.kind ≠ .eof)
    (hf : 6 + 4 * st.live ≤ fuel + 1) :
    wp (parseFilterSelector env (fuel + 1)) (fun _ st' => InvF st' ∧ st'.live + 1 ≤ st.live) NoFuel st := by
  rw [parseFilterSelector]
  f_auto

theorem parseByHandler_fl (ih : AllFuel env fuel) (h st) (hi : InvF st) (hh : tokenMap st.cur.kind = some h)
    (hf : 2 + 4 * st.live ≤ fuel + 1) :
    wp (parseByHandler env h (fuel + 1)) (fun _ st' => InvF st' ∧ st'.live ≤ st.live) NoFuel st := by
  have hne := tokenMap_ne_eof hh
  cases h <;> rw [parseByHandler] <;> f_auto
  all_goals (intro h; cases h)

theorem parseFilterExpr_fl (ih : AllFuel env fuel) (prec st) (hi : InvF st) (hf : 3 + 4 * st.live ≤ fuel + 1) :
    wp (parseFilterExpr env prec (fuel + 1)) (fun _ st' => InvF st' ∧ st'.live ≤ st.live) NoFuel st := by
  rw [parseFilterExpr]
  f_auto
  refine wp_tryCatch (E' := NoFuel)
    (f_call (ih.parseByHandler _ _ hi (by assumption) (by omega)) ?_) ?_
  · intro _ _ _ _; f_auto
  · intro e st' he
    split
    · f_auto
    · exact wp_throw.mpr he

theorem filterExprLoop_fl (ih : AllFuel env fuel) (prec left st) (hi : InvF st) (hf : 2 + 4 * st.live ≤ fuel + 1) :
    wp (filterExprLoop env prec (fuel + 1) left) (fun _ st' => InvF st' ∧ st'.live ≤ st.live) NoFuel st := by
  rw [filterExprLoop]
  f_auto

theorem parseInfix_fl (ih : AllFuel env fuel) (left st) (hi : InvF st) (hne : st.cur.kind ≠ .eof)
    (hf : 1 + 4 * st.live ≤ fuel + 1) :
    wp (parseInfix env left (fuel + 1)) (fun _ st' => InvF st' ∧ st'.live + 1 ≤ st.live) NoFuel st := by
  rw [parseInfix]
  f_auto

theorem parsePrefix_fl (ih : AllFuel env fuel) (st) (hi : InvF st) (hne : st.cur.kind ≠ .eof)
    (hf : 1 + 4 * st.live ≤ fuel + 1) :
    wp (parsePrefix env (fuel + 1)) (fun _ st' => InvF st' ∧ st'.live ≤ st.live) NoFuel st := by
  rw [parsePrefix]
  f_auto

theorem parseGrouped_fl (ih : AllFuel env fuel) (st) (hi : InvF st) (hne : st.cur.kind ≠ .eof)
    (hf : 1 + 4 * st.live ≤ fuel + 1) :
    wp (parseGrouped env (fuel + 1)) (fun _ st' => InvF st' ∧ st'.live ≤ st.live) NoFuel st := by
  rw [parseGrouped]
  f_auto

theorem groupedLoop_fl (ih : AllFuel env fuel) (x st) (hi : InvF st) (hf : 4 + 4 * st.live ≤ fuel + 1) :
    wp (groupedLoop env (fuel + 1) x) (fun _ st' => InvF st' ∧ st'.live ≤ st.live) NoFuel st := by
  rw [groupedLoop]
  f_auto

theorem parseFunction_fl (ih : AllFuel env fuel) (st) (hi : InvF st) (hne : st.cur.kind ≠ .eof)
    (hf : 1 + 4 * st.live ≤ fuel + 1) :
    wp (parseFunction env (fuel + 1)) (fun _ st' => InvF st' ∧ st'.live ≤ st.live) NoFuel st := by
  rw [parseFunction]
  f_auto

theorem functionArgInfix_fl (ih : AllFuel env fuel) (x st) (hi : InvF st) (hf : 3 + 4 * st.live ≤ fuel + 1) :
    wp (functionArgInfix env (fuel + 1) x) (fun _ st' => InvF st' ∧ st'.live ≤ st.live) NoFuel st := by
  rw [functionArgInfix]
  f_auto
  have hc := ‹∀ p, _ = [p] → _ = p› _ ‹_ = [_]›
  refine f_call (AllFuel.parseInfix (by assumption) _ _ (by assumption)
      (by rw [hc]; exact binaryOp_ne_eof ‹_›) (by omega)) ?_
  intro _ _ _ _
  f_auto

theorem functionArgs_fl (ih : AllFuel env fuel) (args parens st) (hi : InvF st)
    (hf : 4 + 4 * st.live ≤ fuel + 1 ∨ (st.cur.kind = .rparen ∧ 1 ≤ fuel + 1)) :
    wp (functionArgs env (fuel + 1) args parens) (fun _ st' => InvF st' ∧ st'.live ≤ st.live) NoFuel st := by
  rw [functionArgs]
  simp only [functionArgumentMap]
  rcases hf with hf | ⟨hr, _⟩
  · f_auto
    all_goals
      have hc := ‹∀ p, _ = [p] → _ = p› _ ‹_ = [_]›
      refine f_call (AllFuel.functionArgs (by assumption) _ _ _ (by assumption) (Or.inr ⟨?_, by omega⟩)) ?_
      · rw [hc]; exact Decidable.not_not.mp ‹¬_ ≠ TokKind.rparen›
      · intro _ _ _ _; f_auto
  · f_auto

theorem allFuel (env : Env) : ∀ fuel, AllFuel env fuel := by
  intro fuel
  induction fuel with
  | zero =>
    constructor
    all_goals intros
    all_goals omega
  | succ fuel ih =>
    exact
      { parseQuery := parseQuery_fl ih
        parseSelectors := parseSelectors_fl ih
        parseBracketed := parseBracketed_fl ih
        parseFilterSelector := parseFilterSelector_fl ih
        parseByHandler := parseByHandler_fl ih
        parseFilterExpr := parseFilterExpr_fl ih
        filterExprLoop := filterExprLoop_fl ih
        parseInfix := parseInfix_fl ih
        parsePrefix := parsePrefix_fl ih
        parseGrouped := parseGrouped_fl ih
        groupedLoop := groupedLoop_fl ih
        parseFunction := parseFunction_fl ih
        functionArgs := functionArgs_fl ih
        functionArgInfix := functionArgInfix_fl ih }

theorem parseTop_fl (env : Env) (fuel : Nat) (st : TStream) (hi : InvF st) (hf : 5 + 4 * st.live ≤ fuel) :
    wp (parseTop env fuel) (fun _ st' => InvF st') NoFuel st := by
  have ih := allFuel env fuel
  unfold parseTop
  f_auto

/-- the parser run on a token list ending with EOF, with `parseFuel` fuel, never runs out of fuel -/
theorem parseTop_no_fuel (env : Env) (toks : List Token)
    (hl : ∃ t, toks.getLast? = some t ∧ t.kind = .eof) (e : Err)
    (h : ((parseTop env (parseFuel toks.length)).run.run (TStream.init toks)).1 = .error e) :
    e.kind ≠ .fuel := by
  have hlive := TStream.live_init hl
  have := parseTop_fl env (parseFuel toks.length) _ (SInv.init (fun _ _ => trivial) hl)
    (by unfold parseFuel; omega)
  unfold wp at this
  change (exec _ _).1 = _ at h
  rcases hx : exec (parseTop env (parseFuel toks.length)) (TStream.init toks) with ⟨r, st'⟩
  rw [hx] at this h
  simp only at h
  subst h
  exact this

end JPV.Impl
