#!/bin/sh
# run the pinned test suite of /repo and print the summary line
cd /repo && /venv/bin/python -m pytest -q -p no:cacheprovider --timeout=900 --continue-on-collection-errors 2>&1 | tail -1
