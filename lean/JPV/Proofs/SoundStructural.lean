import JPV.Impl.Parse
import JPV.Spec.Grammar
import JPV.Spec.Typing
import JPV.Proofs.CompleteStructural
import JPV.Proofs.LexTotal
import JPV.Proofs.Ss.ParseInv
import JPV.Proofs.Ss.LexSegs
namespace JPV.Proofs
open JPV JPV.Impl

namespace Ss
open JPV.Proofs.Rq JPV.Proofs.Cs

theorem cmpShapeSels_ff : ∀ (ss : List Spec.CSelector), ffSels ss = true → Spec.cmpShapeSels ss = (true, false)
  | [], _ => by rw [Spec.cmpShapeSels]
  | s :: ss, h => by
    simp only [ffSels, List.all_cons, Bool.and_eq_true] at h
    rw [Spec.cmpShapeSels, cmpShapeSels_ff ss h.2]
    cases s <;> simp_all [Spec.cmpShapeSel, ffSel]

theorem cmpShapeSegs_ff : ∀ (c : List Spec.CSegment), ffSegs c = true → Spec.cmpShapeSegs c = (true, false)
  | [], _ => by rw [Spec.cmpShapeSegs]
  | s :: ss, h => by
    simp only [ffSegs, List.all_cons, Bool.and_eq_true] at h
    cases s with
    | child sels b =>
      rw [Spec.cmpShapeSegs, cmpShapeSegs_ff ss h.2, cmpShapeSels_ff sels h.1]; rfl
    | desc sels =>
      rw [Spec.cmpShapeSegs, cmpShapeSegs_ff ss h.2, cmpShapeSels_ff sels h.1]; rfl

/-- what a successful `tokenize` says about the run of the state machine -/
theorem tokenize_run {s : Str} {toks : List Token} (h : tokenize s = .ok toks) :
    ∃ lf, Halts .root { q := s.toArray } lf ∧ ¬ Bad lf ∧ lf.toks = toks.reverse := by
  unfold tokenize at h
  cases hrun : run (lexFuel s.length) .root { q := s.toArray } with
  | error e => rw [hrun] at h; cases h
  | ok lf =>
    rw [hrun] at h
    simp only [bind, Except.bind, throw, throwThe, MonadExceptOf.throw, pure, Except.pure] at h
    refine ⟨lf, halts_of_run _ _ _ _ hrun, ?_, ?_⟩
    · rintro ⟨t, ts, ht, hk⟩
      rw [ht] at h
      simp [hk] at h
    · have key : toks = lf.toks.reverse := by
        repeat' split at h
        all_goals first | (cases h; done) | (cases h; rfl)
      rw [key]; simp

end Ss

open JPV.Proofs.Rq JPV.Proofs.Cs JPV.Proofs.Ss in
/-- C04 for the filter-free language (parser SOUNDNESS): whenever the implementation compiles a string to a
query without filter selectors, the RFC 9535 grammar derives that string, the derivation abstracts to the very
query the implementation built, and its integers are within the environment's range.  So no string outside
the grammar (misplaced blanks, leading zeros, `-0`, bad escapes, trailing/missing commas and colons,
unbalanced brackets, text after the last segment ...) is given a filter-free meaning. -/
theorem compile_sound_structural (env : Env) (s : Str) (q : Query)
    (h : Impl.compile env s = .ok q) (hff : Spec.filterFree q = true) :
    ∃ c, Spec.parseQuery s = .valid c ∧ Spec.abstractSegs c = q := by
  unfold Impl.compile at h
  cases htok : tokenize s with
  | error e => rw [htok] at h; cases h
  | ok toks =>
    rw [htok] at h
    simp only at h
    have hshape := (tokenize_shapes s toks htok).1
    obtain ⟨r, ts, e, more, rfl, hr, hek, hqt⟩ := parseTop_inv env _ toks q h hff hshape
    obtain ⟨lf, hh, hg, hlt⟩ := tokenize_run htok
    have h0 : St ({ q := s.toArray } : Lexer) [] [] s [] [] := ⟨by simp, rfl, rfl, rfl, rfl, rfl⟩
    obtain ⟨rr, l1, rfl, h1, hh1⟩ := root_first h0 hh hg
    have hsuf := hh1.toks_suffix
    rw [h1.toks, hlt] at hsuf
    have hr1 : (⟨.root, ['$'], (([] : List Char).length : Nat)⟩ : Token) = r := by
      obtain ⟨x, hx⟩ := hsuf
      have := congrArg List.getLast? hx
      simpa using this
    have hem : Emits .segment l1 ts lf := ⟨hh1, by rw [h1.toks, hlt, hr1]; simp⟩
    obtain ⟨c, hc, ha⟩ := lex_segs hg hqt e more rfl hek l1 _ rr _ h1 hem
    refine ⟨c, ?_, ha⟩
    have hffc : ffSegs c = true := ffSegs_of c (by rw [ha]; exact hff)
    unfold Spec.parseQuery
    simp only [hc (2 * ('$' :: rr).length + 4) (by simp only [List.length_cons]; omega),
      cmpShapeSegs_ff c hffc]
    rfl

end JPV.Proofs
