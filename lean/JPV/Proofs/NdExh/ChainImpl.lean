import JPV.Proofs.NdExh.ChainSpec
import JPV.Proofs.NdExh.NoDescWt
import JPV.Proofs.NonDetEval
/-
Descendant segments on chain documents, implementation side, and the theorem: on a chain document
(every container has at most one container child) nondeterministic mode IS exhaustive for every
filter-free query, descendant segments included.  The script: every coin "later" (breadth-first traversal,
which visits the containers of a chain outermost first), objects unshuffled except where a wildcard
selector needs a particular permutation, and for each visited container the script of its own results.
-/
namespace JPV.Proofs.NdExh
open JPV JPV.Impl JPV.Spec.ND JPV.Proofs.NdRel JPV.Proofs.NDp

/-! ### generic selector lemmas (node invariant `GJ` on values, closed under children) -/

section generic
variable {GJ : Json → Prop} (hGw : ∀ j, GJ j → j.WF) (hGk : ∀ j c, GJ j → c ∈ kids j → GJ c)
include hGw hGk

theorem selPermitted_g {reg : Spec.Registry} {root : Json} {s : Selector} {n : Node}
    {l : List Node} (h : SelPermitted reg root s n l) (hn : GJ n.val) : ∀ m, m ∈ l → GJ m.val := by
  intro m hm
  have _ := hGw
  cases h with
  | wildObj _ hp => exact hGk _ _ hn (mem_children (hp.mem_iff.1 hm))
  | wildOther _ => exact hGk _ _ hn (mem_children hm)
  | filterObj _ hp => exact hGk _ _ hn (mem_children (List.mem_filter.1 (hp.mem_iff.1 hm)).1)
  | filterOther _ => exact hGk _ _ hn (mem_children (List.mem_filter.1 hm).1)
  | @name s =>
    exact hGk _ _ hn (mem_selectSel (reg := reg) (root := root) (s := .name s)
      (by simpa only [Spec.selectSel] using hm))
  | @index i =>
    exact hGk _ _ hn (mem_selectSel (reg := reg) (root := root) (s := .index i)
      (by simpa only [Spec.selectSel] using hm))
  | @slice a b c =>
    exact hGk _ _ hn (mem_selectSel (reg := reg) (root := root) (s := .slice a b c)
      (by simpa only [Spec.selectSel] using hm))

theorem runSel_reach_g (env : Env) (reg : Spec.Registry) (root : Json)
    {P : Node → List Node → Prop} {k : Node → ND.Script → ND.Out}
    (hk : ∀ n r, GJ n.val → P n r → Reach k n r)
    {sel : Selector} {n : Node} {m r : List Node}
    (hs : SelPermitted reg root sel n m) (hnf : ∀ e, sel ≠ .filter e) (hn : GJ n.val)
    (he : Each P m r) :
    Reach (fun n s => ND.runSel env root k sel n s) n r := by
  have hgm := selPermitted_g hGw hGk hs hn
  obtain ⟨pre1, h1⟩ := forEach_reach' (G := fun n => GJ n.val) hk he hgm
  cases hs with
  | wildObj ho hp =>
    have hm : (match n.val with
        | .obj _ => m.Perm (Spec.children n)
        | _ => m = Spec.children n) := by
      cases hv : n.val <;> simp_all [isObj]
    obtain ⟨pre0, h0⟩ := ndChildren_surj n m hm
    refine ⟨pre0 ++ pre1, fun t => ?_⟩
    simp only [ND.runSel, ND.ndMembers, List.append_assoc, h0 (pre1 ++ t), h1 t]
  | wildOther ho =>
    have hm : (match n.val with
        | .obj _ => (Spec.children n).Perm (Spec.children n)
        | _ => Spec.children n = Spec.children n) := by
      cases hv : n.val <;> simp_all [isObj]
    obtain ⟨pre0, h0⟩ := ndChildren_surj n _ hm
    refine ⟨pre0 ++ pre1, fun t => ?_⟩
    simp only [ND.runSel, ND.ndMembers, List.append_assoc, h0 (pre1 ++ t), h1 t]
  | filterObj _ _ => exact absurd rfl (hnf _)
  | filterOther _ => exact absurd rfl (hnf _)
  | name =>
    refine ⟨pre1, fun t => ?_⟩
    simp only [ND.runSel, selName_eq _ n (hGw _ hn), h1 t]
  | index =>
    refine ⟨pre1, fun t => ?_⟩
    simp only [ND.runSel, selIndex_correct, h1 t]
  | slice =>
    refine ⟨pre1, fun t => ?_⟩
    simp only [ND.runSel, selSlice_correct, h1 t]

theorem runSels_reach_g (env : Env) (reg : Spec.Registry) (root : Json)
    {P : Node → List Node → Prop} {k : Node → ND.Script → ND.Out}
    (hk : ∀ n r, GJ n.val → P n r → Reach k n r)
    {sels : List Selector} {n : Node} {m : List Node}
    (hs : SelsPermitted reg root sels n m) (hn : GJ n.val) :
    Spec.filterFreeSels sels = true → ∀ r, Each P m r →
    Reach (fun n s => ND.runSels env root k sels n s) n r := by
  induction hs with
  | nil =>
    intro _ r he
    have := each_nil_inv he
    subst this
    exact ⟨[], fun t => by simp only [ND.runSels, ND.Out.ok, List.nil_append]⟩
  | @cons sel ss n l r' h1 _ ih =>
    intro hf r he
    have hnf : ∀ e, sel ≠ .filter e := by
      intro e he; subst he; simp [Spec.filterFreeSels] at hf
    have hf' : Spec.filterFreeSels ss = true := by
      cases sel <;> simp_all [Spec.filterFreeSels]
    obtain ⟨o1, o2, rfl, he1, he2⟩ := each_append_inv _ _ _ he
    obtain ⟨pre1, hp1⟩ := runSel_reach_g hGw hGk env reg root hk h1 hnf hn he1
    obtain ⟨pre2, hp2⟩ := ih hn hf' o2 he2
    refine ⟨pre1 ++ pre2, fun t => ?_⟩
    have e1 := hp1 (pre2 ++ t)
    have e2 := hp2 t
    simp only at e1 e2
    simp only [ND.runSels, List.append_assoc, e1, e2]

end generic

/-! ### scalars yield nothing -/

theorem selPermitted_scalar {reg : Spec.Registry} {root : Json} {s : Selector} {n : Node} {l : List Node}
    (h : SelPermitted reg root s n l) (hn : n.val.isContainer = false) : l = [] := by
  have hc := children_scalar hn
  cases h with
  | wildObj _ hp => rw [hc] at hp; exact hp.eq_nil
  | wildOther _ => exact hc
  | filterObj _ hp => rw [hc] at hp; exact hp.eq_nil
  | filterOther _ => rw [hc]; rfl
  | name => unfold Spec.selName; cases hv : n.val <;> simp_all [Json.isContainer]
  | index => unfold Spec.selIndex; cases hv : n.val <;> simp_all [Json.isContainer]
  | slice => unfold Spec.selSlice; cases hv : n.val <;> simp_all [Json.isContainer]

theorem selsPermitted_scalar {reg : Spec.Registry} {root : Json} {sels : List Selector} {n : Node}
    {l : List Node} (h : SelsPermitted reg root sels n l) (hn : n.val.isContainer = false) : l = [] := by
  induction h with
  | nil => rfl
  | cons h1 _ ih => rw [selPermitted_scalar h1 hn, ih hn]; rfl

/-- the deterministic result is permitted (any selectors) -/
theorem selsPermitted_select (reg : Spec.Registry) (root : Json) (n : Node) (sels : List Selector) :
    ∃ l, SelsPermitted reg root sels n l :=
  ⟨_, (selsOutcomes_iff reg root n sels _).1
    ((selsOutcomes_iff reg root n sels _).2 (selectSels_permitted reg root n sels))⟩

/-! ### the breadth-first traversal -/

/-- what the traversal still owes from a queue holding at most one container, a chain -/
inductive QRes (P : Node → List Node → Prop) : List (Node × Nat) → List Node → Prop
  | nil : QRes P [] []
  | scalar {x : Node} {d : Nat} {q : List (Node × Nat)} {R : List Node} :
      x.val.isContainer = false → QRes P q R → QRes P ((x, d) :: q) R
  | cont {x : Node} {d : Nat} {q : List (Node × Nat)} {R1 R' : List Node} :
      x.val.isContainer = true → Sc (q.map Prod.fst) → P x R1 → CRes P x R' →
      QRes P ((x, d) :: q) (R1 ++ R')

theorem qres_scalars {P : Node → List Node → Prop} :
    ∀ (q : List (Node × Nat)), Sc (q.map Prod.fst) → QRes P q [] := by
  intro q
  induction q with
  | nil => intro _; exact .nil
  | cons e q ih =>
    intro h
    obtain ⟨x, d⟩ := e
    exact .scalar (h x (by simp)) (ih (fun y hy => h y (by simp only [List.map_cons]; exact List.mem_cons_of_mem _ hy)))

theorem qres_prefix {P : Node → List Node → Prop} {q : List (Node × Nat)} {R : List Node} :
    ∀ (a : List (Node × Nat)), Sc (a.map Prod.fst) → QRes P q R → QRes P (a ++ q) R := by
  intro a
  induction a with
  | nil => intro _ h; exact h
  | cons e a ih =>
    intro hs h
    obtain ⟨x, d⟩ := e
    exact .scalar (hs x (by simp))
      (ih (fun y hy => hs y (by simp only [List.map_cons]; exact List.mem_cons_of_mem _ hy)) h)

theorem map_fst_tag (l : List Node) (d : Nat) : (l.map (fun c => (c, d))).map Prod.fst = l := by
  simp [List.map_map, Function.comp_def]

theorem cres_qres {P : Node → List Node → Prop} {x : Node} {R' : List Node} (d : Nat)
    (h : CRes P x R') : QRes P ((Spec.children x).map (fun c => (c, d))) R' := by
  cases h with
  | leaf hs => exact qres_scalars _ (by rw [map_fst_tag]; exact hs)
  | step hab ha hb hcc hP hC =>
    rw [hab, List.map_append, List.map_cons]
    exact qres_prefix _ (by rw [map_fst_tag]; exact ha) (.cont hcc (by rw [map_fst_tag]; exact hb) hP hC)

theorem ndChildren_scalar {n : Node} (h : n.val.isContainer = false) (s : ND.Script) :
    ND.ndChildren n s = ([], s) := by
  unfold ND.ndChildren
  cases hv : n.val <;> simp_all [Json.isContainer]

theorem ndChildren_id (n : Node) : ∃ pre : ND.Script, ∀ t, ND.ndChildren n (pre ++ t) = (Spec.children n, t) := by
  apply ndChildren_surj
  cases n.val <;> first | exact List.Perm.refl _ | rfl

theorem qsize_cons (x : Node) (d : Nat) (q : List (Node × Nat)) :
    qsize ((x, d) :: q) = x.val.size + qsize q := by
  simp [qsize]

section bfs
variable {mx : Int} {P : Node → List Node → Prop} {k : Node → ND.Script → ND.Out}
  (hk : ∀ n r, (GoodJ mx n.val ∧ Chain n.val) → P n r → Reach k n r)
  (hsc0 : ∀ n, n.val.isContainer = false → P n [])
include hk hsc0

/-- with every coin "later", the traversal of a queue holding at most one container (a chain) yields exactly
what `QRes` describes -/
theorem bfs_reach :
    ∀ (fuel : Nat) (queue : List (Node × Nat)) (acc R : List Node),
      (∀ e, e ∈ queue → QOK mx e ∧ Chain e.1.val) → qsize queue < fuel → QRes P queue R →
      ∃ pre : ND.Script, ∀ t, ND.visitLoop mx k fuel queue (pre ++ t) acc = ⟨acc ++ R, none, t⟩ := by
  intro fuel
  induction fuel with
  | zero => intro queue acc R _ h; omega
  | succ fuel ih =>
    intro queue acc R hq hfuel hres
    cases hres with
    | nil => exact ⟨[], fun t => by rw [visitLoop_nil, List.append_nil, List.nil_append]⟩
    | @scalar x d q R hx hres' =>
      have hn := hq (x, d) List.mem_cons_self
      have hq' : ∀ e, e ∈ q → QOK mx e ∧ Chain e.1.val := fun e he => hq e (List.mem_cons_of_mem _ he)
      have hd : ¬ ND.isDeep mx x d = true := by rw [hn.1.notDeep]; simp
      obtain ⟨pre1, h1⟩ := hk x [] ⟨hn.1.good, hn.2⟩ (hsc0 x hx)
      have hsz := size_children x
      rw [qsize_cons] at hfuel
      obtain ⟨pre4, h4⟩ := ih q (acc ++ []) R hq' (by omega) hres'
      refine ⟨pre1 ++ ([.coin false] ++ pre4), fun t => ?_⟩
      have e1 : pre1 ++ ([.coin false] ++ pre4) ++ t = pre1 ++ ([.coin false] ++ (pre4 ++ t)) := by
        simp only [List.append_assoc]
      rw [e1, visitLoop_cons, if_neg hd, h1]
      simp only [coin_surj, ndChildren_scalar hx, List.map_nil, List.append_nil, Bool.false_eq_true,
        if_false]
      simpa using h4 t
    | @cont x d q R1 R' hx hsq hP hC =>
      have hn := hq (x, d) List.mem_cons_self
      have hq' : ∀ e, e ∈ q → QOK mx e ∧ Chain e.1.val := fun e he => hq e (List.mem_cons_of_mem _ he)
      have hd : ¬ ND.isDeep mx x d = true := by rw [hn.1.notDeep]; simp
      obtain ⟨pre1, h1⟩ := hk x R1 ⟨hn.1.good, hn.2⟩ hP
      obtain ⟨pre3, h3⟩ := ndChildren_id x
      have hsz := size_children x
      rw [qsize_cons] at hfuel
      have hqn : ∀ e, e ∈ q ++ (Spec.children x).map (fun c => (c, d + 1)) → QOK mx e ∧ Chain e.1.val := by
        intro e he
        rcases List.mem_append.1 he with he | he
        · exact hq' e he
        · obtain ⟨c, hc, rfl⟩ := List.mem_map.1 he
          exact ⟨hn.1.child hc, hn.2.kid (mem_children hc)⟩
      have hfn : qsize (q ++ (Spec.children x).map (fun c => (c, d + 1))) < fuel := by
        rw [qsize_append, qsize_map]; omega
      obtain ⟨pre4, h4⟩ := ih _ (acc ++ R1) R' hqn hfn (qres_prefix q hsq (cres_qres (d + 1) hC))
      refine ⟨pre1 ++ ([.coin false] ++ (pre3 ++ pre4)), fun t => ?_⟩
      have e1 : pre1 ++ ([.coin false] ++ (pre3 ++ pre4)) ++ t =
          pre1 ++ ([.coin false] ++ (pre3 ++ (pre4 ++ t))) := by
        simp only [List.append_assoc]
      rw [e1, visitLoop_cons, if_neg hd, h1]
      simp only [coin_surj, h3, Bool.false_eq_true, if_false]
      rw [h4 t, List.append_assoc]

theorem visit_reach_chain {n : Node} {R0 R' : List Node} (hg : GoodJ mx n.val) (hch : Chain n.val)
    (hP : P n R0) (hC : CRes P n R') : Reach (fun m s => ND.visit mx m s k) n (R0 ++ R') := by
  obtain ⟨pre1, h1⟩ := hk n R0 ⟨hg, hch⟩ hP
  obtain ⟨pre2, h2⟩ := ndChildren_id n
  have h0 : QOK mx (n, 0) := ⟨hg.1, by have := hg.2; simp only at *; omega⟩
  have hsz := size_children n
  have hq : ∀ e, e ∈ (Spec.children n).map (fun c => (c, 1)) → QOK mx e ∧ Chain e.1.val := by
    intro e he
    obtain ⟨c, hc, rfl⟩ := List.mem_map.1 he
    exact ⟨h0.child hc, hch.kid (mem_children hc)⟩
  obtain ⟨pre3, h3⟩ := bfs_reach hk hsc0 (n.val.size + 1) _ R0 R' hq
    (by rw [qsize_map]; omega) (cres_qres 1 hC)
  refine ⟨pre1 ++ (pre2 ++ pre3), fun t => ?_⟩
  have e1 : pre1 ++ (pre2 ++ pre3) ++ t = pre1 ++ (pre2 ++ (pre3 ++ t)) := by
    simp only [List.append_assoc]
  simp only
  rw [e1, visit_eq, h1]
  simp only [h2]
  exact h3 t

end bfs

/-! ### segments, depth first, descendant segments included -/

def DF' (reg : Spec.Registry) (root : Json) : List Segment → Node → List Node → Prop
  | [], n, r => r = [n]
  | .child sels :: rest, n, r => ∃ m, SelsPermitted reg root sels n m ∧ Each (DF' reg root rest) m r
  | .desc sels :: rest, n, r =>
    ∃ ord, Ord [⟨n, []⟩] ord ∧
      Each (fun d rd => ∃ m, SelsPermitted reg root sels d m ∧ Each (DF' reg root rest) m rd) ord r

theorem each_each {Q R : Node → List Node → Prop} {ord l : List Node} (h : Each Q ord l) :
    ∀ o, Each R l o → Each (fun d rd => ∃ m, Q d m ∧ Each R m rd) ord o := by
  induction h with
  | nil => intro o h; have := each_nil_inv h; subst this; exact .nil
  | cons hq _ ih =>
    intro o h
    obtain ⟨o1, o2, rfl, h1, h2⟩ := each_append_inv _ _ _ h
    exact .cons ⟨_, hq, h1⟩ (ih o2 h2)

theorem each_df_child {reg : Spec.Registry} {root : Json} {sels : List Selector} {rest : List Segment}
    {ns mid : List Node} (h1 : Each (SelsPermitted reg root sels) ns mid) :
    ∀ out, Each (DF' reg root rest) mid out → Each (DF' reg root (.child sels :: rest)) ns out := by
  induction h1 with
  | nil =>
    intro out h3
    have := each_nil_inv h3
    subst this
    exact .nil
  | @cons n ns' l r hp _ ih' =>
    intro out h3
    obtain ⟨o1, o2, rfl, he1, he2⟩ := each_append_inv _ _ _ h3
    exact .cons (by simp only [DF']; exact ⟨l, hp, he1⟩) (ih' o2 he2)

theorem each_df_desc {reg : Spec.Registry} {root : Json} {sels : List Selector} {rest : List Segment}
    {ns mid : List Node}
    (h1 : Each (fun n l => ∃ ord, VisitOrder n ord ∧ Each (SelsPermitted reg root sels) ord l) ns mid) :
    (∀ n, n ∈ ns → n.val.WF) →
    ∀ out, Each (DF' reg root rest) mid out → Each (DF' reg root (.desc sels :: rest)) ns out := by
  induction h1 with
  | nil =>
    intro _ out h3
    have := each_nil_inv h3
    subst this
    exact .nil
  | @cons n ns' l r hp _ ih' =>
    intro hw out h3
    obtain ⟨o1, o2, rfl, he1, he2⟩ := each_append_inv _ _ _ h3
    obtain ⟨ord, hord, hl⟩ := hp
    have hn := hw n List.mem_cons_self
    have hO : Ord [⟨n, []⟩] ord :=
      (mem_visitOrders_iff n ord).1 ((visitOrders_iff' n hn ord).2 hord)
    exact .cons (by simp only [DF']; exact ⟨ord, hO, each_each hl o1 he1⟩)
      (ih' (fun m hm => hw m (List.mem_cons_of_mem _ hm)) o2 he2)

theorem segsPermitted_df' (reg : Spec.Registry) (root : Json) :
    ∀ (segs : List Segment) (ns out : List Node), (∀ n, n ∈ ns → n.val.WF) →
      SegsPermitted reg root segs ns out → Each (DF' reg root segs) ns out := by
  intro segs
  induction segs with
  | nil =>
    intro ns out _ h
    cases h
    exact each_singletons (fun n => by simp only [DF']) ns
  | cons seg segs ih =>
    intro ns out hw h
    cases h with
    | @cons _ _ _ mid _ h1 h2 =>
      have hwm := segPermitted_wf h1 hw
      have h3 := ih mid out hwm h2
      cases seg with
      | child sels =>
        simp only [SegPermitted] at h1
        exact each_df_child h1 out h3
      | desc sels =>
        simp only [SegPermitted] at h1
        exact each_df_desc h1 hw out h3

theorem goodChain_wf (mx : Int) : ∀ j, (GoodJ mx j ∧ Chain j) → j.WF := fun _ h => h.1.1

theorem goodChain_kid (mx : Int) : ∀ j c, (GoodJ mx j ∧ Chain j) → c ∈ kids j → (GoodJ mx c ∧ Chain c) :=
  fun _ _ h hc => ⟨good_kid h.1 hc, h.2.kid hc⟩

theorem runSegs_reach_chain (env : Env) (reg : Spec.Registry) (root : Json) :
    ∀ (segs : List Segment), Spec.filterFree segs = true → ∀ (n : Node) (r : List Node),
      (GoodJ env.maxDepth n.val ∧ Chain n.val) → DF' reg root segs n r →
      Reach (fun m s => ND.runSegs env root segs m s) n r := by
  intro segs
  induction segs with
  | nil =>
    intro _ n r _ h
    simp only [DF'] at h
    subst h
    exact ⟨[], fun t => by simp only [ND.runSegs, List.nil_append]⟩
  | cons seg segs ih =>
    intro hf n r hn h
    simp only [Spec.filterFree, List.all_cons, Bool.and_eq_true] at hf
    have hk : ∀ n r, (GoodJ env.maxDepth n.val ∧ Chain n.val) → DF' reg root segs n r →
        Reach (fun m s => ND.runSegs env root segs m s) n r :=
      fun n r hn h => ih hf.2 n r hn h
    cases seg with
    | child sels =>
      simp only [DF'] at h
      obtain ⟨m, hm, he⟩ := h
      obtain ⟨pre, hp⟩ := runSels_reach_g (goodChain_wf _) (goodChain_kid _) env reg root hk hm hn hf.1 r he
      refine ⟨pre, fun t => ?_⟩
      have e := hp t
      simp only at e
      simp only [ND.runSegs, e]
    | desc sels =>
      simp only [DF'] at h
      obtain ⟨ord, hord, he⟩ := h
      -- the stage applied to every visited node, and what RFC 9535 permits for it
      have hk2 : ∀ d rd, (GoodJ env.maxDepth d.val ∧ Chain d.val) →
          (∃ m, SelsPermitted reg root sels d m ∧ Each (DF' reg root segs) m rd) →
          Reach (fun m s' => ND.runSels env root (fun m2 s2 => ND.runSegs env root segs m2 s2) sels m s')
            d rd := by
        intro d rd hd ⟨m, hm, hem⟩
        exact runSels_reach_g (goodChain_wf _) (goodChain_kid _) env reg root hk hm hd hf.1 rd hem
      have hsc : ∀ d rd, d.val.isContainer = false →
          (∃ m, SelsPermitted reg root sels d m ∧ Each (DF' reg root segs) m rd) → rd = [] := by
        intro d rd hd ⟨m, hm, hem⟩
        have := selsPermitted_scalar hm hd
        subst this
        exact each_nil_inv hem
      have hsc0 : ∀ d, d.val.isContainer = false →
          (∃ m, SelsPermitted reg root sels d m ∧ Each (DF' reg root segs) m []) := by
        intro d hd
        obtain ⟨l, hl⟩ := selsPermitted_select reg root d sels
        have := selsPermitted_scalar hl hd
        subst this
        exact ⟨[], hl, .nil⟩
      have hoc := ord_chain hsc hord r he
      have hall : allNodes [⟨n, []⟩] = [n] := by simp [allNodes]
      rw [hall] at hoc
      have htarget : ∃ R0 R', (∃ m, SelsPermitted reg root sels n m ∧ Each (DF' reg root segs) m R0) ∧
          CRes (fun d rd => ∃ m, SelsPermitted reg root sels d m ∧ Each (DF' reg root segs) m rd) n R' ∧
          r = R0 ++ R' := by
        cases hc : n.val.isContainer with
        | true => exact hoc.2 n [] (List.Perm.refl _) Sc.nil hc hn.2
        | false =>
          have hr : r = [] := hoc.1 (fun y hy => by
            rw [List.mem_singleton] at hy; subst hy; exact hc)
          refine ⟨[], [], hsc0 n hc, .leaf ?_, by rw [hr]; rfl⟩
          rw [children_scalar hc]; exact Sc.nil
      obtain ⟨R0, R', hP, hC, rfl⟩ := htarget
      obtain ⟨pre, hp⟩ := visit_reach_chain hk2 hsc0 hn.1 hn.2 hP hC
      refine ⟨pre, fun t => ?_⟩
      have e := hp t
      simp only at e
      simp only [ND.runSegs, e]

/-- on a chain document (every container has at most one container child) nondeterministic mode is
exhaustive for every filter-free query, descendant segments included -/
theorem find_exhaustive_chain (env : Env) (reg : Spec.Registry) (q : Query) (v : Json)
    (hff : Spec.filterFree q = true) (hw : v.WF) (hd : (v.depth : Int) ≤ env.maxDepth)
    (hch : Chain v) :
    ∀ r ∈ Spec.ND.outcomes reg q v, ∃ s : ND.Script, ND.find env q v s = .ok r := by
  intro r hr
  have hp := Proofs.outcomes_sound reg q v hw r hr
  have he := segsPermitted_df' reg v q _ _ (by
    intro n hn; rw [List.mem_singleton] at hn; subst hn; exact hw) hp
  obtain ⟨l, r', rfl, hl, hr'⟩ := each_cons_inv he
  have := each_nil_inv hr'
  subst this
  obtain ⟨pre, hpre⟩ := runSegs_reach_chain env reg v q hff ⟨[], v⟩ l ⟨⟨hw, hd⟩, hch⟩ hl
  refine ⟨pre, ?_⟩
  have e := hpre []
  simp only [List.append_nil] at e
  simp only [ND.find, e, List.append_nil]

end JPV.Proofs.NdExh
