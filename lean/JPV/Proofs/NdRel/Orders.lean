/-
The frontier enumeration `orders`: an inductive characterisation `Ord` (no fuel), the nodes still
to be visited from a frontier (`pending`), and `mem orders ↔ Ord` when the fuel exceeds the number
of pending nodes.
-/
import JPV.Proofs.NdRel.Desc
namespace JPV.Proofs.NdRel
open JPV JPV.Spec JPV.Spec.ND

/-- the item for the rest of an array chain -/
def chainItem : List Node → List Item
  | [] => []
  | s :: ss => [⟨s, ss⟩]

/-- the items that become available once `it` has been visited -/
def nextItems (it : Item) : List Item := chainItem it.later ++ childItems it.node

/-- `Ord fr ns`: `ns` is a complete visit order from the frontier `fr` -/
inductive Ord : List Item → List Node → Prop
  | nil : Ord [] []
  | step (fr a b : List Item) (it : Item) (ns : List Node) :
      fr = a ++ it :: b → Ord (a ++ b ++ nextItems it) ns → Ord fr (it.node :: ns)

theorem orders_cons (fuel : Nat) (i : Item) (fr : List Item) :
    orders (fuel + 1) (i :: fr) =
      (picks (i :: fr)).flatMap (fun p =>
        (orders fuel (p.2 ++ nextItems p.1)).map (fun r => p.1.node :: r)) := by
  rw [orders]
  · rfl
  · intro h; cases h

theorem orders_nil (fuel : Nat) : orders fuel [] = [[]] := by
  cases fuel <;> simp [orders]

theorem Ord.perm {fr : List Item} {ns : List Node} (h : Ord fr ns) :
    ∀ fr', fr.Perm fr' → Ord fr' ns := by
  induction h with
  | nil =>
    intro fr' hp
    have := hp.symm.eq_nil
    subst this
    exact .nil
  | step fr a b it ns hfr _ ih =>
    intro fr' hp
    subst hfr
    have hi : it ∈ fr' := hp.subset (by simp)
    obtain ⟨a', b', rfl⟩ := List.append_of_mem hi
    have hp' : (a ++ b).Perm (a' ++ b') :=
      ((List.perm_middle.symm.trans hp).trans List.perm_middle).cons_inv
    exact .step _ a' b' it ns rfl (ih _ (hp'.append_right _))

/-! ### pending nodes -/

/-- the nodes an item still owes: the node, its right siblings, and all their descendants -/
def pendItem (it : Item) : List Node := (it.node :: it.later).flatMap desc

/-- the nodes still to be visited from a frontier -/
def pending (fr : List Item) : List Node := fr.flatMap pendItem

theorem pending_nil : pending [] = [] := rfl
theorem pending_cons (it : Item) (fr : List Item) : pending (it :: fr) = pendItem it ++ pending fr :=
  List.flatMap_cons
theorem pending_append (a b : List Item) : pending (a ++ b) = pending a ++ pending b :=
  List.flatMap_append

theorem pending_chainItem (l : List Node) : pending (chainItem l) = l.flatMap desc := by
  cases l with
  | nil => rfl
  | cons s ss => simp [chainItem, pending, pendItem]

theorem childItems_arr (n : Node) (xs : List Json) (h : n.val = .arr xs) :
    childItems n = chainItem (arrChildren n xs) := by
  unfold childItems
  rw [h]
  simp only
  cases arrChildren n xs <;> rfl

theorem childItems_obj (n : Node) (kvs : List (Str × Json)) (h : n.val = .obj kvs) :
    childItems n = (children n).map (fun c => ⟨c, []⟩) := by
  unfold childItems children
  rw [h]
  simp [List.map_map, Function.comp_def]

theorem pending_singletons (l : List Node) :
    pending (l.map (fun c => (⟨c, []⟩ : Item))) = l.flatMap desc := by
  simp [pending, pendItem, List.flatMap_map]

theorem pending_childItems (n : Node) : pending (childItems n) = (children n).flatMap desc := by
  cases hv : n.val with
  | arr xs =>
    rw [childItems_arr n xs hv, pending_chainItem]
    simp [children, hv]
  | obj kvs =>
    rw [childItems_obj n kvs hv, pending_singletons]
  | _ => simp [childItems, children, hv, pending]

theorem pendItem_eq (it : Item) :
    pendItem it = it.node :: (pending (childItems it.node) ++ pending (chainItem it.later)) := by
  rw [pending_childItems, pending_chainItem]
  show (it.node :: it.later).flatMap desc = _
  rw [List.flatMap_cons, desc_children]
  rfl

theorem pendItem_perm (it : Item) : (pendItem it).Perm (it.node :: pending (nextItems it)) := by
  rw [pendItem_eq, nextItems, pending_append]
  exact (List.perm_append_comm).cons _

theorem pending_step (a b : List Item) (it : Item) :
    (pending (a ++ it :: b)).Perm (it.node :: pending (a ++ b ++ nextItems it)) := by
  rw [pending_append, pending_cons, pending_append, pending_append]
  have h1 : (pendItem it ++ pending b).Perm (it.node :: (pending b ++ pending (nextItems it))) := by
    have := (pendItem_perm it).append_right (pending b)
    refine this.trans ?_
    rw [List.cons_append]
    exact (List.perm_append_comm).cons _
  refine ((h1.append_left (pending a)).trans List.perm_middle).trans ?_
  rw [List.append_assoc]

theorem Ord.perm_pending {fr : List Item} {ns : List Node} (h : Ord fr ns) :
    ns.Perm (pending fr) := by
  induction h with
  | nil => exact .refl _
  | step fr a b it ns hfr _ ih =>
    subst hfr
    exact (ih.cons _).trans (pending_step a b it).symm

theorem pendItem_ne_nil (it : Item) : pendItem it ≠ [] := by
  rw [pendItem_eq]; intro h; cases h

theorem pending_eq_nil {fr : List Item} (h : pending fr = []) : fr = [] := by
  cases fr with
  | nil => rfl
  | cons it fr =>
    rw [pending_cons] at h
    exact absurd (List.append_eq_nil_iff.1 h).1 (pendItem_ne_nil it)

/-! ### `orders` and `Ord` -/

theorem Ord.mem_orders {fr : List Item} {ns : List Node} (h : Ord fr ns) :
    ∀ fuel, ns.length < fuel → ns ∈ orders fuel fr := by
  induction h with
  | nil =>
    intro fuel hf
    rw [orders_nil]; exact List.mem_singleton.2 rfl
  | step fr a b it ns hfr _ ih =>
    intro fuel hf
    cases fuel with
    | zero => omega
    | succ fuel =>
      simp only [List.length_cons] at hf
      have h1 := ih fuel (by omega)
      subst hfr
      cases hab : a ++ it :: b with
      | nil => simp at hab
      | cons z zs =>
        rw [orders_cons, ← hab]
        exact List.mem_flatMap.2 ⟨(it, a ++ b), mem_picks_iff.2 ⟨a, b, rfl, rfl⟩,
          List.mem_map.2 ⟨ns, h1, rfl⟩⟩

theorem Ord.of_mem_orders : ∀ (fuel : Nat) (fr : List Item) (ns : List Node),
    (pending fr).length < fuel → ns ∈ orders fuel fr → Ord fr ns := by
  intro fuel
  induction fuel with
  | zero => intro fr ns hf; omega
  | succ fuel ih =>
    intro fr ns hf hm
    cases fr with
    | nil =>
      rw [orders_nil, List.mem_singleton] at hm
      subst hm; exact .nil
    | cons i fr0 =>
      rw [orders_cons] at hm
      obtain ⟨⟨it, rest⟩, hp, hm⟩ := List.mem_flatMap.1 hm
      obtain ⟨r, hr, rfl⟩ := List.mem_map.1 hm
      obtain ⟨a, b, hab, hrest⟩ := mem_picks_iff.1 hp
      simp only at hr hrest ⊢
      subst hrest
      have hl := (pending_step a b it).length_eq
      rw [← hab, List.length_cons] at hl
      exact .step _ a b it r hab (ih _ _ (by omega) hr)

theorem mem_orders_iff {fuel : Nat} {fr : List Item} {ns : List Node}
    (hf : (pending fr).length < fuel) : ns ∈ orders fuel fr ↔ Ord fr ns :=
  ⟨Ord.of_mem_orders fuel fr ns hf, fun h => h.mem_orders fuel (by rw [h.perm_pending.length_eq]; exact hf)⟩

/-- the single-item frontier of a node: one step reaches its children's items -/
theorem ord_single_iff (n : Node) (ord : List Node) :
    Ord [⟨n, []⟩] ord ↔ ∃ r, ord = n :: r ∧ Ord (childItems n) r := by
  constructor
  · intro h
    cases h with
    | step _ a b it ns hfr h' =>
      cases a with
      | nil =>
        simp only [List.nil_append, List.cons.injEq] at hfr
        obtain ⟨rfl, rfl⟩ := hfr
        exact ⟨ns, rfl, by simpa [nextItems, chainItem] using h'⟩
      | cons z a =>
        simp only [List.cons_append, List.cons.injEq] at hfr
        exact absurd hfr.2.symm (by simp)
  · rintro ⟨r, rfl, h⟩
    exact .step _ [] [] ⟨n, []⟩ r rfl (by simpa [nextItems, chainItem] using h)

theorem pending_single (n : Node) : pending [⟨n, []⟩] = desc n := by
  simp [pending, pendItem]

theorem mem_visitOrders_iff (n : Node) (ord : List Node) :
    ord ∈ visitOrders n ↔ Ord [⟨n, []⟩] ord := by
  have hlen : (pending (childItems n)).length < n.val.size + 1 := by
    have h1 : (desc n).length = n.val.size := desc_length n.loc n.val
    rw [desc_children, List.length_cons, ← pending_childItems] at h1
    omega
  rw [ord_single_iff, visitOrders, List.mem_map]
  constructor
  · rintro ⟨r, hr, rfl⟩
    exact ⟨r, rfl, (mem_orders_iff hlen).1 hr⟩
  · rintro ⟨r, rfl, hr⟩
    exact ⟨r, (mem_orders_iff hlen).2 hr, rfl⟩

/-- document pre-order is one of the visit orders -/
theorem ord_pending : ∀ (k : Nat) (fr : List Item), (pending fr).length ≤ k → Ord fr (pending fr) := by
  intro k
  induction k with
  | zero =>
    intro fr hk
    have : fr = [] := pending_eq_nil (List.eq_nil_of_length_eq_zero (by omega))
    subst this; exact .nil
  | succ k ih =>
    intro fr hk
    cases fr with
    | nil => exact .nil
    | cons it b =>
      have heq : pending (it :: b) =
          it.node :: pending (childItems it.node ++ chainItem it.later ++ b) := by
        rw [pending_cons, pendItem_eq, pending_append, pending_append]
        simp
      rw [heq]
      have hlen : (pending (childItems it.node ++ chainItem it.later ++ b)).length ≤ k := by
        have := congrArg List.length heq
        rw [List.length_cons] at this
        omega
      refine .step _ [] b it _ rfl ((ih _ hlen).perm _ ?_)
      simp only [List.nil_append, nextItems]
      exact (List.perm_append_comm.append_right b).trans List.perm_append_comm

end JPV.Proofs.NdRel
