/-
`Proofs.Cs.Shape` — the token shape of a filter-free derivation: the interface between the lexer
simulation (`Cs.Lex*`) and the parser execution (`Cs.Parse*`) halves of `compile_complete_structural`.
-/
import JPV.Impl.Parse
import JPV.Spec.Grammar
import JPV.Spec.Typing
namespace JPV.Proofs.Cs
open JPV JPV.Impl

/-- `v` is an INDEX token text denoting `i` that passes the parser's leading-zero checks -/
structure IdxTok (v : Str) (i : Int) : Prop where
  int : Py.intOfText v = some i
  nz : ¬ (1 < v.length ∧ v.head? = some '0')
  nm : ¬ (['-', '0'] <+: v)

/-- tokens of an optional slice part -/
inductive OptShape : Option Int → List Token → Prop
  | none : OptShape none []
  | some (v : Str) (i : Int) (k : Int) : IdxTok v i → OptShape (some i) [⟨.index, v, k⟩]

/-- tokens of the optional `":" [step]` tail of a slice -/
inductive StepShape : Option Int → List Token → Prop
  | absent : StepShape none []
  | colon (k : Int) : StepShape none [⟨.colon, [':'], k⟩]
  | step (v : Str) (i : Int) (k k' : Int) : IdxTok v i → StepShape (some i) [⟨.colon, [':'], k⟩, ⟨.index, v, k'⟩]

inductive SelShape : Spec.CSelector → List Token → Prop
  | wild (k : Int) : SelShape .wild [⟨.wild, ['*'], k⟩]
  | name (q : Char) (body s : Str) (k : Int) : (q = '\'' ∨ q = '"') →
      decodeStringLiteral (strKind q) body = .ok s → SelShape (.name s) [⟨strKind q, body, k⟩]
  | index (v : Str) (i : Int) (k : Int) : IdxTok v i → SelShape (.index i) [⟨.index, v, k⟩]
  | slice (a b c : Option Int) (ta tb tc : List Token) (k : Int) : OptShape a ta → OptShape b tb →
      StepShape c tc → SelShape (.slice a b c) (ta ++ ⟨.colon, [':'], k⟩ :: (tb ++ tc))

/-- `*(S "," S selector)` -/
inductive MoreShape : List Spec.CSelector → List Token → Prop
  | nil : MoreShape [] []
  | cons (s : Spec.CSelector) (ss : List Spec.CSelector) (k : Int) (t1 t2 : List Token) :
      SelShape s t1 → MoreShape ss t2 → MoreShape (s :: ss) (⟨.comma, [','], k⟩ :: (t1 ++ t2))

/-- the selectors inside brackets -/
inductive SelsShape : List Spec.CSelector → List Token → Prop
  | mk (s : Spec.CSelector) (ss : List Spec.CSelector) (t1 t2 : List Token) :
      SelShape s t1 → MoreShape ss t2 → SelsShape (s :: ss) (t1 ++ t2)

inductive SegShape : Spec.CSegment → List Token → Prop
  | dotName (s : Str) (k : Int) : SegShape (.child [.name s] false) [⟨.property, s, k⟩]
  | dotWild (k : Int) : SegShape (.child [.wild] false) [⟨.wild, ['*'], k⟩]
  | brack (sels : List Spec.CSelector) (fl : Bool) (ts : List Token) (k k' : Int) : SelsShape sels ts →
      SegShape (.child sels fl) (⟨.lbracket, ['['], k⟩ :: (ts ++ [⟨.rbracket, [']'], k'⟩]))
  | descName (s : Str) (k k' : Int) :
      SegShape (.desc [.name s]) [⟨.doubleDot, ['.', '.'], k⟩, ⟨.property, s, k'⟩]
  | descWild (k k' : Int) : SegShape (.desc [.wild]) [⟨.doubleDot, ['.', '.'], k⟩, ⟨.wild, ['*'], k'⟩]
  | descBrack (sels : List Spec.CSelector) (ts : List Token) (k0 k k' : Int) : SelsShape sels ts →
      SegShape (.desc sels)
        (⟨.doubleDot, ['.', '.'], k0⟩ :: ⟨.lbracket, ['['], k⟩ :: (ts ++ [⟨.rbracket, [']'], k'⟩]))

inductive SegsShape : List Spec.CSegment → List Token → Prop
  | nil : SegsShape [] []
  | cons (s : Spec.CSegment) (ss : List Spec.CSegment) (t1 t2 : List Token) :
      SegShape s t1 → SegsShape ss t2 → SegsShape (s :: ss) (t1 ++ t2)

/-! ### filter-freeness on derivation trees -/

def ffSel : Spec.CSelector → Bool
  | .filter _ => false
  | _ => true

def ffSels (ss : List Spec.CSelector) : Bool := ss.all ffSel

def ffSeg : Spec.CSegment → Bool
  | .child sels _ => ffSels sels
  | .desc sels => ffSels sels

def ffSegs (ss : List Spec.CSegment) : Bool := ss.all ffSeg

theorem ffSels_of (ss : List Spec.CSelector) (h : Spec.filterFreeSels (Spec.abstractSels ss) = true) :
    ffSels ss = true := by
  induction ss with
  | nil => rfl
  | cons s ss ih =>
    cases s <;> simp_all [Spec.abstractSels, Spec.abstractSel, Spec.filterFreeSels, ffSels, ffSel]

theorem ffSegs_of (c : List Spec.CSegment) (h : Spec.filterFree (Spec.abstractSegs c) = true) :
    ffSegs c = true := by
  induction c with
  | nil => rfl
  | cons s ss ih =>
    cases s with
    | child sels b =>
      simp only [Spec.abstractSegs, Spec.filterFree, List.all_cons, Bool.and_eq_true, Spec.filterFreeSeg] at h
      simp only [ffSegs, List.all_cons, Bool.and_eq_true, ffSeg]
      exact ⟨ffSels_of _ h.1, ih h.2⟩
    | desc sels =>
      simp only [Spec.abstractSegs, Spec.filterFree, List.all_cons, Bool.and_eq_true, Spec.filterFreeSeg] at h
      simp only [ffSegs, List.all_cons, Bool.and_eq_true, ffSeg]
      exact ⟨ffSels_of _ h.1, ih h.2⟩

end JPV.Proofs.Cs
