/-
The executable enumeration `Spec.ND.outcomes` lists exactly the nodelists the declarative relation
`Spec.ND.Permitted` admits.  STATEMENTS ARE FIXED.  Helper lemmas go in `JPV/Proofs/NdRel/*.lean`.
-/
import JPV.Spec.NonDetRel
import JPV.Proofs.NdRel.Query
namespace JPV.Proofs
open JPV JPV.Spec

/-- every enumerated outcome is permitted -/
theorem outcomes_sound (reg : Registry) (q : Query) (v : Json) (hw : v.WF) (out : List Node) :
    out ∈ ND.outcomes reg q v → ND.Permitted reg q v out :=
  (NdRel.outcomes_iff reg q v hw out).1

/-- every permitted nodelist is enumerated -/
theorem outcomes_complete (reg : Registry) (q : Query) (v : Json) (hw : v.WF) (out : List Node) :
    ND.Permitted reg q v out → out ∈ ND.outcomes reg q v :=
  (NdRel.outcomes_iff reg q v hw out).2

/-- the visit orders of §2.5.2.2, on their own: the frontier enumeration lists exactly the linear extensions of
"ancestor before descendant, array elements in array order" -/
theorem visitOrders_iff (loc : Loc) (v : Json) (hw : v.WF) (ord : List Node) :
    ord ∈ ND.visitOrders ⟨loc, v⟩ ↔ ND.VisitOrder ⟨loc, v⟩ ord :=
  NdRel.visitOrders_iff' ⟨loc, v⟩ hw ord

/-- the deterministic RFC nodelist (document order everywhere) is one of the permitted ones -/
theorem select_permitted (reg : Registry) (q : Query) (v : Json) (hw : v.WF) :
    ND.Permitted reg q v (select reg q v) := by
  unfold ND.Permitted select
  refine NdRel.selectFrom_permitted reg v q _ ?_
  intro n hn
  rw [List.mem_singleton] at hn; subst hn
  exact hw

end JPV.Proofs
