import JPV.Impl.Regex
import JPV.Spec.IRegexp
namespace JPV.Proofs
open JPV JPV.Impl JPV.Spec.IRe

/-- The grammar-directed description of the rewrite: walk the pattern as the RFC 9485 grammar
reads it — an escape `\x` (incl. `\p{..}`) is copied, a character class `[...]` is copied up to its
closing bracket (escapes inside it copied as pairs), a dot atom becomes the group, anything else is
copied. -/
def translateClass : List Char → List Char × List Char
  | [] => ([], [])
  | ']' :: r => ([']'], r)
  | '\\' :: c :: r => let (a, b) := translateClass r; ('\\' :: c :: a, b)
  | c :: r => let (a, b) := translateClass r; (c :: a, b)

def translateDotsFuel : Nat → List Char → List Char
  | 0, p => p
  | _ + 1, [] => []
  | f + 1, '\\' :: c :: r => '\\' :: c :: translateDotsFuel f r
  | f + 1, '[' :: r => let (a, b) := translateClass r; '[' :: a ++ translateDotsFuel f b
  | f + 1, '.' :: r => Impl.dotGroup ++ translateDotsFuel f r
  | f + 1, c :: r => c :: translateDotsFuel f r

def translateDots (p : List Char) : List Char := translateDotsFuel (p.length + 1) p

/-- language membership for I-Regexp ASTs -/
inductive Matches : Re → List CChar → Prop
  | eps : Matches .eps []
  | chr (k : Nat) (c : CChar) : c.1.toNat = k → Matches (.chr k) [c]
  | dot (c : CChar) : c.1 ≠ '\n' → c.1 ≠ '\r' → Matches .dot [c]
  | cls (neg : Bool) (items : List CCItem) (c : CChar) : (items.any (itemMatches c) != neg) = true → Matches (.cls neg items) [c]
  | cat (neg : Bool) (p : Str) (c : CChar) : (propMatches p c.2 != neg) = true → Matches (.cat neg p) [c]
  | seq (a b : Re) (s t : List CChar) : Matches a s → Matches b t → Matches (.seq a b) (s ++ t)
  | altL (a b : Re) (s : List CChar) : Matches a s → Matches (.alt a b) s
  | altR (a b : Re) (s : List CChar) : Matches b s → Matches (.alt a b) s
  /-- zero iterations, allowed when the lower bound is 0 -/
  | repNil (r : Re) (hi : Option Nat) : Matches (.rep r 0 hi) []
  /-- one more iteration (upper bound, if any, at least 1) -/
  | repCons (r : Re) (lo : Nat) (hi : Option Nat) (s t : List CChar) :
      (∀ h, hi = some h → 0 < h) → Matches r s → Matches (.rep r (lo - 1) (hi.map (· - 1))) t →
      Matches (.rep r lo hi) (s ++ t)

theorem regex_logic (eng : Engines) (subject pattern : Obj) :
    (∃ b, matchBody eng [subject, pattern] = .ok (.val (.bool b))) ∧
    (∃ b, searchBody eng [subject, pattern] = .ok (.val (.bool b))) ∧
    ((∀ p, pattern ≠ .val (.str p)) → matchBody eng [subject, pattern] = .ok (.val (.bool false)) ∧
        searchBody eng [subject, pattern] = .ok (.val (.bool false))) ∧
    (∀ p, pattern = .val (.str p) → eng.check p = false →
        matchBody eng [subject, pattern] = .ok (.val (.bool false)) ∧ searchBody eng [subject, pattern] = .ok (.val (.bool false))) ∧
    ((∀ s, subject ≠ .val (.str s)) → matchBody eng [subject, pattern] = .ok (.val (.bool false)) ∧
        searchBody eng [subject, pattern] = .ok (.val (.bool false))) := by sorry

theorem mapRe_translation (p : Str) (h : (Spec.IRe.parse p).isSome = true) :
    Impl.mapRe p = translateDots p := by sorry

/-- every counted repetition has its lower bound below its upper bound (true of every parsed pattern) -/
def reOk : Re → Bool
  | .seq a b => reOk a && reOk b
  | .alt a b => reOk a && reOk b
  | .rep r lo (some hi) => decide (lo ≤ hi) && reOk r
  | .rep r _ none => reOk r
  | _ => true

theorem parse_reOk (p : Str) (r : Re) (h : Spec.IRe.parse p = some r) : reOk r = true := by sorry

theorem deriv_correct (r : Re) (hok : reOk r = true) (s : List CChar) :
    (fullMatch r s = true ↔ Matches r s) ∧
    (searchMatch r s = true ↔ ∃ pre mid post, s = pre ++ mid ++ post ∧ Matches r mid) := by sorry

end JPV.Proofs
