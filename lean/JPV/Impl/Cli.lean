/-
`Impl.Cli` — the decision logic of cli.py `handle_path_command`: what the process
does when `compile`, `json.load`, `find` or `values` raises an exception of a given
class (exit status, a diagnostic on stderr, a traceback only under `--debug`,
nothing written to the output), and the data flow of a successful run.

The table `Generated.cliBehaviour` is regenerated on every run by *executing*
`handle_path_command` once for every (stage, exception class, --debug) of a finite
domain (Tie A, `gen_tables.extract_cli_behaviour`): every class of the JSONPath
exception hierarchy at the compile, find and values steps, and the two document
decoding errors at the load step.  It is exhaustive over that domain, so the
theorems are about what the handlers do now, however they are written; what is
assumed is that a handler's behaviour depends on the class of the exception only.
`Generated.cliTrace` is the data flow of one successful run, observed by wrapping
the library's own `compile`/`find`/`values`.

Modelled, not verified: `argparse`, `json.load`/`json.dump`, file objects,
process exit; compared by the `cli` correspondence (in-process and subprocess).
-/
import JPV.Generated
namespace JPV.Impl.Cli

inductive Stage where
  | compile | evaluate
deriving DecidableEq, Repr

structure Result where
  exitCode : Nat
  stderrLines : Nat
  traceback : Bool
  outputWritten : Bool
deriving DecidableEq, Repr

/-- the row of the regenerated table -/
def row (stage exc : String) (debug : Bool) : Option Result :=
  (Generated.cliBehaviour.find? (fun r => r.1 = stage && r.2.1 = exc && r.2.2.1 = debug)).map
    (fun r => ⟨r.2.2.2.1, r.2.2.2.2.1, r.2.2.2.2.2.1, r.2.2.2.2.2.2⟩)

def loadErrors : List String := ["JSONDecodeError", "UnicodeDecodeError"]

/-- an exception no handler is known for: the interpreter prints a traceback and exits 1 -/
def uncaught : Result := ⟨1, 0, true, false⟩

/-- what happens when `exc` is raised at `stage` (for `evaluate`: by `json.load` if it is a decoding error,
otherwise by `find`) -/
def onException (stage : Stage) (exc : String) (debug : Bool) : Result :=
  match stage with
  | .compile => (row "compile" exc debug).getD uncaught
  | .evaluate =>
    if loadErrors.contains exc then (row "load" exc debug).getD uncaught
    else (row "find" exc debug).getD uncaught

/-- every stage succeeded -/
def onSuccess : Result := (row "ok" "" false).getD uncaught

/-- the exception classes compile() and find() can raise (C13) -/
def jsonpathErrors : List String :=
  ["JSONPathError", "JSONPathSyntaxError", "JSONPathTypeError", "JSONPathIndexError", "JSONPathNameError",
   "JSONPathRecursionError", "JSONPathLexerError"]

/-- the report the property asks for -/
def reported (debug : Bool) : Result := if debug then ⟨1, 0, true, false⟩ else ⟨1, 1, false, false⟩

/-- the data flow of a successful run: the query text goes to compile, the decoded document to find, and what
is written is the JSON text of `.values()` -/
def wiring : Bool :=
  match Generated.cliTrace with
  | [c, f, v, o] =>
    c = "compile:$.a" && f = "find:{\"a\": [1, 2]}" && v = "values:[[1, 2]]" && o = "output:[[1, 2]]"
  | _ => false

end JPV.Impl.Cli
