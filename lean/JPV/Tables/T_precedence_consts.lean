import JPV.Tables.Common
import JPV.Impl.Serialize
namespace JPV.Tables
open JPV JPV.Impl

/-- the serializer's five precedence constants (filter_expressions.py) are only compared with each other (`>=`, `>`):
their ORDER is the model's -/
def serVals : List (Int × Int) :=
  [((Impl.serPrecLowest : Int), serConst "PRECEDENCE_LOWEST"), ((Impl.serPrecOr : Int), serConst "PRECEDENCE_LOGICAL_OR"),
   ((Impl.serPrecAnd : Int), serConst "PRECEDENCE_LOGICAL_AND"), ((Impl.serPrecRelational : Int), serConst "PRECEDENCE_RELATIONAL"),
   ((Impl.serPrecPrefix : Int), serConst "PRECEDENCE_PREFIX")]

theorem precedence_consts :
    serVals.all (fun a => serVals.all (fun b => compare a.1 b.1 == compare a.2 b.2)) = true := by decide +kernel

end JPV.Tables
