/-
`Proofs.Float.StrFloatRT` — `Proofs.FloatRoundTrips` (stated over the repaired `Impl.strFloat`) holds for EVERY
finite double and for the two infinities `⟨true, ±1, 0⟩`.
-/
import JPV.Proofs.Float.StrFloat
import JPV.Proofs.Float.Origin
namespace JPV.Proofs.Float
open JPV JPV.Proofs.Cf

/-- the printed float literal reads back, for every finite double -/
theorem strFloat_round_trips (x : Num) (h : IsDouble x) : FloatRoundTrips x := by
  by_cases hn : x.n = 0
  · obtain ⟨hf, hz | ⟨m, e, hm0, _, _, _, hg, hv⟩⟩ := h
    · obtain ⟨flt, n, d⟩ := x
      simp only at hf hz hn
      obtain ⟨rfl, hd⟩ := hz
      subst hf
      rcases hd with rfl | rfl
      · unfold FloatRoundTrips; decide +kernel
      · unfold FloatRoundTrips; decide +kernel
    · exfalso
      rw [hn] at hg hv
      simp only [Int.natAbs_zero, Nat.gcd_zero_left, Nat.zero_mul] at hg hv
      rw [hg] at hv
      have := Nat.mul_pos hm0 (Nat.two_pow_pos e.toNat)
      omega
  · have hback := (floatOfText_reprFloat x h).2
    obtain ⟨hN, hd, hg, M, E, hM0, hM, hnorm, hE0, hE1, hv⟩ := h.nonzero hn
    obtain ⟨k, hk1, hk17, hm1, hm2, hdp1, hdp2, -, -, -⟩ :=
      find_reads_back _ _ M E hN hd hM0 hM hnorm hE0 hE1 hv
    have hform : Py.reprFloat x = if x.n < 0 then '-' :: Py.reprPos x.n.natAbs x.d else Py.reprPos x.n.natAbs x.d := by
      unfold Py.reprFloat
      rw [if_neg (by omega), if_neg (fun hc => hn hc.1)]
    unfold FloatRoundTrips
    rw [strFloat_eq, if_neg (by omega)]
    rw [hform, reprPos_eq _ _ (by omega)] at hback ⊢
    generalize Py.reprPos.find x.n.natAbs x.d (Py.roundBinary64 x.n.natAbs x.d) 17 1 = r at *
    obtain ⟨m, dp⟩ := r
    simp only at *
    have hm0 : 0 < m := lt_of_lt_of_le (Nat.pow_pos (by norm_num)) hm1
    obtain ⟨⟨a1, a2, a3⟩, ⟨b1, b2, b3⟩⟩ := fixExp_layout m hm0 dp hdp1 hdp2
    by_cases hneg : x.n < 0
    · rw [if_pos hneg] at hback ⊢
      refine ⟨b1, ?_⟩
      rw [numberValue_eq, b2, if_pos rfl, b3]; exact hback
    · rw [if_neg hneg] at hback ⊢
      refine ⟨a1, ?_⟩
      rw [numberValue_eq, a2, if_pos rfl, a3]; exact hback

/-- … and for the infinities, printed as `1e400` / `-1e400` -/
theorem strFloat_round_trips_inf (x : Num) (h : x.flt = true) (hd : x.d = 0) (hn : x.n = 1 ∨ x.n = -1) :
    FloatRoundTrips x := by
  obtain ⟨flt, n, d⟩ := x
  simp only at h hd hn
  subst h hd
  rcases hn with rfl | rfl
  · unfold FloatRoundTrips; decide +kernel
  · unfold FloatRoundTrips; decide +kernel

/-- the shape of an infinite value of `float(text)` -/
theorem floatOfText_inf_form (s : Str) (x : Num) (h : Py.floatOfText s = some x) (hd : x.d = 0) :
    x.flt = true ∧ (x.n = 1 ∨ x.n = -1) := by
  rw [floatOfText_eq] at h
  cases hp : Py.parseDecimal s with
  | none => rw [hp] at h; cases h
  | some t =>
    obtain ⟨neg, n, d⟩ := t
    rw [hp] at h
    simp only at h
    cases hr : Py.roundBinary64 n d with
    | none =>
      rw [hr] at h; simp only at h; cases h
      refine ⟨rfl, ?_⟩
      cases neg <;> simp
    | some me =>
      obtain ⟨m, e⟩ := me
      rw [hr] at h
      simp only at h
      exfalso
      split at h
      · cases h; cases hd
      · cases h
        simp only at hd
        rcases Nat.eq_zero_or_pos m with hm0 | hm0
        · subst hm0; rw [ratioOfBinary_zero] at hd; cases hd
        · have := (ratioOfBinary_spec m e hm0).2.1
          omega

/-- every float literal of a compiled query is a finite double or one of the infinities `⟨true, ±1, 0⟩` -/
theorem floats_of_compile_form (env : Impl.Env) (s : Str) (q : Query) (h : Impl.compile env s = .ok q) :
    ∀ x ∈ Proofs.floatsSegs q, IsDouble x ∨ (x.flt = true ∧ x.d = 0 ∧ (x.n = 1 ∨ x.n = -1)) := by
  intro x hx
  obtain ⟨sp, hsp⟩ := floats_of_compile env s q h x hx
  by_cases hd : x.d = 0
  · obtain ⟨a, b⟩ := floatOfText_inf_form sp x hsp hd
    exact .inr ⟨a, hd, b⟩
  · exact .inl (floatOfText_isDouble sp x hsp hd)

/-- hence every float literal of a compiled query reads back from its printed form -/
theorem floats_of_compile_round_trip (env : Impl.Env) (s : Str) (q : Query) (h : Impl.compile env s = .ok q) :
    ∀ x ∈ Proofs.floatsSegs q, FloatRoundTrips x := by
  intro x hx
  rcases floats_of_compile_form env s q h x hx with hD | ⟨a, b, c⟩
  · exact strFloat_round_trips x hD
  · exact strFloat_round_trips_inf x a b c

end JPV.Proofs.Float
