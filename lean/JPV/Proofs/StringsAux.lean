/-
Helper lemmas for `Proofs.Strings` (C09): list-form models of the string-literal
decoder (`hexL`, `decEscL`, `unescL`), the quote-normalising `replace` pair in
recursive form (`normL`), and the stepping equations of the combined
lexer+decoder function `D` which mirror the clauses of `Spec.stringBody`.
-/
import JPV.Impl.Parse
import JPV.Spec.Grammar
namespace JPV.Proofs.StrAux
open JPV JPV.Impl

/-! ### characters -/

theorem isHEXDIG_iff (c : Char) : Spec.isHEXDIG c = true ↔
    (48 ≤ c.toNat ∧ c.toNat ≤ 57) ∨ (65 ≤ c.toNat ∧ c.toNat ≤ 70) ∨ (97 ≤ c.toNat ∧ c.toNat ≤ 102) := by
  simp [Spec.isHEXDIG, Spec.isDIGIT, Char.le_def, UInt32.le_iff_toNat_le]
  omega

def hexStep (acc : Nat) (c : Char) : Option Nat :=
    let n := c.toNat
    if n ≥ 48 ∧ n ≤ 57 then some (acc * 16 + (n - 48))
    else if n ≥ 65 ∧ n ≤ 70 then some (acc * 16 + (n - 65 + 10))
    else if n ≥ 97 ∧ n ≤ 102 then some (acc * 16 + (n - 97 + 10))
    else none

theorem hexStep_eq (acc : Nat) (c : Char) :
    hexStep acc c = if Spec.isHEXDIG c then some (acc * 16 + Spec.hexVal c) else none := by
  by_cases h : Spec.isHEXDIG c = true
  · simp only [h, if_true]
    have h' := (isHEXDIG_iff c).1 h
    simp only [hexStep, Spec.hexVal, Spec.isDIGIT, Char.le_def, UInt32.le_iff_toNat_le, Bool.and_eq_true, decide_eq_true_eq]
    simp
    repeat' split
    all_goals (simp; try omega)
  · simp only [h]
    have h' : ¬ ((48 ≤ c.toNat ∧ c.toNat ≤ 57) ∨ (65 ≤ c.toNat ∧ c.toNat ≤ 70) ∨ (97 ≤ c.toNat ∧ c.toNat ≤ 102)) :=
      fun x => h ((isHEXDIG_iff c).2 x)
    simp only [hexStep, ge_iff_le, Bool.false_eq_true, if_false]
    repeat' split
    all_goals first | rfl | (exfalso; omega)

theorem parseHexDigits_four (a b c d : Char) :
    Impl.parseHexDigits [a, b, c, d] =
      if Spec.isHEXDIG a && Spec.isHEXDIG b && Spec.isHEXDIG c && Spec.isHEXDIG d then
        some (((Spec.hexVal a * 16 + Spec.hexVal b) * 16 + Spec.hexVal c) * 16 + Spec.hexVal d)
      else none := by
  have : Impl.parseHexDigits [a,b,c,d] = [a,b,c,d].foldlM hexStep 0 := rfl
  rw [this]
  simp only [List.foldlM_cons, List.foldlM_nil, hexStep_eq]
  by_cases ha : Spec.isHEXDIG a <;> by_cases hb : Spec.isHEXDIG b <;> by_cases hc : Spec.isHEXDIG c <;> by_cases hd : Spec.isHEXDIG d <;> simp [ha, hb, hc, hd]

theorem hex_ne_bs {c : Char} (h : Spec.isHEXDIG c = true) : c ≠ '\\' := by
  intro e; subst e; revert h; decide
theorem hex_ne_sq {c : Char} (h : Spec.isHEXDIG c = true) : c ≠ '\'' := by
  intro e; subst e; revert h; decide
theorem hex_ne_dq {c : Char} (h : Spec.isHEXDIG c = true) : c ≠ '"' := by
  intro e; subst e; revert h; decide

/-! ### `hex4` -/

theorem hex4_short {l : List Char} (h : l.length < 4) : Spec.hex4 l = none := by
  match l, h with
  | [], _ => rfl
  | [_], _ => rfl
  | [_, _], _ => rfl
  | [_, _, _], _ => rfl
  | _ :: _ :: _ :: _ :: _, h => simp at h; omega

theorem hex4_some {l l' : List Char} {v : Nat} (h : Spec.hex4 l = some (v, l')) :
    ∃ a b c d, l = a :: b :: c :: d :: l' ∧ Spec.isHEXDIG a = true ∧ Spec.isHEXDIG b = true ∧
      Spec.isHEXDIG c = true ∧ Spec.isHEXDIG d = true ∧
      v = ((Spec.hexVal a * 16 + Spec.hexVal b) * 16 + Spec.hexVal c) * 16 + Spec.hexVal d := by
  match l, h with
  | [], h => simp [Spec.hex4] at h
  | [_], h => simp [Spec.hex4] at h
  | [_, _], h => simp [Spec.hex4] at h
  | [_, _, _], h => simp [Spec.hex4] at h
  | a :: b :: c :: d :: r, h =>
    simp only [Spec.hex4] at h
    split at h
    · rename_i hh
      simp only [Bool.and_eq_true] at hh
      simp only [Option.some.injEq, Prod.mk.injEq] at h
      exact ⟨a, b, c, d, by rw [h.2], hh.1.1.1, hh.1.1.2, hh.1.2, hh.2, h.1.symm⟩
    · simp at h

theorem hex4_cons {a b c d : Char} {r : List Char} (ha : Spec.isHEXDIG a = true) (hb : Spec.isHEXDIG b = true)
    (hc : Spec.isHEXDIG c = true) (hd : Spec.isHEXDIG d = true) :
    Spec.hex4 (a :: b :: c :: d :: r) =
      some (((Spec.hexVal a * 16 + Spec.hexVal b) * 16 + Spec.hexVal c) * 16 + Spec.hexVal d, r) := by
  simp [Spec.hex4, ha, hb, hc, hd]

/-! ### list form of `decodeHexChar` -/

/-- `decodeHexChar` on the characters after the `u`: (code point, number of characters consumed) -/
def hexL (l : List Char) : Except DecErr (Nat × Nat) :=
  match Spec.hex4 l with
  | none => .error .syntax
  | some (cp, l') =>
    if isLowSurrogate cp then .error .syntax
    else if isHighSurrogate cp then
      match l' with
      | e :: u :: l'' =>
        if e = '\\' ∧ u = 'u' then
          match Spec.hex4 l'' with
          | none => .error .syntax
          | some (lo, _) =>
            if !isLowSurrogate lo then .error .syntax
            else .ok (0x10000 + (((cp &&& 0x03FF) <<< 10) ||| (lo &&& 0x03FF)), 10)
        else .error .syntax
      | _ => .error .syntax
    else .ok (cp, 4)

theorem extract_toList (v : List Char) (a b : Nat) :
    (v.toArray.extract a b).toList = (v.drop a).take (b - a) := by
  simp [List.take_drop]

theorem decodeHexChar_eq (v : List Char) (idx : Nat) :
    decodeHexChar v.toArray idx =
      match hexL (v.drop (idx + 1)) with
      | .error e => .error e
      | .ok (cp, k) => .ok (cp, idx + k) := by
  have hlen : (v.drop (idx + 1)).length = v.length - (idx + 1) := by simp
  have hget : ∀ j, v.toArray[idx + 1 + j]? = (v.drop (idx + 1))[j]? := by intro j; simp
  have hex1 : (v.toArray.extract (idx + 1) (idx + 1 + 4)).toList = (v.drop (idx + 1)).take 4 := by
    rw [extract_toList]; congr 1; omega
  have hex2 : (v.toArray.extract (idx + 1 + 6) (idx + 1 + 10)).toList = ((v.drop (idx + 1)).drop 6).take 4 := by
    rw [extract_toList, List.drop_drop]; congr 1; omega
  have hsz : v.toArray.size = v.length := by simp
  generalize v.drop (idx + 1) = l at *
  unfold decodeHexChar
  simp only [hsz, hex1, hex2, hget]
  by_cases hshort : l.length < 4
  · have : idx + 4 ≥ v.length := by omega
    simp [this, hexL, hex4_short hshort]
  · have hge : ¬ idx + 4 ≥ v.length := by omega
    simp only [hge, if_false]
    match l, hshort with
    | [], h => simp at h
    | [_], h => simp at h
    | [_, _], h => simp at h
    | [_, _, _], h => simp at h
    | a :: b :: c :: d :: l', _ =>
      simp only [List.take_succ_cons, List.take_zero, parseHexDigits_four]
      by_cases hh : (Spec.isHEXDIG a && Spec.isHEXDIG b && Spec.isHEXDIG c && Spec.isHEXDIG d) = true
      · simp only [Bool.and_eq_true] at hh
        simp only [hh, Bool.and_self, if_true, hexL, hex4_cons hh.1.1.1 hh.1.1.2 hh.1.2 hh.2]
        generalize ((Spec.hexVal a * 16 + Spec.hexVal b) * 16 + Spec.hexVal c) * 16 + Spec.hexVal d = cp
        by_cases hlow : isLowSurrogate cp = true
        · simp [hlow]
        by_cases hhigh : isHighSurrogate cp = true
        · simp only [hlow, hhigh, if_true, Bool.false_eq_true, if_false]
          simp only [List.length_cons] at hlen
          match l' with
          | [] => simp
          | [_] => simp
          | e :: u :: l'' =>
            simp only [List.length_cons] at hlen
            by_cases heu : e = '\\' ∧ u = 'u'
            · obtain ⟨rfl, rfl⟩ := heu
              simp only [List.getElem?_cons_succ, List.getElem?_cons_zero, and_self, and_true, if_true]
              by_cases hs : l''.length < 4
              · have : ¬ idx + 1 + 9 < v.length := by omega
                simp [this, hex4_short hs]
              · have : idx + 1 + 9 < v.length := by omega
                simp only [this, decide_true, Bool.not_true, Bool.false_eq_true, if_false]
                match l'', hs with
                | [], h => simp at h
                | [_], h => simp at h
                | [_, _], h => simp at h
                | [_, _, _], h => simp at h
                | a' :: b' :: c' :: d' :: r, _ =>
                  simp only [List.drop_succ_cons, List.drop_zero, List.take_succ_cons, List.take_zero,
                    parseHexDigits_four]
                  by_cases hh' : (Spec.isHEXDIG a' && Spec.isHEXDIG b' && Spec.isHEXDIG c' && Spec.isHEXDIG d') = true
                  · simp only [Bool.and_eq_true] at hh'
                    simp only [hh', Bool.and_self, if_true, hex4_cons hh'.1.1.1 hh'.1.1.2 hh'.1.2 hh'.2]
                    split <;> rfl
                  · simp [hh', Spec.hex4]
            · simp [heu]
        · simp [hlow, hhigh]
      · simp [hh, hexL, Spec.hex4]

/-! ### list form of `decodeEscape` and `unescapeLoop` -/

/-- `decodeEscape` on the characters after the backslash: (character, number of characters
consumed beyond the escape letter) -/
def decEscL : List Char → Except DecErr (Char × Nat)
  | [] => .error .indexError
  | ch :: r =>
    if ch = '"' then .ok ('"', 0)
    else if ch = '\\' then .ok ('\\', 0)
    else if ch = '/' then .ok ('/', 0)
    else if ch = 'b' then .ok (Char.ofNat 8, 0)
    else if ch = 'f' then .ok (Char.ofNat 12, 0)
    else if ch = 'n' then .ok ('\n', 0)
    else if ch = 'r' then .ok ('\r', 0)
    else if ch = 't' then .ok ('\t', 0)
    else if ch = 'u' then
      match hexL r with
      | .error e => .error e
      | .ok (cp, k) => .ok (Char.ofNat cp, k)
    else .error .syntax

theorem decodeEscape_eq (v : List Char) (idx : Nat) :
    decodeEscape v.toArray idx =
      match decEscL (v.drop idx) with
      | .error e => .error e
      | .ok (c, k) => .ok (c, idx + k) := by
  unfold decodeEscape
  by_cases h : idx < v.length
  · rw [List.drop_eq_getElem_cons h]
    have : v.toArray[idx]? = some v[idx] := by simp [h]
    rw [this]
    simp only [decEscL, decodeHexChar_eq]
    generalize v[idx] = ch
    generalize hexL (List.drop (idx + 1) v) = hx
    by_cases h1 : ch = '"'; · simp [h1]
    by_cases h2 : ch = '\\'; · simp [h2]
    by_cases h3 : ch = '/'; · simp [h3]
    by_cases h4 : ch = 'b'; · simp [h4]
    by_cases h5 : ch = 'f'; · simp [h5]
    by_cases h6 : ch = 'n'; · simp [h6]
    by_cases h7 : ch = 'r'; · simp [h7]
    by_cases h8 : ch = 't'; · simp [h8]
    by_cases h9 : ch = 'u'
    · simp only [h9]
      cases hx with
      | error e => rfl
      | ok p => rfl
    · simp [h1, h2, h3, h4, h5, h6, h7, h8, h9]
  · have : v.toArray[idx]? = none := by simp; omega
    rw [this, List.drop_eq_nil_of_le (by omega)]
    rfl

def unescL : List Char → List Char → Except DecErr (List Char)
  | [], acc => .ok acc.reverse
  | ch :: r, acc =>
    if ch = '\\' then
      match decEscL r with
      | .error e => .error e
      | .ok (c, k) => unescL (r.drop (k + 1)) (c :: acc)
    else if ch.toNat ≤ 0x1F then .error .syntax
    else unescL r (ch :: acc)
termination_by l => l.length
decreasing_by all_goals (simp only [List.length_drop, List.length_cons]; omega)

theorem unescapeLoop_eq (v : List Char) : ∀ (fuel i : Nat) (acc : List Char), v.length - i + 1 ≤ fuel →
    unescapeLoop v.toArray fuel i acc = unescL (v.drop i) acc := by
  intro fuel
  induction fuel with
  | zero => intro i acc h; omega
  | succ fuel ih =>
    intro i acc hf
    unfold unescapeLoop
    by_cases h : i < v.length
    · rw [List.drop_eq_getElem_cons h]
      have : v.toArray[i]? = some v[i] := by simp [h]
      simp only [List.size_toArray, h, if_true, this, decodeEscape_eq]
      rw [unescL]
      generalize v[i] = ch
      by_cases hb : ch = '\\'
      · simp only [hb, if_true]
        cases hd : decEscL (v.drop (i + 1)) with
        | error e => rfl
        | ok p =>
          obtain ⟨c, k⟩ := p
          simp only
          rw [ih _ _ (by omega), List.drop_drop]
          rfl
      · simp only [hb, if_false]
        split
        · rfl
        · exact ih _ _ (by omega)
    · simp only [List.size_toArray, h, if_false]
      rw [List.drop_eq_nil_of_le (by omega), unescL]
      done

theorem unescapeString_eq (v : List Char) : unescapeString v = unescL v [] := by
  unfold unescapeString
  rw [unescapeLoop_eq v _ _ _ (by omega)]
  rfl

/-! ### `scanString` equations -/

theorem scan_bs (q p : Char) (r : List Char) :
    scanString q ('\\' :: p :: r) =
      if isEscapeChar p || p = q then (scanString q r).map (fun res => ('\\' :: p :: res.1, res.2)) else none := by
  rw [scanString.eq_def]; simp

theorem scan_bs_nil (q : Char) : scanString q ['\\'] = none := by
  rw [scanString.eq_def]; simp

theorem scan_quote (q : Char) (hq : q ≠ '\\') (r : List Char) : scanString q (q :: r) = some ([], r) := by
  rw [scanString.eq_def]; simp [hq]

theorem scan_raw (q c : Char) (r : List Char) (h1 : c ≠ '\\') (h2 : c ≠ q) :
    scanString q (c :: r) = (scanString q r).map (fun res => (c :: res.1, res.2)) := by
  rw [scanString.eq_def]; simp [h1, h2]

/-! ### `Py.replace` -/

theorem go_fuel (old new : List Char) (hold : old ≠ []) : ∀ fuel s, s.length ≤ fuel →
    Py.replace.go old new fuel s = Py.replace.go old new s.length s := by
  intro fuel
  induction fuel using Nat.strongRecOn with
  | _ fuel ih =>
    intro s hs
    match fuel, s with
    | 0, [] => rfl
    | 0, _ :: _ => simp at hs
    | fuel + 1, [] => rfl
    | fuel + 1, c :: cs =>
      have hol : 1 ≤ old.length := by
        cases old with
        | nil => exact absurd rfl hold
        | cons _ _ => simp
      simp only [List.length_cons, Py.replace.go]
      simp only [List.length_cons, Nat.add_le_add_iff_right] at hs
      have hX : (List.drop old.length (c :: cs)).length ≤ cs.length := by
        simp only [List.length_drop, List.length_cons]; omega
      have e1 := ih fuel (by omega) _ (Nat.le_trans hX hs)
      have e2 := ih fuel (by omega) cs hs
      have e3 := ih cs.length (by omega) _ hX
      have L : ∀ (x y x' y' : List Char), x = x' → y = y' →
          (if old.isPrefixOf (c :: cs) = true then new ++ x else c :: y) =
          (if old.isPrefixOf (c :: cs) = true then new ++ x' else c :: y') := by
        intro x y x' y' h1 h2; rw [h1, h2]
      exact L _ _ _ _ (e1.trans e3.symm) e2

theorem replace_eq_go (s old new : List Char) (hold : old ≠ []) :
    Py.replace s old new = Py.replace.go old new s.length s := by
  unfold Py.replace
  cases old with
  | nil => exact absurd rfl hold
  | cons _ _ => simp

def R1 (s : List Char) : List Char := Py.replace s ['"'] ['\\', '"']
def R2 (s : List Char) : List Char := Py.replace s ['\\', '\''] ['\'']

theorem R1_nil : R1 [] = [] := rfl
theorem R1_cons (c : Char) (s : List Char) :
    R1 (c :: s) = if c = '"' then '\\' :: '"' :: R1 s else c :: R1 s := by
  simp only [R1, replace_eq_go _ _ _ (List.cons_ne_nil _ _), List.length_cons, Py.replace.go]
  by_cases h : c = '"'
  · simp [h, List.isPrefixOf]
  · simp [h, List.isPrefixOf, Ne.symm h]

theorem R2_nil : R2 [] = [] := rfl
theorem R2_match (s : List Char) : R2 ('\\' :: '\'' :: s) = '\'' :: R2 s := by
  simp only [R2, replace_eq_go _ _ _ (List.cons_ne_nil _ _), List.length_cons, Py.replace.go]
  simp [List.isPrefixOf]
  exact go_fuel _ _ (List.cons_ne_nil _ _) _ _ (by omega)
theorem R2_nomatch (c : Char) (s : List Char) (h : ¬ (c = '\\' ∧ s.head? = some '\'')) :
    R2 (c :: s) = c :: R2 s := by
  simp only [R2, replace_eq_go _ _ _ (List.cons_ne_nil _ _), List.length_cons, Py.replace.go]
  have : List.isPrefixOf ['\\', '\''] (c :: s) = false := by
    cases s with
    | nil => simp [List.isPrefixOf]
    | cons d s =>
      simp only [List.head?_cons, Option.some.injEq] at h
      simp [List.isPrefixOf]
      exact fun h1 h2 => h ⟨h1.symm, h2.symm⟩
  simp [this]

theorem scan_inv (q : Char) {inp tok rest : List Char} (h : scanString q inp = some (tok, rest)) :
    (inp = q :: rest ∧ tok = [] ∧ q ≠ '\\') ∨
    (∃ p r t, inp = '\\' :: p :: r ∧ (isEscapeChar p = true ∨ p = q) ∧ scanString q r = some (t, rest) ∧
        tok = '\\' :: p :: t) ∨
    (∃ c r t, inp = c :: r ∧ c ≠ '\\' ∧ c ≠ q ∧ scanString q r = some (t, rest) ∧ tok = c :: t) := by
  rw [scanString.eq_def] at h
  match inp with
  | [] => simp at h
  | c :: r =>
    simp only at h
    by_cases hc : c = '\\'
    · subst hc
      simp only [if_true] at h
      match r with
      | [] => simp at h
      | p :: r2 =>
        simp only at h
        split at h
        · rename_i hp
          right; left
          cases hs : scanString q r2 with
          | none => simp [hs] at h
          | some res =>
            obtain ⟨t, rest'⟩ := res
            simp only [hs, Option.map_some, Option.some.injEq, Prod.mk.injEq] at h
            refine ⟨p, r2, t, rfl, by simpa using hp, ?_, h.1.symm⟩
            rw [← h.2]; exact hs
        · simp at h
    · simp only [hc, if_false] at h
      by_cases hq : c = q
      · subst hq
        simp only [if_true, Option.some.injEq, Prod.mk.injEq] at h
        left; exact ⟨by rw [h.2], h.1.symm, hc⟩
      · simp only [hq, if_false] at h
        right; right
        cases hs : scanString q r with
        | none => simp [hs] at h
        | some res =>
          obtain ⟨t, rest'⟩ := res
          simp only [hs, Option.map_some, Option.some.injEq, Prod.mk.injEq] at h
          exact ⟨c, r, t, rfl, hc, hq, by rw [← h.2]; exact hs, h.1.symm⟩

/-- tokens the lexer's string loop can produce -/
inductive Tok (q : Char) : List Char → Prop
  | nil : Tok q []
  | esc (p : Char) (t : List Char) : (isEscapeChar p = true ∨ p = q) → Tok q t → Tok q ('\\' :: p :: t)
  | raw (c : Char) (t : List Char) : c ≠ '\\' → c ≠ q → Tok q t → Tok q (c :: t)

theorem scan_tok (q : Char) : ∀ (n : Nat) (inp tok rest : List Char), inp.length ≤ n →
    scanString q inp = some (tok, rest) → Tok q tok := by
  intro n
  induction n with
  | zero =>
    intro inp tok rest hl h
    cases inp with
    | nil => simp [scanString] at h
    | cons _ _ => simp at hl
  | succ n ih =>
    intro inp tok rest hl h
    rcases scan_inv q h with ⟨_, rfl, _⟩ | ⟨p, r, t, rfl, hp, hs, rfl⟩ | ⟨c, r, t, rfl, h1, h2, hs, rfl⟩
    · exact .nil
    · exact .esc p t hp (ih r t rest (by simp at hl; omega) hs)
    · exact .raw c t h1 h2 (ih r t rest (by simp at hl; omega) hs)

/-! ### the quote-normalising replace pair in recursive form -/

def normSq : List Char → List Char
  | [] => []
  | c :: r =>
    if c = '\\' then
      match r with
      | [] => [c]
      | p :: r' => if p = '\'' then '\'' :: normSq r' else c :: p :: normSq r'
    else if c = '"' then '\\' :: '"' :: normSq r
    else c :: normSq r

theorem normSq_esc (p : Char) (t : List Char) :
    normSq ('\\' :: p :: t) = if p = '\'' then '\'' :: normSq t else '\\' :: p :: normSq t := by
  rw [normSq.eq_def]; simp

theorem normSq_raw (c : Char) (t : List Char) (h : c ≠ '\\') :
    normSq (c :: t) = if c = '"' then '\\' :: '"' :: normSq t else c :: normSq t := by
  rw [normSq.eq_def]; simp [h]

theorem esc_ne_dq {p : Char} (h : isEscapeChar p = true ∨ p = '\'') : p ≠ '"' := by
  intro e; subst e; revert h; decide

theorem R1_head {t : List Char} (h : Tok '\'' t) : (R1 t).head? ≠ some '\'' := by
  cases h with
  | nil => simp [R1_nil]
  | esc p t hp ht => rw [R1_cons]; simp
  | raw c t h1 h2 ht =>
    rw [R1_cons]
    split
    · simp
    · simpa using h2

theorem norm_eq_sq {tok : List Char} (h : Tok '\'' tok) : R2 (R1 tok) = normSq tok := by
  induction h with
  | nil => rfl
  | esc p t hp ht ih =>
    have hpd := esc_ne_dq hp
    rw [R1_cons, if_neg (by decide), R1_cons, if_neg hpd, normSq_esc]
    by_cases hq : p = '\''
    · subst hq
      rw [R2_match, ih]; simp
    · rw [R2_nomatch _ _ (by simp [hq]), R2_nomatch _ _ (fun h => R1_head ht h.2), ih]
      simp [hq]
  | raw c t h1 h2 ht ih =>
    rw [R1_cons, normSq_raw _ _ h1]
    by_cases hd : c = '"'
    · subst hd
      rw [if_pos rfl, if_pos rfl, R2_nomatch _ _ (by simp), R2_nomatch _ _ (by simp), ih]
    · rw [if_neg hd, if_neg hd, R2_nomatch _ _ (by simp [h1]), ih]

def normL (q : Char) (tok : List Char) : List Char := if q = '\'' then normSq tok else tok

theorem normL_nil (q : Char) : normL q [] = [] := by unfold normL; split <;> rfl

theorem normL_esc_q (q : Char) (t : List Char) :
    normL q ('\\' :: q :: t) = if q = '\'' then '\'' :: normL q t else '\\' :: q :: normL q t := by
  unfold normL
  by_cases h : q = '\''
  · simp only [h, if_true, normSq_esc]
  · simp only [h, if_false]

theorem normL_esc (q p : Char) (t : List Char) (hp : p ≠ '\'') :
    normL q ('\\' :: p :: t) = '\\' :: p :: normL q t := by
  unfold normL
  by_cases h : q = '\''
  · simp only [h, if_true, normSq_esc, hp, if_false]
  · simp only [h, if_false]

theorem normL_raw (q c : Char) (t : List Char) (h1 : c ≠ '\\') :
    normL q (c :: t) = if q = '\'' ∧ c = '"' then '\\' :: '"' :: normL q t else c :: normL q t := by
  unfold normL
  by_cases h : q = '\''
  · simp only [h, if_true, normSq_raw _ _ h1, true_and]
  · simp only [h, if_false, false_and]

theorem unescL_nil (acc : List Char) : unescL [] acc = .ok acc.reverse := by rw [unescL]

theorem unescL_bs (r acc : List Char) :
    unescL ('\\' :: r) acc =
      match decEscL r with
      | .error e => .error e
      | .ok (c, k) => unescL (r.drop (k + 1)) (c :: acc) := by
  rw [unescL, if_pos rfl]

theorem unescL_raw (c : Char) (r acc : List Char) (h : c ≠ '\\') :
    unescL (c :: r) acc = if c.toNat ≤ 0x1F then .error .syntax else unescL r (c :: acc) := by
  rw [unescL]; simp [h]

/-- lexer + decoder on the characters after the opening quote, keeping the decoder's error -/
def D (q : Char) (inp acc : List Char) : Option (Except DecErr (List Char) × List Char) :=
  (scanString q inp).map (fun res => (unescL (normL q res.1) acc, res.2))

theorem D_nil (q : Char) (acc : List Char) : D q [] acc = none := by
  simp [D, scanString]

theorem D_quote (q : Char) (hq : q ≠ '\\') (r acc : List Char) :
    D q (q :: r) acc = some (.ok acc.reverse, r) := by
  simp [D, scan_quote q hq, normL_nil, unescL_nil]

theorem D_bs_nil (q : Char) (acc : List Char) : D q ['\\'] acc = none := by
  simp [D, scan_bs_nil]

theorem D_bs_bad (q p : Char) (r acc : List Char) (h : ¬ (isEscapeChar p = true ∨ p = q)) :
    D q ('\\' :: p :: r) acc = none := by
  have : (isEscapeChar p || decide (p = q)) = false := by
    simpa using h
  simp [D, scan_bs, this]

theorem D_bs_q (q : Char) (hq : q = '\'' ∨ q = '"') (r acc : List Char) :
    D q ('\\' :: q :: r) acc = D q r (q :: acc) := by
  simp only [D, scan_bs, decide_true, Bool.or_true, if_true, Option.map_map]
  congr 1
  funext res
  simp only [Function.comp, normL_esc_q]
  rcases hq with rfl | rfl
  · simp only [if_true]
    rw [unescL_raw _ _ _ (by decide), if_neg (by decide)]
  · rw [if_neg (by decide), unescL_bs]
    simp [decEscL]

def simpleEsc (p : Char) : Option Char :=
  if p = 'b' then some (Char.ofNat 8)
  else if p = 'f' then some (Char.ofNat 12)
  else if p = 'n' then some '\n'
  else if p = 'r' then some '\r'
  else if p = 't' then some '\t'
  else if p = '/' then some '/'
  else if p = '\\' then some '\\'
  else none

theorem D_bs_simple (q p x : Char) (hx : simpleEsc p = some x) (r acc : List Char) :
    D q ('\\' :: p :: r) acc = D q r (x :: acc) := by
  have hesc : isEscapeChar p = true := by
    unfold simpleEsc at hx
    unfold isEscapeChar
    repeat' split at hx
    all_goals simp_all
  have hp : p ≠ '\'' := by intro e; subst e; revert hesc; decide
  simp only [D, scan_bs, hesc, Bool.true_or, if_true, Option.map_map]
  congr 1
  funext res
  simp only [Function.comp, normL_esc _ _ _ hp, unescL_bs]
  unfold simpleEsc at hx
  unfold decEscL
  repeat' split at hx
  all_goals first | (cases hx; simp_all; done) | (simp_all; done)

theorem D_raw (q c : Char) (r acc : List Char) (h1 : c ≠ '\\') (h2 : c ≠ q) :
    D q (c :: r) acc =
      if c.toNat ≤ 0x1F then (scanString q r).map (fun res => (.error .syntax, res.2))
      else D q r (c :: acc) := by
  simp only [D, scan_raw q c r h1 h2, Option.map_map]
  split
  · rename_i hc
    congr 1
    funext res
    simp only [Function.comp, normL_raw _ _ _ h1]
    have : c ≠ '"' := by intro e; subst e; revert hc; decide
    simp only [this, and_false, if_false]
    rw [unescL_raw _ _ _ h1, if_pos hc]
  · rename_i hc
    congr 1
    funext res
    simp only [Function.comp, normL_raw _ _ _ h1]
    split
    · rename_i hh
      obtain ⟨_, rfl⟩ := hh
      rw [unescL_bs]
      simp [decEscL]
    · rw [unescL_raw _ _ _ h1, if_neg hc]

/-- a character of the normalised token that is not `\`, `'`, `"` is a raw character of the input -/
theorem norm_head_plain (q : Char) {r tok rest : List Char} {x : Char} {y : List Char}
    (hs : scanString q r = some (tok, rest)) (hn : normL q tok = x :: y)
    (h1 : x ≠ '\\') (h2 : x ≠ '\'') :
    ∃ r' t, r = x :: r' ∧ scanString q r' = some (t, rest) ∧ y = normL q t := by
  rcases scan_inv q hs with ⟨_, rfl, _⟩ | ⟨p, r', t, rfl, hp, hs', rfl⟩ | ⟨c, r', t, rfl, hc1, hc2, hs', rfl⟩
  · simp [normL_nil] at hn
  · exfalso
    unfold normL at hn
    split at hn
    · rw [normSq_esc] at hn
      split at hn
      · simp only [List.cons.injEq] at hn; exact h2 hn.1.symm
      · simp only [List.cons.injEq] at hn; exact h1 hn.1.symm
    · simp only [List.cons.injEq] at hn; exact h1 hn.1.symm
  · rw [normL_raw _ _ _ hc1] at hn
    split at hn
    · simp only [List.cons.injEq] at hn; exact absurd hn.1.symm h1
    · simp only [List.cons.injEq] at hn
      obtain ⟨rfl, rfl⟩ := hn
      exact ⟨r', t, rfl, hs', rfl⟩

theorem norm_head_bs_u (q : Char) {r tok rest : List Char} {y : List Char}
    (hs : scanString q r = some (tok, rest)) (hn : normL q tok = '\\' :: 'u' :: y) :
    ∃ r', r = '\\' :: 'u' :: r' := by
  rcases scan_inv q hs with ⟨_, rfl, _⟩ | ⟨p, r', t, rfl, hp, hs', rfl⟩ | ⟨c, r', t, rfl, hc1, hc2, hs', rfl⟩
  · simp [normL_nil] at hn
  · by_cases hp' : p = '\''
    · exfalso
      subst hp'
      unfold normL at hn
      split at hn
      · rw [normSq_esc] at hn; simp at hn
      · simp at hn
    · rw [normL_esc _ _ _ hp'] at hn
      simp only [List.cons.injEq, true_and] at hn
      exact ⟨r', by rw [hn.1]⟩
  · exfalso
    rw [normL_raw _ _ _ hc1] at hn
    split at hn
    · simp at hn
    · simp only [List.cons.injEq] at hn; exact hc1 hn.1

theorem scan_hex (q : Char) (hq : q = '\'' ∨ q = '"') (a : Char) (ha : Spec.isHEXDIG a = true) (r : List Char) :
    scanString q (a :: r) = (scanString q r).map (fun res => (a :: res.1, res.2)) := by
  apply scan_raw _ _ _ (hex_ne_bs ha)
  rcases hq with rfl | rfl
  · exact hex_ne_sq ha
  · exact hex_ne_dq ha

theorem normL_hex (q a : Char) (ha : Spec.isHEXDIG a = true) (t : List Char) :
    normL q (a :: t) = a :: normL q t := by
  rw [normL_raw _ _ _ (hex_ne_bs ha)]
  simp [hex_ne_dq ha]

theorem scan_hex4 (q : Char) (hq : q = '\'' ∨ q = '"') {a b c d : Char} (ha : Spec.isHEXDIG a = true)
    (hb : Spec.isHEXDIG b = true) (hc : Spec.isHEXDIG c = true) (hd : Spec.isHEXDIG d = true) (r : List Char) :
    scanString q (a :: b :: c :: d :: r) = (scanString q r).map (fun res => (a :: b :: c :: d :: res.1, res.2)) := by
  rw [scan_hex q hq a ha, scan_hex q hq b hb, scan_hex q hq c hc, scan_hex q hq d hd]
  simp only [Option.map_map]
  rfl

theorem normL_hex4 (q : Char) {a b c d : Char} (ha : Spec.isHEXDIG a = true)
    (hb : Spec.isHEXDIG b = true) (hc : Spec.isHEXDIG c = true) (hd : Spec.isHEXDIG d = true) (t : List Char) :
    normL q (a :: b :: c :: d :: t) = a :: b :: c :: d :: normL q t := by
  rw [normL_hex q a ha, normL_hex q b hb, normL_hex q c hc, normL_hex q d hd]

/-- if the input does not start with four hex digits, neither does the normalised token -/
theorem norm_hex4_none (q : Char) {r tok rest : List Char}
    (hs : scanString q r = some (tok, rest)) (hn : Spec.hex4 r = none) :
    Spec.hex4 (normL q tok) = none := by
  cases h : Spec.hex4 (normL q tok) with
  | none => rfl
  | some p =>
    exfalso
    obtain ⟨v, Y⟩ := p
    obtain ⟨a, b, c, d, hX, ha, hb, hc, hd, _⟩ := hex4_some h
    obtain ⟨r1, t1, rfl, hs1, hY1⟩ := norm_head_plain q hs hX (hex_ne_bs ha) (hex_ne_sq ha)
    obtain ⟨r2, t2, rfl, hs2, hY2⟩ := norm_head_plain q hs1 hY1.symm (hex_ne_bs hb) (hex_ne_sq hb)
    obtain ⟨r3, t3, rfl, hs3, hY3⟩ := norm_head_plain q hs2 hY2.symm (hex_ne_bs hc) (hex_ne_sq hc)
    obtain ⟨r4, t4, rfl, hs4, hY4⟩ := norm_head_plain q hs3 hY3.symm (hex_ne_bs hd) (hex_ne_sq hd)
    rw [hex4_cons ha hb hc hd] at hn
    simp at hn

theorem hexchar_none {r : List Char} (h : Spec.hex4 r = none) : Spec.hexchar r = none := by
  simp [Spec.hexchar, h]

theorem hexchar_low {r r3 : List Char} {hi : Nat} (h : Spec.hex4 r = some (hi, r3))
    (hl : 0xDC00 ≤ hi ∧ hi ≤ 0xDFFF) : Spec.hexchar r = none := by
  have h1 : ¬ (hi ≥ 55296 ∧ hi ≤ 56319) := by omega
  have h2 : (hi ≥ 56320 ∧ hi ≤ 57343) := by omega
  simp only [Spec.hexchar, h, Option.bind_eq_bind, Option.bind_some, h1, h2, if_false, and_self, if_true]

theorem hexchar_plain {r r3 : List Char} {hi : Nat} (h : Spec.hex4 r = some (hi, r3))
    (h1 : ¬ (0xD800 ≤ hi ∧ hi ≤ 0xDBFF)) (h2 : ¬ (0xDC00 ≤ hi ∧ hi ≤ 0xDFFF)) :
    Spec.hexchar r = some (Char.ofNat hi, r3) := by
  have h1' : ¬ (hi ≥ 55296 ∧ hi ≤ 56319) := h1
  have h2' : ¬ (hi ≥ 56320 ∧ hi ≤ 57343) := h2
  simp only [Spec.hexchar, h, Option.bind_eq_bind, Option.bind_some, h1', h2', if_false]

theorem hexchar_high_bad {r r3 : List Char} {hi : Nat} (h : Spec.hex4 r = some (hi, r3))
    (h1 : 0xD800 ≤ hi ∧ hi ≤ 0xDBFF) (hr : ¬ ∃ r4, r3 = '\\' :: 'u' :: r4) :
    Spec.hexchar r = none := by
  have h1' : (hi ≥ 55296 ∧ hi ≤ 56319) := h1
  simp only [Spec.hexchar, h, Option.bind_eq_bind, Option.bind_some, h1', and_self, if_true]
  split
  · exact absurd ⟨_, rfl⟩ hr
  · rfl

theorem hexchar_high_u {r r4 : List Char} {hi : Nat} (h : Spec.hex4 r = some (hi, '\\' :: 'u' :: r4))
    (h1 : 0xD800 ≤ hi ∧ hi ≤ 0xDBFF) :
    Spec.hexchar r = (Spec.hex4 r4).bind (fun x =>
      if 0xDC00 ≤ x.1 ∧ x.1 ≤ 0xDFFF then
        some (Char.ofNat (0x10000 + (hi - 0xD800) * 0x400 + (x.1 - 0xDC00)), x.2) else none) := by
  have h1' : (hi ≥ 55296 ∧ hi ≤ 56319) := h1
  simp only [Spec.hexchar, h, Option.bind_eq_bind, Option.bind_some, h1', and_self, if_true]

theorem surrogate_arith' (hi lo : Nat) (h1 : 0xD800 ≤ hi) (h2 : hi ≤ 0xDBFF) (h3 : 0xDC00 ≤ lo) (h4 : lo ≤ 0xDFFF) :
    0x10000 + (((hi &&& 0x03FF) <<< 10) ||| (lo &&& 0x03FF)) = 0x10000 + (hi - 0xD800) * 0x400 + (lo - 0xDC00) := by
  have e1 : hi &&& 0x03FF = hi % 2^10 := Nat.and_two_pow_sub_one_eq_mod hi 10
  have e2 : lo &&& 0x03FF = lo % 2^10 := Nat.and_two_pow_sub_one_eq_mod lo 10
  have hlt : lo % 2^10 < 2^10 := Nat.mod_lt _ (by decide)
  rw [e1, e2, ← Nat.shiftLeft_add_eq_or_of_lt hlt, Nat.shiftLeft_eq]
  omega

/-- decoding the token `\u` + `t` -/
theorem unesc_u (q : Char) (t acc : List Char) :
    unescL (normL q ('\\' :: 'u' :: t)) acc =
      match hexL (normL q t) with
      | .error e => .error e
      | .ok (cp, k) => unescL ((normL q t).drop k) (Char.ofNat cp :: acc) := by
  rw [normL_esc _ _ _ (by decide), unescL_bs]
  simp only [decEscL]
  cases hexL (normL q t) with
  | error e => simp
  | ok p => simp

theorem low_iff (cp : Nat) : isLowSurrogate cp = true ↔ 0xDC00 ≤ cp ∧ cp ≤ 0xDFFF := by
  simp [isLowSurrogate]
theorem high_iff (cp : Nat) : isHighSurrogate cp = true ↔ 0xD800 ≤ cp ∧ cp ≤ 0xDBFF := by
  simp [isHighSurrogate]

theorem hexL_none {l : List Char} (h : Spec.hex4 l = none) : hexL l = .error .syntax := by
  simp only [hexL, h]

theorem hexL_low {l l' : List Char} {hi : Nat} (h : Spec.hex4 l = some (hi, l'))
    (hl : isLowSurrogate hi = true) : hexL l = .error .syntax := by
  simp only [hexL, h, hl, if_true]

theorem hexL_plain {l l' : List Char} {hi : Nat} (h : Spec.hex4 l = some (hi, l'))
    (hl : ¬ isLowSurrogate hi = true) (hh : ¬ isHighSurrogate hi = true) : hexL l = .ok (hi, 4) := by
  simp only [hexL, h, hl, hh, if_false, Bool.false_eq_true]

theorem hexL_high_bad {l l' : List Char} {hi : Nat} (h : Spec.hex4 l = some (hi, l'))
    (hl : ¬ isLowSurrogate hi = true) (hh : isHighSurrogate hi = true)
    (hr : ¬ ∃ Y, l' = '\\' :: 'u' :: Y) : hexL l = .error .syntax := by
  simp only [hexL, h, hl, hh, if_false, if_true, Bool.false_eq_true]
  split
  · split
    · rename_i heu
      obtain ⟨rfl, rfl⟩ := heu
      exact absurd ⟨_, rfl⟩ hr
    · rfl
  · rfl

theorem hexL_high_u {l Y : List Char} {hi : Nat} (h : Spec.hex4 l = some (hi, '\\' :: 'u' :: Y))
    (hl : ¬ isLowSurrogate hi = true) (hh : isHighSurrogate hi = true) :
    hexL l = match Spec.hex4 Y with
      | none => .error .syntax
      | some (lo, _) =>
        if isLowSurrogate lo then .ok (0x10000 + (((hi &&& 0x03FF) <<< 10) ||| (lo &&& 0x03FF)), 10)
        else .error .syntax := by
  simp only [hexL, h, hl, hh, if_false, if_true, and_self, Bool.false_eq_true]
  cases Spec.hex4 Y with
  | none => rfl
  | some p =>
    obtain ⟨lo, Z⟩ := p
    simp only
    cases isLowSurrogate lo <;> rfl

theorem D_bs_u (q : Char) (hq : q = '\'' ∨ q = '"') (r2 acc : List Char) :
    D q ('\\' :: 'u' :: r2) acc =
      match Spec.hexchar r2 with
      | some (ch, r3) => D q r3 (ch :: acc)
      | none => (scanString q r2).map (fun res => (.error .syntax, res.2)) := by
  have hu : isEscapeChar 'u' = true := by decide
  simp only [D, scan_bs, hu, Bool.true_or, if_true, Option.map_map, Function.comp_def, unesc_u]
  cases h4 : Spec.hex4 r2 with
  | none =>
    simp only [hexchar_none h4]
    cases hs : scanString q r2 with
    | none => rfl
    | some res =>
      obtain ⟨tok, rest⟩ := res
      simp only [Option.map_some, hexL_none (norm_hex4_none q hs h4)]
  | some p =>
    obtain ⟨hi, r3⟩ := p
    obtain ⟨a, b, c, d, rfl, ha, hb, hc, hd, hv⟩ := hex4_some h4
    have hX : ∀ X, Spec.hex4 (a :: b :: c :: d :: X) = some (hi, X) := by
      intro X; rw [hex4_cons ha hb hc hd, hv]
    simp only [scan_hex4 q hq ha hb hc hd, Option.map_map, Function.comp_def, normL_hex4 q ha hb hc hd]
    by_cases hlow : isLowSurrogate hi = true
    · have hl := (low_iff hi).1 hlow
      have e : ∀ X, hexL (a :: b :: c :: d :: X) = .error .syntax := fun X => hexL_low (hX X) hlow
      simp only [hexchar_low h4 hl, e]
    by_cases hhigh : isHighSurrogate hi = true
    · have hh := (high_iff hi).1 hhigh
      by_cases hr : ∃ r4, r3 = '\\' :: 'u' :: r4
      · obtain ⟨r4, rfl⟩ := hr
        have e : ∀ Y, hexL (a :: b :: c :: d :: '\\' :: 'u' :: Y) = _ := fun Y => hexL_high_u (hX _) hlow hhigh
        simp only [hexchar_high_u h4 hh, scan_bs, hu, Bool.true_or, if_true, Option.map_map, Function.comp_def,
          normL_esc _ _ _ (show 'u' ≠ '\'' by decide), e]
        cases h4' : Spec.hex4 r4 with
        | none =>
          simp only [Option.bind_none]
          cases hs : scanString q r4 with
          | none => rfl
          | some res =>
            obtain ⟨tok, rest⟩ := res
            simp only [Option.map_some, norm_hex4_none q hs h4']
        | some p' =>
          obtain ⟨lo, r5⟩ := p'
          obtain ⟨a', b', c', d', rfl, ha', hb', hc', hd', hv'⟩ := hex4_some h4'
          have hX' : ∀ X, Spec.hex4 (a' :: b' :: c' :: d' :: X) = some (lo, X) := by
            intro X; rw [hex4_cons ha' hb' hc' hd', hv']
          simp only [scan_hex4 q hq ha' hb' hc' hd', Option.map_map, Function.comp_def,
            normL_hex4 q ha' hb' hc' hd', hX', Option.bind_some]
          by_cases hlo : isLowSurrogate lo = true
          · have hl := (low_iff lo).1 hlo
            simp only [hlo, hl, and_self, if_true, List.drop_succ_cons, List.drop_zero]
            rw [surrogate_arith' hi lo hh.1 hh.2 hl.1 hl.2]
          · have hl : ¬ (56320 ≤ lo ∧ lo ≤ 57343) := fun x => hlo ((low_iff lo).2 x)
            simp only [hlo, hl, if_false, Bool.false_eq_true]
      · simp only [hexchar_high_bad h4 hh hr]
        cases hs : scanString q r3 with
        | none => rfl
        | some res =>
          obtain ⟨tok, rest⟩ := res
          simp only [Option.map_some]
          rw [hexL_high_bad (hX _) hlow hhigh]
          intro ⟨Y, hY⟩
          exact hr (norm_head_bs_u q hs hY)
    · have hl : ¬ (0xDC00 ≤ hi ∧ hi ≤ 0xDFFF) := fun x => hlow ((low_iff hi).2 x)
      have hh : ¬ (0xD800 ≤ hi ∧ hi ≤ 0xDBFF) := fun x => hhigh ((high_iff hi).2 x)
      have e : ∀ X, hexL (a :: b :: c :: d :: X) = .ok (hi, 4) := fun X => hexL_plain (hX X) hlow hhigh
      simp only [hexchar_plain h4 hh hl, e, List.drop_succ_cons, List.drop_zero]

theorem isUnescaped_iff (c : Char) : Spec.isUnescaped c = true ↔
    c.toNat ≥ 0x20 ∧ c.toNat ≠ 0x22 ∧ c.toNat ≠ 0x27 ∧ c.toNat ≠ 0x5C := by
  simp [Spec.isUnescaped]
  omega

theorem hexchar_len {r2 r3 : List Char} {ch : Char} (h : Spec.hexchar r2 = some (ch, r3)) :
    r3.length < r2.length := by
  cases h4 : Spec.hex4 r2 with
  | none => rw [hexchar_none h4] at h; cases h
  | some p =>
    obtain ⟨hi, r3'⟩ := p
    obtain ⟨a, b, c, d, rfl, ha, hb, hc, hd, hv⟩ := hex4_some h4
    by_cases hl : 0xDC00 ≤ hi ∧ hi ≤ 0xDFFF
    · rw [hexchar_low h4 hl] at h; cases h
    by_cases hh : 0xD800 ≤ hi ∧ hi ≤ 0xDBFF
    · by_cases hr : ∃ r4, r3' = '\\' :: 'u' :: r4
      · obtain ⟨r4, rfl⟩ := hr
        rw [hexchar_high_u h4 hh] at h
        cases h4' : Spec.hex4 r4 with
        | none => rw [h4'] at h; cases h
        | some p' =>
          obtain ⟨lo, r5⟩ := p'
          obtain ⟨a', b', c', d', rfl, _⟩ := hex4_some h4'
          rw [h4'] at h
          simp only [Option.bind_some] at h
          split at h
          · simp only [Option.some.injEq, Prod.mk.injEq] at h
            rw [← h.2]; simp only [List.length_cons]; omega
          · cases h
      · rw [hexchar_high_bad h4 hh hr] at h; cases h
    · rw [hexchar_plain h4 hh hl] at h
      simp only [Option.some.injEq, Prod.mk.injEq] at h
      rw [← h.2]; simp only [List.length_cons]; omega

def post : Except DecErr (List Char) × List Char → Option (Str × List Char)
  | (.ok s, rest) => some (s, rest)
  | (.error _, _) => none

theorem post_err (o : Option (Str × List Char)) :
    (o.map (fun res => ((.error .syntax : Except DecErr (List Char)), res.2))).bind post = none := by
  cases o <;> rfl

theorem D_spec (q : Char) (hq : q = '\'' ∨ q = '"') : ∀ (n : Nat) (inp acc : List Char) (fuel : Nat),
    inp.length ≤ n → inp.length + 1 ≤ fuel →
    (D q inp acc).bind post = Spec.stringBody q fuel inp acc := by
  have hqb : q ≠ '\\' := by rcases hq with rfl | rfl <;> decide
  intro n
  induction n with
  | zero =>
    intro inp acc fuel hl hf
    match inp, fuel with
    | [], fuel + 1 => simp [D_nil, Spec.stringBody]
    | _ :: _, _ => simp at hl
  | succ n ih =>
    intro inp acc fuel hl hf
    match inp, fuel, hf with
    | [], fuel + 1, _ => simp [D_nil, Spec.stringBody]
    | c :: r, fuel + 1, hf =>
      simp only [List.length_cons, Nat.add_le_add_iff_right] at hl hf
      rw [Spec.stringBody.eq_def]
      simp only
      by_cases hcq : c = q
      · subst hcq
        simp [D_quote c hqb, post]
      simp only [hcq, if_false]
      by_cases hcb : c = '\\'
      · subst hcb
        simp only [if_true]
        match r with
        | [] => simp [D_bs_nil]
        | e :: r2 =>
          simp only [List.length_cons] at hl hf
          simp only
          by_cases h0 : e = q
          · subst h0
            simp only [if_true]
            rw [D_bs_q e hq]
            exact ih r2 _ fuel (by omega) (by omega)
          simp only [h0, if_false]
          have hstep : ∀ x, simpleEsc e = some x →
              (D q ('\\' :: e :: r2) acc).bind post = Spec.stringBody q fuel r2 (x :: acc) := by
            intro x hx
            rw [D_bs_simple q e x hx]
            exact ih r2 _ fuel (by omega) (by omega)
          by_cases h1 : e = 'b'
          · subst h1; simp only [if_true]; exact hstep _ rfl
          simp only [h1, if_false]
          by_cases h2 : e = 'f'
          · subst h2; simp only [if_true]; exact hstep _ rfl
          simp only [h2, if_false]
          by_cases h3 : e = 'n'
          · subst h3; simp only [if_true]; exact hstep _ rfl
          simp only [h3, if_false]
          by_cases h4 : e = 'r'
          · subst h4; simp only [if_true]; exact hstep _ rfl
          simp only [h4, if_false]
          by_cases h5 : e = 't'
          · subst h5; simp only [if_true]; exact hstep _ rfl
          simp only [h5, if_false]
          by_cases h6 : e = '/'
          · subst h6; simp only [if_true]; exact hstep _ rfl
          simp only [h6, if_false]
          by_cases h7 : e = '\\'
          · subst h7; simp only [if_true]; exact hstep _ rfl
          simp only [h7, if_false]
          by_cases h8 : e = 'u'
          · subst h8
            simp only [if_true]
            rw [D_bs_u q hq]
            cases hh : Spec.hexchar r2 with
            | none => simp only [post_err]
            | some p =>
              obtain ⟨ch, r3⟩ := p
              simp only
              have := hexchar_len hh
              exact ih r3 _ fuel (by omega) (by omega)
          · simp only [h8, if_false]
            rw [D_bs_bad]
            · rfl
            · simp [isEscapeChar, h0, h1, h2, h3, h4, h5, h6, h7, h8]
      · simp only [hcb, if_false]
        rw [D_raw q c r acc hcb hcq]
        have hb : c.toNat ≠ 0x5C := fun h => hcb (Char.toNat_inj.1 h)
        by_cases hc : c.toNat ≤ 0x1F
        · simp only [hc, if_true, post_err]
          have h1 : Spec.isUnescaped c = false := by
            cases hu : Spec.isUnescaped c with
            | false => rfl
            | true => have := (isUnescaped_iff c).1 hu; omega
          have h2 : c ≠ '\'' := by intro e; subst e; revert hc; decide
          have h3 : c ≠ '"' := by intro e; subst e; revert hc; decide
          simp [h1, h2, h3]
        · simp only [hc, if_false]
          have hcond : (Spec.isUnescaped c || (c = '\'' && q = '"') || (c = '"' && q = '\'')) = true := by
            by_cases hu : Spec.isUnescaped c = true
            · simp [hu]
            · have hu' : ¬ (c.toNat ≥ 0x20 ∧ c.toNat ≠ 0x22 ∧ c.toNat ≠ 0x27 ∧ c.toNat ≠ 0x5C) :=
                fun x => hu ((isUnescaped_iff c).2 x)
              have : c.toNat = 0x22 ∨ c.toNat = 0x27 := by omega
              rcases this with h | h
              · have : c = '"' := Char.toNat_inj.1 h
                subst this
                rcases hq with rfl | rfl
                · simp
                · exact absurd rfl hcq
              · have : c = '\'' := Char.toNat_inj.1 h
                subst this
                rcases hq with rfl | rfl
                · exact absurd rfl hcq
                · simp
          simp only [hcond, if_true]
          exact ih r _ fuel (by omega) (by omega)

theorem esc_simple {e : Char} (h : isEscapeChar e = true) (hu : e ≠ 'u') : ∃ x, simpleEsc e = some x := by
  simp only [isEscapeChar, Bool.or_eq_true, decide_eq_true_eq] at h
  unfold simpleEsc
  rcases h with ((((((h | h) | h) | h) | h) | h) | h) | h
  all_goals first | exact absurd h hu | (subst h; exact ⟨_, rfl⟩)

theorem D_no_index (q : Char) (hq : q = '\'' ∨ q = '"') : ∀ (n : Nat) (inp acc : List Char)
    (e : Except DecErr (List Char)) (rest : List Char),
    inp.length ≤ n → D q inp acc = some (e, rest) → e ≠ .error .indexError := by
  have hqb : q ≠ '\\' := by rcases hq with rfl | rfl <;> decide
  have herr : ∀ (o : Option (Str × List Char)) (e : Except DecErr (List Char)) (rest : List Char),
      o.map (fun res => ((.error .syntax : Except DecErr (List Char)), res.2)) = some (e, rest) →
      e ≠ .error .indexError := by
    intro o e rest h
    cases o with
    | none => cases h
    | some res =>
      simp only [Option.map_some, Option.some.injEq, Prod.mk.injEq] at h
      rw [← h.1]; intro h'; cases h'
  intro n
  induction n with
  | zero =>
    intro inp acc e rest hl h
    match inp with
    | [] => rw [D_nil] at h; cases h
    | _ :: _ => simp at hl
  | succ n ih =>
    intro inp acc e rest hl h
    match inp with
    | [] => rw [D_nil] at h; cases h
    | c :: r =>
      simp only [List.length_cons, Nat.add_le_add_iff_right] at hl
      by_cases hcq : c = q
      · subst hcq
        rw [D_quote c hqb] at h
        simp only [Option.some.injEq, Prod.mk.injEq] at h
        rw [← h.1]; intro h'; cases h'
      by_cases hcb : c = '\\'
      · subst hcb
        match r with
        | [] => rw [D_bs_nil] at h; cases h
        | p :: r2 =>
          simp only [List.length_cons] at hl
          by_cases h0 : p = q
          · subst h0
            rw [D_bs_q p hq] at h
            exact ih r2 _ e rest (by omega) h
          by_cases h8 : p = 'u'
          · subst h8
            rw [D_bs_u q hq] at h
            cases hh : Spec.hexchar r2 with
            | none => rw [hh] at h; exact herr _ _ _ h
            | some pr =>
              obtain ⟨ch, r3⟩ := pr
              rw [hh] at h
              have := hexchar_len hh
              exact ih r3 _ e rest (by omega) h
          by_cases hesc : isEscapeChar p = true
          · obtain ⟨x, hx⟩ := esc_simple hesc h8
            rw [D_bs_simple q p x hx] at h
            exact ih r2 _ e rest (by omega) h
          · rw [D_bs_bad q p r2 acc (by simp [hesc, h0])] at h
            cases h
      · rw [D_raw q c r acc hcb hcq] at h
        split at h
        · exact herr _ _ _ h
        · exact ih r _ e rest (by omega) h

theorem decode_eq (q : Char) (hq : q = '\'' ∨ q = '"') {tok : List Char} (ht : Tok q tok) :
    decodeStringLiteral (if q = '\'' then TokKind.sqString else TokKind.dqString) tok =
      unescL (normL q tok) [] := by
  unfold decodeStringLiteral normL
  rcases hq with rfl | rfl
  · simp only [if_true, unescapeString_eq]
    have := norm_eq_sq ht
    unfold R1 R2 at this
    rw [this]
  · have : ('"' = '\'') = False := by decide
    simp only [this, if_false, unescapeString_eq, reduceCtorEq]

end JPV.Proofs.StrAux
