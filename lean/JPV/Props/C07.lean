/-
C07 — Index and slice selectors implement RFC 9535 array arithmetic.

Property text: "For every array length and every index i, '[i]' selects element
i (counting from the end when negative) iff it exists; for every start, end and
step, present or omitted, '[start:end:step]' selects exactly the elements, in
exactly the order, produced by the RFC 9535 normalise/bounds/iterate procedure,
with step 0 selecting nothing. The location reported for each selected element
is its non-negative index, and neither selector matches objects or scalars."

Implementation side: `Impl.selIndex` (`_normalized_index` + `list[i]`) and
`Impl.selSlice` (`slice.indices` + `range` + list slicing + `zip`), all integers
unbounded.  RFC side: `Spec.selIndex`, `Spec.selSlice` (Normalize / Bounds / the
two loops of §2.3.4.2.2).
-/
import JPV.Props.Common
import JPV.Proofs.Slice
namespace JPV.Props
open JPV

/-- for every node (array or not), every start/end/step present or omitted -/
def C07_slice_statement : Prop :=
  ∀ (n : Node) (a b c : Option Int), Impl.selSlice a b c n = Spec.selSlice a b c n

def C07_index_statement : Prop :=
  ∀ (n : Node) (i : Int), Impl.selIndex i n = Spec.selIndex i n

theorem C07_slice : C07_slice_statement := Proofs.selSlice_correct

theorem C07_index : C07_index_statement := Proofs.selIndex_correct

/-- The location of every selected element is its non-negative in-range index and
the value is the element at that index. -/
theorem C07_loc_nonneg (xs : List Json) (loc : Loc) (a b c : Option Int) :
    ∀ m ∈ Impl.selSlice a b c ⟨loc, .arr xs⟩,
      ∃ i : Nat, i < xs.length ∧ m.loc = loc ++ [.idx (i : Int)] ∧ xs[i]? = some m.val :=
  Proofs.selSlice_loc xs loc a b c

theorem C07_index_loc (xs : List Json) (loc : Loc) (i : Int) :
    ∀ m ∈ Impl.selIndex i ⟨loc, .arr xs⟩,
      ∃ k : Nat, k < xs.length ∧ m.loc = loc ++ [.idx (k : Int)] ∧ xs[k]? = some m.val :=
  Proofs.selIndex_loc xs loc i

/-- step 0 selects nothing -/
theorem C07_step_zero (n : Node) (a b : Option Int) : Impl.selSlice a b (some 0) n = [] :=
  Proofs.selSlice_step_zero n a b

/-- neither selector matches objects or scalars -/
theorem C07_nonarray (n : Node) (h : ∀ xs, n.val ≠ .arr xs) (a b c : Option Int) (i : Int) :
    Impl.selSlice a b c n = [] ∧ Impl.selIndex i n = [] := Proofs.sel_nonarray n h a b c i

/-- The fuel of the RFC loops is never what stops them: the slice procedure's
loops, run with `len + 1` iterations allowed, end because their own condition
fails. -/
theorem C07_spec_loops_total (len : Nat) (a b c : Option Int) :
    (Spec.sliceIndices len a b c).length ≤ len := Proofs.spec_slice_length len a b c

/-- Non-vacuity / sanity: a reverse slice over a 5-element array. -/
example : (Impl.selSlice none none (some (-2)) ⟨[], .arr [.null, .bool true, .null, .bool false, .null]⟩).map
    (fun n => n.loc) = [[.idx 4], [.idx 2], [.idx 0]] := by decide

end JPV.Props
