/-
`Spec.Semantics` — RFC 9535 selection semantics written down independently of
the Python code: §2.3 selectors, §2.3.4.2.2 slice procedure, §2.3.5.2 filter
semantics (existence tests, logical operators, comparison table), §2.4 function
typing conversions and the three value/count functions, §2.5 segments.
No depth limit, no dynamic typing: three typed interpretations of an
expression (as a test, as a comparable, as a nodelist).
-/
import JPV.Ast
namespace JPV.Spec

/-! ### Equality and ordering of JSON values (RFC 9535 §2.3.5.2.2) -/

mutual
/-- Equal as JSON values: numbers by value, strings by code points, arrays
element-wise, objects member-wise, never across kinds. -/
def jsonEq : Json → Json → Bool
  | .null, .null => true
  | .bool a, .bool b => a == b
  | .num a, .num b => a.beq b
  | .str a, .str b => a == b
  | .arr xs, .arr ys => arrEq xs ys
  | .obj l, .obj r => l.length == r.length && objSub l r
  | _, _ => false
def arrEq : List Json → List Json → Bool
  | [], [] => true
  | x :: xs, y :: ys => jsonEq x y && arrEq xs ys
  | _, _ => false
/-- every member of `l` has an equal-valued member of the same name in `r` -/
def objSub : List (Str × Json) → List (Str × Json) → Bool
  | [], _ => true
  | (k, v) :: rest, r =>
      (match Json.lookup k r with
       | some v' => jsonEq v v'
       | none => false) && objSub rest r
end

/-- `<` holds only between two numbers or two strings. -/
def jsonLt : Json → Json → Bool
  | .num a, .num b => a.blt b
  | .str a, .str b => strLt a b
  | _, _ => false

/-- A comparand: `none` is the special result Nothing. -/
abbrev Val := Option Json

def valEq : Val → Val → Bool
  | none, none => true
  | some a, some b => jsonEq a b
  | _, _ => false

def valLt : Val → Val → Bool
  | some a, some b => jsonLt a b
  | _, _ => false

/-- The comparison table: `==` and `<` primitive, the rest derived as the RFC derives them. -/
def compare (a : Val) (op : COp) (b : Val) : Bool :=
  match op with
  | .eq => valEq a b
  | .ne => !valEq a b
  | .lt => valLt a b
  | .gt => valLt b a
  | .le => valLt a b || valEq a b
  | .ge => valLt b a || valEq a b

/-! ### Array arithmetic (RFC 9535 §2.3.3, §2.3.4.2.2) -/

/-- `Normalize(i, len)` -/
def normalize (i : Int) (len : Nat) : Int := if i ≥ 0 then i else (len : Int) + i

/-- `Bounds(start, end, step, len)` → (lower, upper) -/
def bounds (start stop step : Int) (len : Nat) : Int × Int :=
  let ns := normalize start len
  let ne := normalize stop len
  if step ≥ 0 then
    (min (max ns 0) len, min (max ne 0) len)
  else
    (min (max ne (-1)) ((len : Int) - 1), min (max ns (-1)) ((len : Int) - 1))

/-- `i = lower; while i < upper: select a(i); i += step` (step > 0).  `fuel` bounds the
number of iterations; `len + 1` always suffices (`loopUp_fuel` in `Proofs`). -/
def loopUp (fuel : Nat) (i upper step : Int) : List Int :=
  match fuel with
  | 0 => []
  | f + 1 => if i < upper then i :: loopUp f (i + step) upper step else []

/-- `i = upper; while lower < i: select a(i); i += step` (step < 0). -/
def loopDown (fuel : Nat) (i lower step : Int) : List Int :=
  match fuel with
  | 0 => []
  | f + 1 => if lower < i then i :: loopDown f (i + step) lower step else []

/-- The indices a slice selects, in order (with the RFC's defaults for omitted parts). -/
def sliceIndices (len : Nat) (start stop step : Option Int) : List Int :=
  let st := step.getD 1
  if st = 0 then [] else
  let s := start.getD (if st ≥ 0 then 0 else (len : Int) - 1)
  let e := stop.getD (if st ≥ 0 then (len : Int) else -(len : Int) - 1)
  let (lower, upper) := bounds s e st len
  if st > 0 then loopUp (len + 1) lower upper st else loopDown (len + 1) upper lower st

def child (n : Node) (k : Key) (v : Json) : Node := ⟨n.loc ++ [k], v⟩

def selSlice (start stop step : Option Int) (n : Node) : List Node :=
  match n.val with
  | .arr xs =>
    (sliceIndices xs.length start stop step).filterMap (fun i =>
      if i < 0 then none else (xs[i.toNat]?).map (fun x => child n (.idx i) x))
  | _ => []

/-- Index selector: element `i`, counting from the end when negative, iff it exists. -/
def selIndex (i : Int) (n : Node) : List Node :=
  match n.val with
  | .arr xs =>
    let j := normalize i xs.length
    if j < 0 then [] else
    match xs[j.toNat]? with
    | some x => [child n (.idx j) x]
    | none => []
  | _ => []

/-- Name selector: the member values whose name is `s` (at most one in a well-formed object). -/
def selName (s : Str) (n : Node) : List Node :=
  match n.val with
  | .obj kvs => (kvs.filter (fun p => p.1 == s)).map (fun p => child n (.name s) p.2)
  | _ => []

def arrChildren (n : Node) (xs : List Json) : List Node :=
  (List.range xs.length).zip xs |>.map (fun p => child n (.idx (p.1 : Int)) p.2)

/-- The children of a node: member values in the object's own order, elements in index order. -/
def children (n : Node) : List Node :=
  match n.val with
  | .obj kvs => kvs.map (fun p => child n (.name p.1) p.2)
  | .arr xs => arrChildren n xs
  | _ => []

mutual
/-- A node and all its descendants in document pre-order (§2.5.2.2), scalars included. -/
def descendants (loc : Loc) (v : Json) : List Node :=
  match v with
  | .arr xs => ⟨loc, v⟩ :: descArr loc 0 xs
  | .obj kvs => ⟨loc, v⟩ :: descObj loc kvs
  | _ => [⟨loc, v⟩]
def descArr (loc : Loc) (i : Nat) : List Json → List Node
  | [] => []
  | x :: xs => descendants (loc ++ [.idx (i : Int)]) x ++ descArr loc (i + 1) xs
def descObj (loc : Loc) : List (Str × Json) → List Node
  | [] => []
  | (k, x) :: rest => descendants (loc ++ [.name k]) x ++ descObj loc rest
end

/-! ### Function extensions (§2.4) -/

/-- A typed argument or result: the three RFC types. -/
inductive Arg where
  | value (v : Val)
  | logical (b : Bool)
  | nodes (ns : List Node)
deriving Repr, Inhabited

structure Fn where
  argTypes : List Ty
  ret : Ty
  sem : List Arg → Arg

abbrev Registry := Str → Option Fn

def Arg.asLogical : Arg → Bool
  | .logical b => b
  | .nodes ns => !ns.isEmpty
  | .value _ => false

def Arg.asValue : Arg → Val
  | .value v => v
  | _ => none

def Arg.asNodes : Arg → List Node
  | .nodes ns => ns
  | _ => []

def natVal (n : Nat) : Val := some (.num (Num.ofInt n))

/-- `length()` §2.4.4 -/
def lengthFn : Fn := ⟨[.value], .value, fun
  | [.value (some (.str s))] => .value (natVal s.length)
  | [.value (some (.arr xs))] => .value (natVal xs.length)
  | [.value (some (.obj kvs))] => .value (natVal kvs.length)
  | _ => .value none⟩
/-- `count()` §2.4.5 -/
def countFn : Fn := ⟨[.nodes], .value, fun
  | [.nodes ns] => .value (natVal ns.length)
  | _ => .value none⟩
/-- `value()` §2.4.8 -/
def valueFn : Fn := ⟨[.nodes], .value, fun
  | [.nodes [n]] => .value (some n.val)
  | _ => .value none⟩

/-! ### Selection -/

mutual
/-- An expression used as a test (LogicalType). -/
def testOf (reg : Registry) (root cur : Json) : Expr → Bool
  | .lit _ => false
  | .not e => !testOf reg root cur e
  | .logical .and l r => testOf reg root cur l && testOf reg root cur r
  | .logical .or l r => testOf reg root cur l || testOf reg root cur r
  | .cmp op l r => compare (valueOf reg root cur l) op (valueOf reg root cur r)
  | .rel q => !(selectFrom reg root q [⟨[], cur⟩]).isEmpty
  | .root q => !(selectFrom reg root q [⟨[], root⟩]).isEmpty
  | .call f args =>
      match reg f with
      | some fn => (fn.sem (argsOf reg root cur fn.argTypes args)).asLogical
      | none => false
/-- An expression used as a comparand or ValueType argument. -/
def valueOf (reg : Registry) (root cur : Json) : Expr → Val
  | .lit v => some v
  | .rel q => match selectFrom reg root q [⟨[], cur⟩] with
      | [n] => some n.val
      | _ => none
  | .root q => match selectFrom reg root q [⟨[], root⟩] with
      | [n] => some n.val
      | _ => none
  | .call f args =>
      match reg f with
      | some fn => (fn.sem (argsOf reg root cur fn.argTypes args)).asValue
      | none => none
  | _ => none
/-- An expression used as a NodesType argument. -/
def nodesOf (reg : Registry) (root cur : Json) : Expr → List Node
  | .rel q => selectFrom reg root q [⟨[], cur⟩]
  | .root q => selectFrom reg root q [⟨[], root⟩]
  | .call f args =>
      match reg f with
      | some fn => (fn.sem (argsOf reg root cur fn.argTypes args)).asNodes
      | none => []
  | _ => []
/-- Arguments converted according to the declared parameter types. -/
def argsOf (reg : Registry) (root cur : Json) : List Ty → List Expr → List Arg
  | t :: ts, e :: es =>
      (match t with
       | .value => Arg.value (valueOf reg root cur e)
       | .logical => Arg.logical (testOf reg root cur e)
       | .nodes => Arg.nodes (nodesOf reg root cur e)) :: argsOf reg root cur ts es
  | _, _ => []
def selectSel (reg : Registry) (root : Json) : Selector → Node → List Node
  | .name s, n => selName s n
  | .index i, n => selIndex i n
  | .slice a b c, n => selSlice a b c n
  | .wild, n => children n
  | .filter e, n => (children n).filter (fun c => testOf reg root c.val e)
def selectSels (reg : Registry) (root : Json) : List Selector → Node → List Node
  | [], _ => []
  | s :: ss, n => selectSel reg root s n ++ selectSels reg root ss n
def selectSeg (reg : Registry) (root : Json) : Segment → List Node → List Node
  | .child sels, ns => ns.flatMap (selectSels reg root sels)
  | .desc sels, ns =>
      ns.flatMap (fun n => (descendants n.loc n.val).flatMap (selectSels reg root sels))
def selectFrom (reg : Registry) (root : Json) : List Segment → List Node → List Node
  | [], ns => ns
  | seg :: segs, ns => selectFrom reg root segs (selectSeg reg root seg ns)
end

/-- The nodelist RFC 9535 defines for query `q` applied to `v`. -/
def select (reg : Registry) (q : Query) (v : Json) : List Node :=
  selectFrom reg v q [⟨[], v⟩]

end JPV.Spec
