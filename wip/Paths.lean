import JPV.Impl.Serialize
import JPV.Spec.NormalizedPath
namespace JPV.Proofs
open JPV

theorem finditer_locations : ∀ (env : Impl.Env) (q : Query) (v : Json), v.WF →
    ∀ n ∈ (Impl.finditer env q v).1, Json.getAt v n.loc = some n.val := by sorry

theorem finditer_idx_nonneg (env : Impl.Env) (q : Query) (v : Json) :
    ∀ n ∈ (Impl.finditer env q v).1, ∀ k ∈ n.loc, ∀ i, k = .idx i → 0 ≤ i := by sorry

theorem canonicalString_normal : ∀ s : Str, Impl.canonicalString s = Spec.normalName s := by sorry

theorem path_normal (loc : Loc) (h : ∀ k ∈ loc, ∀ i, k = .idx i → 0 ≤ i) :
    Impl.path loc = Spec.normalizedPath loc := by sorry

theorem normalizedPath_injective (l1 l2 : Loc) (h1 : ∀ k ∈ l1, ∀ i, k = .idx i → 0 ≤ i)
    (h2 : ∀ k ∈ l2, ∀ i, k = .idx i → 0 ≤ i)
    (h : Spec.normalizedPath l1 = Spec.normalizedPath l2) : l1 = l2 := by sorry

end JPV.Proofs
