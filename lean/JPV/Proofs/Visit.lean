import JPV.Props.Common
namespace JPV.Proofs
open JPV

/-! ### `Stream` projections -/

theorem Stream.cons_fst (n : Node) (s : Impl.Stream) : (Impl.Stream.cons n s).1 = n :: s.1 := rfl
theorem Stream.cons_snd (n : Node) (s : Impl.Stream) : (Impl.Stream.cons n s).2 = s.2 := rfl
theorem Stream.nil_fst : Impl.Stream.nil.1 = [] := rfl
theorem Stream.nil_snd : Impl.Stream.nil.2 = none := rfl

theorem Stream.append_of_none {a : Impl.Stream} (b : Impl.Stream) (h : a.2 = none) :
    Impl.Stream.append a b = (a.1 ++ b.1, b.2) := by
  unfold Impl.Stream.append; rw [h]

theorem Stream.append_of_some {a : Impl.Stream} (b : Impl.Stream) {e : Impl.ErrKind}
    (h : a.2 = some e) : Impl.Stream.append a b = (a.1, some e) := by
  unfold Impl.Stream.append; rw [h]

theorem Stream.append_snd_none (a b : Impl.Stream) :
    (Impl.Stream.append a b).2 = none ↔ a.2 = none ∧ b.2 = none := by
  cases h : a.2 with
  | none => rw [Stream.append_of_none b h]; simp
  | some e => rw [Stream.append_of_some b h]; simp

theorem Stream.append_snd_cases (a b : Impl.Stream) :
    (Impl.Stream.append a b).2 = a.2 ∨ (Impl.Stream.append a b).2 = b.2 := by
  cases h : a.2 with
  | none => rw [Stream.append_of_none b h]; exact Or.inr rfl
  | some e => rw [Stream.append_of_some b h]; exact Or.inl rfl

theorem Stream.append_fst_prefix (a b : Impl.Stream) :
    (Impl.Stream.append a b).1 = a.1 ∨
      (a.2 = none ∧ (Impl.Stream.append a b).1 = a.1 ++ b.1) := by
  cases h : a.2 with
  | none => rw [Stream.append_of_none b h]; exact Or.inr ⟨rfl, rfl⟩
  | some e => rw [Stream.append_of_some b h]; exact Or.inl rfl

theorem Stream.append_fst_length_le (a b : Impl.Stream) :
    (Impl.Stream.append a b).1.length ≤ a.1.length + b.1.length := by
  cases h : a.2 with
  | none => rw [Stream.append_of_none b h]; simp
  | some e => rw [Stream.append_of_some b h]; simp

/-! ### equation lemmas for `visit` -/

theorem visit_gt {max : Int} {d : Nat} (loc : Loc) (v : Json) (h : (d : Int) > max) :
    Impl.visit max d loc v = ([], some .recursion) := by
  unfold Impl.visit; rw [if_pos h]

theorem visit_arr {max : Int} {d : Nat} (loc : Loc) (xs : List Json) (h : (d : Int) ≤ max) :
    Impl.visit max d loc (.arr xs) =
      Impl.Stream.cons ⟨loc, .arr xs⟩ (Impl.visitArr max (d + 1) loc 0 xs) := by
  unfold Impl.visit; rw [if_neg (by omega)]

theorem visit_obj {max : Int} {d : Nat} (loc : Loc) (kvs : List (Str × Json)) (h : (d : Int) ≤ max) :
    Impl.visit max d loc (.obj kvs) =
      Impl.Stream.cons ⟨loc, .obj kvs⟩ (Impl.visitObj max (d + 1) loc kvs) := by
  unfold Impl.visit; rw [if_neg (by omega)]

theorem visit_scalar {max : Int} {d : Nat} (loc : Loc) {v : Json} (hv : v.isContainer = false)
    (h : (d : Int) ≤ max) : Impl.visit max d loc v = ([⟨loc, v⟩], none) := by
  unfold Impl.visit; rw [if_neg (by omega)]
  cases v <;> first | rfl | exact absurd hv (by simp [Json.isContainer])

theorem visitArr_nil (max : Int) (d : Nat) (loc : Loc) (i : Nat) :
    Impl.visitArr max d loc i [] = Impl.Stream.nil := by
  unfold Impl.visitArr; rfl

theorem visitArr_cons_container (max : Int) (d : Nat) (loc : Loc) (i : Nat) {x : Json}
    (xs : List Json) (hx : x.isContainer = true) :
    Impl.visitArr max d loc i (x :: xs) =
      Impl.Stream.append (Impl.visit max d (loc ++ [.idx (i : Int)]) x)
        (Impl.visitArr max d loc (i + 1) xs) := by
  rw [Impl.visitArr, if_pos hx]

theorem visitArr_cons_scalar (max : Int) (d : Nat) (loc : Loc) (i : Nat) {x : Json}
    (xs : List Json) (hx : x.isContainer = false) :
    Impl.visitArr max d loc i (x :: xs) = Impl.visitArr max d loc (i + 1) xs := by
  rw [Impl.visitArr, if_neg (by simp [hx])]

theorem visitObj_nil (max : Int) (d : Nat) (loc : Loc) :
    Impl.visitObj max d loc [] = Impl.Stream.nil := by
  unfold Impl.visitObj; rfl

theorem visitObj_cons_container (max : Int) (d : Nat) (loc : Loc) (k : Str) {x : Json}
    (rest : List (Str × Json)) (hx : x.isContainer = true) :
    Impl.visitObj max d loc ((k, x) :: rest) =
      Impl.Stream.append (Impl.visit max d (loc ++ [.name k]) x)
        (Impl.visitObj max d loc rest) := by
  rw [Impl.visitObj, if_pos hx]

theorem visitObj_cons_scalar (max : Int) (d : Nat) (loc : Loc) (k : Str) {x : Json}
    (rest : List (Str × Json)) (hx : x.isContainer = false) :
    Impl.visitObj max d loc ((k, x) :: rest) = Impl.visitObj max d loc rest := by
  rw [Impl.visitObj, if_neg (by simp [hx])]

/-! ### depth / size facts -/

theorem depth_of_scalar {v : Json} (h : v.isContainer = false) : v.depth = 0 := by
  cases v <;> first | (unfold Json.depth; rfl) | exact absurd h (by simp [Json.isContainer])

theorem depth_pos_of_container {v : Json} (h : v.isContainer = true) : 1 ≤ v.depth := by
  cases v <;> first | (unfold Json.depth; omega) | exact absurd h (by simp [Json.isContainer])

theorem depth_arr (xs : List Json) : (Json.arr xs).depth = 1 + Json.depthArr xs := by
  rw [Json.depth]
theorem depth_obj (kvs : List (Str × Json)) : (Json.obj kvs).depth = 1 + Json.depthObj kvs := by
  rw [Json.depth]
theorem depthArr_nil : Json.depthArr [] = 0 := by rw [Json.depthArr]
theorem depthArr_cons (x : Json) (xs : List Json) :
    Json.depthArr (x :: xs) = max x.depth (Json.depthArr xs) := by rw [Json.depthArr]
theorem depthObj_nil : Json.depthObj [] = 0 := by rw [Json.depthObj]
theorem depthObj_cons (k : Str) (x : Json) (rest : List (Str × Json)) :
    Json.depthObj ((k, x) :: rest) = max x.depth (Json.depthObj rest) := by
  rw [Json.depthObj]

theorem size_arr (xs : List Json) : (Json.arr xs).size = 1 + Json.sizeArr xs := by rw [Json.size]
theorem size_obj (kvs : List (Str × Json)) : (Json.obj kvs).size = 1 + Json.sizeObj kvs := by
  rw [Json.size]
theorem sizeArr_nil : Json.sizeArr [] = 0 := by rw [Json.sizeArr]
theorem sizeArr_cons (x : Json) (xs : List Json) :
    Json.sizeArr (x :: xs) = x.size + Json.sizeArr xs := by rw [Json.sizeArr]
theorem sizeObj_nil : Json.sizeObj [] = 0 := by rw [Json.sizeObj]
theorem sizeObj_cons (k : Str) (x : Json) (rest : List (Str × Json)) :
    Json.sizeObj ((k, x) :: rest) = x.size + Json.sizeObj rest := by rw [Json.sizeObj]
theorem size_pos (v : Json) : 1 ≤ v.size := by
  cases v <;> (unfold Json.size; omega)

/-! ### the error is always `recursion` -/

mutual
theorem visit_err (max : Int) (d : Nat) (loc : Loc) (v : Json) :
    (Impl.visit max d loc v).2 = none ∨ (Impl.visit max d loc v).2 = some .recursion := by
  by_cases hd : (d : Int) > max
  · rw [visit_gt loc v hd]; exact Or.inr rfl
  · have hd' : (d : Int) ≤ max := by omega
    match v with
    | .arr xs => rw [visit_arr loc xs hd', Stream.cons_snd]; exact visitArr_err max (d + 1) loc 0 xs
    | .obj kvs => rw [visit_obj loc kvs hd', Stream.cons_snd]; exact visitObj_err max (d + 1) loc kvs
    | .null => rw [visit_scalar loc rfl hd']; exact Or.inl rfl
    | .bool _ => rw [visit_scalar loc rfl hd']; exact Or.inl rfl
    | .num _ => rw [visit_scalar loc rfl hd']; exact Or.inl rfl
    | .str _ => rw [visit_scalar loc rfl hd']; exact Or.inl rfl
theorem visitArr_err (max : Int) (d : Nat) (loc : Loc) (i : Nat) (xs : List Json) :
    (Impl.visitArr max d loc i xs).2 = none ∨ (Impl.visitArr max d loc i xs).2 = some .recursion := by
  match xs with
  | [] => rw [visitArr_nil]; exact Or.inl rfl
  | x :: xs =>
    cases hx : x.isContainer with
    | false => rw [visitArr_cons_scalar _ _ _ _ _ hx]; exact visitArr_err max d loc (i + 1) xs
    | true =>
      rw [visitArr_cons_container _ _ _ _ _ hx]
      rcases Stream.append_snd_cases (Impl.visit max d (loc ++ [.idx (i : Int)]) x)
        (Impl.visitArr max d loc (i + 1) xs) with h | h
      · rw [h]; exact visit_err max d _ x
      · rw [h]; exact visitArr_err max d loc (i + 1) xs
theorem visitObj_err (max : Int) (d : Nat) (loc : Loc) (kvs : List (Str × Json)) :
    (Impl.visitObj max d loc kvs).2 = none ∨ (Impl.visitObj max d loc kvs).2 = some .recursion := by
  match kvs with
  | [] => rw [visitObj_nil]; exact Or.inl rfl
  | (k, x) :: rest =>
    cases hx : x.isContainer with
    | false => rw [visitObj_cons_scalar _ _ _ _ _ hx]; exact visitObj_err max d loc rest
    | true =>
      rw [visitObj_cons_container _ _ _ _ _ hx]
      rcases Stream.append_snd_cases (Impl.visit max d (loc ++ [.name k]) x)
        (Impl.visitObj max d loc rest) with h | h
      · rw [h]; exact visit_err max d _ x
      · rw [h]; exact visitObj_err max d loc rest
end

/-! ### exact boundary, arbitrary starting depth -/

mutual
theorem visit_ok_iff (max : Int) (d : Nat) (loc : Loc) (v : Json) :
    (Impl.visit max d loc v).2 = none ↔ ((d : Int) ≤ max ∧ (d : Int) + (v.depth : Int) ≤ max + 1) := by
  by_cases hd : (d : Int) > max
  · rw [visit_gt loc v hd]
    constructor
    · intro h; cases h
    · intro h; omega
  · have hd' : (d : Int) ≤ max := by omega
    match v with
    | .arr xs =>
      rw [visit_arr loc xs hd', Stream.cons_snd, visitArr_ok_iff max (d + 1) loc 0 xs, depth_arr]
      omega
    | .obj kvs =>
      rw [visit_obj loc kvs hd', Stream.cons_snd, visitObj_ok_iff max (d + 1) loc kvs, depth_obj]
      omega
    | .null => rw [visit_scalar loc rfl hd', depth_of_scalar rfl]; simp; omega
    | .bool _ => rw [visit_scalar loc rfl hd', depth_of_scalar rfl]; simp; omega
    | .num _ => rw [visit_scalar loc rfl hd', depth_of_scalar rfl]; simp; omega
    | .str _ => rw [visit_scalar loc rfl hd', depth_of_scalar rfl]; simp; omega
theorem visitArr_ok_iff (max : Int) (d : Nat) (loc : Loc) (i : Nat) (xs : List Json) :
    (Impl.visitArr max d loc i xs).2 = none ↔
      (Json.depthArr xs = 0 ∨ (d : Int) + (Json.depthArr xs : Int) ≤ max + 1) := by
  match xs with
  | [] => rw [visitArr_nil, depthArr_nil]; simp [Stream.nil_snd]
  | x :: xs =>
    cases hx : x.isContainer with
    | false =>
      rw [visitArr_cons_scalar _ _ _ _ _ hx, visitArr_ok_iff max d loc (i + 1) xs, depthArr_cons,
        depth_of_scalar hx]
      simp
    | true =>
      have := depth_pos_of_container hx
      rw [visitArr_cons_container _ _ _ _ _ hx, Stream.append_snd_none,
        visit_ok_iff max d _ x, visitArr_ok_iff max d loc (i + 1) xs, depthArr_cons]
      omega
theorem visitObj_ok_iff (max : Int) (d : Nat) (loc : Loc) (kvs : List (Str × Json)) :
    (Impl.visitObj max d loc kvs).2 = none ↔
      (Json.depthObj kvs = 0 ∨ (d : Int) + (Json.depthObj kvs : Int) ≤ max + 1) := by
  match kvs with
  | [] => rw [visitObj_nil, depthObj_nil]; simp [Stream.nil_snd]
  | (k, x) :: rest =>
    cases hx : x.isContainer with
    | false =>
      rw [visitObj_cons_scalar _ _ _ _ _ hx, visitObj_ok_iff max d loc rest, depthObj_cons,
        depth_of_scalar hx]
      simp
    | true =>
      have := depth_pos_of_container hx
      rw [visitObj_cons_container _ _ _ _ _ hx, Stream.append_snd_none,
        visit_ok_iff max d _ x, visitObj_ok_iff max d loc rest, depthObj_cons]
      omega
end

/-! ### equation lemmas for `descendants` -/

theorem descendants_arr (loc : Loc) (xs : List Json) :
    Spec.descendants loc (.arr xs) = ⟨loc, .arr xs⟩ :: Spec.descArr loc 0 xs := by
  rw [Spec.descendants]
theorem descendants_obj (loc : Loc) (kvs : List (Str × Json)) :
    Spec.descendants loc (.obj kvs) = ⟨loc, .obj kvs⟩ :: Spec.descObj loc kvs := by
  rw [Spec.descendants]
theorem descendants_scalar (loc : Loc) {v : Json} (hv : v.isContainer = false) :
    Spec.descendants loc v = [⟨loc, v⟩] := by
  cases v <;> first | (unfold Spec.descendants; rfl) | exact absurd hv (by simp [Json.isContainer])
theorem descArr_nil (loc : Loc) (i : Nat) : Spec.descArr loc i [] = [] := by rw [Spec.descArr]
theorem descArr_cons (loc : Loc) (i : Nat) (x : Json) (xs : List Json) :
    Spec.descArr loc i (x :: xs) =
      Spec.descendants (loc ++ [.idx (i : Int)]) x ++ Spec.descArr loc (i + 1) xs := by
  rw [Spec.descArr]
theorem descObj_nil (loc : Loc) : Spec.descObj loc [] = [] := by rw [Spec.descObj]
theorem descObj_cons (loc : Loc) (k : Str) (x : Json) (rest : List (Str × Json)) :
    Spec.descObj loc ((k, x) :: rest) =
      Spec.descendants (loc ++ [.name k]) x ++ Spec.descObj loc rest := by
  rw [Spec.descObj]

/-- the predicate selecting container nodes -/
abbrev isC : Node → Bool := fun n => n.val.isContainer

/-! ### locations of descendants extend the location of the root -/

mutual
theorem mem_descendants_loc (loc : Loc) (v : Json) (n : Node) (h : n ∈ Spec.descendants loc v) :
    loc.length ≤ n.loc.length := by
  match v with
  | .arr xs =>
    rw [descendants_arr, List.mem_cons] at h
    rcases h with h | h
    · subst h; exact Nat.le_refl _
    · exact Nat.le_of_lt (mem_descArr_loc loc 0 xs n h)
  | .obj kvs =>
    rw [descendants_obj, List.mem_cons] at h
    rcases h with h | h
    · subst h; exact Nat.le_refl _
    · exact Nat.le_of_lt (mem_descObj_loc loc kvs n h)
  | .null => rw [descendants_scalar loc rfl, List.mem_singleton] at h; subst h; exact Nat.le_refl _
  | .bool _ => rw [descendants_scalar loc rfl, List.mem_singleton] at h; subst h; exact Nat.le_refl _
  | .num _ => rw [descendants_scalar loc rfl, List.mem_singleton] at h; subst h; exact Nat.le_refl _
  | .str _ => rw [descendants_scalar loc rfl, List.mem_singleton] at h; subst h; exact Nat.le_refl _
theorem mem_descArr_loc (loc : Loc) (i : Nat) (xs : List Json) (n : Node)
    (h : n ∈ Spec.descArr loc i xs) : loc.length < n.loc.length := by
  match xs with
  | [] => rw [descArr_nil] at h; cases h
  | x :: xs =>
    rw [descArr_cons, List.mem_append] at h
    rcases h with h | h
    · have := mem_descendants_loc (loc ++ [.idx (i : Int)]) x n h
      rw [List.length_append, List.length_singleton] at this
      omega
    · exact mem_descArr_loc loc (i + 1) xs n h
theorem mem_descObj_loc (loc : Loc) (kvs : List (Str × Json)) (n : Node)
    (h : n ∈ Spec.descObj loc kvs) : loc.length < n.loc.length := by
  match kvs with
  | [] => rw [descObj_nil] at h; cases h
  | (k, x) :: rest =>
    rw [descObj_cons, List.mem_append] at h
    rcases h with h | h
    · have := mem_descendants_loc (loc ++ [.name k]) x n h
      rw [List.length_append, List.length_singleton] at this
      omega
    · exact mem_descObj_loc loc rest n h
end

theorem loc_beq_false_of_length_lt {loc : Loc} {n : Node} (h : loc.length < n.loc.length) :
    (n.loc == loc) = false := by
  rw [beq_eq_false_iff_ne]
  intro e; rw [e] at h; omega

/-- on the descendants of a container, "container or the root location" selects the containers -/
theorem filter_root_eq_of_container (loc : Loc) {v : Json} (hv : v.isContainer = true) :
    (Spec.descendants loc v).filter (fun n => n.val.isContainer || n.loc == loc) =
      (Spec.descendants loc v).filter isC := by
  apply List.filter_congr
  intro n hn
  match v, hv, hn with
  | .arr xs, _, hn =>
    rw [descendants_arr, List.mem_cons] at hn
    rcases hn with hn | hn
    · subst hn; rfl
    · rw [loc_beq_false_of_length_lt (mem_descArr_loc loc 0 xs n hn), Bool.or_false]
  | .obj kvs, _, hn =>
    rw [descendants_obj, List.mem_cons] at hn
    rcases hn with hn | hn
    · subst hn; rfl
    · rw [loc_beq_false_of_length_lt (mem_descObj_loc loc kvs n hn), Bool.or_false]

theorem filter_root_eq_of_scalar (loc : Loc) {v : Json} (hv : v.isContainer = false) :
    (Spec.descendants loc v).filter (fun n => n.val.isContainer || n.loc == loc) = [⟨loc, v⟩] := by
  rw [descendants_scalar loc hv]
  simp

theorem filter_isC_scalar (loc : Loc) {v : Json} (hv : v.isContainer = false) :
    (Spec.descendants loc v).filter isC = [] := by
  rw [descendants_scalar loc hv]
  simp [hv]

/-! ### without an error, the traversal is complete (arbitrary starting depth) -/

mutual
theorem visit_fst_of_ok (max : Int) (d : Nat) (loc : Loc) (v : Json) (hv : v.isContainer = true)
    (h : (Impl.visit max d loc v).2 = none) :
    (Impl.visit max d loc v).1 = (Spec.descendants loc v).filter isC := by
  have hd' : (d : Int) ≤ max := ((visit_ok_iff max d loc v).1 h).1
  match v, hv, h with
  | .arr xs, _, h =>
    rw [visit_arr loc xs hd', Stream.cons_snd] at h
    rw [visit_arr loc xs hd', Stream.cons_fst, descendants_arr, List.filter_cons_of_pos (by rfl),
      visitArr_fst_of_ok max (d + 1) loc 0 xs h]
  | .obj kvs, _, h =>
    rw [visit_obj loc kvs hd', Stream.cons_snd] at h
    rw [visit_obj loc kvs hd', Stream.cons_fst, descendants_obj, List.filter_cons_of_pos (by rfl),
      visitObj_fst_of_ok max (d + 1) loc kvs h]
theorem visitArr_fst_of_ok (max : Int) (d : Nat) (loc : Loc) (i : Nat) (xs : List Json)
    (h : (Impl.visitArr max d loc i xs).2 = none) :
    (Impl.visitArr max d loc i xs).1 = (Spec.descArr loc i xs).filter isC := by
  match xs with
  | [] => rw [visitArr_nil, descArr_nil]; rfl
  | x :: xs =>
    cases hx : x.isContainer with
    | false =>
      rw [visitArr_cons_scalar _ _ _ _ _ hx] at h
      rw [visitArr_cons_scalar _ _ _ _ _ hx, descArr_cons, List.filter_append,
        filter_isC_scalar _ hx, List.nil_append]
      exact visitArr_fst_of_ok max d loc (i + 1) xs h
    | true =>
      rw [visitArr_cons_container _ _ _ _ _ hx, Stream.append_snd_none] at h
      rw [visitArr_cons_container _ _ _ _ _ hx, Stream.append_of_none _ h.1, descArr_cons,
        List.filter_append, visit_fst_of_ok max d _ x hx h.1,
        visitArr_fst_of_ok max d loc (i + 1) xs h.2]
theorem visitObj_fst_of_ok (max : Int) (d : Nat) (loc : Loc) (kvs : List (Str × Json))
    (h : (Impl.visitObj max d loc kvs).2 = none) :
    (Impl.visitObj max d loc kvs).1 = (Spec.descObj loc kvs).filter isC := by
  match kvs with
  | [] => rw [visitObj_nil, descObj_nil]; rfl
  | (k, x) :: rest =>
    cases hx : x.isContainer with
    | false =>
      rw [visitObj_cons_scalar _ _ _ _ _ hx] at h
      rw [visitObj_cons_scalar _ _ _ _ _ hx, descObj_cons, List.filter_append,
        filter_isC_scalar _ hx, List.nil_append]
      exact visitObj_fst_of_ok max d loc rest h
    | true =>
      rw [visitObj_cons_container _ _ _ _ _ hx, Stream.append_snd_none] at h
      rw [visitObj_cons_container _ _ _ _ _ hx, Stream.append_of_none _ h.1, descObj_cons,
        List.filter_append, visit_fst_of_ok max d _ x hx h.1,
        visitObj_fst_of_ok max d loc rest h.2]
end

/-! ### in every case the nodes yielded are a prefix of the full traversal -/

mutual
theorem visit_fst_prefix (max : Int) (d : Nat) (loc : Loc) (v : Json) (hv : v.isContainer = true) :
    (Impl.visit max d loc v).1 <+: (Spec.descendants loc v).filter isC := by
  by_cases hd : (d : Int) > max
  · rw [visit_gt loc v hd]; exact List.nil_prefix
  · have hd' : (d : Int) ≤ max := by omega
    match v, hv with
    | .arr xs, _ =>
      rw [visit_arr loc xs hd', Stream.cons_fst, descendants_arr, List.filter_cons_of_pos (by rfl),
        List.cons_prefix_cons]
      exact ⟨rfl, visitArr_fst_prefix max (d + 1) loc 0 xs⟩
    | .obj kvs, _ =>
      rw [visit_obj loc kvs hd', Stream.cons_fst, descendants_obj, List.filter_cons_of_pos (by rfl),
        List.cons_prefix_cons]
      exact ⟨rfl, visitObj_fst_prefix max (d + 1) loc kvs⟩
theorem visitArr_fst_prefix (max : Int) (d : Nat) (loc : Loc) (i : Nat) (xs : List Json) :
    (Impl.visitArr max d loc i xs).1 <+: (Spec.descArr loc i xs).filter isC := by
  match xs with
  | [] => rw [visitArr_nil]; exact List.nil_prefix
  | x :: xs =>
    cases hx : x.isContainer with
    | false =>
      rw [visitArr_cons_scalar _ _ _ _ _ hx, descArr_cons, List.filter_append,
        filter_isC_scalar _ hx, List.nil_append]
      exact visitArr_fst_prefix max d loc (i + 1) xs
    | true =>
      rw [visitArr_cons_container _ _ _ _ _ hx, descArr_cons, List.filter_append]
      rcases Stream.append_fst_prefix (Impl.visit max d (loc ++ [.idx (i : Int)]) x)
        (Impl.visitArr max d loc (i + 1) xs) with h | ⟨h0, h⟩
      · rw [h]
        exact (visit_fst_prefix max d _ x hx).trans (List.prefix_append _ _)
      · rw [h, visit_fst_of_ok max d _ x hx h0, List.prefix_append_right_inj]
        exact visitArr_fst_prefix max d loc (i + 1) xs
theorem visitObj_fst_prefix (max : Int) (d : Nat) (loc : Loc) (kvs : List (Str × Json)) :
    (Impl.visitObj max d loc kvs).1 <+: (Spec.descObj loc kvs).filter isC := by
  match kvs with
  | [] => rw [visitObj_nil]; exact List.nil_prefix
  | (k, x) :: rest =>
    cases hx : x.isContainer with
    | false =>
      rw [visitObj_cons_scalar _ _ _ _ _ hx, descObj_cons, List.filter_append,
        filter_isC_scalar _ hx, List.nil_append]
      exact visitObj_fst_prefix max d loc rest
    | true =>
      rw [visitObj_cons_container _ _ _ _ _ hx, descObj_cons, List.filter_append]
      rcases Stream.append_fst_prefix (Impl.visit max d (loc ++ [.name k]) x)
        (Impl.visitObj max d loc rest) with h | ⟨h0, h⟩
      · rw [h]
        exact (visit_fst_prefix max d _ x hx).trans (List.prefix_append _ _)
      · rw [h, visit_fst_of_ok max d _ x hx h0, List.prefix_append_right_inj]
        exact visitObj_fst_prefix max d loc rest
end

/-! ### the number of nodes yielded is bounded by the size of the value -/

mutual
theorem visit_length_le (max : Int) (d : Nat) (loc : Loc) (v : Json) :
    (Impl.visit max d loc v).1.length ≤ v.size := by
  by_cases hd : (d : Int) > max
  · rw [visit_gt loc v hd]; exact Nat.zero_le _
  · have hd' : (d : Int) ≤ max := by omega
    match v with
    | .arr xs =>
      have := visitArr_length_le max (d + 1) loc 0 xs
      rw [visit_arr loc xs hd', Stream.cons_fst, List.length_cons, size_arr]; omega
    | .obj kvs =>
      have := visitObj_length_le max (d + 1) loc kvs
      rw [visit_obj loc kvs hd', Stream.cons_fst, List.length_cons, size_obj]; omega
    | .null => rw [visit_scalar loc rfl hd']; exact size_pos _
    | .bool _ => rw [visit_scalar loc rfl hd']; exact size_pos _
    | .num _ => rw [visit_scalar loc rfl hd']; exact size_pos _
    | .str _ => rw [visit_scalar loc rfl hd']; exact size_pos _
theorem visitArr_length_le (max : Int) (d : Nat) (loc : Loc) (i : Nat) (xs : List Json) :
    (Impl.visitArr max d loc i xs).1.length ≤ Json.sizeArr xs := by
  match xs with
  | [] => rw [visitArr_nil]; exact Nat.zero_le _
  | x :: xs =>
    have ih := visitArr_length_le max d loc (i + 1) xs
    rw [sizeArr_cons]
    cases hx : x.isContainer with
    | false => rw [visitArr_cons_scalar _ _ _ _ _ hx]; omega
    | true =>
      have h1 := visit_length_le max d (loc ++ [.idx (i : Int)]) x
      have h2 := Stream.append_fst_length_le (Impl.visit max d (loc ++ [.idx (i : Int)]) x)
        (Impl.visitArr max d loc (i + 1) xs)
      rw [visitArr_cons_container _ _ _ _ _ hx]; omega
theorem visitObj_length_le (max : Int) (d : Nat) (loc : Loc) (kvs : List (Str × Json)) :
    (Impl.visitObj max d loc kvs).1.length ≤ Json.sizeObj kvs := by
  match kvs with
  | [] => rw [visitObj_nil]; exact Nat.zero_le _
  | (k, x) :: rest =>
    have ih := visitObj_length_le max d loc rest
    rw [sizeObj_cons]
    cases hx : x.isContainer with
    | false => rw [visitObj_cons_scalar _ _ _ _ _ hx]; omega
    | true =>
      have h1 := visit_length_le max d (loc ++ [.name k]) x
      have h2 := Stream.append_fst_length_le (Impl.visit max d (loc ++ [.name k]) x)
        (Impl.visitObj max d loc rest)
      rw [visitObj_cons_container _ _ _ _ _ hx]; omega
end

/-! ### general statements in the form of the C18 properties (arbitrary starting depth) -/

theorem visit_complete_gen (max : Int) (d : Nat) (loc : Loc) (v : Json)
    (h : (Impl.visit max d loc v).2 = none) :
    Impl.visit max d loc v =
      ((Spec.descendants loc v).filter (fun n => n.val.isContainer || n.loc == loc), none) := by
  cases hv : v.isContainer with
  | true =>
    rw [filter_root_eq_of_container loc hv, ← visit_fst_of_ok max d loc v hv h, ← h]
  | false =>
    rw [filter_root_eq_of_scalar loc hv, visit_scalar loc hv ((visit_ok_iff max d loc v).1 h).1]

theorem visit_prefix_gen (max : Int) (d : Nat) (loc : Loc) (v : Json) :
    (Impl.visit max d loc v).1 <+:
      (Spec.descendants loc v).filter (fun n => n.val.isContainer || n.loc == loc) := by
  cases hv : v.isContainer with
  | true => rw [filter_root_eq_of_container loc hv]; exact visit_fst_prefix max d loc v hv
  | false =>
    rw [filter_root_eq_of_scalar loc hv]
    by_cases hd : (d : Int) > max
    · rw [visit_gt loc v hd]; exact List.nil_prefix
    · rw [visit_scalar loc hv (by omega)]; exact List.prefix_refl _

/-! ### the C18 statements -/

theorem visit_boundary : ∀ (max : Int) (loc : Loc) (v : Json),
    ((Impl.visit max 1 loc v).2 = none ↔ (1 ≤ max ∧ (v.depth : Int) ≤ max)) ∧
    ((Impl.visit max 1 loc v).2 = none ∨ (Impl.visit max 1 loc v).2 = some .recursion) := by
  intro max loc v
  refine ⟨?_, visit_err max 1 loc v⟩
  rw [visit_ok_iff max 1 loc v]
  omega

theorem visit_complete (max : Int) (loc : Loc) (v : Json) (h : (v.depth : Int) ≤ max) (h1 : 1 ≤ max) :
    Impl.visit max 1 loc v =
      ((Spec.descendants loc v).filter (fun n => n.val.isContainer || n.loc == loc), none) :=
  visit_complete_gen max 1 loc v ((visit_ok_iff max 1 loc v).2 (by omega))

theorem visit_raise (max : Int) (loc : Loc) (v : Json) (h : (v.depth : Int) > max) :
    (Impl.visit max 1 loc v).2 = some .recursion ∧
    (Impl.visit max 1 loc v).1 <+:
      (Spec.descendants loc v).filter (fun n => n.val.isContainer || n.loc == loc) := by
  refine ⟨?_, visit_prefix_gen max 1 loc v⟩
  rcases visit_err max 1 loc v with h0 | h0
  · have := (visit_ok_iff max 1 loc v).1 h0
    omega
  · exact h0

theorem visit_length (max : Int) (loc : Loc) (v : Json) :
    (Impl.visit max 1 loc v).1.length ≤ v.size := visit_length_le max 1 loc v

end JPV.Proofs
