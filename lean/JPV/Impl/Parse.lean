/-
`Impl.Parse` — parse.py transcribed: the recursive-descent segment/selector
parser, the Pratt loop for filter expressions with the `PRECEDENCES` table, the
two dispatch maps, string-literal decoding, and every compile-time check in the
place where the Python performs it (`validate_function_extension_signature`,
`check_well_typedness`, `_raise_for_non_comparable_function`,
`_raise_for_uncompared`, the parenthesised-argument rule, `IndexSelector` /
`SliceSelector` range checks).

The monad keeps the `TokenStream` even when an exception propagates, because
`parse_filter_expression`'s `except KeyError` reads `stream.current` *after* the
nested calls have moved it.

Mutual recursion is by a fuel argument that bounds the call depth; running out
is `ErrKind.fuel`, never an answer (`parse_fuel_sufficient`).
-/
import JPV.Impl.Lex
namespace JPV.Impl

/-! ### string literal decoding (`_decode_string_literal` …) -/

def isHighSurrogate (cp : Nat) : Bool := cp ≥ 0xD800 && cp ≤ 0xDBFF
def isLowSurrogate (cp : Nat) : Bool := cp ≥ 0xDC00 && cp ≤ 0xDFFF

/-- `_parse_hex_digits` over the characters of the slice (a non-ASCII character
encodes to bytes ≥ 0x80, which are not hex digits) -/
def parseHexDigits (ds : List Char) : Option Nat :=
  ds.foldlM (fun acc c =>
    let n := c.toNat
    if n ≥ 48 ∧ n ≤ 57 then some (acc * 16 + (n - 48))
    else if n ≥ 65 ∧ n ≤ 70 then some (acc * 16 + (n - 65 + 10))
    else if n ≥ 97 ∧ n ≤ 102 then some (acc * 16 + (n - 97 + 10))
    else none) 0

inductive DecErr where
  | syntax
  | indexError
deriving DecidableEq, Repr

/-- `_decode_hex_char(value, index)` with `value[index] = 'u'`: (code point, new index) -/
def decodeHexChar (value : Array Char) (index : Nat) : Except DecErr (Nat × Nat) :=
  let length := value.size
  if index + 4 ≥ length then .error .syntax else
  let index := index + 1
  match parseHexDigits (value.extract index (index + 4)).toList with
  | none => .error .syntax
  | some cp =>
    if isLowSurrogate cp then .error .syntax
    else if isHighSurrogate cp then
      if !(index + 9 < length ∧ value[index + 4]? = some '\\' ∧ value[index + 5]? = some 'u') then
        .error .syntax
      else
        match parseHexDigits (value.extract (index + 6) (index + 10)).toList with
        | none => .error .syntax
        | some lo =>
          if !isLowSurrogate lo then .error .syntax
          else .ok (0x10000 + (((cp &&& 0x03FF) <<< 10) ||| (lo &&& 0x03FF)), index + 9)
    else .ok (cp, index + 3)

/-- `_decode_escape_sequence(value, index)` -/
def decodeEscape (value : Array Char) (index : Nat) : Except DecErr (Char × Nat) :=
  match value[index]? with
  | none => .error .indexError
  | some ch =>
    if ch = '"' then .ok ('"', index)
    else if ch = '\\' then .ok ('\\', index)
    else if ch = '/' then .ok ('/', index)
    else if ch = 'b' then .ok (Char.ofNat 8, index)
    else if ch = 'f' then .ok (Char.ofNat 12, index)
    else if ch = 'n' then .ok ('\n', index)
    else if ch = 'r' then .ok ('\r', index)
    else if ch = 't' then .ok ('\t', index)
    else if ch = 'u' then
      match decodeHexChar value index with
      | .error e => .error e
      | .ok (cp, i) => .ok (Char.ofNat cp, i)
    else .error .syntax

/-- `_unescape_string`'s loop; `fuel` = `len(value) + 1` suffices (index strictly grows) -/
def unescapeLoop (value : Array Char) : Nat → Nat → List Char → Except DecErr (List Char)
  | 0, _, _ => .error .indexError
  | fuel + 1, index, acc =>
    if index < value.size then
      match value[index]? with
      | none => .error .indexError
      | some ch =>
        if ch = '\\' then
          match decodeEscape value (index + 1) with
          | .error e => .error e
          | .ok (c, i) => unescapeLoop value fuel (i + 1) (c :: acc)
        else if ch.toNat ≤ 0x1F then .error .syntax
        else unescapeLoop value fuel (index + 1) (ch :: acc)
    else .ok acc.reverse

def unescapeString (value : Str) : Except DecErr Str :=
  unescapeLoop value.toArray (value.length + 1) 0 []

/-- `_decode_string_literal(token)` -/
def decodeStringLiteral (kind : TokKind) (value : Str) : Except DecErr Str :=
  let v := if kind = .sqString then
      Py.replace (Py.replace value ['"'] ['\\', '"']) ['\\', '\''] ['\'']
    else value
  unescapeString v

/-! ### tables (`Parser.PRECEDENCES`, `BINARY_OPERATORS`, `COMPARISON_OPERATORS`, the dispatch maps) -/

def precLowest : Nat := 1
def precOr : Nat := 3
def precAnd : Nat := 4
def precRelational : Nat := 5
def precPrefix : Nat := 7

/-- `PRECEDENCES.get(kind, PRECEDENCE_LOWEST)` -/
def precedence : TokKind → Nat
  | .and => precAnd
  | .eq | .ge | .gt | .le | .lt | .ne => precRelational
  | .not => precPrefix
  | .or => precOr
  | .rparen => precLowest
  | _ => precLowest

inductive BinOp where
  | logical (op : LOp)
  | cmp (op : COp)
deriving DecidableEq, Repr

/-- `BINARY_OPERATORS.get(kind)` (and whether the operator is in `COMPARISON_OPERATORS`) -/
def binaryOp : TokKind → Option BinOp
  | .and => some (.logical .and)
  | .or => some (.logical .or)
  | .eq => some (.cmp .eq)
  | .ne => some (.cmp .ne)
  | .lt => some (.cmp .lt)
  | .le => some (.cmp .le)
  | .gt => some (.cmp .gt)
  | .ge => some (.cmp .ge)
  | _ => none

def isComparisonTok (k : TokKind) : Bool :=
  match binaryOp k with
  | some (.cmp _) => true
  | _ => false

/-- keys of `token_map` -/
inductive Handler where
  | string | boolean | float | function | int | grouped | prefix | null | rootQuery | relQuery
deriving DecidableEq, Repr

def tokenMap : TokKind → Option Handler
  | .dqString => some .string
  | .false_ => some .boolean
  | .float => some .float
  | .function => some .function
  | .int => some .int
  | .lparen => some .grouped
  | .not => some .prefix
  | .null => some .null
  | .root => some .rootQuery
  | .current => some .relQuery
  | .sqString => some .string
  | .true_ => some .boolean
  | _ => none

/-- keys of `function_argument_map` (the same handlers) -/
def functionArgumentMap : TokKind → Option Handler := tokenMap

/-! ### the parser monad -/

abbrev P := ExceptT Err (StateM TStream)

def cur : P Token := do return (← getThe TStream).cur
def nextTok : P Token := modifyGetThe TStream TStream.next
def peekTok : P Token := modifyGetThe TStream TStream.peek
def pushTok (t : Token) : P Unit := modifyThe TStream (·.push t)
def failAt {α} (k : ErrKind) (t : Token) : P α := throw ⟨k, some t⟩
def keyError {α} : P α := throw ⟨.py "KeyError", none⟩
def outOfFuel {α} : P α := throw ⟨.fuel, none⟩

/-- `stream.expect(kind)` -/
def expect (k : TokKind) : P Unit := do
  let c ← cur
  if c.kind ≠ k then failAt .syntax c

/-- `stream.expect_peek(kind)` -/
def expectPeek (k : TokKind) : P Unit := do
  let p ← peekTok
  if p.kind ≠ k then
    let _ ← peekTok  -- the message reads `self.peek` again
    let p' ← peekTok -- and so does `token=self.peek`
    failAt .syntax p'

/-- `stream.expect_peek_not(kind, message)` -/
def expectPeekNot (k : TokKind) : P Unit := do
  let p ← peekTok
  if p.kind = k then
    let p' ← peekTok
    failAt .syntax p'

/-- an expression together with its `.token` -/
structure PExpr where
  e : Expr
  tok : Token
deriving Inhabited

def isLiteral : Expr → Bool
  | .lit _ => true
  | _ => false

/-- `_function_return_type(expr)` -/
def functionReturnType (env : Env) : Expr → Option Ty
  | .call name _ => (env.func name).map (·.ret)
  | _ => none

/-- `_raise_for_uncompared(expr)` -/
def raiseForUncompared (env : Env) (x : PExpr) : P Unit := do
  if isLiteral x.e then failAt .syntax x.tok
  match x.e with
  | .call name _ =>
    match env.func name with
    | some f => if f.ret = .value then failAt .type x.tok
    | none => pure ()
  | _ => pure ()

/-- `_raise_for_non_comparable_function(expr, token)` -/
def raiseForNonComparable (env : Env) (x : PExpr) (tok : Token) : P Unit := do
  match x.e with
  | .lit _ => pure ()
  | .rel q => if !Query.isSingular q then failAt .type tok
  | .root q => if !Query.isSingular q then failAt .type tok
  | .call name _ =>
    match env.func name with
    | some f => if f.ret ≠ .value then failAt .type tok
    | none => pure ()
  | _ => failAt .syntax tok

/-- `check_well_typedness`, one argument -/
def argWellTyped (env : Env) (t : Ty) (a : Expr) : Bool :=
  match t with
  | .value =>
    (match a with
     | .lit _ => true
     | .rel q => Query.isSingular q
     | .root q => Query.isSingular q
     | _ => false) || functionReturnType env a == some .value
  | .logical =>
    (match a with
     | .rel _ | .root _ | .logical _ _ _ | .cmp _ _ _ | .not _ => true
     | _ => false) || functionReturnType env a == some .logical
      || functionReturnType env a == some .nodes
  | .nodes =>
    (match a with
     | .rel _ | .root _ => true
     | _ => false) || functionReturnType env a == some .nodes

/-- `validate_function_extension_signature(token, args)` -/
def validateSignature (env : Env) (tok : Token) (args : List Expr) : P Unit := do
  match env.func tok.value with
  | none => failAt .name tok
  | some f =>
    if args.length ≠ f.argTypes.length then failAt .type tok
    if !(List.zipWith (argWellTyped env) f.argTypes args).all id then failAt .type tok

/-- `_has_leading_zero(value)` -/
def hasLeadingZero (value : Str) : Bool :=
  let ip := match value with
    | '-' :: r => r
    | _ => value
  let ip := ip.takeWhile (fun c => !(c = '.' || c = 'e' || c = 'E'))
  ip.length > 1 && ip.head? = some '0'

def decodeAt (tok : Token) : P Str :=
  match decodeStringLiteral tok.kind tok.value with
  | .ok s => pure s
  | .error .syntax => failAt .syntax tok
  | .error .indexError => throw ⟨.py "IndexError", none⟩

def inRange (env : Env) (i : Int) : Bool := decide (env.minIdx ≤ i) && decide (i ≤ env.maxIdx)

/-- `_maybe_index(token)` of `parse_slice` -/
def maybeIndex (t : Token) : P Bool := do
  if t.kind = .index then
    if t.value.length > 1 && (t.value.head? = some '0' || ['-', '0'].isPrefixOf t.value) then
      failAt .syntax t
    return true
  return false

def intOf (t : Token) : P Int :=
  match Py.intOfText t.value with
  | some i => pure i
  | none => throw ⟨.py "ValueError", none⟩

/-- `parse_slice(stream)` -/
def parseSlice (env : Env) : P Selector := do
  let tok ← cur
  let mut start : Option Int := none
  let mut stop : Option Int := none
  let mut step : Option Int := none
  if ← maybeIndex (← cur) then
    start := some (← intOf (← cur))
    let _ ← nextTok
  expect .colon
  let _ ← nextTok
  if ← maybeIndex (← cur) then
    stop := some (← intOf (← cur))
    let _ ← nextTok
  if (← cur).kind = .colon then
    let _ ← nextTok
    if ← maybeIndex (← cur) then
      step := some (← intOf (← cur))
      let _ ← nextTok
  pushTok (← cur)
  -- SliceSelector.__init__: _check_range(start, stop, step)
  for i in [start, stop, step] do
    match i with
    | some v => if !inRange env v then failAt .index tok
    | none => pure ()
  return .slice start stop step

/-- literal handlers of the dispatch maps that do not recurse -/
def parseLiteral (h : Handler) : P PExpr := do
  let c ← cur
  match h with
  | .boolean => return ⟨.lit (.bool (c.kind = .true_)), c⟩
  | .null => return ⟨.lit .null, c⟩
  | .string => return ⟨.lit (.str (← decodeAt c)), c⟩
  | .int =>
    if hasLeadingZero c.value then failAt .syntax c
    match Py.intOfFloatText c.value with
    | none => failAt .syntax c
    | some (some i) => return ⟨.lit (.num (Num.ofInt i)), c⟩
    | some none =>
      match Py.floatOfText c.value with
      | some x => return ⟨.lit (.num x), c⟩
      | none => failAt .syntax c
  | .float =>
    if hasLeadingZero c.value then failAt .syntax c
    match Py.floatOfText c.value with
    | some x => return ⟨.lit (.num x), c⟩
    | none => failAt .syntax c
  | _ => keyError

mutual

/-- `parse_query(stream, in_filter)`: the `while True` loop, segments accumulated -/
def parseQuery (env : Env) (inFilter : Bool) : Nat → List Segment → P (List Segment)
  | 0, _ => outOfFuel
  | fuel + 1, acc => do
    let c ← cur
    if c.kind = .doubleDot then
      let _ ← nextTok
      let sels ← parseSelectors env fuel
      let _ ← nextTok
      parseQuery env inFilter fuel (acc ++ [.desc sels])
    else if c.kind = .lbracket || c.kind = .property || c.kind = .wild then
      let sels ← parseSelectors env fuel
      let _ ← nextTok
      parseQuery env inFilter fuel (acc ++ [.child sels])
    else
      if inFilter then pushTok c
      return acc

/-- `parse_selectors(stream)` -/
def parseSelectors (env : Env) : Nat → P (List Selector)
  | 0 => outOfFuel
  | fuel + 1 => do
    let c ← cur
    if c.kind = .property then return [.name c.value]
    if c.kind = .wild then return [.wild]
    if c.kind = .lbracket then
      let tok ← nextTok
      let sels ← parseBracketed env tok fuel []
      return sels
    return []

/-- `parse_bracketed_selection`: the `while current != RBRACKET` loop -/
def parseBracketed (env : Env) (open_ : Token) : Nat → List Selector → P (List Selector)
  | 0, _ => outOfFuel
  | fuel + 1, acc => do
    let c ← cur
    if c.kind = .rbracket then
      if acc.isEmpty then failAt .syntax open_
      return acc
    let sel ← (do
      if c.kind = .index then
        if (← peekTok).kind = .colon then parseSlice env
        else
          if (c.value.length > 1 && c.value.head? = some '0') || ['-', '0'].isPrefixOf c.value then
            failAt .syntax c
          let i ← intOf c
          if !inRange env i then failAt .index c
          pure (Selector.index i)
      else if c.kind = .dqString || c.kind = .sqString then
        pure (Selector.name (← decodeAt c))
      else if c.kind = .colon then parseSlice env
      else if c.kind = .wild then pure Selector.wild
      else if c.kind = .filter then parseFilterSelector env fuel
      else failAt .syntax c)
    if (← peekTok).kind = .eof then failAt .syntax (← cur)
    if (← peekTok).kind ≠ .rbracket then
      expectPeek .comma
      let _ ← nextTok
      expectPeekNot .rbracket
    let _ ← nextTok
    parseBracketed env open_ fuel (acc ++ [sel])

/-- `parse_filter_selector(stream)` -/
def parseFilterSelector (env : Env) : Nat → P Selector
  | 0 => outOfFuel
  | fuel + 1 => do
    let tok ← nextTok
    let x ← parseFilterExpr env precLowest fuel
    match x.e with
    | .call name _ =>
      match env.func name with
      | some f => if f.ret = .value then failAt .type tok
      | none => pure ()
    | _ => pure ()
    if isLiteral x.e then failAt .syntax x.tok
    return .filter x.e

/-- a handler of `token_map` / `function_argument_map` applied to the stream -/
def parseByHandler (env : Env) (h : Handler) : Nat → P PExpr
  | 0 => outOfFuel
  | fuel + 1 =>
    match h with
    | .grouped => parseGrouped env fuel
    | .prefix => parsePrefix env fuel
    | .function => parseFunction env fuel
    | .rootQuery => do
      let t ← nextTok
      let segs ← parseQuery env true fuel []
      return ⟨.root segs, t⟩
    | .relQuery => do
      let t ← nextTok
      let segs ← parseQuery env true fuel []
      return ⟨.rel segs, t⟩
    | h => parseLiteral h

/-- `parse_filter_expression(stream, precedence)` -/
def parseFilterExpr (env : Env) (prec : Nat) : Nat → P PExpr
  | 0 => outOfFuel
  | fuel + 1 => do
    let c ← cur
    let left ← (match tokenMap c.kind with
      | none => failAt .syntax c
      | some h =>
        -- `except KeyError`: whatever raised it below, report `stream.current` as it is now
        tryCatch (parseByHandler env h fuel) (fun err =>
          if err.kind = .py "KeyError" then do failAt .syntax (← cur) else throw err))
    filterExprLoop env prec fuel left

/-- the `while True` loop of `parse_filter_expression` -/
def filterExprLoop (env : Env) (prec : Nat) : Nat → PExpr → P PExpr
  | 0, _ => outOfFuel
  | fuel + 1, left => do
    let pk := (← peekTok).kind
    if pk = .eof || pk = .rbracket || precedence pk < prec then return left
    if (binaryOp pk).isNone then return left
    let _ ← nextTok
    let left ← parseInfix env left fuel
    filterExprLoop env prec fuel left

/-- `parse_infix_expression(stream, left)` -/
def parseInfix (env : Env) (left : PExpr) : Nat → P PExpr
  | 0 => outOfFuel
  | fuel + 1 => do
    let tok ← nextTok
    let prec := precedence tok.kind
    let c ← cur
    if isComparisonTok tok.kind && (c.kind = .lparen || c.kind = .not) then failAt .syntax c
    let right ← parseFilterExpr env prec fuel
    match binaryOp tok.kind with
    | none => keyError
    | some (.cmp op) =>
      raiseForNonComparable env left tok
      raiseForNonComparable env right tok
      return ⟨.cmp op left.e right.e, tok⟩
    | some (.logical op) =>
      raiseForUncompared env left
      raiseForUncompared env right
      return ⟨.logical op left.e right.e, tok⟩

/-- `parse_prefix_expression(stream)` -/
def parsePrefix (env : Env) : Nat → P PExpr
  | 0 => outOfFuel
  | fuel + 1 => do
    let tok ← nextTok
    let c ← cur
    if c.kind = .not then failAt .syntax c
    let right ← parseFilterExpr env precPrefix fuel
    raiseForUncompared env right
    return ⟨.not right.e, tok⟩

/-- `parse_grouped_expression(stream)` -/
def parseGrouped (env : Env) : Nat → P PExpr
  | 0 => outOfFuel
  | fuel + 1 => do
    let _ ← nextTok
    let x ← parseFilterExpr env precLowest fuel
    let _ ← nextTok
    let x ← groupedLoop env fuel x
    expect .rparen
    raiseForUncompared env x
    if isComparisonTok (← peekTok).kind then failAt .syntax (← peekTok)
    return x

/-- `while stream.current.type_ != RPAREN` in `parse_grouped_expression` -/
def groupedLoop (env : Env) : Nat → PExpr → P PExpr
  | 0, _ => outOfFuel
  | fuel + 1, x => do
    let c ← cur
    if c.kind = .rparen then return x
    if c.kind = .eof then failAt .syntax c
    let x ← parseInfix env x fuel
    groupedLoop env fuel x

/-- `parse_function_extension(stream)` -/
def parseFunction (env : Env) : Nat → P PExpr
  | 0 => outOfFuel
  | fuel + 1 => do
    let tok ← nextTok
    let (args, parens) ← functionArgs env fuel [] []
    match env.func tok.value with
    | some f =>
      for idx in parens do
        match f.argTypes[idx]? with
        | some t => if t ≠ .logical then failAt .type tok
        | none => pure ()
    | none => pure ()
    validateSignature env tok args
    return ⟨.call tok.value args, tok⟩

/-- `while stream.current.type_ != RPAREN` in `parse_function_extension` -/
def functionArgs (env : Env) : Nat → List Expr → List Nat → P (List Expr × List Nat)
  | 0, _, _ => outOfFuel
  | fuel + 1, args, parens => do
    let c ← cur
    if c.kind = .rparen then return (args, parens)
    match functionArgumentMap c.kind with
    | none => failAt .syntax c
    | some h =>
      let parens := if c.kind = .lparen then parens ++ [args.length] else parens
      let x ← parseByHandler env h fuel
      let x ← functionArgInfix env fuel x
      if (← peekTok).kind ≠ .rparen then
        expectPeek .comma
        let _ ← nextTok
        expectPeekNot .rparen
      let _ ← nextTok
      functionArgs env fuel (args ++ [x.e]) parens

/-- `while peek_kind in BINARY_OPERATORS` in `parse_function_extension` -/
def functionArgInfix (env : Env) : Nat → PExpr → P PExpr
  | 0, _ => outOfFuel
  | fuel + 1, x => do
    if (binaryOp (← peekTok).kind).isNone then return x
    let _ ← nextTok
    let x ← parseInfix env x fuel
    functionArgInfix env fuel x

end

def parseFuel (ntoks : Nat) : Nat := 4 * ntoks + 16

/-- `Parser.parse(stream)` consumed by `tuple(...)` -/
def parseTop (env : Env) (fuel : Nat) : P Query := do
  expect .root
  let _ ← nextTok
  let segs ← parseQuery env false fuel []
  let c ← cur
  if c.kind ≠ .eof then failAt .syntax c
  return segs

/-- `JSONPathEnvironment.compile(query)` -/
def compile (env : Env) (query : Str) : Except Err Query :=
  match tokenize query with
  | .error e => .error e
  | .ok toks => ((parseTop env (parseFuel toks.length)).run.run (TStream.init toks)).1

end JPV.Impl
