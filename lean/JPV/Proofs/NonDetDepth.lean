import JPV.Impl.NonDet
import JPV.Proofs.NonDetEval
import JPV.Proofs.NonDetDepthAux
namespace JPV.Proofs
open JPV JPV.Impl

/-- Nondeterministic traversal applies the same limit as the deterministic one, for EVERY choice script:
on a value nested deeper than the limit the traversal ends in JSONPathRecursionError (whatever the
continuation does with the nodes it is handed, as long as it does not fail itself), and it never runs out
of the model's fuel. -/
theorem nd_visit_raises (max : Int) (root : Node) (s : ND.Script) (k : Node → ND.Script → ND.Out)
    (hk : ∀ n s', (k n s').err = none) (h1 : 1 ≤ max) (hd : max < (root.val.depth : Int)) :
    (ND.visit max root s k).err = some .recursion :=
  (NDd.visit_spec (mx := max) (k := k) (fun n s' => Or.inl (hk n s')) root s).2 h1 hd

/-- query level, `$..<selectors>` as the first segment: deeper than the limit ⇒ JSONPathRecursionError for every script -/
theorem nd_find_raises (env : Env) (sels : List Selector) (rest : List Segment) (v : Json) (s : ND.Script)
    (hff : Spec.filterFree (.desc sels :: rest) = true)
    (h1 : 1 ≤ env.maxDepth) (hd : env.maxDepth < (v.depth : Int)) :
    ND.find env (.desc sels :: rest) v s = .error .recursion := by
  simp only [Spec.filterFree, List.all_cons, Bool.and_eq_true] at hff
  have hk : NDd.KRec (fun m s' =>
      ND.runSels env v (fun m2 s2 => ND.runSegs env v rest m2 s2) sels m s') :=
    fun m s' => NDd.runSels_krec env v (NDd.runSegs_krec env v rest hff.2) sels hff.1 m s'
  have hv := (NDd.visit_spec hk ⟨[], v⟩ s).2 h1 hd
  have hrun : (ND.runSegs env v (.desc sels :: rest) ⟨[], v⟩ s).err = some .recursion := by
    simp only [ND.runSegs]
    exact hv
  simp only [ND.find, hrun]

end JPV.Proofs
