/-
`Spec.IRegexp` — RFC 9485 (I-Regexp): the grammar as a recogniser producing an
AST, and the matching semantics by Brzozowski derivatives (total, no
backtracking subtleties).  `.` matches any character except LF and CR (the
reading RFC 9535 §2.4.6/2.4.7 prescribes for match/search).  Unicode general
categories are a *parameter*: a subject string travels as characters paired with
their two-letter category, so no Unicode table lives in Lean.
-/
import JPV.Json
namespace JPV.Spec.IRe

inductive CCItem where
  | range (lo hi : Nat)
  | cat (neg : Bool) (prop : Str)
deriving Repr, Inhabited, DecidableEq

inductive Re where
  | never
  | eps
  | chr (c : Nat)
  | dot
  | cls (neg : Bool) (items : List CCItem)
  | cat (neg : Bool) (prop : Str)
  | seq (a b : Re)
  | alt (a b : Re)
  | rep (r : Re) (min : Nat) (max : Option Nat)
deriving Repr, Inhabited

/-! ### grammar -/

def isNormalChar (c : Char) : Bool :=
  let n := c.toNat
  n ≤ 0x27 || c = ',' || c = '-' || (0x2F ≤ n && n ≤ 0x3E) || (0x40 ≤ n && n ≤ 0x5A) ||
  (0x5E ≤ n && n ≤ 0x7A) || n ≥ 0x7E

/-- the character after `\` in a SingleCharEsc and what it denotes -/
def singleEsc (c : Char) : Option Nat :=
  let n := c.toNat
  if (0x28 ≤ n && n ≤ 0x2B) || c = '-' || c = '.' || c = '?' || (0x5B ≤ n && n ≤ 0x5E) || (0x7B ≤ n && n ≤ 0x7D) then some n
  else if c = 'n' then some 10
  else if c = 'r' then some 13
  else if c = 't' then some 9
  else none

def isCCchar (c : Char) : Bool :=
  let n := c.toNat
  n ≤ 0x2C || (0x2E ≤ n && n ≤ 0x5A) || n ≥ 0x5E

/-- IsCategory: a major class letter optionally followed by one of its minor letters -/
def validProp (p : Str) : Bool :=
  match p with
  | [m] => "LMNPZSC".toList.contains m
  | [m, s] =>
    (m = 'L' && "lmotu".toList.contains s) || (m = 'M' && "cen".toList.contains s) ||
    (m = 'N' && "dlo".toList.contains s) || (m = 'P' && "cdefios".toList.contains s) ||
    (m = 'Z' && "lps".toList.contains s) || (m = 'S' && "ckmo".toList.contains s) ||
    (m = 'C' && "cfno".toList.contains s)
  | _ => false

/-- `\p{..}` / `\P{..}` at the head of the input (the backslash already consumed? no: includes it) -/
def catEsc (inp : List Char) : Option ((Bool × Str) × List Char) :=
  match inp with
  | '\\' :: k :: '{' :: r =>
    if k = 'p' || k = 'P' then
      let p := r.takeWhile (· ≠ '}')
      match r.drop p.length with
      | '}' :: r2 => if validProp p then some ((k = 'P', p), r2) else none
      | _ => none
    else none
  | _ => none

/-- CCchar: a raw class character or a SingleCharEsc -/
def ccChar (inp : List Char) : Option (Nat × List Char) :=
  match inp with
  | '\\' :: c :: r => (singleEsc c).map (fun n => (n, r))
  | c :: r => if isCCchar c then some (c.toNat, r) else none
  | [] => none

/-- *CCE1 [ "-" ] "]" -/
def classItems : Nat → List Char → List CCItem → Option (List CCItem × List Char)
  | 0, _, _ => none
  | fuel + 1, inp, acc =>
    match inp with
    | ']' :: r => some (acc.reverse, r)
    | '-' :: ']' :: r => some ((CCItem.range 45 45 :: acc).reverse, r)
    | _ =>
      match catEsc inp with
      | some ((neg, p), r) => classItems fuel r (.cat neg p :: acc)
      | none =>
        match ccChar inp with
        | none => none
        | some (lo, r) =>
          match r with
          | '-' :: r2 =>
            -- a range needs a second CCchar; "-]" is handled above as the trailing hyphen
            match r2 with
            | ']' :: _ => classItems fuel r (.range lo lo :: acc)
            | _ =>
              match ccChar r2 with
              | some (hi, r3) => if lo ≤ hi then classItems fuel r3 (.range lo hi :: acc) else none
              | none => none
          | _ => classItems fuel r (.range lo lo :: acc)

/-- charClassExpr = "[" [ "^" ] ( "-" / CCE1 ) *CCE1 [ "-" ] "]"  (after the "[") -/
def classExpr (inp : List Char) : Option (Re × List Char) :=
  let (neg, r) := match inp with
    | '^' :: r => (true, r)
    | _ => (false, inp)
  match r with
  | ']' :: _ => none
  | '-' :: r2 =>
    (classItems (r2.length + 1) r2 [.range 45 45]).map (fun p => (.cls neg p.1, p.2))
  | _ => (classItems (r.length + 1) r []).map (fun p => (.cls neg p.1, p.2))

def digitsVal (ds : List Char) : Nat := ds.foldl (fun a c => a * 10 + (c.toNat - 48)) 0

/-- quantifier (optional) -/
def quantifier (inp : List Char) : Option ((Nat × Option Nat) × List Char) :=
  match inp with
  | '*' :: r => some ((0, none), r)
  | '+' :: r => some ((1, none), r)
  | '?' :: r => some ((0, some 1), r)
  | '{' :: r =>
    let a := r.takeWhile (fun c => '0' ≤ c && c ≤ '9')
    if a.isEmpty then none else
    match r.drop a.length with
    | '}' :: r2 => some ((digitsVal a, some (digitsVal a)), r2)
    | ',' :: r2 =>
      let b := r2.takeWhile (fun c => '0' ≤ c && c ≤ '9')
      match r2.drop b.length with
      | '}' :: r3 => if b.isEmpty then some ((digitsVal a, none), r3) else some ((digitsVal a, some (digitsVal b)), r3)
      | _ => none
    | _ => none
  | _ => none

mutual
/-- i-regexp = branch *( "|" branch ) -/
def parseAlt : Nat → List Char → Option (Re × List Char)
  | 0, _ => none
  | fuel + 1, inp =>
    match parseBranch fuel inp .eps with
    | none => none
    | some (b, r) =>
      match r with
      | '|' :: r2 => (parseAlt fuel r2).map (fun p => (.alt b p.1, p.2))
      | _ => some (b, r)
/-- branch = *piece ; piece = atom [ quantifier ] -/
def parseBranch : Nat → List Char → Re → Option (Re × List Char)
  | 0, _, _ => none
  | fuel + 1, inp, acc =>
    let atom : Option (Re × List Char) :=
      match inp with
      | '(' :: r =>
        match parseAlt fuel r with
        | some (e, ')' :: r2) => some (e, r2)
        | _ => none
      | '.' :: r => some (.dot, r)
      | '[' :: r => classExpr r
      | '\\' :: c :: r =>
        match catEsc inp with
        | some ((neg, p), r2) => some (.cat neg p, r2)
        | none => (singleEsc c).map (fun n => (.chr n, r))
      | c :: r => if isNormalChar c then some (.chr c.toNat, r) else none
      | [] => none
    match atom with
    | none =>
      -- no further piece: the branch ends here (the caller checks what follows)
      (match inp with
       | [] => some (acc, inp)
       | '|' :: _ => some (acc, inp)
       | ')' :: _ => some (acc, inp)
       | _ => none)
    | some (a, r) =>
      match quantifier r with
      | some ((lo, hi), r2) =>
        (match hi with
         | some h => if lo ≤ h then parseBranch fuel r2 (.seq acc (.rep a lo hi)) else none
         | none => parseBranch fuel r2 (.seq acc (.rep a lo hi)))
      | none =>
        (match r with
         | '{' :: _ => none
         | '*' :: _ => none
         | '+' :: _ => none
         | '?' :: _ => none
         | _ => parseBranch fuel r (.seq acc a))
end

/-- the whole pattern: `some ast` iff it is a valid I-Regexp -/
def parse (p : Str) : Option Re :=
  match parseAlt (2 * p.length + 2) p with
  | some (e, []) => some e
  | _ => none

/-! ### matching by derivatives -/

abbrev CChar := Char × Str  -- a character with its Unicode general category (two letters)

def propMatches (prop cat : Str) : Bool :=
  match prop with
  | [m] => cat.head? = some m
  | _ => prop = cat

def itemMatches (c : CChar) : CCItem → Bool
  | .range lo hi => lo ≤ c.1.toNat && c.1.toNat ≤ hi
  | .cat neg p => propMatches p c.2 != neg

def nullable : Re → Bool
  | .never => false
  | .eps => true
  | .chr _ | .dot | .cls _ _ | .cat _ _ => false
  | .seq a b => nullable a && nullable b
  | .alt a b => nullable a || nullable b
  | .rep r lo _ => lo = 0 || nullable r

def mkSeq (a b : Re) : Re :=
  match a, b with
  | .never, _ => .never
  | _, .never => .never
  | .eps, b => b
  | a, .eps => a
  | a, b => .seq a b

def mkAlt (a b : Re) : Re :=
  match a, b with
  | .never, b => b
  | a, .never => a
  | a, b => .alt a b

def deriv (c : CChar) : Re → Re
  | .never => .never
  | .eps => .never
  | .chr k => if c.1.toNat = k then .eps else .never
  | .dot => if c.1 = '\n' || c.1 = '\r' then .never else .eps
  | .cls neg items => if (items.any (itemMatches c)) != neg then .eps else .never
  | .cat neg p => if propMatches p c.2 != neg then .eps else .never
  | .seq a b =>
    if nullable a then mkAlt (mkSeq (deriv c a) b) (deriv c b) else mkSeq (deriv c a) b
  | .alt a b => mkAlt (deriv c a) (deriv c b)
  | .rep r lo hi =>
    match hi with
    | some 0 => .never
    | some (h + 1) => mkSeq (deriv c r) (.rep r (lo - 1) (some h))
    | none => mkSeq (deriv c r) (.rep r (lo - 1) none)

/-- the entire string is in the language -/
def fullMatch (r : Re) (s : List CChar) : Bool := nullable (s.foldl (fun r c => deriv c r) r)

/-- some prefix of `s` is in the language -/
def prefixMatch (r : Re) : List CChar → Bool
  | [] => nullable r
  | c :: cs => nullable r || prefixMatch (deriv c r) cs

/-- some substring is in the language -/
def searchMatch (r : Re) : List CChar → Bool
  | [] => nullable r
  | c :: cs => prefixMatch r (c :: cs) || searchMatch r cs

end JPV.Spec.IRe
