/-
`Proofs.Cf.LexPBrk` — `Cs.LexBrk` at an arbitrary filter depth `D`: the lexer inside brackets (single steps,
including `?` which enters a filter at depth `D + 1`), and the composable run predicate `FBL D`.
-/
import JPV.Proofs.Cf.LexPBasics
import JPV.Proofs.Cs.LexBrk
namespace JPV.Proofs.Cf
open JPV JPV.Impl JPV.Proofs.Rq

variable {D : Int} {l : Lexer} {pre rest : List Char} {toks : List Token} {br : List (Char × Nat)}

/-! ### single steps without leading blank space -/

theorem lexBracketed_dquote (h : FSt D l pre [] ('"' :: rest) toks br) :
    Impl.step .bracketed l = .ok (l.adv, some (.strStart '"' false)) := by
  have hp : l.peek = some '"' := by rw [h.peek]; rfl
  have hw := h.ws_none (by simp [isWs])
  simp [Impl.step, lexBracketed, hw, Lexer.next_eq, hp, goto, bind, Except.bind]

theorem lexBracketed_wild (h : FSt D l pre [] ('*' :: rest) toks br) :
    Impl.step .bracketed l = .ok (l.adv.emit .wild, some .bracketed) := by
  have hp : l.peek = some '*' := by rw [h.peek]; rfl
  have hw := h.ws_none (by simp [isWs])
  simp [Impl.step, lexBracketed, hw, Lexer.next_eq, hp, goto, bind, Except.bind]

theorem lexBracketed_comma (h : FSt D l pre [] (',' :: rest) toks br) :
    Impl.step .bracketed l = .ok (l.adv.emit .comma, some .bracketed) := by
  have hp : l.peek = some ',' := by rw [h.peek]; rfl
  have hw := h.ws_none (by simp [isWs])
  simp [Impl.step, lexBracketed, hw, Lexer.next_eq, hp, goto, bind, Except.bind]

theorem lexBracketed_colon (h : FSt D l pre [] (':' :: rest) toks br) :
    Impl.step .bracketed l = .ok (l.adv.emit .colon, some .bracketed) := by
  have hp : l.peek = some ':' := by rw [h.peek]; rfl
  have hw := h.ws_none (by simp [isWs])
  simp [Impl.step, lexBracketed, hw, Lexer.next_eq, hp, goto, bind, Except.bind]

/-- `?` inside brackets: a FILTER token, and the filter state one level deeper -/
theorem lexBracketed_filter (h : FSt D l pre [] ('?' :: rest) toks br) :
    ∃ l', Impl.step .bracketed l = .ok (l', some .filter) ∧
      FSt (D + 1) l' (pre ++ ['?']) [] rest (⟨.filter, ['?'], pre.length⟩ :: toks) br := by
  have hp : l.peek = some '?' := by rw [h.peek]; rfl
  have hw := h.ws_none (by simp [isWs])
  have h2 := (h.adv.emit .filter).setDepth (D + 1)
  have hfd : l.adv.filterDepth = D := h.adv.fd
  refine ⟨{ (l.adv.emit .filter) with filterDepth := D + 1 }, ?_, by simpa using h2⟩
  simp [Impl.step, lexBracketed, hw, Lexer.next_eq, hp, goto, bind, Except.bind, hfd]

theorem lexBracketed_minus {r : List Char} (h : FSt D l pre [] ('-' :: r) toks br)
    {k : Nat} (hre : reIndex ('-' :: r) = some k) (hk : k ≤ ('-' :: r).length) :
    ∃ l', Impl.step .bracketed l = .ok (l', some .bracketed) ∧
      FSt D l' (pre ++ ('-' :: r).take k) [] (('-' :: r).drop k) (⟨.index, ('-' :: r).take k, pre.length⟩ :: toks) br := by
  have hp : l.peek = some '-' := by rw [h.peek]; rfl
  have hw := h.ws_none (by simp [isWs])
  obtain ⟨l1, hb, h1⟩ := h.adv.backup
  obtain ⟨l2, hm, h2⟩ := h1.acceptMatch hre hk
  have h3 := h2.emit .index
  refine ⟨_, ?_, by simpa using h3⟩
  simp [Impl.step, lexBracketed, hw, Lexer.next_eq, hp, goto, bind, Except.bind, hb, hm]

/-- an INDEX token -/
theorem lexBracketed_int {c : Char} {r : List Char} (h : FSt D l pre [] (c :: r) toks br)
    (hc : isDigit c = true ∨ c = '-') {k : Nat} (hre : reIndex (c :: r) = some k) (hk : k ≤ (c :: r).length) :
    ∃ l', Impl.step .bracketed l = .ok (l', some .bracketed) ∧
      FSt D l' (pre ++ (c :: r).take k) [] ((c :: r).drop k) (⟨.index, (c :: r).take k, pre.length⟩ :: toks) br := by
  rcases hc with hd | rfl
  · exact lexBracketed_index h hd hre hk rfl rfl
  · exact lexBracketed_minus h hre hk


/-! ### views up to leading blank space -/

/-- the lexer (at depth `D`) is between tokens and its remaining input is `inp` up to leading blank space -/
def FStW (D : Int) (l : Lexer) (inp : List Char) (toks : List Token) (br : List (Char × Nat)) : Prop :=
  ∃ pre inp', FSt D l pre [] inp' toks br ∧ Spec.skipS inp' = Spec.skipS inp

theorem FStW.of_FSt {inp : List Char} (h : FSt D l pre [] inp toks br) : FStW D l inp toks br := ⟨pre, inp, h, rfl⟩

theorem FStW.congr {a b : List Char} (h : FStW D l a toks br) (e : Spec.skipS a = Spec.skipS b) :
    FStW D l b toks br := by
  obtain ⟨p, i, h1, h2⟩ := h
  exact ⟨p, i, h1, h2.trans e⟩

theorem FStW.step_bracketed {inp : List Char} (h : FStW D l inp toks br) :
    ∃ l1 pre', FSt D l1 pre' [] (Spec.skipS inp) toks br ∧ Impl.step .bracketed l = Impl.step .bracketed l1 := by
  obtain ⟨p, i, h1, h2⟩ := h
  obtain ⟨l1, pre', h3, h4⟩ := step_bracketed_ws h1
  exact ⟨l1, pre', h2 ▸ h3, h4⟩

theorem FStW.step_filter {inp : List Char} (h : FStW D l inp toks br) :
    ∃ l1 pre', FSt D l1 pre' [] (Spec.skipS inp) toks br ∧ Impl.step .filter l = Impl.step .filter l1 := by
  obtain ⟨p, i, h1, h2⟩ := h
  obtain ⟨l1, pre', h3, h4⟩ := step_filter_ws h1
  exact ⟨l1, pre', h2 ▸ h3, h4⟩

/-- at depth `D`: from the bracketed state viewing `inp`, the lexer comes back to the bracketed state
viewing `rest` (still at depth `D`), having emitted tokens `ts` with `P ts` -/
def FBL (D : Int) (inp : List Char) (P : List Token → Prop) (rest : List Char) : Prop :=
  ∀ (l : Lexer) (toks : List Token) (br : List (Char × Nat)), FStW D l inp toks br →
    ∃ l' ts, Reach .bracketed l .bracketed l' ∧ FStW D l' rest (ts.reverse ++ toks) br ∧ P ts

theorem FBL.seq {a b c : List Char} {P Q : List Token → Prop} (h1 : FBL D a P b) (h2 : FBL D b Q c) :
    FBL D a (fun ts => ∃ t1 t2, ts = t1 ++ t2 ∧ P t1 ∧ Q t2) c := by
  intro l toks br h
  obtain ⟨l1, t1, r1, s1, p1⟩ := h1 l toks br h
  obtain ⟨l2, t2, r2, s2, p2⟩ := h2 l1 _ br s1
  exact ⟨l2, t1 ++ t2, r1.trans r2, by simpa using s2, t1, t2, rfl, p1, p2⟩

theorem FBL.skip {a b : List Char} (e : Spec.skipS a = Spec.skipS b) : FBL D a (fun ts => ts = []) b := by
  intro l toks br h
  exact ⟨l, [], .refl, h.congr e, rfl⟩

theorem FBL.mono {a b : List Char} {P Q : List Token → Prop} (h : FBL D a P b) (hpq : ∀ ts, P ts → Q ts) :
    FBL D a Q b := by
  intro l toks br hs
  obtain ⟨l1, t1, r1, s1, p1⟩ := h l toks br hs
  exact ⟨l1, t1, r1, s1, hpq _ p1⟩

theorem FBL.congr_left {a a' b : List Char} {P : List Token → Prop} (h : FBL D a P b)
    (e : Spec.skipS a' = Spec.skipS a) : FBL D a' P b :=
  fun l toks br hs => h l toks br (hs.congr e)

theorem FBL.congr_right {a b b' : List Char} {P : List Token → Prop} (h : FBL D a P b)
    (e : Spec.skipS b = Spec.skipS b') : FBL D a P b' := by
  intro l toks br hs
  obtain ⟨l1, t1, r1, s1, p1⟩ := h l toks br hs
  exact ⟨l1, t1, r1, s1.congr e, p1⟩

/-! ### punctuation -/

theorem FBL_wild {inp r : List Char} (e : Spec.skipS inp = '*' :: r) :
    FBL D inp (fun ts => ∃ k, ts = [⟨.wild, ['*'], k⟩]) r := by
  intro l toks br h
  obtain ⟨l1, pre', h1, hs⟩ := h.step_bracketed
  rw [e] at h1
  have s1 := lexBracketed_wild h1
  have h2 := h1.adv.emit .wild
  exact ⟨_, [_], .one (hs.trans s1), .of_FSt (by simpa using h2), _, rfl⟩

theorem FBL_comma {inp r : List Char} (e : Spec.skipS inp = ',' :: r) :
    FBL D inp (fun ts => ∃ k, ts = [⟨.comma, [','], k⟩]) r := by
  intro l toks br h
  obtain ⟨l1, pre', h1, hs⟩ := h.step_bracketed
  rw [e] at h1
  have s1 := lexBracketed_comma h1
  have h2 := h1.adv.emit .comma
  exact ⟨_, [_], .one (hs.trans s1), .of_FSt (by simpa using h2), _, rfl⟩

theorem FBL_colon {inp r : List Char} (e : Spec.skipS inp = ':' :: r) :
    FBL D inp (fun ts => ∃ k, ts = [⟨.colon, [':'], k⟩]) r := by
  intro l toks br h
  obtain ⟨l1, pre', h1, hs⟩ := h.step_bracketed
  rw [e] at h1
  have s1 := lexBracketed_colon h1
  have h2 := h1.adv.emit .colon
  exact ⟨_, [_], .one (hs.trans s1), .of_FSt (by simpa using h2), _, rfl⟩

end JPV.Proofs.Cf
