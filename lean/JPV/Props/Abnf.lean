/-
C03 / C04 / C05 stated against the DECLARATIVE grammar.

`Props/C03.lean`, `C04.lean`, `C05.lean` are stated in terms of the executable recogniser
`Spec.parseQuery` (through `Spec.judge`).  `Spec/Abnf.lean` transcribes RFC 9535 Appendix A as a
derivation relation — one inductive per non-terminal, no lookahead, no fuel — and
`Proofs/AbnfEquiv.lean` proves that the recogniser decides it (`recogniser_valid_sound/_complete`,
`recogniser_accepts_sound/_complete`, `recogniser_invalid_iff`, `abnf_unambiguous`).  Composing the two
removes the recogniser from what has to be trusted: the statements below mention only
  * `Spec.Abnf.Query loose s c`  — "the ABNF derives the string `s`, with derivation `c`"
    (`loose = false`: to the letter; `loose = true`: blank space also allowed inside the brackets of a
    singular-query segment, the point RFC 9535's ABNF and prose disagree on, D28),
  * `Spec.cSegs` — the validity rules of RFC 9535 §2.4.3 / §2.1 on a derivation
    (first component: well-typed and in range; second: "only under the disputed reading"),
  * `Impl.compile` — the model of the implementation's compile().
-/
import JPV.Props.C03
import JPV.Props.C04
import JPV.Proofs.AbnfEquiv
namespace JPV.Props
open JPV

/-- **C03 against the ABNF.** Every string the ABNF derives to the letter, whose derivation the validity rules accept
(well-typed with the environment's functions, integers within its range), compiles — and to the derivation's query.
For every environment, every string: blanks wherever the grammar allows them, either quote style, every escape,
shorthand or bracket notation, every number spelling, non-ASCII shorthand names. -/
theorem C03_abnf (env : Impl.Env) (s : Str) (c : List Spec.CSegment)
    (hd : Spec.Abnf.Query false s c)
    (hv : Spec.cSegs (sigsOfEnv env) env.minIdx env.maxIdx c = (true, false)) :
    Impl.compile env s = .ok (Spec.abstractSegs c) := by
  obtain ⟨c', hp, hn⟩ := Proofs.recogniser_valid_complete s c hd
  have hv' : Spec.cSegs (sigsOfEnv env) env.minIdx env.maxIdx c' = (true, false) := by
    rw [Proofs.normSegs_cSegs _ _ _ hn]; exact hv
  have hj : Spec.judge (sigsOfEnv env) env.minIdx env.maxIdx s = (.valid, some c') := by
    simp [Spec.judge, hp, hv']
  rw [← Proofs.normSegs_abstractSegs hn]
  exact C03 env s c' hj

/-- ... and so does every string derivable under the loose reading whose derivation passes the validity rules
(under either reading of "singular query"). -/
theorem C03_abnf_loose (env : Impl.Env) (s : Str) (c : List Spec.CSegment)
    (hd : Spec.Abnf.Query true s c)
    (hv : (Spec.cSegs (sigsOfEnv env) env.minIdx env.maxIdx c).1 = true) :
    Impl.compile env s = .ok (Spec.abstractSegs c) := by
  obtain ⟨c', hp, hn⟩ := Proofs.recogniser_accepts_complete s c hd
  have hv' : (Spec.cSegs (sigsOfEnv env) env.minIdx env.maxIdx c').1 = true := by
    rw [Proofs.normSegs_cSegs _ _ _ hn]; exact hv
  rw [← Proofs.normSegs_abstractSegs hn]
  rcases hp with hp | hp
  · by_cases h2 : (Spec.cSegs (sigsOfEnv env) env.minIdx env.maxIdx c').2 = true
    · exact C03_disputed env s c' (by simp [Spec.judge, hp, hv', h2])
    · exact C03 env s c' (by simp [Spec.judge, hp, hv', h2])
  · exact C03_disputed env s c' (by simp [Spec.judge, hp, hv'])

/-- **C04 / C05 against the ABNF.** Whatever compile() accepts is derivable by the ABNF (loosely: to the letter except
possibly for blank space inside the brackets of singular-query segments, D28), the derivation passes the validity
rules, and the query built is the derivation's.  Contrapositive: a string with no such derivation — ungrammatical,
ill-typed, out of range, unknown function — is rejected. -/
theorem C04_abnf (env : Impl.Env) (s : Str) (q : Query) (h : Impl.compile env s = .ok q) :
    ∃ c, Spec.Abnf.Query true s c ∧
      (Spec.cSegs (sigsOfEnv env) env.minIdx env.maxIdx c).1 = true ∧ Spec.abstractSegs c = q := by
  obtain ⟨c, hj, hq⟩ := C05_sound env s q h
  refine ⟨c, ?_, ?_, hq⟩
  · cases hp : Spec.parseQuery s with
    | invalid => rcases hj with hj | hj <;> simp [Spec.judge, hp] at hj
    | valid c0 =>
      have : c0 = c := by
        rcases hj with hj | hj <;> simp only [Spec.judge, hp] at hj <;> exact Option.some.inj (congrArg Prod.snd hj)
      subst this
      exact Proofs.recogniser_accepts_sound s c0 (Or.inl hp)
    | disputed c0 =>
      have : c0 = c := by
        rcases hj with hj | hj <;> simp only [Spec.judge, hp] at hj <;> exact Option.some.inj (congrArg Prod.snd hj)
      subst this
      exact Proofs.recogniser_accepts_sound s c0 (Or.inr hp)
  · cases hp : Spec.parseQuery s with
    | invalid => rcases hj with hj | hj <;> simp [Spec.judge, hp] at hj
    | valid c0 =>
      rcases hj with hj | hj <;> simp only [Spec.judge, hp] at hj <;>
        (have hc : c0 = c := Option.some.inj (congrArg Prod.snd hj)
         subst hc
         have h1 := congrArg Prod.fst hj
         by_cases hb : (Spec.cSegs (sigsOfEnv env) env.minIdx env.maxIdx c0).1 = true
         · exact hb
         · simp [hb] at h1)
    | disputed c0 =>
      rcases hj with hj | hj <;> simp only [Spec.judge, hp] at hj <;>
        (have hc : c0 = c := Option.some.inj (congrArg Prod.snd hj)
         subst hc
         have h1 := congrArg Prod.fst hj
         by_cases hb : (Spec.cSegs (sigsOfEnv env) env.minIdx env.maxIdx c0).1 = true
         · exact hb
         · simp [hb] at h1)

/-- **The accepted language, exactly, in terms of the ABNF**: compile() returns `q` iff the ABNF (loosely) derives the
string with a derivation that passes the validity rules and abstracts to `q`. -/
theorem C05_abnf_iff (env : Impl.Env) (s : Str) (q : Query) :
    Impl.compile env s = .ok q ↔
      ∃ c, Spec.Abnf.Query true s c ∧
        (Spec.cSegs (sigsOfEnv env) env.minIdx env.maxIdx c).1 = true ∧ Spec.abstractSegs c = q := by
  constructor
  · exact C04_abnf env s q
  · rintro ⟨c, hd, hv, rfl⟩
    exact C03_abnf_loose env s c hd hv

/-- a string the ABNF does not derive (even loosely) is rejected -/
theorem C04_abnf_reject (env : Impl.Env) (s : Str) (h : ¬ ∃ c, Spec.Abnf.Query true s c) :
    ∃ e, Impl.compile env s = .error e := by
  cases hc : Impl.compile env s with
  | error e => exact ⟨e, rfl⟩
  | ok q =>
    obtain ⟨c, hd, _, _⟩ := C04_abnf env s q hc
    exact absurd ⟨c, hd⟩ h

private def tag : Spec.Verdict → Nat
  | .valid _ => 0
  | .invalid => 1
  | .disputed _ => 2

/-- the relation is not vacuous and not trivially false: concrete derivable and underivable strings (decided through
the proved equivalence with the recogniser) -/
example : (∃ c, Spec.Abnf.Query false "$ [ 'a\\u00e9' , \"b\" ]..[ 1 : : -2 , * ] .é[?@.x == 1 && !(@.y)]".toList c) ∧
    (¬ ∃ c, Spec.Abnf.Query true "$[?@.a == (@.b)]".toList c) ∧
    (∃ c, Spec.Abnf.Query true "$[?@[ 'a' ] == 1]".toList c) ∧ (¬ ∃ c, Spec.Abnf.Query false "$[?@[ 'a' ] == 1]".toList c) := by
  have t1 : tag (Spec.parseQuery "$ [ 'a\\u00e9' , \"b\" ]..[ 1 : : -2 , * ] .é[?@.x == 1 && !(@.y)]".toList) = 0 := by decide +kernel
  have t2 : tag (Spec.parseQuery "$[?@.a == (@.b)]".toList) = 1 := by decide +kernel
  have t3 : tag (Spec.parseQuery "$[?@[ 'a' ] == 1]".toList) = 2 := by decide +kernel
  refine ⟨?_, ?_, ?_, ?_⟩
  · cases hp : Spec.parseQuery "$ [ 'a\\u00e9' , \"b\" ]..[ 1 : : -2 , * ] .é[?@.x == 1 && !(@.y)]".toList with
    | valid c => exact ⟨c, Proofs.recogniser_valid_sound _ c hp⟩
    | invalid => rw [hp] at t1; cases t1
    | disputed c => rw [hp] at t1; cases t1
  · apply (Proofs.recogniser_invalid_iff _).1
    cases hp : Spec.parseQuery "$[?@.a == (@.b)]".toList with
    | invalid => rfl
    | valid c => rw [hp] at t2; cases t2
    | disputed c => rw [hp] at t2; cases t2
  · cases hp : Spec.parseQuery "$[?@[ 'a' ] == 1]".toList with
    | disputed c => exact ⟨c, Proofs.recogniser_accepts_sound _ c (Or.inr hp)⟩
    | invalid => rw [hp] at t3; cases t3
    | valid c => rw [hp] at t3; cases t3
  · rintro ⟨c, hc⟩
    obtain ⟨c', hp, _⟩ := Proofs.recogniser_valid_complete _ c hc
    rw [hp] at t3; cases t3

end JPV.Props
