/-
Unfolding equations and elementary facts for `Impl.G.ndVisit` (the nondeterministic descendant
traversal over a heap of containers that may refer to each other).
-/
import JPV.Impl.NdGraph
import JPV.Proofs.NonDetAux
namespace JPV.Proofs.NdG
open JPV JPV.Impl JPV.Impl.G

/-! ### unfolding equations -/

theorem loop_zero (h : NdHeap) (max : Int) (q : List (NdNode × Nat)) (s : ND.Script) (acc : List NdNode) :
    ndLoop h max 0 q s acc = (acc, some .fuel) := by
  rw [ndLoop]

theorem loop_nil (h : NdHeap) (max : Int) (fuel : Nat) (s : ND.Script) (acc : List NdNode) :
    ndLoop h max (fuel + 1) [] s acc = (acc, none) := by
  rw [ndLoop]

theorem loop_deep (h : NdHeap) (max : Int) (fuel : Nat) (node : NdNode) (depth : Nat)
    (q : List (NdNode × Nat)) (s : ND.Script) (acc : List NdNode)
    (hd : ndIsDeep max node.2 depth = true) :
    ndLoop h max (fuel + 1) ((node, depth) :: q) s acc = (acc, some .recursion) := by
  rw [ndLoop, if_pos hd]

theorem loop_false (h : NdHeap) (max : Int) (fuel : Nat) (node : NdNode) (depth : Nat)
    (q : List (NdNode × Nat)) (s : ND.Script) (acc : List NdNode)
    (hd : ndIsDeep max node.2 depth = false) (hc : (ND.coin s).1 = false) :
    ndLoop h max (fuel + 1) ((node, depth) :: q) s acc =
      ndLoop h max fuel (q ++ (ndKids h node (ND.coin s).2).1.map (fun c => (c, depth + 1)))
        (ndKids h node (ND.coin s).2).2 (acc ++ [node]) := by
  rw [ndLoop, if_neg (by rw [hd]; exact Bool.false_ne_true)]
  simp only [hc, Bool.false_eq_true, if_false]

theorem loop_true (h : NdHeap) (max : Int) (fuel : Nat) (node : NdNode) (depth : Nat)
    (q : List (NdNode × Nat)) (s : ND.Script) (acc : List NdNode)
    (hd : ndIsDeep max node.2 depth = false) (hc : (ND.coin s).1 = true) :
    ndLoop h max (fuel + 1) ((node, depth) :: q) s acc =
      match (ndVisitNow h max depth (ndKids h node (ND.coin s).2).1 q
          (ndKids h node (ND.coin s).2).2 (acc ++ [node])).2.2.2 with
      | some e => ((ndVisitNow h max depth (ndKids h node (ND.coin s).2).1 q
          (ndKids h node (ND.coin s).2).2 (acc ++ [node])).2.2.1, some e)
      | none =>
        ndLoop h max fuel
          (ndVisitNow h max depth (ndKids h node (ND.coin s).2).1 q
            (ndKids h node (ND.coin s).2).2 (acc ++ [node])).1
          (ndVisitNow h max depth (ndKids h node (ND.coin s).2).1 q
            (ndKids h node (ND.coin s).2).2 (acc ++ [node])).2.1
          (ndVisitNow h max depth (ndKids h node (ND.coin s).2).1 q
            (ndKids h node (ND.coin s).2).2 (acc ++ [node])).2.2.1 := by
  rw [ndLoop, if_neg (by rw [hd]; exact Bool.false_ne_true)]
  simp only [hc, if_true]
  rfl

/-- coin true, the children loop raised -/
theorem loop_true_err (h : NdHeap) (max : Int) (fuel : Nat) (node : NdNode) (depth : Nat)
    (q : List (NdNode × Nat)) (s : ND.Script) (acc : List NdNode)
    (hd : ndIsDeep max node.2 depth = false) (hc : (ND.coin s).1 = true)
    {q' : List (NdNode × Nat)} {s' : ND.Script} {acc' : List NdNode} {e : ErrKind}
    (hv : ndVisitNow h max depth (ndKids h node (ND.coin s).2).1 q
          (ndKids h node (ND.coin s).2).2 (acc ++ [node]) = (q', s', (acc', some e))) :
    ndLoop h max (fuel + 1) ((node, depth) :: q) s acc = (acc', some e) := by
  rw [loop_true h max fuel node depth q s acc hd hc, hv]

/-- coin true, the children loop completed -/
theorem loop_true_ok (h : NdHeap) (max : Int) (fuel : Nat) (node : NdNode) (depth : Nat)
    (q : List (NdNode × Nat)) (s : ND.Script) (acc : List NdNode)
    (hd : ndIsDeep max node.2 depth = false) (hc : (ND.coin s).1 = true)
    {q' : List (NdNode × Nat)} {s' : ND.Script} {acc' : List NdNode}
    (hv : ndVisitNow h max depth (ndKids h node (ND.coin s).2).1 q
          (ndKids h node (ND.coin s).2).2 (acc ++ [node]) = (q', s', (acc', none))) :
    ndLoop h max (fuel + 1) ((node, depth) :: q) s acc = ndLoop h max fuel q' s' acc' := by
  rw [loop_true h max fuel node depth q s acc hd hc, hv]

theorem now_nil (h : NdHeap) (max : Int) (depth : Nat) (q : List (NdNode × Nat)) (s : ND.Script)
    (acc : List NdNode) : ndVisitNow h max depth [] q s acc = (q, s, (acc, none)) := by
  rw [ndVisitNow]

theorem now_deep (h : NdHeap) (max : Int) (depth : Nat) (c : NdNode) (cs : List NdNode)
    (q : List (NdNode × Nat)) (s : ND.Script) (acc : List NdNode)
    (hd : ndIsDeep max c.2 (depth + 1) = true) :
    ndVisitNow h max depth (c :: cs) q s acc = (q, s, (acc, some .recursion)) := by
  rw [ndVisitNow, if_pos hd]

theorem now_cons (h : NdHeap) (max : Int) (depth : Nat) (c : NdNode) (cs : List NdNode)
    (q : List (NdNode × Nat)) (s : ND.Script) (acc : List NdNode)
    (hd : ndIsDeep max c.2 (depth + 1) = false) :
    ndVisitNow h max depth (c :: cs) q s acc =
      ndVisitNow h max depth cs
        (ND.mergeQ q ((ndKids h c s).1.map (fun g => (g, depth + 2))) (ndKids h c s).2).1
        (ND.mergeQ q ((ndKids h c s).1.map (fun g => (g, depth + 2))) (ndKids h c s).2).2
        (acc ++ [c]) := by
  rw [ndVisitNow, if_neg (by rw [hd]; exact Bool.false_ne_true)]

theorem visit_eq (h : NdHeap) (max : Int) (fuel root : Nat) (s : ND.Script) :
    ndVisit h max fuel root s =
      ndLoop h max fuel ((ndKids h ([], .ref root) s).1.map (fun c => (c, 1)))
        (ndKids h ([], .ref root) s).2 [([], .ref root)] := by
  rfl

/-! ### `_raise_for_depth` -/

theorem isDeep_scalar (max : Int) (d : Nat) : ndIsDeep max .scalar d = false := by
  simp [ndIsDeep, Child.isContainer]

theorem isDeep_ref (max : Int) (i d : Nat) : ndIsDeep max (.ref i) d = decide ((d : Int) ≥ max) := by
  simp [ndIsDeep, Child.isContainer]

theorem isDeep_ref_false {max : Int} {i d : Nat} (hd : ndIsDeep max (.ref i) d = false) : (d : Int) < max := by
  rw [isDeep_ref] at hd
  have := of_decide_eq_false hd
  omega

/-! ### children -/

/-- the children of a node according to the heap, in heap order -/
def kidsOf (h : NdHeap) (n : NdNode) : List NdNode :=
  match n.2 with
  | .scalar => []
  | .ref i => ndLocate n (h.kids i)

theorem kids_perm (h : NdHeap) (n : NdNode) (s : ND.Script) : ((ndKids h n s).1).Perm (kidsOf h n) := by
  obtain ⟨loc, c⟩ := n
  cases c with
  | scalar => exact .refl _
  | ref i =>
    simp only [ndKids, kidsOf]
    split
    · exact (NDp.shuffle_perm (h.kids i) s).map _
    · exact .refl _

theorem kidsOf_length (h : NdHeap) (B : Nat) (hB : ∀ i, (h.kids i).length ≤ B) (n : NdNode) :
    (kidsOf h n).length ≤ B := by
  obtain ⟨loc, c⟩ := n
  cases c with
  | scalar => simp [kidsOf]
  | ref i => simp only [kidsOf, ndLocate, List.length_map]; exact hB i

theorem kids_length (h : NdHeap) (B : Nat) (hB : ∀ i, (h.kids i).length ≤ B) (n : NdNode) (s : ND.Script) :
    (ndKids h n s).1.length ≤ B := by
  rw [(kids_perm h n s).length_eq]
  exact kidsOf_length h B hB n

theorem mem_kidsOf {h : NdHeap} {loc : Loc} {i : Nat} {key : Key} {ch : Child} (hm : (key, ch) ∈ h.kids i) :
    (loc ++ [key], ch) ∈ kidsOf h (loc, .ref i) := by
  simp only [kidsOf, ndLocate]
  exact List.mem_map.2 ⟨(key, ch), hm, rfl⟩

theorem mem_kids {h : NdHeap} {loc : Loc} {i : Nat} {key : Key} {ch : Child} (s : ND.Script)
    (hm : (key, ch) ∈ h.kids i) : (loc ++ [key], ch) ∈ (ndKids h (loc, .ref i) s).1 :=
  (kids_perm h _ s).mem_iff.2 (mem_kidsOf hm)

theorem mem_toHeap {h : NdHeap} {n c : Nat} {key : Key} :
    (key, c) ∈ h.toHeap.kids n ↔ (key, Child.ref c) ∈ h.kids n := by
  simp only [NdHeap.toHeap, List.mem_filterMap]
  constructor
  · rintro ⟨⟨k, ch⟩, hm, heq⟩
    cases ch with
    | scalar => cases heq
    | ref c' =>
      simp only [Option.some.injEq, Prod.mk.injEq] at heq
      obtain ⟨rfl, rfl⟩ := heq
      exact hm
  · intro hm
    exact ⟨(key, .ref c), hm, rfl⟩

end JPV.Proofs.NdG
