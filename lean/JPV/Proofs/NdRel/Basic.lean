/-
Membership lemmas for the list enumerators of `Spec.NonDet` (`picks`, `perms`, `product`) and
elementary facts about `Each`.
-/
import JPV.Spec.NonDetRel
namespace JPV.Proofs.NdRel
open JPV JPV.Spec JPV.Spec.ND

/-! ### picks -/

theorem mem_picks_iff {α} {x : α} {r : List α} :
    ∀ {xs : List α}, (x, r) ∈ picks xs ↔ ∃ a b, xs = a ++ x :: b ∧ r = a ++ b := by
  intro xs
  induction xs generalizing r with
  | nil =>
    simp only [picks, List.not_mem_nil, false_iff]
    rintro ⟨a, b, h, _⟩
    cases a <;> cases h
  | cons y ys ih =>
    simp only [picks, List.mem_cons, List.mem_map, Prod.mk.injEq]
    constructor
    · rintro (⟨rfl, rfl⟩ | ⟨p, hp, rfl, rfl⟩)
      · exact ⟨[], _, rfl, rfl⟩
      · obtain ⟨a, b, h1, h2⟩ := ih.1 hp
        exact ⟨y :: a, b, by rw [h1]; rfl, by rw [h2]; rfl⟩
    · rintro ⟨a, b, h1, h2⟩
      cases a with
      | nil =>
        simp only [List.nil_append, List.cons.injEq] at h1 h2
        exact Or.inl ⟨h1.1.symm, by rw [h2, h1.2]⟩
      | cons z a =>
        simp only [List.cons_append, List.cons.injEq] at h1 h2
        obtain ⟨rfl, h1⟩ := h1
        exact Or.inr ⟨(x, a ++ b), ih.2 ⟨a, b, h1, rfl⟩, rfl, h2.symm⟩

/-! ### perms -/

theorem permsAux_cons {α} (n : Nat) (x : α) (xs : List α) :
    permsAux (n + 1) (x :: xs) =
      (picks (x :: xs)).flatMap (fun p => (permsAux n p.2).map (fun r => p.1 :: r)) := by
  rw [permsAux]
  intro h; cases h

theorem mem_permsAux_iff {α} : ∀ (n : Nat) (xs l : List α), xs.length ≤ n →
    (l ∈ permsAux n xs ↔ l.Perm xs) := by
  intro n
  induction n with
  | zero =>
    intro xs l hl
    have hx : xs = [] := List.eq_nil_of_length_eq_zero (by omega)
    subst hx
    simp only [permsAux, List.mem_singleton]
    exact ⟨fun h => h ▸ .refl _, fun h => h.eq_nil⟩
  | succ n ih =>
    intro xs l hl
    cases xs with
    | nil =>
      simp only [permsAux, List.mem_singleton]
      exact ⟨fun h => h ▸ .refl _, fun h => h.eq_nil⟩
    | cons x xs =>
      rw [permsAux_cons]
      simp only [List.mem_flatMap, List.mem_map]
      constructor
      · rintro ⟨⟨y, r⟩, hp, l', hl', rfl⟩
        obtain ⟨a, b, h1, h2⟩ := mem_picks_iff.1 hp
        simp only at hl' h2 ⊢
        subst h2
        have hlen : (a ++ b).length ≤ n := by
          have := congrArg List.length h1
          simp only [List.length_append, List.length_cons] at this hl ⊢; omega
        have := (ih (a ++ b) l' hlen).1 hl'
        rw [h1]
        exact (this.cons y).trans List.perm_middle.symm
      · intro hp
        cases l with
        | nil => exact absurd hp.symm.eq_nil (by simp)
        | cons y l' =>
          have hy : y ∈ x :: xs := hp.subset List.mem_cons_self
          obtain ⟨a, b, hab⟩ := List.append_of_mem hy
          have hp' : l'.Perm (a ++ b) := by
            rw [hab] at hp
            exact (hp.trans List.perm_middle).cons_inv
          have hlen : (a ++ b).length ≤ n := by
            have := congrArg List.length hab
            simp only [List.length_append, List.length_cons] at this hl ⊢; omega
          exact ⟨(y, a ++ b), mem_picks_iff.2 ⟨a, b, hab, rfl⟩, l', (ih _ _ hlen).2 hp', rfl⟩

theorem mem_perms_iff {α} {xs l : List α} : l ∈ perms xs ↔ l.Perm xs :=
  mem_permsAux_iff _ _ _ (Nat.le_refl _)

/-! ### product -/

theorem mem_product_nil {α} {l : List α} : l ∈ product ([] : List (List (List α))) ↔ l = [] := by
  simp [product]

theorem mem_product_cons {α} {alts : List (List α)} {rest : List (List (List α))} {l : List α} :
    l ∈ product (alts :: rest) ↔ ∃ a, a ∈ alts ∧ ∃ r, r ∈ product rest ∧ l = a ++ r := by
  simp only [product, List.mem_flatMap, List.mem_map]
  constructor
  · rintro ⟨a, ha, r, hr, rfl⟩; exact ⟨a, ha, r, hr, rfl⟩
  · rintro ⟨a, ha, r, hr, rfl⟩; exact ⟨a, ha, r, hr, rfl⟩

/-! ### Each -/

theorem each_mono {P Q : Node → List Node → Prop} {ns out : List Node} (h : Each P ns out)
    (hpq : ∀ n, n ∈ ns → ∀ l, P n l → Q n l) : Each Q ns out := by
  induction h with
  | nil => exact .nil
  | cons hp _ ih =>
    exact .cons (hpq _ List.mem_cons_self _ hp)
      (ih (fun n hn l hl => hpq n (List.mem_cons_of_mem _ hn) l hl))

theorem mem_product_map_iff (f : Node → List (List Node)) :
    ∀ (ns out : List Node), out ∈ product (ns.map f) ↔ Each (fun n l => l ∈ f n) ns out := by
  intro ns
  induction ns with
  | nil =>
    intro out
    simp only [List.map_nil, mem_product_nil]
    constructor
    · rintro rfl; exact .nil
    · intro h; cases h; rfl
  | cons n ns ih =>
    intro out
    rw [List.map_cons, mem_product_cons]
    constructor
    · rintro ⟨a, ha, r, hr, rfl⟩
      exact .cons ha ((ih r).1 hr)
    · intro h
      cases h with
      | cons hp hr => exact ⟨_, hp, _, (ih _).2 hr, rfl⟩

/-- all nodes of the result satisfy `W` when each part does -/
theorem each_forall_mem {P : Node → List Node → Prop} {W : Node → Prop} {ns out : List Node}
    (h : Each P ns out) (hp : ∀ n, n ∈ ns → ∀ l, P n l → ∀ m ∈ l, W m) : ∀ m ∈ out, W m := by
  induction h with
  | nil => intro m hm; cases hm
  | cons hpl _ ih =>
    intro m hm
    rcases List.mem_append.1 hm with hm | hm
    · exact hp _ List.mem_cons_self _ hpl m hm
    · exact ih (fun n hn l hl => hp n (List.mem_cons_of_mem _ hn) l hl) m hm

end JPV.Proofs.NdRel
