#!/venv/bin/python
"""Evaluate one seeded change: apply /verif/seeded/<name>/patch.diff to /repo, confirm the pinned test
suite still passes and the demonstration fails, run the given checks, undo, confirm the demonstration passes.
Usage: eval_seeded.py <name> [--checks C01,C07] [--tier quick] [--wt <worktree>]
With --wt the change is evaluated in a scratch worktree of /repo (patch applied there, checks run with
JPV_REPO=<worktree>), so /repo itself is not touched (for use while a background run is reading /repo)."""
import json, os, subprocess, sys, time

VERIF = os.path.dirname(os.path.dirname(os.path.abspath(__file__)))


def sh(cmd, **kw):
    p = subprocess.run(cmd, shell=True, stdout=subprocess.PIPE, stderr=subprocess.STDOUT, **kw)
    return p.returncode, p.stdout.decode("utf8", "replace")


def in_worktree(name, d, meta, checks, tier, wt):
    result = {"ran_at": time.strftime("%Y-%m-%dT%H:%M:%SZ", time.gmtime()), "checks": {}, "where": "scratch worktree (JPV_REPO)"}
    sh(f"git -C {wt} checkout -- . && git -C {wt} clean -fdq -- jsonpath_rfc9535")
    head_wt = sh(f"git -C {wt} rev-parse HEAD")[1].strip()
    head_repo = sh("git -C /repo rev-parse HEAD")[1].strip()
    if head_wt != head_repo:
        print("refusing: worktree is not at /repo's HEAD"); return 2
    try:
        rc, out = sh(f"git -C {wt} apply {d}/patch.diff")
        if rc != 0:
            print("patch does not apply:", out); return 2
        rc, out = sh(f"cd {wt} && PYTHONPATH={wt} /venv/bin/python -m pytest -q -p no:cacheprovider --timeout=900 --continue-on-collection-errors 2>&1 | tail -1")
        result["tests_with_change"] = out.strip()
        rc, out = sh(f"cd {d} && PYTHONPATH={wt} /venv/bin/python demo.py 2>&1")
        result["demo_with_change"] = {"exit": rc, "tail": out.strip()[-300:]}
        for c in checks:
            t = time.time()
            rc, out = sh(f"cd {VERIF} && JPV_REPO={wt} VERIF_SEED=1 /venv/bin/python harness/run_check.py {c} --tier {tier} 2>&1", timeout=3600)
            lines = [l for l in out.splitlines() if l.startswith(("VIOLATION", "OK ", "INFRA", "  {", "  broken", "  mismatch"))]
            result["checks"][c] = {"exit": rc, "wall_s": round(time.time() - t, 1), "lines": [l[:400] for l in lines[:4]]}
    finally:
        sh(f"git -C {wt} checkout -- . && git -C {wt} clean -fdq -- jsonpath_rfc9535")
        sh(f"cd {VERIF} && git checkout -- evidence && git clean -fdq -- replays evidence")
        sh(f"cd {VERIF} && /venv/bin/python harness/gen_tables.py > /dev/null")
    rc, out = sh(f"cd {d} && PYTHONPATH={wt} /venv/bin/python demo.py 2>&1")
    result["demo_without_change"] = {"exit": rc, "tail": out.strip()[-200:]}
    meta["evaluation"] = result
    json.dump(meta, open(os.path.join(d, "meta.json"), "w"), indent=1)
    print(json.dumps(result, indent=1))
    return 0


def main():
    name = sys.argv[1]
    checks = None
    tier = "quick"
    for i, a in enumerate(sys.argv):
        if a == "--checks":
            checks = sys.argv[i + 1].split(",")
        if a == "--tier":
            tier = sys.argv[i + 1]
    wt = None
    for i, a in enumerate(sys.argv):
        if a == "--wt":
            wt = sys.argv[i + 1]
    d = os.path.join(VERIF, "seeded", name)
    meta = json.load(open(os.path.join(d, "meta.json")))
    checks = checks or [meta["property"]]
    if wt:
        return in_worktree(name, d, meta, checks, tier, wt)
    rc, out = sh("git -C /repo status --porcelain")
    if out.strip():
        print("refusing: /repo is not clean"); return 2
    result = {"ran_at": time.strftime("%Y-%m-%dT%H:%M:%SZ", time.gmtime()), "checks": {}}
    try:
        rc, out = sh(f"git -C /repo apply {d}/patch.diff")
        if rc != 0:
            print("patch does not apply:", out); return 2
        rc, out = sh("cd /repo && /venv/bin/python -m pytest -q -p no:cacheprovider --timeout=900 --continue-on-collection-errors 2>&1 | tail -1")
        result["tests_with_change"] = out.strip()
        rc, out = sh(f"cd {d} && PYTHONPATH=/repo /venv/bin/python demo.py 2>&1")
        result["demo_with_change"] = {"exit": rc, "tail": out.strip()[-300:]}
        for c in checks:
            t = time.time()
            rc, out = sh(f"cd {VERIF} && VERIF_SEED=1 /venv/bin/python harness/run_check.py {c} --tier {tier} 2>&1", timeout=3600)
            lines = [l for l in out.splitlines() if l.startswith("VIOLATION") or l.startswith("OK ") or l.startswith("INFRA") or l.startswith("  {") or l.startswith("  broken") or l.startswith("  mismatch")]
            result["checks"][c] = {"exit": rc, "wall_s": round(time.time() - t, 1), "lines": [l[:400] for l in lines[:4]]}
    finally:
        sh("git -C /repo checkout -- . && git -C /repo clean -fdq -- jsonpath_rfc9535")
        # evidence and replay files written while the change was applied describe the changed tree, not /repo
        sh(f"cd {VERIF} && git checkout -- evidence && git clean -fdq -- replays evidence")
    rc, out = sh(f"cd {d} && PYTHONPATH=/repo /venv/bin/python demo.py 2>&1")
    result["demo_without_change"] = {"exit": rc, "tail": out.strip()[-200:]}
    meta["evaluation"] = result
    json.dump(meta, open(os.path.join(d, "meta.json"), "w"), indent=1)
    print(json.dumps(result, indent=1))
    return 0


if __name__ == "__main__":
    sys.exit(main())
