import JPV.Tables.Common
namespace JPV.Tables
open JPV JPV.Impl

/-- `BINARY_OPERATORS` and `COMPARISON_OPERATORS` -/
theorem binary_operators_model :
    (match tableK Generated.binaryOperators with
     | some t => allKinds.all (fun k => (Impl.binaryOp k).map opText = lookupK k t)
     | none => false) = true := by decide +kernel

end JPV.Tables
