/-
`Proofs.Cf.LexGView` — views of the lexer between tokens inside a filter (filter state or, just after an
embedded query, segment state), the composable run predicate `FL`, and the bracket-level views that cover
both plain selectors (bracketed state, depth `D`) and filter selectors (filter / segment state, depth `D + 1`).
-/
import JPV.Proofs.Cf.LexFStr
import JPV.Proofs.Cf.LexFDefault
import JPV.Proofs.Cf.GramFollow
import JPV.Proofs.Cf.Shape
namespace JPV.Proofs.Cf
open JPV JPV.Impl JPV.Proofs.Rq

variable {D : Int} {s : LState} {l : Lexer} {inp rest : List Char} {toks : List Token} {br : List (Char × Nat)}

/-! ### the view inside a filter -/

/-- between two tokens of a filter expression at depth `D`: the lexer is in the filter state, or (just after
an embedded query) in the segment state; its remaining input is `inp` up to leading blank space -/
def FV (D : Int) (s : LState) (l : Lexer) (inp : List Char) (toks : List Token) (br : List (Char × Nat)) : Prop :=
  (s = .filter ∨ s = .segment) ∧ FStW D l inp toks br

theorem FV.congr {a b : List Char} (h : FV D s l a toks br) (e : Spec.skipS a = Spec.skipS b) :
    FV D s l b toks br := ⟨h.1, h.2.congr e⟩

theorem FV.of_filter {pre : List Char} (h : FSt D l pre [] inp toks br) : FV D .filter l inp toks br :=
  ⟨.inl rfl, .of_FSt h⟩

theorem FV.of_segment {pre : List Char} (h : FSt D l pre [] inp toks br) : FV D .segment l inp toks br :=
  ⟨.inr rfl, .of_FSt h⟩

/-- from either state the lexer reaches the filter state exactly at the next token, provided that token does
not continue a query -/
theorem FV.to_filter {c : Char} {r : List Char} (hD : D ≠ 0) (h : FV D s l inp toks br)
    (e : Spec.skipS inp = c :: r) (h1 : c ≠ '.') (h2 : c ≠ '[') :
    ∃ l0 l1 pre1, Reach s l .filter l0 ∧ Impl.step .filter l0 = Impl.step .filter l1 ∧
      FSt D l1 pre1 [] (c :: r) toks br := by
  obtain ⟨hs, hw⟩ := h
  have hc : isWs c = false := Cs.skipS_head inp c (by rw [e]; rfl)
  rcases hs with rfl | rfl
  · obtain ⟨l1, pre1, h1', e1⟩ := hw.step_filter
    rw [e] at h1'
    exact ⟨l, l1, pre1, .refl, e1, h1'⟩
  · obtain ⟨p, i, hst, hi⟩ := hw
    obtain ⟨l1, pre1, hst1, e1⟩ := step_segment_ws hst (by rw [hi, e]; simp)
    rw [hi, e] at hst1
    obtain ⟨l2, s2, hst2⟩ := lexSegment_other hst1 hD hc h1 h2
    exact ⟨l2, l2, pre1, .one (e1.trans s2), rfl, hst2⟩

/-- one call of the filter state function at the next token -/
theorem FV.run_step {c : Char} {r : List Char} (hD : D ≠ 0) (h : FV D s l inp toks br)
    (e : Spec.skipS inp = c :: r) (h1 : c ≠ '.') (h2 : c ≠ '[') {Q : Lexer → Prop} {sn : LState}
    (H : ∀ l1 pre1, FSt D l1 pre1 [] (c :: r) toks br → ∃ l', Impl.step .filter l1 = .ok (l', some sn) ∧ Q l') :
    ∃ l', Reach s l sn l' ∧ Q l' := by
  obtain ⟨l0, l1, pre1, r0, e1, hst⟩ := h.to_filter hD e h1 h2
  obtain ⟨l', s1, hq⟩ := H l1 pre1 hst
  exact ⟨l', r0.trans (.one (e1.trans s1)), hq⟩

/-- several calls starting in the filter state at the next token -/
theorem FV.run_reach {c : Char} {r : List Char} (hD : D ≠ 0) (h : FV D s l inp toks br)
    (e : Spec.skipS inp = c :: r) (h1 : c ≠ '.') (h2 : c ≠ '[') {Q : Lexer → Prop} {sn : LState}
    (H : ∀ l1 pre1, FSt D l1 pre1 [] (c :: r) toks br → ∃ l', Reach .filter l1 sn l' ∧ l' ≠ l1 ∧ Q l') :
    ∃ l', Reach s l sn l' ∧ Q l' := by
  obtain ⟨l0, l1, pre1, r0, e1, hst⟩ := h.to_filter hD e h1 h2
  obtain ⟨l', s1, hne, hq⟩ := H l1 pre1 hst
  cases s1 with
  | refl => exact absurd rfl hne
  | step hs hr => exact ⟨l', r0.trans (.step (e1.trans hs) hr), hq⟩

/-! ### composable runs inside a filter -/

/-- at depth `D`: from a token boundary viewing `inp` the lexer comes to a token boundary viewing `rest`, with
the same open brackets, having emitted tokens `ts` with `P ts` -/
def FL (D : Int) (inp : List Char) (P : List Token → Prop) (rest : List Char) : Prop :=
  ∀ (s : LState) (l : Lexer) (toks : List Token) (br : List (Char × Nat)), FV D s l inp toks br →
    ∃ s' l' ts, Reach s l s' l' ∧ FV D s' l' rest (ts.reverse ++ toks) br ∧ P ts

theorem FL.seq {a b c : List Char} {P Q : List Token → Prop} (h1 : FL D a P b) (h2 : FL D b Q c) :
    FL D a (fun ts => ∃ t1 t2, ts = t1 ++ t2 ∧ P t1 ∧ Q t2) c := by
  intro s l toks br h
  obtain ⟨s1, l1, t1, r1, v1, p1⟩ := h1 s l toks br h
  obtain ⟨s2, l2, t2, r2, v2, p2⟩ := h2 s1 l1 _ br v1
  exact ⟨s2, l2, t1 ++ t2, r1.trans r2, by simpa using v2, t1, t2, rfl, p1, p2⟩

theorem FL.mono {a b : List Char} {P Q : List Token → Prop} (h : FL D a P b) (hpq : ∀ ts, P ts → Q ts) :
    FL D a Q b := by
  intro s l toks br hs
  obtain ⟨s1, l1, t1, r1, v1, p1⟩ := h s l toks br hs
  exact ⟨s1, l1, t1, r1, v1, hpq _ p1⟩

theorem FL.congr_left {a a' b : List Char} {P : List Token → Prop} (h : FL D a P b)
    (e : Spec.skipS a' = Spec.skipS a) : FL D a' P b :=
  fun s l toks br hs => h s l toks br (hs.congr e)

theorem FL.congr_right {a b b' : List Char} {P : List Token → Prop} (h : FL D a P b)
    (e : Spec.skipS b = Spec.skipS b') : FL D a P b' := by
  intro s l toks br hs
  obtain ⟨s1, l1, t1, r1, v1, p1⟩ := h s l toks br hs
  exact ⟨s1, l1, t1, r1, v1.congr e, p1⟩

/-- the grammar's argument is always blank-skipped: present a run on `skipS a` as a run on `a` -/
theorem FL.of_skipS {a b : List Char} {P : List Token → Prop} (h : FL D (Spec.skipS a) P b) : FL D a P b :=
  h.congr_left (Cs.skipS_idem a).symm

/-- a single token emitted by one call of the filter state function -/
theorem FL_tok {c : Char} {r : List Char} {P : List Token → Prop} (hD : D ≠ 0)
    (e : Spec.skipS inp = c :: r) (h1 : c ≠ '.') (h2 : c ≠ '[')
    (H : ∀ l1 pre1 toks br, FSt D l1 pre1 [] (c :: r) toks br →
      ∃ l' pre' t, Impl.step .filter l1 = .ok (l', some .filter) ∧ FSt D l' pre' [] rest (t :: toks) br ∧ P [t]) :
    FL D inp P rest := by
  intro s l toks br h
  obtain ⟨l', r1, pre', t, hst, hp⟩ := h.run_step (sn := .filter) hD e h1 h2
    (Q := fun l' => ∃ pre' t, FSt D l' pre' [] rest (t :: toks) br ∧ P [t])
    (fun l1 pre1 h1' => by
      obtain ⟨l', pre', t, s1, hst, hp⟩ := H l1 pre1 toks br h1'
      exact ⟨l', s1, pre', t, hst, hp⟩)
  exact ⟨.filter, l', [t], r1, .of_filter (by simpa using hst), hp⟩

/-! ### runs under an open parenthesis (function arguments) -/

/-- `FL` with the innermost open bracket a parenthesis -/
def FLp (D : Int) (inp : List Char) (P : List Token → Prop) (rest : List Char) : Prop :=
  ∀ (s : LState) (l : Lexer) (toks : List Token) (i : Nat) (br : List (Char × Nat)),
    FV D s l inp toks (('(', i) :: br) →
    ∃ s' l' ts, Reach s l s' l' ∧ FV D s' l' rest (ts.reverse ++ toks) (('(', i) :: br) ∧ P ts

theorem FL.toP {a b : List Char} {P : List Token → Prop} (h : FL D a P b) : FLp D a P b :=
  fun s l toks i br hs => h s l toks _ hs

theorem FLp.seq {a b c : List Char} {P Q : List Token → Prop} (h1 : FLp D a P b) (h2 : FLp D b Q c) :
    FLp D a (fun ts => ∃ t1 t2, ts = t1 ++ t2 ∧ P t1 ∧ Q t2) c := by
  intro s l toks i br h
  obtain ⟨s1, l1, t1, r1, v1, p1⟩ := h1 s l toks i br h
  obtain ⟨s2, l2, t2, r2, v2, p2⟩ := h2 s1 l1 _ i br v1
  exact ⟨s2, l2, t1 ++ t2, r1.trans r2, by simpa using v2, t1, t2, rfl, p1, p2⟩

theorem FLp.mono {a b : List Char} {P Q : List Token → Prop} (h : FLp D a P b) (hpq : ∀ ts, P ts → Q ts) :
    FLp D a Q b := by
  intro s l toks i br hs
  obtain ⟨s1, l1, t1, r1, v1, p1⟩ := h s l toks i br hs
  exact ⟨s1, l1, t1, r1, v1, hpq _ p1⟩

theorem FLp.congr_left {a a' b : List Char} {P : List Token → Prop} (h : FLp D a P b)
    (e : Spec.skipS a' = Spec.skipS a) : FLp D a' P b :=
  fun s l toks i br hs => h s l toks i br (hs.congr e)

/-- the comma between two function arguments -/
theorem FLp_comma {r : List Char} (hD : D ≠ 0) (e : Spec.skipS inp = ',' :: r) :
    FLp D inp (fun ts => ∃ v k, ts = [⟨.comma, v, k⟩]) r := by
  intro s l toks i br h
  obtain ⟨l', r1, pre', k, hst⟩ := h.run_step (sn := .filter) hD e (by decide) (by decide)
    (Q := fun l' => ∃ pre' k, FSt D l' pre' [] r (⟨.comma, [','], k⟩ :: toks) (('(', i) :: br))
    (fun l1 pre1 h1' => by
      obtain ⟨l', s1, hst⟩ := lexFilter_comma_paren h1'
      exact ⟨l', s1, _, _, hst⟩)
  exact ⟨.filter, l', [_], r1, .of_filter (by simpa using hst), _, _, rfl⟩

/-! ### the bracket level: after a plain selector or after a filter selector -/

/-- between two selectors inside brackets at depth `D`: in the bracketed state, or (after a filter selector)
in the filter / segment state one level deeper -/
def BV (D : Int) (s : LState) (l : Lexer) (inp : List Char) (toks : List Token) (br : List (Char × Nat)) : Prop :=
  (s = .bracketed ∧ FStW D l inp toks br) ∨ FV (D + 1) s l inp toks br

theorem BV.congr {a b : List Char} (h : BV D s l a toks br) (e : Spec.skipS a = Spec.skipS b) :
    BV D s l b toks br := by
  rcases h with ⟨hs, hw⟩ | hv
  · exact .inl ⟨hs, hw.congr e⟩
  · exact .inr (hv.congr e)

/-- the comma between two selectors -/
theorem BV.comma {r : List Char} {i : Nat} (hD : 0 ≤ D) (h : BV D s l inp toks (('[', i) :: br))
    (e : Spec.skipS inp = ',' :: r) :
    ∃ l' k, Reach s l .bracketed l' ∧ FStW D l' r (⟨.comma, [','], k⟩ :: toks) (('[', i) :: br) := by
  rcases h with ⟨rfl, hw⟩ | hv
  · obtain ⟨l1, pre', h1, hs⟩ := hw.step_bracketed
    rw [e] at h1
    have s1 := lexBracketed_comma h1
    have h2 := h1.adv.emit .comma
    exact ⟨_, _, .one (hs.trans s1), .of_FSt (by simpa using h2)⟩
  · obtain ⟨l', r1, pre', k, hst⟩ := hv.run_step (sn := .bracketed) (by omega) e (by decide) (by decide)
      (Q := fun l' => ∃ pre' k, FSt D l' pre' [] r (⟨.comma, [','], k⟩ :: toks) (('[', i) :: br))
      (fun l1 pre1 h1' => by
        obtain ⟨l', s1, hst⟩ := lexFilter_comma_end' h1' (.inr ⟨'[', i, br, rfl, by decide⟩)
        rw [Int.add_sub_cancel] at hst
        exact ⟨l', s1, _, _, hst⟩)
    exact ⟨l', k, r1, .of_FSt hst⟩

/-- the closing bracket -/
theorem BV.close {r : List Char} {i : Nat} (hD : 0 ≤ D) (h : BV D s l inp toks (('[', i) :: br))
    (e : Spec.skipS inp = ']' :: r) :
    ∃ l' pre' k, Reach s l .segment l' ∧ FSt D l' pre' [] r (⟨.rbracket, [']'], k⟩ :: toks) br := by
  rcases h with ⟨rfl, hw⟩ | hv
  · obtain ⟨l1, pre', h1, hs⟩ := hw.step_bracketed
    rw [e] at h1
    have s1 := lexBracketed_rbracket h1
    have h2 := (h1.adv.popBracket).emit .rbracket
    exact ⟨_, _, _, .one (hs.trans s1), by simpa using h2⟩
  · obtain ⟨l', r1, pre', hst⟩ := hv.run_step (sn := .bracketed) (by omega) e (by decide) (by decide)
      (Q := fun l' => ∃ pre', FSt D l' pre' [] (']' :: r) toks (('[', i) :: br))
      (fun l1 pre1 h1' => by
        obtain ⟨l', s1, hst⟩ := lexFilter_rbracket h1'
        rw [Int.add_sub_cancel] at hst
        exact ⟨l', s1, _, hst⟩)
    have s2 := lexBracketed_rbracket hst
    have h2 := (hst.adv.popBracket).emit .rbracket
    exact ⟨_, _, _, r1.trans (.one s2), by simpa using h2⟩

/-- one selector, lexed from the bracketed state -/
def SL (D : Int) (inp : List Char) (P : List Token → Prop) (rest : List Char) : Prop :=
  ∀ (l : Lexer) (toks : List Token) (br : List (Char × Nat)), FStW D l inp toks br →
    ∃ s' l' ts, Reach .bracketed l s' l' ∧ BV D s' l' rest (ts.reverse ++ toks) br ∧ P ts

theorem SL.congr_left {a a' b : List Char} {P : List Token → Prop} (h : SL D a P b)
    (e : Spec.skipS a' = Spec.skipS a) : SL D a' P b :=
  fun l toks br hs => h l toks br (hs.congr e)

theorem SL.of_FBL {a b : List Char} {P : List Token → Prop} (h : FBL D a P b) : SL D a P b := by
  intro l toks br hs
  obtain ⟨l', ts, r1, hw, hp⟩ := h l toks br hs
  exact ⟨.bracketed, l', ts, r1, .inl ⟨rfl, hw⟩, hp⟩

/-- the selectors after the first one, lexed from after a selector to after the last selector -/
def ML (D : Int) (inp : List Char) (P : List Token → Prop) (rest : List Char) : Prop :=
  ∀ (s : LState) (l : Lexer) (toks : List Token) (i : Nat) (br : List (Char × Nat)),
    BV D s l inp toks (('[', i) :: br) →
    ∃ s' l' ts, Reach s l s' l' ∧ BV D s' l' rest (ts.reverse ++ toks) (('[', i) :: br) ∧ P ts

end JPV.Proofs.Cf
