/-
`Proofs.Sv.LexExpr` (copy of `Sf.LexExpr` for the relations of `Sv.Shape` and the judgements of `Sv.Judge`) — LEXER INVERSION, the induction steps for filter expressions (terms, basic
expressions, conjunctions, disjunctions, function arguments).
-/
import JPV.Proofs.Sf.LexExpr
import JPV.Proofs.Sv.LexDefs
set_option linter.unusedSimpArgs false
set_option linter.unusedVariables false
namespace JPV.Proofs.Sv
open JPV JPV.Impl JPV.Proofs.Rq JPV.Proofs.Cs JPV.Proofs.Ss JPV.Proofs.Sf

variable [SigC]

variable {lf : Lexer} {n : Nat}

/-! ### small facts about the shapes -/

theorem MoreArgsD.head {as : List Expr} {bs : List Bool} {ts : List Token} (h : MoreArgsD as bs ts) (rp : Token)
    (rest : List Token) (hrp : rp.kind = .rparen) :
    ∃ y ys, ts ++ rp :: rest = y :: ys ∧ (y.kind = .comma ∨ y.kind = .rparen) := by
  cases h with
  | nil => exact ⟨rp, rest, rfl, .inr hrp⟩
  | cons c a as bs t1 t2 hc _ _ => exact ⟨c, _, rfl, .inl hc⟩

theorem MoreSelsD.head {ss : List Selector} {ts : List Token} (h : MoreSelsD ss ts) (rb : Token)
    (rest : List Token) (hrb : rb.kind = .rbracket) :
    ∃ y ys, ts ++ rb :: rest = y :: ys ∧ (y.kind = .comma ∨ y.kind = .rbracket) := by
  cases h with
  | nil => exact ⟨rb, rest, rfl, .inr hrb⟩
  | cons c s ss t1 t2 hc _ _ => exact ⟨c, _, rfl, .inl hc⟩

/-! ### terms -/

theorem pTerm_step (hg : ¬ Bad lf) (hS : PSegs lf n) (hA : PArg lf n) (hM : PMoreArgs lf n) :
    PTerm lf (n + 1) := by
  intro e ts hD hlen d br x nxt out hd hcfg hfol
  cases hD with
  | lit t v hv =>
    obtain ⟨rest, hf, hc'⟩ := FCfg.next_plain hg hcfg (litVal_plain hv)
    obtain ⟨rest2, hf2⟩ := hc'.fol hg hfol
    have hfc : FolC rest := fol_T hf2 hfol
    obtain ⟨hl, hlen', ⟨c, t', e, n1, n2, n3, n4⟩, hnc⟩ :=
      fTok_lit (n := t.index) hf (by rw [litVal_eta]; exact hv)
    exact ⟨rest, HTerm.lit hl hlen' (head_ne_of e n3) (head_ne_of e n4) (hnc hfc), hc', c, t', e, n1, n2⟩
  | rel t q ts' hk hq =>
    obtain ⟨rest, hf, hc'⟩ := FCfg.next_query hg hcfg (.inr hk)
    rw [hk] at hf
    have hx : Spec.skipS x = '@' :: rest := fTok_punct hf rfl
    obtain ⟨rest2, hs, hc2⟩ := hS q ts' hq (by simp at hlen; omega) d br rest nxt out hd hc' hfol
    rw [hx]
    exact ⟨rest2, HTerm.rel hs, hc2, '@', rest, rfl, by decide, by decide⟩
  | root t q ts' hk hq =>
    obtain ⟨rest, hf, hc'⟩ := FCfg.next_query hg hcfg (.inl hk)
    rw [hk] at hf
    have hx : Spec.skipS x = '$' :: rest := fTok_punct hf rfl
    obtain ⟨rest2, hs, hc2⟩ := hS q ts' hq (by simp at hlen; omega) d br rest nxt out hd hc' hfol
    rw [hx]
    exact ⟨rest2, HTerm.root hs, hc2, '$', rest, rfl, by decide, by decide⟩
  | call t rp args bs ts' hk hrp hargs hok =>
    have hcfg' : FCfg lf d br x (t :: (ts' ++ rp :: nxt :: out)) := by simpa using hcfg
    obtain ⟨rest, i, hf, hc'⟩ := FCfg.next_open hg hcfg' (.inr hk)
    rw [hk] at hf
    obtain ⟨hfn, -, c, t', e, n1, n2, -, -⟩ := fTok_function hf
    cases hargs with
    | nil =>
      obtain ⟨rest2, hr, hc2⟩ := FCfg.next_rparen hg (by simpa using hc') hrp
      exact ⟨rest2, HTerm.call0 hfn hr, hc2, c, t', e, n1, n2⟩
    | cons a as bs' t1 t2 ha hm =>
      obtain ⟨y, ys, ey, hy⟩ := hm.head rp (nxt :: out) hrp
      have hc1 : FCfg lf d (('(', i) :: br) rest (t1 ++ y :: ys) := by
        rw [← ey]; simpa using hc'
      have hl1 : t1.length < n := by simp at hlen; omega
      have hl2 : t2.length < n := by simp at hlen; omega
      obtain ⟨r2, hA', hc2⟩ := hA a t1 ha hl1 d _ rest y ys hd hc1 hy
      rw [← ey] at hc2
      obtain ⟨r3, rest3, hM', hr3, hc3⟩ := hM as bs' t2 hm hl2 d i br r2 rp (nxt :: out) hd hc2 hrp
      exact ⟨rest3, HTerm.call hfn hA' hM' hr3 hok, hc3, c, t', e, n1, n2⟩

/-! ### basic expressions -/

theorem pBasic_step (hg : ¬ Bad lf) (hT1 : PTerm lf (n + 1)) (hT : PTerm lf n) (hO : POr lf n) :
    PBasic lf (n + 1) := by
  intro e ts hD hlen d br x nxt out hd hcfg hfol
  cases hD with
  | paren lp rp e ts' hlp hrp hor =>
    have hcfg' : FCfg lf d br x (lp :: (ts' ++ rp :: nxt :: out)) := by simpa using hcfg
    obtain ⟨rest, i, hf, hc'⟩ := FCfg.next_open hg hcfg' (.inl hlp)
    rw [hlp] at hf
    have hx : Spec.skipS x = '(' :: rest := fTok_punct hf rfl
    obtain ⟨r2, hO', hc2⟩ := hO e ts' hor (by simp at hlen; omega) d _ rest rp (nxt :: out) hd hc'
      (by rw [hrp]; rfl)
    obtain ⟨rest3, hr, hc3⟩ := FCfg.next_rparen hg hc2 hrp
    rw [hx]
    exact ⟨rest3, HBasic.paren hO' hr, hc3⟩
  | notParen nt lp rp e ts' hn hlp hrp hor =>
    have hcfg' : FCfg lf d br x (nt :: lp :: (ts' ++ rp :: nxt :: out)) := by simpa using hcfg
    obtain ⟨rest, hf, hc'⟩ := FCfg.next_plain hg hcfg' (by rw [hn]; decide)
    obtain ⟨hx, hb⟩ := fTok_op1 (c0 := '!') hf (.inl ⟨hn, rfl⟩)
    obtain ⟨rest', i, hf', hc1⟩ := FCfg.next_open hg hc' (.inl hlp)
    rw [hlp] at hf'
    have hp : Spec.skipS rest = '(' :: rest' := fTok_punct hf' rfl
    obtain ⟨r2, hO', hc2⟩ := hO e ts' hor (by simp at hlen; omega) d _ rest' rp (nxt :: out) hd hc1
      (by rw [hrp]; rfl)
    obtain ⟨rest3, hr, hc3⟩ := FCfg.next_rparen hg hc2 hrp
    rw [hx]
    exact ⟨rest3, HBasic.notParen hb hp hO' hr, hc3⟩
  | notTerm nt e ts' hn hterm hlit =>
    have hcfg' : FCfg lf d br x (nt :: (ts' ++ nxt :: out)) := by simpa using hcfg
    obtain ⟨rest, hf, hc'⟩ := FCfg.next_plain hg hcfg' (by rw [hn]; decide)
    obtain ⟨hx, hb⟩ := fTok_op1 (c0 := '!') hf (.inl ⟨hn, rfl⟩)
    obtain ⟨rest2, hT', hc2, c, t', e', n1, n2⟩ := hT e ts' hterm (by simp at hlen; omega) d br rest nxt out
      hd hc' (folB_T hfol)
    rw [hx]
    exact ⟨rest2, HBasic.notTerm hb hT' hlit (head_ne_of e' n2), hc2⟩
  | test e ts hterm hlit =>
    obtain ⟨rest, hT', hc2, c, t', e', n1, n2⟩ := hT1 e ts hterm hlen d br x nxt out hd hcfg (folB_T hfol)
    obtain ⟨rest2, hf2⟩ := hc2.fol hg (folB_T hfol)
    exact ⟨rest, HBasic.test hT' hlit (fol_B hf2 hfol) (head_ne_of e' n1) (head_ne_of e' n2), hc2⟩
  | cmp o op l r tl tr hop hl hr =>
    have hcfg' : FCfg lf d br x (tl ++ o :: (tr ++ nxt :: out)) := by simpa using hcfg
    obtain ⟨r1, hL, hc1, c, t', e', n1, n2⟩ := hT l tl hl (by simp at hlen; omega) d br x o _ hd hcfg'
      (folT_of_cmp hop)
    obtain ⟨r2, hf, hc2⟩ := FCfg.next_plain hg hc1 (cmp_plain hop).1
    have hcmp := fTok_cmp hf hop
    obtain ⟨rest, hR, hc3, -⟩ := hT r tr hr (by simp at hlen; omega) d br r2 nxt out hd hc2 (folB_T hfol)
    exact ⟨rest, HBasic.cmp hL hcmp hR (head_ne_of e' n1) (head_ne_of e' n2), hc3⟩

/-! ### conjunctions and disjunctions -/

theorem pAnd_step (hg : ¬ Bad lf) (hB1 : PBasic lf (n + 1)) (hB : PBasic lf n) (hA : PAnd lf n) :
    PAnd lf (n + 1) := by
  intro e ts hD hlen d br x nxt out hd hcfg hfol
  cases hD with
  | one e ts hb =>
    obtain ⟨rest, hB', hc⟩ := hB1 e ts hb hlen d br x nxt out hd hcfg (folA_B hfol)
    obtain ⟨rest2, hf2⟩ := hc.fol hg (folB_T (folA_B hfol))
    exact ⟨rest, HAnd.one hB' (fol_A hf2 hfol), hc⟩
  | and o l r tl tr ho hl hr =>
    have hcfg' : FCfg lf d br x (tl ++ o :: (tr ++ nxt :: out)) := by simpa using hcfg
    obtain ⟨r1, hL, hc1⟩ := hB l tl hl (by simp at hlen; omega) d br x o _ hd hcfg' (by rw [ho]; rfl)
    obtain ⟨r2, hf, hc2⟩ := FCfg.next_plain hg hc1 (by rw [ho]; decide)
    rw [ho] at hf
    have hx : Spec.skipS r1 = '&' :: '&' :: r2 := fTok_punct hf rfl
    obtain ⟨rest, hR, hc3⟩ := hA r tr hr (by simp at hlen; omega) d br r2 nxt out hd hc2 hfol
    exact ⟨rest, HAnd.and hL hx hR, hc3⟩

theorem pOr_step (hg : ¬ Bad lf) (hA1 : PAnd lf (n + 1)) (hA : PAnd lf n) (hO : POr lf n) :
    POr lf (n + 1) := by
  intro e ts hD hlen d br x nxt out hd hcfg hfol
  cases hD with
  | one e ts ha =>
    obtain ⟨rest, hA', hc⟩ := hA1 e ts ha hlen d br x nxt out hd hcfg (folO_A hfol)
    obtain ⟨rest2, hf2⟩ := hc.fol hg (folB_T (folA_B (folO_A hfol)))
    exact ⟨rest, HOr.one hA' (fol_O hf2 hfol), hc⟩
  | or o l r tl tr ho hl hr =>
    have hcfg' : FCfg lf d br x (tl ++ o :: (tr ++ nxt :: out)) := by simpa using hcfg
    obtain ⟨r1, hL, hc1⟩ := hA l tl hl (by simp at hlen; omega) d br x o _ hd hcfg' (by rw [ho]; rfl)
    obtain ⟨r2, hf, hc2⟩ := FCfg.next_plain hg hc1 (by rw [ho]; decide)
    rw [ho] at hf
    have hx : Spec.skipS r1 = '|' :: '|' :: r2 := fTok_punct hf rfl
    obtain ⟨rest, hR, hc3⟩ := hO r tr hr (by simp at hlen; omega) d br r2 nxt out hd hc2 hfol
    exact ⟨rest, HOr.or hL hx hR, hc3⟩

/-! ### the first token of an expression -/

theorem TermD.first {e : Expr} {ts : List Token} (h : TermD e ts) :
    (∃ t v, ts = [t] ∧ e = .lit v ∧ litVal t = some v) ∨
    ∃ t0 ts', ts = t0 :: ts' ∧ (t0.kind = .current ∨ t0.kind = .root ∨ t0.kind = .function) := by
  cases h with
  | lit t v hv => exact .inl ⟨t, v, rfl, rfl, hv⟩
  | rel t q ts' hk _ => exact .inr ⟨t, ts', rfl, .inl hk⟩
  | root t q ts' hk _ => exact .inr ⟨t, ts', rfl, .inr (.inl hk)⟩
  | call t rp args bs ts' hk _ _ _ => exact .inr ⟨t, _, rfl, .inr (.inr hk)⟩

theorem BasicD.first {e : Expr} {ts : List Token} (h : BasicD e ts) : FirstOK ts := by
  cases h with
  | paren lp rp e ts' hlp _ _ => exact ⟨lp, _, rfl, .inl (.inr (.inr (.inr (.inl hlp))))⟩
  | notParen nt lp rp e ts' hn _ _ _ => exact ⟨nt, _, rfl, .inl (.inr (.inr (.inr (.inr hn))))⟩
  | notTerm nt e ts' hn _ _ => exact ⟨nt, _, rfl, .inl (.inr (.inr (.inr (.inr hn))))⟩
  | test e ts ht hl =>
    rcases ht.first with ⟨t, v, -, rfl, -⟩ | ⟨t0, ts', rfl, hk⟩
    · simp [isLiteral] at hl
    · refine ⟨t0, ts', rfl, .inl ?_⟩
      rcases hk with hk | hk | hk
      · exact .inl hk
      · exact .inr (.inl hk)
      · exact .inr (.inr (.inl hk))
  | cmp o op l r tl tr hop hl hr =>
    rcases hl.first with ⟨t, v, rfl, -, hv⟩ | ⟨t0, ts', rfl, hk⟩
    · exact ⟨t, o :: tr, rfl, .inr ⟨⟨v, hv⟩, o, op, tr, rfl, hop⟩⟩
    · refine ⟨t0, ts' ++ o :: tr, rfl, .inl ?_⟩
      rcases hk with hk | hk | hk
      · exact .inl hk
      · exact .inr (.inl hk)
      · exact .inr (.inr (.inl hk))

theorem AndD.first {e : Expr} {ts : List Token} (h : AndD e ts) : FirstOK ts := by
  cases h with
  | one e ts hb => exact hb.first
  | and o l r tl tr _ hl _ => exact hl.first.append _

theorem OrD.first {e : Expr} {ts : List Token} (h : OrD e ts) : FirstOK ts := by
  cases h with
  | one e ts ha => exact ha.first
  | or o l r tl tr _ hl _ => exact hl.first.append _

omit [SigC] in
/-- an argument whose text begins with a left parenthesis begins with an LPAREN token -/
theorem first_lparen (hg : ¬ Bad lf) {d : Int} {br : List (Char × Nat)} {x : List Char} {ts more : List Token}
    (hf : FirstOK ts) (hcfg : FCfg lf d br x (ts ++ more)) :
    (Spec.skipS x).head? = some '(' → startsLp ts = true := by
  intro hh
  obtain ⟨t0, ts', rfl, h⟩ := hf
  have hcfg' : FCfg lf d br x (t0 :: (ts' ++ more)) := by simpa using hcfg
  rcases h with hk | ⟨⟨v0, hv0⟩, -⟩
  · rcases hk with hk | hk | hk | hk | hk
    · exfalso
      obtain ⟨rest, hf, -⟩ := FCfg.next_query hg hcfg' (.inr hk)
      rw [hk] at hf
      rw [fTok_punct hf rfl] at hh
      simp at hh
    · exfalso
      obtain ⟨rest, hf, -⟩ := FCfg.next_query hg hcfg' (.inl hk)
      rw [hk] at hf
      rw [fTok_punct hf rfl] at hh
      simp at hh
    · exfalso
      obtain ⟨rest, i, hf, -⟩ := FCfg.next_open hg hcfg' (.inr hk)
      rw [hk] at hf
      obtain ⟨-, -, c, t', e, n1, n2, -, -⟩ := fTok_function hf
      rw [e] at hh
      simp only [List.head?_cons, Option.some.injEq] at hh
      exact n2 hh
    · simp [startsLp, hk]
    · exfalso
      obtain ⟨rest, hf, -⟩ := FCfg.next_plain hg hcfg' (by rw [hk]; decide)
      rw [(fTok_op1 (c0 := '!') hf (.inl ⟨hk, rfl⟩)).1] at hh
      simp at hh
  · exfalso
    obtain ⟨rest, hf, hc'⟩ := FCfg.next_plain hg hcfg' (litVal_plain hv0)
    obtain ⟨-, -, ⟨c, t', e, n1, n2, -, -⟩, -⟩ := fTok_lit (n := t0.index) hf (by rw [litVal_eta]; exact hv0)
    rw [e] at hh
    simp only [List.head?_cons, Option.some.injEq] at hh
    exact n2 hh

/-! ### function arguments -/

theorem pArg_step (hg : ¬ Bad lf) (hO1 : POr lf (n + 1)) : PArg lf (n + 1) := by
  intro a ts hD hlen d br x nxt out hd hcfg hk
  have hfolO := folO_of_arg hk
  have hfolT := folB_T (folA_B (folO_A hfolO))
  cases hD with
  | lit t v hv =>
    obtain ⟨rest, hf, hc'⟩ := FCfg.next_plain hg hcfg (litVal_plain hv)
    obtain ⟨hl, hlen', -, -⟩ := fTok_lit (n := t.index) hf (by rw [litVal_eta]; exact hv)
    obtain ⟨rest2, hf2⟩ := hc'.fol hg hfolT
    refine ⟨rest, HArg.lit hl hlen' ?_ _, hc'⟩
    rcases hk with hk | hk
    · rw [hk] at hf2; exact .inl ⟨rest2, fTok_punct hf2 rfl⟩
    · rw [hk] at hf2; exact .inr ⟨rest2, fTok_punct hf2 rfl⟩
  | expr _ _ hor =>
    obtain ⟨rest, hO', hc'⟩ := hO1 a ts hor hlen d br x nxt out hd hcfg hfolO
    exact ⟨rest, HArg.expr hO' (arg_not_lit hg hor.first hcfg) (first_lparen hg hor.first hcfg), hc'⟩

theorem pMoreArgs_step (hg : ¬ Bad lf) (hA : PArg lf n) (hM : PMoreArgs lf n) : PMoreArgs lf (n + 1) := by
  intro as bs ts hD hlen d i br x rp out hd hcfg hrp
  cases hD with
  | nil =>
    obtain ⟨rest, hr, hc'⟩ := FCfg.next_rparen hg (by simpa using hcfg) hrp
    refine ⟨x, rest, HMoreArgs.nil ?_, hr, hc'⟩
    intro t e; rw [e] at hr; cases hr
  | cons c a as bs' t1 t2 hc ha hm =>
    have hcfg' : FCfg lf d (('(', i) :: br) x (c :: (t1 ++ (t2 ++ rp :: out))) := by simpa using hcfg
    obtain ⟨r, hx, hc1⟩ := FCfg.next_comma_paren hg hcfg' hc
    obtain ⟨y, ys, ey, hy⟩ := hm.head rp out hrp
    rw [ey] at hc1
    obtain ⟨r2, hA', hc2⟩ := hA a t1 ha (by simp at hlen; omega) d _ r y ys hd hc1 hy
    rw [← ey] at hc2
    obtain ⟨r3, rest, hM', hr3, hc3⟩ := hM as bs' t2 hm (by simp at hlen; omega) d i br r2 rp out hd hc2 hrp
    exact ⟨r3, rest, HMoreArgs.cons hx hA' hM', hr3, hc3⟩

end JPV.Proofs.Sv
