/-
`Proofs.Float.Find` — the digit search of `Py.reprPos`: for a double `M·2^E` given as `N/d`, the digits `(m, dp)`
it returns are `k ≤ 17` digits such that EVERY fraction with the value `m·10^(dp-k)` rounds back to `(M, E)`
(either because the loop checked it, or — at 17 digits — because `10^16 > 2^53`).
-/
import JPV.Proofs.Float.Digits
namespace JPV.Proofs.Float
open JPV

/-- where the search stops -/
theorem find_spec (n d : ℕ) (t : Option (ℕ × ℤ)) : ∀ (f k : ℕ), 1 ≤ k → k ≤ 17 → 18 ≤ f + k →
    ∃ k', k ≤ k' ∧ k' ≤ 17 ∧ Py.reprPos.find n d t f k = Py.toDigits n d k' ∧
      (backOf (Py.toDigits n d k').1 (Py.toDigits n d k').2 k' = t ∨ k' = 17) := by
  intro f
  induction f with
  | zero => intro k _ h2 h3; omega
  | succ f ih =>
    intro k h1 h2 h3
    rw [find_succ]
    split
    · rename_i hc
      refine ⟨k, le_refl _, h2, rfl, ?_⟩
      rcases hc with hc | hc
      · exact .inl hc
      · exact .inr (by omega)
    · rename_i hc
      have hk : k < 17 := by
        by_contra hh; exact hc (.inr (by omega))
      obtain ⟨k', a, b, c, e⟩ := ih (k + 1) (by omega) (by omega) (by omega)
      exact ⟨k', by omega, b, c, e⟩

/-- the bit lengths of numerator and denominator of a double differ by at most 1100 -/
theorem double_log2_range (N d M : ℕ) (E : ℤ) (hN : 0 < N) (hd : 0 < d) (hM0 : 0 < M) (hM : M < 2 ^ 53)
    (hE0 : -1074 ≤ E) (hE1 : E ≤ 971) (hv : (N : ℚ) / d = M * 2 ^ E) :
    -1100 ≤ (Nat.log2 N : ℤ) - (Nat.log2 d : ℤ) ∧ (Nat.log2 N : ℤ) - (Nat.log2 d : ℤ) ≤ 1100 := by
  obtain ⟨h1, h2⟩ := log2_bounds N d hN hd
  generalize (Nat.log2 N : ℤ) - (Nat.log2 d : ℤ) = t at *
  have hp : (0 : ℚ) < 2 ^ E := zpow_pos (by norm_num) E
  have hMq1 : (1 : ℚ) ≤ M := by exact_mod_cast hM0
  have hMq2 : (M : ℚ) < 2 ^ 53 := by exact_mod_cast hM
  rw [hv] at h1 h2
  have ha : (2 : ℚ) ^ (t - 1) < 2 ^ (E + 53) := by
    calc (2 : ℚ) ^ (t - 1) < M * 2 ^ E := h1
      _ < 2 ^ 53 * 2 ^ E := by gcongr
      _ = 2 ^ (E + 53) := p2 53 E _ (by norm_num)
  have hb : (2 : ℚ) ^ E < 2 ^ (t + 1) := by
    calc (2 : ℚ) ^ E = 1 * 2 ^ E := (one_mul _).symm
      _ ≤ M * 2 ^ E := by gcongr
      _ < 2 ^ (t + 1) := h2
  rw [zpow_lt_zpow_iff_right₀ (by norm_num)] at ha hb
  constructor <;> omega

/-- the digits found for a double read back to it, whatever fraction spells their value -/
theorem find_reads_back (N d M : ℕ) (E : ℤ) (hN : 0 < N) (hd : 0 < d) (hM0 : 0 < M) (hM : M < 2 ^ 53)
    (hnorm : 2 ^ 52 ≤ M ∨ E = -1074) (hE0 : -1074 ≤ E) (hE1 : E ≤ 971) (hv : (N : ℚ) / d = M * 2 ^ E) :
    ∃ k : ℕ, 1 ≤ k ∧ k ≤ 17 ∧
      10 ^ (k - 1) ≤ (Py.reprPos.find N d (Py.roundBinary64 N d) 17 1).1 ∧
      (Py.reprPos.find N d (Py.roundBinary64 N d) 17 1).1 < 10 ^ k ∧
      -350 ≤ (Py.reprPos.find N d (Py.roundBinary64 N d) 17 1).2 ∧
      (Py.reprPos.find N d (Py.roundBinary64 N d) 17 1).2 ≤ 350 ∧
      (Py.reprPos.find N d (Py.roundBinary64 N d) 17 1).2 ≤ Py.decimalExponent N d + 1 ∧
      ((Py.reprPos.find N d (Py.roundBinary64 N d) 17 1).2 = Py.decimalExponent N d + 1 →
        (Py.reprPos.find N d (Py.roundBinary64 N d) 17 1).1 = 10 ^ (k - 1)) ∧
      ∀ n' d' : ℕ, 0 < d' →
        (n' : ℚ) / d' = ((Py.reprPos.find N d (Py.roundBinary64 N d) 17 1).1 : ℚ) *
          10 ^ ((Py.reprPos.find N d (Py.roundBinary64 N d) 17 1).2 - (k : ℤ)) →
        Py.roundBinary64 n' d' = some (M, E) := by
  obtain ⟨hlo, hhi⟩ := double_log2_range N d M E hN hd hM0 hM hE0 hE1 hv
  have htarget := roundBinary64_exact N d hN hd M E hM0 hM hnorm hE0 hE1 hv
  obtain ⟨k, hk1, hk17, hfind, hstop⟩ := find_spec N d (Py.roundBinary64 N d) 17 1 (le_refl _) (by norm_num) (by norm_num)
  obtain ⟨hm1, hm2, hdp1, hdp2, hcarry, hclose⟩ := toDigits_spec N d k hN hd (by omega) hlo hhi
  obtain ⟨_, _, hde1, hde2⟩ := decimalExponent_spec N d hN hd hlo hhi
  rw [hfind]
  refine ⟨k, hk1, hk17, hm1, hm2, by omega, by omega, hdp2, hcarry, ?_⟩
  intro n' d' hd' hval
  generalize Py.toDigits N d k = md at *
  obtain ⟨m, dp⟩ := md
  simp only at *
  have hmpos : (0 : ℚ) < m := by
    have : 0 < m := lt_of_lt_of_le (Nat.pow_pos (by norm_num)) hm1
    exact_mod_cast this
  rcases hstop with hstop | hstop
  · -- the loop checked it
    obtain ⟨n2, d2, hd2, hb, hv2⟩ := backOf_val m dp k
    rw [← htarget, ← hstop, hb]
    exact roundBinary64_congrQ hd' hd2 (by rw [hval, hv2])
  · -- 17 digits always suffice
    subst hstop
    have hn' : 0 < n' := by
      have hdq : (0 : ℚ) < d' := by exact_mod_cast hd'
      have : (0 : ℚ) < (n' : ℚ) / d' := by rw [hval]; exact mul_pos hmpos (ten_zpow_pos _)
      have : (0 : ℚ) < n' := by
        by_contra hc
        have : (n' : ℚ) ≤ 0 := not_lt.mp hc
        have : (n' : ℚ) / d' ≤ 0 := div_nonpos_of_nonpos_of_nonneg this hdq.le
        linarith
      exact_mod_cast this
    apply roundBinary64_close n' d' hn' hd' M E hM0 hM hnorm hE0 hE1
    rw [hval, ← hv]
    have hvpos : (0 : ℚ) < (N : ℚ) / d := by
      have : (0 : ℚ) < N := by exact_mod_cast hN
      have : (0 : ℚ) < d := by exact_mod_cast hd
      positivity
    have habs := abs_nonneg ((m : ℚ) * 10 ^ (dp - ((17 : ℕ) : ℤ)) - (N : ℚ) / d)
    norm_num at hclose
    linarith

end JPV.Proofs.Float
