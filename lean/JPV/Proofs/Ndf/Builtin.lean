import JPV.Proofs.Ndf.Expr
/-
The three built-in functions (`length`, `count`, `value`) are insensitive to the order of the
nodelists they receive, and an environment with the built-in function table conforms to the
built-in registry: `find_permitted_wt` specialises to C17 with filters.
-/
namespace JPV.Proofs.Ndf
open JPV JPV.Impl JPV.Props JPV.Spec.ND

theorem ArgEq.refl : ∀ (a : Spec.Arg), ArgEq a a
  | .value v => .value v
  | .logical b => .logical b
  | .nodes ns => .nodes (.refl ns)

theorem argsEq_single {A' A : List Spec.Arg} {t : Ty} (heq : ArgsEq A' A) (hty : A.map argTy = [t]) :
    ∃ a' a, A' = [a'] ∧ A = [a] ∧ ArgEq a' a ∧ argTy a = t := by
  obtain ⟨a, rfl, ha⟩ := args_single hty
  cases heq with
  | cons h1 h2 =>
    cases h2
    exact ⟨_, _, rfl, rfl, h1, ha⟩

theorem length_insensitive {A' A : List Spec.Arg} (heq : ArgsEq A' A)
    (hty : A.map argTy = Spec.lengthFn.argTypes) :
    ArgEq (Spec.lengthFn.sem A') (Spec.lengthFn.sem A) := by
  obtain ⟨a', a, rfl, rfl, h, ha⟩ := argsEq_single heq hty
  obtain ⟨v, rfl⟩ := arg_value ha
  cases h
  exact ArgEq.refl _

theorem count_insensitive {A' A : List Spec.Arg} (heq : ArgsEq A' A)
    (hty : A.map argTy = Spec.countFn.argTypes) :
    ArgEq (Spec.countFn.sem A') (Spec.countFn.sem A) := by
  obtain ⟨a', a, rfl, rfl, h, ha⟩ := argsEq_single heq hty
  obtain ⟨ns, rfl⟩ := arg_nodes ha
  cases h with
  | nodes hp =>
    show ArgEq (.value (Spec.natVal _)) (.value (Spec.natVal _))
    rw [hp.length_eq]
    exact ArgEq.refl _

theorem value_insensitive {A' A : List Spec.Arg} (heq : ArgsEq A' A)
    (hty : A.map argTy = Spec.valueFn.argTypes) :
    ArgEq (Spec.valueFn.sem A') (Spec.valueFn.sem A) := by
  obtain ⟨a', a, rfl, rfl, h, ha⟩ := argsEq_single heq hty
  obtain ⟨ns, rfl⟩ := arg_nodes ha
  cases h with
  | @nodes ns' _ hp =>
    by_cases hl : ns.length ≤ 1
    · rw [perm_short hp hl]
      exact ArgEq.refl _
    · have hl' := hp.length_eq
      match ns', ns, hl, hl' with
      | _ :: _ :: _, _ :: _ :: _, _, _ => exact ArgEq.refl _
      | [], _, hl, hl' => simp only [List.length_nil] at hl'; omega
      | [_], _, hl, hl' => simp only [List.length_cons, List.length_nil] at hl'; omega
      | _ :: _ :: _, [], hl, _ => simp at hl
      | _ :: _ :: _, [_], hl, _ => simp at hl

theorem builtin_orderInsensitive : OrderInsensitive builtinReg := by
  intro name fn hreg A' A heq hty
  unfold builtinReg at hreg
  split at hreg
  · cases hreg; exact length_insensitive heq hty
  · split at hreg
    · cases hreg; exact count_insensitive heq hty
    · split at hreg
      · cases hreg; exact value_insensitive heq hty
      · cases hreg

theorem envConforms_of_funcs {env : Env} (hf : env.funcs = builtinEnv.funcs) :
    EnvConforms env builtinReg := by
  intro name
  have h := builtin_conforms name
  have e : env.func name = builtinEnv.func name := by simp only [Env.func, hf]
  rw [e]
  exact h

theorem find_permitted_builtin (env : Env) (q : Query) (v : Json) (s : ND.Script)
    (hf : env.funcs = builtinEnv.funcs)
    (hwt : Spec.wtQuery (sigsOf builtinReg) q = true)
    (hw : v.WF) (hd : (v.depth : Int) ≤ env.maxDepth) (h1 : 1 ≤ env.maxDepth) :
    ∃ r, ND.find env q v s = .ok r ∧ r ∈ outcomes builtinReg q v ∧
      r.Perm (Spec.select builtinReg q v) :=
  find_permitted_wt env builtinReg q v s (envConforms_of_funcs hf) builtin_orderInsensitive
    hwt hw hd h1

end JPV.Proofs.Ndf
