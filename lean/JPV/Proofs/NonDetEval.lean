import JPV.Proofs.NonDetAux
/-
C17, theorem 4: the continuation-passing nondeterministic evaluator yields, for
every script, a permutation of the RFC nodelist for filter-free queries.
-/
namespace JPV.Proofs.NDp
open JPV JPV.Impl

/-- continuation `k` implements `f` up to permutation on good nodes -/
def KOK (mx : Int) (k : Node → ND.Script → ND.Out) (f : Node → List Node) : Prop :=
  ∀ n s, Good mx n → (k n s).err = none ∧ ((k n s).nodes).Perm (f n)

theorem flatMap_perm_pointwise {α β} (l : List α) (f g : α → List β)
    (h : ∀ x ∈ l, (f x).Perm (g x)) : (l.flatMap f).Perm (l.flatMap g) := by
  induction l with
  | nil => exact .refl _
  | cons x rest ih =>
    simp only [List.flatMap_cons]
    exact (h x List.mem_cons_self).append (ih (fun y hy => h y (List.mem_cons_of_mem _ hy)))

theorem forEach_ok {mx : Int} {k : Node → ND.Script → ND.Out} {f : Node → List Node}
    (hk : KOK mx k f) : ∀ (ns : List Node) (s : ND.Script), (∀ n ∈ ns, Good mx n) →
      (ND.forEach ns s k).err = none ∧ ((ND.forEach ns s k).nodes).Perm (ns.flatMap f) := by
  intro ns
  induction ns with
  | nil => intro s _; exact ⟨rfl, .refl _⟩
  | cons n rest ih =>
    intro s hns
    have h1 := hk n s (hns n List.mem_cons_self)
    have h2 := ih (k n s).script (fun x hx => hns x (List.mem_cons_of_mem _ hx))
    simp only [ND.forEach, h1.1, List.flatMap_cons]
    exact ⟨h2.1, h1.2.append h2.2⟩

theorem forEach_perm {mx : Int} {k : Node → ND.Script → ND.Out} {f : Node → List Node}
    (hk : KOK mx k f) (ns ns' : List Node) (s : ND.Script) (hp : ns'.Perm ns)
    (hns : ∀ n ∈ ns, Good mx n) :
    (ND.forEach ns' s k).err = none ∧ ((ND.forEach ns' s k).nodes).Perm (ns.flatMap f) := by
  have h := forEach_ok hk ns' s (fun n hn => hns n (hp.mem_iff.1 hn))
  exact ⟨h.1, h.2.trans (hp.flatMap_right f)⟩

/-! ### selectors -/

theorem children_good {mx : Int} {n m : Node} (hn : Good mx n) (h : m ∈ Spec.children n) : Good mx m :=
  good_kid (j := n.val) hn (mem_children h)

theorem runSel_ok {mx : Int} (env : Env) (reg : Spec.Registry) (root : Json)
    {k : Node → ND.Script → ND.Out} {f : Node → List Node} (hk : KOK mx k f)
    (sel : Selector) (hs : ∀ e, sel ≠ .filter e) (n : Node) (s : ND.Script) (hn : Good mx n) :
    (ND.runSel env root k sel n s).err = none ∧
      ((ND.runSel env root k sel n s).nodes).Perm ((Spec.selectSel reg root sel n).flatMap f) := by
  have hgood : ∀ m ∈ Spec.selectSel reg root sel n, Good mx m := fun m hm =>
    good_kid (j := n.val) hn (mem_selectSel hm)
  cases sel with
  | name nm =>
    simp only [ND.runSel, Spec.selectSel, selName_eq nm n hn.1] at hgood ⊢
    exact forEach_ok hk _ s hgood
  | index i =>
    simp only [ND.runSel, Spec.selectSel, selIndex_correct] at hgood ⊢
    exact forEach_ok hk _ s hgood
  | slice a b c =>
    simp only [ND.runSel, Spec.selectSel, selSlice_correct] at hgood ⊢
    exact forEach_ok hk _ s hgood
  | wild =>
    simp only [ND.runSel, Spec.selectSel, ND.ndMembers] at hgood ⊢
    have hp := ndChildren_perm n s
    rw [children_eq] at hp
    exact forEach_perm hk _ _ _ hp hgood
  | filter e => exact absurd rfl (hs e)

theorem runSels_ok {mx : Int} (env : Env) (reg : Spec.Registry) (root : Json)
    {k : Node → ND.Script → ND.Out} {f : Node → List Node} (hk : KOK mx k f) :
    ∀ (sels : List Selector), Spec.filterFreeSels sels = true → ∀ (n : Node) (s : ND.Script), Good mx n →
    (ND.runSels env root k sels n s).err = none ∧
      ((ND.runSels env root k sels n s).nodes).Perm ((Spec.selectSels reg root sels n).flatMap f) := by
  intro sels
  induction sels with
  | nil => intro _ n s _; simp only [ND.runSels, Spec.selectSels]; exact ⟨rfl, .refl _⟩
  | cons sel sels ih =>
    intro hf n s hn
    have hs : ∀ e, sel ≠ .filter e := by
      intro e he; subst he; simp [Spec.filterFreeSels] at hf
    have hf' : Spec.filterFreeSels sels = true := by
      cases sel <;> simp_all [Spec.filterFreeSels]
    have h1 := runSel_ok env reg root hk sel hs n s hn
    have h2 := ih hf' n (ND.runSel env root k sel n s).script hn
    simp only [ND.runSels, h1.1, Spec.selectSels, List.flatMap_append]
    exact ⟨h2.1, h1.2.append h2.2⟩


/-! ### descendants as node :: descendants of children -/

theorem descArr_eq (loc : Loc) : ∀ (xs : List Json) (i : Nat),
    Spec.descArr loc i xs =
      ((List.range' i xs.length).zip xs).flatMap
        (fun p => Spec.descendants (loc ++ [.idx (p.1 : Int)]) p.2) := by
  intro xs
  induction xs with
  | nil => intro i; rw [descArr_nil]; rfl
  | cons x xs ih =>
    intro i
    rw [descArr_cons, ih (i + 1), List.length_cons, List.range'_succ, List.zip_cons_cons,
      List.flatMap_cons]

theorem descObj_eq (loc : Loc) : ∀ (kvs : List (Str × Json)),
    Spec.descObj loc kvs = kvs.flatMap (fun p => Spec.descendants (loc ++ [.name p.1]) p.2) := by
  intro kvs
  induction kvs with
  | nil => rw [descObj_nil]; rfl
  | cons p rest ih =>
    obtain ⟨k, x⟩ := p
    rw [descObj_cons, ih, List.flatMap_cons]

theorem descendants_children (n : Node) :
    Spec.descendants n.loc n.val =
      n :: (Spec.children n).flatMap (fun c => Spec.descendants c.loc c.val) := by
  obtain ⟨loc, v⟩ := n
  cases v with
  | arr xs =>
    simp only [descendants_arr, Spec.children, Spec.arrChildren, descArr_eq, List.flatMap_map,
      Spec.child, List.range_eq_range']
  | obj kvs =>
    simp only [descendants_obj, Spec.children, descObj_eq, List.flatMap_map, Spec.child]
  | _ => simp [Spec.descendants, Spec.children]

theorem sizeArr_sum (xs : List Json) : Json.sizeArr xs = (xs.map Json.size).sum := by
  induction xs with
  | nil => rw [sizeArr_nil]; rfl
  | cons x xs ih => rw [sizeArr_cons, ih]; simp

theorem sizeObj_sum (kvs : List (Str × Json)) : Json.sizeObj kvs = (kvs.map (fun p => p.2.size)).sum := by
  induction kvs with
  | nil => rw [sizeObj_nil]; rfl
  | cons p rest ih => obtain ⟨k, x⟩ := p; rw [sizeObj_cons, ih]; simp

theorem size_children (n : Node) :
    n.val.size = 1 + ((Spec.children n).map (fun c => c.val.size)).sum := by
  obtain ⟨loc, v⟩ := n
  cases v with
  | arr xs =>
    simp only [size_arr, sizeArr_sum, Spec.children, Spec.arrChildren, List.map_map]
    congr 2
    have : ((fun c : Node => c.val.size) ∘ fun p : Nat × Json => Spec.child ⟨loc, .arr xs⟩ (Key.idx (p.1 : Int)) p.2)
        = Json.size ∘ Prod.snd := by
      funext p; rfl
    rw [this, ← List.map_map, List.map_snd_zip]
    simp
  | obj kvs =>
    simp only [size_obj, sizeObj_sum, Spec.children, List.map_map]
    rfl
  | _ => simp [Json.size, Spec.children]


/-! ### the queue-based traversal -/

/-- what a node still owes to the output: `f` over the node and all its descendants -/
def owed (f : Node → List Node) (m : Node) : List Node := (Spec.descendants m.loc m.val).flatMap f

theorem owed_unfold (f : Node → List Node) (m : Node) :
    owed f m = f m ++ (Spec.children m).flatMap (owed f) := by
  show (Spec.descendants m.loc m.val).flatMap f = _
  rw [descendants_children, List.flatMap_cons, List.flatMap_assoc]
  rfl

/-- queue entry invariant: well-formed, and tag + own depth within the limit -/
def QOK (mx : Int) (e : Node × Nat) : Prop := e.1.val.WF ∧ (e.2 : Int) + (e.1.val.depth : Int) ≤ mx

def qsize (q : List (Node × Nat)) : Nat := (q.map (fun e => e.1.val.size)).sum

def qowed (f : Node → List Node) (q : List (Node × Nat)) : List Node := q.flatMap (fun e => owed f e.1)

theorem QOK.good {mx : Int} {e : Node × Nat} (h : QOK mx e) : Good mx e.1 :=
  ⟨h.1, by have := h.2; omega⟩

theorem QOK.notDeep {mx : Int} {m : Node} {d : Nat} (h : QOK mx (m, d)) : ND.isDeep mx m d = false := by
  unfold ND.isDeep
  cases hc : m.val.isContainer with
  | false => simp
  | true =>
    have := depth_pos_of_container hc
    have := h.2
    simp only [Bool.and_true, decide_eq_false_iff_not]
    simp only at *
    omega

theorem QOK.child {mx : Int} {m c : Node} {d : Nat} (h : QOK mx (m, d)) (hc : c ∈ Spec.children m) :
    QOK mx (c, d + 1) := by
  have h1 := kids_wf h.1 c.val (mem_children hc)
  have h2 := kids_depth c.val (mem_children hc)
  have := h.2
  refine ⟨h1, ?_⟩
  simp only at *
  omega

theorem qsize_append (a b : List (Node × Nat)) : qsize (a ++ b) = qsize a + qsize b := by
  simp [qsize]

theorem qsize_map (cs : List Node) (d : Nat) :
    qsize (cs.map (fun c => (c, d))) = (cs.map (fun c => c.val.size)).sum := by
  simp [qsize, List.map_map, Function.comp_def]

theorem qsize_perm {a b : List (Node × Nat)} (h : a.Perm b) : qsize a = qsize b :=
  (h.map _).sum_nat

theorem qowed_append (f : Node → List Node) (a b : List (Node × Nat)) :
    qowed f (a ++ b) = qowed f a ++ qowed f b := by
  simp [qowed]

theorem qowed_map (f : Node → List Node) (cs : List Node) (d : Nat) :
    qowed f (cs.map (fun c => (c, d))) = cs.flatMap (owed f) := by
  simp [qowed, List.flatMap_map]

theorem qowed_perm (f : Node → List Node) {a b : List (Node × Nat)} (h : a.Perm b) :
    (qowed f a).Perm (qowed f b) := h.flatMap_right _


theorem ndChildren_perm_spec (n : Node) (s : ND.Script) :
    ((ND.ndChildren n s).1).Perm (Spec.children n) := by
  have := ndChildren_perm n s
  rwa [children_eq] at this

theorem visitChildrenNow_ok {mx : Int} {k : Node → ND.Script → ND.Out} {f : Node → List Node}
    (hk : KOK mx k f) (d : Nat) :
    ∀ (cs : List Node) (queue : List (Node × Nat)) (s : ND.Script) (acc : List Node),
      (∀ c ∈ cs, QOK mx (c, d + 1)) → (∀ e ∈ queue, QOK mx e) →
      (ND.visitChildrenNow mx d k cs queue s acc).2.err = none ∧
      (∀ e ∈ (ND.visitChildrenNow mx d k cs queue s acc).1, QOK mx e) ∧
      qsize (ND.visitChildrenNow mx d k cs queue s acc).1 ≤
        qsize queue + (cs.map (fun c => c.val.size)).sum ∧
      ((ND.visitChildrenNow mx d k cs queue s acc).2.nodes ++
          qowed f (ND.visitChildrenNow mx d k cs queue s acc).1).Perm
        (acc ++ cs.flatMap (owed f) ++ qowed f queue) := by
  intro cs
  induction cs with
  | nil =>
    intro queue s acc _ hq
    simp only [ND.visitChildrenNow, List.map_nil, List.sum_nil, List.flatMap_nil, List.append_nil,
      Nat.add_zero, Nat.le_refl, true_and]
    exact ⟨hq, .refl _⟩
  | cons c cs ih =>
    intro queue s acc hcs hq
    have hc := hcs c List.mem_cons_self
    have hr := hk c s hc.good
    have hg := ndChildren_perm_spec c (k c s).script
    have hm := (mergeQ_perm queue ((ND.ndChildren c (k c s).script).1.map (fun g => (g, d + 2)))
      (ND.ndChildren c (k c s).script).2).1
    have hq' : ∀ e ∈ (ND.mergeQ queue ((ND.ndChildren c (k c s).script).1.map (fun g => (g, d + 2)))
        (ND.ndChildren c (k c s).script).2).1, QOK mx e := by
      intro e he
      rcases List.mem_append.1 (hm.mem_iff.1 he) with he | he
      · exact hq e he
      · obtain ⟨g, hg', rfl⟩ := List.mem_map.1 he
        exact hc.child (hg.mem_iff.1 hg')
    have ih' := ih _ (ND.mergeQ queue ((ND.ndChildren c (k c s).script).1.map (fun g => (g, d + 2)))
        (ND.ndChildren c (k c s).script).2).2 (acc ++ (k c s).nodes)
        (fun x hx => hcs x (List.mem_cons_of_mem _ hx)) hq'
    have hstep : ND.visitChildrenNow mx d k (c :: cs) queue s acc =
        ND.visitChildrenNow mx d k cs
          (ND.mergeQ queue ((ND.ndChildren c (k c s).script).1.map (fun g => (g, d + 2)))
            (ND.ndChildren c (k c s).script).2).1
          (ND.mergeQ queue ((ND.ndChildren c (k c s).script).1.map (fun g => (g, d + 2)))
            (ND.ndChildren c (k c s).script).2).2 (acc ++ (k c s).nodes) := by
      simp only [ND.visitChildrenNow, hc.notDeep, hr.1, Bool.false_eq_true, if_false]
    rw [hstep]
    refine ⟨ih'.1, ih'.2.1, ?_, ?_⟩
    · have h3 := ih'.2.2.1
      rw [qsize_perm hm, qsize_append, qsize_map, (hg.map _).sum_nat] at h3
      have := size_children c
      simp only [List.map_cons, List.sum_cons]
      omega
    · have h4 := ih'.2.2.2
      have h5 := (qowed_perm f hm)
      rw [qowed_append, qowed_map] at h5
      have h6 := hg.flatMap_right (owed f)
      have h7 := hr.2
      rw [List.flatMap_cons, owed_unfold f c]
      classical
      rw [List.perm_iff_count] at *
      intro a
      have := h4 a; have := h5 a; have := h6 a; have := h7 a
      simp only [List.count_append] at *
      omega


theorem visitLoop_ok {mx : Int} {k : Node → ND.Script → ND.Out} {f : Node → List Node}
    (hk : KOK mx k f) :
    ∀ (fuel : Nat) (queue : List (Node × Nat)) (s : ND.Script) (acc : List Node),
      (∀ e ∈ queue, QOK mx e) → qsize queue < fuel →
      (ND.visitLoop mx k fuel queue s acc).err = none ∧
      ((ND.visitLoop mx k fuel queue s acc).nodes).Perm (acc ++ qowed f queue) := by
  intro fuel
  induction fuel with
  | zero => intro queue s acc _ h; omega
  | succ fuel ih =>
    intro queue s acc hq hfuel
    match queue, hq, hfuel with
    | [], _, _ =>
      simp only [ND.visitLoop, qowed, List.flatMap_nil, List.append_nil]
      exact ⟨trivial, .refl _⟩
    | (node, d) :: queue, hq, hfuel =>
      have hn : QOK mx (node, d) := hq _ List.mem_cons_self
      have hq0 : ∀ e ∈ queue, QOK mx e := fun e he => hq e (List.mem_cons_of_mem _ he)
      have hr := hk node s hn.good
      have hsz := size_children node
      have hfuel' : node.val.size + qsize queue < fuel + 1 := by
        simpa [qsize] using hfuel
      have hcs := ndChildren_perm_spec node (ND.coin (k node s).script).2
      have hcsq : ∀ c ∈ (ND.ndChildren node (ND.coin (k node s).script).2).1, QOK mx (c, d + 1) :=
        fun c hc => hn.child (hcs.mem_iff.1 hc)
      have howed : qowed f ((node, d) :: queue) =
          (f node ++ (Spec.children node).flatMap (owed f)) ++ qowed f queue := by
        simp only [qowed, List.flatMap_cons, owed_unfold f node]
      have h6 := hcs.flatMap_right (owed f)
      have h7 := hr.2
      rw [howed]
      cases hb : (ND.coin (k node s).script).1 with
      | false =>
        have hstep : ND.visitLoop mx k (fuel + 1) ((node, d) :: queue) s acc =
            ND.visitLoop mx k fuel
              (queue ++ (ND.ndChildren node (ND.coin (k node s).script).2).1.map (fun c => (c, d + 1)))
              (ND.ndChildren node (ND.coin (k node s).script).2).2 (acc ++ (k node s).nodes) := by
          simp only [ND.visitLoop, hn.notDeep, hr.1, hb, Bool.false_eq_true, if_false]
        rw [hstep]
        have ih' := ih (queue ++ (ND.ndChildren node (ND.coin (k node s).script).2).1.map (fun c => (c, d + 1)))
          (ND.ndChildren node (ND.coin (k node s).script).2).2 (acc ++ (k node s).nodes)
          (by
            intro e he
            rcases List.mem_append.1 he with he | he
            · exact hq0 e he
            · obtain ⟨c, hc, rfl⟩ := List.mem_map.1 he
              exact hcsq c hc)
          (by
            rw [qsize_append, qsize_map, (hcs.map _).sum_nat]
            omega)
        refine ⟨ih'.1, ?_⟩
        have h4 := ih'.2
        rw [qowed_append, qowed_map] at h4
        classical
        rw [List.perm_iff_count] at *
        intro a
        have := h4 a; have := h6 a; have := h7 a
        simp only [List.count_append] at *
        omega
      | true =>
        have hv := visitChildrenNow_ok hk d (ND.ndChildren node (ND.coin (k node s).script).2).1 queue
          (ND.ndChildren node (ND.coin (k node s).script).2).2 (acc ++ (k node s).nodes) hcsq hq0
        have hstep : ND.visitLoop mx k (fuel + 1) ((node, d) :: queue) s acc =
            ND.visitLoop mx k fuel
              (ND.visitChildrenNow mx d k (ND.ndChildren node (ND.coin (k node s).script).2).1 queue
                (ND.ndChildren node (ND.coin (k node s).script).2).2 (acc ++ (k node s).nodes)).1
              (ND.visitChildrenNow mx d k (ND.ndChildren node (ND.coin (k node s).script).2).1 queue
                (ND.ndChildren node (ND.coin (k node s).script).2).2 (acc ++ (k node s).nodes)).2.script
              (ND.visitChildrenNow mx d k (ND.ndChildren node (ND.coin (k node s).script).2).1 queue
                (ND.ndChildren node (ND.coin (k node s).script).2).2 (acc ++ (k node s).nodes)).2.nodes := by
          simp only [ND.visitLoop, hn.notDeep, hr.1, hb, Bool.false_eq_true, if_false, if_true, hv.1]
        rw [hstep]
        have ih' := ih _
          (ND.visitChildrenNow mx d k (ND.ndChildren node (ND.coin (k node s).script).2).1 queue
                (ND.ndChildren node (ND.coin (k node s).script).2).2 (acc ++ (k node s).nodes)).2.script
          (ND.visitChildrenNow mx d k (ND.ndChildren node (ND.coin (k node s).script).2).1 queue
                (ND.ndChildren node (ND.coin (k node s).script).2).2 (acc ++ (k node s).nodes)).2.nodes
          hv.2.1
          (by
            have := hv.2.2.1
            rw [(hcs.map _).sum_nat] at this
            omega)
        refine ⟨ih'.1, ?_⟩
        have h4 := ih'.2
        have h5 := hv.2.2.2
        classical
        rw [List.perm_iff_count] at *
        intro a
        have := h4 a; have := h5 a; have := h6 a; have := h7 a
        simp only [List.count_append] at *
        omega


theorem visit_ok {mx : Int} {k : Node → ND.Script → ND.Out} {f : Node → List Node}
    (hk : KOK mx k f) (root : Node) (s : ND.Script) (hroot : Good mx root) :
    (ND.visit mx root s k).err = none ∧
      ((ND.visit mx root s k).nodes).Perm ((Spec.descendants root.loc root.val).flatMap f) := by
  have hr := hk root s hroot
  have hcs := ndChildren_perm_spec root (k root s).script
  have h0 : QOK mx (root, 0) := ⟨hroot.1, by have := hroot.2; simp only at *; omega⟩
  have hstep : ND.visit mx root s k =
      ND.visitLoop mx k (root.val.size + 1)
        ((ND.ndChildren root (k root s).script).1.map (fun c => (c, 1)))
        (ND.ndChildren root (k root s).script).2 (k root s).nodes := by
    simp only [ND.visit, hr.1]
  rw [hstep]
  have hv := visitLoop_ok hk (root.val.size + 1)
    ((ND.ndChildren root (k root s).script).1.map (fun c => (c, 1)))
    (ND.ndChildren root (k root s).script).2 (k root s).nodes
    (by
      intro e he
      obtain ⟨c, hc, rfl⟩ := List.mem_map.1 he
      exact h0.child (hcs.mem_iff.1 hc))
    (by
      rw [qsize_map, (hcs.map _).sum_nat]
      have := size_children root
      omega)
  refine ⟨hv.1, ?_⟩
  have h4 := hv.2
  rw [qowed_map] at h4
  have h6 := hcs.flatMap_right (owed f)
  have h7 := hr.2
  show List.Perm _ (owed f root)
  rw [owed_unfold]
  classical
  rw [List.perm_iff_count] at *
  intro a
  have := h4 a; have := h6 a; have := h7 a
  simp only [List.count_append] at *
  omega

/-! ### segments -/

theorem selectFrom_flatMap (reg : Spec.Registry) (root : Json) :
    ∀ (segs : List Segment) (ns : List Node),
      Spec.selectFrom reg root segs ns = ns.flatMap (fun n => Spec.selectFrom reg root segs [n]) := by
  intro segs
  induction segs with
  | nil => intro ns; simp [Spec.selectFrom]
  | cons seg segs ih =>
    intro ns
    have hseg : Spec.selectSeg reg root seg ns = ns.flatMap (fun n => Spec.selectSeg reg root seg [n]) := by
      cases seg <;> simp [Spec.selectSeg]
    simp only [Spec.selectFrom]
    rw [ih, hseg, List.flatMap_assoc]
    congr 1
    funext n
    rw [← ih]

theorem runSegs_ok (env : Env) (reg : Spec.Registry) (root : Json) :
    ∀ (segs : List Segment), Spec.filterFree segs = true →
      KOK env.maxDepth (fun n s => ND.runSegs env root segs n s)
        (fun n => Spec.selectFrom reg root segs [n]) := by
  intro segs
  induction segs with
  | nil =>
    intro _ n s _
    simp only [ND.runSegs, Spec.selectFrom]
    exact ⟨trivial, .refl _⟩
  | cons seg segs ih =>
    intro hf
    simp only [Spec.filterFree, List.all_cons, Bool.and_eq_true] at hf
    have ih' := ih hf.2
    intro n s hn
    cases seg with
    | child sels =>
      have h := runSels_ok env reg root ih' sels hf.1 n s hn
      simp only [ND.runSegs, Spec.selectFrom, Spec.selectSeg, List.flatMap_cons, List.flatMap_nil,
        List.append_nil]
      rw [selectFrom_flatMap reg root segs (Spec.selectSels reg root sels n)]
      exact h
    | desc sels =>
      have hk : KOK env.maxDepth
          (fun m s' => ND.runSels env root (fun m2 s2 => ND.runSegs env root segs m2 s2) sels m s')
          (fun m => (Spec.selectSels reg root sels m).flatMap
            (fun m2 => Spec.selectFrom reg root segs [m2])) :=
        fun m s' hm => runSels_ok env reg root ih' sels hf.1 m s' hm
      have h := visit_ok hk n s hn
      simp only [ND.runSegs, Spec.selectFrom, Spec.selectSeg, List.flatMap_cons, List.flatMap_nil,
        List.append_nil]
      rw [selectFrom_flatMap reg root segs, List.flatMap_assoc]
      exact h

theorem find_perm (env : Env) (reg : Spec.Registry) (q : Query) (v : Json) (s : ND.Script)
    (hf : Spec.filterFree q = true) (hwf : v.WF) (hd : (v.depth : Int) ≤ env.maxDepth) :
    ∃ r, ND.find env q v s = .ok r ∧ r.Perm (Spec.select reg q v) := by
  have h := runSegs_ok env reg v q hf ⟨[], v⟩ s ⟨hwf, hd⟩
  simp only at h
  refine ⟨(ND.runSegs env v q ⟨[], v⟩ s).nodes, ?_, h.2⟩
  simp only [ND.find, h.1]

end JPV.Proofs.NDp
