/-
String literals: the executable recogniser `stringLiteral` (with `stringBody`, `hexchar`, `hex4`)
agrees with the declarative ABNF relation `Abnf.StringLit`.
-/
import JPV.Proofs.Abnf.Chars
namespace JPV.Proofs.AbnfP
open JPV JPV.Spec

/-! ### hex4 -/

theorem hex4_complete {s : List Char} {v : Nat} (h : Abnf.Hex4 s v) (R : List Char) :
    hex4 (s ++ R) = some (v, R) := by
  obtain ⟨a, b, c, d, rfl, ha, hb, hc, hd, rfl⟩ := h
  simp [hex4, ha, hb, hc, hd]

theorem hex4_sound {inp r : List Char} {v : Nat} (h : hex4 inp = some (v, r)) :
    ∃ s, inp = s ++ r ∧ Abnf.Hex4 s v := by
  unfold hex4 at h
  split at h
  · rename_i a b c d r'
    split at h
    · rename_i hh
      simp only [Bool.and_eq_true] at hh
      simp only [Option.some.injEq, Prod.mk.injEq] at h
      obtain ⟨rfl, rfl⟩ := h
      exact ⟨[a, b, c, d], rfl, a, b, c, d, rfl, hh.1.1.1, hh.1.1.2, hh.1.2, hh.2, rfl⟩
    · cases h
  · cases h

/-! ### hexchar -/

theorem hexchar_complete {h : List Char} {ch : Char} (hh : Abnf.HexChar h ch) (R : List Char) :
    hexchar (h ++ R) = some (ch, R) := by
  cases hh with
  | nonSurrogate h4 hns =>
    rename_i v
    unfold hexchar
    simp only [hex4_complete h4 R, bind, Option.bind]
    by_cases h1 : v ≥ 0xD800 ∧ v ≤ 0xDBFF
    · exfalso; omega
    · rw [if_neg h1]
      by_cases h2 : v ≥ 0xDC00 ∧ v ≤ 0xDFFF
      · exfalso; omega
      · rw [if_neg h2]
  | pair hhi h1 h2 hlo h3 h4 =>
    rename_i hs ls hi lo
    unfold hexchar
    rw [List.append_assoc]
    simp only [hex4_complete hhi, bind, Option.bind]
    rw [if_pos ⟨h1, h2⟩]
    simp only [List.cons_append, hex4_complete hlo R]
    rw [if_pos ⟨h3, h4⟩]

theorem hexchar_sound {inp r : List Char} {ch : Char} (h : hexchar inp = some (ch, r)) :
    ∃ s, inp = s ++ r ∧ Abnf.HexChar s ch := by
  unfold hexchar at h
  cases h1 : hex4 inp with
  | none => simp [h1, bind, Option.bind] at h
  | some p =>
    obtain ⟨hi, r1⟩ := p
    obtain ⟨s1, rfl, hs1⟩ := hex4_sound h1
    simp only [h1, bind, Option.bind] at h
    split at h
    · rename_i hhi
      split at h
      · rename_i r2
        cases h2 : hex4 r2 with
        | none => simp [h2] at h
        | some p2 =>
          obtain ⟨lo, r3⟩ := p2
          obtain ⟨s2, rfl, hs2⟩ := hex4_sound h2
          simp only [h2] at h
          split at h
          · rename_i hlo
            simp only [Option.some.injEq, Prod.mk.injEq] at h
            obtain ⟨rfl, rfl⟩ := h
            refine ⟨s1 ++ '\\' :: 'u' :: s2, by simp, ?_⟩
            exact Abnf.HexChar.pair hs1 hhi.1 hhi.2 hs2 hlo.1 hlo.2
          · cases h
      · cases h
    · rename_i hhi
      split at h
      · cases h
      · rename_i hlo
        simp only [Option.some.injEq, Prod.mk.injEq] at h
        obtain ⟨rfl, rfl⟩ := h
        exact ⟨s1, rfl, Abnf.HexChar.nonSurrogate hs1 (by omega)⟩

/-! ### character facts -/

theorem unescaped_ne_backslash {c : Char} (hu : isUnescaped c = true) : c ≠ '\\' := by
  intro h; subst h; revert hu; decide
theorem unescaped_ne_dq {c : Char} (hu : isUnescaped c = true) : c ≠ '"' := by
  intro h; subst h; revert hu; decide
theorem unescaped_ne_sq {c : Char} (hu : isUnescaped c = true) : c ≠ '\'' := by
  intro h; subst h; revert hu; decide

/-! ### stringBody: one-step unfolding -/

theorem stringBody_cons (q : Char) (n : Nat) (c : Char) (r acc : List Char) :
    stringBody q (n + 1) (c :: r) acc =
      if c = q then some (acc.reverse, r)
      else if c = '\\' then
        match r with
        | e :: r2 =>
          if e = q then stringBody q n r2 (q :: acc)
          else if e = 'b' then stringBody q n r2 (Char.ofNat 8 :: acc)
          else if e = 'f' then stringBody q n r2 (Char.ofNat 12 :: acc)
          else if e = 'n' then stringBody q n r2 ('\n' :: acc)
          else if e = 'r' then stringBody q n r2 ('\r' :: acc)
          else if e = 't' then stringBody q n r2 ('\t' :: acc)
          else if e = '/' then stringBody q n r2 ('/' :: acc)
          else if e = '\\' then stringBody q n r2 ('\\' :: acc)
          else if e = 'u' then
            match hexchar r2 with
            | some (ch, r3) => stringBody q n r3 (ch :: acc)
            | none => none
          else none
        | [] => none
      else if isUnescaped c || (c = '\'' && q = '"') || (c = '"' && q = '\'') then
        stringBody q n r (c :: acc)
      else none := by
  cases r <;> rfl

/-! ### stringBody: soundness -/

private theorem sound_step {q : Char} {pfx r2 rest acc v : List Char} {ch : Char}
    (hrec : ∃ body w, r2 = body ++ q :: rest ∧ Abnf.StrChars q body w ∧ v = (ch :: acc).reverse ++ w)
    (hk : ∀ body w, Abnf.StrChars q body w → Abnf.StrChars q (pfx ++ body) (ch :: w)) :
    ∃ body w, pfx ++ r2 = body ++ q :: rest ∧ Abnf.StrChars q body w ∧ v = acc.reverse ++ w := by
  obtain ⟨body, w, rfl, hs, rfl⟩ := hrec
  exact ⟨pfx ++ body, ch :: w, by simp, hk body w hs, by simp⟩

theorem stringBody_sound {q : Char} : ∀ (fuel : Nat) (inp acc : List Char) {v rest : List Char},
    stringBody q fuel inp acc = some (v, rest) →
    ∃ body w, inp = body ++ q :: rest ∧ Abnf.StrChars q body w ∧ v = acc.reverse ++ w := by
  intro fuel
  induction fuel with
  | zero => intro inp acc v rest h; simp [stringBody] at h
  | succ n ih =>
    intro inp acc v rest h
    cases inp with
    | nil => simp [stringBody] at h
    | cons c r =>
      rw [stringBody_cons] at h
      by_cases hcq : c = q
      · rw [if_pos hcq] at h
        simp only [Option.some.injEq, Prod.mk.injEq] at h
        obtain ⟨rfl, rfl⟩ := h
        subst hcq
        exact ⟨[], [], rfl, .nil, by simp⟩
      · rw [if_neg hcq] at h
        by_cases hb : c = '\\'
        · subst hb; rw [if_pos rfl] at h
          cases r with
          | nil => simp at h
          | cons e r2 =>
            simp only at h
            split at h
            · rename_i he; subst he
              exact sound_step (pfx := ['\\', e]) (ih _ _ h) (fun _ _ hs => .escQuote hs)
            split at h
            · rename_i he; subst he
              exact sound_step (pfx := ['\\', 'b']) (ih _ _ h) (fun _ _ hs => .esc .b hs)
            split at h
            · rename_i he; subst he
              exact sound_step (pfx := ['\\', 'f']) (ih _ _ h) (fun _ _ hs => .esc .f hs)
            split at h
            · rename_i he; subst he
              exact sound_step (pfx := ['\\', 'n']) (ih _ _ h) (fun _ _ hs => .esc .n hs)
            split at h
            · rename_i he; subst he
              exact sound_step (pfx := ['\\', 'r']) (ih _ _ h) (fun _ _ hs => .esc .r hs)
            split at h
            · rename_i he; subst he
              exact sound_step (pfx := ['\\', 't']) (ih _ _ h) (fun _ _ hs => .esc .t hs)
            split at h
            · rename_i he; subst he
              exact sound_step (pfx := ['\\', '/']) (ih _ _ h) (fun _ _ hs => .esc .slash hs)
            split at h
            · rename_i he; subst he
              exact sound_step (pfx := ['\\', '\\']) (ih _ _ h) (fun _ _ hs => .esc .backslash hs)
            split at h
            · rename_i he; subst he
              cases hx : hexchar r2 with
              | none => simp [hx] at h
              | some p =>
                obtain ⟨ch, r3⟩ := p
                simp only [hx] at h
                obtain ⟨hs, rfl, hhs⟩ := hexchar_sound hx
                have := sound_step (pfx := '\\' :: 'u' :: hs) (ih _ _ h)
                  (fun body w hw => by
                    have := Abnf.StrChars.hex (q := q) hhs hw
                    simpa using this)
                simpa using this
            · cases h
        · rw [if_neg hb] at h
          split at h
          · rename_i hc
            simp only [Bool.or_eq_true, Bool.and_eq_true, decide_eq_true_eq] at hc
            refine sound_step (pfx := [c]) (ih _ _ h) (fun _ _ hs => ?_)
            rcases hc with (hc | hc) | hc
            · exact .unescaped hc hs
            · exact .otherQuote (Or.inl hc) hs
            · exact .otherQuote (Or.inr hc) hs
          · cases h

/-! ### stringBody: completeness -/

theorem escapable_ne_quote {e ch q : Char} (he : Abnf.Escapable e ch) (hq : q = '"' ∨ q = '\'') : e ≠ q := by
  rcases hq with rfl | rfl <;> cases he <;> decide

theorem stringBody_complete {q : Char} {body w : List Char} (h : Abnf.StrChars q body w)
    (hq : q = '"' ∨ q = '\'') :
    ∀ (fuel : Nat) (acc R : List Char), fuel ≥ body.length + 1 →
      stringBody q fuel (body ++ q :: R) acc = some (acc.reverse ++ w, R) := by
  induction h with
  | nil =>
    intro fuel acc R hf
    cases fuel with
    | zero => omega
    | succ n => rw [List.nil_append, stringBody_cons]; simp
  | @unescaped c rest v hu hs ih =>
    intro fuel acc R hf
    cases fuel with
    | zero => simp at hf
    | succ n =>
      rw [List.cons_append, stringBody_cons]
      have h1 : c ≠ q := by
        rcases hq with rfl | rfl
        · exact unescaped_ne_dq hu
        · exact unescaped_ne_sq hu
      simp only [if_neg h1, if_neg (unescaped_ne_backslash hu), hu, Bool.true_or, if_true]
      rw [ih n (c :: acc) R (by simp at hf; omega)]
      simp
  | @otherQuote c rest v ho hs ih =>
    intro fuel acc R hf
    cases fuel with
    | zero => simp at hf
    | succ n =>
      rw [List.cons_append, stringBody_cons]
      have h1 : c ≠ q := by
        rcases ho with ⟨rfl, rfl⟩ | ⟨rfl, rfl⟩ <;> decide
      have h2 : c ≠ '\\' := by
        rcases ho with ⟨rfl, _⟩ | ⟨rfl, _⟩ <;> decide
      have h3 : (isUnescaped c || (decide (c = '\'') && decide (q = '"')) || (decide (c = '"') && decide (q = '\''))) = true := by
        rcases ho with ⟨rfl, rfl⟩ | ⟨rfl, rfl⟩ <;> decide
      simp only [if_neg h1, if_neg h2, h3, if_true]
      rw [ih n (c :: acc) R (by simp at hf; omega)]
      simp
  | @escQuote rest v hs ih =>
    intro fuel acc R hf
    cases fuel with
    | zero => simp at hf
    | succ n =>
      rw [List.cons_append, List.cons_append, stringBody_cons]
      have h1 : ('\\' : Char) ≠ q := by
        rcases hq with rfl | rfl <;> decide
      simp only [if_neg h1, if_true]
      rw [ih n (q :: acc) R (by simp at hf; omega)]
      simp
  | @esc e ch rest v he hs ih =>
    intro fuel acc R hf
    cases fuel with
    | zero => simp at hf
    | succ n =>
      rw [List.cons_append, List.cons_append, stringBody_cons]
      have h1 : ('\\' : Char) ≠ q := by
        rcases hq with rfl | rfl <;> decide
      have h2 : e ≠ q := escapable_ne_quote he hq
      have hrec := ih n (ch :: acc) R (by simp at hf; omega)
      simp only [if_neg h1, if_true, if_neg h2]
      cases he <;> simp [hrec]
  | @hex hh ch rest v hx hs ih =>
    intro fuel acc R hf
    cases fuel with
    | zero => simp at hf
    | succ n =>
      rw [List.cons_append, List.cons_append, stringBody_cons]
      have h1 : ('\\' : Char) ≠ q := by
        rcases hq with rfl | rfl <;> decide
      have h2 : ('u' : Char) ≠ q := by
        rcases hq with rfl | rfl <;> decide
      have hrec := ih n (ch :: acc) R (by simp at hf; omega)
      simp only [if_neg h1, if_true, if_neg h2]
      rw [List.append_assoc, hexchar_complete hx]
      simp [hrec]

/-! ### stringLiteral -/

theorem stringLiteral_sound {inp rest : List Char} {v : Str} :
    stringLiteral inp = some (v, rest) → ∃ pre, inp = pre ++ rest ∧ Abnf.StringLit pre v := by
  intro h
  unfold stringLiteral at h
  split at h
  · obtain ⟨body, w, rfl, hs, rfl⟩ := stringBody_sound _ _ _ h
    exact ⟨'"' :: (body ++ ['"']), by simp, by simpa using Abnf.StringLit.dq hs⟩
  · obtain ⟨body, w, rfl, hs, rfl⟩ := stringBody_sound _ _ _ h
    exact ⟨'\'' :: (body ++ ['\'']), by simp, by simpa using Abnf.StringLit.sq hs⟩
  · cases h

theorem stringLiteral_complete {s : List Char} {v : Str} (h : Abnf.StringLit s v) (R : List Char) :
    stringLiteral (s ++ R) = some (v, R) := by
  cases h with
  | dq hs =>
    rename_i body
    have := stringBody_complete hs (Or.inl rfl) ((body ++ '"' :: R).length + 1) [] R (by simp)
    simp only [List.cons_append, List.append_assoc, List.nil_append, stringLiteral]
    simpa using this
  | sq hs =>
    rename_i body
    have := stringBody_complete hs (Or.inr rfl) ((body ++ '\'' :: R).length + 1) [] R (by simp)
    simp only [List.cons_append, List.append_assoc, List.nil_append, stringLiteral]
    simpa using this

theorem stringLit_head {s : List Char} {v : Str} (h : Abnf.StringLit s v) :
    ∃ t, s = '"' :: t ∨ s = '\'' :: t := by
  cases h with
  | dq hs => exact ⟨_, Or.inl rfl⟩
  | sq hs => exact ⟨_, Or.inr rfl⟩

theorem stringLiteral_none_of_head {inp : List Char} (h : ∀ c t, inp = c :: t → c ≠ '"' ∧ c ≠ '\'') :
    stringLiteral inp = none := by
  unfold stringLiteral
  split
  · exact absurd rfl (h _ _ rfl).1
  · exact absurd rfl (h _ _ rfl).2
  · rfl

end JPV.Proofs.AbnfP
