/-
`Proofs.Cf.ParseSegs` — the segment / selector parser (`parseQuery`, `parseSelectors`, `parseBracketed`,
`parseFilterSelector`) on the tokens of a derivation with filter selectors, for both values of `inFilter`,
given the expression statement `StExpr` for shorter token lists.
-/
import JPV.Proofs.Cf.ParseLit
set_option linter.unusedSimpArgs false
set_option linter.unusedVariables false
namespace JPV.Proofs.Cf
open JPV JPV.Impl JPV.Proofs.Rq

/-- the expression statement for token lists of length `≤ n`: `parseFilterExpr precLowest` on the tokens
of a logical-or-expr followed by a closer -/
def StExpr (env : Env) (n : Nat) : Prop :=
  ∀ (e : Spec.CExpr) (ts : List Token), OrShape e ts → TestOK env e → ts.length ≤ n →
    ∀ (x : Token) (more : List Token), isCloser x.kind = true →
    ∃ t ts', ts = t :: ts' ∧
      ExprRes env precLowest (Spec.abstractExpr e) ⟨t, [], ts' ++ x :: more⟩ x more

/-- the state `parseQuery` leaves behind on reaching `x` -/
def endState (inF : Bool) (x : Token) (more : List Token) : TStream :=
  if inF then ⟨x, [x], more⟩ else ⟨x, [], more⟩

/-- the segment statement for token lists of length `≤ n` -/
def StSegs (env : Env) (n : Nat) : Prop :=
  ∀ (segs : List Spec.CSegment) (ts : List Token), FSegsShape segs ts → SegsOK env segs → ts.length ≤ n →
    ∀ (inF : Bool) (acc : List Segment) (x : Token) (more : List Token), segStart x.kind = false →
    ∃ t ts', ts ++ x :: more = t :: ts' ∧
      Ev (fun F => parseQuery env inF F acc) ⟨t, [], ts'⟩
        (.ok (acc ++ Spec.abstractSegs segs), endState inF x more)

theorem selShape_ff {s : Spec.CSelector} {ts : List Token} (h : Cs.SelShape s ts) : Cs.ffSel s = true := by
  cases h <;> rfl

theorem selShape_first {s : Spec.CSelector} {t : Token} {ts : List Token} (h : Cs.SelShape s (t :: ts)) :
    t.kind ≠ .filter := by
  generalize hts : t :: ts = ts0 at h
  cases h with
  | wild k => simp only [List.cons.injEq] at hts; obtain ⟨rfl, -⟩ := hts; simp
  | name q body s k hq hd =>
    simp only [List.cons.injEq] at hts; obtain ⟨rfl, -⟩ := hts
    rcases Cs.strKind_cases q with e | e <;> simp [e]
  | index v i k hi => simp only [List.cons.injEq] at hts; obtain ⟨rfl, -⟩ := hts; simp
  | slice a b c ta tb tc k ha hb hc =>
    cases ha with
    | none => simp only [List.nil_append, List.cons.injEq] at hts; obtain ⟨rfl, -⟩ := hts; simp
    | some v i k1 hi => simp only [List.cons_append, List.cons.injEq] at hts; obtain ⟨rfl, -⟩ := hts; simp

theorem selPart_fuel (env : Env) (f : Nat) {t : Token} (hk : t.kind ≠ .filter) :
    Cs.selPart env f t = Cs.selPart env 0 t := by
  unfold Cs.selPart
  simp [hk]

theorem selPart_filter (env : Env) (f : Nat) {t : Token} (hk : t.kind = .filter) :
    Cs.selPart env f t = parseFilterSelector env f := by
  unfold Cs.selPart
  simp [hk]

section
variable {env : Env} {n : Nat}

/-- a filter selector -/
theorem sel_filter (hE : StExpr env n) {e : Spec.CExpr} {ts : List Token} (h : OrShape e ts)
    (hv : TestOK env e) (hl : ts.length ≤ n) (tok : Token) (hk : tok.kind = .filter)
    (x : Token) (more : List Token) (hx : isCloser x.kind = true) :
    ∃ st', Cs.Ready x more st' ∧
      Ev (fun F => Cs.selPart env F tok) ⟨tok, [], ts ++ x :: more⟩
        (.ok (.filter (Spec.abstractExpr e)), st') := by
  obtain ⟨t, ts', rfl, px, st', he, hr, hev⟩ := hE e ts h hv hl x more hx
  refine ⟨st', hr, Ev.step1 hev fun f e1 => ?_⟩
  have htl := testLike_of e hv
  rw [← he] at htl
  have hne : tok.kind ≠ .eof := by rw [hk]; simp
  rw [selPart_filter env _ hk, parseFilterSelector]
  simp only [exec_bind, exec_nextTok, List.cons_append, next_fresh _ _ _ hne, e1]
  cases hpe : px.e with
  | call f args =>
    obtain ⟨fn, hf, hrv⟩ := htl.2 f args hpe
    rw [hpe] at he
    simp [hf, hrv, exec_pure, ← he, isLiteral, exec_bind]
  | _ =>
    rw [hpe] at he
    have := htl.1
    rw [hpe] at this
    simp [exec_pure, ← he, exec_bind, this]

/-- one selector -/
theorem sel_exec (hE : StExpr env n) {s : Spec.CSelector} {ts : List Token} (h : FSelShape s ts)
    (hv : SelOK env s) (hl : ts.length ≤ n + 1) (x : Token) (more : List Token) (hx : isCloser x.kind = true) :
    ∃ t ts', ts = t :: ts' ∧ t.kind ≠ .rbracket ∧ ∃ st', Cs.Ready x more st' ∧
      Ev (fun F => Cs.selPart env F t) ⟨t, [], ts' ++ x :: more⟩ (.ok (Spec.abstractSel s), st') := by
  have hx1 : x.kind ≠ .index := by intro e; rw [e] at hx; simp [isCloser] at hx
  have hx2 : x.kind ≠ .colon := by intro e; rw [e] at hx; simp [isCloser] at hx
  cases h with
  | plain s ts hs =>
    obtain ⟨t, ts', rfl, htk, st', he, hr⟩ := Cs.selPart_exec env 0 hs (hv.ints (selShape_ff hs)) x more hx1 hx2
    refine ⟨t, ts', rfl, htk, st', hr, ⟨0, fun F _ => ?_⟩⟩
    show exec (Cs.selPart env F t) _ = _
    rw [selPart_fuel env F (selShape_first hs)]
    exact he
  | filter e ts v k ho =>
    obtain ⟨st', hr, hev⟩ := sel_filter hE ho hv.filter (by simp at hl; omega) ⟨.filter, v, k⟩ rfl x more hx
    exact ⟨_, _, rfl, by simp, st', hr, by simpa [Spec.abstractSel] using hev⟩

theorem FMoreShape.follow {ss : List Spec.CSelector} {ts : List Token} (h : FMoreShape ss ts) (rb : Token)
    (more2 : List Token) (hrb : rb.kind = .rbracket) :
    ∃ x more, ts ++ rb :: more2 = x :: more ∧ (x.kind = .comma ∨ x.kind = .rbracket) := by
  cases h with
  | nil => exact ⟨rb, more2, rfl, .inr hrb⟩
  | cons => exact ⟨_, _, rfl, .inl rfl⟩

theorem closer_of_comma_rbracket {k : TokKind} (h : k = .comma ∨ k = .rbracket) : isCloser k = true := by
  rcases h with rfl | rfl <;> rfl

/-- one iteration of `parseBracketed` -/
theorem brack_step (open_ : Token) (acc : List Selector) {t : Token} {rest : List Token} {st' : TStream}
    {sel : Selector} {R : Except Err (List Selector) × TStream} (htk : t.kind ≠ .rbracket)
    (hev : Ev (fun F => Cs.selPart env F t) ⟨t, [], rest⟩ (.ok sel, st'))
    (hrec : Ev (fun F => Cs.tailPart env open_ F acc sel) st' R) :
    Ev (fun F => parseBracketed env open_ F acc) ⟨t, [], rest⟩ R := by
  refine Ev.step2 hev hrec fun f e1 e2 => ?_
  rw [Cs.parseBracketed_eq]
  simp only [exec_bind, exec_cur, htk, if_false, e1, e2]

/-- the `parseBracketed` loop over the remaining selectors of a bracketed selection -/
theorem parse_more (hE : StExpr env n) (open_ : Token) : ∀ (ss : List Spec.CSelector) (ts : List Token),
    FMoreShape ss ts → SelsOK env ss → ts.length ≤ n + 1 →
    ∀ (acc : List Selector) (sel : Selector) (rb : Token) (more2 : List Token) (x : Token)
      (more : List Token) (st : TStream), rb.kind = .rbracket →
      x :: more = ts ++ rb :: more2 → Cs.Ready x more st →
      Ev (fun F => Cs.tailPart env open_ F acc sel) st
        (.ok (acc ++ [sel] ++ Spec.abstractSels ss), ⟨rb, [], more2⟩) := by
  intro ss
  induction ss with
  | nil =>
    intro ts h _ _ acc sel rb more2 x more st hrb heq hst
    cases h
    simp only [List.nil_append, List.cons.injEq] at heq
    obtain ⟨rfl, rfl⟩ := heq
    refine Ev.step0 fun f => ?_
    rw [Cs.tailPart_close env open_ _ acc sel hst hrb, parseBracketed_close _ _ _ _ _ hrb (by simp)]
    simp [Spec.abstractSels]
  | cons s ss ih =>
    intro ts h hv hl acc sel rb more2 x more st hrb heq hst
    cases h with
    | cons s ss k t1 t2 hs hm =>
      simp only [List.cons_append, List.cons.injEq] at heq
      obtain ⟨rfl, rfl⟩ := heq
      obtain ⟨x', more', ht2, hx'⟩ := hm.follow rb more2 hrb
      obtain ⟨t, ts', rfl, htk, st', hready, hev⟩ := sel_exec hE hs hv.cons.1 (by simp at hl; omega) x' more'
        (closer_of_comma_rbracket hx')
      have hrec := ih t2 hm hv.cons.2 (by simp at hl; omega) (acc ++ [sel]) (Spec.abstractSel s) rb more2 x' more'
        st' hrb ht2.symm hready
      have hB := brack_step open_ (acc ++ [sel]) htk hev hrec
      refine Ev.same1 hB fun f e => ?_
      simp only [List.append_assoc, List.cons_append] at hst
      rw [Cs.tailPart_comma env open_ _ acc sel hst rfl htk, ht2, e]
      simp [Spec.abstractSels]

/-- `parseSelectors` on a bracketed selection -/
theorem parse_brack (hE : StExpr env n) {sels : List Spec.CSelector} {ts : List Token} (h : FSelsShape sels ts)
    (hv : SelsOK env sels) (hl : ts.length ≤ n + 1)
    (lb rb : Token) (more : List Token) (hlb : lb.kind = .lbracket) (hrb : rb.kind = .rbracket) :
    Ev (fun F => parseSelectors env F) ⟨lb, [], ts ++ rb :: more⟩
      (.ok (Spec.abstractSels sels), ⟨rb, [], more⟩) := by
  cases h with
  | mk s ss t1 t2 hs hm =>
    obtain ⟨x', more', ht2, hx'⟩ := hm.follow rb more hrb
    obtain ⟨t, ts', rfl, htk, st', hready, hev⟩ := sel_exec hE hs hv.cons.1 (by simp at hl; omega) x' more'
      (closer_of_comma_rbracket hx')
    have hrec := parse_more hE lb ss t2 hm hv.cons.2 (by simp at hl; omega) [] (Spec.abstractSel s) rb more x' more'
      st' hrb ht2.symm hready
    have hlbe : lb.kind ≠ .eof := by rw [hlb]; simp
    have hB := brack_step lb [] htk hev hrec
    refine Ev.step1 hB fun f e => ?_
    rw [parseSelectors]
    simp only [List.append_assoc, List.cons_append, ht2]
    simp [exec_bind, exec_cur, hlb, exec_nextTok, next_fresh _ _ _ hlbe, e, exec_pure, Spec.abstractSels]

theorem sels_prop (v : Str) (k : Int) (p r : List Token) :
    Ev (fun F => parseSelectors env F) ⟨⟨.property, v, k⟩, p, r⟩ (.ok [.name v], ⟨⟨.property, v, k⟩, p, r⟩) := by
  refine Ev.step0 fun f => ?_
  rw [parseSelectors]
  simp [exec_bind, exec_cur, exec_pure]

theorem sels_wild (v : Str) (k : Int) (p r : List Token) :
    Ev (fun F => parseSelectors env F) ⟨⟨.wild, v, k⟩, p, r⟩ (.ok [.wild], ⟨⟨.wild, v, k⟩, p, r⟩) := by
  refine Ev.step0 fun f => ?_
  rw [parseSelectors]
  simp [exec_bind, exec_cur, exec_pure]

/-- a child segment in `parseQuery` -/
theorem seg_child (inF : Bool) (acc : List Segment) {t last x : Token} {rest more : List Token}
    {sels : List Selector} {R : Except Err (List Segment) × TStream}
    (ht : t.kind = .lbracket ∨ t.kind = .property ∨ t.kind = .wild) (hlast : last.kind ≠ .eof)
    (hs : Ev (fun F => parseSelectors env F) ⟨t, [], rest⟩ (.ok sels, ⟨last, [], x :: more⟩))
    (hR : Ev (fun F => parseQuery env inF F (acc ++ [.child sels])) ⟨x, [], more⟩ R) :
    Ev (fun F => parseQuery env inF F acc) ⟨t, [], rest⟩ R := by
  refine Ev.step2 hs hR fun f e1 e2 => ?_
  rw [parseQuery]
  have hd : t.kind ≠ .doubleDot := by rcases ht with e | e | e <;> simp [e]
  have hc : (t.kind = .lbracket ∨ t.kind = .property) ∨ t.kind = .wild := by
    rcases ht with e | e | e <;> simp [e]
  simp [exec_bind, exec_cur, exec_nextTok, exec_pure, hd, hc, e1, next_fresh _ _ _ hlast, e2]

/-- a descendant segment in `parseQuery` -/
theorem seg_desc (inF : Bool) (acc : List Segment) {t t2 last x : Token} {rest more : List Token}
    {sels : List Selector} {R : Except Err (List Segment) × TStream}
    (ht : t.kind = .doubleDot) (hlast : last.kind ≠ .eof)
    (hs : Ev (fun F => parseSelectors env F) ⟨t2, [], rest⟩ (.ok sels, ⟨last, [], x :: more⟩))
    (hR : Ev (fun F => parseQuery env inF F (acc ++ [.desc sels])) ⟨x, [], more⟩ R) :
    Ev (fun F => parseQuery env inF F acc) ⟨t, [], t2 :: rest⟩ R := by
  refine Ev.step2 hs hR fun f e1 e2 => ?_
  rw [parseQuery]
  have hne : t.kind ≠ .eof := by simp [ht]
  simp [exec_bind, exec_cur, exec_nextTok, exec_pure, ht, e1, next_fresh _ _ _ hne, next_fresh _ _ _ hlast, e2]

/-- the selectors of a segment -/
def segSels : Spec.CSegment → List Spec.CSelector
  | .child sels _ => sels
  | .desc sels => sels

/-- one `parseQuery` iteration consumes the tokens of one segment -/
theorem parse_seg (hE : StExpr env n) {seg : Spec.CSegment} {ts : List Token} (h : FSegShape seg ts)
    (hv : SelsOK env (segSels seg)) (hl : ts.length ≤ n + 1)
    (inF : Bool) (acc : List Segment) (x : Token) (more : List Token) :
    ∃ t ts', ts = t :: ts' ∧ ∀ R,
      Ev (fun F => parseQuery env inF F (acc ++ [Cs.absSeg seg])) ⟨x, [], more⟩ R →
      Ev (fun F => parseQuery env inF F acc) ⟨t, [], ts' ++ x :: more⟩ R := by
  cases h with
  | dotName s k =>
    refine ⟨_, _, rfl, fun R hR => ?_⟩
    exact seg_child inF acc (.inr (.inl rfl)) (by simp) (sels_prop s k [] _)
      (by simpa [Cs.absSeg, Spec.abstractSels, Spec.abstractSel] using hR)
  | dotWild k =>
    refine ⟨_, _, rfl, fun R hR => ?_⟩
    exact seg_child inF acc (.inr (.inr rfl)) (by simp) (sels_wild _ k [] _)
      (by simpa [Cs.absSeg, Spec.abstractSels, Spec.abstractSel] using hR)
  | brack sels fl ts k k' hs =>
    refine ⟨_, _, rfl, fun R hR => ?_⟩
    have hb := parse_brack hE hs hv (by simp at hl; omega) ⟨.lbracket, ['['], k⟩ ⟨.rbracket, [']'], k'⟩
      (x :: more) rfl rfl
    simp only [List.append_assoc, List.cons_append, List.nil_append]
    exact seg_child inF acc (.inl rfl) (by simp) hb (by simpa [Cs.absSeg] using hR)
  | descName s k k' =>
    refine ⟨_, _, rfl, fun R hR => ?_⟩
    exact seg_desc inF acc rfl (by simp) (sels_prop s k' [] _)
      (by simpa [Cs.absSeg, Spec.abstractSels, Spec.abstractSel] using hR)
  | descWild k k' =>
    refine ⟨_, _, rfl, fun R hR => ?_⟩
    exact seg_desc inF acc rfl (by simp) (sels_wild _ k' [] _)
      (by simpa [Cs.absSeg, Spec.abstractSels, Spec.abstractSel] using hR)
  | descBrack sels ts k0 k k' hs =>
    refine ⟨_, _, rfl, fun R hR => ?_⟩
    have hb := parse_brack hE hs hv (by simp at hl; omega) ⟨.lbracket, ['['], k⟩ ⟨.rbracket, [']'], k'⟩
      (x :: more) rfl rfl
    simp only [List.append_assoc, List.cons_append, List.nil_append]
    exact seg_desc inF acc rfl (by simp) hb (by simpa [Cs.absSeg] using hR)

theorem FSegShape.length_pos {seg : Spec.CSegment} {ts : List Token} (h : FSegShape seg ts) : 1 ≤ ts.length := by
  cases h <;> simp

theorem segsOK_cons {s : Spec.CSegment} {ss : List Spec.CSegment} (h : SegsOK env (s :: ss)) :
    SelsOK env (segSels s) ∧ SegsOK env ss := by
  cases s with
  | child sels b => exact h.cons_child
  | desc sels => exact h.cons_desc

/-- `parseQuery` on the tokens of a derivation followed by a token that does not start a segment -/
theorem parse_segs (hE : StExpr env n) : StSegs env (n + 1) := by
  intro segs
  induction segs with
  | nil =>
    intro ts h _ _ inF acc x more hx
    cases h
    refine ⟨x, more, rfl, Ev.step0 fun f => ?_⟩
    rw [parseQuery]
    have h1 : x.kind ≠ .doubleDot := by intro e; rw [e] at hx; simp [segStart] at hx
    have h2 : ¬ ((x.kind = .lbracket ∨ x.kind = .property) ∨ x.kind = .wild) := by
      rintro ((e | e) | e) <;> rw [e] at hx <;> simp [segStart] at hx
    cases inF <;>
      simp [exec_bind, exec_cur, exec_pure, exec_pushTok, h1, h2, Spec.abstractSegs, endState, TStream.push,
        Cs.exec_map]
  | cons s ss ih =>
    intro ts h hv hl inF acc x more hx
    cases h with
    | cons s ss t1 t2 hs hss =>
      have h1 := hs.length_pos
      obtain ⟨y, more', hy, hrec⟩ := ih t2 hss (segsOK_cons hv).2 (by simp at hl; omega) inF
        (acc ++ [Cs.absSeg s]) x more hx
      obtain ⟨t, ts', rfl, hseg⟩ := parse_seg hE hs (segsOK_cons hv).1 (by simp at hl; omega) inF acc y more'
      refine ⟨t, ts' ++ y :: more', by simp [hy], ?_⟩
      have := hseg _ hrec
      rw [Cs.abstractSegs_cons]
      simpa using this

end

end JPV.Proofs.Cf
