/-
`Proofs.Cs.LexMain` — the lexer on a filter-free query the grammar derives.
-/
import JPV.Proofs.Cs.LexSeg
set_option linter.unusedSimpArgs false
namespace JPV.Proofs.Cs
open JPV JPV.Impl JPV.Proofs.Rq

theorem lex_segments : ∀ (f : Nat) (inp : List Char) (segs : List Spec.CSegment),
    Spec.segments f inp = some (segs, []) → ffSegs segs = true →
    ∀ (l : Lexer) (pre : List Char) (toks : List Token), St l pre [] inp toks [] →
    ∃ lf ts ke, Halts .segment l lf ∧ lf.brackets = [] ∧
      lf.toks = ⟨.eof, [], ke⟩ :: (ts.reverse ++ toks) ∧ SegsShape segs ts := by
  intro f
  induction f with
  | zero => intro inp segs h; rw [Spec.segments] at h; cases h
  | succ f ih =>
    intro inp segs h hff l pre toks hst
    rw [Spec.segments] at h
    cases hseg : Spec.segment f (Spec.skipS inp) with
    | none =>
      simp only [hseg, Option.some.injEq, Prod.mk.injEq] at h
      obtain ⟨rfl, rfl⟩ := h
      have s1 := lexSegment_eof hst
      have hp : l.peek = none := by rw [hst.peek]; rfl
      rw [Lexer.adv_none hp] at s1
      have h1 := hst.emit .eof
      exact ⟨_, [], _, .stop s1, h1.br, by rw [h1.toks]; rfl, .nil⟩
    | some p =>
      obtain ⟨seg, r⟩ := p
      simp only [hseg] at h
      cases hsegs : Spec.segments f r with
      | none => simp [hsegs] at h
      | some p2 =>
        obtain ⟨segs', r2⟩ := p2
        simp only [hsegs, Option.some.injEq, Prod.mk.injEq] at h
        obtain ⟨rfl, rfl⟩ := h
        simp only [ffSegs, List.all_cons, Bool.and_eq_true] at hff
        cases f with
        | zero => rw [Spec.segment] at hseg; cases hseg
        | succ f' =>
          have hne : Spec.skipS inp ≠ [] := by
            intro e
            rw [e, Spec.segment] at hseg
            · cases hseg
            all_goals (intro r e; cases e)
          obtain ⟨l1, pre1, h1, e1⟩ := step_segment_ws hst hne
          obtain ⟨lm, sm, l2, pre2, ts, s1, r1, h2, hsh⟩ := lex_segment hseg hff.1 h1
          obtain ⟨lf, ts', ke, hh, hb, ht, hsh'⟩ := ih r segs' hsegs hff.2 l2 pre2 _ h2
          refine ⟨lf, ts ++ ts', ke, .step (e1.trans s1) (r1.halts hh), hb, ?_, .cons _ _ _ _ hsh hsh'⟩
          rw [ht]; simp

/-- the lexer on a query the grammar derives without filter selectors -/
theorem tokenize_valid (s : Str) (c : List Spec.CSegment) (hp : Spec.parseQuery s = .valid c)
    (hff : ffSegs c = true) :
    ∃ ts k0 ke, SegsShape c ts ∧
      tokenize s = .ok (⟨.root, ['$'], k0⟩ :: (ts ++ [⟨.eof, [], ke⟩])) := by
  unfold Spec.parseQuery at hp
  split at hp
  · rename_i r
    split at hp
    · rename_i segs hsegs
      have hc : segs = c := by
        simp only [] at hp
        split at hp
        · cases hp
        · split at hp
          · cases hp
          · simpa using hp
      subst hc
      generalize hs : ('$' :: r : Str) = s at hsegs
      have h0 : St ({ q := s.toArray } : Lexer) [] [] ('$' :: r) [] [] :=
        ⟨by simp [hs], rfl, rfl, rfl, rfl, rfl⟩
      have s1 := lexRoot_exec h0
      have h1 := h0.adv.emit .root
      obtain ⟨lf, ts, ke, hh, hb, ht, hsh⟩ := lex_segments _ _ _ hsegs hff _ _ _ h1
      have hrun := run_of_halts (n := s.length) (.step s1 hh) (lexFuel s.length) (Lexer.Inv.init s)
        (by simp [pot, rank, lexFuel])
      refine ⟨ts, 0, ke, hsh, ?_⟩
      unfold tokenize
      simp only [hrun, bind, Except.bind, hb, ht]
      simp [pure, Except.pure]
    · cases hp
  · cases hp

end JPV.Proofs.Cs
