/-
`Proofs.Cf.LexFDefault` — single-step execution lemmas for the tokens that `lexFilter` hands to
`lexFilterDefault` after `backup`: `&&`, `||`, `true` / `false` / `null`, numbers and function names.
-/
import JPV.Proofs.Cf.LexFSteps
import JPV.Proofs.Cf.Shape
namespace JPV.Proofs.Cf
open JPV JPV.Impl JPV.Proofs.Rq

variable {D : Int} {l : Lexer} {pre rest r : List Char} {toks : List Token} {br : List (Char × Nat)}

/-! ### entering the default branch -/

/-- the characters `lexFilter` matches explicitly -/
def isFilterSpecial (c : Char) : Bool :=
  c = ']' || c = ',' || c = '\'' || c = '"' || c = '(' || c = ')' || c = '$' || c = '@' || c = '.' ||
  c = '!' || c = '=' || c = '<' || c = '>'

/-- on any other (non-blank) character one call of `lexFilter` is `lexFilterDefault` at the same position -/
theorem lexFilter_default {c : Char} (h : FSt D l pre [] (c :: r) toks br) (hw : isWs c = false)
    (hc : isFilterSpecial c = false) :
    ∃ l1, FSt D l1 pre [] (c :: r) toks br ∧ Impl.step .filter l = lexFilterDefault l1 := by
  have hp : l.peek = some c := by rw [h.peek]; rfl
  have hws := h.ws_none (by intro c' hc'; simp at hc'; subst hc'; exact hw)
  obtain ⟨l1, hb, h1⟩ := h.adv.backup
  refine ⟨l1, h1, ?_⟩
  simp only [Impl.step, lexFilter, hws, Lexer.next_eq, hp, bind, Except.bind]
  split
  all_goals first | (exfalso; rename_i heq; simp only [Option.some.injEq] at heq; subst heq; revert hc; decide) | skip
  · rename_i heq; cases heq
  · simp only [hb]

theorem digit_not_special {c : Char} (hd : isDigit c = true) : isFilterSpecial c = false := by
  rw [isDigit_iff] at hd
  simp only [isFilterSpecial, Bool.or_eq_false_iff, decide_eq_false_iff_not]
  refine ⟨⟨⟨⟨⟨⟨⟨⟨⟨⟨⟨⟨?_, ?_⟩, ?_⟩, ?_⟩, ?_⟩, ?_⟩, ?_⟩, ?_⟩, ?_⟩, ?_⟩, ?_⟩, ?_⟩, ?_⟩ <;>
    (rintro rfl; revert hd; decide)

theorem isLower_iff (c : Char) : isLower c = true ↔ 97 ≤ c.toNat ∧ c.toNat ≤ 122 := by
  simp [isLower, Char.le_def, UInt32.le_iff_toNat_le]

theorem lower_not_special {c : Char} (hd : isLower c = true) : isFilterSpecial c = false := by
  rw [isLower_iff] at hd
  simp only [isFilterSpecial, Bool.or_eq_false_iff, decide_eq_false_iff_not]
  refine ⟨⟨⟨⟨⟨⟨⟨⟨⟨⟨⟨⟨?_, ?_⟩, ?_⟩, ?_⟩, ?_⟩, ?_⟩, ?_⟩, ?_⟩, ?_⟩, ?_⟩, ?_⟩, ?_⟩, ?_⟩ <;>
    (rintro rfl; revert hd; decide)

theorem lower_not_ws {c : Char} (hd : isLower c = true) : isWs c = false := by
  rw [isLower_iff] at hd
  simp only [isWs, Bool.or_eq_false_iff, decide_eq_false_iff_not]
  refine ⟨⟨⟨?_, ?_⟩, ?_⟩, ?_⟩ <;> (rintro rfl; revert hd; decide)

theorem lower_not_digit {c : Char} (hd : isLower c = true) : isDigit c = false := by
  rw [isLower_iff] at hd
  cases h : isDigit c with
  | false => rfl
  | true => rw [isDigit_iff] at h; omega

/-! ### literal prefixes -/

theorem kw_and : "&&".toList = ['&', '&'] := by rfl
theorem kw_or : "||".toList = ['|', '|'] := by rfl
theorem kw_true : "true".toList = ['t', 'r', 'u', 'e'] := by rfl
theorem kw_false : "false".toList = ['f', 'a', 'l', 's', 'e'] := by rfl
theorem kw_null : "null".toList = ['n', 'u', 'l', 'l'] := by rfl

/-- a literal does not match when the first characters differ -/
theorem isPrefixOf_head_ne {a c : Char} (s t : List Char) (h : c ≠ a) : (a :: s).isPrefixOf (c :: t) = false := by
  simp [List.isPrefixOf, Ne.symm h]

/-- a literal without the character `d` that is not a prefix of `a` is not a prefix of `a ++ d :: b` -/
theorem isPrefixOf_append_false {d : Char} : ∀ (s a b : List Char), s.isPrefixOf a = false → (∀ x ∈ s, x ≠ d) →
    s.isPrefixOf (a ++ d :: b) = false := by
  intro s
  induction s with
  | nil => intro a b h; simp at h
  | cons x s ih =>
    intro a b h hd
    cases a with
    | nil => simp [List.isPrefixOf, hd x (by simp)]
    | cons y a =>
      simp only [List.isPrefixOf, List.cons_append, Bool.and_eq_false_iff] at h ⊢
      rcases h with h | h
      · exact .inl h
      · exact .inr (ih a b h (fun z hz => hd z (by simp [hz])))

/-! ### the keyword patterns `true(?![a-z_0-9(])`, `false(?!…)`, `null(?!…)` -/

/-- what may follow a keyword literal: the end of the input, or a character that neither continues a
function name nor opens a call -/
def kwEnd : List Char → Bool
  | [] => true
  | c :: _ => !(isLower c || c = '_' || isDigit c || c = '(')

theorem reKeyword_cons (k a : Char) (kw rest : List Char) :
    reKeyword (k :: kw) (a :: rest) = if k = a then (reKeyword kw rest).map (· + 1) else none := by
  by_cases h : k = a
  · subst h
    simp only [reKeyword, List.isPrefixOf, beq_self_eq_true, Bool.true_and, List.length_cons, List.drop_succ_cons,
      if_true]
    split
    · split
      · split <;> rfl
      · rfl
    · rfl
  · have hb : (k == a) = false := by simpa using h
    simp only [reKeyword, List.isPrefixOf, hb, Bool.false_and, if_neg h]
    rfl

/-- the keyword pattern does not match when the first characters differ -/
theorem reKeyword_head_ne {a c : Char} (s t : List Char) (h : c ≠ a) : reKeyword (a :: s) (c :: t) = none := by
  rw [reKeyword_cons, if_neg (Ne.symm h)]

/-- the keyword followed by something that ends it -/
theorem reKeyword_append : ∀ (kw : List Char) {r : List Char}, kwEnd r = true →
    reKeyword kw (kw ++ r) = some kw.length := by
  intro kw
  induction kw with
  | nil =>
    intro r h
    cases r with
    | nil => rfl
    | cons c t =>
      simp only [kwEnd, Bool.not_eq_true'] at h
      simp [reKeyword, h]
  | cons k kw ih =>
    intro r h
    rw [List.cons_append, reKeyword_cons, if_pos rfl, ih h]
    rfl

/-- `name(` with `name = [a-z_0-9]*` is no keyword literal, whatever the keyword (a keyword has no `(`):
either the keyword is no prefix, or it is followed by a name character or by the `(` -/
theorem reKeyword_name : ∀ (kw name : List Char) (r : List Char), (∀ x ∈ kw, x ≠ '(') →
    (∀ x ∈ name, (isLower x || x = '_' || isDigit x) = true) → reKeyword kw (name ++ '(' :: r) = none := by
  intro kw
  induction kw with
  | nil =>
    intro name r _ hn
    cases name with
    | nil => rfl
    | cons a name =>
      have := hn a (by simp)
      simp only [List.cons_append, reKeyword, List.isPrefixOf, if_true, List.length_nil, List.drop_zero]
      rw [if_pos (by rw [Bool.or_eq_true]; exact .inl this)]
  | cons k kw ih =>
    intro name r hk hn
    cases name with
    | nil =>
      exact reKeyword_head_ne _ _ (Ne.symm (hk k (by simp)))
    | cons a name =>
      rw [List.cons_append, reKeyword_cons]
      split
      · rw [ih name r (fun x hx => hk x (by simp [hx])) (fun x hx => hn x (by simp [hx]))]; rfl
      · rfl

/-! ### the number patterns on input that is not a number -/

theorem reSignedDigits_none {c : Char} (t : List Char) (h1 : c ≠ '-') (h2 : isDigit c = false) :
    reSignedDigits (c :: t) = none := by
  unfold reSignedDigits
  split
  rename_i heq
  split at heq
  · rename_i heq'; injection heq' with e _; exact absurd e h1
  · cases heq; simp [spanLen, h2]

theorem reInt_none {c : Char} (t : List Char) (h1 : c ≠ '-') (h2 : isDigit c = false) :
    reInt (c :: t) = none := by
  simp [reInt, reSignedDigits_none t h1 h2]

theorem reFloat_none {c : Char} (t : List Char) (h1 : c ≠ '-') (h2 : isDigit c = false) (h3 : c ≠ ':') :
    reFloat (c :: t) = none := by
  have e1 : reFloatAlt1 (c :: t) = none := by
    unfold reFloatAlt1
    split
    · rename_i heq; injection heq with e _; exact absurd e h3
    · simp [reSignedDigits_none t h1 h2]
  have e2 : reFloatAlt2 (c :: t) = none := by
    simp [reFloatAlt2, reSignedDigits_none t h1 h2]
  simp [reFloat, e1, e2]

/-! ### `&&` and `||` -/

theorem lexFilterDefault_and (h : FSt D l pre [] ('&' :: '&' :: r) toks br) :
    ∃ l', lexFilterDefault l = .ok (l', some .filter) ∧
      FSt D l' (pre ++ ['&', '&']) [] r (⟨.and, ['&', '&'], pre.length⟩ :: toks) br := by
  obtain ⟨l1, ha, h1⟩ := h.accept (s := ['&', '&']) (r := r) rfl
  have h2 := h1.emit .and
  simp only [List.nil_append] at h2
  exact ⟨_, by simp only [lexFilterDefault, kw_and, ha, goto], h2⟩

theorem lexFilter_and (h : FSt D l pre [] ('&' :: '&' :: r) toks br) :
    ∃ l', Impl.step .filter l = .ok (l', some .filter) ∧
      FSt D l' (pre ++ ['&', '&']) [] r (⟨.and, ['&', '&'], pre.length⟩ :: toks) br := by
  obtain ⟨l1, h1, hs⟩ := lexFilter_default h (by decide) (by decide)
  rw [hs]; exact lexFilterDefault_and h1

theorem lexFilterDefault_or (h : FSt D l pre [] ('|' :: '|' :: r) toks br) :
    ∃ l', lexFilterDefault l = .ok (l', some .filter) ∧
      FSt D l' (pre ++ ['|', '|']) [] r (⟨.or, ['|', '|'], pre.length⟩ :: toks) br := by
  have n1 := h.accept_none (s := ['&', '&']) (isPrefixOf_head_ne _ _ (by decide))
  obtain ⟨l1, ha, h1⟩ := h.accept (s := ['|', '|']) (r := r) rfl
  have h2 := h1.emit .or
  simp only [List.nil_append] at h2
  exact ⟨_, by simp only [lexFilterDefault, kw_and, kw_or, n1, ha, goto], h2⟩

theorem lexFilter_or (h : FSt D l pre [] ('|' :: '|' :: r) toks br) :
    ∃ l', Impl.step .filter l = .ok (l', some .filter) ∧
      FSt D l' (pre ++ ['|', '|']) [] r (⟨.or, ['|', '|'], pre.length⟩ :: toks) br := by
  obtain ⟨l1, h1, hs⟩ := lexFilter_default h (by decide) (by decide)
  rw [hs]; exact lexFilterDefault_or h1

/-! ### `true`, `false`, `null` (not followed by a function-name character or `(`) -/

theorem lexFilterDefault_true (h : FSt D l pre [] ('t' :: 'r' :: 'u' :: 'e' :: r) toks br) (hf : kwEnd r = true) :
    ∃ l', lexFilterDefault l = .ok (l', some .filter) ∧
      FSt D l' (pre ++ ['t', 'r', 'u', 'e']) [] r (⟨.true_, ['t', 'r', 'u', 'e'], pre.length⟩ :: toks) br := by
  have n1 := h.accept_none (s := ['&', '&']) (isPrefixOf_head_ne _ _ (by decide))
  have n2 := h.accept_none (s := ['|', '|']) (isPrefixOf_head_ne _ _ (by decide))
  have hre : reKeyword ['t', 'r', 'u', 'e'] ('t' :: 'r' :: 'u' :: 'e' :: r) = some ['t', 'r', 'u', 'e'].length := reKeyword_append ['t', 'r', 'u', 'e'] hf
  obtain ⟨l1, ha, h1⟩ := h.acceptMatch hre (by simp)
  have e1 : ('t' :: 'r' :: 'u' :: 'e' :: r).take ['t', 'r', 'u', 'e'].length = ['t', 'r', 'u', 'e'] := rfl
  have e2 : ('t' :: 'r' :: 'u' :: 'e' :: r).drop ['t', 'r', 'u', 'e'].length = r := rfl
  rw [e1, e2] at h1
  have h2 := h1.emit .true_
  simp only [List.nil_append] at h2
  exact ⟨_, by simp only [lexFilterDefault, kw_and, kw_or, kw_true, n1, n2, ha, goto], h2⟩

theorem lexFilter_true (h : FSt D l pre [] ('t' :: 'r' :: 'u' :: 'e' :: r) toks br) (hf : kwEnd r = true) :
    ∃ l', Impl.step .filter l = .ok (l', some .filter) ∧
      FSt D l' (pre ++ ['t', 'r', 'u', 'e']) [] r (⟨.true_, ['t', 'r', 'u', 'e'], pre.length⟩ :: toks) br := by
  obtain ⟨l1, h1, hs⟩ := lexFilter_default h (by decide) (by decide)
  rw [hs]; exact lexFilterDefault_true h1 hf

theorem lexFilterDefault_false (h : FSt D l pre [] ('f' :: 'a' :: 'l' :: 's' :: 'e' :: r) toks br) (hf : kwEnd r = true) :
    ∃ l', lexFilterDefault l = .ok (l', some .filter) ∧
      FSt D l' (pre ++ ['f', 'a', 'l', 's', 'e']) [] r (⟨.false_, ['f', 'a', 'l', 's', 'e'], pre.length⟩ :: toks) br := by
  have n1 := h.accept_none (s := ['&', '&']) (isPrefixOf_head_ne _ _ (by decide))
  have n2 := h.accept_none (s := ['|', '|']) (isPrefixOf_head_ne _ _ (by decide))
  have n3 := h.acceptMatch_none (re := reKeyword ['t', 'r', 'u', 'e']) (reKeyword_head_ne _ _ (by decide))
  have hre : reKeyword ['f', 'a', 'l', 's', 'e'] ('f' :: 'a' :: 'l' :: 's' :: 'e' :: r) = some ['f', 'a', 'l', 's', 'e'].length := reKeyword_append ['f', 'a', 'l', 's', 'e'] hf
  obtain ⟨l1, ha, h1⟩ := h.acceptMatch hre (by simp)
  have e1 : ('f' :: 'a' :: 'l' :: 's' :: 'e' :: r).take ['f', 'a', 'l', 's', 'e'].length = ['f', 'a', 'l', 's', 'e'] := rfl
  have e2 : ('f' :: 'a' :: 'l' :: 's' :: 'e' :: r).drop ['f', 'a', 'l', 's', 'e'].length = r := rfl
  rw [e1, e2] at h1
  have h2 := h1.emit .false_
  simp only [List.nil_append] at h2
  exact ⟨_, by simp only [lexFilterDefault, kw_and, kw_or, kw_true, kw_false, n1, n2, n3, ha, goto], h2⟩

theorem lexFilter_false (h : FSt D l pre [] ('f' :: 'a' :: 'l' :: 's' :: 'e' :: r) toks br) (hf : kwEnd r = true) :
    ∃ l', Impl.step .filter l = .ok (l', some .filter) ∧
      FSt D l' (pre ++ ['f', 'a', 'l', 's', 'e']) [] r (⟨.false_, ['f', 'a', 'l', 's', 'e'], pre.length⟩ :: toks) br := by
  obtain ⟨l1, h1, hs⟩ := lexFilter_default h (by decide) (by decide)
  rw [hs]; exact lexFilterDefault_false h1 hf

theorem lexFilterDefault_null (h : FSt D l pre [] ('n' :: 'u' :: 'l' :: 'l' :: r) toks br) (hf : kwEnd r = true) :
    ∃ l', lexFilterDefault l = .ok (l', some .filter) ∧
      FSt D l' (pre ++ ['n', 'u', 'l', 'l']) [] r (⟨.null, ['n', 'u', 'l', 'l'], pre.length⟩ :: toks) br := by
  have n1 := h.accept_none (s := ['&', '&']) (isPrefixOf_head_ne _ _ (by decide))
  have n2 := h.accept_none (s := ['|', '|']) (isPrefixOf_head_ne _ _ (by decide))
  have n3 := h.acceptMatch_none (re := reKeyword ['t', 'r', 'u', 'e']) (reKeyword_head_ne _ _ (by decide))
  have n4 := h.acceptMatch_none (re := reKeyword ['f', 'a', 'l', 's', 'e']) (reKeyword_head_ne _ _ (by decide))
  have hre : reKeyword ['n', 'u', 'l', 'l'] ('n' :: 'u' :: 'l' :: 'l' :: r) = some ['n', 'u', 'l', 'l'].length := reKeyword_append ['n', 'u', 'l', 'l'] hf
  obtain ⟨l1, ha, h1⟩ := h.acceptMatch hre (by simp)
  have e1 : ('n' :: 'u' :: 'l' :: 'l' :: r).take ['n', 'u', 'l', 'l'].length = ['n', 'u', 'l', 'l'] := rfl
  have e2 : ('n' :: 'u' :: 'l' :: 'l' :: r).drop ['n', 'u', 'l', 'l'].length = r := rfl
  rw [e1, e2] at h1
  have h2 := h1.emit .null
  simp only [List.nil_append] at h2
  exact ⟨_, by simp only [lexFilterDefault, kw_and, kw_or, kw_true, kw_false, kw_null, n1, n2, n3, n4, ha, goto], h2⟩

theorem lexFilter_null (h : FSt D l pre [] ('n' :: 'u' :: 'l' :: 'l' :: r) toks br) (hf : kwEnd r = true) :
    ∃ l', Impl.step .filter l = .ok (l', some .filter) ∧
      FSt D l' (pre ++ ['n', 'u', 'l', 'l']) [] r (⟨.null, ['n', 'u', 'l', 'l'], pre.length⟩ :: toks) br := by
  obtain ⟨l1, h1, hs⟩ := lexFilter_default h (by decide) (by decide)
  rw [hs]; exact lexFilterDefault_null h1 hf

/-! ### numbers -/

/-- none of the five literals matches input whose first character is none of `& | t f n` -/
theorem accept_lits_none {c : Char} {t : List Char} (h : FSt D l pre [] (c :: t) toks br)
    (h1 : c ≠ '&') (h2 : c ≠ '|') (h3 : c ≠ 't') (h4 : c ≠ 'f') (h5 : c ≠ 'n') :
    l.accept "&&".toList = none ∧ l.accept "||".toList = none ∧ l.acceptMatch (reKeyword "true".toList) = none ∧
    l.acceptMatch (reKeyword "false".toList) = none ∧ l.acceptMatch (reKeyword "null".toList) = none := by
  rw [kw_and, kw_or, kw_true, kw_false, kw_null]
  exact ⟨h.accept_none (isPrefixOf_head_ne _ _ h1), h.accept_none (isPrefixOf_head_ne _ _ h2),
    h.acceptMatch_none (reKeyword_head_ne _ _ h3), h.acceptMatch_none (reKeyword_head_ne _ _ h4),
    h.acceptMatch_none (reKeyword_head_ne _ _ h5)⟩

theorem num_first {c : Char} (hc : c = '-' ∨ isDigit c = true) :
    isWs c = false ∧ isFilterSpecial c = false ∧ c ≠ '&' ∧ c ≠ '|' ∧ c ≠ 't' ∧ c ≠ 'f' ∧ c ≠ 'n' := by
  rcases hc with rfl | hd
  · decide
  · refine ⟨digit_not_ws hd, digit_not_special hd, ?_, ?_, ?_, ?_, ?_⟩ <;>
      (rintro rfl; revert hd; decide)

theorem lexFilter_float {c : Char} {t inp : List Char} (h : FSt D l pre [] inp toks br) (e : c :: t = inp)
    (hc : c = '-' ∨ isDigit c = true) {n : Nat} (hre : reFloat inp = some n) (hn : n ≤ inp.length) :
    ∃ l', Impl.step .filter l = .ok (l', some .filter) ∧
      FSt D l' (pre ++ inp.take n) [] (inp.drop n) (⟨.float, inp.take n, pre.length⟩ :: toks) br := by
  subst e
  obtain ⟨w, sp, c1, c2, c3, c4, c5⟩ := num_first hc
  obtain ⟨l1, h1, hs⟩ := lexFilter_default h w sp
  obtain ⟨n1, n2, n3, n4, n5⟩ := accept_lits_none h1 c1 c2 c3 c4 c5
  obtain ⟨l2, hm, h2⟩ := h1.acceptMatch hre hn
  have h3 := h2.emit .float
  simp only [List.nil_append] at h3
  exact ⟨_, by rw [hs]; simp only [lexFilterDefault, n1, n2, n3, n4, n5, hm, goto], h3⟩

theorem lexFilter_int {c : Char} {t inp : List Char} (h : FSt D l pre [] inp toks br) (e : c :: t = inp)
    (hc : c = '-' ∨ isDigit c = true) (hf : reFloat inp = none) {n : Nat} (hre : reInt inp = some n)
    (hn : n ≤ inp.length) :
    ∃ l', Impl.step .filter l = .ok (l', some .filter) ∧
      FSt D l' (pre ++ inp.take n) [] (inp.drop n) (⟨.int, inp.take n, pre.length⟩ :: toks) br := by
  subst e
  obtain ⟨w, sp, c1, c2, c3, c4, c5⟩ := num_first hc
  obtain ⟨l1, h1, hs⟩ := lexFilter_default h w sp
  obtain ⟨n1, n2, n3, n4, n5⟩ := accept_lits_none h1 c1 c2 c3 c4 c5
  have n6 := h1.acceptMatch_none hf
  obtain ⟨l2, hm, h2⟩ := h1.acceptMatch hre hn
  have h3 := h2.emit .int
  simp only [List.nil_append] at h3
  exact ⟨_, by rw [hs]; simp only [lexFilterDefault, n1, n2, n3, n4, n5, n6, hm, goto], h3⟩

/-- `lexFilter_float` without the length bound (`reFloat_bounded`) -/
theorem lexFilter_float' {c : Char} {t inp : List Char} (h : FSt D l pre [] inp toks br) (e : c :: t = inp)
    (hc : c = '-' ∨ isDigit c = true) {n : Nat} (hre : reFloat inp = some n) :
    ∃ l', Impl.step .filter l = .ok (l', some .filter) ∧
      FSt D l' (pre ++ inp.take n) [] (inp.drop n) (⟨.float, inp.take n, pre.length⟩ :: toks) br :=
  lexFilter_float h e hc hre (reFloat_bounded _ _ hre)

/-- `lexFilter_int` without the length bound (`reInt_bounded`) -/
theorem lexFilter_int' {c : Char} {t inp : List Char} (h : FSt D l pre [] inp toks br) (e : c :: t = inp)
    (hc : c = '-' ∨ isDigit c = true) (hf : reFloat inp = none) {n : Nat} (hre : reInt inp = some n) :
    ∃ l', Impl.step .filter l = .ok (l', some .filter) ∧
      FSt D l' (pre ++ inp.take n) [] (inp.drop n) (⟨.int, inp.take n, pre.length⟩ :: toks) br :=
  lexFilter_int h e hc hf hre (reInt_bounded _ _ hre)

/-! ### function names -/

/-- the characters after the first of a function name -/
abbrev fnChar (c : Char) : Bool := isLower c || c = '_' || isDigit c

theorem reFunctionName_name {c : Char} {cs : List Char} (hc : isLower c = true)
    (hcs : ∀ x ∈ cs, fnChar x = true) (r : List Char) :
    reFunctionName ((c :: cs) ++ '(' :: r) = some (c :: cs).length := by
  have := spanLen_append fnChar cs ('(' :: r) hcs (by intro x hx; simp at hx; subst hx; decide)
  simp only [List.cons_append, reFunctionName, hc, if_true, List.length_cons]
  show some (1 + spanLen fnChar (cs ++ '(' :: r)) = _
  rw [this, Nat.add_comm]

/-- `name(` with `name = [a-z][a-z_0-9]*` (it may begin with, or be, `true`, `false` or `null`): one FUNCTION token;
the parenthesis is consumed and recorded on the bracket stack -/
theorem lexFilter_function {c : Char} {cs : List Char} (h : FSt D l pre [] ((c :: cs) ++ '(' :: r) toks br)
    (hc : isLower c = true) (hcs : ∀ x ∈ cs, fnChar x = true) :
    ∃ l', Impl.step .filter l = .ok (l', some .filter) ∧
      FSt D l' (pre ++ (c :: cs) ++ ['(']) [] r (⟨.function, c :: cs, pre.length⟩ :: toks)
        (('(', pre.length + (c :: cs).length) :: br) := by
  have hnm : ∀ x ∈ c :: cs, (isLower x || x = '_' || isDigit x) = true := by
    intro x hx
    rcases List.mem_cons.mp hx with rfl | hx
    · simp [hc]
    · exact hcs x hx
  have k1 := reKeyword_name ['t', 'r', 'u', 'e'] (c :: cs) r (by decide) hnm
  have k2 := reKeyword_name ['f', 'a', 'l', 's', 'e'] (c :: cs) r (by decide) hnm
  have k3 := reKeyword_name ['n', 'u', 'l', 'l'] (c :: cs) r (by decide) hnm
  have c1 : c ≠ '&' := by rintro rfl; revert hc; decide
  have c2 : c ≠ '|' := by rintro rfl; revert hc; decide
  have c6 : c ≠ '-' := by rintro rfl; revert hc; decide
  have c7 : c ≠ ':' := by rintro rfl; revert hc; decide
  obtain ⟨l1, h1, hs⟩ := lexFilter_default (r := cs ++ '(' :: r) h (lower_not_ws hc) (lower_not_special hc)
  have n1 : l1.accept "&&".toList = none := by rw [kw_and]; exact h1.accept_none (isPrefixOf_head_ne _ _ c1)
  have n2 : l1.accept "||".toList = none := by rw [kw_or]; exact h1.accept_none (isPrefixOf_head_ne _ _ c2)
  have n3 : l1.acceptMatch (reKeyword "true".toList) = none := by rw [kw_true]; exact h1.acceptMatch_none k1
  have n4 : l1.acceptMatch (reKeyword "false".toList) = none := by rw [kw_false]; exact h1.acceptMatch_none k2
  have n5 : l1.acceptMatch (reKeyword "null".toList) = none := by rw [kw_null]; exact h1.acceptMatch_none k3
  have n6 := h1.acceptMatch_none (re := reFloat) (reFloat_none _ c6 (lower_not_digit hc) c7)
  have n7 := h1.acceptMatch_none (re := reInt) (reInt_none _ c6 (lower_not_digit hc))
  have hre := reFunctionName_name hc hcs r
  obtain ⟨l2, hm, h2⟩ := h1.acceptMatch hre (by simp)
  have e1 : (c :: (cs ++ '(' :: r)).take (c :: cs).length = c :: cs := List.take_left (l₁ := c :: cs)
  have e2 : (c :: (cs ++ '(' :: r)).drop (c :: cs).length = '(' :: r := List.drop_left (l₁ := c :: cs)
  rw [e1, e2] at h2
  simp only [List.nil_append] at h2
  have hp : l2.peek = some '(' := by rw [h2.peek]; rfl
  have h3 := (h2.setFuncStack (1 :: l2.funcStack)).emit .function
  have hpos : (({ l2 with funcStack := 1 :: l2.funcStack } : Lexer).emit .function).pos =
      pre.length + (c :: cs).length := by rw [h3.pos]; simp
  have h4 := ((h3.pushBracket '(' (pre.length + (c :: cs).length)).adv).ignore
  simp only [List.nil_append] at h4
  refine ⟨_, ?_, h4⟩
  rw [hs]
  simp only [lexFilterDefault, n1, n2, n3, n4, n5, n6, n7, hm, hp, if_true, goto, hpos, Lexer.next_eq]

theorem mem_takeWhile_sat (p : Char → Bool) : ∀ (t : List Char) x, x ∈ t.takeWhile p → p x = true := by
  intro t
  induction t with
  | nil => simp
  | cons a t ih =>
    intro x hx
    simp only [List.takeWhile] at hx
    cases ha : p a <;> simp [ha] at hx
    rcases hx with rfl | hx
    · exact ha
    · exact ih x hx

theorem takeWhile_append_drop (p : Char → Bool) :
    ∀ (t : List Char), t.takeWhile p ++ t.drop (t.takeWhile p).length = t := by
  intro t
  induction t with
  | nil => simp
  | cons a t ih =>
    simp only [List.takeWhile]
    cases ha : p a <;> simp [ih]

/-- the same from the grammar's `function-name "("` -/
theorem lexFilter_functionName {inp : List Char} {name : Str} {r : List Char}
    (h : FSt D l pre [] inp toks br) (hf : Spec.functionName inp = some (name, '(' :: r)) :
    ∃ l', Impl.step .filter l = .ok (l', some .filter) ∧
      FSt D l' (pre ++ name ++ ['(']) [] r (⟨.function, name, pre.length⟩ :: toks)
        (('(', pre.length + name.length) :: br) := by
  cases inp with
  | nil => simp [Spec.functionName] at hf
  | cons c t =>
    simp only [Spec.functionName] at hf
    split at hf
    · rename_i hc
      simp only [Option.some.injEq, Prod.mk.injEq] at hf
      obtain ⟨rfl, hd⟩ := hf
      have hcs : ∀ x ∈ t.takeWhile (fun c => Spec.isLCALPHA c || c = '_' || Spec.isDIGIT c), fnChar x = true :=
        fun x hx => mem_takeWhile_sat _ t x hx
      have e : c :: t = (c :: t.takeWhile (fun c => Spec.isLCALPHA c || c = '_' || Spec.isDIGIT c)) ++ '(' :: r := by
        rw [← hd, List.cons_append, takeWhile_append_drop]
      rw [e] at h
      exact lexFilter_function h hc hcs
    · simp at hf

end JPV.Proofs.Cf
