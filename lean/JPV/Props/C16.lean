/-
C16 — Lazy result iterators are independent under any interleaving or threading.

Property text: "Any number of result iterators obtained from the same compiled
query, the same environment or different ones, over the same or different values,
may be advanced in any interleaved order, from one thread or several, abandoned
half-way or exhausted, and each still yields exactly the sequence a solitary run
yields. …"

A live iterator is a cursor into the `Stream` its `finditer` call denotes; the
only state a `next()` touches is that cursor.  `interleave_independent`: for any
number of cursors and ANY schedule of `next()` calls, the outputs seen by cursor
`i` are the first `count i schedule` outputs of its solitary run (induction on
the schedule).  The premise that nothing shared is written is the regenerated
effect table (`Tables.writes_benign`).  Real threads are outside the model: the
GIL's schedule cannot be enumerated; the harness stress-tests them (labelled as
such in the evidence).
-/
import JPV.Impl.Api
import JPV.Proofs.Api
namespace JPV.Props
open JPV JPV.Impl

def C16_statement : Prop :=
  ∀ (streams : List Stream) (schedule : List Nat) (i : Nat) (s : Stream), streams[i]? = some s →
    ((runSchedule streams (List.replicate streams.length 0) schedule).filter (·.1 = i)).map (·.2)
      = solitary s ((schedule.filter (· = i)).length)

theorem C16 : C16_statement := Proofs.interleave_independent

/-- abandoned iterators do not matter: dropping all calls of other iterators from a schedule
does not change what iterator `i` sees -/
theorem C16_abandon (streams : List Stream) (schedule : List Nat) (i : Nat) (s : Stream) (h : streams[i]? = some s) :
    ((runSchedule streams (List.replicate streams.length 0) schedule).filter (·.1 = i)).map (·.2) =
    ((runSchedule streams (List.replicate streams.length 0) (schedule.filter (· = i))).filter (·.1 = i)).map (·.2) :=
  Proofs.abandon streams schedule i s h

end JPV.Props
