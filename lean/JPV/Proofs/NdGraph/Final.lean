/-
Assembled statements for `Props/C18NdGraph.lean`.
-/
import JPV.Proofs.NdGraph.D30Lower
namespace JPV.Proofs.NdG
open JPV JPV.Impl JPV.Impl.G

theorem live_of {g : Heap} {n m : Nat} (hnm : n = m ∨ Reach g n m) (hc : Reach g m m) : Live g n :=
  ⟨m, hnm, hc⟩

/-- start node on / reaching a cycle: never normal completion — JSONPathRecursionError or still running -/
theorem cycle_outcomes (h : NdHeap) (max : Int) (fuel root m : Nat) (s : ND.Script)
    (hnm : root = m ∨ Reach h.toHeap root m) (hc : Reach h.toHeap m m) :
    (ndVisit h max fuel root s).2 = some .recursion ∨ (ndVisit h max fuel root s).2 = some .fuel := by
  rcases visit_outcomes h max fuel root s with h0 | h1
  · exact absurd h0 (visit_never_none h max fuel root s (live_of hnm hc))
  · exact h1

theorem cycle_raises (h : NdHeap) (B : Nat) (hB : ∀ i, (h.kids i).length ≤ B) (max : Int)
    (fuel root m : Nat) (s : ND.Script) (hnm : root = m ∨ Reach h.toHeap root m) (hc : Reach h.toHeap m m)
    (hf : geom B (max.toNat + 2) ≤ fuel) :
    (ndVisit h max fuel root s).2 = some .recursion ∧
    (ndVisit h max fuel root s).1.length ≤ 1 + geom B (max.toNat + 2) * (1 + B) :=
  visit_cycle_raises h B hB max fuel root s (live_of hnm hc) hf

/-- the D30 heap with the default limit 100, the three modes side by side -/
theorem d30_default :
    -- deterministic: raises after exactly 100 nodes
    ((G.visitTop d30.toHeap 100 0).2 = some .recursion ∧ (G.visitTop d30.toHeap 100 0).1.length = 100) ∧
    -- nondeterministic, queue-first scripts: if it has raised, at least 2^50 - 1 nodes were yielded before,
    -- and after `fuel` pops with 3·fuel + 2 < 2^50 it is still running
    (∀ (s : ND.Script) (fuel : Nat), MergeFree s →
      ((ndVisit d30 100 fuel 0 s).2 = some .recursion → 2 ^ 50 ≤ (ndVisit d30 100 fuel 0 s).1.length + 1) ∧
      (3 * fuel + 2 < 2 ^ 50 → (ndVisit d30 100 fuel 0 s).2 = some .fuel)) ∧
    -- nondeterministic, the grandchildren-first script: raises after at most 152 nodes (51 pops)
    ((ndVisit d30 100 51 0 (fastScript 51)).2 = some .recursion ∧
      (ndVisit d30 100 51 0 (fastScript 51)).1.length ≤ 152) := by
  refine ⟨d30_det 100, fun s fuel hmf => ⟨fun hr => ?_, fun hf => ?_⟩, ?_⟩
  · exact d30_lower 100 fuel s hmf hr
  · exact d30_still_running 100 fuel s hmf hf
  · exact d30_fast 100 51 (by decide)

end JPV.Proofs.NdG
