import JPV.Proofs.Pc.IntRTRound
namespace JPV.Proofs.Pc
open JPV

/-! ### `roundBinary64 N 1` for representable `N` is exact -/

theorem scaledDiv_one_nat (n k : Nat) : Py.scaledDiv n 1 (k : Int) = (n / 2 ^ k, n % 2 ^ k, 2 ^ k) := by
  unfold Py.scaledDiv
  rw [if_pos (by omega)]
  simp only [Int.toNat_natCast, Nat.one_mul]

theorem scaledDiv_one_neg (n k : Nat) (hk : 0 < k) :
    Py.scaledDiv n 1 (-(k : Int)) = (n * 2 ^ k, 0, 1) := by
  unfold Py.scaledDiv
  rw [if_neg (by omega)]
  simp only [Int.neg_neg, Int.toNat_natCast, Nat.div_one, Nat.mod_one]

theorem round_of_pick {n d q den : Nat} {e : Int} (hn : n ≠ 0)
    (he0 : e = (Nat.log2 n : Int) - (Nat.log2 d : Int) - 52) (hlo : -1074 ≤ e - 1)
    (h1 : 2 ^ 53 ≤ (Py.scaledDiv n d (e - 1)).1) (h2 : Py.scaledDiv n d e = (q, 0, den))
    (hden : 0 < den) (hq : q < 2 ^ 53) (hq' : 2 ^ 52 ≤ q) (he : e ≤ 971) :
    Py.roundBinary64 n d = some (q, e) := by
  rw [roundBinary64_eq, if_neg hn, ← he0]
  have hc : chooseE n d e = e := by
    unfold chooseE
    rw [pickE_none_of hlo h1, pickE_some_of (by omega) (by rw [h2]; exact hq) (by rw [h2]; exact hq')]
    rfl
  rw [hc]
  exact finishE_exact h2 hden hq he

theorem ratioOfBinary_nat (m k : Nat) : Py.ratioOfBinary m (k : Int) = (m * 2 ^ k, 1) := by
  unfold Py.ratioOfBinary
  rw [if_pos (by omega)]
  simp only [Int.toNat_natCast]

theorem ratioOfBinary_neg (N k : Nat) (hk : 0 < k) :
    Py.ratioOfBinary (N * 2 ^ k) (-(k : Int)) = (N, 1) := by
  unfold Py.ratioOfBinary
  rw [if_neg (by omega)]
  simp only [Int.neg_neg, Int.toNat_natCast, Nat.gcd_mul_left_left]
  rw [Nat.mul_div_cancel _ (Nat.two_pow_pos k), Nat.div_self (Nat.two_pow_pos k)]


theorem pow2_add_eq {a b c : Nat} (h : a + b = c) : 2 ^ a * 2 ^ b = 2 ^ c := by
  rw [← Nat.pow_add, h]

/-- small case: `log2 N < 52` -/
theorem round_exact_small (N : Nat) (hN : N ≠ 0) (hL : Nat.log2 N < 52) :
    ∃ q E, Py.roundBinary64 N 1 = some (q, E) ∧ Py.ratioOfBinary q E = (N, 1) := by
  have hlo := Nat.log2_self_le hN
  have hhi := @Nat.lt_log2_self N
  generalize hLd : Nat.log2 N = L at *
  obtain ⟨k, hk⟩ : ∃ k, k = 52 - L := ⟨_, rfl⟩
  have hk0 : 0 < k := by omega
  refine ⟨N * 2 ^ k, -(k : Int), ?_, ratioOfBinary_neg N k hk0⟩
  have hlog1 : Nat.log2 1 = 0 := by decide
  have hem : (-(k : Int)) - 1 = -((k + 1 : Nat) : Int) := by omega
  apply round_of_pick hN (den := 1)
  · rw [hLd, hlog1]; omega
  · omega
  · rw [hem, scaledDiv_one_neg _ _ (by omega)]
    show 2 ^ 53 ≤ N * 2 ^ (k + 1)
    calc 2 ^ 53 = 2 ^ L * 2 ^ (k + 1) := (pow2_add_eq (by omega)).symm
      _ ≤ N * 2 ^ (k + 1) := Nat.mul_le_mul_right _ hlo
  · exact scaledDiv_one_neg _ _ hk0
  · omega
  · calc N * 2 ^ k < 2 ^ (L + 1) * 2 ^ k := Nat.mul_lt_mul_of_pos_right hhi (Nat.two_pow_pos k)
      _ = 2 ^ 53 := pow2_add_eq (by omega)
  · calc 2 ^ 52 = 2 ^ L * 2 ^ k := (pow2_add_eq (by omega)).symm
      _ ≤ N * 2 ^ k := Nat.mul_le_mul_right _ hlo
  · omega

/-- large case: `N = M * 2^j` with `2^52 ≤ M < 2^53` -/
theorem round_exact_large (M j : Nat) (hM : M < 2 ^ 53) (hM' : 2 ^ 52 ≤ M) (hj : j ≤ 971) :
    ∃ q E, Py.roundBinary64 (M * 2 ^ j) 1 = some (q, E) ∧ Py.ratioOfBinary q E = (M * 2 ^ j, 1) := by
  have hpos : 0 < M * 2 ^ j := Nat.mul_pos (by omega) (Nat.two_pow_pos j)
  have hN : M * 2 ^ j ≠ 0 := by omega
  have hL : Nat.log2 (M * 2 ^ j) = 52 + j := by
    apply Nat.le_antisymm
    · have : Nat.log2 (M * 2 ^ j) < 53 + j := by
        rw [Nat.log2_lt hN, ← pow2_add_eq rfl]
        exact Nat.mul_lt_mul_of_pos_right hM (Nat.two_pow_pos j)
      omega
    · rw [Nat.le_log2 hN, ← pow2_add_eq rfl]
      exact Nat.mul_le_mul_right _ hM'
  have hlog1 : Nat.log2 1 = 0 := by decide
  refine ⟨M, (j : Int), ?_, ratioOfBinary_nat M j⟩
  apply round_of_pick hN (den := 2 ^ j)
  · rw [hL, hlog1]; omega
  · omega
  · cases j with
    | zero =>
      have : ((0 : Nat) : Int) - 1 = -((1 : Nat) : Int) := by omega
      rw [this, scaledDiv_one_neg _ _ (by omega)]
      show 2 ^ 53 ≤ M * 2 ^ 0 * 2 ^ 1
      omega
    | succ j' =>
      have : ((j' + 1 : Nat) : Int) - 1 = (j' : Int) := by omega
      rw [this, scaledDiv_one_nat]
      show 2 ^ 53 ≤ M * 2 ^ (j' + 1) / 2 ^ j'
      have h2 : M * 2 ^ (j' + 1) = M * 2 * 2 ^ j' := by
        rw [Nat.pow_succ, Nat.mul_assoc, Nat.mul_comm 2]
      rw [h2, Nat.mul_div_cancel _ (Nat.two_pow_pos j')]
      omega
  · rw [scaledDiv_one_nat, Nat.mul_div_cancel _ (Nat.two_pow_pos j), Nat.mul_mod_left]
  · exact Nat.two_pow_pos j
  · exact hM
  · exact hM'
  · omega

theorem round_exact (N m e : Nat) (hN : N ≠ 0) (hm : m < 2 ^ 53) (he : e ≤ 971) (hNe : N = m * 2 ^ e) :
    ∃ q E, Py.roundBinary64 N 1 = some (q, E) ∧ Py.ratioOfBinary q E = (N, 1) := by
  by_cases hL : Nat.log2 N < 52
  · exact round_exact_small N hN hL
  · have hlo := Nat.log2_self_le hN
    have hhi := @Nat.lt_log2_self N
    have hlt : Nat.log2 N < 53 + e := by
      rw [Nat.log2_lt hN, hNe, ← pow2_add_eq rfl]
      exact Nat.mul_lt_mul_of_pos_right hm (Nat.two_pow_pos e)
    generalize Nat.log2 N = L at *
    obtain ⟨j, hj⟩ : ∃ j, L = 52 + j := ⟨L - 52, by omega⟩
    subst hj
    have hNM : N = m * 2 ^ (e - j) * 2 ^ j := by
      rw [Nat.mul_assoc, pow2_add_eq (show e - j + j = e by omega)]; exact hNe
    rw [hNM]
    apply round_exact_large
    · rw [hNM, show 52 + j + 1 = 53 + j by omega, ← pow2_add_eq rfl] at hhi
      exact Nat.lt_of_mul_lt_mul_right hhi
    · rw [hNM, ← pow2_add_eq rfl] at hlo
      exact Nat.le_of_mul_le_mul_right hlo (Nat.two_pow_pos j)
    · omega

end JPV.Proofs.Pc
