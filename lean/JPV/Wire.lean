/-
Wire encoding for the correspondence driver (Tie B).  ASCII only, one request
per line.  Strings travel as hex code points so no text-encoding layer can blur
a difference; floats travel as exact integer ratios.

  str    ::= 'q' hex ('.' hex)* ';'  |  'q;'
  json   ::= 'n' | 't' | 'f' | 'i' int ';' | 'r' int '/' nat ';' | str
           | '[' json* ']' | '{' (str json)* '}'
  sexp   ::= atom | '(' sexp* ')'        (space separated; json/str are atoms)
-/
import JPV.Ast
import JPV.Impl.Eval
namespace JPV.Wire

/-! #### encoding -/

def hexOfNat (n : Nat) : String := String.ofList (Nat.toDigits 16 n)

def encStr (s : Str) : String :=
  "q" ++ ".".intercalate (s.map (fun c => hexOfNat c.toNat)) ++ ";"

partial def encJson : Json → String
  | .null => "n"
  | .bool true => "t"
  | .bool false => "f"
  | .num x => if x.flt then s!"r{x.n}/{x.d};" else
      (if x.d == 1 then s!"i{x.n};" else s!"r{x.n}/{x.d};")
  | .str s => encStr s
  | .arr xs => "[" ++ String.join (xs.map encJson) ++ "]"
  | .obj kvs => "{" ++ String.join (kvs.map (fun p => encStr p.1 ++ encJson p.2)) ++ "}"

def encKey : Key → String
  | .name s => encStr s
  | .idx i => toString i

def encLoc (l : Loc) : String := ",".intercalate (l.map encKey)

def encNode (n : Node) : String := encLoc n.loc ++ "|" ++ encJson n.val

def encNodes (ns : List Node) : String := " ".intercalate (ns.map encNode)

def encErr : Impl.ErrKind → String
  | .syntax => "JSONPathSyntaxError"
  | .type => "JSONPathTypeError"
  | .index => "JSONPathIndexError"
  | .name => "JSONPathNameError"
  | .recursion => "JSONPathRecursionError"
  | .lexer => "JSONPathLexerError"
  | .py c => "PY:" ++ c
  | .fuel => "MODEL-OUT-OF-FUEL"

/-! #### decoding -/

def hexVal (c : Char) : Option Nat :=
  if '0' ≤ c ∧ c ≤ '9' then some (c.toNat - 48)
  else if 'a' ≤ c ∧ c ≤ 'f' then some (c.toNat - 87)
  else if 'A' ≤ c ∧ c ≤ 'F' then some (c.toNat - 55)
  else none

def parseHex (s : List Char) : Option Nat :=
  if s.isEmpty then none else
  s.foldlM (fun acc c => (hexVal c).map (fun d => acc * 16 + d)) 0

def splitOnChar (c : Char) (s : List Char) : List (List Char) :=
  let r := s.foldl (fun (acc : List (List Char) × List Char) ch =>
    if ch = c then (acc.2.reverse :: acc.1, []) else (acc.1, ch :: acc.2)) ([], [])
  (r.2.reverse :: r.1).reverse

/-- decode the body of a `q…;` string (without the `q` and `;`) -/
def decStrBody (body : List Char) : Option Str :=
  if body.isEmpty then some [] else
  (splitOnChar '.' body).mapM (fun h => (parseHex h).map Char.ofNat)

def parseInt (s : List Char) : Option Int := (String.ofList s).toInt?

/-- take characters up to (excluding) `stop`; returns (taken, rest after stop) -/
def takeUntil (stop : Char) : List Char → Option (List Char × List Char)
  | [] => none
  | c :: cs => if c = stop then some ([], cs) else
      (takeUntil stop cs).map (fun p => (c :: p.1, p.2))

mutual
partial def decJson : List Char → Option (Json × List Char)
  | 'n' :: r => some (.null, r)
  | 't' :: r => some (.bool true, r)
  | 'f' :: r => some (.bool false, r)
  | 'i' :: r => do
      let (b, r) ← takeUntil ';' r
      let i ← parseInt b
      pure (.num (Num.ofInt i), r)
  | 'r' :: r => do
      let (b, r) ← takeUntil ';' r
      let (a, d) ← takeUntil '/' b
      let n ← parseInt a
      let d ← parseInt d
      pure (.num ⟨true, n, d.toNat⟩, r)
  | 'q' :: r => do
      let (b, r) ← takeUntil ';' r
      let s ← decStrBody b
      pure (.str s, r)
  | '[' :: r => do
      let (xs, r) ← decArr r
      pure (.arr xs, r)
  | '{' :: r => do
      let (kvs, r) ← decObj r
      pure (.obj kvs, r)
  | _ => none
partial def decArr : List Char → Option (List Json × List Char)
  | ']' :: r => some ([], r)
  | cs => do
      let (x, r) ← decJson cs
      let (xs, r) ← decArr r
      pure (x :: xs, r)
partial def decObj : List Char → Option (List (Str × Json) × List Char)
  | '}' :: r => some ([], r)
  | 'q' :: r => do
      let (b, r) ← takeUntil ';' r
      let k ← decStrBody b
      let (v, r) ← decJson r
      let (kvs, r) ← decObj r
      pure ((k, v) :: kvs, r)
  | _ => none
end

def decJsonAll (s : String) : Option Json :=
  match decJson s.toList with
  | some (j, []) => some j
  | _ => none

def decStr (s : String) : Option Str :=
  match s.toList with
  | 'q' :: r => match takeUntil ';' r with
    | some (b, []) => decStrBody b
    | _ => none
  | _ => none

def decOptInt (s : String) : Option (Option Int) :=
  if s = "_" then some none else s.toInt?.map some

/-! #### S-expressions -/

inductive Sexp where
  | atom (s : String)
  | list (xs : List Sexp)
deriving Inhabited, Repr

mutual
partial def parseSexp : List String → Option (Sexp × List String)
  | "(" :: r => do
      let (xs, r) ← parseSexps r
      pure (.list xs, r)
  | ")" :: _ => none
  | a :: r => some (.atom a, r)
  | [] => none
partial def parseSexps : List String → Option (List Sexp × List String)
  | ")" :: r => some ([], r)
  | [] => none
  | ts => do
      let (x, r) ← parseSexp ts
      let (xs, r) ← parseSexps r
      pure (x :: xs, r)
end

def tokenizeSexp (s : String) : List String :=
  let spaced := String.ofList (s.toList.flatMap (fun c =>
    if c = '(' ∨ c = ')' then [' ', c, ' '] else [c]))
  (spaced.splitOn " ").filter (· ≠ "")

def readSexp (s : String) : Option Sexp :=
  match parseSexp (tokenizeSexp s) with
  | some (x, []) => some x
  | _ => none

def decCOp : String → Option COp
  | "eq" => some .eq | "ne" => some .ne | "lt" => some .lt
  | "le" => some .le | "gt" => some .gt | "ge" => some .ge | _ => none

def decTy : String → Option Ty
  | "V" => some .value | "L" => some .logical | "N" => some .nodes | _ => none

mutual
partial def decExpr : Sexp → Option Expr
  | .list [.atom "lit", .atom j] => (decJsonAll j).map .lit
  | .list [.atom "not", e] => (decExpr e).map .not
  | .list [.atom "and", l, r] => do pure (.logical .and (← decExpr l) (← decExpr r))
  | .list [.atom "or", l, r] => do pure (.logical .or (← decExpr l) (← decExpr r))
  | .list [.atom "cmp", .atom op, l, r] => do pure (.cmp (← decCOp op) (← decExpr l) (← decExpr r))
  | .list (.atom "rel" :: segs) => do pure (.rel (← segs.mapM decSeg))
  | .list (.atom "root" :: segs) => do pure (.root (← segs.mapM decSeg))
  | .list (.atom "call" :: .atom f :: args) => do pure (.call (← decStr f) (← args.mapM decExpr))
  | _ => none
partial def decSel : Sexp → Option Selector
  | .list [.atom "name", .atom s] => (decStr s).map .name
  | .list [.atom "index", .atom i] => i.toInt?.map .index
  | .list [.atom "slice", .atom a, .atom b, .atom c] => do
      pure (.slice (← decOptInt a) (← decOptInt b) (← decOptInt c))
  | .list [.atom "wild"] => some .wild
  | .list [.atom "filter", e] => (decExpr e).map .filter
  | _ => none
partial def decSeg : Sexp → Option Segment
  | .list (.atom "child" :: sels) => do pure (.child (← sels.mapM decSel))
  | .list (.atom "desc" :: sels) => do pure (.desc (← sels.mapM decSel))
  | _ => none
end

def decQuery : Sexp → Option Query
  | .list (.atom "query" :: segs) => segs.mapM decSeg
  | _ => none

def encCOp : COp → String
  | .eq => "eq" | .ne => "ne" | .lt => "lt" | .le => "le" | .gt => "gt" | .ge => "ge"

def encOptInt : Option Int → String
  | none => "_"
  | some i => toString i

mutual
partial def encExpr : Expr → String
  | .lit v => s!"(lit {encJson v})"
  | .not e => s!"(not {encExpr e})"
  | .logical .and l r => s!"(and {encExpr l} {encExpr r})"
  | .logical .or l r => s!"(or {encExpr l} {encExpr r})"
  | .cmp op l r => s!"(cmp {encCOp op} {encExpr l} {encExpr r})"
  | .rel q => "(rel" ++ String.join (q.map (fun s => " " ++ encSeg s)) ++ ")"
  | .root q => "(root" ++ String.join (q.map (fun s => " " ++ encSeg s)) ++ ")"
  | .call f args => s!"(call {encStr f}" ++ String.join (args.map (fun a => " " ++ encExpr a)) ++ ")"
partial def encSel : Selector → String
  | .name s => s!"(name {encStr s})"
  | .index i => s!"(index {i})"
  | .slice a b c => s!"(slice {encOptInt a} {encOptInt b} {encOptInt c})"
  | .wild => "(wild)"
  | .filter e => s!"(filter {encExpr e})"
partial def encSeg : Segment → String
  | .child sels => "(child" ++ String.join (sels.map (fun s => " " ++ encSel s)) ++ ")"
  | .desc sels => "(desc" ++ String.join (sels.map (fun s => " " ++ encSel s)) ++ ")"
end

def encQuery (q : Query) : String :=
  "(query" ++ String.join (q.map (fun s => " " ++ encSeg s)) ++ ")"

end JPV.Wire
