/-
A partial-correctness Hoare predicate over the parser monad `Impl.P`, ignoring
the token stream: `Post m Q` — every successful run of `m` returns a value
satisfying `Q`.
-/
import JPV.Impl.Parse
namespace JPV.Proofs
open JPV JPV.Impl

def Post {α} (m : P α) (Q : α → Prop) : Prop :=
  ∀ st a st', m.run.run st = (.ok a, st') → Q a

namespace Post
variable {α β : Type} {Q R : α → Prop}

theorem triv (m : P α) : Post m (fun _ => True) := fun _ _ _ _ => trivial

theorem mono {m : P α} (h : Post m Q) (hq : ∀ a, Q a → R a) : Post m R :=
  fun st a st' e => hq a (h st a st' e)

theorem pure {a : α} (h : Q a) : Post (Pure.pure a : P α) Q := by
  intro st b st' e
  simp only [ExceptT.run_pure, StateT.run_pure] at e
  cases e; exact h

theorem throw (e : Err) : Post (MonadExcept.throw e : P α) Q := by
  intro st b st' h
  simp only [ExceptT.run_throw, StateT.run_pure] at h
  cases h

theorem bind {m : P α} {f : α → P β} {R : β → Prop}
    (hm : Post m Q) (hf : ∀ a, Q a → Post (f a) R) : Post (m >>= f) R := by
  intro st b st' e
  rw [ExceptT.run_bind, StateT.run_bind] at e
  generalize hr : m.run.run st = r at e
  obtain ⟨x, st1⟩ := r
  cases x with
  | error err => cases e
  | ok a => exact hf a (hm st a st1 hr) st1 b st' e


theorem failAt (k : ErrKind) (t : Token) : Post (Impl.failAt k t : P α) Q := throw _
theorem keyError : Post (Impl.keyError : P α) Q := throw _
theorem outOfFuel : Post (Impl.outOfFuel : P α) Q := throw _

theorem throw_bind (e : Err) (f : α → P β) {R : β → Prop} :
    Post (MonadExcept.throw e >>= f : P β) R :=
  bind (Q := fun _ => False) (throw e) (fun _ h => h.elim)
theorem failAt_bind (k : ErrKind) (t : Token) (f : α → P β) {R : β → Prop} :
    Post (Impl.failAt k t >>= f : P β) R := throw_bind _ f
theorem keyError_bind (f : α → P β) {R : β → Prop} :
    Post (Impl.keyError >>= f : P β) R := throw_bind _ f

/-- bind where nothing is remembered about the first computation -/
theorem bind_triv {m : P α} {f : α → P β} {R : β → Prop}
    (hf : ∀ a, Post (f a) R) : Post (m >>= f) R :=
  bind (triv m) (fun a _ => hf a)

theorem tryCatch {m : P α} {h : Err → P α} (hm : Post m Q) (hh : ∀ e, Post (h e) Q) :
    Post (tryCatch m h) Q := by
  intro st b st' e
  change (ExceptT.tryCatch m h).run.run st = _ at e
  unfold ExceptT.tryCatch at e
  simp only [ExceptT.run_mk] at e
  rw [StateT.run_bind] at e
  change (do let p ← m.run.run st; _) = _ at e
  generalize hr : m.run.run st = r at e
  obtain ⟨x, st1⟩ := r
  cases x with
  | error err => exact hh err st1 b st' e
  | ok a => cases e; exact hm _ _ _ hr

/-- a `for` loop over a list with no mutable state whose body never breaks: if it
succeeds, every iteration's body succeeded -/
theorem forIn_unit {γ : Type} (l : List γ) (body : γ → PUnit → P (ForInStep PUnit)) (I : γ → Prop)
    (h : ∀ b, b ∈ l → Post (body b PUnit.unit) (fun r => r = .yield PUnit.unit ∧ I b)) :
    Post (forIn l PUnit.unit body) (fun _ => ∀ b, b ∈ l → I b) := by
  induction l with
  | nil => simp only [List.forIn_nil]; exact pure (by simp)
  | cons x xs ih =>
    simp only [List.forIn_cons]
    refine bind (h x (by simp)) ?_
    rintro r ⟨rfl, hx⟩
    refine mono (ih (fun b hb => h b (by simp [hb]))) ?_
    intro _ hxs b hb
    rcases List.mem_cons.1 hb with rfl | hb
    · exact hx
    · exact hxs b hb

/-- using a triple on a concrete run -/
theorem elim {m : P α} (h : Post m Q) {st : TStream} {a : α}
    (e : (m.run.run st).1 = .ok a) : Q a :=
  h st a (m.run.run st).2 (by rw [← e]; rfl)

end Post

attribute [irreducible] Post

end JPV.Proofs
