"""Exploration for C14 (histories), C15 (entry points), C16 (iterator interleavings, threads)."""
from __future__ import annotations

import copy
import itertools
import json
import sys
import threading

import gen
import model
import real
import sweep as sweep_mod
import wire
from checks_eval import PROBE_ENV, doc_with_all_kinds, sizes, walk_query


def outcome(fn):
    """canonical outcome of a call returning a nodelist / node / None"""
    import jsonpath_rfc9535 as jp

    try:
        r = fn()
    except jp.JSONPathError as e:
        return "err " + type(e).__name__
    except Exception as e:  # noqa: BLE001
        return "err PY:" + type(e).__name__
    return r


def enc_list(nodes):
    return wire.enc_nodes(nodes)


def drain(it):
    """list(iterator) as 'nodes...|end' or 'nodes...|err X' (what a consumer observes)"""
    import jsonpath_rfc9535 as jp

    out = []
    try:
        for n in it:
            out.append(n)
        tail = "end"
    except jp.JSONPathError as e:
        tail = "err " + type(e).__name__
    except Exception as e:  # noqa: BLE001
        tail = "err PY:" + type(e).__name__
    return enc_list(out) + "|" + tail


# ---------------------------------------------------------------------------------------------
# C15


def explore_c15(rng, tier, res, deep=False):
    import jsonpath_rfc9535 as jp

    res.rule = (
        "queries (valid, with filters and descendants; invalid of every error class; evaluation-time errors via a "
        "low recursion limit) x JSON values x the 11 public entry points (module find/finditer/find_one/compile, "
        "environment find/finditer/find_one/compile, compiled query find/apply/finditer/find_one): find == "
        "list(finditer), find_one == first element or None, identical through every path; invalid queries raise "
        "the same error class from every entry point, at the call. Non-trivial = distinct (query, value) with a "
        "non-empty result or an error."
    )
    n = sizes(tier, deep, 400, 8000)
    g = gen.QueryGen(rng, names=gen.SIMPLE_NAMES, max_filter_depth=2)
    env = jp.JSONPathEnvironment()

    class Low(jp.JSONPathEnvironment):
        max_recursion_depth = 2

    low = Low()
    seen_valid = []
    carry = None
    # absolute queries inside filters on a value that is then edited exactly where `$…` looks: first round as it is,
    # second round with the compiled objects kept and the edit applied to the same container
    forced = [
        ("$.items[?@.n == $.want]", {"want": 1, "items": [{"n": 1}, {"n": 2}]}, lambda d: d.__setitem__("want", 2)),
        ("$[?@ == $[0]]", [1, 2, 1, 3], lambda d: d.__setitem__(0, 3)),
        ("$.a[?$.flag]", {"a": [0, "", None]}, lambda d: d.__setitem__("flag", None)),
        ("$..[?@.a == $.b]", {"b": 1, "x": [{"a": 1}, {"a": 2}]}, lambda d: d.__setitem__("b", 2)),
        ("$.a[?count($.a[*]) > 2]", {"a": [1, 2]}, lambda d: d["a"].append(3)),
        ("$.k[?@ < $.lim]", {"lim": 2, "k": [1, 2, 3]}, lambda d: d.__setitem__("lim", 4)),
        ("$[?@.v == $[-1].v]", [{"v": 1}, {"v": 2}], lambda d: d.append({"v": 1})),
        ("$..*", {"a": {"b": 1}}, lambda d: d["a"].__setitem__("c", [2])),
        # several selectors in one segment applied to several input nodes: the order of find() is the order of finditer()
        ("$[*]['b','a']", [{"a": 1, "b": 2}, {"b": 3, "a": 4}, {"a": 5}], lambda d: d.append({"b": 6})),
        # a JSON value that is a string whose text looks like JSON, a number, a keyword: it is a string for every entry point
        ("$[0]", "[1, 2]", lambda d: None), ("$.a", '{"a": 1}', lambda d: None), ("$", "[]", lambda d: None), ("$..*", ' {"a": [1]} ', lambda d: None),
        ("$[0]", "12", lambda d: None), ("$.*", "null", lambda d: None), ("$", "true", lambda d: None), ("$[?@]", '["x"]', lambda d: None),
        ("$[*][0,1]", [[10, 11], [20, 21]], lambda d: d.append([30, 31])),
        ("$.x[*][1,0,-1]", {"x": [[1, 2], [3, 4]]}, lambda d: d["x"].reverse()),
        ("$..k['a','b',*]", {"k": {"a": 1, "b": 2}, "z": {"k": {"b": 3, "a": 4}}}, lambda d: d["z"]["k"].pop("a")),
        ("$[0,1][*,0]", [[1, 2], [3]], lambda d: d[0].append(9)),
        ("$[*][?@ > 1, 0]", [[1, 2], [3, 0]], lambda d: d[1].insert(0, 5)),
        ("$..[?@]", [[1], [2]], lambda d: d.pop(0)),
    ]
    forced_edit = None
    for i in range(n + 2 * len(forced)):
        doc = doc_with_all_kinds(rng, rng.choice([2, 3]))
        q = walk_query(rng, doc, g, filters=True) if i % 2 else g.query()
        forced_edit = None
        if i < 2 * len(forced):
            fq, fdoc, fedit = forced[i // 2]
            if i % 2 == 0:
                forced[i // 2] = (fq, json.loads(json.dumps(fdoc)), fedit)
                q, doc = fq, forced[i // 2][1]
            else:
                forced_edit = fedit
        if i % 5 == 0 and i >= 2 * len(forced):
            # a singular path to some value of the document, then one more name/index step whatever that value is
            # (strings, numbers, null, containers): every entry point must treat the extra step alike
            q = "$"
            cur = doc
            while isinstance(cur, (list, dict)) and cur and rng.random() < 0.8:
                if isinstance(cur, list):
                    j = rng.randrange(len(cur))
                    q += f"[{j if rng.random() < 0.7 else j - len(cur)}]"
                    cur = cur[j]
                else:
                    key = rng.choice(list(cur.keys()))
                    q += "[" + gen.quote_name(rng, key) + "]"
                    cur = cur[key]
            q += rng.choice(["[0]", "[-1]", "[1]", "['a']", "['0']", "[0][0]", ".a", "[0]['a']"])
        k = rng.random()
        if i % 5 == 0 or i < 2 * len(forced):
            pass
        elif k < 0.12 and seen_valid:
            # a query text that differs from one used before on the same environments only by blank space at its ends
            # (invalid: RFC 9535 allows none there), or is that earlier text again: anything remembered per query text
            # by the string-taking entry points must not leak between texts
            base = rng.choice(seen_valid)
            q = rng.choice([base + " ", " " + base, base + "\n", "\n" + base, "\t" + base + " ", base, base + "  "])
        elif k < 0.25:
            q = gen.mutate(rng, q)
        elif k < 0.3:
            q = rng.choice(["$[?nope(@)]", "$[9007199254740992]", "$[?count(@.a)]", "$[?length(@.*)==1]", "$[", "$.a b", "$[?@.a==01]"])
        # now and then: the previous query again, its compiled objects kept, on the previous value edited in place
        # (the same Python object): what a compiled query remembers about a value must not make query.find
        # disagree with the entry points that compile afresh
        reuse = None
        if forced_edit is not None and carry is not None:
            q, doc, reuse = carry
            forced_edit(doc)
        elif i >= 2 * len(forced) and carry is not None and rng.random() < 0.25 and isinstance(carry[1], (dict, list)):
            q, doc, reuse = carry
            edit_in_place(rng, doc)
        kept = {}
        res.evaluations += 1
        for e, is_default in ((env, True), (low, False)):
            paths = {}
            if is_default:
                paths["module.find"] = outcome(lambda: enc_list(jp.find(q, doc)) + "|end")
                paths["module.finditer"] = outcome(lambda: drain(jp.finditer(q, doc)))
                paths["module.find_one"] = outcome(lambda: jp.find_one(q, doc))
                paths["module.compile"] = outcome(lambda: "compiled" if jp.compile(q) else "compiled")
            paths["env.find"] = outcome(lambda: enc_list(e.find(q, doc)) + "|end")
            paths["env.finditer"] = outcome(lambda: drain(e.finditer(q, doc)))
            paths["env.find_one"] = outcome(lambda: e.find_one(q, doc))
            c = outcome(lambda: e.compile(q))
            if reuse is not None and id(e) in reuse and not isinstance(c, str):
                c = reuse[id(e)]
            if isinstance(c, str):
                paths["env.compile"] = c
                for nm in ("query.find", "query.apply", "query.finditer", "query.find_one"):
                    paths[nm] = c
            else:
                kept[id(e)] = c
                if is_default and len(seen_valid) < 200 and q == q.strip():
                    seen_valid.append(q)
                paths["env.compile"] = "compiled"
                paths["query.find"] = outcome(lambda: enc_list(c.find(doc)) + "|end")
                paths["query.apply"] = outcome(lambda: enc_list(c.apply(doc)) + "|end")
                paths["query.finditer"] = outcome(lambda: drain(c.finditer(doc)))
                paths["query.find_one"] = outcome(lambda: c.find_one(doc))
            # reference: the stream of the compiled query
            ref = paths["query.finditer"]
            problems = []
            if ref.startswith("err "):  # compile error: every path raises that class
                for nm, o in paths.items():
                    if o != ref:
                        problems.append((nm, o, ref))
                res.nontrivial.add((q, "invalid"))
            else:
                nodes_part, tail = ref.rsplit("|", 1)
                want_find = ref if tail == "end" else tail
                first = nodes_part.split(" ")[0] if nodes_part else None
                for nm, o in paths.items():
                    kind = nm.split(".")[1]
                    if kind in ("find", "apply"):
                        if o != want_find:
                            problems.append((nm, o, want_find))
                    elif kind == "finditer":
                        if o != ref:
                            problems.append((nm, o, ref))
                    elif kind == "find_one":
                        if first is not None:
                            got = wire.enc_node(o.location, o.value) if hasattr(o, "location") else o
                            if got != first:
                                problems.append((nm, got, first))
                        elif tail == "end":
                            if o is not None:
                                problems.append((nm, repr(o), None))
                        elif o != tail:
                            problems.append((nm, o, tail))
                if nodes_part or tail != "end":
                    res.nontrivial.add((q, json.dumps(doc, sort_keys=True, default=str)))
            res.count("paths-compared", len(paths))
            for nm, o, w in problems[:1]:
                res.violations.append({"property": "C15", "query": q, "document": doc, "observed": {nm: str(o)[:200]},
                                       "expected": str(w)[:200], "what": f"entry point {nm} disagrees"
                                       + (" (compiled query objects kept from an earlier application to the same container object, since edited in place)" if reuse else "")})
        carry = (q, doc, kept) if kept else None
        res.sample({"query": q})
    fresh_env_invalid(rng, tier, res, g)
    overlapping_applications(rng, tier, res)
    long_invalid_history(rng, tier, res)
    api_glue(rng, tier, res, g)
    large_results(tier, res)


def overlapping_applications(rng, tier, res):
    """find() equals the list of finditer() — also when the iterator is not drained in one go: two finditer() of ONE
    compiled query (and of one environment) on two values, consumed alternately, each compared with find() on its value."""
    import jsonpath_rfc9535 as jp

    env = jp.JSONPathEnvironment()
    pairs = [("$.items[?@ == $.want]", {"want": 1, "items": [1, 2, 1, 2, 1]}, {"want": 2, "items": [1, 2, 1, 2, 1]}),
             ("$[?@ == $[0]]", [1, 2, 1, 3], [3, 2, 1, 3]), ("$..[?@.a == $.b]", {"b": 1, "x": [{"a": 1}, {"a": 2}]}, {"b": 2, "x": [{"a": 1}, {"a": 2}]}),
             ("$.k[?@ < $.lim]", {"lim": 2, "k": [1, 2, 3]}, {"lim": 4, "k": [1, 2, 3]}), ("$[?count($[*]) > 2]", [1, 2], [1, 2, 3]),
             ("$..*", {"a": {"b": 1}}, [[1], 2]), ("$[?@[?@ == $[0][0]]]", [[1, 2], [2, 1]], [[2, 1], [1, 2]]), ("$.*[?$.f]", {"f": 1, "a": [1, 2]}, {"a": [1, 2]}),
             ("$[?length(@) == length($[0])]", ["ab", "c", "de"], ["c", "ab", "d"]), ("$[?@.v == $[-1].v]", [{"v": 1}, {"v": 2}], [{"v": 2}, {"v": 1}, {"v": 2}])]
    for q, da, db in pairs:
        for via in ("query", "env"):
            res.evaluations += 1
            c = env.compile(q)
            ia = iter(c.finditer(da)) if via == "query" else iter(env.finditer(q, da))
            ib = iter(c.finditer(db)) if via == "query" else iter(env.finditer(q, db))
            ga, gb = [], []
            la = lb = True
            try:
                while la or lb:
                    if la:
                        n = next(ia, None)
                        la = n is not None
                        if la:
                            ga.append(wire.enc_node(n.location, n.value))
                    if lb:
                        n = next(ib, None)
                        lb = n is not None
                        if lb:
                            gb.append(wire.enc_node(n.location, n.value))
            except jp.JSONPathError as exc:
                ga.append("err " + type(exc).__name__)
            wa, wb = enc_list(env.find(q, da)), enc_list(c.find(db))
            if " ".join(ga) != wa or " ".join(gb) != wb:
                res.violations.append({"property": "C15", "query": q, "document": [da, db], "observed": [" ".join(ga)[:200], " ".join(gb)[:200]], "expected": [wa[:200], wb[:200]],
                                       "what": f"finditer() of one compiled query ({via}) consumed alternately on two values does not give the list find() gives on each"})


ALMOST_VALID = ["$[?@.a == (@.b)]", "$[?(@.a) == 1]", "$[?(@.a) < (@.b)]", "$[?1 == (@.a)]", "$[?@.a == 1 && (@.b) != 2]", "$[?!@.a == 1]", "$[?@.a == !@.b]",
                "$[?@.a >= (1)]", "$[?(@.a || @.b) == true]", "$[?@.a == 1 == 1]", "$[?@.a != (@.*)]", "$[?@.* == 1]", "$[?count(@.a)]", "$[?length(@.*) == 1]",
                "$[?nope(@)]", "$[?true]", "$[?@.a == 01]", "$[9007199254740992]", "$[", "$.a b", "$ ", " $", "$[?@.a &&]", "$[?match(@.a)]", "$['\\x']", "$[1:2:3:4]"]


def large_results(tier, res):
    """find() is the list of finditer() also when the list is LONG: results of 65 537, 100 001 and 1 000 001 nodes (one wide
    array, a descendant walk, a filter keeping everything), through the module functions, an environment and a compiled
    query — same length, same first / last / middle node, find_one the first."""
    import jsonpath_rfc9535 as jp

    env = jp.JSONPathEnvironment()
    sizes_ = [65_537] + ([1_000_001] if tier != "thorough" else [100_001, 1_000_001, 2_000_003])
    for n in sizes_:
        arr = list(range(n))
        cases = [("$[*]", arr, n)] if n > 200_000 else [("$[*]", arr, n), ("$[?@ >= 0]", arr, n), ("$..*", [arr[: n // 2], arr[n // 2:]], n + 2), ("$[::1]", arr, n)]
        for q, doc, want in cases:
            res.evaluations += 1
            c = env.compile(q)
            outs = {}
            points = (("module.find", lambda: jp.find(q, doc)), ("env.find", lambda: env.find(q, doc)), ("compiled.find", lambda: c.find(doc)),
                      ("list(compiled.finditer)", lambda: list(c.finditer(doc))), ("list(module.finditer)", lambda: list(jp.finditer(q, doc))))
            for nm, fn in (points if n <= 200_000 else (points[0], points[3])):
                r = None
                try:
                    r = fn()
                    outs[nm] = (len(r), r[0].location, r[-1].location, r[len(r) // 2].value if not isinstance(r[len(r) // 2].value, list) else "list")
                except Exception as exc:  # noqa: BLE001
                    outs[nm] = "raised " + type(exc).__name__
                del r
            first = c.find_one(doc)
            vals = set(map(str, outs.values()))
            if len(vals) != 1 or not isinstance(outs["module.find"], tuple) or outs["module.find"][0] != want or first is None or first.location != outs["module.find"][1]:
                res.violations.append({"property": "C15", "query": q, "document": f"an array of the integers 0..{n - 1}" + (" split in two halves" if q == "$..*" else ""),
                                       "observed": {k: str(v) for k, v in outs.items()}, "expected": f"{want} nodes from every entry point",
                                       "what": "entry points disagree (or lose nodes) on a large result"})
                return
    res.count("large-results", len(sizes_))


def api_glue(rng, tier, res, g):
    """The small public helpers around the entry points, against the model (`api.glue`) and against each other:
    JSONPathQuery.singular_query() / empty(), ==/hash() of compiled queries (exercised only), repr() of nodes,
    str() of nodelists, JSONPathNodeList views on empty results."""
    import jsonpath_rfc9535 as jp

    env = jp.JSONPathEnvironment()
    eenv = real.enc_env(dict(real.DEFAULT_ENVDESC))
    texts = ["$", "$.a", "$['a'][0]", "$[0]", "$[-1]", "$.a.b.c", "$[*]", "$.a[*]", "$..a", "$.a..b", "$[0,1]", "$['a','b']", "$[1:2]", "$[?@.a]", "$.a[?@.b == 1].c", "$[0][1]['x']",
             "$ .a", "$[ 'a' ]", "$['a', 'a']", "$[:]", "$.a[0:1]", "$..[0]", "$.*", "$[?@]", "$.a.b[?count(@.*) > 1]"]
    for _ in range(60 if tier != "thorough" else 1500):
        texts.append(g.query())
    lines, reals = [], []
    doc = {"a": [{"b": 1, "c": 2}, {"b": 2}], "x": 1}
    for q in texts:
        res.evaluations += 1
        try:
            c1, c2 = env.compile(q), env.compile(q)
        except jp.JSONPathError as exc:
            reals.append(None)
            lines.append(f"api.glue\t{eenv}\t{wire.enc_str(q)}")
            continue
        reals.append(f"glue singular={1 if c1.singular_query() else 0} empty={1 if c1.empty() else 0}")
        lines.append(f"api.glue\t{eenv}\t{wire.enc_str(q)}")
        # (JSONPathQuery defines __hash__ but no __eq__: two compilations are different objects; no property asks for more
        # than identical BEHAVIOUR, which C14 checks — here the helpers are only exercised: they must not raise)
        try:
            _ = (c1 == c2, hash(c1), hash(c2), c1.segments == c2.segments, hash(c1.segments))
        except Exception as exc:  # noqa: BLE001
            res.violations.append({"property": "C13", "query": q, "observed": repr(exc)[:200], "expected": "a value", "what": "==/hash() of compiled queries raised"})
        try:
            nodes = c1.find(doc)
            r = [repr(n) for n in nodes] + [str(nodes)]
            if any(not isinstance(x, str) for x in r) or [n.path() for n in nodes] != nodes.paths():
                raise AssertionError("views")
            if len(nodes) == 0 and (nodes.values() != [] or nodes.paths() != [] or nodes.items() != [] or nodes.empty() is not True):
                res.violations.append({"property": "C08", "query": q, "document": doc, "observed": "views of an empty nodelist", "expected": "empty lists", "what": "nodelist views"})
        except jp.JSONPathError:
            pass
        except Exception as exc:  # noqa: BLE001
            res.violations.append({"property": "C13", "query": q, "document": doc, "observed": repr(exc)[:200], "expected": "strings", "what": "repr()/str() of nodes or nodelists raised"})
    out = model.run_batch_parallel(lines)
    for q, rl, o in zip(texts, reals, out):
        if rl is None:
            if o.startswith("glue"):
                res.mismatches.append({"op": "api.glue", "query": q, "model": o, "real": "rejected"})
        elif o != rl:
            res.mismatches.append({"op": "api.glue", "query": q, "model": o, "real": rl})
    res.count("api-glue", len(texts))


def long_invalid_history(rng, tier, res):
    """The agreement of the entry points does not wear out: ONE long-lived environment is handed many hundreds of invalid
    texts — errors raised deep inside parentheses, function arguments and nested filters, where a parser is in the
    middle of something — through its entry points in rotation (and the module-level functions see a share of them);
    every outcome class must be the one a FRESH environment's compile() gives, and after every block valid filter
    queries must still evaluate, identically through every entry point."""
    import jsonpath_rfc9535 as jp

    inner = ["@ >", "@.a ==", "nope(@)", "count(1)", "length(@.*)", "@.a == 01", "@.a && ", "(@.a", "@.a))", "value(@.a, @.b)", "@.a == (1)", "!!@.a", "@[", "@['a'", "1", "@.a == @.*",
             "match(@.a)", "@.a == 'x", "length(@.a,)", "@..", "@.a ==== 1"]
    wraps = ["$[?({})]", "$[?!({})]", "$[?@.b && ({})]", "$[?count(@[?{}]) > 0]", "$[?length(value(@[?({})])) == 1]", "$.a[?value(@.c[?({})]) == 1]", "$[?((({})))]",
             "$[?match(@.a, value(@[?{}]))]", "$[?@[?@[?({})]]]", "$[?(@.a || ({})) && @.b]"]
    valid = ["$[?(@.a)]", "$[?count(@.*) > 0]", "$[?((@.a == 1) || !(@.b))]", "$[?length(@.a) >= 1]", "$[?@[?(@ > 0)]]", "$.a", "$[?match(@.s, 'a.*')]"]
    doc = [{"a": 1, "b": 1, "s": "ab"}, {"a": [1, 2], "s": "b"}, {"b": [1]}, [1, 0]]

    def cls(thunk):
        try:
            thunk()
            return "ok"
        except jp.JSONPathError as exc:
            return type(exc).__name__
        except Exception as exc:  # noqa: BLE001
            return "PY:" + type(exc).__name__

    e = jp.JSONPathEnvironment()
    entry = [("env.compile", lambda q: e.compile(q)), ("env.find", lambda q: e.find(q, doc)), ("env.finditer", lambda q: list(e.finditer(q, doc))),
             ("env.find_one", lambda q: e.find_one(q, doc)), ("module.find", lambda q: jp.find(q, doc)), ("module.compile", lambda q: jp.compile(q)),
             ("module.finditer", lambda q: list(jp.finditer(q, doc))), ("module.find_one", lambda q: jp.find_one(q, doc))]
    total = 1200 if tier != "thorough" else 12000
    texts = [w.format(i) for w in wraps for i in inner]
    rng.shuffle(texts)
    count = 0
    for k in range(total):
        q = texts[k % len(texts)]
        want = cls(lambda: jp.JSONPathEnvironment().compile(q))
        nm, fn = entry[k % len(entry)]
        got = cls(lambda: fn(q))
        res.evaluations += 1
        count += 1
        if got != want:
            res.violations.append({"property": "C15", "query": q, "document": doc, "observed": {nm: got}, "expected": want,
                                   "history": f"one environment (and the module-level functions) after {count} texts, nearly all invalid, each rejected inside parentheses / arguments / nested filters",
                                   "what": "after a long history of rejected texts an entry point no longer gives the outcome class a fresh environment's compile() gives"})
            return
        if k % 60 == 59:
            for v in valid:
                fresh = jp.JSONPathEnvironment()
                ref = cls(lambda: fresh.find(v, doc))
                ref_nodes = [(n.location, n.value) for n in fresh.find(v, doc)] if ref == "ok" else None
                for nm2, fn2 in (("env.find", lambda q: e.find(q, doc)), ("module.find", lambda q: jp.find(q, doc)), ("env.compile().find", lambda q: e.compile(q).find(doc)),
                                 ("module.finditer", lambda q: list(jp.finditer(q, doc)))):
                    try:
                        got_nodes = [(n.location, n.value) for n in fn2(v)]
                        g2 = "ok"
                    except jp.JSONPathError as exc:
                        g2, got_nodes = type(exc).__name__, None
                    res.evaluations += 1
                    if g2 != ref or got_nodes != ref_nodes:
                        res.violations.append({"property": "C15", "query": v, "document": doc, "observed": {nm2: g2}, "expected": ref,
                                               "history": f"one environment (and the module-level functions) after {count} texts, nearly all invalid",
                                               "what": "after a long history of rejected texts a valid query no longer evaluates through every entry point as on a fresh environment"})
                        return
    res.count("long-invalid-history", count)


def fresh_env_invalid(rng, tier, res, g):
    """"When the query is invalid, every entry point raises the same error class" — also the FIRST time an environment
    sees the text: a fresh environment (and a fresh subclass instance) per text, the entry points taken in several
    orders, each outcome compared with what compile() gave on yet another fresh environment."""
    import jsonpath_rfc9535 as jp

    texts = list(ALMOST_VALID)
    for _ in range(40 if tier != "thorough" else 600):
        texts.append(gen.mutate(rng, g.query()))
    doc = [{"a": 1, "b": 1}, {"a": 1, "b": 2}, {"b": [1]}, {"a": [1, 2]}]

    def cls(thunk):
        try:
            thunk()
            return "ok"
        except jp.JSONPathError as exc:
            return type(exc).__name__
        except RecursionError:
            return "ok"
        except Exception as exc:  # noqa: BLE001
            return "PY:" + type(exc).__name__

    orders = [("compile", "find", "finditer", "find_one", "compile"), ("find", "compile", "find_one", "finditer"), ("find_one", "finditer", "find", "compile"),
              ("finditer", "find_one", "compile", "find")]
    for ti, q in enumerate(texts):
        want = cls(lambda: jp.JSONPathEnvironment().compile(q))
        for order in (orders if ti < len(ALMOST_VALID) else orders[ti % 4: ti % 4 + 1]):
            e = type("Fresh", (jp.JSONPathEnvironment,), {})() if ti % 2 else jp.JSONPathEnvironment()
            res.evaluations += 1
            for nm in order:
                got = cls({"compile": lambda: e.compile(q), "find": lambda: e.find(q, doc), "finditer": lambda: list(e.finditer(q, doc)),
                           "find_one": lambda: e.find_one(q, doc)}[nm])
                if want != "ok" and got != want or want == "ok" and got not in ("ok", "JSONPathRecursionError"):
                    res.violations.append({"property": "C15", "query": q, "document": doc, "observed": {f"env.{nm}": got, "order": list(order)},
                                           "expected": want, "what": "on a fresh environment, an entry point does not give the outcome class compile() gives on a fresh environment"})
                    break
    res.count("fresh-env-texts", len(texts))


# ---------------------------------------------------------------------------------------------
# C14


def edit_in_place(rng, v):
    """one small in-place edit of a container: change/add/remove a member or element somewhere inside"""
    spots = []

    def rec(x):
        if isinstance(x, (dict, list)):
            spots.append(x)
            for y in (x.values() if isinstance(x, dict) else x):
                rec(y)

    rec(v)
    if not spots:
        return
    x = rng.choice(spots)
    new = rng.choice([0, 1, 2, 3, "a", None, True, [1], {"v": 2}, {"a": 1}, 2.5])
    if isinstance(x, dict):
        k = rng.random()
        if x and k < 0.5:
            x[rng.choice(list(x.keys()))] = new
        elif x and k < 0.7:
            del x[rng.choice(list(x.keys()))]
        else:
            x[rng.choice(["a", "b", "v", "c"])] = new
    else:
        k = rng.random()
        if x and k < 0.5:
            x[rng.randrange(len(x))] = new
        elif x and k < 0.7:
            del x[rng.randrange(len(x))]
        else:
            x.insert(rng.randint(0, len(x)), new)


def explore_c14(rng, tier, res, deep=False):
    import jsonpath_rfc9535 as jp

    res.rule = (
        "random histories (length 10..40) of {compile on an environment, apply a compiled query, find via an "
        "environment, find via the module functions, register a probe function on an environment, create an "
        "environment subclass} over shared and fresh environments; after every apply: the document is unchanged "
        "(deep snapshot), the result equals a fresh-environment fresh-compile evaluation with the same registry, "
        "and equals what the World model predicts for the same history (hist op). Non-trivial = distinct history."
    )
    rounds = sizes(tier, deep, 60, 1500)
    fns3 = [(a, b, c) for a, b, c, _ in gen.PROBE_FNS]
    pending = []
    for _ in range(rounds):
        g = gen.QueryGen(rng, names=gen.SIMPLE_NAMES, fns=fns3, max_filter_depth=2)
        envs = [jp.DEFAULT_ENV]
        descs = [dict(real.DEFAULT_ENVDESC, fns=[("length", ["V"], "V", "length"), ("count", ["N"], "V", "count"), ("value", ["N"], "V", "value")])]
        compiled = []  # (env index, text, object)
        ops_wire = []
        outs_real = []
        details = {}  # step index -> (env description at that moment, query text, document snapshot) for apply / envfind steps
        docs = [doc_with_all_kinds(rng, 2) for _ in range(3)]
        eph = [[{"v": 1}, {"v": 2}], [{"v": 1}, {"v": 2}, {"v": 1}], [0, [1], {"a": 2}], [[], 0], [{"a": 1, "b": [2]}], {"a": [1, 2], "b": 1}]
        hist = []
        rec_limit0, switch0 = sys.getrecursionlimit(), sys.getswitchinterval()
        live_obj, live_arr = {}, []
        for _step in range(rng.randint(10, 40)):
            k = rng.random()
            if k < 0.12:
                d = dict(real.DEFAULT_ENVDESC)
                d["maxDepth"] = rng.choice([100, 3, 2])
                d["fns"] = [("length", ["V"], "V", "length"), ("count", ["N"], "V", "count"), ("value", ["N"], "V", "value")]
                cls = type("Sub", (jp.JSONPathEnvironment,), {"max_recursion_depth": d["maxDepth"]})
                envs.append(cls())
                descs.append(d)
                ops_wire.append(f"(newenv {d['maxDepth']} {d['minIdx']} {d['maxIdx']} 0)")
                outs_real.append("unit")
                hist.append(("newenv", d["maxDepth"]))
            elif k < 0.17 and len(envs) > 1:
                # reconfiguration: the limit is a plain attribute that may be set at any time (never on DEFAULT_ENV);
                # applications and compilations that follow — of queries compiled before, too — go by the new value
                ei = rng.randrange(1, len(envs))
                md = rng.choice([1, 2, 3, 4, 100])
                envs[ei].max_recursion_depth = md
                descs[ei] = dict(descs[ei], maxDepth=md)
                ops_wire.append(f"(configure {ei} {md} {descs[ei]['minIdx']} {descs[ei]['maxIdx']})")
                outs_real.append("unit")
                hist.append(("configure", ei, md))
            elif k < 0.27 and len(envs) > 1:
                ei = rng.randrange(1, len(envs))  # never register on DEFAULT_ENV: it is shared by the whole process
                name, ats, ret, body = rng.choice([f for f in gen.PROBE_FNS if f[3] not in ("length", "count", "value")])
                if rng.random() < 0.3:
                    body = "const"
                envs[ei].function_extensions[name] = real.make_probe(ats, ret, body)
                descs[ei] = dict(descs[ei], fns=[f for f in descs[ei]["fns"] if f[0] != name] + [(name, ats, ret, body)])
                ops_wire.append(f"(register {ei} {wire.enc_str(name)} ({' '.join(ats)}) {ret} {body})")
                outs_real.append("unit")
                hist.append(("register", ei, name))
            elif k < 0.5:
                ei = rng.randrange(len(envs))
                q = g.query() if rng.random() < 0.8 else gen.mutate(rng, g.query())
                if rng.random() < 0.06:
                    # long queries, valid and failing late (in the lexer, the parser, the type checker): whatever compile()
                    # adjusts for the duration of a big parse has to be put back on every exit path
                    # (the valid one stays short enough for the interpreter's stack when it is applied: one generator per segment)
                    suffix = rng.choice(["", "[?nope(@.b) > 1]", "[?count(@.b)]", "[?@.b ==]", "[", " ", "[?length(@.b) == 01]"])
                    q = "$" + ".a" * (300 if suffix == "" else rng.choice([300, 600, 1500])) + suffix
                elif rng.random() < 0.35:
                    q = rng.choice(["$[?@.v == $[2].v]", "$[?@ == $[0]]", "$[?$[1]]", "$..[?@ == $.b]", "$[?@.a == $[0].a]",
                                    "$[?count($[*]) > 2]", "$.a[?@ < $.b]", "$[?$[?@.v == 2]]", "$[?@ != $[-1]]",
                                    # almost-valid filters, each rejected by one grammar rule, between valid ones that use the
                                    # same operators: the verdict on a text does not depend on what was compiled before
                                    "$[?@.a == (@.b)]", "$[?(@.a) == 1]", "$[?(@.a) < (@.b)]", "$[?1 == (@.a)]", "$[?@.a == 1 && (@.b) != 2]",
                                    "$[?!@.a == 1]", "$[?@.a == !@.b]", "$[?@.a >= (1)]", "$[?(@.a || @.b) == true]", "$[?@.a == 1 == 1]",
                                    "$[?@.a < @.b && @.b >= 2]", "$[?(@.a || @.b) && !(@.a == 2)]", "$[?@.a != 1 || @.b <= 2 || @.a > 0]",
                                    # well-typed and ill-typed calls of the SAME function with arguments of the same broad kind
                                    "$[?count(@.a) > 0]", "$[?count('ab') == 2]", "$[?count(1) == 1]", "$[?value(@.a) == 1]", "$[?value(length(@.a)) == 1]",
                                    "$[?length(@.a) == 1]", "$[?length(@.*) == 1]", "$[?length(count(@.*)) == 1]", "$[?count(length(@.a)) == 1]", "$[?length(1) == 1]",
                                    "$[?count(@.*) == 1]", "$[?count(@..a) > count(@.a)]", "$[?value(1) == 1]", "$[?length(@.a == 1) == 1]", "$[?count($.a) >= 0]"])
                r = outcome(lambda: envs[ei].compile(q))
                # history irrelevance of compile() itself, on the real code: a fresh environment with the same registry
                r_fresh = outcome(lambda: real.make_env(descs[ei]).compile(q))
                if isinstance(r, str) != isinstance(r_fresh, str) or (isinstance(r, str) and r != r_fresh):
                    res.violations.append({"property": "C14", "query": q, "env": descs[ei],
                                           "observed": r if isinstance(r, str) else "compiled", "expected": r_fresh if isinstance(r_fresh, str) else "compiled",
                                           "history": [str(h)[:120] for h in hist[-12:]],
                                           "what": "whether a text compiles (and with which error) depends on what the environment compiled before: a fresh environment with the same registry decides otherwise"})
                if isinstance(r, str):
                    outs_real.append("raised " + r[4:])
                else:
                    compiled.append((ei, q, r))
                    outs_real.append(f"compiled {len(compiled) - 1}")
                ops_wire.append(f"(compile {ei} {wire.enc_str(q)})")
                hist.append(("compile", ei, q))
            elif k < 0.8 and compiled:
                qi = rng.randrange(len(compiled))
                ei, q, c = compiled[qi]
                km = rng.random()
                if km < 0.35:
                    doc = rng.choice(docs)
                elif km < 0.6:
                    # one long-lived container whose CONTENT is replaced in place between applications (the same
                    # Python object, a different JSON value): caches keyed by the identity of the query argument
                    src = json.loads(json.dumps(rng.choice(docs + eph)))
                    if isinstance(src, dict):
                        live_obj.clear(); live_obj.update(src); doc = live_obj
                    elif isinstance(src, list):
                        live_arr[:] = src; doc = live_arr
                    else:
                        doc = src
                else:
                    # an ephemeral document (freshly decoded, dropped after the call): identity-keyed caches
                    # meet recycled object ids this way
                    doc = json.loads(json.dumps(rng.choice(docs + eph)))
                snap = copy.deepcopy(doc)
                r = outcome(lambda: enc_list(c.find(doc)))
                if doc != snap or wire.enc_json(doc) != wire.enc_json(snap):
                    res.violations.append({"property": "C14", "query": q, "document": snap, "observed": doc,
                                           "expected": "document unchanged", "what": "applying a query modified the document"})
                outs_real.append("nodes " + r if not r.startswith("err ") else "raised " + r[4:])
                details[len(ops_wire)] = (dict(descs[ei]), q, snap)
                ops_wire.append(f"(apply {qi} {wire.enc_json(doc)})")
                hist.append(("apply", qi))
                # history irrelevance on the real code: a fresh environment with the same registry, fresh compile
                fresh = real.make_env(descs[ei])
                r2 = outcome(lambda: enc_list(fresh.find(q, copy.deepcopy(snap))))
                if r2 != r:
                    res.violations.append({"property": "C14", "query": q, "document": snap, "env": descs[ei],
                                           "observed": r[:300], "expected": r2[:300], "history": [str(h) for h in hist[-12:]],
                                           "what": "a compiled query's result depends on the history (differs from a fresh evaluation)"})
            else:
                ei = rng.randrange(len(envs))
                q = g.query()
                doc = rng.choice(docs)
                if ei == 0 and rng.random() < 0.5:
                    r = outcome(lambda: enc_list(jp.find(q, doc)))
                else:
                    r = outcome(lambda: enc_list(envs[ei].find(q, doc)))
                outs_real.append("nodes " + r if not r.startswith("err ") else "raised " + r[4:])
                details[len(ops_wire)] = (dict(descs[ei]), q, copy.deepcopy(doc))
                ops_wire.append(f"(envfind {ei} {wire.enc_str(q)} {wire.enc_json(doc)})")
                hist.append(("envfind", ei, q))
            res.evaluations += 1
            if sys.getrecursionlimit() != rec_limit0 or sys.getswitchinterval() != switch0:
                res.violations.append({"property": "C14", "query": str(hist[-1])[:200], "observed": {"recursionlimit": sys.getrecursionlimit(), "switchinterval": sys.getswitchinterval()},
                                       "expected": {"recursionlimit": rec_limit0, "switchinterval": switch0}, "history": [str(h)[:120] for h in hist[-6:]],
                                       "what": "an operation changed interpreter-wide state (the recursion limit) that the outcome of later evaluations on ANY environment depends on"})
                sys.setrecursionlimit(rec_limit0)
        # bursts: the same compiled query applied back to back to documents that are decoded, used once and dropped
        # (nothing else allocated in between), each result compared with a fresh environment's
        texts = [json.dumps(d) for d in eph + docs]
        for ei, q, c in compiled[:8]:
            order = [rng.choice(texts) for _ in range(8)]

            def once(t, c=c):
                try:
                    return enc_list(c.find(json.loads(t)))
                except jp.JSONPathError as e:
                    return "err " + type(e).__name__
                except RecursionError:
                    raise
                except Exception as e:  # noqa: BLE001
                    return "err PY:" + type(e).__name__

            got = [once(t) for t in order]
            fresh = real.make_env(descs[ei])
            for t, g_ in zip(order, got):
                res.evaluations += 1
                want = outcome(lambda: enc_list(fresh.find(q, json.loads(t))))
                if g_ != want:
                    res.violations.append({"property": "C14", "query": q, "document": json.loads(t), "env": descs[ei],
                                           "observed": g_[:300], "expected": want[:300],
                                           "history": ["compile once, then apply to freshly decoded documents back to back: "] + [x[:60] for x in order],
                                           "what": "a reused compiled query gives a different nodelist than a fresh evaluation of equal data"})
                    break
        # two applications of one compiled query under way at the same time (lazy iterators consumed alternately) on two
        # values — a different one, or a Python-equal twin: each must give what a fresh evaluation of its value gives
        for ei, q, c in compiled[:8]:
            fresh = real.make_env(descs[ei])
            da = json.loads(json.dumps(rng.choice(docs + eph)))
            db = sweep_mod.py_equal_twin(rng, da) if rng.random() < 0.5 else json.loads(json.dumps(rng.choice(docs + eph)))
            if db is None:
                db = json.loads(json.dumps(rng.choice(docs + eph)))
            res.evaluations += 1
            try:
                ia, ib = iter(c.finditer(da)), iter(c.finditer(db))
                ga, gb = [], []
                live_a = live_b = True
                while live_a or live_b:
                    if live_a:
                        n = next(ia, None)
                        live_a = n is not None
                        if n is not None:
                            ga.append(wire.enc_node(n.location, n.value))
                    if live_b:
                        n = next(ib, None)
                        live_b = n is not None
                        if n is not None:
                            gb.append(wire.enc_node(n.location, n.value))
                got_ab = (" ".join(ga), " ".join(gb))
            except jp.JSONPathError as e:
                got_ab = ("err " + type(e).__name__,) * 2
            except RecursionError:
                raise
            except Exception as e:  # noqa: BLE001
                got_ab = ("err PY:" + type(e).__name__,) * 2
            wa = outcome(lambda: enc_list(fresh.find(q, json.loads(json.dumps(da)))))
            wb = outcome(lambda: enc_list(fresh.find(q, json.loads(json.dumps(db)))))
            if not wa.startswith("err ") and not wb.startswith("err ") and got_ab != (wa, wb):
                res.violations.append({"property": "C14", "query": q, "document": [da, db], "env": descs[ei], "observed": [x[:200] for x in got_ab], "expected": [wa[:200], wb[:200]],
                                       "history": ["compile once; two finditer() of that query, on the two values shown, consumed alternately"],
                                       "what": "a compiled query applied to a value while another application of it is under way gives a different nodelist than a fresh evaluation"})
        # the same compiled query applied again and again to ONE object whose content is edited in place
        for ei, q, c in compiled[:8]:
            fresh = real.make_env(descs[ei])
            for proto in ([{"v": 1}, {"v": 2}, {"v": 1}], {"a": [1, 2, 3], "b": 2}, rng.choice(docs)):
                live = json.loads(json.dumps(proto))
                for _edit in range(4):
                    res.evaluations += 1
                    got = outcome(lambda: enc_list(c.find(live)))
                    want = outcome(lambda: enc_list(fresh.find(q, json.loads(json.dumps(live)))))
                    if got != want:
                        res.violations.append({"property": "C14", "query": q, "document": json.loads(json.dumps(live)), "env": descs[ei],
                                               "observed": got[:300], "expected": want[:300],
                                               "history": ["compile once, apply to one container object, edit the container in place, apply again"],
                                               "what": "a reused compiled query gives a different nodelist than a fresh evaluation of equal data"})
                        break
                    edit_in_place(rng, live)
        res.nontrivial.add(tuple(str(h) for h in hist))
        res.sample({"history": [str(h)[:80] for h in hist[:8]]})
        pending.append(("hist\t(ops " + " ".join(ops_wire) + ")", outs_real, hist, details))
    shared_substructure(rng, tier, res)
    conflated_twins_history(res)
    deep_texts_history(res)
    subclass_alongside(rng, tier, res)
    typed_call_twins(rng, tier, res)
    reregister_between_applications(rng, tier, res)
    try:
        reps = model.run_batch_parallel([p[0] for p in pending])
    except model.ModelError as err:
        res.infra.append(str(err)[:200])
        return
    for (line, outs_real, hist, details), rep in zip(pending, reps):
        want = "outs\t" + "\t".join(outs_real)
        if rep != want:
            # locate the first differing step
            a, b = rep.split("\t")[1:], outs_real
            idx = next((i for i in range(min(len(a), len(b))) if a[i] != b[i]), min(len(a), len(b)))
            res.mismatches.append({"op": "hist", "step": idx, "history": [str(h)[:120] for h in hist[: idx + 1]][-6:],
                                   "model": a[idx][:200] if idx < len(a) else None, "real": b[idx][:200] if idx < len(b) else None})
            # the step itself is a concrete (environment, query, value): judge what the real code returned by the RFC oracle
            # (a process-wide cache makes a fresh environment agree with the wrong answer; the oracle does not share it)
            if idx in details and idx < len(b) and b[idx].startswith("nodes"):
                desc, q, snap = details[idx]
                try:
                    orep = model.run_batch([f"rfc.query\t{real.enc_env(desc)}\t{wire.enc_str(q)}\t{wire.enc_json(snap)}"])[0]
                except Exception:  # noqa: BLE001
                    orep = ""
                if orep.startswith("valid\t") or orep == "valid":
                    want_nodes = orep.split("\t", 1)[1] if "\t" in orep else ""
                    got_nodes = b[idx][len("nodes "):] if len(b[idx]) > 5 else ""
                    if got_nodes.strip() != want_nodes.strip():
                        res.violations.append({"property": "C14", "query": q, "document": snap, "env": desc, "observed": got_nodes[:300], "expected": want_nodes[:300],
                                               "history": [str(h)[:120] for h in hist[: idx + 1]][-10:],
                                               "what": "after this history the real code returns, for this query and value, a nodelist that is not the RFC 9535 nodelist (the model of a history-free evaluation and the oracle agree with each other)"})


def deep_texts_history(res):
    """Compiling the same text again gives the same outcome whatever was compiled in between — also DEEPLY nested texts
    (parentheses, nested filters, nested calls; 40 .. 160 levels), compiled in rising and falling order on one long-lived
    environment and through the module functions: each outcome class equals the first one for that text and a fresh
    environment's."""
    import jsonpath_rfc9535 as jp

    def texts(d):
        return ["$[?" + "(" * d + "@.a" + ")" * d + "]", "$" + "[?@" * d + "]" * d, "$[?" + "!(" * (d // 2) + "@.a" + ")" * (d // 2) + "]",
                "$[?length(" + "value(" * (d // 2) + "@.a" + ")" * (d // 2) + ") == 1]"]

    def cls(fn):
        try:
            fn()
            return "ok"
        except jp.JSONPathError as exc:
            return type(exc).__name__
        except RecursionError:
            return "PY:RecursionError"
        except Exception as exc:  # noqa: BLE001
            return "PY:" + type(exc).__name__

    env = jp.JSONPathEnvironment()
    first = {}
    depths = [40, 98, 100, 101, 110, 140]
    order = depths + depths[::-1] + [98, 140, 99, 98]
    for step, d in enumerate(order):
        for t in texts(d):
            res.evaluations += 1
            got = cls(lambda: env.compile(t)) if step % 2 == 0 else cls(lambda: jp.compile(t))
            fresh = cls(lambda: jp.JSONPathEnvironment().compile(t))
            want = first.setdefault(t, got)
            if got != want or got != fresh:
                res.violations.append({"property": "C14", "query": t[:60] + f"... ({d} levels, {len(t)} characters)", "observed": got, "expected": want if got != want else fresh,
                                       "history": f"one environment and the module functions compiled texts nested {order[:step]} levels deep before this one",
                                       "what": "the outcome of compiling a text depends on which (deeper) texts were compiled before: it differs from the first outcome for the same text / from a fresh environment's"})
                return
    res.count("deep-texts-history", len(order))


def conflated_twins_history(res):
    """Values that Python's == and hash() cannot tell apart but that are different JSON values (true / 1 / 1.0, false / 0 /
    0.0 / -0.0), met by ONE process in both orders, with and without many other distinct numbers compared in between
    (enough to turn over any bounded memo): compiled queries applied to the float version, the boolean version, the
    integer version, in every order; every nodelist judged by the RFC oracle."""
    import itertools

    env = real.make_env(real.DEFAULT_ENVDESC)
    eenv = real.enc_env(real.DEFAULT_ENVDESC)
    other = real.make_env(real.DEFAULT_ENVDESC)
    filler = [i + 0.5 for i in range(260)] + [float(i) for i in range(2, 200)]
    qs = ["$[?@.a < 2]", "$[?@.a == 1]", "$[?@.a >= 0]", "$[?@.a == 1.0]", "$[?@.a != 0]", "$[?@.a <= @.b]", "$[?@.a == @.b]", "$[?1 > @.a]", "$[?@.a == true]", "$[?@.a == false]"]
    versions = {"float": [{"a": 1.0, "b": 1.0}, {"a": 0.0, "b": -0.0}, {"a": "x", "b": None}], "bool": [{"a": True, "b": True}, {"a": False, "b": False}, {"a": "x", "b": None}],
                "int": [{"a": 1, "b": 1}, {"a": 0, "b": 0}, {"a": "x", "b": None}], "mixed": [{"a": True, "b": 1.0}, {"a": 0.0, "b": False}, {"a": 1, "b": True}]}
    lines, got = [], []
    for order in itertools.permutations(["float", "bool", "int", "mixed"], 3):
        for churn in (False, True):
            for q in qs[:: (1 if churn else 2)]:
                c = env.compile(q)
                for k in order:
                    doc = json.loads(json.dumps(versions[k]))
                    r = outcome(lambda: enc_list(c.find(doc)))
                    got.append((q, doc, r, order, churn))
                    lines.append(f"rfc.query\t{eenv}\t{wire.enc_str(q)}\t{wire.enc_json(doc)}")
                    if churn:
                        try:
                            other.find("$[?@ > -1 && @ == @]", filler)
                        except Exception:  # noqa: BLE001
                            pass
    reps = model.run_batch_parallel(lines)
    for (q, doc, r, order, churn), rep in zip(got, reps):
        res.evaluations += 1
        if not rep.startswith("valid"):
            continue
        want = rep.split("\t", 1)[1] if "\t" in rep else ""
        if r.strip() != want.strip():
            res.violations.append({"property": "C14", "query": q, "document": doc, "observed": r[:300], "expected": want[:300],
                                   "history": f"one compiled query applied to the versions {list(order)} of the data in this order" + (", with ~450 other distinct numbers compared on another environment in between" if churn else ""),
                                   "what": "a compiled query's nodelist on this value depends on which Python-equal but JSON-different values (true / 1 / 1.0, false / 0 / 0.0) the process compared before"})
            return
    res.count("conflated-twins-history", len(lines))


def shared_substructure(rng, tier, res):
    """Equal data is equal data however it is held in memory: values in which one container OBJECT occurs at several
    places (the same row twice, one dict under two members, one list at two depths, one empty list everywhere) against
    their deep copies, in which every occurrence is an object of its own — same nodelist, same outcome; also after the
    shared value has been applied first (and the other way round), both modes."""
    import copy

    import jsonpath_rfc9535 as jp

    def build():
        d = {"a": 1, "tags": ["x"]}
        row = [1, {"a": 2}]
        e = []
        o = {}
        inner = {"a": {"a": [0]}}
        return [
            {"left": d, "right": d},
            [row, row],
            {"items": [d, {"a": 3}, d], "first": d},
            [e, [e], {"k": e}, e],
            {"x": o, "y": {"z": o}, "l": [o, o]},
            {"p": inner, "q": {"r": inner["a"]}, "s": [inner["a"]["a"]]},
            [[row], row, {"a": row}],
        ]

    queries = ["$..a", "$..[0]", "$..*", "$.items[?count(@..a) == 1]", "$[*][*]", "$..[?@.a]", "$[?@ == $[0]]", "$..tags[0]", "$[?count(@..*) >= 0]", "$..[?@..a]", "$.*", "$..[-1]",
               "$[?@.a == $.first.a]", "$..['a','tags']"]
    for ndflag in (False, True):
        env = real.make_env(dict(real.DEFAULT_ENVDESC, nd=ndflag))
        for order in ("shared-first", "copy-first"):
            for q in queries:
                c = env.compile(q)
                for shared in build():
                    plain = json.loads(json.dumps(shared))
                    res.evaluations += 1
                    seq = [("shared", shared), ("copy", plain)] if order == "shared-first" else [("copy", plain), ("shared", shared)]
                    outs = {}
                    for label, v in seq:
                        r = outcome(lambda: enc_list(c.find(v)))
                        outs[label] = sorted(r.split(" ")) if ndflag and not r.startswith("err") else r
                    res.nontrivial.add(("shared-substructure", ndflag, order, q, json.dumps(plain, sort_keys=True)))
                    if outs["shared"] != outs["copy"]:
                        res.violations.append({"property": "C14", "query": q, "document": plain, "env": {"nondeterministic": ndflag},
                                               "observed": str(outs["shared"])[:300], "expected": str(outs["copy"])[:300],
                                               "history": ["the value is built so that one container object occurs at several places (e.g. row = [...]; value = [row, row]); "
                                                           "the expected outcome is that of its deep copy (json round trip), applied " + ("after" if order == "shared-first" else "before") + " it with the same compiled query"],
                                               "what": "a compiled query gives another outcome on a value that shares container objects than on equal data that does not"})
    res.count("shared-substructure")


def typed_call_twins(rng, tier, res):
    """Whether a text compiles does not depend on what the environment compiled before: well-typed and ill-typed calls of
    the SAME function (arguments of the same broad kind: literal / singular query / ValueType call; query / NodesType
    call; test) compiled on one environment in both orders, and after the function was registered again with another
    signature; each verdict compared with a fresh environment that has the registry of that moment."""
    import jsonpath_rfc9535 as jp

    desc = dict(real.DEFAULT_ENVDESC, fns=gen.PROBE_FNS)
    groups = [["$[?count(@.a) > 0]", "$[?count('ab') == 2]", "$[?count(1) == 1]", "$[?count(length(@.a)) == 1]", "$[?count(@.*) > 0]", "$[?count(nf(@.*)) > 0]", "$[?count(@.a == 1) > 0]"],
              ["$[?value(@.a) == 1]", "$[?value(length(@.a)) == 1]", "$[?value(1) == 1]", "$[?value(@..a) == 1]"],
              ["$[?length(@.a) == 1]", "$[?length(@.*) == 1]", "$[?length(count(@.*)) == 1]", "$[?length(1) == 1]", "$[?length(nf(@.*)) == 1]", "$[?length(@.a == 1) == 1]", "$[?length(lf(@.a)) == 1]"],
              ["$[?lf(@.a)]", "$[?lf(1)]", "$[?lf(length(@))]", "$[?lf(@.a == 1)]", "$[?lf(vf(@.a))]", "$[?lf(nf(@.*))]"],
              ["$[?nf(@.a)]", "$[?nf(1)]", "$[?nf(@.*)]", "$[?nf(length(@.a))]", "$[?nf(@.a == 1)]"],
              ["$[?vf(@.a) == 1]", "$[?vf(@.*) == 1]", "$[?vf(1) == 1]", "$[?vf(lf(@.a)) == 1]", "$[?vf(count(@.*)) == 1]"],
              ["$[?match(@.a, 'x')]", "$[?match(@.*, 'x')]", "$[?match(@.a, @.*)]", "$[?match(1, 2)]", "$[?match(@.a == 1, 'x')]"]]
    groups[-1:] = []  # match/search are not in the probe registry
    for grp in groups:
        for order in (grp, grp[::-1], grp[1:] + grp[:1]):
            env = real.make_env(desc)
            for q in order + order:
                res.evaluations += 1
                got = outcome(lambda: env.compile(q))
                want = outcome(lambda: real.make_env(desc).compile(q))
                g, w = (got if isinstance(got, str) else "compiled"), (want if isinstance(want, str) else "compiled")
                if g != w:
                    res.violations.append({"property": "C14", "query": q, "env": desc, "observed": g, "expected": w, "history": ["compiled before on this environment, in this order: "] + order,
                                           "what": "whether a text compiles depends on what the environment compiled before"})
                    break
    # the same name registered again with another signature: texts compiled before must be judged by the registry of now
    for (ats1, ret1), (ats2, ret2), q in [((["V"], "L"), (["N"], "L"), "$[?f(1)]"), ((["N"], "L"), (["V"], "L"), "$[?f(@.*)]"), ((["V"], "V"), (["V"], "L"), "$[?f(@.a) == 1]"),
                                          ((["L"], "L"), (["V"], "L"), "$[?f(@.a == 1)]"), ((["V"], "L"), (["V", "V"], "L"), "$[?f(1)]")]:
        env = real.make_env(desc)
        env.function_extensions["f"] = real.make_probe(ats1, ret1, "const")
        first = outcome(lambda: env.compile(q))
        env.function_extensions["f"] = real.make_probe(ats2, ret2, "const")
        res.evaluations += 1
        got = outcome(lambda: env.compile(q))
        fresh = real.make_env(desc)
        fresh.function_extensions["f"] = real.make_probe(ats2, ret2, "const")
        want = outcome(lambda: fresh.compile(q))
        g, w = (got if isinstance(got, str) else "compiled"), (want if isinstance(want, str) else "compiled")
        if g != w:
            res.violations.append({"property": "C14", "query": q, "observed": g, "expected": w,
                                   "history": [f"register f{tuple(ats1)}->{ret1}; compile the text ({first if isinstance(first, str) else 'compiled'}); register f again as {tuple(ats2)}->{ret2}; compile the text again"],
                                   "what": "after a function was registered again with another signature, a text is still judged by the old one"})


def reregister_between_applications(rng, tier, res):
    """A compiled query calls the function that its environment's registry holds WHEN IT IS APPLIED (the registry is
    looked up at each evaluation — what compile-then-register-then-apply and apply-then-register-then-apply must agree
    on): compile, apply, register the same name with another body, apply again, register back, apply again; every
    result judged by the oracle for the registry of that moment; and an equal text compiled afresh must agree."""
    base = dict(real.DEFAULT_ENVDESC, fns=gen.PROBE_FNS)
    docs = [[{"a": 1}, {"a": 7}, {"b": 1}, 7, [7], "x"], {"p": {"a": 7}, "q": {"a": 2}, "r": 7}]
    swaps = [("vf", ["V"], "V", "pick0", "const", "$[?vf(@.a) == 7]"), ("lf", ["L"], "L", "pick0", "const", "$[?lf(@.a)]"), ("nf", ["N"], "N", "pick0", "const", "$[?nf(@.a)]"),
             ("vf", ["V"], "V", "pick0", "const", "$..[?vf(@) == 7]"), ("lf", ["L"], "L", "pick0", "const", "$[?!lf(@.b) && lf(@.a)]")]
    lines, recs = [], []
    for name, ats, ret, body1, body2, q in swaps:
        for doc in docs:
            env = real.make_env(base)
            env.function_extensions[name] = real.make_probe(ats, ret, body1)
            c = env.compile(q)
            for step, body in enumerate([body1, body2, body1, body2]):
                if step:
                    env.function_extensions[name] = real.make_probe(ats, ret, body)
                desc = dict(base, fns=[f for f in base["fns"] if f[0] != name] + [(name, ats, ret, body)])
                got_old = outcome(lambda: enc_list(c.find(doc)))
                got_new = outcome(lambda: enc_list(env.compile(q).find(doc)))
                recs.append((q, doc, desc, got_old, got_new, step))
                lines.append(f"rfc.query\t{real.enc_env(desc)}\t{wire.enc_str(q)}\t{wire.enc_json(doc)}")
    for (q, doc, desc, got_old, got_new, step), rep in zip(recs, model.run_batch_parallel(lines)):
        res.evaluations += 1
        if rep.split("\t")[0] != "valid":
            continue
        want = rep.split("\t", 1)[1] if "\t" in rep else ""
        for who, got in (("the query compiled before", got_old), ("the same text compiled now", got_new)):
            if got != want:
                res.violations.append({"property": "C14", "query": q, "document": doc, "env": desc, "observed": {who: str(got)[:300]}, "expected": want[:300],
                                       "history": [f"compile; apply; register the function again with another body; apply (x{step}); the registry shown is the current one"],
                                       "what": "after a function was registered again, " + who + " does not evaluate calls with the environment's current registry"})
                break


def subclass_alongside(rng, tier, res):
    """"Subclassing an environment does not change other environments or the module functions": a subclass whose class
    attributes differ (nondeterministic = True, another depth limit) is used on the SAME query texts before, between
    and after the default environment, the module functions and queries compiled earlier; those must keep returning
    the RFC nodelist in document order (judged by the oracle), and the subclass a reordering of it."""
    import jsonpath_rfc9535 as jp

    class ND(jp.JSONPathEnvironment):
        nondeterministic = True

    class Shallow(jp.JSONPathEnvironment):
        max_recursion_depth = 1

    wide = {"k%02d" % i: {"a": i, "s": "x%d" % i, "l": [i]} for i in range(12)}
    wide_arr = [{"a": i, "s": "x%d" % i} for i in range(9)]
    texts = ["$[?@.a]", "$..[?@]", "$[?@.l[0]]", "$[?match(@.s, 'x[0-9]+')]", "$[?!@.nosuch]", "$[?@.a && !@.zz]", "$.*", "$..*", "$[?@.a >= 0]", "$[?count(@.*) > 0]",
             "$[?search(@.s, '1') || @.nosuch]", "$[?@.l]", "$.*.a", "$[?@.a || @.b]", "$..[?@.a]", "$[?length(@.s) > 1]"]
    eenv = real.enc_env(real.DEFAULT_ENVDESC)
    lines, recs = [], []
    for ti, q in enumerate(texts):
        for doc in (wide, wide_arr):
            nd, sh, det = ND(), Shallow(), jp.JSONPathEnvironment()
            early = det.compile(q)
            steps = []
            order = ["nd", "det", "module", "early", "shallow", "nd", "det"] if ti % 2 == 0 else ["det", "nd", "module", "nd", "early", "shallow", "det"]
            for who in order:
                try:
                    if who == "nd":
                        r = ("nd", enc_list(nd.find(q, doc)))
                    elif who == "det":
                        r = ("det", enc_list(det.find(q, doc)))
                    elif who == "module":
                        r = ("module", enc_list(jp.find(q, doc)))
                    elif who == "early":
                        r = ("early", enc_list(early.find(doc)))
                    else:
                        try:
                            r = ("shallow", enc_list(sh.find(q, doc)))
                        except jp.JSONPathRecursionError:
                            r = ("shallow", None)
                except jp.JSONPathError as exc:
                    r = (who, "err " + type(exc).__name__)
                steps.append(r)
            recs.append((q, doc, order, steps))
            lines.append(f"rfc.query\t{eenv}\t{wire.enc_str(q)}\t{wire.enc_json(doc)}")
    for (q, doc, order, steps), rep in zip(recs, model.run_batch_parallel(lines)):
        res.evaluations += 1
        if rep.split("\t")[0] != "valid":
            continue
        want = rep.split("\t", 1)[1] if "\t" in rep else ""
        for who, got in steps:
            if got is None:
                continue
            ok = (sorted(got.split(" ")) == sorted(want.split(" "))) if who == "nd" else (got == want)
            if not ok:
                res.violations.append({"property": "C14", "query": q, "document": doc, "observed": {who: got[:300]}, "expected": want[:300],
                                       "history": ["environments: a nondeterministic subclass, a subclass with depth limit 1, a default environment, the module functions; the same text through: " + ", ".join(order)],
                                       "what": "with a subclassed environment in use alongside, " + ("the subclass does not return the RFC nodes" if who == "nd" else "an entry point that is not the subclass no longer returns the RFC nodelist in document order")})
                break
    res.count("subclass-alongside", len(lines))


# ---------------------------------------------------------------------------------------------
# C16


def schedules(counts, cap, rng):
    """all interleavings of next() calls: iterator i is advanced counts[i] times (cap on the number returned)"""
    total = sum(counts)
    items = [i for i, c in enumerate(counts) for _ in range(c)]
    seen = set()
    # exact multinomial enumeration when small, else random distinct permutations
    from math import factorial

    m = factorial(total)
    for c in counts:
        m //= factorial(c)
    if m <= cap:
        for p in set(itertools.permutations(items)):
            yield list(p)
        return
    while len(seen) < cap:
        p = items[:]
        rng.shuffle(p)
        t = tuple(p)
        if t not in seen:
            seen.add(t)
            yield p


def explore_c16(rng, tier, res, deep=False):
    import jsonpath_rfc9535 as jp

    res.rule = (
        "k = 2..3 live iterators from the same compiled query / the same environment / different ones over the same "
        "or different values, queries with filters, nested filters and descendant segments (and a low recursion "
        "limit so that some iterators end in an exception); every schedule of next() calls up to the combined "
        "result length + 1 (all interleavings when <= cap, else sampled), abandoned and exhausted variants: each "
        "iterator must yield exactly its solitary sequence. Plus threads with sys.setswitchinterval(1e-6) on a "
        "shared environment and compiled query (stress test, not proof). Non-trivial = distinct schedule executed."
    )
    rounds = sizes(tier, deep, 40, 600)
    cap = 400 if tier != "thorough" else 2000
    g = gen.QueryGen(rng, names=gen.SIMPLE_NAMES, max_filter_depth=2)

    class Low(jp.JSONPathEnvironment):
        max_recursion_depth = 3

    class Mid(jp.JSONPathEnvironment):
        max_recursion_depth = 6

    def spine(depth):
        """containers nested `depth` deep along the FIRST child, so a pre-order walk is deep after a few steps"""
        v = rng.choice([0, "a", [], {}])
        for _ in range(depth):
            v = [v, 1] if rng.random() < 0.5 else {"a": v, "b": 0}
        return v

    class Swapped(jp.JSONPathEnvironment):
        """same function NAMES, other bodies: length() is constantly 7 here"""

        def setup_function_extensions(self):
            super().setup_function_extensions()
            self.function_extensions["length"] = real.make_probe(["V"], "V", "const")

    class Swapped2(jp.JSONPathEnvironment):
        def setup_function_extensions(self):
            super().setup_function_extensions()
            self.function_extensions["length"] = real.make_probe(["V"], "V", "pick0")
            self.function_extensions["count"] = real.make_probe(["N"], "V", "const")
            self.function_extensions["lf"] = real.make_probe(["L"], "L", "pick0")   # lf(x) = x
            self.function_extensions["match"] = real.make_probe(["V", "V"], "L", "const")  # always true here

    class Swapped3(jp.JSONPathEnvironment):
        def setup_function_extensions(self):
            super().setup_function_extensions()
            self.function_extensions["lf"] = real.make_probe(["L"], "L", "const")   # lf(x) = true

    env_a, env_b, env_c = jp.JSONPathEnvironment(), Low(), Mid()
    env_sw, env_sw2, env_sw3 = Swapped(), Swapped2(), Swapped3()
    env_a_late = jp.JSONPathEnvironment()  # a stock environment constructed AFTER the ones with other registries
    reg_queries = ["$[?length(@) >= 2]", "$[?length(@) == 7]", "$..[?length(@.a) == 7]", "$[?length(@) == @]", "$[?count(@.*) == 7]", "$[?length(@) > 0 && count(@.*) >= 0]",
                   "$..[?length(@) == 1]"]
    reg_docs = [["é", "ab", "日本", "xyz", "q", "ü", "mn", 7, [1, 2], {"a": "abcdefg"}, [1, 2, 3, 4, 5, 6, 7]], {"k": "abcdefg", "l": [7, "7", "ab"], "m": {"a": [1]}}]
    round_no = -1
    _b = [("length", ["V"], "V", "length"), ("count", ["N"], "V", "count"), ("value", ["N"], "V", "value")]
    reg_desc = {
        id(env_a): dict(real.DEFAULT_ENVDESC, fns=_b + [("match", ["V", "V"], "L", "match"), ("search", ["V", "V"], "L", "search")]),
        id(env_a_late): dict(real.DEFAULT_ENVDESC, fns=_b + [("match", ["V", "V"], "L", "match"), ("search", ["V", "V"], "L", "search")]),
        id(env_sw): dict(real.DEFAULT_ENVDESC, fns=[("length", ["V"], "V", "const")] + _b[1:] + [("match", ["V", "V"], "L", "match"), ("search", ["V", "V"], "L", "search")]),
        id(env_sw2): dict(real.DEFAULT_ENVDESC, fns=[("length", ["V"], "V", "pick0"), ("count", ["N"], "V", "const"), _b[2], ("lf", ["L"], "L", "pick0"),
                                                      ("match", ["V", "V"], "L", "const"), ("search", ["V", "V"], "L", "search")]),
        id(env_sw3): dict(real.DEFAULT_ENVDESC, fns=_b + [("lf", ["L"], "L", "const"), ("match", ["V", "V"], "L", "match"), ("search", ["V", "V"], "L", "search")]),
    }
    lf_queries = ["$[?lf(@.a), ?lf(@.b)]", "$[?lf(@.a)]", "$[?lf(@.a) && !lf(@.zz), 0]", "$..[?lf(@.b), ?!lf(@.a)]"]
    lf_doc = [{"a": 1, "s": "Ada"}, {"b": 1, "s": "adam"}, {"a": 0, "b": 0, "s": "Bob"}, {"s": "xb"}, {"zz": 1}]
    _keys, _lines = [], []
    for _e in (env_a, env_sw, env_sw2, env_a_late, env_sw3):
        for _q in reg_queries + lf_queries:
            for _d in reg_docs + [lf_doc]:
                _keys.append((id(_e), _q, json.dumps(_d, sort_keys=True)))
                _lines.append(f"rfc.query\t{real.enc_env(reg_desc[id(_e)])}\t{wire.enc_str(_q)}\t{wire.enc_json(_d)}")
    reg_oracle = dict(zip(_keys, model.run_batch_parallel(_lines)))
    pool = ["$..*", "$[?@..*]", "$..[?@]", "$[?@[?@]]", "$.*", "$..a", "$[*][*]", "$[?@.a || @[0]]",
            # the query argument inside a filter: each iterator has its own `$`
            "$[?@ == $[0]]", "$[?@ != $[-1]]", "$.*[?@ == $.a]", "$[?$[1]]", "$[?@.a == $.a]", "$..[?@ == $.b]", "$[?count($[*]) > 2]", "$.a[?@ == $.b]"]
    for _ in range(rounds):
        k = rng.choice([2, 2, 3])
        specs = []
        shared_q = rng.choice(pool) if rng.random() < 0.5 else g.query()
        shared_doc = doc_with_all_kinds(rng, rng.choice([2, 3, 4]))
        shared_c = None
        # "spine" rounds: the same compiled descendant query, on an environment with a low limit, over values nested
        # close to that limit: anything the traversal keeps per query object rather than per iterator (a depth
        # counter, a work list) makes the iterators' depths add up or reset each other
        round_no += 1
        # "registry" rounds: environments that give the same function names other bodies, iterators of each alive at once
        # (the first rounds of every run, then now and then): a call is evaluated with the registry of ITS environment
        reg_round = round_no < 12 or rng.random() < 0.1
        spine_round = (not reg_round) and rng.random() < 0.3
        if spine_round:
            spine_env = rng.choice([env_b, env_c])
            shared_q = rng.choice(["$..*", "$..a", "$..[0]", "$..[?@]", "$..[?@.a]", "$..[*]", "$[?@..a]"])
            shared_c = (spine_env, spine_env.compile(shared_q))
        # "twin" rounds: one compiled query with `$` inside a filter over values that Python's == cannot tell apart
        twin_round = (not spine_round) and (not reg_round) and rng.random() < 0.25
        twin_docs = []
        if twin_round:
            base = rng.choice([{"k": True, "xs": [0, 1, True, False, "1"]}, [True, 1, 1, 0, False], {"a": 1, "b": [1, True, 0]},
                               {"want": {"v": 1}, "x": [{"v": 1}, {"v": True}]}, doc_with_all_kinds(rng, 2)])
            shared_q = rng.choice(["$.xs[?@ == $.k]", "$[?@ == $[0]]", "$[?@ != $[-1]]", "$.b[?@ == $.a]", "$..[?@.v == $.want.v]", "$.*[?@ == $.a]", "$[?$[1] == @]"])
            twin_docs = [base] + [t for t in (sweep_mod.py_equal_twin(rng, base) for _ in range(k - 1)) if t is not None]
            if len(twin_docs) < 2:
                twin_round = False
            else:
                try:
                    shared_c = (env_a, env_a.compile(shared_q))
                except jp.JSONPathError:
                    twin_round = False
        for i in range(k):
            e = rng.choice([env_a, env_b])
            q = shared_q if rng.random() < 0.6 else (rng.choice(pool) if rng.random() < 0.5 else g.query())
            d = shared_doc if rng.random() < 0.6 else doc_with_all_kinds(rng, rng.choice([2, 3]))
            if i > 0 and rng.random() < 0.35:
                # another value that Python's == cannot tell from an earlier iterator's (true vs 1, false vs 0)
                tw = sweep_mod.py_equal_twin(rng, specs[0][1])
                if tw is not None:
                    d = tw
            if reg_round:
                e = [env_a, env_sw, env_sw2, env_a_late][(i + round_no) % 4]
                q = reg_queries[(round_no + (0 if round_no % 2 else i)) % len(reg_queries)]
                d = reg_docs[(round_no // 2) % len(reg_docs)]
                if round_no % 3 == 2:
                    # the SAME text on environments that give a LogicalType function (or match) another body; filters that
                    # are bare tests, several selectors in one segment
                    e = [env_sw2, env_sw3][i % 2]
                    q = lf_queries[(round_no // 3) % 4]
                    d = lf_doc
            if twin_round:
                e, q, d = env_a, shared_q, twin_docs[i % len(twin_docs)]
            if spine_round:
                e, q = spine_env, shared_q
                d = spine(rng.randint(max(1, spine_env.max_recursion_depth - 2), spine_env.max_recursion_depth + 1))
            try:
                if q == shared_q and shared_c is not None and shared_c[0] is e:
                    c = shared_c[1]
                else:
                    c = e.compile(q)
                    if q == shared_q:
                        shared_c = (e, c)
            except jp.JSONPathError:
                c = env_a.compile("$..*")
                q = "$..*"
            specs.append((c, d, q))
        solo = []
        for c, d, _q in specs:
            # the solitary sequence comes from a FRESH environment and a fresh compile on a copy of the value, so that
            # nothing the shared objects remember can leak into the reference
            try:
                ref_c = type(c.env)().compile(_q)
                s = drain(iter(ref_c.finditer(json.loads(json.dumps(d)))))
            except Exception:  # noqa: BLE001
                s = drain(iter(c.finditer(d)))
            if reg_round and id(c.env) in reg_desc and "match(" not in _q and "search(" not in _q:
                # registry rounds: the reference is the ORACLE's nodelist for that environment's own registry (a fresh
                # environment of the same class would share whatever the library keeps per query text or per class)
                rep = reg_oracle.get((id(c.env), _q, json.dumps(d, sort_keys=True)), "none")
                if rep.split("\t")[0] == "valid":
                    s = (rep.split("\t", 1)[1] if "\t" in rep else "") + "|end"
            nodes, tail = s.rsplit("|", 1)
            seq = (nodes.split(" ") if nodes else []) + [tail]
            solo.append(seq[: (10 if spine_round else 4)])  # look at the first items + what follows
        counts = [len(s) for s in solo]
        for sched in schedules(counts, cap, rng):
            res.evaluations += 1
            its = [iter(c.finditer(d)) for c, d, _q in specs]
            got = [[] for _ in specs]
            abandon = rng.random() < 0.3
            if abandon:
                sched = sched[: rng.randint(1, len(sched))]
            build_at = rng.randrange(len(sched) + 1) if (reg_round or rng.random() < 0.1) else -1
            for step_no, i in enumerate(sched):
                if step_no == build_at:
                    # an environment constructed while iterators are half-way (any class): it sets up its own registry only
                    rng.choice([jp.JSONPathEnvironment, Swapped, Swapped2, Low])()
                try:
                    n = next(its[i])
                    got[i].append(wire.enc_node(n.location, n.value))
                except StopIteration:
                    got[i].append("end")
                except jp.JSONPathError as ex:
                    got[i].append("err " + type(ex).__name__)
                except Exception as ex:  # noqa: BLE001
                    got[i].append("err PY:" + type(ex).__name__)
            res.nontrivial.add((tuple(q for _c, _d, q in specs), tuple(sched)))
            for i in range(len(specs)):
                if got[i] != solo[i][: len(got[i])]:
                    res.violations.append({"property": "C16", "query": [q for _c, _d, q in specs], "document": [d for _c, d, _q in specs],
                                           "observed": {"iterator": i, "schedule": sched, "got": got[i]}, "expected": solo[i][: len(got[i])],
                                           "what": "an interleaved iterator did not yield its solitary sequence"})
                    break
        res.sample({"queries": [q for _c, _d, q in specs], "counts": counts})
    nd_iterators(rng, tier, res)
    slices_over_different_lengths(res)
    thread_stress(rng, tier, res)


def nd_iterators(rng, tier, res):
    """Iterators of a NONDETERMINISTIC environment (the order each yields is its own random choice, so the solitary
    "sequence" is known up to the permitted reorderings): k live iterators of one compiled query over the same and over
    different objects, advanced alternately, one abandoned and collected half-way, one exhausted first — every node an
    iterator yields must be a node of ITS value's result, none twice, and an exhausted iterator must have yielded all."""
    import gc

    import jsonpath_rfc9535 as jp

    class ND(jp.JSONPathEnvironment):
        nondeterministic = True

    det = jp.JSONPathEnvironment()
    docs = [{"a": 1, "b": 2, "c": 3}, {"x": 10, "y": 20, "z": 30}, {"p": {"u": 1, "v": 2}, "q": {"w": 3, "k": 4}, "r": 5}, [{"a": 1, "b": 2}, {"c": 3, "d": 4}], {"a": [1, 2], "b": {"c": [3]}}]
    for q in ("$.*", "$[*]", "$..*", "$[?@]", "$.*.*", "$..[?@]", "$[?@ != 0]", "$..[*]"):
        for di, da in enumerate(docs):
            db = docs[(di + 1) % len(docs)]
            for mode in ("alternate", "abandon", "exhaust-other-first", "same-value"):
                res.evaluations += 1
                env = ND()
                c = env.compile(q)
                if mode == "same-value":
                    db_ = da
                else:
                    db_ = db
                want_a = sorted(wire.enc_node(n.location, n.value) for n in det.find(q, da))
                want_b = sorted(wire.enc_node(n.location, n.value) for n in det.find(q, db_))
                ia, ib = iter(c.finditer(da)), iter(c.finditer(db_))
                ga, gb = [], []
                try:
                    if mode == "abandon":
                        n = next(ia, None)
                        if n is not None:
                            ga.append(wire.enc_node(n.location, n.value))
                        n = next(ib, None)
                        del ib, n
                        gc.collect()
                        for n in ia:
                            ga.append(wire.enc_node(n.location, n.value))
                        want_b = None
                    elif mode == "exhaust-other-first":
                        n = next(ia, None)
                        if n is not None:
                            ga.append(wire.enc_node(n.location, n.value))
                        gb = [wire.enc_node(n.location, n.value) for n in ib]
                        for n in ia:
                            ga.append(wire.enc_node(n.location, n.value))
                    else:
                        la = lb = True
                        while la or lb:
                            if la:
                                n = next(ia, None)
                                la = n is not None
                                if la:
                                    ga.append(wire.enc_node(n.location, n.value))
                            if lb:
                                n = next(ib, None)
                                lb = n is not None
                                if lb:
                                    gb.append(wire.enc_node(n.location, n.value))
                except jp.JSONPathError as exc:
                    ga.append("err " + type(exc).__name__)
                if sorted(ga) != want_a or (want_b is not None and sorted(gb) != want_b):
                    res.violations.append({"property": "C16", "query": q, "document": [da, db_], "observed": {"first": ga[:12], "second": gb[:12]}, "expected": {"first": want_a[:12], "second": (want_b or [])[:12]},
                                           "history": f"nondeterministic environment; one compiled query; two iterators ({mode})",
                                           "what": "an iterator of a nondeterministic environment did not yield exactly the nodes of its own value's result when another iterator of the same query was alive"})
    res.count("nd-iterator-rounds", 8 * 5 * 4)


def slices_over_different_lengths(res):
    """Several live iterators of ONE compiled query with slice selectors, over arrays of DIFFERENT lengths (the bounds of a
    slice are those of the array it is applied to), advanced round-robin, one-ahead and reversed: each yields its solitary
    sequence."""
    import jsonpath_rfc9535 as jp

    env = jp.JSONPathEnvironment()
    arrays = [list(range(6)), [10, 11, 12], ["a", "b", "c", "d", "e"], [], [7], list(range(20, 29))]
    docs2 = [{"rows": [[1, 2, 3, 4, 5], [6]]}, {"rows": [[1, 2], [3, 4, 5, 6, 7, 8]]}]
    for q in ("$[1:]", "$[-2:]", "$[:4]", "$[::-1]", "$[1::2]", "$[-4:-1]", "$[5:1:-2]", "$[:]", "$[2:99]", "$[0,1:,-1]"):
        c = env.compile(q)
        solo = [enc_list(c.find(a)).split(" ") for a in arrays]
        for picks in ((0, 1), (1, 0), (2, 1, 0), (0, 3, 4, 5), (5, 2, 0, 1)):
            for mode in ("round-robin", "first-runs-ahead", "reverse-start"):
                its = [iter(c.finditer(arrays[i])) for i in (picks if mode != "reverse-start" else picks[::-1])]
                idx = list(picks if mode != "reverse-start" else picks[::-1])
                got = [[] for _ in its]
                live = set(range(len(its)))
                turn = 0
                problem = None
                while live and problem is None:
                    for k in sorted(live):
                        reps = 2 if (mode == "first-runs-ahead" and k == 0) else 1
                        for _ in range(reps):
                            try:
                                n = next(its[k])
                                got[k].append(enc_list([n]))
                            except StopIteration:
                                live.discard(k)
                                break
                            except Exception as exc:  # noqa: BLE001
                                problem = f"iterator over array #{idx[k]} raised {type(exc).__name__}: {exc}"
                                live.discard(k)
                                break
                    turn += 1
                res.evaluations += 1
                for k, i in enumerate(idx):
                    want = [x for x in solo[i] if x]
                    if problem is None and got[k] != want:
                        problem = f"iterator over array #{i} yielded {got[k][:8]} instead of {want[:8]}"
                if problem:
                    res.violations.append({"property": "C16", "query": q, "document": [arrays[i] for i in idx], "observed": problem,
                                           "expected": "each iterator yields the sequence of a solitary run over its own array",
                                           "history": f"{len(idx)} live iterators of one compiled query, one per array shown, advanced {mode}",
                                           "what": "live iterators of one compiled query over arrays of different lengths interfere"})
                    return
    for q in ("$.rows[*][:4]", "$.rows[*][1:]", "$..[-2:]"):
        c = env.compile(q)
        solo = [enc_list(c.find(d)).split(" ") for d in docs2]
        its = [iter(c.finditer(d)) for d in docs2]
        got = [[], []]
        for _ in range(12):
            for k in (0, 1):
                try:
                    got[k].append(enc_list([next(its[k])]))
                except StopIteration:
                    pass
                except Exception as exc:  # noqa: BLE001
                    got[k].append("raised " + type(exc).__name__)
        res.evaluations += 1
        if [g for g in got] != [[x for x in s_ if x] for s_ in solo]:
            res.violations.append({"property": "C16", "query": q, "document": docs2, "observed": str(got)[:300], "expected": str(solo)[:300],
                                   "history": "two live iterators of one compiled query, one per document shown, advanced alternately",
                                   "what": "live iterators of one compiled query over arrays of different lengths interfere"})
            return
    res.count("slices-over-different-lengths")


def nd_threads(res):
    """A nondeterministic environment is an environment: built on the main thread and used from OTHER threads (compile +
    evaluate there; an iterator begun here and finished there; several threads at once next to a live iterator of the
    main thread) it yields a permutation of the deterministic nodelist, never an exception."""
    import jsonpath_rfc9535 as jp

    nd_cls = type("NdShared", (jp.JSONPathEnvironment,), {"nondeterministic": True})
    nd_env = nd_cls()
    det = jp.JSONPathEnvironment()
    doc = {"a": [1, {"b": 2, "c": [3]}], "d": {"e": 1, "f": {"g": 0, "b": 5}}, "h": 7}
    qs = ["$.*", "$..*", "$.d[?@ > 0]", "$..[?@.b]", "$.a[*]", "$..b", "$[?@..b]", "$.d.*", "$..[*]"]
    want = {q: sorted(enc_list(det.find(q, doc)).split(" ")) for q in qs}
    problems = []

    def judge(q, thunk, how):
        try:
            got = sorted(enc_list(thunk()).split(" "))
        except Exception as ex:  # noqa: BLE001
            problems.append((q, how, repr(ex)[:200]))
            return
        if got != want[q]:
            problems.append((q, how, "not a permutation of the deterministic nodelist"))

    def in_thread(fn):
        t = threading.Thread(target=fn)
        t.start()
        t.join()

    for q in qs:
        res.evaluations += 3
        in_thread(lambda: judge(q, lambda: nd_env.find(q, doc), "compile + evaluate in a worker thread (environment built on the main thread)"))
        c = nd_env.compile(q)
        in_thread(lambda: judge(q, lambda: c.find(doc), "query compiled on the main thread, applied in a worker thread"))
        it = iter(c.finditer(doc))
        first = next(it, None)
        rest = []
        in_thread(lambda: judge(q, lambda: ([first] if first is not None else []) + list(it), "iterator begun on the main thread, finished in a worker thread"))
    live = iter(nd_env.finditer("$..*", doc))
    next(live)
    ts = [threading.Thread(target=lambda q=q: judge(q, lambda: nd_env.find(q, doc), "several worker threads at once, next to a live iterator of the main thread")) for q in qs]
    for t in ts:
        t.start()
    for t in ts:
        t.join()
    judge("$..*", lambda: list(nd_env.finditer("$..*", doc)), "main thread afterwards")
    res.count("nd-thread-cases", 3 * len(qs) + len(qs) + 1)
    for q, how, what in problems[:3]:
        res.violations.append({"property": "C16", "query": q, "document": doc, "env": {"nondeterministic": True}, "observed": what, "history": how,
                               "expected": "a permutation of the deterministic nodelist", "what": "a nondeterministic environment used from another thread"})


def thread_stress(rng, tier, res):
    import jsonpath_rfc9535 as jp

    nd_threads(res)

    env = jp.JSONPathEnvironment()
    docs = [doc_with_all_kinds(rng, 3) for _ in range(4)]
    # strings for match()/search() with several patterns in play at once (short ones and long ones that take a while to
    # translate and compile, patterns taken from the document): anything the regex functions keep between calls
    long_pat = "." * 600 + "-k"
    docs.append({"pat": long_pat, "p2": "a.*", "items": ["x" * 600 + "-k", "abc", "nope", "a", "ab-k", "b" * 602]})
    docs.append(["abc", "abd", "b", "", "a", {"a": "abc"}, {"a": "b"}, "nope"])
    # deep equality of containers of ONE shared document (long arrays/objects differing only at the end), so that a
    # thread switch can land inside a comparison another thread is making of the very same objects
    big_a, big_b = list(range(40)), list(range(39)) + [-1]
    obj_a, obj_b = {"k%d" % i: i for i in range(30)}, {"k%d" % i: (i if i < 29 else -1) for i in range(30)}
    docs.append({"rows": [{"a": big_a, "b": big_b}, {"a": obj_a, "b": obj_b}, {"a": big_a, "b": list(big_a)}, {"a": [big_a, obj_a], "b": [big_a, obj_b]}]})
    qs = ["$..*", "$[?@..*]", "$..[?@.a]", "$[?count(@.*) > 1]", "$..[::-1]", "$[?@[?@ == 1]]",
          "$..[?match(@, 'a.*')]", "$..[?match(@, 'nope')]", "$..[?search(@, 'b')]", "$..[?search(@, 'c|d')]",
          "$.items[?match(@, $.pat)]", "$.items[?match(@, $.p2)]", "$..[?match(@.a, 'a[a-c]+')]", "$..[?search(@.a, '[a-b]$')]",
          "$.rows[?@.a == @.b]", "$.rows[?@.a != @.b]", "$.rows[?@.a <= @.b]", "$.rows[?@.a == $.rows[0].a]", "$.rows[?@.b == $.rows[1].b]"]
    shared = [env.compile(q) for q in qs]
    others = [jp.JSONPathEnvironment().compile(q) for q in qs]
    want = {(i, j): enc_list(shared[i].find(docs[j])) for i in range(len(qs)) for j in range(len(docs))}
    # pairs that keep several threads inside the same code at the same time: container comparisons on the shared rows
    # document, regex functions on the string documents
    rows_j = len(docs) - 1
    hot = [(i, rows_j) for i, q in enumerate(qs) if "$.rows" in q] * 3
    hot += [(i, j) for i, q in enumerate(qs) if "match(" in q or "search(" in q for j in (len(docs) - 3, len(docs) - 2)]
    errors = []
    old = sys.getswitchinterval()
    sys.setswitchinterval(1e-6)
    try:
        def work(seed):
            import random as _r

            r = _r.Random(seed)
            for _ in range(150 if tier != "thorough" else 1500):
                i, j = r.choice(hot) if r.random() < 0.6 else (r.randrange(len(qs)), r.randrange(len(docs)))
                try:
                    k = r.random()
                    if k < 0.4:
                        got = enc_list(shared[i].find(docs[j]))
                    elif k < 0.6:
                        got = enc_list(others[i].find(docs[j]))  # a compiled query of another environment
                    else:
                        got = enc_list(env.find(qs[i], docs[j]))  # compile + evaluate concurrently on the shared env
                    if got != want[(i, j)]:
                        errors.append((qs[i], j, "result differs"))
                except Exception as ex:  # noqa: BLE001
                    errors.append((qs[i], j, repr(ex)))

        ts = [threading.Thread(target=work, args=(rng.random(),)) for _ in range(8)]
        for t in ts:
            t.start()
        for t in ts:
            t.join()
    finally:
        sys.setswitchinterval(old)
    res.count("thread-stress-calls", 8 * (150 if tier != "thorough" else 1500))
    res.evaluations += 8 * (150 if tier != "thorough" else 1500)
    for q, j, what in errors[:3]:
        res.violations.append({"property": "C16", "query": q, "document": docs[j], "observed": what,
                               "expected": "the sequential result", "what": "threads on a shared environment/compiled query"})
