/-
Flag normalisation of derivation trees: the `blanks` flag of a child segment is
only ever read when its selector list is exactly `[.name _]` or `[.index _]`
(`singularSegs`); the ABNF itself is ambiguous about which rule owns a blank
after a trailing slice selector (`"$[1: ]"`), so the flag is forgotten everywhere else.
-/
import JPV.Spec.Abnf
namespace JPV.Spec
open JPV

/-- the flag of `.child sels b` after normalisation -/
def normFlag : List CSelector → Bool → Bool
  | [.name _], b => b
  | [.index _], b => b
  | _, _ => false

mutual
def normExpr : CExpr → CExpr
  | .lit v => .lit v
  | .not e => .not (normExpr e)
  | .and l r => .and (normExpr l) (normExpr r)
  | .or l r => .or (normExpr l) (normExpr r)
  | .cmp op l r => .cmp op (normExpr l) (normExpr r)
  | .rel q => .rel (normSegs q)
  | .root q => .root (normSegs q)
  | .call f args => .call f (normArgs args)
  | .paren e => .paren (normExpr e)
def normArgs : List CExpr → List CExpr
  | [] => []
  | a :: as => normExpr a :: normArgs as
def normSel : CSelector → CSelector
  | .filter e => .filter (normExpr e)
  | .name s => .name s
  | .index i => .index i
  | .slice a b c => .slice a b c
  | .wild => .wild
def normSels : List CSelector → List CSelector
  | [] => []
  | s :: ss => normSel s :: normSels ss
def normSegs : List CSegment → List CSegment
  | [] => []
  | .child sels b :: rest => .child (normSels sels) (normFlag sels b) :: normSegs rest
  | .desc sels :: rest => .desc (normSels sels) :: normSegs rest
end

end JPV.Spec
