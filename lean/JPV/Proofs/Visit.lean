import JPV.Props.Common
namespace JPV.Proofs
open JPV

theorem visit_boundary : ∀ (max : Int) (loc : Loc) (v : Json),
    ((Impl.visit max 1 loc v).2 = none ↔ (1 ≤ max ∧ (v.depth : Int) ≤ max)) ∧
    ((Impl.visit max 1 loc v).2 = none ∨ (Impl.visit max 1 loc v).2 = some .recursion) := by sorry

theorem visit_complete (max : Int) (loc : Loc) (v : Json) (h : (v.depth : Int) ≤ max) (h1 : 1 ≤ max) :
    Impl.visit max 1 loc v =
      ((Spec.descendants loc v).filter (fun n => n.val.isContainer || n.loc == loc), none) := by sorry

theorem visit_raise (max : Int) (loc : Loc) (v : Json) (h : (v.depth : Int) > max) :
    (Impl.visit max 1 loc v).2 = some .recursion ∧
    (Impl.visit max 1 loc v).1 <+:
      (Spec.descendants loc v).filter (fun n => n.val.isContainer || n.loc == loc) := by sorry

theorem visit_length (max : Int) (loc : Loc) (v : Json) :
    (Impl.visit max 1 loc v).1.length ≤ v.size := by sorry

end JPV.Proofs
