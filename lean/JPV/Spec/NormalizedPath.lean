/-
`Spec.NormalizedPath` — RFC 9535 §2.7: the unique normalized path of a location.
  normal-unescaped = %x20-26 / %x28-5B / %x5D-D7FF / %xE000-10FFFF
  normal-escapable = b / f / n / r / t / "'" / "\" / u normal-hexchar   (lower-case hex, only for
                     U+0000-0007, 000B, 000E-001F)
  normal-index-selector = "0" / (DIGIT1 *DIGIT)
-/
import JPV.Json
namespace JPV.Spec

def lowerHex (n : Nat) : Char := if n < 10 then Char.ofNat (48 + n) else Char.ofNat (97 + n - 10)

/-- the normalized spelling of one character of a member name -/
def normalChar (c : Char) : Str :=
  let n := c.toNat
  if n = 0x08 then ['\\', 'b']
  else if n = 0x09 then ['\\', 't']
  else if n = 0x0A then ['\\', 'n']
  else if n = 0x0C then ['\\', 'f']
  else if n = 0x0D then ['\\', 'r']
  else if c = '\'' then ['\\', '\'']
  else if c = '\\' then ['\\', '\\']
  else if n < 0x20 then ['\\', 'u', '0', '0', lowerHex (n / 16), lowerHex (n % 16)]
  else [c]

def normalName (s : Str) : Str := ['\''] ++ s.flatMap normalChar ++ ['\'']

def natDecimal (n : Nat) : Str := (toString n).toList

/-- the normalized path of a location whose indices are non-negative -/
def normalizedPath (loc : Loc) : Str :=
  '$' :: loc.flatMap (fun k => match k with
    | .name s => ['['] ++ normalName s ++ [']']
    | .idx i => ['['] ++ natDecimal i.toNat ++ [']'])

end JPV.Spec
