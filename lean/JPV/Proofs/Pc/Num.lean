/-
`Proofs.Pc.Num` — number literals: the grammar's `number` scan of a complete spelling followed by something
that cannot continue it; `Py.reprInt i` read back (`numberValue`) for every integer in the image of
`int ∘ float` (`Pc.intOfFloatText_reprInt`).
-/
import JPV.Spec.Grammar
import JPV.Proofs.Cf.Num
import JPV.Proofs.Sf.NumAux
import JPV.Proofs.PrinterInt
import JPV.Proofs.Pc.IntRT
namespace JPV.Proofs.Pc
open JPV JPV.Impl JPV.Proofs.Cf

theorem spanLen_zero_of_noDig {X : List Char} (h : NoDig X) : spanLen isDigit X = 0 := by
  cases X with
  | nil => rfl
  | cons c t => simp [spanLen, h c rfl]

theorem fracLen_frac {F Y : List Char} (hF : FracP F) (hY : NoDig Y) (hdot : ∀ t, Y ≠ '.' :: t) :
    Sf.fracLen (F ++ Y) = F.length := by
  cases hF with
  | none =>
    cases Y with
    | nil => rfl
    | cons c t =>
      exact Sf.fracLen_ne_dot t (fun e => hdot t (by rw [e]))
  | some D hD =>
    rw [List.cons_append, Sf.fracLen_dot, spanLen_digs hD hY, if_neg hD.length_ne]
    simp

/-- a complete number spelling followed by something that cannot continue it -/
theorem numberSpelling_parts_append {M F E rest : List Char} (hM : IntP M) (hF : FracP F) (hE : ExpP E)
    (hr : NumFollow rest) :
    Spec.numberSpelling (M ++ F ++ E ++ rest) = some (M ++ F ++ E, rest) := by
  have hY : NoDig (E ++ rest) := hE.noDig hr.noDig
  have hX : NoDig (F ++ (E ++ rest)) := hF.noDig hY
  have hdot : ∀ t, E ++ rest ≠ '.' :: t := by
    intro t e
    cases hE with
    | none =>
      cases rest with
      | nil => cases e
      | cons c u =>
        simp only [List.nil_append, List.cons.injEq] at e
        exact (hr c u rfl).2.1 e.1
    | some e' S D he _ _ =>
      simp only [List.cons_append, List.cons.injEq] at e
      rcases he with rfl | rfl <;> exact absurd e.1 (by decide)
  have h1 := fracLen_frac hF hY hdot
  have h2 : reExpOpt ((F ++ (E ++ rest)).drop F.length) = E.length := by
    rw [List.drop_left]; exact reExpOpt_exp hE hr
  have key : ∀ (sg : List Char) (d : Char) (ds : List Char), (sg = [] ∨ sg = ['-']) → isDigit d = true →
      (∀ c ∈ ds, isDigit c = true) → (d = '0' → ds = []) → M = sg ++ d :: ds →
      Spec.numberSpelling (M ++ F ++ E ++ rest) = some (M ++ F ++ E, rest) := by
    intro sg d ds hsg hd hds hz eM
    have := Sf.numberSpelling_run (r := F ++ (E ++ rest)) hsg hd hds (spanLen_zero_of_noDig hX) hz
    have e1 : M ++ F ++ E ++ rest = sg ++ (d :: ds ++ (F ++ (E ++ rest))) := by
      rw [eM]; simp
    rw [e1, this, h1, h2, eM]
    have e2 : (F ++ (E ++ rest)).take (F.length + E.length) = F ++ E := by
      rw [← List.append_assoc, ← List.length_append, List.take_left]
    have e3 : (F ++ (E ++ rest)).drop (F.length + E.length) = rest := by
      rw [← List.append_assoc, ← List.length_append, List.drop_left]
    rw [e2, e3]
    simp
  cases hM with
  | pos D hD hz =>
    obtain ⟨d, ds, rfl, hd⟩ := hD.cons
    refine key [] d ds (.inl rfl) hd (fun c hc => hD.2 c (by simp [hc])) ?_ rfl
    rintro rfl
    have := hz rfl
    simp only [List.length_cons, Nat.add_eq_right, List.length_eq_zero_iff] at this
    exact this
  | neg D hD hz =>
    obtain ⟨d, ds, rfl, hd⟩ := hD.cons
    refine key ['-'] d ds (.inr rfl) hd (fun c hc => hD.2 c (by simp [hc])) ?_ rfl
    rintro rfl
    have := hz rfl
    simp only [List.length_cons, Nat.add_eq_right, List.length_eq_zero_iff] at this
    exact this

/-- a complete number spelling followed by something that cannot continue it -/
theorem numberSpelling_append {sp rest : List Char} (h : Spec.numberSpelling sp = some (sp, []))
    (hr : NumFollow rest) : Spec.numberSpelling (sp ++ rest) = some (sp, rest) := by
  obtain ⟨_, M, F, E, rfl, hM, hF, hE⟩ := numberSpelling_parts h
  exact numberSpelling_parts_append hM hF hE hr

/-- the first character of a number spelling -/
theorem numberSpelling_head {sp : List Char} (h : Spec.numberSpelling sp = some (sp, [])) :
    ∃ c t, sp = c :: t ∧ (isDigit c = true ∨ c = '-') := by
  obtain ⟨_, M, F, E, rfl, hM, hF, hE⟩ := numberSpelling_parts h
  cases hM with
  | pos D hD _ =>
    obtain ⟨d, ds, rfl, hd⟩ := hD.cons
    exact ⟨d, ds ++ F ++ E, by simp, .inl hd⟩
  | neg D _ _ => exact ⟨'-', D ++ F ++ E, by simp, .inr rfl⟩

/-! ### integers -/

theorem digs_toDigits (n : Nat) : Digs (Nat.toDigits 10 n) ∧
    ((Nat.toDigits 10 n).head? = some '0' → (Nat.toDigits 10 n).length = 1) := by
  refine ⟨⟨Nat.toDigits_ne_nil, fun c hc => Prn.toDigits_isDIGIT n c hc⟩, ?_⟩
  intro h0
  by_cases hn : 0 < n
  · obtain ⟨d, ds, e, hd⟩ := Prn.toDigits_head n hn
    rw [e] at h0
    simp only [List.head?_cons, Option.some.injEq] at h0
    subst h0
    exact absurd hd (by decide)
  · have : n = 0 := by omega
    subst this; rfl

theorem intP_reprInt (i : Int) : IntP (Py.reprInt i) := by
  rw [Prn.reprInt_eq]
  split
  · exact .pos _ (digs_toDigits _).1 (digs_toDigits _).2
  · exact .neg _ (digs_toDigits _).1 (digs_toDigits _).2

theorem numberSpelling_reprInt (i : Int) (rest : List Char) (hr : NumFollow rest) :
    Spec.numberSpelling (Py.reprInt i ++ rest) = some (Py.reprInt i, rest) := by
  have := numberSpelling_parts_append (intP_reprInt i) .none .none hr
  simpa using this

/-- the integers the grammar's number literals can denote -/
theorem numberValue_int {sp : Str} {x : Num} (h : Spec.numberValue sp = some x) (hx : x.flt = false) :
    Spec.numberValue (Py.reprInt x.n) = some x := by
  rw [numberValue_eq] at h
  have hflt : ∀ (t : Str) (y : Num), Py.floatOfText t = some y → y.flt = true := by
    intro t y hy
    unfold Py.floatOfText at hy
    repeat' split at hy
    all_goals (cases hy <;> rfl)
  split at h
  · rw [hflt _ _ h] at hx; cases hx
  · unfold numOfIntTok at h
    split at h
    · rename_i i hi
      simp only [Option.some.injEq] at h
      subst h
      have := intOfFloatText_reprInt sp i hi
      rw [numberValue_eq, isFloatSp_int (intP_reprInt _)]
      simp only [Bool.false_eq_true, if_false, numOfIntTok, Num.ofInt, this]
    · rw [hflt _ _ h] at hx; cases hx
    · cases h

end JPV.Proofs.Pc
