/-
Stage 2b: a fuel bound.  With fan-out at most `B`, `geom B (max + 2)` pops suffice for the loop to end
(by completion or by JSONPathRecursionError) whatever the script — on any heap, cyclic or not.
Potential: every queue entry at depth `d` weighs `wt d` = 1 + B + … + B^(max + 1 - d), the number of
pops it can still cause.
-/
import JPV.Proofs.NdGraph.Cycle
namespace JPV.Proofs.NdG
open JPV JPV.Impl JPV.Impl.G

/-- the weight of a queue entry at depth `d` under limit `M` -/
def wt (B M d : Nat) : Nat := geom B (M + 1 - d + 1)

/-- the potential of a queue -/
def phi (W : Nat → Nat) : List (NdNode × Nat) → Nat
  | [] => 0
  | e :: q => W e.2 + phi W q

theorem geom_succ (B r : Nat) : geom B (r + 1) = 1 + B * geom B r := by rw [geom]

theorem wt_pos (B M d : Nat) : 1 ≤ wt B M d := by
  unfold wt
  rw [geom_succ]
  omega

theorem wt_step (B M d : Nat) (hd : d ≤ M) : wt B M d = 1 + B * wt B M (d + 1) := by
  unfold wt
  have : M + 1 - d + 1 = (M + 1 - (d + 1) + 1) + 1 := by omega
  rw [this, geom_succ]

theorem wt_step2 (B M d : Nat) (hd : d < M) : 1 + B * (B * wt B M (d + 2)) ≤ wt B M d := by
  rw [wt_step B M d (by omega), wt_step B M (d + 1) (by omega)]
  have e : wt B M (d + 1 + 1) = wt B M (d + 2) := rfl
  rw [e]
  have : B * (B * wt B M (d + 2)) ≤ B * (1 + B * wt B M (d + 2)) :=
    Nat.mul_le_mul_left B (Nat.le_add_left _ 1)
  omega

theorem phi_append (W : Nat → Nat) (a b : List (NdNode × Nat)) : phi W (a ++ b) = phi W a + phi W b := by
  induction a with
  | nil => simp [phi]
  | cons e a ih => simp only [List.cons_append, phi, ih]; omega

theorem phi_perm (W : Nat → Nat) {a b : List (NdNode × Nat)} (hp : a.Perm b) : phi W a = phi W b := by
  induction hp with
  | nil => rfl
  | cons x _ ih => simp only [phi, ih]
  | swap x y l => simp only [phi]; omega
  | trans _ _ ih1 ih2 => exact ih1.trans ih2

theorem phi_const (W : Nat → Nat) (d : Nat) (l : List NdNode) :
    phi W (l.map (fun g => (g, d))) = l.length * W d := by
  induction l with
  | nil => simp [phi]
  | cons x l ih => simp only [List.map_cons, phi, ih, List.length_cons, Nat.succ_mul]; omega

theorem kids_scalar (h : NdHeap) (loc : Loc) (s : ND.Script) : (ndKids h (loc, .scalar) s).1 = [] := rfl

/-- what popping a node that does not raise costs -/
theorem node_cost (h : NdHeap) (B : Nat) (hB : ∀ i, (h.kids i).length ≤ B) (max : Int) (node : NdNode) (d : Nat)
    (hd : ndIsDeep max node.2 d = false) (s : ND.Script) :
    (ndKids h node s).1.length * wt B max.toNat (d + 1) + 1 ≤ wt B max.toNat d ∧
    (ndKids h node s).1.length * (B * wt B max.toNat (d + 2)) + 1 ≤ wt B max.toNat d := by
  obtain ⟨loc, c⟩ := node
  cases c with
  | scalar =>
    rw [kids_scalar]
    have := wt_pos B max.toNat d
    simp only [List.length_nil, Nat.zero_mul]
    omega
  | ref i =>
    have hlt : d < max.toNat := by
      have := isDeep_ref_false hd
      omega
    have hk := kids_length h B hB (loc, .ref i) s
    constructor
    · rw [wt_step B max.toNat d (by omega)]
      have := Nat.mul_le_mul_right (wt B max.toNat (d + 1)) hk
      omega
    · have h2 := wt_step2 B max.toNat d hlt
      have := Nat.mul_le_mul_right (B * wt B max.toNat (d + 2)) hk
      omega

/-- the children loop adds at most `B` entries at `depth + 2` per child, and yields at most one node per child -/
theorem now_phi (h : NdHeap) (B : Nat) (hB : ∀ i, (h.kids i).length ≤ B) (W : Nat → Nat) (max : Int)
    (depth : Nat) (cs : List NdNode) :
    ∀ (q : List (NdNode × Nat)) (s : ND.Script) (acc : List NdNode),
      phi W (ndVisitNow h max depth cs q s acc).1 ≤ phi W q + cs.length * (B * W (depth + 2)) ∧
      (ndVisitNow h max depth cs q s acc).2.2.1.length ≤ acc.length + cs.length := by
  induction cs with
  | nil => intro q s acc; rw [now_nil]; simp
  | cons c cs ih =>
    intro q s acc
    cases hd : ndIsDeep max c.2 (depth + 1) with
    | true =>
      rw [now_deep h max depth c cs q s acc hd]
      simp only [List.length_cons]
      omega
    | false =>
      rw [now_cons h max depth c cs q s acc hd]
      have hmq := (NDp.mergeQ_perm q ((ndKids h c s).1.map (fun g => (g, depth + 2))) (ndKids h c s).2).1
      obtain ⟨ih1, ih2⟩ := ih
        (ND.mergeQ q ((ndKids h c s).1.map (fun g => (g, depth + 2))) (ndKids h c s).2).1
        (ND.mergeQ q ((ndKids h c s).1.map (fun g => (g, depth + 2))) (ndKids h c s).2).2 (acc ++ [c])
      rw [phi_perm W hmq, phi_append, phi_const] at ih1
      have hk := Nat.mul_le_mul_right (W (depth + 2)) (kids_length h B hB c s)
      rw [List.length_append] at ih2
      simp only [List.length_cons, List.length_nil, Nat.succ_mul] at ih2 ⊢
      constructor
      · omega
      · omega

/-- fuel beyond the potential of the queue is never exhausted; at most `1 + B` nodes are yielded per pop -/
theorem loop_fuel (h : NdHeap) (B : Nat) (hB : ∀ i, (h.kids i).length ≤ B) (max : Int) (fuel : Nat) :
    ∀ (q : List (NdNode × Nat)) (s : ND.Script) (acc : List NdNode),
      (phi (wt B max.toNat) q < fuel → (ndLoop h max fuel q s acc).2 ≠ some .fuel) ∧
      (ndLoop h max fuel q s acc).1.length ≤ acc.length + fuel * (1 + B) := by
  induction fuel with
  | zero =>
    intro q s acc
    rw [loop_zero]
    exact ⟨fun hh => absurd hh (Nat.not_lt_zero _), by simp⟩
  | succ fuel ih =>
    intro q s acc
    cases q with
    | nil => rw [loop_nil]; exact ⟨fun _ hh => (by cases hh), by simp⟩
    | cons e q =>
      obtain ⟨node, depth⟩ := e
      cases hd : ndIsDeep max node.2 depth with
      | true =>
        rw [loop_deep h max fuel node depth q s acc hd]
        exact ⟨fun _ hh => (by cases hh), by simp⟩
      | false =>
        obtain ⟨c1, c2⟩ := node_cost h B hB max node depth hd (ND.coin s).2
        have hkl := kids_length h B hB node (ND.coin s).2
        cases hc : (ND.coin s).1 with
        | false =>
          rw [loop_false h max fuel node depth q s acc hd hc]
          obtain ⟨i1, i2⟩ := ih (q ++ (ndKids h node (ND.coin s).2).1.map (fun c => (c, depth + 1)))
            (ndKids h node (ND.coin s).2).2 (acc ++ [node])
          constructor
          · intro hf
            apply i1
            rw [phi_append, phi_const]
            simp only [phi] at hf
            omega
          · rw [List.length_append] at i2
            simp only [List.length_cons, List.length_nil, Nat.succ_mul] at i2 ⊢
            omega
        | true =>
          obtain ⟨n1, n2⟩ := now_phi h B hB (wt B max.toNat) max depth (ndKids h node (ND.coin s).2).1 q
            (ndKids h node (ND.coin s).2).2 (acc ++ [node])
          rcases hv : ndVisitNow h max depth (ndKids h node (ND.coin s).2).1 q
            (ndKids h node (ND.coin s).2).2 (acc ++ [node]) with ⟨q', s', acc', err⟩
          rw [hv] at n1 n2
          replace n1 : phi (wt B max.toNat) q' ≤ _ := n1
          replace n2 : acc'.length ≤ _ := n2
          rw [List.length_append] at n2
          simp only [List.length_cons, List.length_nil] at n2
          cases err with
          | some e =>
            rw [loop_true_err h max fuel node depth q s acc hd hc hv]
            obtain ⟨_, _, n3⟩ := now_spec h max depth (ndKids h node (ND.coin s).2).1 q
              (ndKids h node (ND.coin s).2).2 (acc ++ [node])
            rw [hv] at n3
            constructor
            · intro _ hh
              rcases n3 with n3 | n3
              · cases n3
              · rw [n3] at hh; cases hh
            · simp only [Nat.succ_mul]
              omega
          | none =>
            rw [loop_true_ok h max fuel node depth q s acc hd hc hv]
            obtain ⟨i1, i2⟩ := ih q' s' acc'
            constructor
            · intro hf
              apply i1
              simp only [phi] at hf
              omega
            · simp only [Nat.succ_mul]
              omega

/-- the fuel bound: `geom B (max + 2)` = 1 + B + … + B^(max + 1) pops are enough, for every script -/
theorem visit_fuel (h : NdHeap) (B : Nat) (hB : ∀ i, (h.kids i).length ≤ B) (max : Int) (fuel root : Nat)
    (s : ND.Script) (hf : geom B (max.toNat + 2) ≤ fuel) :
    (ndVisit h max fuel root s).2 ≠ some .fuel := by
  rw [visit_eq]
  apply (loop_fuel h B hB max fuel _ _ _).1
  rw [phi_const]
  have hk := Nat.mul_le_mul_right (wt B max.toNat 1) (kids_length h B hB ([], .ref root) s)
  have hw : wt B max.toNat 1 = geom B (max.toNat + 1) := by
    unfold wt
    congr 1
  rw [hw] at hk ⊢
  rw [geom_succ] at hf
  omega

theorem visit_length (h : NdHeap) (B : Nat) (hB : ∀ i, (h.kids i).length ≤ B) (max : Int) (fuel root : Nat)
    (s : ND.Script) : (ndVisit h max fuel root s).1.length ≤ 1 + fuel * (1 + B) := by
  rw [visit_eq]
  exact (loop_fuel h B hB max fuel _ _ _).2

/-! ### more fuel changes nothing once the loop has ended -/

theorem loop_mono (h : NdHeap) (max : Int) (k : Nat) (fuel : Nat) :
    ∀ (q : List (NdNode × Nat)) (s : ND.Script) (acc : List NdNode),
      (ndLoop h max fuel q s acc).2 ≠ some .fuel →
      ndLoop h max (fuel + k) q s acc = ndLoop h max fuel q s acc := by
  induction fuel with
  | zero => intro q s acc hne; rw [loop_zero] at hne; exact absurd rfl hne
  | succ fuel ih =>
    intro q s acc hne
    have hk : fuel + 1 + k = (fuel + k) + 1 := by omega
    rw [hk]
    cases q with
    | nil => rw [loop_nil, loop_nil]
    | cons e q =>
      obtain ⟨node, depth⟩ := e
      cases hd : ndIsDeep max node.2 depth with
      | true => rw [loop_deep h max _ node depth q s acc hd, loop_deep h max _ node depth q s acc hd]
      | false =>
        cases hc : (ND.coin s).1 with
        | false =>
          rw [loop_false h max _ node depth q s acc hd hc] at hne ⊢
          rw [loop_false h max _ node depth q s acc hd hc]
          exact ih _ _ _ hne
        | true =>
          rcases hv : ndVisitNow h max depth (ndKids h node (ND.coin s).2).1 q
            (ndKids h node (ND.coin s).2).2 (acc ++ [node]) with ⟨q', s', acc', err⟩
          cases err with
          | some e =>
            rw [loop_true_err h max _ node depth q s acc hd hc hv,
              loop_true_err h max _ node depth q s acc hd hc hv]
          | none =>
            rw [loop_true_ok h max _ node depth q s acc hd hc hv] at hne ⊢
            rw [loop_true_ok h max _ node depth q s acc hd hc hv]
            exact ih _ _ _ hne

theorem visit_mono (h : NdHeap) (max : Int) (fuel fuel' root : Nat) (s : ND.Script) (hle : fuel ≤ fuel')
    (hne : (ndVisit h max fuel root s).2 ≠ some .fuel) :
    ndVisit h max fuel' root s = ndVisit h max fuel root s := by
  obtain ⟨k, rfl⟩ := Nat.exists_eq_add_of_le hle
  rw [visit_eq] at hne ⊢
  rw [visit_eq]
  exact loop_mono h max k fuel _ _ _ hne

/-! ### stage 2 assembled -/

/-- on a heap with fan-out at most `B` in which `root` lies on a cycle or reaches one: with fuel
`geom B (max + 2)` or more the traversal raises JSONPathRecursionError, for every script, after yielding at
most `1 + geom B (max + 2) * (1 + B)` nodes -/
theorem visit_cycle_raises (h : NdHeap) (B : Nat) (hB : ∀ i, (h.kids i).length ≤ B) (max : Int)
    (fuel root : Nat) (s : ND.Script) (hl : Live h.toHeap root) (hf : geom B (max.toNat + 2) ≤ fuel) :
    (ndVisit h max fuel root s).2 = some .recursion ∧
    (ndVisit h max fuel root s).1.length ≤ 1 + geom B (max.toNat + 2) * (1 + B) := by
  have hne := visit_fuel h B hB max (geom B (max.toNat + 2)) root s (Nat.le_refl _)
  rw [visit_mono h max _ fuel root s hf hne]
  refine ⟨?_, visit_length h B hB max _ root s⟩
  rcases visit_outcomes h max (geom B (max.toNat + 2)) root s with h0 | h1 | h2
  · exact absurd h0 (visit_never_none h max _ root s hl)
  · exact h1
  · exact absurd h2 hne

end JPV.Proofs.NdG
