import JPV.Tables.Common
namespace JPV.Tables
open JPV JPV.Impl

/-- The parser only ever COMPARES precedences (`PRECEDENCES.get(kind, PRECEDENCE_LOWEST) < precedence`, with the five
constants as the other comparands), so what the model has to agree with is their ORDER, not their numbers (a harmless
renumbering of the constants used to break this obligation with no failing input to show).  For every two comparands
— the precedence of any token kind of the model, or one of the five constants — the model's values compare exactly as
the source's. -/
def modelVals : List (Int × Int) :=
  match tableK Generated.precedences with
  | none => [((0 : Int), 1)]   -- unreadable table: an entry that cannot be order-isomorphic with itself below
  | some t =>
    allKinds.map (fun k => ((Impl.precedence k : Int), (lookupK k t).getD (constOf "PRECEDENCE_LOWEST"))) ++
    [((Impl.precLowest : Int), constOf "PRECEDENCE_LOWEST"), ((Impl.precOr : Int), constOf "PRECEDENCE_LOGICAL_OR"),
     ((Impl.precAnd : Int), constOf "PRECEDENCE_LOGICAL_AND"), ((Impl.precRelational : Int), constOf "PRECEDENCE_RELATIONAL"),
     ((Impl.precPrefix : Int), constOf "PRECEDENCE_PREFIX")]

theorem precedences_model :
    ((tableK Generated.precedences).isSome &&
     modelVals.all (fun a => modelVals.all (fun b => compare a.1 b.1 == compare a.2 b.2))) = true := by decide +kernel

end JPV.Tables
