import JPV.Props.Common
namespace JPV.Proofs
open JPV

theorem selSlice_correct : ∀ (n : Node) (a b c : Option Int),
    Impl.selSlice a b c n = Spec.selSlice a b c n := by sorry

theorem selIndex_correct : ∀ (n : Node) (i : Int),
    Impl.selIndex i n = Spec.selIndex i n := by sorry

theorem selSlice_loc (xs : List Json) (loc : Loc) (a b c : Option Int) :
    ∀ m ∈ Impl.selSlice a b c ⟨loc, .arr xs⟩,
      ∃ i : Nat, i < xs.length ∧ m.loc = loc ++ [.idx (i : Int)] ∧ xs[i]? = some m.val := by sorry

theorem selIndex_loc (xs : List Json) (loc : Loc) (i : Int) :
    ∀ m ∈ Impl.selIndex i ⟨loc, .arr xs⟩,
      ∃ k : Nat, k < xs.length ∧ m.loc = loc ++ [.idx (k : Int)] ∧ xs[k]? = some m.val := by sorry

theorem selSlice_step_zero (n : Node) (a b : Option Int) : Impl.selSlice a b (some 0) n = [] := by sorry

theorem sel_nonarray (n : Node) (h : ∀ xs, n.val ≠ .arr xs) (a b c : Option Int) (i : Int) :
    Impl.selSlice a b c n = [] ∧ Impl.selIndex i n = [] := by sorry

theorem spec_slice_length (len : Nat) (a b c : Option Int) :
    (Spec.sliceIndices len a b c).length ≤ len := by sorry

end JPV.Proofs
