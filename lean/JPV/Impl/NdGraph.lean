/-
`Impl.NdGraph` — `JSONPathRecursiveDescentSegment._nondeterministic_visit` on data that is
NOT a finite tree: Python containers that refer to each other (or to themselves).

Unlike `_visit` (`Impl.Graph`), the nondeterministic traversal queues and yields EVERY child,
scalars included (`_nondeterministic_children` yields all members / elements), so the heap view
has to say, for every container, its children in iteration order, each either a scalar or a
reference to a container (`Child`), and whether the container is a dict (its members are
shuffled) or a list (`isDict`).

The traversal is driven by the same choice script as the tree model (`ND.Script`, `ND.coin`,
`ND.mergeQ`, `ND.shuffle`).  The `while queue` loop is not bounded by the size of the data any
more (there is no such size), so it takes a `fuel` argument: the number of `popleft`s allowed;
running out of it is the distinct outcome `some .fuel` (never an answer).

    def _nondeterministic_visit(self, root, depth=1):
        queue = deque()
        yield root
        queue.extend([(child, depth) for child in _nondeterministic_children(root)])
        while queue:
            node, depth = queue.popleft()
            self._raise_for_depth(node, depth)
            yield node
            visit_children = random.choice([True, False])
            for child in _nondeterministic_children(node):
                if visit_children:
                    self._raise_for_depth(child, depth + 1)
                    yield child
                    grandchildren = [(child, depth + 2) for child in _nondeterministic_children(child)]
                    queue = deque(<random interleaving of queue and grandchildren>)
                else:
                    queue.append((child, depth + 1))
-/
import JPV.Impl.Graph
import JPV.Impl.NonDet
namespace JPV.Impl.G
open JPV.Impl.ND (Script)

/-- a child of a container: a scalar, or (a reference to) the container with identity `id` -/
inductive Child where
  | scalar
  | ref (id : Nat)
deriving DecidableEq, Repr, Inhabited

def Child.isContainer : Child → Bool
  | .ref _ => true
  | .scalar => false

/-- the heap as `_nondeterministic_visit` sees it: all children in iteration order, and dict-or-list -/
structure NdHeap where
  kids : Nat → List (Key × Child)
  isDict : Nat → Bool

/-- the container sub-heap: what the deterministic `_visit` sees (`G.Heap`) -/
def NdHeap.toHeap (h : NdHeap) : Heap :=
  ⟨fun n => (h.kids n).filterMap (fun kc =>
    match kc.2 with
    | .ref c => some (kc.1, c)
    | .scalar => none)⟩

/-- a visited node: its location and what is there -/
abbrev NdNode := Loc × Child

/-- nodes yielded (in order) and how the traversal ended: `none` = the queue ran empty (normal completion),
`some .recursion` = JSONPathRecursionError, `some .fuel` = still running after `fuel` pops -/
abbrev NdOut := List NdNode × Option ErrKind

/-- `_raise_for_depth(node, depth)` raises -/
def ndIsDeep (max : Int) (c : Child) (depth : Nat) : Bool := decide ((depth : Int) ≥ max) && c.isContainer

/-- the children of `n` with their locations, in the order given -/
def ndLocate (n : NdNode) (kcs : List (Key × Child)) : List NdNode :=
  kcs.map (fun kc => (n.1 ++ [kc.1], kc.2))

/-- `_nondeterministic_children(node)`: all children; dict members shuffled -/
def ndKids (h : NdHeap) (n : NdNode) (s : Script) : List NdNode × Script :=
  match n.2 with
  | .scalar => ([], s)
  | .ref i =>
    if h.isDict i then
      let (m, s') := ND.shuffle (h.kids i) s
      (ndLocate n m, s')
    else (ndLocate n (h.kids i), s)

/-- the `for child in …` loop when `visit_children` is true: check, yield, merge the grandchildren into the queue -/
def ndVisitNow (h : NdHeap) (max : Int) (depth : Nat) :
    List NdNode → List (NdNode × Nat) → Script → List NdNode → (List (NdNode × Nat) × Script × NdOut)
  | [], queue, s, acc => (queue, s, (acc, none))
  | c :: cs, queue, s, acc =>
    if ndIsDeep max c.2 (depth + 1) then (queue, s, (acc, some .recursion)) else
    let (gcs, s2) := ndKids h c s
    let (queue', s3) := ND.mergeQ queue (gcs.map (fun g => (g, depth + 2))) s2
    ndVisitNow h max depth cs queue' s3 (acc ++ [c])

/-- the `while queue` loop; `fuel` = number of `popleft`s allowed -/
def ndLoop (h : NdHeap) (max : Int) : Nat → List (NdNode × Nat) → Script → List NdNode → NdOut
  | 0, _, _, acc => (acc, some .fuel)
  | _ + 1, [], _, acc => (acc, none)
  | fuel + 1, (node, depth) :: queue, s, acc =>
    if ndIsDeep max node.2 depth then (acc, some .recursion) else
    let (b, s1) := ND.coin s
    let (cs, s2) := ndKids h node s1
    if b then
      let (queue', s3, r) := ndVisitNow h max depth cs queue s2 (acc ++ [node])
      match r.2 with
      | some e => (r.1, some e)
      | none => ndLoop h max fuel queue' s3 r.1
    else
      ndLoop h max fuel (queue ++ cs.map (fun c => (c, depth + 1))) s2 (acc ++ [node])

/-- `_nondeterministic_visit(root)` on the container `root` of heap `h` under choice script `s` -/
def ndVisit (h : NdHeap) (max : Int) (fuel : Nat) (root : Nat) (s : Script) : NdOut :=
  let rootN : NdNode := ([], .ref root)
  let (cs, s1) := ndKids h rootN s
  ndLoop h max fuel (cs.map (fun c => (c, 1))) s1 [rootN]

/-- finding D30: `a = []; a.append(a); a.append(a)` — one list that contains itself twice -/
def d30 : NdHeap := ⟨fun _ => [(.idx 0, .ref 0), (.idx 1, .ref 0)], fun _ => false⟩

/-- choice scripts used in the examples -/
def coins (b : Bool) (n : Nat) : Script := List.replicate n (.coin b)

example : (ndVisit d30 3 100 0 []).2 = some .recursion := by decide
example : (ndVisit d30 3 100 0 []).1.length = 7 := by decide
example : (ndVisit d30 4 100 0 []).2 = some .recursion := by decide
example : (ndVisit d30 4 100 0 []).1.length = 15 := by decide
example : (ndVisit d30 3 100 0 (coins true 100)).2 = some .recursion := by decide
example : (ndVisit d30 4 100 0 (coins true 100)).2 = some .recursion := by decide
/-- too little fuel: the distinct out-of-fuel outcome -/
example : (ndVisit d30 4 5 0 []).2 = some .fuel := by decide
/-- an acyclic heap completes: container 0 = `[1, {..}]`, container 1 = `{"a": 1}` -/
example : (ndVisit ⟨fun n => if n = 0 then [(.idx 0, .scalar), (.idx 1, .ref 1)] else [(.name ['a'], .scalar)],
    fun n => n = 1⟩ 4 100 0 []).2 = none := by decide

end JPV.Impl.G
