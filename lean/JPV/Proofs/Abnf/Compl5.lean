/-
Completeness, term level: `TestItem`, `Comparable`, `FunctionExpr` (all through `term`).
-/
import JPV.Proofs.Abnf.Compl4
namespace JPV.Proofs.AbnfP
open JPV JPV.Spec

/-- the generic branch of `term`, for inputs not starting with `@` or `$` -/
theorem term_generic {f : Nat} {c : Char} {t : List Char} (h1 : c ≠ '@') (h2 : c ≠ '$') :
    term (f + 1) (c :: t) =
      match functionName (c :: t) with
      | some (name, '(' :: r) =>
        let r1 := skipS r
        match r1 with
        | ')' :: r2 => some (.call name [], r2)
        | _ =>
          match argument f r1 with
          | none => none
          | some (a, r2) =>
            match moreArgs f r2 with
            | none => none
            | some (as, r3) =>
              match skipS r3 with
              | ')' :: r4 => some (.call name (a :: as), r4)
              | _ => none
      | _ => (literal (c :: t)).map (fun (v, r) => (.lit v, r)) := by
  rw [term]
  all_goals first
    | rfl
    | (intro r h; simp only [List.cons.injEq] at h; first | exact h1 h.1 | exact h2 h.1)

theorem cTerm_rel {s : List Char} {q : List CSegment} (ih : CSegs s q) : CTerm ('@' :: s) (.rel q) := by
  intro R fuel hR hf
  simp only [List.length_cons] at hf
  obtain ⟨f, rfl⟩ : ∃ f, fuel = f + 1 := ⟨fuel - 1, by omega⟩
  obtain ⟨q', h1, hn⟩ := ih R f hR (by omega)
  refine ⟨.rel q', ?_, by simp only [normExpr, hn]⟩
  simp only [List.cons_append]
  rw [term, h1]
  rfl

theorem cTerm_root {s : List Char} {q : List CSegment} (ih : CSegs s q) : CTerm ('$' :: s) (.root q) := by
  intro R fuel hR hf
  simp only [List.length_cons] at hf
  obtain ⟨f, rfl⟩ : ∃ f, fuel = f + 1 := ⟨fuel - 1, by omega⟩
  obtain ⟨q', h1, hn⟩ := ih R f hR (by omega)
  refine ⟨.root q', ?_, by simp only [normExpr, hn]⟩
  simp only [List.cons_append]
  rw [term, h1]
  rfl

theorem keyword_functionName {k : List Char} (hk : k = "true".toList ∨ k = "false".toList ∨ k = "null".toList) :
    Abnf.FunctionName k := by
  rcases hk with rfl | rfl | rfl
  · exact ⟨'t', ['r', 'u', 'e'], rfl, by decide, by decide⟩
  · exact ⟨'f', ['a', 'l', 's', 'e'], rfl, by decide, by decide⟩
  · exact ⟨'n', ['u', 'l', 'l'], rfl, by decide, by decide⟩

theorem cTerm_lit {s : List Char} {v : Json} (hl : Abnf.Literal s v) : CTerm s (.lit v) := by
  intro R fuel hR hf
  obtain ⟨f, rfl⟩ : ∃ f, fuel = f + 1 := ⟨fuel - 1, by omega⟩
  have hlit := literal_complete hl (FolChar.numFollow hR.head)
  obtain ⟨c, t, rfl, hc⟩ := literal_head hl
  have hfn : ∀ name r, functionName (c :: t ++ R) ≠ some (name, '(' :: r) := by
    intro name r heq
    by_cases hlc : isLCALPHA c = true
    · obtain ⟨k, hk, hkr⟩ := literal_keyword hlit ⟨c, _, rfl, hlc⟩
      have := functionName_complete (keyword_functionName hk) (R := R)
        (hR.head.mono fun _ h => h.props.2.2.2.2.2.1)
      rw [hkr, this] at heq
      simp only [Option.some.injEq, Prod.mk.injEq] at heq
      exact (hR.head _ _ heq.2).props.2.2.2.2.2.2.1 rfl
    · have hnone : functionName (c :: t ++ R) = none :=
        functionName_none (by simp only [List.cons_append]; exact HeadP.cons (by simpa using hlc))
      rw [hnone] at heq
      cases heq
  refine ⟨.lit v, ?_, rfl⟩
  simp only [List.cons_append] at hlit hfn ⊢
  rw [term_generic hc.facts.2.2.2.1 hc.facts.2.2.2.2]
  split
  · rename_i heq; exact absurd heq (hfn _ _)
  · rw [hlit]; rfl

theorem cTerm_noArgs {n b : List Char} (hn : Abnf.FunctionName n) (hb : Abnf.Blanks b) :
    CTerm (n ++ '(' :: (b ++ [')'])) (.call n []) := by
  intro R fuel _ hf
  obtain ⟨f, rfl⟩ : ∃ f, fuel = f + 1 := ⟨fuel - 1, by omega⟩
  have hinp : (n ++ '(' :: (b ++ [')'])) ++ R = n ++ '(' :: (b ++ ')' :: R) := by simp
  rw [hinp]
  have hfn := functionName_complete hn (R := '(' :: (b ++ ')' :: R)) (HeadP.cons (by decide))
  have hsk : skipS (b ++ ')' :: R) = ')' :: R := skipS_blanks_cons hb (by decide) _
  obtain ⟨c, t, rfl, hc⟩ := functionName_head hn
  refine ⟨.call (c :: t) [], ?_, rfl⟩
  simp only [List.cons_append] at hfn ⊢
  rw [term_generic (lcalpha_facts hc).2.2.2.1 (lcalpha_facts hc).2.2.2.2]
  simp only [hfn, hsk]

theorem cTerm_args {l : Bool} {n b1 s more b2 : List Char} {a : CExpr} {as : List CExpr}
    (hn : Abnf.FunctionName n) (hb1 : Abnf.Blanks b1) (hs : Abnf.Argument l s a)
    (hm : Abnf.MoreArgs l more as) (hb2 : Abnf.Blanks b2) (iha : CArg s a) (ihm : CMArgs more as) :
    CTerm (n ++ '(' :: (b1 ++ s ++ more ++ b2 ++ [')'])) (.call n (a :: as)) := by
  intro R fuel _ hf
  simp only [List.length_append, List.length_cons, List.length_nil] at hf
  obtain ⟨f, rfl⟩ : ∃ f, fuel = f + 1 := ⟨fuel - 1, by omega⟩
  obtain ⟨ch, ts, rfl, hch⟩ := argument_head hs
  have hinp : (n ++ '(' :: (b1 ++ ch :: ts ++ more ++ b2 ++ [')'])) ++ R =
      n ++ '(' :: (b1 ++ (ch :: (ts ++ (more ++ (b2 ++ ')' :: R))))) := by simp
  rw [hinp]
  have hfn := functionName_complete hn (R := '(' :: (b1 ++ (ch :: (ts ++ (more ++ (b2 ++ ')' :: R))))))
    (HeadP.cons (by decide))
  have hsk1 : skipS (b1 ++ (ch :: (ts ++ (more ++ (b2 ++ ')' :: R))))) = ch :: (ts ++ (more ++ (b2 ++ ')' :: R))) :=
    skipS_blanks_cons hb1 hch.facts.notBlank _
  have hR0 : ∃ t, skipS (b2 ++ ')' :: R) = ')' :: t := ⟨R, skipS_blanks_cons hb2 (by decide) _⟩
  obtain ⟨cn, tn, rfl, hcn⟩ := functionName_head hn
  simp only [List.length_cons] at hf
  obtain ⟨a', h1, hn1⟩ := iha (more ++ (b2 ++ ')' :: R)) f (moreArgs_skip hm hR0)
    (by simp only [List.length_cons]; omega)
  obtain ⟨as', h2, hn2⟩ := ihm (b2 ++ ')' :: R) f hR0 (by omega)
  obtain ⟨_, hsk2⟩ := hR0
  have hsk2 : skipS (b2 ++ ')' :: R) = ')' :: R := skipS_blanks_cons hb2 (by decide) _
  refine ⟨.call (cn :: tn) (a' :: as'), ?_, by simp only [normExpr, normArgs, hn1, hn2]⟩
  simp only [List.cons_append] at hfn h1 ⊢
  rw [term_generic (lcalpha_facts hcn).2.2.2.1 (lcalpha_facts hcn).2.2.2.2]
  simp only [hfn, hsk1]
  split
  · rename_i heq; simp only [List.cons.injEq] at heq; exact absurd heq.1 hch.facts.ne_rparen
  · simp only [h1, h2, hsk2]

end JPV.Proofs.AbnfP
