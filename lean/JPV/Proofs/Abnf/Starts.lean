/-
First-character and follow-set facts about the ABNF non-terminals.
-/
import JPV.Proofs.Abnf.LexLit
namespace JPV.Proofs.AbnfP
open JPV JPV.Spec

/-! ### follow sets -/

def StopOr (c : Char) : Prop := c = ']' ∨ c = ',' ∨ c = ')'
def StopAnd (c : Char) : Prop := StopOr c ∨ c = '|'
def StopBasic (c : Char) : Prop := StopAnd c ∨ c = '&'
def StopTerm (c : Char) : Prop := StopBasic c ∨ c = '=' ∨ c = '!' ∨ c = '<' ∨ c = '>'

theorem StopOr.and {c} (h : StopOr c) : StopAnd c := Or.inl h
theorem StopAnd.basic {c} (h : StopAnd c) : StopBasic c := Or.inl h
theorem StopBasic.term {c} (h : StopBasic c) : StopTerm c := Or.inl h

/-- after blank space, `R` is empty or starts with a character in `p` -/
def SFol (p : Char → Prop) (R : List Char) : Prop := HeadP p (skipS R)

theorem SFol.mono {p q : Char → Prop} {R} (h : SFol p R) (hpq : ∀ c, p c → q c) : SFol q R := HeadP.mono h hpq

theorem skipS_blanks_cons {b : List Char} (hb : Abnf.Blanks b) {c : Char} (hc : isBlank c = false) (t : List Char) :
    skipS (b ++ c :: t) = c :: t := skipS_blanks_head hb (HeadP.cons hc)

theorem SFol.of_blanks {p : Char → Prop} {b : List Char} (hb : Abnf.Blanks b) {c : Char} {t : List Char}
    (hbl : isBlank c = false) (hc : p c) : SFol p (b ++ c :: t) := by
  unfold SFol
  rw [skipS_blanks_cons hb hbl]
  exact HeadP.cons hc

/-- a character that can follow a term: blank or one of the stop characters -/
def FolChar (c : Char) : Prop :=
  c = ' ' ∨ c = '\t' ∨ c = '\n' ∨ c = '\r' ∨ c = ']' ∨ c = ',' ∨ c = ')' ∨ c = '|' ∨ c = '&' ∨
  c = '=' ∨ c = '!' ∨ c = '<' ∨ c = '>'

theorem blank_cases {c : Char} (h : isBlank c = true) : c = ' ' ∨ c = '\t' ∨ c = '\n' ∨ c = '\r' := by
  simpa [isBlank, or_assoc] using h

theorem SFol.head {R : List Char} (h : SFol StopTerm R) : HeadP FolChar R := by
  intro c t e
  subst e
  by_cases hb : isBlank c = true
  · rcases blank_cases hb with h | h | h | h <;> simp [FolChar, h]
  · have : skipS (c :: t) = c :: t := by simp [skipS, hb]
    have hc : StopTerm c := by unfold SFol at h; rw [this] at h; exact h.head
    simp only [StopTerm, StopBasic, StopAnd, StopOr] at hc
    unfold FolChar
    rcases hc with (((h | h | h) | h) | h) | h | h | h | h <;> simp [h]

theorem FolChar.props {c : Char} (h : FolChar c) :
    isNameChar c = false ∧ isDIGIT c = false ∧ c ≠ '.' ∧ c ≠ 'e' ∧ c ≠ 'E' ∧
    (isLCALPHA c || c = '_' || isDIGIT c) = false ∧ c ≠ '(' ∧ c ≠ '[' := by
  unfold FolChar at h
  rcases h with h | h | h | h | h | h | h | h | h | h | h | h | h <;> subst h <;> decide

theorem FolChar.numFollow {R : List Char} (h : HeadP FolChar R) : NumFollow R :=
  h.mono fun _ hc => ⟨hc.props.2.1, hc.props.2.2.1, hc.props.2.2.2.1, hc.props.2.2.2.2.1⟩

/-! ### start sets -/

/-- first characters of literal / filter-query / function-expr -/
def TermStart (c : Char) : Prop := c = '@' ∨ c = '$' ∨ isLCALPHA c = true ∨ LitStart c
/-- first characters of a basic-expr -/
def BasicStart (c : Char) : Prop := c = '(' ∨ c = '!' ∨ TermStart c

theorem isLCALPHA_ne {c k : Char} (hc : isLCALPHA c = true) (hk : isLCALPHA k = false) : c ≠ k := by
  intro h; subst h; simp [hc] at hk

theorem not_blank_of_ne {c : Char} (h1 : c ≠ ' ') (h2 : c ≠ '\t') (h3 : c ≠ '\n') (h4 : c ≠ '\r') :
    isBlank c = false := by
  simp [isBlank, h1, h2, h3, h4]

theorem lcalpha_not_blank {c : Char} (h : isLCALPHA c = true) : isBlank c = false :=
  not_blank_of_ne (isLCALPHA_ne h (by decide)) (isLCALPHA_ne h (by decide)) (isLCALPHA_ne h (by decide))
    (isLCALPHA_ne h (by decide))

theorem digit_not_blank {c : Char} (h : isDIGIT c = true) : isBlank c = false :=
  not_blank_of_ne (isDIGIT_ne h (by decide)) (isDIGIT_ne h (by decide)) (isDIGIT_ne h (by decide))
    (isDIGIT_ne h (by decide))

/-- the facts about start characters the completeness proof uses -/
structure StartFacts (c : Char) : Prop where
  notBlank : isBlank c = false
  ne_eq : c ≠ '='
  ne_rparen : c ≠ ')'
  ne_comma : c ≠ ','
  ne_rbrack : c ≠ ']'

theorem LitStart.facts {c : Char} (h : LitStart c) : StartFacts c ∧ c ≠ '(' ∧ c ≠ '!' ∧ c ≠ '@' ∧ c ≠ '$' := by
  rcases h with h | h | h | h | h | h | h
  · exact ⟨⟨digit_not_blank h, isDIGIT_ne h (by decide), isDIGIT_ne h (by decide), isDIGIT_ne h (by decide),
      isDIGIT_ne h (by decide)⟩, isDIGIT_ne h (by decide), isDIGIT_ne h (by decide), isDIGIT_ne h (by decide),
      isDIGIT_ne h (by decide)⟩
  all_goals (subst h; exact ⟨⟨by decide, by decide, by decide, by decide, by decide⟩, by decide, by decide, by decide, by decide⟩)

theorem lcalpha_facts {c : Char} (h : isLCALPHA c = true) : StartFacts c ∧ c ≠ '(' ∧ c ≠ '!' ∧ c ≠ '@' ∧ c ≠ '$' :=
  ⟨⟨lcalpha_not_blank h, isLCALPHA_ne h (by decide), isLCALPHA_ne h (by decide), isLCALPHA_ne h (by decide),
    isLCALPHA_ne h (by decide)⟩, isLCALPHA_ne h (by decide), isLCALPHA_ne h (by decide), isLCALPHA_ne h (by decide),
    isLCALPHA_ne h (by decide)⟩

theorem TermStart.facts {c : Char} (h : TermStart c) : StartFacts c ∧ c ≠ '(' ∧ c ≠ '!' := by
  rcases h with h | h | h | h
  · subst h; exact ⟨⟨by decide, by decide, by decide, by decide, by decide⟩, by decide, by decide⟩
  · subst h; exact ⟨⟨by decide, by decide, by decide, by decide, by decide⟩, by decide, by decide⟩
  · exact ⟨(lcalpha_facts h).1, (lcalpha_facts h).2.1, (lcalpha_facts h).2.2.1⟩
  · exact ⟨h.facts.1, h.facts.2.1, h.facts.2.2.1⟩

theorem BasicStart.facts {c : Char} (h : BasicStart c) : StartFacts c := by
  rcases h with h | h | h
  · subst h; exact ⟨by decide, by decide, by decide, by decide, by decide⟩
  · subst h; exact ⟨by decide, by decide, by decide, by decide, by decide⟩
  · exact h.facts.1

/-! ### first characters of the non-terminals -/

theorem functionName_head {n : List Char} (h : Abnf.FunctionName n) :
    ∃ c t, n = c :: t ∧ isLCALPHA c = true := by
  obtain ⟨c, rest, rfl, hc, _⟩ := h; exact ⟨c, rest, rfl, hc⟩

theorem functionExpr_head {l s e} (h : Abnf.FunctionExpr l s e) : ∃ c t, s = c :: t ∧ isLCALPHA c = true := by
  cases h with
  | noArgs hn _ => obtain ⟨c, t, rfl, hc⟩ := functionName_head hn; exact ⟨c, _, rfl, hc⟩
  | args hn _ _ _ _ => obtain ⟨c, t, rfl, hc⟩ := functionName_head hn; exact ⟨c, _, rfl, hc⟩

theorem testItem_head {l s e} (h : Abnf.TestItem l s e) :
    ∃ c t, s = c :: t ∧ (c = '@' ∨ c = '$' ∨ isLCALPHA c = true) := by
  cases h with
  | rel _ => exact ⟨_, _, rfl, Or.inl rfl⟩
  | root _ => exact ⟨_, _, rfl, Or.inr (Or.inl rfl)⟩
  | call hf => obtain ⟨c, t, rfl, hc⟩ := functionExpr_head hf; exact ⟨c, t, rfl, Or.inr (Or.inr hc)⟩

theorem testItem_termStart {l s e} (h : Abnf.TestItem l s e) : ∃ c t, s = c :: t ∧ TermStart c := by
  obtain ⟨c, t, rfl, hc⟩ := testItem_head h
  exact ⟨c, t, rfl, by rcases hc with h | h | h <;> simp [TermStart, h]⟩

theorem comparable_head {l s e} (h : Abnf.Comparable l s e) : ∃ c t, s = c :: t ∧ TermStart c := by
  cases h with
  | lit hl => obtain ⟨c, t, rfl, hc⟩ := literal_head hl; exact ⟨c, t, rfl, Or.inr (Or.inr (Or.inr hc))⟩
  | rel _ => exact ⟨_, _, rfl, Or.inl rfl⟩
  | root _ => exact ⟨_, _, rfl, Or.inr (Or.inl rfl)⟩
  | call hf => obtain ⟨c, t, rfl, hc⟩ := functionExpr_head hf; exact ⟨c, t, rfl, Or.inr (Or.inr (Or.inl hc))⟩

theorem paren_head {l s e} (h : Abnf.Paren l s e) : ∃ t, s = '(' :: t := by
  cases h; exact ⟨_, rfl⟩

theorem basic_head {l s e} (h : Abnf.Basic l s e) : ∃ c t, s = c :: t ∧ BasicStart c := by
  cases h with
  | paren hp => obtain ⟨t, rfl⟩ := paren_head hp; exact ⟨_, t, rfl, Or.inl rfl⟩
  | notParen _ _ => exact ⟨_, _, rfl, Or.inr (Or.inl rfl)⟩
  | test ht => obtain ⟨c, t, rfl, hc⟩ := testItem_termStart ht; exact ⟨c, t, rfl, Or.inr (Or.inr hc)⟩
  | notTest _ _ => exact ⟨_, _, rfl, Or.inr (Or.inl rfl)⟩
  | cmp h1 _ _ _ _ =>
    obtain ⟨c, t, rfl, hc⟩ := comparable_head h1
    exact ⟨c, _, by simp only [List.cons_append]; rfl, Or.inr (Or.inr hc)⟩

theorem logicalAnd_head {l s e} (h : Abnf.LogicalAnd l s e) : ∃ c t, s = c :: t ∧ BasicStart c := by
  cases h with
  | single hb => exact basic_head hb
  | and hb _ _ _ =>
    obtain ⟨c, t, rfl, hc⟩ := basic_head hb
    exact ⟨c, _, by simp only [List.cons_append]; rfl, hc⟩

theorem logicalOr_head {l s e} (h : Abnf.LogicalOr l s e) : ∃ c t, s = c :: t ∧ BasicStart c := by
  cases h with
  | single hb => exact logicalAnd_head hb
  | or hb _ _ _ =>
    obtain ⟨c, t, rfl, hc⟩ := logicalAnd_head hb
    exact ⟨c, _, by simp only [List.cons_append]; rfl, hc⟩

theorem argument_head {l s e} (h : Abnf.Argument l s e) : ∃ c t, s = c :: t ∧ BasicStart c := by
  cases h with
  | lit hl =>
    obtain ⟨c, t, rfl, hc⟩ := literal_head hl
    exact ⟨c, t, rfl, Or.inr (Or.inr (Or.inr (Or.inr (Or.inr hc))))⟩
  | rel _ => exact ⟨_, _, rfl, Or.inr (Or.inr (Or.inl rfl))⟩
  | root _ => exact ⟨_, _, rfl, Or.inr (Or.inr (Or.inr (Or.inl rfl)))⟩
  | logical hl => exact logicalOr_head hl
  | call hf =>
    obtain ⟨c, t, rfl, hc⟩ := functionExpr_head hf
    exact ⟨c, t, rfl, Or.inr (Or.inr (Or.inr (Or.inr (Or.inl hc))))⟩

theorem bracketed_head {l s c fl} (h : Abnf.Bracketed l s c fl) : ∃ t, s = '[' :: t := by
  cases h; exact ⟨_, rfl⟩

theorem shorthand_head {n : List Char} (h : Abnf.Shorthand n) : ∃ c t, n = c :: t ∧ isNameFirst c = true := by
  obtain ⟨c, rest, rfl, hc, _⟩ := h; exact ⟨c, rest, rfl, hc⟩

theorem segment_head {l s c} (h : Abnf.Segment l s c) : ∃ t, s = '.' :: t ∨ s = '[' :: t := by
  cases h with
  | bracketed hb => obtain ⟨t, rfl⟩ := bracketed_head hb; exact ⟨t, Or.inr rfl⟩
  | dotWild => exact ⟨_, Or.inl rfl⟩
  | dotName _ => exact ⟨_, Or.inl rfl⟩
  | descBracketed _ => exact ⟨_, Or.inl rfl⟩
  | descWild => exact ⟨_, Or.inl rfl⟩
  | descName _ => exact ⟨_, Or.inl rfl⟩

theorem selector_head {l s c} (h : Abnf.Selector l s c) : ∃ ch t, s = ch :: t ∧ isBlank ch = false := by
  cases h with
  | name hs =>
    obtain ⟨t, rfl | rfl⟩ := stringLit_head hs
    · exact ⟨_, t, rfl, by decide⟩
    · exact ⟨_, t, rfl, by decide⟩
  | wild => exact ⟨_, _, rfl, by decide⟩
  | slice hs =>
    obtain ⟨ch, t, rfl, h | h | h⟩ := sliceSel_head hs
    · exact ⟨ch, t, rfl, digit_not_blank h⟩
    · subst h; exact ⟨_, t, rfl, by decide⟩
    · subst h; exact ⟨_, t, rfl, by decide⟩
  | index hi =>
    obtain ⟨ch, t, rfl, h | h⟩ := intLit_head hi
    · exact ⟨ch, t, rfl, digit_not_blank h⟩
    · subst h; exact ⟨_, t, rfl, by decide⟩
  | filter _ _ => exact ⟨_, _, rfl, by decide⟩

/-! ### what follows inside lists -/

/-- what follows a function argument: blank space, then `,` or `)` -/
def ArgFollow (R : List Char) : Prop := ∃ t, skipS R = ',' :: t ∨ skipS R = ')' :: t

theorem moreSelectors_skip {l more cs} (h : Abnf.MoreSelectors l more cs) {R : List Char}
    (hR : ∃ t, skipS R = ']' :: t) : SelFollow (more ++ R) := by
  cases h with
  | nil => obtain ⟨t, ht⟩ := hR; exact ⟨t, Or.inr ht⟩
  | cons hb1 _ _ _ =>
    simp only [List.append_assoc, List.cons_append]
    exact ⟨_, Or.inl (skipS_blanks_cons hb1 (by decide) _)⟩

theorem moreArgs_skip {l more cs} (h : Abnf.MoreArgs l more cs) {R : List Char}
    (hR : ∃ t, skipS R = ')' :: t) : ArgFollow (more ++ R) := by
  cases h with
  | nil => obtain ⟨t, ht⟩ := hR; exact ⟨t, Or.inr ht⟩
  | cons hb1 _ _ _ =>
    simp only [List.append_assoc, List.cons_append]
    exact ⟨_, Or.inl (skipS_blanks_cons hb1 (by decide) _)⟩

theorem SelFollow.sfol {R : List Char} (h : SelFollow R) : SFol StopOr R := by
  obtain ⟨t, h | h⟩ := h <;> (unfold SFol; rw [h]; exact HeadP.cons (by simp [StopOr]))

theorem ArgFollow.sfol {R : List Char} (h : ArgFollow R) : SFol StopOr R := by
  obtain ⟨t, h | h⟩ := h <;> (unfold SFol; rw [h]; exact HeadP.cons (by simp [StopOr]))

theorem SFol.or_term {R} (h : SFol StopOr R) : SFol StopTerm R := h.mono fun _ hc => hc.and.basic.term

/-- after a segment list and its follower comes no name character -/
theorem segments_append_head {l s c} (h : Abnf.Segments l s c) {R : List Char} (hR : SFol StopTerm R) :
    HeadP (fun c => isNameChar c = false) (s ++ R) := by
  cases h with
  | nil => exact hR.head.mono fun _ hc => hc.props.1
  | @cons b s' rest seg segs hb hs _ =>
    intro c t e
    cases b with
    | nil =>
      obtain ⟨t', ht | ht⟩ := segment_head hs <;> subst ht <;>
        (simp only [List.nil_append, List.cons_append, List.cons.injEq] at e; rw [← e.1]; decide)
    | cons x xs =>
      simp only [List.cons_append, List.cons.injEq] at e
      rw [← e.1]
      have := hb x List.mem_cons_self
      rcases blank_cases this with h | h | h | h <;> subst h <;> decide

end JPV.Proofs.AbnfP
