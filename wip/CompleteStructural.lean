import JPV.Impl.Parse
import JPV.Spec.Grammar
import JPV.Spec.Typing
import JPV.Proofs.Requery
namespace JPV.Proofs
open JPV JPV.Impl

/-- C03 for the filter-free language: every string the RFC 9535 grammar derives without filter selectors
(any mix of child/descendant segments; name selectors in either quote style with every escape form, or
shorthand incl. non-ASCII; index, slice (every combination of omitted parts) and wildcard selectors; blank
space wherever the grammar allows it) whose integers lie within the environment's range is accepted by the
implementation's lexer and parser, and compiles to the derivation's query. -/
theorem compile_complete_structural (env : Env) (s : Str) (c : List Spec.CSegment)
    (hp : Spec.parseQuery s = .valid c)
    (hff : Spec.filterFree (Spec.abstractSegs c) = true)
    (hr : Spec.intsQuery env.minIdx env.maxIdx (Spec.abstractSegs c) = true) :
    Impl.compile env s = .ok (Spec.abstractSegs c) := by sorry

end JPV.Proofs
