import JPV.Proofs.Cs.Shape
import JPV.Proofs.Rq.ParseExec
set_option linter.unusedSimpArgs false
namespace JPV.Proofs.Cs
open JPV JPV.Impl JPV.Proofs.Rq

/-- the selector dispatch of one `parseBracketed` iteration -/
def selPart (env : Env) (fuel : Nat) (c : Token) : P Selector := do
  if c.kind = .index then
    if (← peekTok).kind = .colon then parseSlice env
    else
      if (c.value.length > 1 && c.value.head? = some '0') || ['-', '0'].isPrefixOf c.value then
        failAt .syntax c
      let i ← intOf c
      if !inRange env i then failAt .index c
      pure (Selector.index i)
  else if c.kind = .dqString || c.kind = .sqString then
    pure (Selector.name (← decodeAt c))
  else if c.kind = .colon then parseSlice env
  else if c.kind = .wild then pure Selector.wild
  else if c.kind = .filter then parseFilterSelector env fuel
  else failAt .syntax c

/-- what follows the selector in one `parseBracketed` iteration -/
def tailPart (env : Env) (open_ : Token) (fuel : Nat) (acc : List Selector) (sel : Selector) :
    P (List Selector) := do
  if (← peekTok).kind = .eof then failAt .syntax (← cur)
  if (← peekTok).kind ≠ .rbracket then
    expectPeek .comma
    let _ ← nextTok
    expectPeekNot .rbracket
  let _ ← nextTok
  parseBracketed env open_ fuel (acc ++ [sel])

theorem parseBracketed_eq (env : Env) (open_ : Token) (fuel : Nat) (acc : List Selector) :
    parseBracketed env open_ (fuel + 1) acc = (do
      let c ← cur
      if c.kind = .rbracket then
        if acc.isEmpty then failAt .syntax open_
        return acc
      let sel ← selPart env fuel c
      tailPart env open_ fuel acc sel) := by
  rw [parseBracketed]; rfl

end JPV.Proofs.Cs

namespace JPV.Proofs.Cs
open JPV JPV.Impl JPV.Proofs.Rq

theorem exec_map {α β} (f : α → β) (m : P α) (st : TStream) :
    exec (f <$> m) st = match exec m st with
      | (.ok a, st') => (.ok (f a), st')
      | (.error e, st') => (.error e, st') := by
  rw [← bind_pure_comp, exec_bind]
  rcases exec m st with ⟨r, st'⟩
  cases r <;> rfl


theorem inRange_eq (env : Env) (i : Int) : inRange env i = Spec.inRange env.minIdx env.maxIdx i := rfl

/-- `parseSlice` after the lookahead that found the colon behind a start index -/
theorem parseSlice_index (env : Env) (k kc : Int) (v : Str) (i : Int) (hi : IdxTok v i)
    (b c : Option Int) (tb tc : List Token) (hb : OptShape b tb) (hc : StepShape c tc)
    (x : Token) (more : List Token) (hx1 : x.kind ≠ .index) (hx2 : x.kind ≠ .colon)
    (hr : Spec.intsSel env.minIdx env.maxIdx (.slice (some i) b c) = true) :
    exec (parseSlice env) ⟨⟨.index, v, k⟩, [⟨.colon, [':'], kc⟩], tb ++ tc ++ x :: more⟩
      = (.ok (.slice (some i) b c), ⟨x, [x], more⟩) := by
  unfold parseSlice
  cases hb with
  | none =>
    cases hc with
    | absent =>
      simp only [Spec.intsSel, Spec.optInRange, Bool.and_eq_true, ← inRange_eq] at hr
      simp [exec_bind, exec_cur, exec_pure, exec_map, exec_nextTok, exec_pushTok, next_pushed, next_fresh,
        maybeIndex, intOf, hi.int, hi.nz, hi.nm, expect, hx1, hx2, hr, TStream.push]
    | colon k2 =>
      simp only [Spec.intsSel, Spec.optInRange, Bool.and_eq_true, ← inRange_eq] at hr
      simp [exec_bind, exec_cur, exec_pure, exec_map, exec_nextTok, exec_pushTok, next_pushed, next_fresh,
        maybeIndex, intOf, hi.int, hi.nz, hi.nm, expect, hx1, hx2, hr, TStream.push]
    | step v3 i3 k2 k3 h3 =>
      simp only [Spec.intsSel, Spec.optInRange, Bool.and_eq_true, ← inRange_eq] at hr
      simp [exec_bind, exec_cur, exec_pure, exec_map, exec_nextTok, exec_pushTok, next_pushed, next_fresh,
        maybeIndex, intOf, hi.int, hi.nz, hi.nm, h3.int, h3.nz, h3.nm, expect, hx1, hx2, hr, TStream.push]
  | some v2 i2 k2 h2 =>
    cases hc with
    | absent =>
      simp only [Spec.intsSel, Spec.optInRange, Bool.and_eq_true, ← inRange_eq] at hr
      simp [exec_bind, exec_cur, exec_pure, exec_map, exec_nextTok, exec_pushTok, next_pushed, next_fresh,
        maybeIndex, intOf, hi.int, hi.nz, hi.nm, h2.int, h2.nz, h2.nm, expect, hx1, hx2, hr, TStream.push]
    | colon k2 =>
      simp only [Spec.intsSel, Spec.optInRange, Bool.and_eq_true, ← inRange_eq] at hr
      simp [exec_bind, exec_cur, exec_pure, exec_map, exec_nextTok, exec_pushTok, next_pushed, next_fresh,
        maybeIndex, intOf, hi.int, hi.nz, hi.nm, h2.int, h2.nz, h2.nm, expect, hx1, hx2, hr, TStream.push]
    | step v3 i3 k2 k3 h3 =>
      simp only [Spec.intsSel, Spec.optInRange, Bool.and_eq_true, ← inRange_eq] at hr
      simp [exec_bind, exec_cur, exec_pure, exec_map, exec_nextTok, exec_pushTok, next_pushed, next_fresh,
        maybeIndex, intOf, hi.int, hi.nz, hi.nm, h2.int, h2.nz, h2.nm, h3.int, h3.nz, h3.nm, expect, hx1, hx2, hr, TStream.push]


/-- `parseSlice` on a slice without a start -/
theorem parseSlice_colon (env : Env) (kc : Int)
    (b c : Option Int) (tb tc : List Token) (hb : OptShape b tb) (hc : StepShape c tc)
    (x : Token) (more : List Token) (hx1 : x.kind ≠ .index) (hx2 : x.kind ≠ .colon)
    (hr : Spec.intsSel env.minIdx env.maxIdx (.slice none b c) = true) :
    exec (parseSlice env) ⟨⟨.colon, [':'], kc⟩, [], tb ++ tc ++ x :: more⟩
      = (.ok (.slice none b c), ⟨x, [x], more⟩) := by
  unfold parseSlice
  cases hb with
  | none =>
    cases hc with
    | absent =>
      simp only [Spec.intsSel, Spec.optInRange, Bool.and_eq_true, ← inRange_eq] at hr
      simp [exec_bind, exec_cur, exec_pure, exec_map, exec_nextTok, exec_pushTok, next_pushed, next_fresh,
        maybeIndex, intOf, expect, hx1, hx2, hr, TStream.push]
    | colon k2 =>
      simp only [Spec.intsSel, Spec.optInRange, Bool.and_eq_true, ← inRange_eq] at hr
      simp [exec_bind, exec_cur, exec_pure, exec_map, exec_nextTok, exec_pushTok, next_pushed, next_fresh,
        maybeIndex, intOf, expect, hx1, hx2, hr, TStream.push]
    | step v3 i3 k2 k3 h3 =>
      simp only [Spec.intsSel, Spec.optInRange, Bool.and_eq_true, ← inRange_eq] at hr
      simp [exec_bind, exec_cur, exec_pure, exec_map, exec_nextTok, exec_pushTok, next_pushed, next_fresh,
        maybeIndex, intOf, h3.int, h3.nz, h3.nm, expect, hx1, hx2, hr, TStream.push]
  | some v2 i2 k2 h2 =>
    cases hc with
    | absent =>
      simp only [Spec.intsSel, Spec.optInRange, Bool.and_eq_true, ← inRange_eq] at hr
      simp [exec_bind, exec_cur, exec_pure, exec_map, exec_nextTok, exec_pushTok, next_pushed, next_fresh,
        maybeIndex, intOf, h2.int, h2.nz, h2.nm, expect, hx1, hx2, hr, TStream.push]
    | colon k2 =>
      simp only [Spec.intsSel, Spec.optInRange, Bool.and_eq_true, ← inRange_eq] at hr
      simp [exec_bind, exec_cur, exec_pure, exec_map, exec_nextTok, exec_pushTok, next_pushed, next_fresh,
        maybeIndex, intOf, h2.int, h2.nz, h2.nm, expect, hx1, hx2, hr, TStream.push]
    | step v3 i3 k2 k3 h3 =>
      simp only [Spec.intsSel, Spec.optInRange, Bool.and_eq_true, ← inRange_eq] at hr
      simp [exec_bind, exec_cur, exec_pure, exec_map, exec_nextTok, exec_pushTok, next_pushed, next_fresh,
        maybeIndex, intOf, h2.int, h2.nz, h2.nm, h3.int, h3.nz, h3.nm, expect, hx1, hx2, hr, TStream.push]

/-- the stream is positioned so that the next token to be delivered is `x`, then `more` -/
def Ready (x : Token) (more : List Token) (st : TStream) : Prop :=
  (∃ c, c.kind ≠ .eof ∧ st = ⟨c, [], x :: more⟩) ∨ (∃ c, st = ⟨c, [x], more⟩)

theorem strKind_cases (q : Char) : strKind q = .sqString ∨ strKind q = .dqString := by
  unfold strKind; split <;> simp

/-- the selector dispatch on the tokens of one selector -/
theorem selPart_exec (env : Env) (f : Nat) {sel : Spec.CSelector} {ts : List Token} (h : SelShape sel ts)
    (hr : Spec.intsSel env.minIdx env.maxIdx (Spec.abstractSel sel) = true)
    (x : Token) (more : List Token) (hx1 : x.kind ≠ .index) (hx2 : x.kind ≠ .colon) :
    ∃ t ts', ts = t :: ts' ∧ t.kind ≠ .rbracket ∧ ∃ st',
      exec (selPart env f t) ⟨t, [], ts' ++ x :: more⟩ = (.ok (Spec.abstractSel sel), st') ∧
      Ready x more st' := by
  cases h with
  | wild k =>
    refine ⟨_, _, rfl, by simp, ⟨⟨.wild, ['*'], k⟩, [], x :: more⟩, ?_, .inl ⟨_, ?_, rfl⟩⟩
    · simp [selPart, exec_pure, Spec.abstractSel]
    · simp
  | name q body s k hq hd =>
    refine ⟨_, _, rfl, ?_, ⟨⟨strKind q, body, k⟩, [], x :: more⟩, ?_, .inl ⟨_, ?_, rfl⟩⟩
    · rcases strKind_cases q with e | e <;> simp [e]
    · rcases strKind_cases q with e | e <;> rw [e] at hd ⊢ <;>
        simp [selPart, exec_pure, exec_bind, exec_map, Spec.abstractSel, decodeAt, hd]
    · rcases strKind_cases q with e | e <;> simp [e]
  | index v i k hi =>
    simp only [Spec.abstractSel, Spec.intsSel, ← inRange_eq] at hr
    refine ⟨_, _, rfl, by simp, ⟨⟨.index, v, k⟩, [x], more⟩, ?_, .inr ⟨_, rfl⟩⟩
    have hnm : ['-', '0'].isPrefixOf v = false := by
      rw [Bool.eq_false_iff]; intro h; exact hi.nm (List.isPrefixOf_iff_prefix.mp h)
    simp [selPart, exec_pure, exec_bind, exec_peekTok, peek_fresh, hx2, intOf, hi.int, hi.nz, hnm, hr,
      Spec.abstractSel]
  | slice a b c ta tb tc k ha hb hc =>
    cases ha with
    | none =>
      refine ⟨_, _, rfl, by simp, ⟨x, [x], more⟩, ?_, .inr ⟨_, rfl⟩⟩
      have := parseSlice_colon env k b c tb tc hb hc x more hx1 hx2 hr
      simp only [List.append_assoc] at this
      simp [selPart, Spec.abstractSel, this]
    | some v i k1 hi =>
      refine ⟨_, _, rfl, by simp, ⟨x, [x], more⟩, ?_, .inr ⟨_, rfl⟩⟩
      have := parseSlice_index env k1 k v i hi b c tb tc hb hc x more hx1 hx2 hr
      simp only [List.append_assoc] at this
      simp [selPart, Spec.abstractSel, exec_bind, exec_peekTok, peek_fresh, this]


theorem tailPart_close (env : Env) (open_ : Token) (f : Nat) (acc : List Selector) (sel : Selector)
    {x : Token} {more : List Token} {st : TStream} (h : Ready x more st) (hx : x.kind = .rbracket) :
    exec (tailPart env open_ f acc sel) st
      = exec (parseBracketed env open_ f (acc ++ [sel])) ⟨x, [], more⟩ := by
  rcases h with ⟨c, hc, rfl⟩ | ⟨c, rfl⟩
  · simp [tailPart, exec_bind, exec_peekTok, exec_nextTok, exec_pure, peek_fresh, peek_pushed, next_pushed, hc, hx]
  · simp [tailPart, exec_bind, exec_peekTok, exec_nextTok, exec_pure, peek_fresh, peek_pushed, next_pushed, hx]

theorem tailPart_comma (env : Env) (open_ : Token) (f : Nat) (acc : List Selector) (sel : Selector)
    {x y : Token} {more : List Token} {st : TStream} (h : Ready x (y :: more) st) (hx : x.kind = .comma)
    (hy : y.kind ≠ .rbracket) :
    exec (tailPart env open_ f acc sel) st
      = exec (parseBracketed env open_ f (acc ++ [sel])) ⟨y, [], more⟩ := by
  have hxe : x.kind ≠ .eof := by rw [hx]; simp
  rcases h with ⟨c, hc, rfl⟩ | ⟨c, rfl⟩
  · simp [tailPart, exec_bind, exec_peekTok, exec_nextTok, exec_pure, peek_fresh, peek_pushed, next_pushed,
      expectPeek, expectPeekNot, hc, hx, hy, hxe]
  · simp [tailPart, exec_bind, exec_peekTok, exec_nextTok, exec_pure, peek_fresh, peek_pushed, next_pushed,
      expectPeek, expectPeekNot, hx, hy, hxe]

/-- the `parseBracketed` loop over the remaining selectors of a bracketed selection -/
theorem parse_more (env : Env) (open_ : Token) {ss : List Spec.CSelector} {ts : List Token}
    (h : MoreShape ss ts) :
    Spec.intsSels env.minIdx env.maxIdx (Spec.abstractSels ss) = true →
    ∀ (f : Nat) (acc : List Selector) (sel : Selector) (rb : Token) (more2 : List Token) (x : Token)
      (more : List Token) (st : TStream), ss.length + 1 ≤ f → rb.kind = .rbracket →
      x :: more = ts ++ rb :: more2 → Ready x more st →
      exec (tailPart env open_ f acc sel) st
        = (.ok (acc ++ [sel] ++ Spec.abstractSels ss), ⟨rb, [], more2⟩) := by
  induction h with
  | nil =>
    intro _ f acc sel rb more2 x more st hf hrb heq hst
    simp only [List.nil_append, List.cons.injEq] at heq
    obtain ⟨rfl, rfl⟩ := heq
    obtain ⟨f', rfl⟩ : ∃ f', f = f' + 1 := ⟨f - 1, by simp at hf; omega⟩
    rw [tailPart_close env open_ _ acc sel hst hrb, parseBracketed_close _ _ _ _ _ hrb (by simp)]
    simp [Spec.abstractSels]
  | cons s ss k t1 t2 hs _ ih =>
    intro hr f acc sel rb more2 x more st hf hrb heq hst
    simp only [Spec.abstractSels, Spec.intsSels, Bool.and_eq_true] at hr
    simp only [List.cons_append, List.cons.injEq] at heq
    obtain ⟨rfl, rfl⟩ := heq
    obtain ⟨f', rfl⟩ : ∃ f', f = f' + 1 := ⟨f - 1, by simp at hf; omega⟩
    cases ht2 : t2 ++ rb :: more2 with
    | nil => simp at ht2
    | cons x' more' =>
      have hx' : x'.kind = .comma ∨ x'.kind = .rbracket := by
        cases ‹MoreShape ss t2› with
        | nil => simp at ht2; rw [← ht2.1]; exact .inr hrb
        | cons => simp at ht2; rw [← ht2.1]; exact .inl rfl
      obtain ⟨t, ts', rfl, htk, st', he, hready⟩ := selPart_exec env f' hs hr.1 x' more'
        (by rcases hx' with e | e <;> simp [e]) (by rcases hx' with e | e <;> simp [e])
      simp only [List.append_assoc, List.cons_append] at hst
      rw [tailPart_comma env open_ _ acc sel hst rfl htk, parseBracketed_eq]
      have he' : exec (selPart env f' t) ⟨t, [], ts' ++ (t2 ++ rb :: more2)⟩ = (.ok (Spec.abstractSel s), st') := by
        rw [ht2]; exact he
      simp only [exec_bind, exec_cur, htk, if_false, he']
      rw [ih hr.2 f' (acc ++ [sel]) (Spec.abstractSel s) rb more2 x' more' st' (by simp at hf; omega) hrb
        ht2.symm hready]
      simp [Spec.abstractSels]


/-! ### token counts -/

theorem SelShape.length_pos {sel : Spec.CSelector} {ts : List Token} (h : SelShape sel ts) : 1 ≤ ts.length := by
  cases h <;> simp <;> omega

theorem MoreShape.length_le {ss : List Spec.CSelector} {ts : List Token} (h : MoreShape ss ts) :
    ss.length ≤ ts.length := by
  induction h with
  | nil => simp
  | cons s ss k t1 t2 hs _ ih => have := hs.length_pos; simp; omega

theorem SelsShape.length_le {ss : List Spec.CSelector} {ts : List Token} (h : SelsShape ss ts) :
    ss.length ≤ ts.length := by
  cases h with
  | mk s ss t1 t2 hs hm => have := hs.length_pos; have := hm.length_le; simp; omega

theorem SegShape.length_pos {seg : Spec.CSegment} {ts : List Token} (h : SegShape seg ts) : 1 ≤ ts.length := by
  cases h <;> simp

/-- `parseSelectors` on a bracketed selection -/
theorem parse_brack (env : Env) {sels : List Spec.CSelector} {ts : List Token} (h : SelsShape sels ts)
    (hr : Spec.intsSels env.minIdx env.maxIdx (Spec.abstractSels sels) = true)
    (fuel : Nat) (lb rb : Token) (more : List Token) (hlb : lb.kind = .lbracket) (hrb : rb.kind = .rbracket)
    (hf : sels.length + 2 ≤ fuel) :
    exec (parseSelectors env fuel) ⟨lb, [], ts ++ rb :: more⟩ = (.ok (Spec.abstractSels sels), ⟨rb, [], more⟩) := by
  cases h with
  | mk s ss t1 t2 hs hm =>
    obtain ⟨f, rfl⟩ : ∃ f, fuel = f + 2 := ⟨fuel - 2, by omega⟩
    simp only [Spec.abstractSels, Spec.intsSels, Bool.and_eq_true] at hr
    cases ht2 : t2 ++ rb :: more with
    | nil => simp at ht2
    | cons x' more' =>
      have hx' : x'.kind = .comma ∨ x'.kind = .rbracket := by
        cases hm with
        | nil => simp at ht2; rw [← ht2.1]; exact .inr hrb
        | cons => simp at ht2; rw [← ht2.1]; exact .inl rfl
      obtain ⟨t, ts', rfl, htk, st', he, hready⟩ := selPart_exec env f hs hr.1 x' more'
        (by rcases hx' with e | e <;> simp [e]) (by rcases hx' with e | e <;> simp [e])
      have hlbe : lb.kind ≠ .eof := by rw [hlb]; simp
      have he' : exec (selPart env f t) ⟨t, [], ts' ++ (t2 ++ rb :: more)⟩ = (.ok (Spec.abstractSel s), st') := by
        rw [ht2]; exact he
      have hpm := parse_more env lb hm hr.2 f [] (Spec.abstractSel s) rb more x' more' st'
        (by simp at hf; omega) hrb ht2.symm hready
      rw [parseSelectors]
      simp [exec_bind, exec_cur, hlb, exec_nextTok, next_fresh, hlbe, parseBracketed_eq, htk, he', hpm,
        exec_pure, Spec.abstractSels]

end JPV.Proofs.Cs
