/-
`Proofs.Cf.ParseInfix` — one call of `parseInfix`, `parseGrouped`, `parsePrefix` and the query handlers,
given the result of their recursive calls.
-/
import JPV.Proofs.Cf.ParseSegs
set_option linter.unusedSimpArgs false
set_option linter.unusedVariables false
namespace JPV.Proofs.Cf
open JPV JPV.Impl JPV.Proofs.Rq

/-- `parseInfix left` run on `st` returns an expression with AST `e`, the stream ready for `x`, `more` -/
def InfixRes (env : Env) (left : PExpr) (e : Expr) (st : TStream) (x : Token) (more : List Token) : Prop :=
  ∃ px st', px.e = e ∧ Cs.Ready x more st' ∧ Ev (fun F => parseInfix env left F) st (.ok px, st')

section
variable {env : Env}

/-! ### handler dispatch -/

theorem handler_grouped {st : TStream} {R : Except Err PExpr × TStream}
    (h : Ev (fun F => parseGrouped env F) st R) : Ev (fun F => parseByHandler env .grouped F) st R :=
  Ev.step1 h fun f e => by rw [parseByHandler]; exact e

theorem handler_prefix {st : TStream} {R : Except Err PExpr × TStream}
    (h : Ev (fun F => parsePrefix env F) st R) : Ev (fun F => parseByHandler env .prefix F) st R :=
  Ev.step1 h fun f e => by rw [parseByHandler]; exact e

theorem handler_function {st : TStream} {R : Except Err PExpr × TStream}
    (h : Ev (fun F => parseFunction env F) st R) : Ev (fun F => parseByHandler env .function F) st R :=
  Ev.step1 h fun f e => by rw [parseByHandler]; exact e

/-! ### `parseInfix` -/

theorem infix_cmp_core (left : PExpr) {opTok t : Token} {rest : List Token} {op : COp} {pr : PExpr}
    {st' : TStream} (hop : opTok.kind = copKind op) (ht : termStart t.kind = true)
    (hl : CmpLike env left.e) (hr : CmpLike env pr.e)
    (hR : Ev (fun F => parseFilterExpr env precRelational F) ⟨t, [], rest⟩ (.ok pr, st')) :
    Ev (fun F => parseInfix env left F) ⟨opTok, [], t :: rest⟩ (.ok ⟨.cmp op left.e pr.e, opTok⟩, st') := by
  refine Ev.step1 hR fun f e1 => ?_
  have hne : opTok.kind ≠ .eof := by rw [hop]; exact copKind_ne_eof op
  obtain ⟨_, hlp, hnot, _, _⟩ := termStart_ne ht
  rw [parseInfix]
  simp [Cs.exec_map, exec_bind, exec_nextTok, next_fresh _ _ _ hne, exec_cur, hop, precedence_copKind, isComparisonTok_copKind,
    hlp, hnot, e1, binaryOp_copKind, nonComparable_ok _ _ hl, nonComparable_ok _ _ hr, exec_pure]

theorem infix_logical_core (left : PExpr) {opTok t : Token} {rest : List Token} {op : LOp} {pr : PExpr}
    {st' : TStream} (hop : binaryOp opTok.kind = some (.logical op))
    (hl : TestLike env left.e) (hr : TestLike env pr.e)
    (hR : Ev (fun F => parseFilterExpr env (precedence opTok.kind) F) ⟨t, [], rest⟩ (.ok pr, st')) :
    Ev (fun F => parseInfix env left F) ⟨opTok, [], t :: rest⟩ (.ok ⟨.logical op left.e pr.e, opTok⟩, st') := by
  refine Ev.step1 hR fun f e1 => ?_
  have hne : opTok.kind ≠ .eof := by intro e; rw [e] at hop; simp [binaryOp] at hop
  have hnc : isComparisonTok opTok.kind = false := by simp [isComparisonTok, hop]
  rw [parseInfix]
  simp [Cs.exec_map, exec_bind, exec_nextTok, next_fresh _ _ _ hne, exec_cur, hnc, e1, hop, uncompared_ok _ hl,
    uncompared_ok _ hr, exec_pure]

/-! ### query handlers -/

theorem unit_rel {m : Nat} (hS : StSegs env m) {q : List Spec.CSegment} {ts : List Token} (h : FSegsShape q ts)
    (hv : SegsOK env q) (hl : ts.length ≤ m) (tok : Token) (hk : tok.kind = .current)
    (x : Token) (more : List Token) (hx : folTerm x.kind = true) :
    UnitRes env (.rel (Spec.abstractSegs q)) .relQuery ⟨tok, [], ts ++ x :: more⟩ x more := by
  obtain ⟨t, ts', hts, hev⟩ := hS q ts h hv hl true [] x more (segStart_of_folTerm hx)
  refine ⟨⟨.rel (Spec.abstractSegs q), tok⟩, ⟨x, [x], more⟩, rfl, .inr ⟨x, rfl⟩, Ev.step1 hev fun f e1 => ?_⟩
  have hne : tok.kind ≠ .eof := by rw [hk]; simp
  rw [parseByHandler, hts]
  simp only [endState, if_true, List.nil_append] at e1
  simp [Cs.exec_map, exec_bind, exec_nextTok, next_fresh _ _ _ hne, e1, exec_pure]

theorem unit_root {m : Nat} (hS : StSegs env m) {q : List Spec.CSegment} {ts : List Token} (h : FSegsShape q ts)
    (hv : SegsOK env q) (hl : ts.length ≤ m) (tok : Token) (hk : tok.kind = .root)
    (x : Token) (more : List Token) (hx : folTerm x.kind = true) :
    UnitRes env (.root (Spec.abstractSegs q)) .rootQuery ⟨tok, [], ts ++ x :: more⟩ x more := by
  obtain ⟨t, ts', hts, hev⟩ := hS q ts h hv hl true [] x more (segStart_of_folTerm hx)
  refine ⟨⟨.root (Spec.abstractSegs q), tok⟩, ⟨x, [x], more⟩, rfl, .inr ⟨x, rfl⟩, Ev.step1 hev fun f e1 => ?_⟩
  have hne : tok.kind ≠ .eof := by rw [hk]; simp
  rw [parseByHandler, hts]
  simp only [endState, if_true, List.nil_append] at e1
  simp [Cs.exec_map, exec_bind, exec_nextTok, next_fresh _ _ _ hne, e1, exec_pure]

/-! ### parenthesised and negated expressions -/

theorem groupedLoop_stop (px : PExpr) (rp : Token) (p r : List Token) (hrp : rp.kind = .rparen) :
    Ev (fun F => groupedLoop env F px) ⟨rp, p, r⟩ (.ok px, ⟨rp, p, r⟩) := by
  refine Ev.step0 fun f => ?_
  rw [groupedLoop]
  simp [Cs.exec_map, exec_bind, exec_cur, hrp, exec_pure]

/-- `parseGrouped`, given `parseFilterExpr precLowest` on the inner tokens -/
theorem unit_paren {a : Expr} {lp rp t : Token} {rest : List Token} {x : Token} {more : List Token}
    (hlp : lp.kind = .lparen) (hrp : rp.kind = .rparen) (hx : folBasic x.kind = true) (ha : TestLike env a)
    (hE : ExprRes env precLowest a ⟨t, [], rest⟩ rp (x :: more)) :
    UnitRes env a .grouped ⟨lp, [], t :: rest⟩ x more := by
  obtain ⟨px, st1, he, hr, hev⟩ := hE
  have hst2 : (st1.next.2 : TStream) = ⟨rp, [], x :: more⟩ := by
    rcases hr with ⟨c, hc, rfl⟩ | ⟨c, rfl⟩
    · rw [next_fresh _ _ _ hc]
    · rw [next_pushed]
  have hne : lp.kind ≠ .eof := by rw [hlp]; simp
  have hrne : rp.kind ≠ .eof := by rw [hrp]; simp
  rw [← he] at ha
  refine ⟨px, ⟨rp, [x], more⟩, he, .inr ⟨rp, rfl⟩, handler_grouped ?_⟩
  refine Ev.step2 hev (groupedLoop_stop (env := env) px rp [] (x :: more) hrp) fun f e1 e2 => ?_
  rw [parseGrouped]
  simp [Cs.exec_map, exec_bind, exec_nextTok, next_fresh _ _ _ hne, e1, hst2, e2, expect, exec_cur, hrp, exec_pure,
    uncompared_ok _ ha, exec_peekTok, peek_fresh _ _ _ hrne, peek_pushed, notCmp_of_folBasic hx]

/-- `parsePrefix`, given `parseFilterExpr precPrefix` on the operand -/
theorem unit_not {a : Expr} {nt t : Token} {rest : List Token} {x : Token} {more : List Token}
    (hnt : nt.kind = .not) (ht : t.kind ≠ .not) (ha : TestLike env a)
    (hE : ExprRes env precPrefix a ⟨t, [], rest⟩ x more) :
    UnitRes env (.not a) .prefix ⟨nt, [], t :: rest⟩ x more := by
  obtain ⟨px, st1, he, hr, hev⟩ := hE
  have hne : nt.kind ≠ .eof := by rw [hnt]; simp
  rw [← he] at ha
  refine ⟨⟨.not px.e, nt⟩, st1, by simp [he], hr, handler_prefix ?_⟩
  refine Ev.step1 hev fun f e1 => ?_
  rw [parsePrefix]
  simp [Cs.exec_map, exec_bind, exec_nextTok, next_fresh _ _ _ hne, exec_cur, ht, e1, uncompared_ok _ ha, exec_pure]

end

end JPV.Proofs.Cf
