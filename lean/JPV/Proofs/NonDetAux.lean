import JPV.Impl.NonDet
import JPV.Spec.NonDet
import JPV.Spec.Typing
import JPV.Proofs.EvalAux
/-
Lemmas for `Proofs/NonDet.lean` (C17): the primitive choices are permutations /
interleavings, and the continuation-passing nondeterministic evaluator yields a
permutation of the RFC nodelist for filter-free queries.
-/
namespace JPV.Proofs.NDp
open JPV JPV.Impl

/-! ### list facts -/

theorem perm_of_nodup_subset {α} [DecidableEq α] :
    ∀ (l₁ l₂ : List α), l₁.Nodup → l₁ ⊆ l₂ → l₂.length ≤ l₁.length → l₁.Perm l₂ := by
  intro l₁
  induction l₁ with
  | nil =>
    intro l₂ _ _ hlen
    cases l₂ with
    | nil => exact .nil
    | cons _ _ => simp at hlen
  | cons a t ih =>
    intro l₂ hnd hsub hlen
    rw [List.nodup_cons] at hnd
    have ha : a ∈ l₂ := hsub List.mem_cons_self
    have htsub : t ⊆ l₂.erase a := by
      intro x hx
      have hxa : x ≠ a := fun h => hnd.1 (h ▸ hx)
      exact (List.mem_erase_of_ne hxa).2 (hsub (List.mem_cons_of_mem _ hx))
    have hl : (l₂.erase a).length ≤ t.length := by
      rw [List.length_erase]; simp only [ha, if_true]; simp only [List.length_cons] at hlen; omega
    exact ((ih _ hnd.2 htsub hl).cons a).trans (List.perm_cons_erase ha).symm

theorem isPerm_perm {p : List Nat} {n : Nat} (h : ND.isPerm p n = true) : (List.range n).Perm p := by
  simp only [ND.isPerm, Bool.and_eq_true, beq_iff_eq, List.all_eq_true, List.mem_range,
    List.contains_iff_mem] at h
  apply perm_of_nodup_subset _ _ List.nodup_range
  · intro i hi; exact h.2 i (List.mem_range.1 hi)
  · simp [h.1]

theorem filterMap_range_take {α} (xs : List α) :
    ∀ n, n ≤ xs.length → (List.range n).filterMap (fun i => xs[i]?) = xs.take n := by
  intro n
  induction n with
  | zero => intro _; simp
  | succ n ih =>
    intro hn
    have hlt : n < xs.length := by omega
    rw [List.range_succ, List.filterMap_append, ih (by omega), List.take_add_one]
    simp [List.getElem?_eq_getElem hlt]

theorem filterMap_range {α} (xs : List α) :
    (List.range xs.length).filterMap (fun i => xs[i]?) = xs := by
  rw [filterMap_range_take xs _ (Nat.le_refl _), List.take_length]

/-! ### the primitive choices -/

theorem shuffle_perm {α} (xs : List α) (s : ND.Script) : ((ND.shuffle xs s).1).Perm xs := by
  unfold ND.shuffle
  split
  · exact .refl _
  · split
    · next p rest =>
      split
      · next hp =>
        have := (isPerm_perm hp).symm.filterMap (fun i => xs[i]?)
        rw [filterMap_range] at this
        exact this
      · exact .refl _
    · exact .refl _
    · exact .refl _

theorem interleave_perm {α} : ∀ (bs : List Bool) (a b : List α),
    (ND.interleave bs a b).Perm (a ++ b) ∧ List.Sublist a (ND.interleave bs a b) ∧
      List.Sublist b (ND.interleave bs a b) := by
  intro bs a b
  induction bs, a, b using ND.interleave.induct with
  | case1 bs b => simp [ND.interleave]
  | case2 bs a h => 
    rw [ND.interleave]
    · simp
    · exact h
  | case3 a b h1 h2 => 
    rw [ND.interleave]
    · simp
    · exact h1
    · exact h2
  | case4 bs x a b h ih =>
    rw [ND.interleave]
    · refine ⟨?_, ?_, ?_⟩
      · simpa using ih.1
      · exact ih.2.1.cons_cons x
      · exact ih.2.2.cons x
    · exact h
  | case5 bs a y b h ih =>
    rw [ND.interleave]
    · refine ⟨?_, ?_, ?_⟩
      · exact (ih.1.cons y).trans List.perm_middle.symm
      · exact ih.2.1.cons y
      · exact ih.2.2.cons_cons y
    · exact h

theorem mergeQ_perm {α} (q g : List α) (s : ND.Script) :
    ((ND.mergeQ q g s).1).Perm (q ++ g) ∧ List.Sublist q (ND.mergeQ q g s).1 ∧
      List.Sublist g (ND.mergeQ q g s).1 := by
  have happ : (q ++ g).Perm (q ++ g) ∧ List.Sublist q (q ++ g) ∧ List.Sublist g (q ++ g) :=
    ⟨.refl _, List.sublist_append_left _ _, List.sublist_append_right _ _⟩
  unfold ND.mergeQ
  split
  · exact happ
  · split
    · exact interleave_perm _ _ _
    · exact happ
    · exact happ

theorem ndChildren_perm (n : Node) (s : ND.Script) :
    ((ND.ndChildren n s).1).Perm (Impl.children n) := by
  unfold ND.ndChildren Impl.children
  cases hv : n.val with
  | obj kvs =>
    simp only [Impl.objChildren]
    exact (shuffle_perm kvs s).map _
  | arr xs => exact .refl _
  | _ => exact .refl _

theorem ndChildren_arr (n : Node) (s : ND.Script) (xs : List Json) (h : n.val = .arr xs) :
    (ND.ndChildren n s).1 = Impl.children n := by
  unfold ND.ndChildren Impl.children
  rw [h]

end JPV.Proofs.NDp
