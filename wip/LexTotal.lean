import JPV.Impl.Parse
import JPV.Proofs.LexInv
namespace JPV.Proofs
open JPV JPV.Impl

/-- what the parser relies on about a token -/
def TokShape (t : Token) : Prop :=
  (t.kind = .index → (Py.intOfText t.value).isSome = true) ∧
  (t.kind = .sqString → ∃ inp rest, Impl.scanString '\'' inp = some (t.value, rest)) ∧
  (t.kind = .dqString → ∃ inp rest, Impl.scanString '"' inp = some (t.value, rest))

theorem tokenize_total : ∀ s : Str, match Impl.tokenize s with
    | .ok _ => True
    | .error e => e.kind.isJSONPathError = true := by sorry

theorem tokenize_shapes (s : Str) (toks : List Token) (h : Impl.tokenize s = .ok toks) :
    (∃ t, toks.getLast? = some t ∧ t.kind = .eof) ∧ ∀ t ∈ toks, TokShape t := by sorry

end JPV.Proofs
