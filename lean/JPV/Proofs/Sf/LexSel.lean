/-
`Proofs.Sf.LexSel` — LEXER INVERSION, the induction steps for selectors and bracketed selections.
-/
import JPV.Proofs.Sf.LexExpr
set_option linter.unusedSimpArgs false
set_option linter.unusedVariables false
namespace JPV.Proofs.Sf
open JPV JPV.Impl JPV.Proofs.Rq JPV.Proofs.Cs JPV.Proofs.Ss

variable {lf : Lexer} {n : Nat}

/-! ### the filter state never emits segment tokens unless it sees a dot -/

theorem fTok_kinds {x : List Char} {k : TokKind} {v rest : List Char} (h : fTok x = some (k, v, rest)) :
    k ≠ .property ∧ k ≠ .wild ∧ k ≠ .doubleDot ∧ k ≠ .lbracket ∧ k ≠ .eof := by
  obtain ⟨c, r, e, hc⟩ := fTok_cases h
  rcases hc with ⟨rfl, rfl, rfl⟩ | ⟨rfl, rfl, rfl⟩ | ⟨rfl, rfl, hsc⟩ | ⟨rfl, rfl, hsc⟩ | ⟨rfl, rfl, rfl⟩ |
    ⟨rfl, rfl, rfl⟩ | ⟨rfl, rfl, rfl⟩ | ⟨rfl, rfl, rfl⟩ | ⟨rfl, rfl, rfl⟩ | ⟨rfl, rfl, rfl, hne⟩ | ⟨rfl, rfl, rfl⟩ |
    ⟨rfl, rfl, rfl⟩ | ⟨rfl, rfl, rfl, hne⟩ | ⟨rfl, rfl, rfl⟩ | ⟨rfl, rfl, rfl, hne⟩ |
    ⟨c1, c2, c3, c4, c5, c6, c7, c8, c9, c10, c11, c12, c13, hd⟩
  all_goals try (exact ⟨by decide, by decide, by decide, by decide, by decide⟩)
  rcases fDefault_cases hd with ⟨rfl, hx⟩ | ⟨rfl, hx⟩ | ⟨rfl, hx⟩ | ⟨rfl, hx⟩ | ⟨rfl, hx⟩ |
    ⟨rfl, m, hfl, rfl, rfl⟩ | ⟨rfl, hfl, m, hin, rfl, rfl⟩ | ⟨rfl, ht, hf, hn, hfl, hin, m, hfn, rfl, hdr⟩
  all_goals exact ⟨by decide, by decide, by decide, by decide, by decide⟩

theorem FCfg.not_seg (hg : ¬ Bad lf) {d : Int} {br : List (Char × Nat)} {x : List Char} {t : Token}
    {out : List Token} (h : FCfg lf d br x (t :: out)) (hx : ∃ c r, Spec.skipS x = c :: r ∧ c ≠ '.' ∧ c ≠ '[') :
    t.kind ≠ .property ∧ t.kind ≠ .wild ∧ t.kind ≠ .doubleDot ∧ t.kind ≠ .lbracket ∧ t.kind ≠ .eof := by
  obtain ⟨c, r, e, hc, -⟩ := hx
  rcases h.next hg with ⟨⟨r', e'⟩, -⟩ | ⟨rest, hf, -⟩
  · rw [e] at e'
    simp only [List.cons.injEq] at e'
    exact absurd e'.1 hc
  · exact fTok_kinds hf

/-! ### what follows a selector -/

theorem ECfg.comma (hg : ¬ Bad lf) {d : Int} {i : Nat} {br : List (Char × Nat)} {r2 : List Char} {c : Token}
    {out : List Token} (h : ECfg lf d i br r2 (c :: out)) (hc : c.kind = .comma) :
    ∃ r, Spec.skipS r2 = ',' :: r ∧ BCfg lf d (('[', i) :: br) r out := by
  rcases h with ⟨m, em, hb⟩ | hf
  · obtain ⟨rest, hbt, hcs⟩ := BCfg.next hg hb
    rw [hc] at hbt
    rcases hcs with ⟨hk, _⟩ | ⟨hk, _⟩ | ⟨_, _, h'⟩
    · rw [hc] at hk; cases hk
    · rw [hc] at hk; cases hk
    · exact ⟨rest, by rw [← em]; exact brTok_comma hbt, h'⟩
  · obtain ⟨rest, hx, h'⟩ := FCfg.next_comma_brack hg hf hc
    exact ⟨rest, hx, by simpa using h'⟩

theorem ECfg.rbracket (hg : ¬ Bad lf) {d : Int} {i : Nat} {br : List (Char × Nat)} {r2 : List Char} {rb : Token}
    {out : List Token} (h : ECfg lf d i br r2 (rb :: out)) (hc : rb.kind = .rbracket) :
    ∃ rest, Spec.skipS r2 = ']' :: rest ∧ SCfg lf d br rest out := by
  rcases h with ⟨m, em, hb⟩ | hf
  · obtain ⟨rest, hbt, hcs⟩ := BCfg.next hg hb
    rw [hc] at hbt
    rcases hcs with ⟨_, h'⟩ | ⟨hk, _⟩ | ⟨hk, _, _⟩
    · exact ⟨rest, by rw [← em]; exact brTok_rbracket hbt, h'⟩
    · rw [hc] at hk; cases hk
    · exact absurd hc hk
  · obtain ⟨rest, hx, h'⟩ := FCfg.next_rbracket hg hf hc
    exact ⟨rest, hx, by simpa using h'⟩

theorem brTok_filter {inp v rest : List Char} (h : brTok inp = some (.filter, v, rest)) :
    Spec.skipS inp = '?' :: rest := by
  obtain ⟨c, r, e, hc⟩ := brTok_cases h
  rcases hc with ⟨_, hk, _⟩ | ⟨_, hk, _⟩ | ⟨rfl, _, rfl⟩ | ⟨_, hk, _⟩ | ⟨_, hk, _⟩ | ⟨_, hk, _⟩ | ⟨_, hk, _⟩ |
    ⟨_, _, _, _, _, _, _, hk, _⟩
  all_goals first | exact e | cases hk

theorem brTok_head {inp v rest : List Char} {k : TokKind} (h : brTok inp = some (k, v, rest))
    (hk : k ≠ .filter) : (Spec.skipS inp).head? ≠ some '?' := by
  obtain ⟨c, r, e, hc⟩ := brTok_cases h
  rw [e]
  rcases hc with ⟨rfl, _⟩ | ⟨rfl, _⟩ | ⟨_, hk', _⟩ | ⟨rfl, _⟩ | ⟨rfl, _⟩ | ⟨rfl, _⟩ | ⟨rfl, _⟩ |
    ⟨_, _, h3, _⟩
  all_goals first | (exact absurd hk' hk) | (simp; done) | (simpa using h3)

/-! ### selectors -/

theorem pSel_step (hg : ¬ Bad lf) (hO : POr lf n) : PSel lf (n + 1) := by
  intro s ts hD hlen d i br x y out hd hcfg hy
  cases hD with
  | leaf _ _ hs =>
    obtain ⟨m, hb, hm⟩ := BCfg.toks hg ts x (y :: out) hs.kinds hcfg
    obtain ⟨rest, hbt, -⟩ := BCfg.next hg hm
    have hfol : Cs.Follow m := by
      rcases hy with hy | hy
      · rw [hy] at hbt; exact ⟨rest, .inl (brTok_comma hbt)⟩
      · rw [hy] at hbt; exact ⟨rest, .inr (brTok_rbracket hbt)⟩
    obtain ⟨csel, r', hsel, habs, hsk⟩ := sel_pure hs hb hfol
    have hq : (Spec.skipS x).head? ≠ some '?' := by
      have hpos := hs.length_pos
      cases ts with
      | nil => simp at hpos
      | cons t0 ts0 =>
        obtain ⟨r0, h1, -⟩ := hb.cons_inv
        exact brTok_head h1 (hs.kinds t0 (by simp)).2
    exact ⟨r', HSel.leaf hsel habs (selector_progress (hsel 0) hq), .inl ⟨m, hsk.symm, hm⟩⟩
  | filter t e ts' hk hor =>
    have hcfg' : BCfg lf d (('[', i) :: br) x (t :: (ts' ++ y :: out)) := by simpa using hcfg
    obtain ⟨rest, hbt, hcs⟩ := BCfg.next hg hcfg'
    rw [hk] at hbt
    have hx := brTok_filter hbt
    rcases hcs with ⟨hk', _⟩ | ⟨_, hf⟩ | ⟨_, hk', _⟩
    · rw [hk] at hk'; cases hk'
    · obtain ⟨r2, hO', hc2⟩ := hO e ts' hor (by simp at hlen; omega) (d + 1) _ rest y out (by omega) hf
        (by rcases hy with hy | hy <;> rw [hy] <;> rfl)
      rw [hx]
      exact ⟨r2, HSel.filter hO', .inr hc2⟩
    · exact absurd hk hk'

theorem pMoreSels_step (hg : ¬ Bad lf) (hS : PSel lf n) (hM : PMoreSels lf n) : PMoreSels lf (n + 1) := by
  intro ss ts hD hlen d i br r2 rb out hd hcfg hrb
  cases hD with
  | nil =>
    obtain ⟨rest, hr, hs⟩ := ECfg.rbracket hg (by simpa using hcfg) hrb
    refine ⟨r2, rest, HMoreSels.nil ?_, hr, hs⟩
    intro t e; rw [e] at hr; cases hr
  | cons c s ss t1 t2 hc hs hm =>
    have hcfg' : ECfg lf d i br r2 (c :: (t1 ++ (t2 ++ rb :: out))) := by simpa using hcfg
    obtain ⟨r, hx, hb⟩ := ECfg.comma hg hcfg' hc
    obtain ⟨y, ys, ey, hy⟩ := hm.head rb out hrb
    rw [ey] at hb
    obtain ⟨r2', hS', he⟩ := hS s t1 hs (by simp at hlen; omega) d i br r y ys hd hb hy
    rw [← ey] at he
    obtain ⟨r3, rest, hM', hr3, hsc⟩ := hM ss t2 hm (by simp at hlen; omega) d i br r2' rb out hd he hrb
    exact ⟨r3, rest, HMoreSels.cons hx hS' hM', hr3, hsc⟩

theorem pSels_step (hg : ¬ Bad lf) (hS1 : PSel lf (n + 1)) (hM1 : PMoreSels lf (n + 1)) :
    PSels lf (n + 1) := by
  intro ss ts hD hlen d i br x rb out hd hcfg hrb
  cases hD with
  | mk s ss t1 t2 hs hm =>
    have hcfg' : BCfg lf d (('[', i) :: br) x (t1 ++ (t2 ++ rb :: out)) := by simpa using hcfg
    obtain ⟨y, ys, ey, hy⟩ := hm.head rb out hrb
    rw [ey] at hcfg'
    obtain ⟨r2, hS', he⟩ := hS1 s t1 hs (by simp at hlen; omega) d i br x y ys hd hcfg' hy
    rw [← ey] at he
    obtain ⟨r3, rest, hM', hr3, hsc⟩ := hM1 ss t2 hm (by simp at hlen; omega) d i br r2 rb out hd he hrb
    exact ⟨rest, HBrk.mk hS' hM' hr3, hsc⟩

end JPV.Proofs.Sf
