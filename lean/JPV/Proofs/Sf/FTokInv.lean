/-
`Proofs.Sf.FTokInv` — the emitted-token view of `flt_next`, and inversion of the pure model `fTok` by
token kind: what the text looks like when the filter state reads a token of a given kind.
-/
import JPV.Proofs.Sf.LexFltNext
set_option linter.unusedSimpArgs false
set_option linter.unusedVariables false
namespace JPV.Proofs.Sf
open JPV JPV.Impl JPV.Proofs.Rq JPV.Proofs.Cs JPV.Proofs.Ss

variable {l lf : Lexer} {pre cur rest inp x : List Char} {toks : List Token} {br : List (Char × Nat)} {d : Int}

/-! ### the emitted-token view -/

theorem FltPost.peel {s0 : LState} {l0 l' : Lexer} {toks' : List Token} {k : TokKind} {t y : Token}
    {out' : List Token} (h : FltPost (fun s l' => Halts s l' lf) d br toks' k rest l')
    (he : Emits s0 l0 (t :: out') lf) (ht : toks' = y :: l0.toks) :
    t = y ∧ FltPost (fun s l' => Emits s l' out' lf) d br toks' k rest l' := by
  have key : ∀ {s' : LState}, Halts s' l' lf → l'.toks = toks' → t = y ∧ Emits s' l' out' lf := by
    intro s' hh' htk
    obtain ⟨o, eo, he'⟩ := he.peel hh' (by rw [htk, ht])
    simp only [List.cons.injEq] at eo
    obtain ⟨rfl, rfl⟩ := eo
    exact ⟨rfl, he'⟩
  rcases h with ⟨hk, i, br', pre', e, h', hh'⟩ | ⟨hk, i, br', pre', e, h', hh'⟩ | ⟨hk, hb, pre', h', hh'⟩ |
    ⟨hk, i, pre', h', hh'⟩ | ⟨hk, i, br', pre', e, h', hh'⟩ | ⟨hk, pre', h', hh'⟩ |
    ⟨k1, k2, k3, k4, k5, k6, k7, pre', h', hh'⟩
  · obtain ⟨e1, he'⟩ := key hh' h'.toks
    exact ⟨e1, .inl ⟨hk, i, br', pre', e, h', he'⟩⟩
  · obtain ⟨e1, he'⟩ := key hh' h'.toks
    exact ⟨e1, .inr (.inl ⟨hk, i, br', pre', e, h', he'⟩)⟩
  · obtain ⟨e1, he'⟩ := key hh' h'.toks
    exact ⟨e1, .inr (.inr (.inl ⟨hk, hb, pre', h', he'⟩))⟩
  · obtain ⟨e1, he'⟩ := key hh' h'.toks
    exact ⟨e1, .inr (.inr (.inr (.inl ⟨hk, i, pre', h', he'⟩)))⟩
  · obtain ⟨e1, he'⟩ := key hh' h'.toks
    exact ⟨e1, .inr (.inr (.inr (.inr (.inl ⟨hk, i, br', pre', e, h', he'⟩))))⟩
  · obtain ⟨e1, he'⟩ := key hh' h'.toks
    exact ⟨e1, .inr (.inr (.inr (.inr (.inr (.inl ⟨hk, pre', h', he'⟩)))))⟩
  · obtain ⟨e1, he'⟩ := key hh' h'.toks
    exact ⟨e1, .inr (.inr (.inr (.inr (.inr (.inr ⟨k1, k2, k3, k4, k5, k6, k7, pre', h', he'⟩)))))⟩

theorem skipS_dot (r : List Char) : Spec.skipS ('.' :: r) = '.' :: r := skipS_of_head (by decide)

/-- the next token of a successful run from the filter state -/
theorem flt_next_emits {t : Token} {out' : List Token} (hst : StG d l pre [] inp toks br)
    (he : Emits .filter l (t :: out') lf) (hg : ¬ Bad lf) :
((∃ r, Spec.skipS inp = '.' :: r) ∧ (t.kind = .doubleDot ∨ t.kind = .wild ∨ t.kind = .property)) ∨
    ∃ rest l', fTok inp = some (t.kind, t.value, rest) ∧
      FltPost (fun s l' => Emits s l' out' lf) d br (t :: toks) t.kind rest l' := by
  rcases flt_next hst he.halts hg with ⟨r, l', pre', e, h', hh'⟩ | ⟨k, v, rest, n, l', hf, hp⟩
  · left
    refine ⟨⟨r, e⟩, ?_⟩
    have he' := he.same hh' (by rw [h'.toks, hst.toks])
    rcases seg_first_emits h' he' hg with ⟨e0, _⟩ | ⟨r1, l1, pre1, k1, out1, _, eo, _⟩ |
      ⟨r1, l1, pre1, k1, out1, _, eo, _⟩ | ⟨c, r1, n, l1, pre1, k1, out1, _, _, _, eo, _⟩ |
      ⟨r1, l1, pre1, k1, i, out1, e1, _⟩ | ⟨_, c, r1, l1, pre1, e1, hc, _⟩
    · cases e0
    · simp only [List.cons.injEq] at eo; rw [eo.1]; exact .inl rfl
    · simp only [List.cons.injEq] at eo; rw [eo.1]; exact .inr (.inl rfl)
    · simp only [List.cons.injEq] at eo; rw [eo.1]; exact .inr (.inr rfl)
    · rw [skipS_dot] at e1; cases e1
    · rw [skipS_dot] at e1
      simp only [List.cons.injEq] at e1
      exact absurd e1.1.symm hc
  · right
    obtain ⟨e1, hp'⟩ := hp.peel he (by rw [hst.toks])
    subst e1
    exact ⟨rest, l', hf, hp'⟩

/-! ### inversion of the default branch -/

theorem isPrefixOf_split {s x : List Char} (h : s.isPrefixOf x = true) : x = s ++ x.drop s.length := by
  obtain ⟨t, rfl⟩ := List.isPrefixOf_iff_prefix.mp h
  simp

theorem fDefault_cases {k : TokKind} {v rest : List Char} (h : fDefault x = some (k, v, rest)) :
    (k = .and ∧ x = '&' :: '&' :: rest) ∨ (k = .or ∧ x = '|' :: '|' :: rest) ∨
    (k = .true_ ∧ x = "true".toList ++ rest) ∨ (k = .false_ ∧ x = "false".toList ++ rest) ∨
    (k = .null ∧ x = "null".toList ++ rest) ∨
    (k = .float ∧ ∃ n, reFloat x = some n ∧ v = x.take n ∧ rest = x.drop n) ∨
    (k = .int ∧ reFloat x = none ∧ ∃ n, reInt x = some n ∧ v = x.take n ∧ rest = x.drop n) ∨
    (k = .function ∧ reKeyword "true".toList x = none ∧ reKeyword "false".toList x = none ∧
      reKeyword "null".toList x = none ∧ reFloat x = none ∧ reInt x = none ∧
      ∃ n, reFunctionName x = some n ∧ v = x.take n ∧ x.drop n = '(' :: rest) := by
  unfold fDefault at h
  split at h
  · rename_i hp
    cases h
    exact .inl ⟨rfl, isPrefixOf_split hp⟩
  rename_i h1
  split at h
  · rename_i hp
    cases h
    exact .inr (.inl ⟨rfl, isPrefixOf_split hp⟩)
  rename_i h2
  have kwp : ∀ {kw : List Char}, (reKeyword kw x).isSome = true → x = kw ++ x.drop kw.length := by
    intro kw hp
    obtain ⟨m, hm⟩ := Option.isSome_iff_exists.mp hp
    exact isPrefixOf_split (reKeyword_some hm).2
  split at h
  · rename_i hp
    cases h
    exact .inr (.inr (.inl ⟨rfl, kwp hp⟩))
  rename_i h3
  split at h
  · rename_i hp
    cases h
    exact .inr (.inr (.inr (.inl ⟨rfl, kwp hp⟩)))
  rename_i h4
  split at h
  · rename_i hp
    cases h
    exact .inr (.inr (.inr (.inr (.inl ⟨rfl, kwp hp⟩))))
  rename_i h5
  split at h
  · rename_i n hfl
    cases h
    exact .inr (.inr (.inr (.inr (.inr (.inl ⟨rfl, n, hfl, rfl, rfl⟩)))))
  rename_i hfl
  split at h
  · rename_i n hin
    cases h
    exact .inr (.inr (.inr (.inr (.inr (.inr (.inl ⟨rfl, hfl, n, hin, rfl, rfl⟩))))))
  rename_i hin
  split at h
  · rename_i n hfn
    split at h
    · rename_i hp
      cases h
      refine .inr (.inr (.inr (.inr (.inr (.inr (.inr ⟨rfl, Option.not_isSome_iff_eq_none.mp h3, Option.not_isSome_iff_eq_none.mp h4,
        Option.not_isSome_iff_eq_none.mp h5, hfl, hin, n, hfn, rfl, ?_⟩))))))
      cases hx : x.drop n with
      | nil => rw [hx] at hp; cases hp
      | cons c r' =>
        rw [hx] at hp
        simp only [List.head?_cons, Option.some.injEq] at hp
        subst hp
        rfl
    · cases h
  · cases h

/-! ### inversion of `fTok` -/

theorem fTok_cases {k : TokKind} {v rest : List Char} (h : fTok inp = some (k, v, rest)) :
    ∃ c r, Spec.skipS inp = c :: r ∧
      ((c = ']' ∧ k = .rbracket ∧ rest = r) ∨ (c = ',' ∧ k = .comma ∧ rest = r) ∨
       (c = '\'' ∧ k = .sqString ∧ scanString '\'' r = some (v, rest)) ∨
       (c = '"' ∧ k = .dqString ∧ scanString '"' r = some (v, rest)) ∨
       (c = '(' ∧ k = .lparen ∧ rest = r) ∨ (c = ')' ∧ k = .rparen ∧ rest = r) ∨
       (c = '$' ∧ k = .root ∧ rest = r) ∨ (c = '@' ∧ k = .current ∧ rest = r) ∨
       (c = '!' ∧ k = .ne ∧ r = '=' :: rest) ∨ (c = '!' ∧ k = .not ∧ rest = r ∧ r.head? ≠ some '=') ∨
       (c = '=' ∧ k = .eq ∧ r = '=' :: rest) ∨
       (c = '<' ∧ k = .le ∧ r = '=' :: rest) ∨ (c = '<' ∧ k = .lt ∧ rest = r ∧ r.head? ≠ some '=') ∨
       (c = '>' ∧ k = .ge ∧ r = '=' :: rest) ∨ (c = '>' ∧ k = .gt ∧ rest = r ∧ r.head? ≠ some '=') ∨
       (c ≠ ']' ∧ c ≠ ',' ∧ c ≠ '\'' ∧ c ≠ '"' ∧ c ≠ '(' ∧ c ≠ ')' ∧ c ≠ '$' ∧ c ≠ '@' ∧ c ≠ '.' ∧ c ≠ '!' ∧
         c ≠ '=' ∧ c ≠ '<' ∧ c ≠ '>' ∧ fDefault (c :: r) = some (k, v, rest))) := by
  unfold fTok at h
  split at h
  · cases h
  rename_i c r hsk
  refine ⟨c, r, hsk, ?_⟩
  have tl : ∀ {r' : List Char}, r.head? = some '=' → r.tail = r' → r = '=' :: r' := by
    intro r' h1 h2
    cases r with
    | nil => cases h1
    | cons a b => simp at h1 h2; subst h1 h2; rfl
  by_cases c1 : c = ']'
  · rw [if_pos c1] at h
    cases h; exact .inl ⟨c1, rfl, rfl⟩
  rw [if_neg c1] at h
  by_cases c2 : c = ','
  · rw [if_pos c2] at h
    cases h; exact .inr (.inl ⟨c2, rfl, rfl⟩)
  rw [if_neg c2] at h
  by_cases c3 : c = '\''
  · rw [if_pos c3] at h
    cases hs : scanString '\'' r with
    | none => rw [hs] at h; cases h
    | some p => rw [hs] at h; cases h; exact .inr (.inr (.inl ⟨c3, rfl, rfl⟩))
  rw [if_neg c3] at h
  by_cases c4 : c = '"'
  · rw [if_pos c4] at h
    cases hs : scanString '"' r with
    | none => rw [hs] at h; cases h
    | some p => rw [hs] at h; cases h; exact .inr (.inr (.inr (.inl ⟨c4, rfl, rfl⟩)))
  rw [if_neg c4] at h
  by_cases c5 : c = '('
  · rw [if_pos c5] at h
    cases h; exact .inr (.inr (.inr (.inr (.inl ⟨c5, rfl, rfl⟩))))
  rw [if_neg c5] at h
  by_cases c6 : c = ')'
  · rw [if_pos c6] at h
    cases h; exact .inr (.inr (.inr (.inr (.inr (.inl ⟨c6, rfl, rfl⟩)))))
  rw [if_neg c6] at h
  by_cases c7 : c = '$'
  · rw [if_pos c7] at h
    cases h; exact .inr (.inr (.inr (.inr (.inr (.inr (.inl ⟨c7, rfl, rfl⟩))))))
  rw [if_neg c7] at h
  by_cases c8 : c = '@'
  · rw [if_pos c8] at h
    cases h; exact .inr (.inr (.inr (.inr (.inr (.inr (.inr (.inl ⟨c8, rfl, rfl⟩)))))))
  rw [if_neg c8] at h
  by_cases c9 : c = '.'
  · rw [if_pos c9] at h
    cases h
  rw [if_neg c9] at h
  by_cases c10 : c = '!'
  · rw [if_pos c10] at h
    by_cases he : r.head? = some '='
    · rw [if_pos he] at h; cases h; exact .inr (.inr (.inr (.inr (.inr (.inr (.inr (.inr (.inl ⟨c10, rfl, tl he rfl⟩))))))))
    · rw [if_neg he] at h; cases h; exact .inr (.inr (.inr (.inr (.inr (.inr (.inr (.inr (.inr (.inl ⟨c10, rfl, rfl, he⟩)))))))))
  rw [if_neg c10] at h
  by_cases c11 : c = '='
  · rw [if_pos c11] at h
    by_cases he : r.head? = some '='
    · rw [if_pos he] at h; cases h; exact .inr (.inr (.inr (.inr (.inr (.inr (.inr (.inr (.inr (.inr (.inl ⟨c11, rfl, tl he rfl⟩))))))))))
    · rw [if_neg he] at h; cases h
  rw [if_neg c11] at h
  by_cases c12 : c = '<'
  · rw [if_pos c12] at h
    by_cases he : r.head? = some '='
    · rw [if_pos he] at h; cases h; exact .inr (.inr (.inr (.inr (.inr (.inr (.inr (.inr (.inr (.inr (.inr (.inl ⟨c12, rfl, tl he rfl⟩)))))))))))
    · rw [if_neg he] at h; cases h; exact .inr (.inr (.inr (.inr (.inr (.inr (.inr (.inr (.inr (.inr (.inr (.inr (.inl ⟨c12, rfl, rfl, he⟩))))))))))))
  rw [if_neg c12] at h
  by_cases c13 : c = '>'
  · rw [if_pos c13] at h
    by_cases he : r.head? = some '='
    · rw [if_pos he] at h; cases h; exact .inr (.inr (.inr (.inr (.inr (.inr (.inr (.inr (.inr (.inr (.inr (.inr (.inr (.inl ⟨c13, rfl, tl he rfl⟩)))))))))))))
    · rw [if_neg he] at h; cases h; exact .inr (.inr (.inr (.inr (.inr (.inr (.inr (.inr (.inr (.inr (.inr (.inr (.inr (.inr (.inl ⟨c13, rfl, rfl, he⟩))))))))))))))
  rw [if_neg c13] at h
  exact .inr (.inr (.inr (.inr (.inr (.inr (.inr (.inr (.inr (.inr (.inr (.inr (.inr (.inr (.inr (⟨c1, c2, c3, c4, c5, c6, c7, c8, c9, c10, c11, c12, c13, h⟩)))))))))))))))

/-- the fixed text of the punctuation and operator tokens whose text is determined by the kind -/
def punctText : TokKind → Option (List Char)
  | .rbracket => some [']'] | .comma => some [','] | .lparen => some ['('] | .rparen => some [')']
  | .root => some ['$'] | .current => some ['@'] | .ne => some ['!', '='] | .eq => some ['=', '=']
  | .le => some ['<', '='] | .ge => some ['>', '='] | .and => some ['&', '&'] | .or => some ['|', '|']
  | _ => none

theorem fTok_punct {k : TokKind} {v rest s : List Char} (h : fTok inp = some (k, v, rest))
    (hp : punctText k = some s) : Spec.skipS inp = s ++ rest := by
  obtain ⟨c, r, e, hc⟩ := fTok_cases h
  rw [e]
  rcases hc with ⟨rfl, rfl, rfl⟩ | ⟨rfl, rfl, rfl⟩ | ⟨rfl, rfl, hsc⟩ | ⟨rfl, rfl, hsc⟩ | ⟨rfl, rfl, rfl⟩ |
    ⟨rfl, rfl, rfl⟩ | ⟨rfl, rfl, rfl⟩ | ⟨rfl, rfl, rfl⟩ | ⟨rfl, rfl, rfl⟩ | ⟨rfl, rfl, rfl, hne⟩ | ⟨rfl, rfl, rfl⟩ |
    ⟨rfl, rfl, rfl⟩ | ⟨rfl, rfl, rfl, hne⟩ | ⟨rfl, rfl, rfl⟩ | ⟨rfl, rfl, rfl, hne⟩ |
    ⟨c1, c2, c3, c4, c5, c6, c7, c8, c9, c10, c11, c12, c13, hd⟩
  all_goals try (simp only [punctText, Option.some.injEq] at hp; subst hp; rfl)
  all_goals try (simp [punctText] at hp; done)
  rcases fDefault_cases hd with ⟨rfl, hx⟩ | ⟨rfl, hx⟩ | ⟨rfl, hx⟩ | ⟨rfl, hx⟩ | ⟨rfl, hx⟩ | ⟨rfl, n, hfl, rfl, rfl⟩ |
      ⟨rfl, hfl, n, hin, rfl, rfl⟩ | ⟨rfl, ht, hf, hn, hfl, hin, n, hfn, rfl, hdr⟩
  all_goals try (simp only [punctText, Option.some.injEq] at hp; subst hp; exact hx)
  all_goals try (simp [punctText] at hp; done)

/-- `!`, `<`, `>` not followed by `=` -/
theorem fTok_op1 {k : TokKind} {v rest : List Char} {c0 : Char} (h : fTok inp = some (k, v, rest))
    (hk : (k = .not ∧ c0 = '!') ∨ (k = .lt ∧ c0 = '<') ∨ (k = .gt ∧ c0 = '>')) :
    Spec.skipS inp = c0 :: rest ∧ rest.head? ≠ some '=' := by
  obtain ⟨c, r, e, hc⟩ := fTok_cases h
  rw [e]
  rcases hc with ⟨rfl, rfl, rfl⟩ | ⟨rfl, rfl, rfl⟩ | ⟨rfl, rfl, hsc⟩ | ⟨rfl, rfl, hsc⟩ | ⟨rfl, rfl, rfl⟩ |
    ⟨rfl, rfl, rfl⟩ | ⟨rfl, rfl, rfl⟩ | ⟨rfl, rfl, rfl⟩ | ⟨rfl, rfl, rfl⟩ | ⟨rfl, rfl, rfl, hne⟩ | ⟨rfl, rfl, rfl⟩ |
    ⟨rfl, rfl, rfl⟩ | ⟨rfl, rfl, rfl, hne⟩ | ⟨rfl, rfl, rfl⟩ | ⟨rfl, rfl, rfl, hne⟩ |
    ⟨c1, c2, c3, c4, c5, c6, c7, c8, c9, c10, c11, c12, c13, hd⟩
  all_goals try (rcases hk with ⟨hk, rfl⟩ | ⟨hk, rfl⟩ | ⟨hk, rfl⟩ <;> first | (cases hk; done) | exact ⟨rfl, hne⟩)
  rcases fDefault_cases hd with ⟨rfl, hx⟩ | ⟨rfl, hx⟩ | ⟨rfl, hx⟩ | ⟨rfl, hx⟩ | ⟨rfl, hx⟩ | ⟨rfl, n, hfl, rfl, rfl⟩ |
      ⟨rfl, hfl, n, hin, rfl, rfl⟩ | ⟨rfl, ht, hf, hn, hfl, hin, n, hfn, rfl, hdr⟩
  all_goals (rcases hk with ⟨hk, rfl⟩ | ⟨hk, rfl⟩ | ⟨hk, rfl⟩ <;> cases hk)

theorem comparisonOp_lt {r : List Char} (h : r.head? ≠ some '=') : Spec.comparisonOp ('<' :: r) = some (.lt, r) := by
  cases r with
  | nil => rfl
  | cons a b =>
    have : a ≠ '=' := by simpa using h
    rw [Spec.comparisonOp]
    all_goals (intros; simp_all)

theorem comparisonOp_gt {r : List Char} (h : r.head? ≠ some '=') : Spec.comparisonOp ('>' :: r) = some (.gt, r) := by
  cases r with
  | nil => rfl
  | cons a b =>
    have : a ≠ '=' := by simpa using h
    rw [Spec.comparisonOp]
    all_goals (intros; simp_all)

/-- a comparison operator token is a comparison-op of the grammar -/
theorem fTok_cmp {k : TokKind} {v rest : List Char} {op : COp} (h : fTok inp = some (k, v, rest))
    (hb : binaryOp k = some (.cmp op)) : Spec.comparisonOp (Spec.skipS inp) = some (op, rest) := by
  obtain ⟨c, r, e, hc⟩ := fTok_cases h
  rw [e]
  rcases hc with ⟨rfl, rfl, rfl⟩ | ⟨rfl, rfl, rfl⟩ | ⟨rfl, rfl, hsc⟩ | ⟨rfl, rfl, hsc⟩ | ⟨rfl, rfl, rfl⟩ |
    ⟨rfl, rfl, rfl⟩ | ⟨rfl, rfl, rfl⟩ | ⟨rfl, rfl, rfl⟩ | ⟨rfl, rfl, rfl⟩ | ⟨rfl, rfl, rfl, hne⟩ | ⟨rfl, rfl, rfl⟩ |
    ⟨rfl, rfl, rfl⟩ | ⟨rfl, rfl, rfl, hne⟩ | ⟨rfl, rfl, rfl⟩ | ⟨rfl, rfl, rfl, hne⟩ |
    ⟨c1, c2, c3, c4, c5, c6, c7, c8, c9, c10, c11, c12, c13, hd⟩
  all_goals try (simp [binaryOp] at hb; done)
  · simp only [binaryOp, Option.some.injEq, BinOp.cmp.injEq] at hb; subst hb; rfl
  · simp only [binaryOp, Option.some.injEq, BinOp.cmp.injEq] at hb; subst hb; rfl
  · simp only [binaryOp, Option.some.injEq, BinOp.cmp.injEq] at hb; subst hb; rfl
  · simp only [binaryOp, Option.some.injEq, BinOp.cmp.injEq] at hb; subst hb; exact comparisonOp_lt hne
  · simp only [binaryOp, Option.some.injEq, BinOp.cmp.injEq] at hb; subst hb; rfl
  · simp only [binaryOp, Option.some.injEq, BinOp.cmp.injEq] at hb; subst hb; exact comparisonOp_gt hne
  · rcases fDefault_cases hd with ⟨rfl, hx⟩ | ⟨rfl, hx⟩ | ⟨rfl, hx⟩ | ⟨rfl, hx⟩ | ⟨rfl, hx⟩ | ⟨rfl, n, hfl, rfl, rfl⟩ |
      ⟨rfl, hfl, n, hin, rfl, rfl⟩ | ⟨rfl, ht, hf, hn, hfl, hin, n, hfn, rfl, hdr⟩
    all_goals (simp [binaryOp] at hb; done)

end JPV.Proofs.Sf
