/-
C05 — Validity rules: function well-typedness, singular comparands, integer range.

Property text: "For any set of registered function extensions with declared
parameter and result types, a grammatically well-formed query compiles iff it is
well-typed under RFC 9535 section 2.4.3 and all its index and slice integers lie
within the environment's configured range; otherwise compile() raises a
JSONPathError, unknown function names included, and evaluation is never reached.
…"

This file proves the *soundness* direction for every query string and every
registry at once: whatever compile() returns is well-typed (on the AST, for the
registry's own signature table) and within the integer range — so an ill-typed
or out-of-range query never yields a query object, hence evaluation is never
reached.  The completeness direction (every valid query compiles) is decided by
the oracle search against `Spec.Grammar`/`Spec.validCst` (C03) and is not yet a
theorem: `C05_partial`.
-/
import JPV.Impl.Parse
import JPV.Spec.Typing
import JPV.Proofs.ParseTyping
namespace JPV.Props
open JPV

/-- the signature table of an environment -/
def sigsOfEnv (env : Impl.Env) : Spec.Sigs :=
  fun n => (env.func n).map (fun f => ⟨f.argTypes, f.ret⟩)

def C05_sound_statement : Prop :=
  ∀ (env : Impl.Env) (s : Str) (q : Query), Impl.compile env s = .ok q →
    Spec.wtQuery (sigsOfEnv env) q = true ∧ Spec.intsQuery env.minIdx env.maxIdx q = true

theorem C05_partial : C05_sound_statement := Proofs.compile_welltyped

/-- the per-argument check of `check_well_typedness` is the RFC rule, for every
parameter type, on expressions the parser can have built (`Proofs.Built`) -/
theorem C05_arg_rule (env : Impl.Env) (t : Ty) (a : Expr) (h : Proofs.Built env a) :
    Impl.argWellTyped env t a = true ↔
      (match t with
       | .value => Spec.wtComparable (sigsOfEnv env) a = true
       | .logical => Spec.wtTest (sigsOfEnv env) a = true
       | .nodes => Spec.wtNodes (sigsOfEnv env) a = true) := Proofs.argWellTyped_iff env t a h

end JPV.Props
