import JPV.Props.Common
import JPV.Proofs.Eval
import JPV.Proofs.EvalTotalAux
namespace JPV.Proofs
open JPV JPV.Props

namespace ET

/-! ### The typed evaluation lemmas without a depth hypothesis: mutual induction over the AST.
Every evaluation either agrees with the RFC semantics or fails with `recursion`. -/

structure Ctx (env : Impl.Env) (reg : Spec.Registry) (root : Json) (mx : Int) : Prop where
  hc : EnvConforms env reg
  hroot : GoodJ mx root

mutual
theorem test_t (env : Impl.Env) (reg : Spec.Registry) (root : Json) (mx : Int) (C : Ctx env reg root mx) :
    ∀ (e : Expr) (cur : Json), GoodJ mx cur → Spec.wtTest (sigsOf reg) e = true →
      OutE (Impl.evalExpr env root cur e) (fun o => TestRep o (Spec.testOf reg root cur e))
  | .lit v, cur, hcur, hwt => by simp [Spec.wtTest] at hwt
  | .not e, cur, hcur, hwt => by
      simp only [Spec.wtTest] at hwt
      simp only [Impl.evalExpr]
      apply oute_bind (test_t env reg root mx C e cur hcur hwt)
      intro o hr
      apply oute_pure
      left; simp only [Spec.testOf, hr.truthy]
  | .logical op l r, cur, hcur, hwt => by
      simp only [Spec.wtTest, Bool.and_eq_true] at hwt
      simp only [Impl.evalExpr]
      apply oute_bind (test_t env reg root mx C l cur hcur hwt.1)
      intro a hra
      apply oute_bind (test_t env reg root mx C r cur hcur hwt.2)
      intro b hrb
      apply oute_pure
      left
      cases op <;> simp only [Spec.testOf, hra.truthy, hrb.truthy]
  | .cmp op l r, cur, hcur, hwt => by
      simp only [Spec.wtTest, Bool.and_eq_true] at hwt
      simp only [Impl.evalExpr]
      apply oute_bind (val_t env reg root mx C l cur hcur hwt.1)
      intro a hra
      apply oute_bind (val_t env reg root mx C r cur hcur hwt.2)
      intro b hrb
      apply oute_pure
      left
      obtain ⟨ca, wa, fa⟩ := hra.comparand
      obtain ⟨cb, wb, fb⟩ := hrb.comparand
      simp only [Spec.testOf, compare_correct _ _ op ca cb wa wb, fa, fb]
  | .rel q, cur, hcur, hwt => by
      simp only [Spec.wtTest] at hwt
      have h := segs_t env reg root mx C q hwt _ _ (out_single hcur)
      simp only [Impl.evalExpr]
      apply oute_bind (toList_out h)
      rintro ns rfl
      apply oute_pure
      right; exact ⟨_, rfl, by simp only [Spec.testOf]⟩
  | .root q, cur, hcur, hwt => by
      simp only [Spec.wtTest] at hwt
      have h := segs_t env reg root mx C q hwt _ _ (out_single C.hroot)
      simp only [Impl.evalExpr]
      apply oute_bind (toList_out h)
      rintro ns rfl
      apply oute_pure
      right; exact ⟨_, rfl, by simp only [Spec.testOf]⟩
  | .call f args, cur, hcur, hwt => by
      simp only [Spec.wtTest] at hwt
      cases hr : reg f with
      | none => rw [sigsOf_none hr] at hwt; simp at hwt
      | some fn =>
        rw [sigsOf_some hr] at hwt
        simp only [Bool.and_eq_true, Bool.or_eq_true, beq_iff_eq] at hwt
        rcases args_t env reg root mx C args fn.argTypes cur hcur hwt.2 with
          ⟨os, h1, h2, h3, h4⟩ | herr
        · obtain ⟨he, hty, hwf⟩ := call_ok C.hc hr ⟨os, h1, h2⟩ h3 h4
          refine .inl ⟨_, he, ?_⟩
          simp only [Spec.testOf, hr]
          exact testRep_of_ty hty hwt.1
        · exact .inr (call_err C.hc hr herr)
theorem val_t (env : Impl.Env) (reg : Spec.Registry) (root : Json) (mx : Int) (C : Ctx env reg root mx) :
    ∀ (e : Expr) (cur : Json), GoodJ mx cur → Spec.wtComparable (sigsOf reg) e = true →
      OutE (Impl.evalExpr env root cur e) (fun o => ValRep o (Spec.valueOf reg root cur e))
  | .lit v, cur, hcur, hwt => by
      simp only [Spec.wtComparable] at hwt
      simp only [Impl.evalExpr]
      apply oute_ok
      simp only [Spec.valueOf]; exact .val v (scalar_wf hwt)
  | .not e, cur, hcur, hwt => by simp [Spec.wtComparable] at hwt
  | .logical op l r, cur, hcur, hwt => by simp [Spec.wtComparable] at hwt
  | .cmp op l r, cur, hcur, hwt => by simp [Spec.wtComparable] at hwt
  | .rel q, cur, hcur, hwt => by
      simp only [Spec.wtComparable, Bool.and_eq_true] at hwt
      have hg := good_single hcur
      have h := segs_t env reg root mx C q hwt.2 _ _ (out_single hcur)
      simp only [Impl.evalExpr]
      apply oute_bind (toList_out h)
      rintro ns rfl
      apply oute_pure
      simp only [Spec.valueOf]
      exact valRep_of_nodes _ (singular_length q hwt.1 _ hg (by simp))
        (fun n hn => (selectFrom_good q _ hg n hn).1)
  | .root q, cur, hcur, hwt => by
      simp only [Spec.wtComparable, Bool.and_eq_true] at hwt
      have hg := good_single C.hroot
      have h := segs_t env reg root mx C q hwt.2 _ _ (out_single C.hroot)
      simp only [Impl.evalExpr]
      apply oute_bind (toList_out h)
      rintro ns rfl
      apply oute_pure
      simp only [Spec.valueOf]
      exact valRep_of_nodes _ (singular_length q hwt.1 _ hg (by simp))
        (fun n hn => (selectFrom_good q _ hg n hn).1)
  | .call f args, cur, hcur, hwt => by
      simp only [Spec.wtComparable] at hwt
      cases hr : reg f with
      | none => rw [sigsOf_none hr] at hwt; simp at hwt
      | some fn =>
        rw [sigsOf_some hr] at hwt
        simp only [Bool.and_eq_true, beq_iff_eq] at hwt
        rcases args_t env reg root mx C args fn.argTypes cur hcur hwt.2 with
          ⟨os, h1, h2, h3, h4⟩ | herr
        · obtain ⟨he, hty, hwf⟩ := call_ok C.hc hr ⟨os, h1, h2⟩ h3 h4
          refine .inl ⟨_, he, ?_⟩
          simp only [Spec.valueOf, hr]
          exact valRep_of_ty (hty.trans hwt.1) hwf
        · exact .inr (call_err C.hc hr herr)
theorem nodes_t (env : Impl.Env) (reg : Spec.Registry) (root : Json) (mx : Int) (C : Ctx env reg root mx) :
    ∀ (e : Expr) (cur : Json), GoodJ mx cur → Spec.wtNodes (sigsOf reg) e = true →
      OutE (Impl.evalExpr env root cur e) (fun o => o = .nodes (Spec.nodesOf reg root cur e) ∧
        ∀ n ∈ Spec.nodesOf reg root cur e, n.val.WF)
  | .lit v, cur, hcur, hwt => by simp [Spec.wtNodes] at hwt
  | .not e, cur, hcur, hwt => by simp [Spec.wtNodes] at hwt
  | .logical op l r, cur, hcur, hwt => by simp [Spec.wtNodes] at hwt
  | .cmp op l r, cur, hcur, hwt => by simp [Spec.wtNodes] at hwt
  | .rel q, cur, hcur, hwt => by
      simp only [Spec.wtNodes] at hwt
      have hg := good_single hcur
      have h := segs_t env reg root mx C q hwt _ _ (out_single hcur)
      simp only [Impl.evalExpr]
      apply oute_bind (toList_out h)
      rintro ns rfl
      apply oute_pure
      simp only [Spec.nodesOf]
      exact ⟨trivial, fun n hn => (selectFrom_good q _ hg n hn).1⟩
  | .root q, cur, hcur, hwt => by
      simp only [Spec.wtNodes] at hwt
      have hg := good_single C.hroot
      have h := segs_t env reg root mx C q hwt _ _ (out_single C.hroot)
      simp only [Impl.evalExpr]
      apply oute_bind (toList_out h)
      rintro ns rfl
      apply oute_pure
      simp only [Spec.nodesOf]
      exact ⟨trivial, fun n hn => (selectFrom_good q _ hg n hn).1⟩
  | .call f args, cur, hcur, hwt => by
      simp only [Spec.wtNodes] at hwt
      cases hr : reg f with
      | none => rw [sigsOf_none hr] at hwt; simp at hwt
      | some fn =>
        rw [sigsOf_some hr] at hwt
        simp only [Bool.and_eq_true, beq_iff_eq] at hwt
        rcases args_t env reg root mx C args fn.argTypes cur hcur hwt.2 with
          ⟨os, h1, h2, h3, h4⟩ | herr
        · obtain ⟨he, hty, hwf⟩ := call_ok C.hc hr ⟨os, h1, h2⟩ h3 h4
          refine .inl ⟨_, he, ?_⟩
          simp only [Spec.nodesOf, hr]
          exact ⟨nodes_of_ty (hty.trans hwt.1), nodesWF_of_ty hwf⟩
        · exact .inr (call_err C.hc hr herr)
theorem args_t (env : Impl.Env) (reg : Spec.Registry) (root : Json) (mx : Int) (C : Ctx env reg root mx) :
    ∀ (args : List Expr) (tys : List Ty) (cur : Json), GoodJ mx cur →
      Spec.wtArgs (sigsOf reg) tys args = true →
      OutE (Impl.evalArgs env root cur args) (fun os =>
        Impl.unpack tys os = .ok ((Spec.argsOf reg root cur tys args).map argObj) ∧
        (Spec.argsOf reg root cur tys args).map argTy = tys ∧
        ∀ a ∈ Spec.argsOf reg root cur tys args, ArgWF a)
  | [], [], cur, hcur, hwt => by
      simp only [Impl.evalArgs]
      apply oute_ok
      exact ⟨by simp [Impl.unpack, Spec.argsOf], by simp [Spec.argsOf], by simp [Spec.argsOf]⟩
  | [], t :: ts, cur, hcur, hwt => by simp [Spec.wtArgs] at hwt
  | e :: es, [], cur, hcur, hwt => by simp [Spec.wtArgs] at hwt
  | e :: es, t :: ts, cur, hcur, hwt => by
      simp only [Spec.wtArgs, Bool.and_eq_true] at hwt
      have ih := args_t env reg root mx C es ts cur hcur hwt.2
      simp only [Impl.evalArgs]
      cases t with
      | value =>
        apply oute_bind (val_t env reg root mx C e cur hcur hwt.1)
        intro o hr
        apply oute_bind ih
        rintro os ⟨h2, h3, h4⟩
        apply oute_pure
        refine ⟨?_, ?_, ?_⟩
        · simp only [Impl.unpack, h2, Spec.argsOf, List.map_cons, hr.unpack, argObj]; rfl
        · simp only [Spec.argsOf, List.map_cons, h3, argTy]
        · simp only [Spec.argsOf, List.mem_cons]
          rintro a (rfl | ha)
          · exact hr.argWF
          · exact h4 a ha
      | logical =>
        apply oute_bind (test_t env reg root mx C e cur hcur hwt.1)
        intro o hr
        apply oute_bind ih
        rintro os ⟨h2, h3, h4⟩
        apply oute_pure
        refine ⟨?_, ?_, ?_⟩
        · simp only [Impl.unpack, h2, Spec.argsOf, List.map_cons, hr.unpack, argObj]; rfl
        · simp only [Spec.argsOf, List.map_cons, h3, argTy]
        · simp only [Spec.argsOf, List.mem_cons]
          rintro a (rfl | ha)
          · trivial
          · exact h4 a ha
      | nodes =>
        apply oute_bind (nodes_t env reg root mx C e cur hcur hwt.1)
        rintro o ⟨rfl, hr⟩
        apply oute_bind ih
        rintro os ⟨h2, h3, h4⟩
        apply oute_pure
        refine ⟨?_, ?_, ?_⟩
        · simp only [Impl.unpack, h2, Spec.argsOf, List.map_cons, argObj, Impl.unpack1]; rfl
        · simp only [Spec.argsOf, List.map_cons, h3, argTy]
        · simp only [Spec.argsOf, List.mem_cons]
          rintro a (rfl | ha)
          · exact hr
          · exact h4 a ha
theorem sel_t (env : Impl.Env) (reg : Spec.Registry) (root : Json) (mx : Int) (C : Ctx env reg root mx) :
    ∀ (s : Selector) (n : Node), Good mx n → Spec.wtSel (sigsOf reg) s = true →
      Out mx (Impl.evalSel env root s n) (Spec.selectSel reg root s n)
  | .name s, n, hn, _ =>
      out_of_eq (sel_nofilter env reg root _ n (by intro e h; cases h) hn.1)
        (fun m hm => good_kid (j := n.val) hn (mem_selectSel hm))
  | .index i, n, hn, _ =>
      out_of_eq (sel_nofilter env reg root _ n (by intro e h; cases h) hn.1)
        (fun m hm => good_kid (j := n.val) hn (mem_selectSel hm))
  | .slice a b c, n, hn, _ =>
      out_of_eq (sel_nofilter env reg root _ n (by intro e h; cases h) hn.1)
        (fun m hm => good_kid (j := n.val) hn (mem_selectSel hm))
  | .wild, n, hn, _ =>
      out_of_eq (sel_nofilter env reg root _ n (by intro e h; cases h) hn.1)
        (fun m hm => good_kid (j := n.val) hn (mem_selectSel hm))
  | .filter e, n, hn, hwt => by
      simp only [Spec.wtSel] at hwt
      simp only [Impl.evalSel, Spec.selectSel, children_eq]
      apply out_filterChildren
      · intro c hc
        exact good_kid (j := n.val) hn (mem_children hc)
      · intro c hc
        have hcg : GoodJ mx c.val := good_kid (j := n.val) hn (mem_children hc)
        exact oute_map (test_t env reg root mx C e c.val hcg hwt) (fun o hr => hr.truthy)
theorem sels_t (env : Impl.Env) (reg : Spec.Registry) (root : Json) (mx : Int) (C : Ctx env reg root mx) :
    ∀ (ss : List Selector), Spec.wtSels (sigsOf reg) ss = true →
      SelsOut env reg root mx ss
  | [], _ => fun n _ => out_nil
  | s :: ss, hwt => by
      simp only [Spec.wtSels, Bool.and_eq_true] at hwt
      intro n hn
      simp only [Impl.evalSels, Spec.selectSels]
      exact out_append (sel_t env reg root mx C s n hn hwt.1) (sels_t env reg root mx C ss hwt.2 n hn)
theorem seg_t (env : Impl.Env) (reg : Spec.Registry) (root : Json) (mx : Int) (C : Ctx env reg root mx) :
    ∀ (seg : Segment), Spec.wtSeg (sigsOf reg) seg = true →
      ∀ (s : Impl.Stream) (NS : List Node), Out mx s NS →
      Out mx (Impl.evalSeg env root seg s) (Spec.selectSeg reg root seg NS)
  | .child ss, hwt => by
      simp only [Spec.wtSeg] at hwt
      exact fun s NS h => seg_child_out (sels_t env reg root mx C ss hwt) h
  | .desc ss, hwt => by
      simp only [Spec.wtSeg] at hwt
      exact fun s NS h => seg_desc_out (sels_t env reg root mx C ss hwt) h
theorem segs_t (env : Impl.Env) (reg : Spec.Registry) (root : Json) (mx : Int) (C : Ctx env reg root mx) :
    ∀ (q : List Segment), Spec.wtQuery (sigsOf reg) q = true →
      ∀ (s : Impl.Stream) (NS : List Node), Out mx s NS →
      Out mx (Impl.evalSegs env root q s) (Spec.selectFrom reg root q NS)
  | [], _ => fun s NS h => h
  | seg :: q, hwt => by
      simp only [Spec.wtQuery, Bool.and_eq_true] at hwt
      intro s NS h
      simp only [Impl.evalSegs, Spec.selectFrom]
      exact segs_t env reg root mx C q hwt.2 _ _ (seg_t env reg root mx C seg hwt.1 s NS h)
end

/-- Whatever the depth of the value: the RFC nodelist, or `recursion`. -/
theorem find_total (env : Impl.Env) (reg : Spec.Registry) (q : Query) (v : Json)
    (hc : EnvConforms env reg) (hwt : Spec.wtQuery (sigsOf reg) q = true) (hwf : v.WF) :
    Impl.find env q v = .ok (Spec.select reg q v) ∨ Impl.find env q v = .error .recursion := by
  have hg : GoodJ (v.depth : Int) v := ⟨hwf, Int.le_refl _⟩
  have h := segs_t env reg v v.depth ⟨hc, hg⟩ q hwt _ _ (out_single hg)
  rcases h.2 with h | h
  · exact .inl (find_of_segs h)
  · right
    simp only [Impl.find, Impl.finditer, Impl.Stream.toList, h]

end ET

/-- Evaluation is total for well-typed queries whatever the depth of the value: it completes with the
RFC nodelist, or it raises JSONPathRecursionError (and then the value is nested deeper than the limit
somewhere a descendant segment looks). -/
theorem eval_total : ∀ (env : Impl.Env) (reg : Spec.Registry) (q : Query) (v : Json),
    EnvConforms env reg → Spec.wtQuery (sigsOf reg) q = true → v.WF → 1 ≤ env.maxDepth →
    Impl.find env q v = .ok (Spec.select reg q v) ∨
    (Impl.find env q v = .error .recursion ∧ env.maxDepth < (v.depth : Int)) := by
  intro env reg q v hc hwt hwf h1
  by_cases hd : (v.depth : Int) ≤ env.maxDepth
  · exact .inl (eval_correct env reg q v hc hwt hwf hd h1)
  · rcases ET.find_total env reg q v hc hwt hwf with h | h
    · exact .inl h
    · exact .inr ⟨h, by omega⟩

end JPV.Proofs
