/-
Line-protocol driver for the correspondence check (Tie B).  Each request line is
`<op>\t<field>\t…`; each reply is one line.  The functions called here are the
very definitions the theorems are about.
-/
import Std.Data.HashSet
import JPV.Wire
import JPV.Spec.Semantics
import JPV.Impl.Parse
import JPV.Spec.Valid
import JPV.Spec.NormalizedPath
import JPV.Impl.Serialize
import JPV.Impl.Api
import JPV.Impl.Cli
import JPV.Impl.NonDet
import JPV.Spec.NonDet
import JPV.Spec.IRegexp
import JPV.Impl.Regex
import JPV.Impl.Graph
import JPV.Impl.NdGraph
namespace JPV.Driver
open JPV.Wire

/-- probe bodies shared with the harness: `pick k` returns its k-th argument
unchanged; `const` returns a constant of the declared result type. -/
def pickBody (k : Nat) : List Impl.Obj → Except Impl.ErrKind Impl.Obj
  | as => match as[k]? with
    | some a => .ok a
    | none => .error (.py "IndexError")

def constObj : Ty → Impl.Obj
  | .value => .val (.num (Num.ofInt 7))
  | .logical => .val (.bool true)
  | .nodes => .nodes []

def constArg : Ty → Spec.Arg
  | .value => .value (some (.num (Num.ofInt 7)))
  | .logical => .logical true
  | .nodes => .nodes []

structure FnDesc where
  name : Str
  argTypes : List Ty
  ret : Ty
  body : String

def FnDesc.toImpl (d : FnDesc) : Impl.Func :=
  match d.body with
  | "length" => Impl.lengthFunc
  | "count" => Impl.countFunc
  | "value" => Impl.valueFunc
  | "const" => ⟨d.argTypes, d.ret, fun _ => .ok (constObj d.ret)⟩
  | b =>
    if b.startsWith "pick" then
      ⟨d.argTypes, d.ret, pickBody ((b.drop 4).toString.toNat!)⟩
    else ⟨d.argTypes, d.ret, fun _ => .error (.py "UnknownBody")⟩

def FnDesc.toSpec (d : FnDesc) : Spec.Fn :=
  match d.body with
  | "length" => Spec.lengthFn
  | "count" => Spec.countFn
  | "value" => Spec.valueFn
  | "const" => ⟨d.argTypes, d.ret, fun _ => constArg d.ret⟩
  | b =>
    if b.startsWith "pick" then
      ⟨d.argTypes, d.ret, fun as => (as[(b.drop 4).toString.toNat!]?).getD (constArg d.ret)⟩
    else ⟨d.argTypes, d.ret, fun _ => constArg d.ret⟩

structure EnvDesc where
  maxDepth : Int
  minIdx : Int
  maxIdx : Int
  nondet : Bool
  fns : List FnDesc

def EnvDesc.toImpl (e : EnvDesc) : Impl.Env :=
  { maxDepth := e.maxDepth, minIdx := e.minIdx, maxIdx := e.maxIdx, nondet := e.nondet,
    funcs := e.fns.map (fun d => (d.name, d.toImpl)) }

def EnvDesc.toSpec (e : EnvDesc) : Spec.Registry := fun name =>
  (e.fns.find? (fun d => d.name = name)).map FnDesc.toSpec

def decFn : Sexp → Option FnDesc
  | .list [.atom "fn", .atom name, .list tys, .atom ret, .atom body] => do
      let n ← decStr name
      let ts ← tys.mapM (fun | .atom t => decTy t | _ => none)
      let r ← decTy ret
      pure ⟨n, ts, r, body⟩
  | _ => none

def decEnv : Sexp → Option EnvDesc
  | .list (.atom "env" :: .atom md :: .atom lo :: .atom hi :: .atom nd :: fns) => do
      let md ← md.toInt?
      let lo ← lo.toInt?
      let hi ← hi.toInt?
      let fs ← fns.mapM decFn
      pure ⟨md, lo, hi, nd = "1", fs⟩
  | _ => none

def encObj : Impl.Obj → String
  | .nodes ns => "(nodes " ++ encNodes ns ++ ")"
  | .nothing => "nothing"
  | .val v => "(val " ++ encJson v ++ ")"

def encStream (s : Impl.Stream) : String :=
  "stream\t" ++ encNodes s.1 ++ "\t" ++ (match s.2 with | none => "end" | some e => "err " ++ encErr e)

def tokKindName : Impl.TokKind → String
  | .eof => "EOF" | .error => "ERROR" | .init => "INIT" | .colon => "COLON" | .comma => "COMMA"
  | .doubleDot => "DOUBLE_DOT" | .filter => "FILTER" | .index => "INDEX" | .lbracket => "LBRACKET"
  | .property => "PROPERTY" | .rbracket => "RBRACKET" | .root => "ROOT" | .wild => "WILD"
  | .and => "AND" | .current => "CURRENT" | .dqString => "DOUBLE_QUOTE_STRING" | .eq => "EQ"
  | .false_ => "FALSE" | .float => "FLOAT" | .function => "FUNCTION" | .ge => "GE" | .gt => "GT"
  | .int => "INT" | .le => "LE" | .lparen => "LPAREN" | .lt => "LT" | .ne => "NE" | .not => "NOT"
  | .null => "NULL" | .or => "OR" | .rparen => "RPAREN" | .sqString => "SINGLE_QUOTE_STRING"
  | .true_ => "TRUE"

def encTok (t : Impl.Token) : String := s!"{tokKindName t.kind}:{t.index}:{encStr t.value}"

def encCompileErr (e : Impl.Err) : String :=
  "err " ++ encErr e.kind ++ " " ++ (match e.offset with | some o => toString o | none => "none")

def builtinFns : List (Str × Impl.Func) :=
  [("length".toList, Impl.lengthFunc), ("count".toList, Impl.countFunc), ("value".toList, Impl.valueFunc)]

def decOp : Sexp → Option Impl.Op
  | .list [.atom "newenv", .atom md, .atom lo, .atom hi, .atom nd] => do
      pure (.newEnv { maxDepth := ← md.toInt?, minIdx := ← lo.toInt?, maxIdx := ← hi.toInt?,
                      nondet := nd = "1", funcs := builtinFns })
  | .list [.atom "register", .atom e, .atom name, .list tys, .atom ret, .atom body] => do
      let d ← decFn (.list [.atom "fn", .atom name, .list tys, .atom ret, .atom body])
      pure (.register (← e.toNat?) d.name d.toImpl)
  | .list [.atom "compile", .atom e, .atom q] => do pure (.compile (← e.toNat?) (← decStr q))
  | .list [.atom "apply", .atom q, .atom doc] => do pure (.apply (← q.toNat?) (← decJsonAll doc))
  | .list [.atom "envfind", .atom e, .atom q, .atom doc] => do
      pure (.envFind (← e.toNat?) (← decStr q) (← decJsonAll doc))
  | .list [.atom "configure", .atom e, .atom md, .atom lo, .atom hi] => do
      pure (.configure (← e.toNat?) (← md.toInt?) (← lo.toInt?) (← hi.toInt?))
  | _ => none

def encOut : Impl.Out → String
  | .compiled q => s!"compiled {q}"
  | .nodes ns => "nodes " ++ encNodes ns
  | .raised k => "raised " ++ encErr k
  | .unit => "unit"
  | .noSuch => "nosuch"

def runHist (w : Impl.World) : List Impl.Op → List String
  | [] => []
  | op :: ops => let r := w.step op; encOut r.2 :: runHist r.1 ops

def decChoice : Sexp → Option Impl.ND.Choice
  | .list (.atom "perm" :: xs) => do pure (.perm (← xs.mapM (fun | .atom a => a.toNat? | _ => none)))
  | .list [.atom "coin", .atom b] => some (.coin (b = "1"))
  | .list (.atom "merge" :: xs) => do pure (.merge (← xs.mapM (fun | .atom a => some (a = "1") | _ => none)))
  | _ => none

def decScript : Sexp → Option Impl.ND.Script
  | .list (.atom "script" :: xs) => xs.mapM decChoice
  | _ => none

def dedup (xs : List String) : List String :=
  (xs.foldl (fun (acc : Std.HashSet String × List String) x =>
    if acc.1.contains x then acc else (acc.1.insert x, x :: acc.2)) ({}, [])).2.reverse

/-- subject with categories: `q<hex>;` string and a parallel comma-separated list of 2-letter categories -/
def decSubject (s cats : String) : Option (List Spec.IRe.CChar) := do
  let cs ← decStr s
  let ks := if cats = "-" then [] else (cats.splitOn ",").map String.toList
  if ks.length ≠ cs.length then none else pure (cs.zip ks)

def handle (fields : List String) : String :=
  match fields with
  | ["iter", env, q, doc] =>
      match (readSexp env).bind decEnv, (readSexp q).bind decQuery, decJsonAll doc with
      | some e, some q, some d => encStream (Impl.finditer e.toImpl q d)
      | _, _, _ => "bad-request"
  | ["rfc.find", env, q, doc] =>
      match (readSexp env).bind decEnv, (readSexp q).bind decQuery, decJsonAll doc with
      | some e, some q, some d => "nodes\t" ++ encNodes (Spec.select e.toSpec q d)
      | _, _, _ => "bad-request"
  | ["callargs", env, ex, root, cur] =>
      match (readSexp env).bind decEnv, (readSexp ex).bind decExpr, decJsonAll root, decJsonAll cur with
      | some e, some (.call f args), some r, some c =>
          let ie := e.toImpl
          match ie.func f with
          | none => "nofunc"
          | some fn =>
            match (Impl.evalArgs ie r c args).bind (Impl.unpack fn.argTypes) with
            | .ok as => "args\t" ++ " ".intercalate (as.map encObj)
            | .error k => "err " ++ encErr k
      | _, _, _, _ => "bad-request"
  | ["py.slice", len, a, b, c] =>
      match len.toNat?, decOptInt a, decOptInt b, decOptInt c with
      | some n, some a, some b, some c =>
          match Py.sliceIndices n a b c with
          | none => "ValueError"
          | some (s, e, st) => s!"{s} {e} {st}\t" ++ " ".intercalate ((Py.range s e st).map toString)
      | _, _, _, _ => "bad-request"
  | ["lex", q] =>
      match decStr q with
      | some s =>
        match Impl.tokenize s with
        | .ok toks => "tokens\t" ++ " ".intercalate (toks.map encTok)
        | .error e => encCompileErr e
      | none => "bad-request"
  | ["compile", env, q] =>
      match (readSexp env).bind decEnv, decStr q with
      | some e, some s =>
        match Impl.compile e.toImpl s with
        | .ok ast => "ok\t" ++ encQuery ast
        | .error err => encCompileErr err
      | _, _ => "bad-request"
  | ["api.glue", env, q] =>
      -- JSONPathQuery.singular_query() / .empty() of the compiled query
      match (readSexp env).bind decEnv, decStr q with
      | some e, some s =>
        match Impl.compile e.toImpl s with
        | .ok ast => s!"glue singular={if Query.isSingular ast then 1 else 0} empty={if ast.isEmpty then 1 else 0}"
        | .error err => encCompileErr err
      | _, _ => "bad-request"
  | ["position", q, off] =>
      match decStr q, off.toNat? with
      | some s, some o => let p := Impl.position s o; s!"{p.1} {p.2}"
      | _, _ => "bad-request"
  | ["decode", kind, v] =>
      match decStr v with
      | some s =>
        match Impl.decodeStringLiteral (if kind = "sq" then .sqString else .dqString) s with
        | .ok r => "ok\t" ++ encStr r
        | .error .syntax => "err JSONPathSyntaxError"
        | .error .indexError => "err PY:IndexError"
      | none => "bad-request"
  | ["py.float", t] =>
      match decStr t with
      | some s =>
        match Py.floatOfText s with
        | some x => s!"{x.n}/{x.d}"
        | none => "ValueError"
      | none => "bad-request"
  | ["rfc.judge", env, q] =>
      match (readSexp env).bind decEnv, decStr q with
      | some e, some s =>
        let sg : Spec.Sigs := fun n => (e.fns.find? (fun d => d.name = n)).map (fun d => ⟨d.argTypes, d.ret⟩)
        match Spec.judge sg e.minIdx e.maxIdx s with
        | (.valid, some c) => "valid\t" ++ encQuery (Spec.abstractSegs c)
        | (.disputed, some c) => "disputed\t" ++ encQuery (Spec.abstractSegs c)
        | (.invalid, some _) => "invalid\tgrammatical"
        | (_, none) => "invalid\tungrammatical"
      | _, _ => "bad-request"
  | ["impl.query", env, q, doc] =>
      match (readSexp env).bind decEnv, decStr q, decJsonAll doc with
      | some e, some s, some d =>
        match Impl.compile e.toImpl s with
        | .ok ast => encStream (Impl.finditer e.toImpl ast d)
        | .error err => encCompileErr err
      | _, _, _ => "bad-request"
  | ["rfc.query", env, q, doc] =>
      match (readSexp env).bind decEnv, decStr q, decJsonAll doc with
      | some e, some s, some d =>
        let sg : Spec.Sigs := fun n => (e.fns.find? (fun d => d.name = n)).map (fun d => ⟨d.argTypes, d.ret⟩)
        match Spec.judge sg e.minIdx e.maxIdx s with
        | (.valid, some c) => "valid\t" ++ encNodes (Spec.select e.toSpec (Spec.abstractSegs c) d)
        | (.disputed, some c) => "disputed\t" ++ encNodes (Spec.select e.toSpec (Spec.abstractSegs c) d)
        | (.invalid, some _) => "invalid\tgrammatical"
        | (_, none) => "invalid\tungrammatical"
      | _, _, _ => "bad-request"
  | ["str", q] =>
      match (readSexp q).bind decQuery with
      | some q => "str\t" ++ encStr (Impl.strQuery q)
      | none => "bad-request"
  | ["canon", v] =>
      match decStr v with
      | some s => "canon\t" ++ encStr (Impl.canonicalString s) ++ "\t" ++ encStr (Spec.normalName s)
      | none => "bad-request"
  | ["py.repr", t] =>
      match decJsonAll t with
      | some (.num x) => "repr\t" ++ encStr (Py.reprFloat x)
      | _ => "bad-request"
  | ["hist", ops] =>
      match readSexp ops with
      | some (.list (.atom "ops" :: xs)) =>
        match xs.mapM decOp with
        | some os =>
          let w0 : Impl.World := { envs := [(0, { funcs := builtinFns })], queries := [] }
          "outs\t" ++ "\t".intercalate (runHist w0 os)
        | none => "bad-request"
      | _ => "bad-request"
  | ["cli", stage, exc, debug] =>
      let r := if stage = "ok" then Impl.Cli.onSuccess else
        Impl.Cli.onException (if stage = "compile" then .compile else .evaluate) exc (debug = "1")
      s!"cli {r.exitCode} {r.stderrLines} {if r.traceback then 1 else 0} {if r.outputWritten then 1 else 0}"
  | ["g.visit", max, root, heap] =>
      -- heap: (heap (id (key child) (key child) ...) ...); key: an encoded string or an integer
      let decKid : Sexp → Option (Key × Nat)
        | .list [.atom k, .atom c] =>
          (match c.toNat? with
           | none => none
           | some cn =>
             (match k.toInt? with
              | some i => some (.idx i, cn)
              | none => (decStr k).map (fun s => (.name s, cn))))
        | _ => none
      let decEntry : Sexp → Option (Nat × List (Key × Nat))
        | .list (.atom i :: kids) => do
            let n ← i.toNat?
            let ks ← kids.mapM decKid
            pure (n, ks)
        | _ => none
      match max.toInt?, root.toNat?, readSexp heap with
      | some mx, some r, some (.list (.atom "heap" :: es)) =>
        match es.mapM decEntry with
        | some tbl =>
          let h : Impl.G.Heap := { kids := fun n => ((tbl.find? (fun e => e.1 = n)).map (·.2)).getD [] }
          let out := Impl.G.visitTop h mx r
          "visited\t" ++ " ".intercalate (out.1.map (fun p => encLoc p.1 ++ "@" ++ toString p.2)) ++ "\t" ++
            (match out.2 with | none => "end" | some e => "err " ++ encErr e)
        | none => "bad-request"
      | _, _, _ => "bad-request"
  | ["g.ndvisit", max, fuel, root, heap, script] =>
      -- heap: (heap (id D|L (key child) ...) ...); child: a container id or `s` (a scalar)
      let decKid : Sexp → Option (Key × Impl.G.Child)
        | .list [.atom k, .atom c] =>
          let ch : Option Impl.G.Child := if c = "s" then some .scalar else c.toNat?.map .ref
          (match ch with
           | none => none
           | some cc =>
             (match k.toInt? with
              | some i => some (.idx i, cc)
              | none => (decStr k).map (fun s => (.name s, cc))))
        | _ => none
      let decEntry : Sexp → Option (Nat × Bool × List (Key × Impl.G.Child))
        | .list (.atom i :: .atom kind :: kids) => do
            let n ← i.toNat?
            let ks ← kids.mapM decKid
            pure (n, kind = "D", ks)
        | _ => none
      match max.toInt?, fuel.toNat?, root.toNat?, readSexp heap, (readSexp script).bind decScript with
      | some mx, some fu, some r, some (.list (.atom "heap" :: es)), some sc =>
        match es.mapM decEntry with
        | some tbl =>
          let h : Impl.G.NdHeap :=
            { kids := fun n => ((tbl.find? (fun e => e.1 = n)).map (·.2.2)).getD [],
              isDict := fun n => ((tbl.find? (fun e => e.1 = n)).map (·.2.1)).getD false }
          let out := Impl.G.ndVisit h mx fu r sc
          "visited\t" ++ " ".intercalate (out.1.map (fun p => encLoc p.1 ++ "@" ++
              (match p.2 with | .scalar => "s" | .ref i => toString i))) ++ "\t" ++
            (match out.2 with | none => "end" | some e => "err " ++ encErr e)
        | none => "bad-request"
      | _, _, _, _, _ => "bad-request"
  | ["nd.find", env, q, doc, script] =>
      match (readSexp env).bind decEnv, (readSexp q).bind decQuery, decJsonAll doc, (readSexp script).bind decScript with
      | some e, some q, some d, some sc =>
        match Impl.ND.find e.toImpl q d sc with
        | .ok ns => "ok\t" ++ encNodes ns
        | .error k => "err " ++ encErr k
      | _, _, _, _ => "bad-request"
  | ["rfc.outcomes", env, q, doc] =>
      match (readSexp env).bind decEnv, (readSexp q).bind decQuery, decJsonAll doc with
      | some e, some q, some d =>
        "outcomes\t" ++ "\t".intercalate (dedup ((Spec.ND.outcomes e.toSpec q d).map encNodes))
      | _, _, _ => "bad-request"
  | ["ireg", pat, subj, cats] =>
      match decStr pat, decSubject subj cats with
      | some p, some s =>
        match Spec.IRe.parse p with
        | none => "invalid"
        | some r => s!"valid {if Spec.IRe.fullMatch r s then 1 else 0} {if Spec.IRe.searchMatch r s then 1 else 0}"
      | _, _ => "bad-request"
  | ["mapre", pat] =>
      match decStr pat with
      | some p => "mapre\t" ++ encStr (Impl.mapRe p)
      | none => "bad-request"
  | ["echo.json", doc] =>
      match decJsonAll doc with
      | some d => encJson d
      | none => "bad-request"
  | ["echo.query", q] =>
      match (readSexp q).bind decQuery with
      | some q => encQuery q
      | none => "bad-request"
  | _ => "bad-op"

partial def loop (h : IO.FS.Stream) (out : IO.FS.Stream) : IO Unit := do
  let line ← h.getLine
  if line.isEmpty then return ()
  let line := (line.dropEndWhile (fun c => c = '\n' || c = '\r')).toString
  out.putStrLn (handle (line.splitOn "\t"))
  loop h out

end JPV.Driver
