/-
Completeness: the per-non-terminal statements (`C…`) and tree-normalisation helpers.
Fuel constants: a non-terminal `X` deriving `s` is recognised with any fuel ≥ 2·|s| + k_X.
-/
import JPV.Proofs.Abnf.Starts
import JPV.Proofs.Abnf.Norm
namespace JPV.Proofs.AbnfP
open JPV JPV.Spec

def CSegs (s : List Char) (c : List CSegment) : Prop :=
  ∀ R fuel, SFol StopTerm R → 2 * s.length + 2 ≤ fuel →
    ∃ c', segments fuel (s ++ R) = some (c', R) ∧ normSegs c' = normSegs c

def CSeg (s : List Char) (c : CSegment) : Prop :=
  ∀ R fuel, HeadP (fun ch => isNameChar ch = false) R → 2 * s.length + 1 ≤ fuel →
    ∃ c', segment fuel (s ++ R) = some (c', R) ∧ normSegs [c'] = normSegs [c]

def CBrk (s : List Char) (c : List CSelector) (fl : Bool) : Prop :=
  ∀ R fuel, 2 * s.length ≤ fuel →
    ∃ c' fl', bracketed fuel (s ++ R) = some (c', fl', R) ∧ normSels c' = normSels c ∧
      normFlag c' fl' = normFlag c fl

def CMSel (s : List Char) (c : List CSelector) : Prop :=
  ∀ R fuel inp, (∃ t, skipS R = ']' :: t) → (inp = s ++ R ∨ inp = skipS (s ++ R)) → 2 * s.length + 2 ≤ fuel →
    ∃ c' R', moreSelectors fuel inp = some (c', R') ∧ skipS R' = skipS R ∧ (s = [] → R' = inp) ∧
      normSels c' = normSels c

def CSel (s : List Char) (c : CSelector) : Prop :=
  ∀ R fuel, SelFollow R → 2 * s.length + 3 ≤ fuel →
    ∃ c' R', selector fuel (s ++ R) = some (c', R') ∧
      (R' = R ∨ (R' = skipS R ∧ ∃ a b d, c = .slice a b d)) ∧ normSel c' = normSel c

def COr (s : List Char) (e : CExpr) : Prop :=
  ∀ R fuel, SFol StopOr R → 2 * s.length + 4 ≤ fuel →
    ∃ e', logicalOr fuel (s ++ R) = some (e', R) ∧ normExpr e' = normExpr e

def CAnd (s : List Char) (e : CExpr) : Prop :=
  ∀ R fuel, SFol StopAnd R → 2 * s.length + 3 ≤ fuel →
    ∃ e', logicalAnd fuel (s ++ R) = some (e', R) ∧ normExpr e' = normExpr e

def CBasic (s : List Char) (e : CExpr) : Prop :=
  ∀ R fuel, SFol StopBasic R → 2 * s.length + 2 ≤ fuel →
    ∃ e', basic fuel (s ++ R) = some (e', R) ∧ normExpr e' = normExpr e

def CParen (s : List Char) (e : CExpr) : Prop :=
  ∀ R fuel, 2 * s.length + 1 ≤ fuel →
    ∃ e', parenExpr fuel (s ++ R) = some (e', R) ∧ normExpr e' = normExpr e

def CTerm (s : List Char) (e : CExpr) : Prop :=
  ∀ R fuel, SFol StopTerm R → 2 * s.length + 1 ≤ fuel →
    ∃ e', term fuel (s ++ R) = some (e', R) ∧ normExpr e' = normExpr e

def CArg (s : List Char) (e : CExpr) : Prop :=
  ∀ R fuel, ArgFollow R → 2 * s.length + 5 ≤ fuel →
    ∃ e', argument fuel (s ++ R) = some (e', R) ∧ normExpr e' = normExpr e

def CMArgs (s : List Char) (c : List CExpr) : Prop :=
  ∀ R fuel, (∃ t, skipS R = ')' :: t) → 2 * s.length + 4 ≤ fuel →
    ∃ c', moreArgs fuel (s ++ R) = some (c', R) ∧ normArgs c' = normArgs c

/-! ### normalisation helpers -/

theorem normSegs_cons_congr {a a' : CSegment} {r r' : List CSegment}
    (h1 : normSegs [a] = normSegs [a']) (h2 : normSegs r = normSegs r') :
    normSegs (a :: r) = normSegs (a' :: r') := by
  cases a <;> cases a' <;> simp_all [normSegs]

theorem normSegs_child {c c' : List CSelector} {fl fl' : Bool} (h1 : normSels c' = normSels c)
    (h2 : normFlag c' fl' = normFlag c fl) : normSegs [.child c' fl'] = normSegs [.child c fl] := by
  simp [normSegs, h1, h2]

theorem normSegs_desc {c c' : List CSelector} (h1 : normSels c' = normSels c) :
    normSegs [.desc c'] = normSegs [.desc c] := by
  simp [normSegs, h1]

theorem normFlag_two (a b : CSelector) (t : List CSelector) (x : Bool) : normFlag (a :: b :: t) x = false := by
  cases a <;> rfl

theorem normSels_eq_nil {c : List CSelector} (h : normSels c = normSels []) : c = [] := by
  cases c with
  | nil => rfl
  | cons a t => simp [normSels] at h

theorem normSels_cons_inv {a : CSelector} {t c : List CSelector} (h : normSels c = normSels (a :: t)) :
    ∃ a' t', c = a' :: t' ∧ normSel a' = normSel a ∧ normSels t' = normSels t := by
  cases c with
  | nil => simp [normSels] at h
  | cons a' t' =>
    simp only [normSels, List.cons.injEq] at h
    exact ⟨a', t', rfl, h.1, h.2⟩

theorem normFlag_single {a a' : CSelector} (h : normSel a' = normSel a) (x : Bool) :
    normFlag [a'] x = normFlag [a] x := by
  cases a <;> cases a' <;> simp_all [normSel, normFlag]

theorem normFlag_slice (a b c : Option Int) (x : Bool) : normFlag [.slice a b c] x = false := rfl

theorem normSel_slice_inv {a b d : Option Int} {c' : CSelector} (h : normSel c' = normSel (.slice a b d)) :
    c' = .slice a b d := by
  cases c' <;> simp_all [normSel]

theorem normExpr_ne_lit {e e' : CExpr} (h : normExpr e' = normExpr e) (hne : ∀ v, e ≠ .lit v) :
    ∀ v, e' ≠ .lit v := by
  intro v hv
  subst hv
  cases e <;> simp [normExpr] at h
  exact hne _ rfl

end JPV.Proofs.AbnfP
