import JPV.Impl.Parse
import JPV.Spec.Grammar
import JPV.Spec.Valid
import JPV.Spec.Typing
import JPV.Proofs.ParseTyping
import JPV.Proofs.SoundStructural
import JPV.Proofs.PrinterFilter
namespace JPV.Proofs
open JPV JPV.Impl

/-- C04 at full strength (parser SOUNDNESS, filters included): whatever string the implementation compiles,
the RFC 9535 grammar derives — verdict `valid`, or `disputed` for the one place where the RFC's ABNF and its
errata disagree (blank space inside the brackets of a singular query used as a comparison operand) — and the
derivation abstracts (parentheses erased) to exactly the query the implementation built.  So no string outside
the grammar is given a meaning. -/
theorem compile_sound (env : Env) (s : Str) (q : Query)
    (h : Impl.compile env s = .ok q) :
    ∃ c, (Spec.parseQuery s = .valid c ∨ Spec.parseQuery s = .disputed c) ∧ Spec.abstractSegs c = q := by
  sorry

end JPV.Proofs
