import JPV.Proofs.NdExh.Reach
import JPV.Proofs.NdRel.Basic
import JPV.Proofs.Ndp.Visit
import JPV.Spec.Typing
/-
Soundness of the enumeration of the reachable set (`ND.findA`): for EVERY choice script, the result
of the scripted evaluator on a filter-free query is one of the listed results.
-/
namespace JPV.Proofs.NdExh
open JPV JPV.Impl JPV.Impl.ND

/-! ### the primitive choices -/

theorem merges_nil {α} (g : List α) : merges [] g = [g] := rfl

theorem merges_cons {α} (x : α) (q g : List α) : merges (x :: q) g = mergesGo x q (merges q) g := rfl

theorem merge_nil_right_inv {α} {a c : List α} (h : Ndp.Merge a [] c) : c = a := by
  generalize hb : ([] : List α) = b at h
  induction h with
  | nil_left b => exact hb.symm
  | nil_right a => rfl
  | left x _ ih => rw [ih hb]
  | right y _ _ => cases hb

theorem merge_nil_left_inv {α} {b c : List α} (h : Ndp.Merge [] b c) : c = b := by
  generalize ha : ([] : List α) = a at h
  induction h with
  | nil_left b => rfl
  | nil_right a => exact ha.symm
  | left x _ _ => cases ha
  | right y _ ih => rw [ih ha]

theorem merges_sound {α} {q g m : List α} (h : Ndp.Merge q g m) : m ∈ merges q g := by
  induction h with
  | nil_left b => simp [merges_nil]
  | nil_right a =>
    cases a with
    | nil => simp [merges_nil]
    | cons x a => simp [merges_cons, mergesGo]
  | @left x a b c h ih =>
    rw [merges_cons]
    cases b with
    | nil =>
      have := merge_nil_right_inv h
      subst this
      simp [mergesGo]
    | cons y g =>
      simp only [mergesGo, List.mem_append, List.mem_map]
      exact Or.inl ⟨c, ih, rfl⟩
  | @right y a b c h ih =>
    cases a with
    | nil =>
      have := merge_nil_left_inv h
      subst this
      simp [merges_nil]
    | cons x q =>
      rw [merges_cons] at ih ⊢
      simp only [mergesGo, List.mem_append, List.mem_map]
      exact Or.inr ⟨c, ih, rfl⟩

theorem mergeQ_mem {α} (q g : List α) (s : Script) : (mergeQ q g s).1 ∈ merges q g :=
  merges_sound (Ndp.mergeQ_merge q g s)

theorem ndChildren_mem (n : Node) (s : Script) : (ndChildren n s).1 ∈ ndChildrenA n := by
  unfold ndChildren ndChildrenA
  cases hv : n.val with
  | obj kvs =>
    simp only
    exact List.mem_map.2 ⟨_, NdRel.mem_perms_iff.2 (NDp.shuffle_perm kvs s), rfl⟩
  | arr xs => simp
  | _ => simp

/-! ### stages -/

/-- the list-monad stage `K` covers the scripted stage `k` -/
def KS (k : Node → Script → Out) (K : KA) : Prop := ∀ n s, (k n s).res ∈ K n

theorem forEach_cons (n : Node) (rest : List Node) (s : Script) (k : Node → Script → Out) :
    forEach (n :: rest) s k =
      match (k n s).err with
      | some e => ⟨(k n s).nodes, some e, (k n s).script⟩
      | none => ⟨(k n s).nodes ++ (forEach rest (k n s).script k).nodes,
          (forEach rest (k n s).script k).err, (forEach rest (k n s).script k).script⟩ := rfl

theorem forEachA_sound {k : Node → Script → Out} {K : KA} (hk : KS k K) :
    ∀ (ns : List Node) (s : Script), (forEach ns s k).res ∈ forEachA K ns := by
  intro ns
  induction ns with
  | nil => intro s; simp [forEach, forEachA, Out.ok, Out.res]
  | cons n rest ih =>
    intro s
    rw [forEach_cons]
    simp only [forEachA, List.mem_flatMap]
    refine ⟨(k n s).res, hk n s, ?_⟩
    cases he : (k n s).err with
    | some e => simp [Out.res, he]
    | none =>
      simp only [Out.res, he, List.mem_map]
      exact ⟨_, ih (k n s).script, rfl⟩

theorem vcn_cons (max : Int) (depth : Nat) (k : Node → Script → Out) (c : Node) (cs : List Node)
    (queue : List (Node × Nat)) (s : Script) (acc : List Node) :
    visitChildrenNow max depth k (c :: cs) queue s acc =
      if isDeep max c (depth + 1) then (queue, ⟨acc, some .recursion, s⟩) else
      match (k c s).err with
      | some e => (queue, ⟨acc ++ (k c s).nodes, some e, (k c s).script⟩)
      | none =>
        visitChildrenNow max depth k cs
          (mergeQ queue ((ndChildren c (k c s).script).1.map (fun g => (g, depth + 2)))
            (ndChildren c (k c s).script).2).1
          (mergeQ queue ((ndChildren c (k c s).script).1.map (fun g => (g, depth + 2)))
            (ndChildren c (k c s).script).2).2
          (acc ++ (k c s).nodes) := rfl

theorem vcnA_sound {k : Node → Script → Out} {K : KA} (hk : KS k K) (max : Int) (depth : Nat) :
    ∀ (cs : List Node) (queue : List (Node × Nat)) (s : Script) (acc : List Node),
      ((visitChildrenNow max depth k cs queue s acc).1,
        (visitChildrenNow max depth k cs queue s acc).2.res) ∈
        visitChildrenNowA max depth K cs queue acc := by
  intro cs
  induction cs with
  | nil => intro queue s acc; simp [visitChildrenNow, visitChildrenNowA, Out.res]
  | cons c cs ih =>
    intro queue s acc
    rw [vcn_cons]
    simp only [visitChildrenNowA]
    by_cases hd : isDeep max c (depth + 1) = true
    · simp [hd, Out.res]
    · rw [if_neg hd, if_neg hd]
      refine List.mem_flatMap.2 ⟨(k c s).res, hk c s, ?_⟩
      cases he : (k c s).err with
      | some e => simp [Out.res, he]
      | none =>
        simp only [Out.res, he]
        refine List.mem_flatMap.2 ⟨_, ndChildren_mem c (k c s).script, ?_⟩
        refine List.mem_flatMap.2 ⟨_, mergeQ_mem _ _ (ndChildren c (k c s).script).2, ?_⟩
        exact ih _ _ _

theorem visitLoop_cons (max : Int) (k : Node → Script → Out) (fuel : Nat) (node : Node) (depth : Nat)
    (queue : List (Node × Nat)) (s : Script) (acc : List Node) :
    visitLoop max k (fuel + 1) ((node, depth) :: queue) s acc =
      if isDeep max node depth then ⟨acc, some .recursion, s⟩ else
      match (k node s).err with
      | some e => ⟨acc ++ (k node s).nodes, some e, (k node s).script⟩
      | none =>
        if (coin (k node s).script).1 then
          match (visitChildrenNow max depth k (ndChildren node (coin (k node s).script).2).1 queue
              (ndChildren node (coin (k node s).script).2).2 (acc ++ (k node s).nodes)).2.err with
          | some e =>
            ⟨(visitChildrenNow max depth k (ndChildren node (coin (k node s).script).2).1 queue
              (ndChildren node (coin (k node s).script).2).2 (acc ++ (k node s).nodes)).2.nodes, some e,
             (visitChildrenNow max depth k (ndChildren node (coin (k node s).script).2).1 queue
              (ndChildren node (coin (k node s).script).2).2 (acc ++ (k node s).nodes)).2.script⟩
          | none =>
            visitLoop max k fuel
              (visitChildrenNow max depth k (ndChildren node (coin (k node s).script).2).1 queue
                (ndChildren node (coin (k node s).script).2).2 (acc ++ (k node s).nodes)).1
              (visitChildrenNow max depth k (ndChildren node (coin (k node s).script).2).1 queue
                (ndChildren node (coin (k node s).script).2).2 (acc ++ (k node s).nodes)).2.script
              (visitChildrenNow max depth k (ndChildren node (coin (k node s).script).2).1 queue
                (ndChildren node (coin (k node s).script).2).2 (acc ++ (k node s).nodes)).2.nodes
        else
          visitLoop max k fuel
            (queue ++ (ndChildren node (coin (k node s).script).2).1.map (fun c => (c, depth + 1)))
            (ndChildren node (coin (k node s).script).2).2 (acc ++ (k node s).nodes) := rfl

theorem visitLoopA_sound {k : Node → Script → Out} {K : KA} (hk : KS k K) (max : Int) :
    ∀ (fuel : Nat) (queue : List (Node × Nat)) (s : Script) (acc : List Node),
      (visitLoop max k fuel queue s acc).res ∈ visitLoopA max K fuel queue acc := by
  intro fuel
  induction fuel with
  | zero => intro queue s acc; simp [visitLoop, visitLoopA, Out.res]
  | succ fuel ih =>
    intro queue s acc
    match queue with
    | [] => simp [visitLoop, visitLoopA, Out.res]
    | (node, depth) :: queue =>
      rw [visitLoop_cons]
      simp only [visitLoopA]
      by_cases hd : isDeep max node depth = true
      · simp [hd, Out.res]
      · rw [if_neg hd, if_neg hd]
        refine List.mem_flatMap.2 ⟨(k node s).res, hk node s, ?_⟩
        cases he : (k node s).err with
        | some e => simp [Out.res, he]
        | none =>
          simp only [Out.res, he]
          refine List.mem_flatMap.2 ⟨_, ndChildren_mem node (coin (k node s).script).2, ?_⟩
          rw [List.mem_append]
          cases hb : (coin (k node s).script).1 with
          | false =>
            right
            simp only [Bool.false_eq_true, if_false]
            exact ih _ _ _
          | true =>
            left
            simp only [if_true]
            have hv := vcnA_sound hk max depth (ndChildren node (coin (k node s).script).2).1 queue
              (ndChildren node (coin (k node s).script).2).2 (acc ++ (k node s).nodes)
            refine List.mem_flatMap.2 ⟨_, hv, ?_⟩
            cases he2 : (visitChildrenNow max depth k (ndChildren node (coin (k node s).script).2).1 queue
              (ndChildren node (coin (k node s).script).2).2 (acc ++ (k node s).nodes)).2.err with
            | some e => simp [Out.res, he2]
            | none =>
              simp only [Out.res, he2]
              exact ih _ _ _

theorem visit_eq (max : Int) (root : Node) (s : Script) (k : Node → Script → Out) :
    visit max root s k =
      match (k root s).err with
      | some e => ⟨(k root s).nodes, some e, (k root s).script⟩
      | none =>
        visitLoop max k (root.val.size + 1) ((ndChildren root (k root s).script).1.map (fun c => (c, 1)))
          (ndChildren root (k root s).script).2 (k root s).nodes := rfl

theorem visitA_sound {k : Node → Script → Out} {K : KA} (hk : KS k K) (max : Int) (root : Node)
    (s : Script) : (visit max root s k).res ∈ visitA max root K := by
  rw [visit_eq]
  simp only [visitA]
  refine List.mem_flatMap.2 ⟨(k root s).res, hk root s, ?_⟩
  cases he : (k root s).err with
  | some e => simp [Out.res, he]
  | none =>
    simp only [Out.res, he]
    refine List.mem_flatMap.2 ⟨_, ndChildren_mem root (k root s).script, ?_⟩
    exact visitLoopA_sound hk max _ _ _ _

/-! ### selectors, segments, queries -/

theorem runSelA_sound (env : Env) (root : Json) {k : Node → Script → Out} {K : KA} (hk : KS k K)
    (sel : Selector) (hs : ∀ e, sel ≠ .filter e) (n : Node) (s : Script) :
    (runSel env root k sel n s).res ∈ runSelA K sel n := by
  cases sel with
  | name nm => simp only [runSel, runSelA]; exact forEachA_sound hk _ _
  | index i => simp only [runSel, runSelA]; exact forEachA_sound hk _ _
  | slice a b c => simp only [runSel, runSelA]; exact forEachA_sound hk _ _
  | wild =>
    simp only [runSel, runSelA, ndMembers]
    exact List.mem_flatMap.2 ⟨_, ndChildren_mem n s, forEachA_sound hk _ _⟩
  | filter e => exact absurd rfl (hs e)

theorem runSels_cons (env : Env) (root : Json) (k : Node → Script → Out) (sel : Selector)
    (sels : List Selector) (n : Node) (s : Script) :
    runSels env root k (sel :: sels) n s =
      match (runSel env root k sel n s).err with
      | some e => ⟨(runSel env root k sel n s).nodes, some e, (runSel env root k sel n s).script⟩
      | none =>
        ⟨(runSel env root k sel n s).nodes ++ (runSels env root k sels n (runSel env root k sel n s).script).nodes,
          (runSels env root k sels n (runSel env root k sel n s).script).err,
          (runSels env root k sels n (runSel env root k sel n s).script).script⟩ := by
  rw [runSels]
  rfl

theorem runSelsA_sound (env : Env) (root : Json) {k : Node → Script → Out} {K : KA} (hk : KS k K) :
    ∀ (sels : List Selector), Spec.filterFreeSels sels = true → ∀ (n : Node) (s : Script),
      (runSels env root k sels n s).res ∈ runSelsA K sels n := by
  intro sels
  induction sels with
  | nil => intro _ n s; simp [runSels, runSelsA, Out.ok, Out.res]
  | cons sel sels ih =>
    intro hf n s
    have hs : ∀ e, sel ≠ .filter e := by
      intro e he; subst he; simp [Spec.filterFreeSels] at hf
    have hf' : Spec.filterFreeSels sels = true := by
      cases sel <;> simp_all [Spec.filterFreeSels]
    rw [runSels_cons]
    simp only [runSelsA]
    refine List.mem_flatMap.2 ⟨_, runSelA_sound env root hk sel hs n s, ?_⟩
    cases he : (runSel env root k sel n s).err with
    | some e => simp [Out.res, he]
    | none =>
      simp only [Out.res, he, List.mem_map]
      exact ⟨_, ih hf' n _, rfl⟩

theorem runSegsA_sound (env : Env) (root : Json) :
    ∀ (segs : List Segment), Spec.filterFree segs = true →
      KS (fun n s => runSegs env root segs n s) (runSegsA env.maxDepth segs) := by
  intro segs
  induction segs with
  | nil => intro _ n s; simp [runSegs, runSegsA, Out.res]
  | cons seg segs ih =>
    intro hf n s
    simp only [Spec.filterFree, List.all_cons, Bool.and_eq_true] at hf
    have ih' := ih hf.2
    cases seg with
    | child sels =>
      simp only [runSegs, runSegsA]
      exact runSelsA_sound env root ih' sels hf.1 n s
    | desc sels =>
      simp only [runSegs, runSegsA]
      exact visitA_sound (fun m s' => runSelsA_sound env root ih' sels hf.1 m s') _ _ _

/-- for EVERY script, the result of a filter-free query is one of the enumerated reachable results -/
theorem findA_sound (env : Env) (q : Query) (v : Json) (hf : Spec.filterFree q = true) (s : Script) :
    ND.find env q v s ∈ findA env q v := by
  have h := runSegsA_sound env v q hf ⟨[], v⟩ s
  simp only at h
  refine List.mem_map.2 ⟨_, h, ?_⟩
  simp only [Res.toExcept, Out.res, ND.find]
  cases he : (runSegs env v q ⟨[], v⟩ s).err <;> rfl

end JPV.Proofs.NdExh
