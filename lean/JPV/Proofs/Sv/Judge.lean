/-
`Proofs.Sv.Judge` — (copy of `Sf.Judge` whose judgements also say that the derivation is GOOD in the sense
of `Sv.Good`: comparison operands are terms, parenthesised arguments meet LogicalType parameters) fuel-free big-step judgements for the RFC 9535 recogniser `Spec.Grammar`, with the
fuel accounting built in: `HOr inp e rest` says that `Spec.logicalOr F inp` returns a derivation that
abstracts to `e`, leaving `rest`, for every `F` that is at least twice the number of characters consumed
plus a constant.  The constants are chosen so that every rule below (one per success path of each grammar
function) composes, and so that `Spec.parseQuery`'s `2 * length + 4` is enough at the top.
Pure grammar reasoning; no lexer, no parser.
-/
import JPV.Spec.Grammar
import JPV.Impl.Parse
import JPV.Proofs.Sf.GjAux
import JPV.Proofs.Sf.Judge
import JPV.Proofs.Sv.Good
namespace JPV.Proofs.Sv
open JPV JPV.Proofs JPV.Proofs.Sf

variable [SigC]

/-! ### the judgements -/

def HTerm (inp : List Char) (e : Expr) (rest : List Char) : Prop :=
  rest.length < inp.length ∧ ∀ F, 2 * inp.length + 2 ≤ F + 2 * rest.length →
    ∃ cx, Spec.term F inp = some (cx, rest) ∧ Spec.abstractExpr cx = e ∧ gExpr cx = true ∧ isTermC cx = true

def HBasic (inp : List Char) (e : Expr) (rest : List Char) : Prop :=
  rest.length < inp.length ∧ ∀ F, 2 * inp.length + 3 ≤ F + 2 * rest.length →
    ∃ cx, Spec.basic F inp = some (cx, rest) ∧ Spec.abstractExpr cx = e ∧ gExpr cx = true ∧
      (isParen cx = true → inp.head? = some '(')

def HAnd (inp : List Char) (e : Expr) (rest : List Char) : Prop :=
  rest.length < inp.length ∧ ∀ F, 2 * inp.length + 4 ≤ F + 2 * rest.length →
    ∃ cx, Spec.logicalAnd F inp = some (cx, rest) ∧ Spec.abstractExpr cx = e ∧ gExpr cx = true ∧
      (isParen cx = true → inp.head? = some '(')

def HOr (inp : List Char) (e : Expr) (rest : List Char) : Prop :=
  rest.length < inp.length ∧ ∀ F, 2 * inp.length + 5 ≤ F + 2 * rest.length →
    ∃ cx, Spec.logicalOr F inp = some (cx, rest) ∧ Spec.abstractExpr cx = e ∧ gExpr cx = true ∧
      (isParen cx = true → inp.head? = some '(')

def HArg (inp : List Char) (b : Bool) (e : Expr) (rest : List Char) : Prop :=
  rest.length < inp.length ∧ ∀ F, 2 * inp.length + 6 ≤ F + 2 * rest.length →
    ∃ cx, Spec.argument F inp = some (cx, rest) ∧ Spec.abstractExpr cx = e ∧ gExpr cx = true ∧
      (isParen cx = true → b = true)

def HMoreArgs (inp : List Char) (as : List Expr) (bs : List Bool) (rest : List Char) : Prop :=
  rest.length ≤ inp.length ∧ ∀ F, 2 * inp.length + 5 ≤ F + 2 * rest.length →
    ∃ cxs, Spec.moreArgs F inp = some (cxs, rest) ∧ Spec.abstractArgs cxs = as ∧ gArgs cxs = true ∧ Flg cxs bs

def HSel (inp : List Char) (s : Selector) (rest : List Char) : Prop :=
  rest.length < inp.length ∧ ∀ F, 2 * inp.length + 4 ≤ F + 2 * rest.length →
    ∃ cs, Spec.selector F inp = some (cs, rest) ∧ Spec.abstractSel cs = s ∧ gSel cs = true

def HMoreSels (inp : List Char) (ss : List Selector) (rest : List Char) : Prop :=
  rest.length ≤ inp.length ∧ ∀ F, 2 * inp.length + 3 ≤ F + 2 * rest.length →
    ∃ css, Spec.moreSelectors F inp = some (css, rest) ∧ Spec.abstractSels css = ss ∧ gSels css = true

def HBrk (inp : List Char) (ss : List Selector) (rest : List Char) : Prop :=
  rest.length < inp.length ∧ ∀ F, 2 * inp.length + 1 ≤ F + 2 * rest.length →
    ∃ css fl, Spec.bracketed F inp = some (css, fl, rest) ∧ Spec.abstractSels css = ss ∧ gSels css = true

def HSeg (inp : List Char) (s : Segment) (rest : List Char) : Prop :=
  rest.length < inp.length ∧ ∀ F, 2 * inp.length + 2 ≤ F + 2 * rest.length →
    ∃ cs, Spec.segment F inp = some (cs, rest) ∧ Spec.abstractSegs [cs] = [s] ∧ gSegs [cs] = true

def HSegs (inp : List Char) (q : Query) (rest : List Char) : Prop :=
  rest.length ≤ inp.length ∧ ∀ F, 2 * inp.length + 3 ≤ F + 2 * rest.length →
    ∃ c, Spec.segments F inp = some (c, rest) ∧ Spec.abstractSegs c = q ∧ gSegs c = true

/-! ### terms -/

/-- a literal that is not the beginning of a function call -/
theorem HTerm.lit {inp rest : List Char} {v : Json} (h : Spec.literal inp = some (v, rest))
    (hlen : rest.length < inp.length) (h1 : inp.head? ≠ some '@') (h2 : inp.head? ≠ some '$')
    (hfn : ∀ name r, Spec.functionName inp ≠ some (name, '(' :: r)) : HTerm inp (.lit v) rest := by
  refine ⟨hlen, fun F hb => ?_⟩
  obtain ⟨f, rfl⟩ : ∃ f, F = f + 1 := ⟨F - 1, by omega⟩
  refine ⟨.lit v, ?_, by rw [Spec.abstractExpr], by simp [gExpr], rfl⟩
  cases inp with
  | nil => simp at hlen
  | cons c t =>
    rw [Pf.term_other _ _ _ (head_ne h1 rfl) (head_ne h2 rfl)]
    split
    · rename_i name r hfe; exact absurd hfe (hfn _ _)
    · rw [h]; rfl

theorem HTerm.rel {r rest : List Char} {q : Query} (h : HSegs r q rest) : HTerm ('@' :: r) (.rel q) rest := by
  obtain ⟨hlen, hF⟩ := h
  refine ⟨by simp only [List.length_cons]; omega, fun F hb => ?_⟩
  simp only [List.length_cons] at hb
  obtain ⟨f, rfl⟩ : ∃ f, F = f + 1 := ⟨F - 1, by omega⟩
  obtain ⟨c, hc, ha, hg⟩ := hF f (by omega)
  refine ⟨.rel c, ?_, by rw [Spec.abstractExpr, ha], by simpa [gExpr] using hg, rfl⟩
  rw [Pf.term_rel, hc]; rfl

theorem HTerm.root {r rest : List Char} {q : Query} (h : HSegs r q rest) : HTerm ('$' :: r) (.root q) rest := by
  obtain ⟨hlen, hF⟩ := h
  refine ⟨by simp only [List.length_cons]; omega, fun F hb => ?_⟩
  simp only [List.length_cons] at hb
  obtain ⟨f, rfl⟩ : ∃ f, F = f + 1 := ⟨F - 1, by omega⟩
  obtain ⟨c, hc, ha, hg⟩ := hF f (by omega)
  refine ⟨.root c, ?_, by rw [Spec.abstractExpr, ha], by simpa [gExpr] using hg, rfl⟩
  rw [Pf.term_root, hc]; rfl

/-- `name "(" S ")"` -/
theorem HTerm.call0 {inp r rest : List Char} {name : Str} (hf : Spec.functionName inp = some (name, '(' :: r))
    (hr : Spec.skipS r = ')' :: rest) : HTerm inp (.call name []) rest := by
  obtain ⟨c, t, rfl, hc, hl, hn⟩ := functionName_inv hf
  have hr' := skipS_le r
  rw [hr] at hr'
  simp only [List.length_cons] at hl hr'
  refine ⟨by simp only [List.length_cons]; omega, fun F hb => ?_⟩
  simp only [List.length_cons] at hb
  obtain ⟨f, rfl⟩ : ∃ f, F = f + 1 := ⟨F - 1, by omega⟩
  refine ⟨.call name [], ?_, by rw [Spec.abstractExpr, Spec.abstractArgs], ?_, rfl⟩
  rotate_left
  · simp only [gExpr, gArgs, Bool.true_and]
    split <;> simp [pOK]
  rw [Pf.term_other _ _ _ (lcalpha_ne hc _) (lcalpha_ne hc _), hf]
  simp only [hr]

/-- `name "(" S argument *(S "," S argument) S ")"` -/
theorem HTerm.call {inp r r2 r3 rest : List Char} {name : Str} {a : Expr} {as : List Expr} {b : Bool}
    {bs : List Bool} (hf : Spec.functionName inp = some (name, '(' :: r))
    (ha : HArg (Spec.skipS r) b a r2) (hm : HMoreArgs r2 as bs r3) (hr : Spec.skipS r3 = ')' :: rest)
    (hok : callOK name (b :: bs) = true) :
    HTerm inp (.call name (a :: as)) rest := by
  obtain ⟨c, t, rfl, hc, hl, hn⟩ := functionName_inv hf
  obtain ⟨hal, haF⟩ := ha
  obtain ⟨hml, hmF⟩ := hm
  have hr' := skipS_le r3
  rw [hr] at hr'
  have hr1 := skipS_le r
  simp only [List.length_cons] at hl hr'
  refine ⟨by simp only [List.length_cons]; omega, fun F hb => ?_⟩
  simp only [List.length_cons] at hb
  obtain ⟨f, rfl⟩ : ∃ f, F = f + 1 := ⟨F - 1, by omega⟩
  obtain ⟨ca, hca, haa, hga, hpa⟩ := haF f (by omega)
  obtain ⟨cm, hcm, hma, hgm, hfm⟩ := hmF f (by omega)
  refine ⟨.call name (ca :: cm), ?_, by rw [Spec.abstractExpr, Spec.abstractArgs, haa, hma], ?_, rfl⟩
  · exact term_call (lcalpha_ne hc _) (lcalpha_ne hc _) hf hca hcm hr
  · simp only [gExpr, gArgs, hga, hgm, Bool.true_and]
    unfold callOK at hok
    split
    · rename_i s hs
      rw [hs] at hok
      exact pOK_of_fOK _ _ _ hok ⟨hpa, hfm⟩
    · rfl

/-! ### basic expressions -/

theorem HBasic.test {inp r : List Char} {e : Expr} (h : HTerm inp e r) (hl : Impl.isLiteral e = false)
    (hc : Spec.comparisonOp (Spec.skipS r) = none)
    (h1 : inp.head? ≠ some '!') (h2 : inp.head? ≠ some '(') : HBasic inp e r := by
  obtain ⟨hlen, hF⟩ := h
  refine ⟨hlen, fun F hb => ?_⟩
  obtain ⟨f, rfl⟩ : ∃ f, F = f + 1 := ⟨F - 1, by omega⟩
  obtain ⟨cx, hcx, ha, hg, ht⟩ := hF f (by omega)
  refine ⟨cx, ?_, ha, hg, fun hp => by rw [isTermC_not_paren ht] at hp; cases hp⟩
  cases inp with
  | nil => simp at hlen
  | cons c t =>
    rw [Pf.basic_other _ _ _ (head_ne h1 rfl) (head_ne h2 rfl), hcx]
    simp only [hc]
    have := notLit_of_abs ha hl
    cases cx <;> first | rfl | exact absurd rfl (this _)

theorem HBasic.cmp {inp r1 r2 rest : List Char} {l r : Expr} {op : COp} (hl : HTerm inp l r1)
    (hc : Spec.comparisonOp (Spec.skipS r1) = some (op, r2)) (hr : HTerm (Spec.skipS r2) r rest)
    (h1 : inp.head? ≠ some '!') (h2 : inp.head? ≠ some '(') : HBasic inp (.cmp op l r) rest := by
  obtain ⟨hll, hlF⟩ := hl
  obtain ⟨hrl, hrF⟩ := hr
  have s1 := skipS_le r1
  have s2 := skipS_le r2
  have s3 := comparisonOp_length hc
  refine ⟨by omega, fun F hb => ?_⟩
  obtain ⟨f, rfl⟩ : ∃ f, F = f + 1 := ⟨F - 1, by omega⟩
  obtain ⟨cl, hcl, hla, hgl, htl⟩ := hlF f (by omega)
  obtain ⟨cr, hcr, hra, hgr, htr⟩ := hrF f (by omega)
  refine ⟨.cmp op cl cr, ?_, by rw [Spec.abstractExpr, hla, hra], by simp [gExpr, hgl, hgr, htl, htr],
    fun hp => by simp [isParen] at hp⟩
  cases inp with
  | nil => simp at hll
  | cons c t =>
    rw [Pf.basic_other _ _ _ (head_ne h1 rfl) (head_ne h2 rfl), hcl]
    simp only [hc, hcr]

/-- `"(" S logical-or-expr S ")"` -/
theorem HBasic.paren {r r2 rest : List Char} {e : Expr} (h : HOr (Spec.skipS r) e r2)
    (hr : Spec.skipS r2 = ')' :: rest) : HBasic ('(' :: r) e rest := by
  obtain ⟨hlen, hF⟩ := h
  have s1 := skipS_le r
  have s2 := skipS_le r2
  rw [hr] at s2
  simp only [List.length_cons] at s2
  refine ⟨by simp only [List.length_cons]; omega, fun F hb => ?_⟩
  simp only [List.length_cons] at hb
  obtain ⟨f, rfl⟩ : ∃ f, F = f + 2 := ⟨F - 2, by omega⟩
  obtain ⟨cx, hcx, ha, hg, -⟩ := hF f (by omega)
  refine ⟨.paren cx, ?_, by rw [Spec.abstractExpr, ha], by simpa [gExpr] using hg, fun _ => rfl⟩
  rw [Pf.basic_paren]
  exact parenExpr_cons hcx hr

/-- `"!" S "(" S logical-or-expr S ")"` -/
theorem HBasic.notParen {r r' r2 rest : List Char} {e : Expr} (hb : r.head? ≠ some '=')
    (hp : Spec.skipS r = '(' :: r') (h : HOr (Spec.skipS r') e r2) (hr : Spec.skipS r2 = ')' :: rest) :
    HBasic ('!' :: r) (.not e) rest := by
  obtain ⟨hlen, hF⟩ := h
  have s0 := skipS_le r
  rw [hp] at s0
  have s1 := skipS_le r'
  have s2 := skipS_le r2
  rw [hr] at s2
  simp only [List.length_cons] at s0 s2
  refine ⟨by simp only [List.length_cons]; omega, fun F hF' => ?_⟩
  simp only [List.length_cons] at hF'
  obtain ⟨f, rfl⟩ : ∃ f, F = f + 2 := ⟨F - 2, by omega⟩
  obtain ⟨cx, hcx, ha, hg, -⟩ := hF f (by omega)
  refine ⟨.not (.paren cx), ?_, by rw [Spec.abstractExpr, Spec.abstractExpr, ha], by simpa [gExpr] using hg,
    fun hp => by simp [isParen] at hp⟩
  rw [basic_bang_paren' hb hp, parenExpr_cons hcx hr]
  rfl

/-- `"!" S (filter-query / function-expr)` -/
theorem HBasic.notTerm {r rest : List Char} {e : Expr} (hb : r.head? ≠ some '=')
    (h : HTerm (Spec.skipS r) e rest) (hl : Impl.isLiteral e = false)
    (hp : (Spec.skipS r).head? ≠ some '(') : HBasic ('!' :: r) (.not e) rest := by
  obtain ⟨hlen, hF⟩ := h
  have s0 := skipS_le r
  refine ⟨by simp only [List.length_cons]; omega, fun F hF' => ?_⟩
  simp only [List.length_cons] at hF'
  obtain ⟨f, rfl⟩ : ∃ f, F = f + 1 := ⟨F - 1, by omega⟩
  obtain ⟨cx, hcx, ha, hg, -⟩ := hF f (by omega)
  refine ⟨.not cx, ?_, by rw [Spec.abstractExpr, ha], by simpa [gExpr] using hg,
    fun hp => by simp [isParen] at hp⟩
  rw [basic_bang_term' hb hp, hcx]
  have := notLit_of_abs ha hl
  cases cx <;> first | rfl | exact absurd rfl (this _)

/-! ### conjunctions and disjunctions -/

theorem HAnd.one {inp r : List Char} {e : Expr} (h : HBasic inp e r)
    (hn : Spec.lit "&&" (Spec.skipS r) = none) : HAnd inp e r := by
  obtain ⟨hlen, hF⟩ := h
  refine ⟨hlen, fun F hb => ?_⟩
  obtain ⟨f, rfl⟩ : ∃ f, F = f + 1 := ⟨F - 1, by omega⟩
  obtain ⟨cx, hcx, ha, hg, hp⟩ := hF f (by omega)
  exact ⟨cx, Pf.logicalAnd_stop hcx hn, ha, hg, hp⟩

theorem HAnd.and {inp r1 r2 rest : List Char} {l r : Expr} (hl : HBasic inp l r1)
    (ho : Spec.skipS r1 = '&' :: '&' :: r2) (hr : HAnd (Spec.skipS r2) r rest) :
    HAnd inp (.logical .and l r) rest := by
  obtain ⟨hll, hlF⟩ := hl
  obtain ⟨hrl, hrF⟩ := hr
  have s1 := skipS_le r1
  rw [ho] at s1
  have s2 := skipS_le r2
  simp only [List.length_cons] at s1
  refine ⟨by omega, fun F hb => ?_⟩
  obtain ⟨f, rfl⟩ : ∃ f, F = f + 1 := ⟨F - 1, by omega⟩
  obtain ⟨cl, hcl, hla, hgl, -⟩ := hlF f (by omega)
  obtain ⟨cr, hcr, hra, hgr, -⟩ := hrF f (by omega)
  exact ⟨.and cl cr, logicalAnd_and hcl ho hcr, by rw [Spec.abstractExpr, hla, hra], by simp [gExpr, hgl, hgr],
    fun hp => by simp [isParen] at hp⟩

theorem HOr.one {inp r : List Char} {e : Expr} (h : HAnd inp e r)
    (hn : Spec.lit "||" (Spec.skipS r) = none) : HOr inp e r := by
  obtain ⟨hlen, hF⟩ := h
  refine ⟨hlen, fun F hb => ?_⟩
  obtain ⟨f, rfl⟩ : ∃ f, F = f + 1 := ⟨F - 1, by omega⟩
  obtain ⟨cx, hcx, ha, hg, hp⟩ := hF f (by omega)
  exact ⟨cx, Pf.logicalOr_stop hcx hn, ha, hg, hp⟩

theorem HOr.or {inp r1 r2 rest : List Char} {l r : Expr} (hl : HAnd inp l r1)
    (ho : Spec.skipS r1 = '|' :: '|' :: r2) (hr : HOr (Spec.skipS r2) r rest) :
    HOr inp (.logical .or l r) rest := by
  obtain ⟨hll, hlF⟩ := hl
  obtain ⟨hrl, hrF⟩ := hr
  have s1 := skipS_le r1
  rw [ho] at s1
  have s2 := skipS_le r2
  simp only [List.length_cons] at s1
  refine ⟨by omega, fun F hb => ?_⟩
  obtain ⟨f, rfl⟩ : ∃ f, F = f + 1 := ⟨F - 1, by omega⟩
  obtain ⟨cl, hcl, hla, hgl, -⟩ := hlF f (by omega)
  obtain ⟨cr, hcr, hra, hgr, -⟩ := hrF f (by omega)
  exact ⟨.or cl cr, logicalOr_or hcl ho hcr, by rw [Spec.abstractExpr, hla, hra], by simp [gExpr, hgl, hgr],
    fun hp => by simp [isParen] at hp⟩

/-! ### function arguments -/

/-- a literal directly followed (up to blanks) by `,` or `)` -/
theorem HArg.lit {inp r : List Char} {v : Json} (h : Spec.literal inp = some (v, r))
    (hlen : r.length < inp.length)
    (hf : (∃ t, Spec.skipS r = ',' :: t) ∨ (∃ t, Spec.skipS r = ')' :: t)) (b : Bool) :
    HArg inp b (.lit v) r := by
  refine ⟨hlen, fun F hb => ?_⟩
  obtain ⟨f, rfl⟩ : ∃ f, F = f + 1 := ⟨F - 1, by omega⟩
  exact ⟨.lit v, argument_lit' h hf, by rw [Spec.abstractExpr], by simp [gExpr], fun hp => by simp [isParen] at hp⟩

/-- anything else is a logical-or-expr -/
theorem HArg.expr {inp r : List Char} {e : Expr} {b : Bool} (h : HOr inp e r)
    (hn : ∀ v r', Spec.literal inp = some (v, r') →
      (∀ t, Spec.skipS r' ≠ ',' :: t) ∧ (∀ t, Spec.skipS r' ≠ ')' :: t))
    (hlp : inp.head? = some '(' → b = true) : HArg inp b e r := by
  obtain ⟨hlen, hF⟩ := h
  refine ⟨hlen, fun F hb => ?_⟩
  obtain ⟨f, rfl⟩ : ∃ f, F = f + 1 := ⟨F - 1, by omega⟩
  obtain ⟨cx, hcx, ha, hg, hp⟩ := hF f (by omega)
  exact ⟨cx, by rw [Pf.argument_nolit _ _ hn, hcx], ha, hg, fun h' => hlp (hp h')⟩

theorem HMoreArgs.nil {inp : List Char} (h : ∀ t, Spec.skipS inp ≠ ',' :: t) : HMoreArgs inp [] [] inp := by
  refine ⟨Nat.le_refl _, fun F hb => ?_⟩
  obtain ⟨f, rfl⟩ : ∃ f, F = f + 1 := ⟨F - 1, by omega⟩
  exact ⟨[], moreArgs_nil h, by rw [Spec.abstractArgs], by simp [gArgs], trivial⟩

theorem HMoreArgs.cons {inp r r2 rest : List Char} {a : Expr} {as : List Expr} {b : Bool} {bs : List Bool}
    (hc : Spec.skipS inp = ',' :: r) (ha : HArg (Spec.skipS r) b a r2) (hm : HMoreArgs r2 as bs rest) :
    HMoreArgs inp (a :: as) (b :: bs) rest := by
  obtain ⟨hal, haF⟩ := ha
  obtain ⟨hml, hmF⟩ := hm
  have s1 := skipS_le inp
  rw [hc] at s1
  have s2 := skipS_le r
  simp only [List.length_cons] at s1
  refine ⟨by omega, fun F hb => ?_⟩
  obtain ⟨f, rfl⟩ : ∃ f, F = f + 1 := ⟨F - 1, by omega⟩
  obtain ⟨ca, hca, haa, hga, hpa⟩ := haF f (by omega)
  obtain ⟨cm, hcm, hma, hgm, hfm⟩ := hmF f (by omega)
  exact ⟨ca :: cm, moreArgs_cons hc hca hcm, by rw [Spec.abstractArgs, haa, hma], by simp [gArgs, hga, hgm],
    ⟨hpa, hfm⟩⟩

/-! ### selectors and bracketed selections -/

theorem HSel.filter {r rest : List Char} {e : Expr} (h : HOr (Spec.skipS r) e rest) :
    HSel ('?' :: r) (.filter e) rest := by
  obtain ⟨hlen, hF⟩ := h
  have s1 := skipS_le r
  refine ⟨by simp only [List.length_cons]; omega, fun F hb => ?_⟩
  simp only [List.length_cons] at hb
  obtain ⟨f, rfl⟩ : ∃ f, F = f + 1 := ⟨F - 1, by omega⟩
  obtain ⟨cx, hcx, ha, hg, -⟩ := hF f (by omega)
  refine ⟨.filter cx, ?_, by rw [Spec.abstractSel, ha], by simpa [gSel] using hg⟩
  rw [selector_filter, hcx]; rfl

/-- name, index, slice, wildcard selectors: `Spec.selector` does not recurse on them -/
theorem HSel.leaf {inp rest : List Char} {cs : Spec.CSelector} {s : Selector}
    (h : ∀ F, Spec.selector (F + 1) inp = some (cs, rest)) (ha : Spec.abstractSel cs = s)
    (hlen : rest.length < inp.length) (hnf : ∀ e, s ≠ .filter e) : HSel inp s rest := by
  refine ⟨hlen, fun F hb => ?_⟩
  obtain ⟨f, rfl⟩ : ∃ f, F = f + 1 := ⟨F - 1, by omega⟩
  refine ⟨cs, h f, ha, ?_⟩
  cases cs with
  | filter e => exact absurd ha.symm (by rw [Spec.abstractSel]; exact hnf _)
  | _ => simp [gSel]

theorem HMoreSels.nil {inp : List Char} (h : ∀ t, Spec.skipS inp ≠ ',' :: t) : HMoreSels inp [] inp := by
  refine ⟨Nat.le_refl _, fun F hb => ?_⟩
  obtain ⟨f, rfl⟩ : ∃ f, F = f + 1 := ⟨F - 1, by omega⟩
  exact ⟨[], moreSelectors_nil h, by rw [Spec.abstractSels], by simp [gSels]⟩

theorem HMoreSels.cons {inp r r2 rest : List Char} {s : Selector} {ss : List Selector}
    (hc : Spec.skipS inp = ',' :: r) (hs : HSel (Spec.skipS r) s r2) (hm : HMoreSels r2 ss rest) :
    HMoreSels inp (s :: ss) rest := by
  obtain ⟨hsl, hsF⟩ := hs
  obtain ⟨hml, hmF⟩ := hm
  have s1 := skipS_le inp
  rw [hc] at s1
  have s2 := skipS_le r
  simp only [List.length_cons] at s1
  refine ⟨by omega, fun F hb => ?_⟩
  obtain ⟨f, rfl⟩ : ∃ f, F = f + 1 := ⟨F - 1, by omega⟩
  obtain ⟨cs, hcs, hsa, hgs⟩ := hsF f (by omega)
  obtain ⟨cm, hcm, hma, hgm⟩ := hmF f (by omega)
  exact ⟨cs :: cm, moreSelectors_cons hc hcs hcm, by rw [Spec.abstractSels, hsa, hma], by simp [gSels, hgs, hgm]⟩

theorem HBrk.mk {r r2 r3 rest : List Char} {s : Selector} {ss : List Selector}
    (hs : HSel (Spec.skipS r) s r2) (hm : HMoreSels r2 ss r3) (hr : Spec.skipS r3 = ']' :: rest) :
    HBrk ('[' :: r) (s :: ss) rest := by
  obtain ⟨hsl, hsF⟩ := hs
  obtain ⟨hml, hmF⟩ := hm
  have s1 := skipS_le r
  have s2 := skipS_le r3
  rw [hr] at s2
  simp only [List.length_cons] at s2
  refine ⟨by simp only [List.length_cons]; omega, fun F hb => ?_⟩
  simp only [List.length_cons] at hb
  obtain ⟨f, rfl⟩ : ∃ f, F = f + 1 := ⟨F - 1, by omega⟩
  obtain ⟨cs, hcs, hsa, hgs⟩ := hsF f (by omega)
  obtain ⟨cm, hcm, hma, hgm⟩ := hmF f (by omega)
  obtain ⟨fl, hfl⟩ := bracketed_cons hcs hcm hr
  exact ⟨cs :: cm, fl, hfl, by rw [Spec.abstractSels, hsa, hma], by simp [gSels, hgs, hgm]⟩

/-! ### segments -/

theorem HSeg.dotName {c : Char} {r rest : List Char} {s : Str} (h : Spec.shorthand (c :: r) = some (s, rest))
    (h1 : c ≠ '.') (h2 : c ≠ '*') : HSeg ('.' :: c :: r) (.child [.name s]) rest := by
  have hl := shorthand_length h
  simp only [List.length_cons] at hl
  refine ⟨by simp only [List.length_cons]; omega, fun F hb => ?_⟩
  simp only [List.length_cons] at hb
  obtain ⟨f, rfl⟩ : ∃ f, F = f + 1 := ⟨F - 1, by omega⟩
  refine ⟨.child [.name s] false, ?_, ?_⟩
  · rw [segment_dot_name _ _ _ h1 h2, h]; rfl
  · exact ⟨by simp only [Spec.abstractSegs, Spec.abstractSels, Spec.abstractSel], by simp [gSegs, gSels, gSel]⟩

theorem HSeg.dotWild (r : List Char) : HSeg ('.' :: '*' :: r) (.child [.wild]) r := by
  refine ⟨by simp only [List.length_cons]; omega, fun F hb => ?_⟩
  simp only [List.length_cons] at hb
  obtain ⟨f, rfl⟩ : ∃ f, F = f + 1 := ⟨F - 1, by omega⟩
  refine ⟨.child [.wild] false, segment_dot_wild _ _, ?_, by simp [gSegs, gSels, gSel]⟩
  simp only [Spec.abstractSegs, Spec.abstractSels, Spec.abstractSel]

theorem HSeg.brack {r rest : List Char} {ss : List Selector} (h : HBrk ('[' :: r) ss rest) :
    HSeg ('[' :: r) (.child ss) rest := by
  obtain ⟨hlen, hF⟩ := h
  refine ⟨hlen, fun F hb => ?_⟩
  obtain ⟨f, rfl⟩ : ∃ f, F = f + 1 := ⟨F - 1, by omega⟩
  obtain ⟨css, fl, hcs, ha, hg⟩ := hF f (by omega)
  refine ⟨.child css fl, ?_, ?_, by simp [gSegs, hg]⟩
  · rw [segment_brack, hcs]; rfl
  · simp only [Spec.abstractSegs, ha]

theorem HSeg.descName {c : Char} {r rest : List Char} {s : Str} (h : Spec.shorthand (c :: r) = some (s, rest))
    (h1 : c ≠ '*') (h2 : c ≠ '[') : HSeg ('.' :: '.' :: c :: r) (.desc [.name s]) rest := by
  have hl := shorthand_length h
  simp only [List.length_cons] at hl
  refine ⟨by simp only [List.length_cons]; omega, fun F hb => ?_⟩
  simp only [List.length_cons] at hb
  obtain ⟨f, rfl⟩ : ∃ f, F = f + 1 := ⟨F - 1, by omega⟩
  refine ⟨.desc [.name s], ?_, ?_⟩
  · rw [segment_dd_name _ _ _ h1 h2, h]; rfl
  · exact ⟨by simp only [Spec.abstractSegs, Spec.abstractSels, Spec.abstractSel], by simp [gSegs, gSels, gSel]⟩

theorem HSeg.descWild (r : List Char) : HSeg ('.' :: '.' :: '*' :: r) (.desc [.wild]) r := by
  refine ⟨by simp only [List.length_cons]; omega, fun F hb => ?_⟩
  simp only [List.length_cons] at hb
  obtain ⟨f, rfl⟩ : ∃ f, F = f + 1 := ⟨F - 1, by omega⟩
  refine ⟨.desc [.wild], segment_dd_wild _ _, ?_, by simp [gSegs, gSels, gSel]⟩
  simp only [Spec.abstractSegs, Spec.abstractSels, Spec.abstractSel]

theorem HSeg.descBrack {r rest : List Char} {ss : List Selector} (h : HBrk ('[' :: r) ss rest) :
    HSeg ('.' :: '.' :: '[' :: r) (.desc ss) rest := by
  obtain ⟨hlen, hF⟩ := h
  simp only [List.length_cons] at hlen
  refine ⟨by simp only [List.length_cons]; omega, fun F hb => ?_⟩
  simp only [List.length_cons] at hb
  obtain ⟨f, rfl⟩ : ∃ f, F = f + 1 := ⟨F - 1, by omega⟩
  obtain ⟨css, fl, hcs, ha, hg⟩ := hF f (by simp only [List.length_cons]; omega)
  refine ⟨.desc css, ?_, ?_, by simp [gSegs, hg]⟩
  · rw [segment_dd_brack, hcs]; rfl
  · simp only [Spec.abstractSegs, ha]

/-- no further segment: what follows (after blanks) starts with neither `.` nor `[` -/
theorem HSegs.nil {inp : List Char} (h : ∀ c t, Spec.skipS inp = c :: t → c ≠ '.' ∧ c ≠ '[') :
    HSegs inp [] inp := by
  refine ⟨Nat.le_refl _, fun F hb => ?_⟩
  obtain ⟨f, rfl⟩ : ∃ f, F = f + 1 := ⟨F - 1, by omega⟩
  refine ⟨[], segments_stop ?_, by rw [Spec.abstractSegs], by simp [gSegs]⟩
  cases e : Spec.skipS inp with
  | nil => exact segment_nil _
  | cons c t =>
    obtain ⟨c1, c2⟩ := h c t e
    exact Pf.segment_none _ _ _ c1 c2

theorem HSegs.cons {inp r rest : List Char} {s : Segment} {q : Query} (hs : HSeg (Spec.skipS inp) s r)
    (hq : HSegs r q rest) : HSegs inp (s :: q) rest := by
  obtain ⟨hsl, hsF⟩ := hs
  obtain ⟨hql, hqF⟩ := hq
  have s1 := skipS_le inp
  refine ⟨by omega, fun F hb => ?_⟩
  obtain ⟨f, rfl⟩ : ∃ f, F = f + 1 := ⟨F - 1, by omega⟩
  obtain ⟨cs, hcs, hsa, hgs⟩ := hsF f (by omega)
  obtain ⟨cq, hcq, hqa, hgq⟩ := hqF f (by omega)
  refine ⟨cs :: cq, segments_cons hcs hcq, ?_, ?_⟩
  · cases cs with
    | child sels fl =>
      simp only [Spec.abstractSegs, List.cons.injEq, and_true] at hsa
      simp only [Spec.abstractSegs, hsa, hqa]
    | desc sels =>
      simp only [Spec.abstractSegs, List.cons.injEq, and_true] at hsa
      simp only [Spec.abstractSegs, hsa, hqa]
  · cases cs with
    | child sels fl =>
      simp only [gSegs, Bool.and_true] at hgs
      simp only [gSegs, hgs, hgq, Bool.and_self]
    | desc sels =>
      simp only [gSegs, Bool.and_true] at hgs
      simp only [gSegs, hgs, hgq, Bool.and_self]

/-- the top level: `Spec.parseQuery`'s fuel is enough -/
theorem HSegs.top {r : List Char} {q : Query} (h : HSegs r q []) :
    ∃ c, Spec.segments (2 * ('$' :: r).length + 4) r = some (c, []) ∧ Spec.abstractSegs c = q ∧
      gSegs c = true := by
  obtain ⟨_, hF⟩ := h
  exact hF _ (by simp only [List.length_cons, List.length_nil]; omega)

end JPV.Proofs.Sv
