/-
`Proofs.Cf.LexPBasics` — `Cs.LexBasics` (blank space) at an arbitrary filter depth `D`; the character-class
and `skipS` lemmas are depth independent and are reused from `Cs.LexBasics` by qualified name.
-/
import JPV.Proofs.Cf.LexSteps
import JPV.Proofs.Cs.LexBasics
namespace JPV.Proofs.Cf
open JPV JPV.Impl JPV.Proofs.Rq

variable {D : Int} {l : Lexer} {pre rest : List Char} {toks : List Token} {br : List (Char × Nat)}

/-- `ignore_whitespace()` skips exactly the grammar's `S` -/
theorem FSt_ws (h : FSt D l pre [] rest toks br) :
    ∃ b l' pre', l.ignoreWhitespace = .ok (b, l') ∧ FSt D l' pre' [] (Spec.skipS rest) toks br := by
  unfold Lexer.ignoreWhitespace
  have hps : l.pos = l.start := by rw [h.pos, h.start]; simp
  rw [if_neg (by simp [hps])]
  by_cases hn : spanLen isWs rest = 0
  · have hm : l.acceptMatch reWhitespace = none := by
      simp [Lexer.acceptMatch, h.restFrom, reWhitespace, hn]
    rw [hm]
    refine ⟨false, l, pre, rfl, ?_⟩
    rw [Cs.skipS_eq, hn]; exact h
  · have hre : reWhitespace rest = some (spanLen isWs rest) := by simp [reWhitespace, hn]
    obtain ⟨l', hm, h'⟩ := h.acceptMatch hre (Cs.spanLen_le _ _)
    rw [hm]
    refine ⟨true, l'.ignore, pre ++ ([] ++ rest.take (spanLen isWs rest)), rfl, ?_⟩
    rw [Cs.skipS_eq]
    exact h'.ignore

theorem step_bracketed_ws (h : FSt D l pre [] rest toks br) :
    ∃ l1 pre', FSt D l1 pre' [] (Spec.skipS rest) toks br ∧ Impl.step .bracketed l = Impl.step .bracketed l1 := by
  obtain ⟨b, l1, pre', hw, h1⟩ := FSt_ws h
  have hw1 := h1.ws_none (Cs.skipS_head rest)
  exact ⟨l1, pre', h1, by simp only [Impl.step, lexBracketed, hw, hw1, bind, Except.bind]⟩

theorem step_segment_ws (h : FSt D l pre [] rest toks br) (hne : Spec.skipS rest ≠ []) :
    ∃ l1 pre', FSt D l1 pre' [] (Spec.skipS rest) toks br ∧ Impl.step .segment l = Impl.step .segment l1 := by
  obtain ⟨b, l1, pre', hw, h1⟩ := FSt_ws h
  have hw1 := h1.ws_none (Cs.skipS_head rest)
  have hp : l1.peek.isNone = false := by
    rw [h1.peek]
    cases hr : Spec.skipS rest with
    | nil => exact absurd hr hne
    | cons => rfl
  exact ⟨l1, pre', h1, by simp [Impl.step, lexSegment, hw, hw1, bind, Except.bind, hp]⟩

/-- `lex_inside_filter` also starts with `ignore_whitespace()` -/
theorem step_filter_ws (h : FSt D l pre [] rest toks br) :
    ∃ l1 pre', FSt D l1 pre' [] (Spec.skipS rest) toks br ∧ Impl.step .filter l = Impl.step .filter l1 := by
  obtain ⟨b, l1, pre', hw, h1⟩ := FSt_ws h
  have hw1 := h1.ws_none (Cs.skipS_head rest)
  exact ⟨l1, pre', h1, by simp only [Impl.step, lexFilter, hw, hw1, bind, Except.bind]⟩

end JPV.Proofs.Cf
