/-
`Spec.Abnf` — RFC 9535 Appendix A as a DECLARATIVE derivation relation: one
inductive family per non-terminal, one constructor per alternative, each
constructor's string index the concatenation the ABNF rule spells out.  Nothing
here is an algorithm: there is no lookahead, no longest-match, no fuel and no
order between alternatives.  `Abnf.Query loose s c` reads "the string `s` is a
jsonpath-query, and `c` is its derivation up to the details the semantics
ignores" (`c` is the same `CSegment` tree the recogniser builds: parentheses
kept; blank space, quote style, escape spelling and number spelling forgotten).

`Proofs/AbnfEquiv.lean` proves that the executable recogniser `Spec.parseQuery`
(the oracle every text-level check runs, and the left-hand side of C03/C04/C05)
decides exactly this relation, so what has to be trusted as "a correct reading
of the RFC's grammar" is this file, not the recogniser's lookahead choices.

The parameter `loose` settles the one point where the RFC's ABNF and its prose
part ways (D28): `singular-query-segments` has no `S` inside the brackets of a
name-segment / index-segment although `bracketed-selection` does.
`loose = false` is the ABNF to the letter; `loose = true` also allows blank
space there.  The recogniser's verdicts are: `valid` ⇔ derivable to the letter,
`valid ∨ disputed` ⇔ derivable loosely.

Character classes (`isBlank`, `isDIGIT`, `isUnescaped`, `isNameFirst`, …) are the
one-line range predicates of `Spec.Grammar`; the value a number spelling denotes
is `Spec.numberValue`, the value of a digit string `Py.digitsToNat`: these are
denotations, not grammar.
-/
import JPV.Spec.Grammar
namespace JPV.Spec.Abnf
open JPV JPV.Spec

/-- S = *B -/
def Blanks (s : List Char) : Prop := ∀ c ∈ s, isBlank c = true

/-- *DIGIT -/
def Digits (s : List Char) : Prop := ∀ c ∈ s, isDIGIT c = true

/-- 1*DIGIT -/
def Digits1 (s : List Char) : Prop := s ≠ [] ∧ Digits s

/-- int = "0" / (["-"] DIGIT1 *DIGIT), with the integer it denotes -/
inductive IntLit : List Char → Int → Prop
  | zero : IntLit ['0'] 0
  | pos {c : Char} {ds : List Char} : isDIGIT1 c = true → Digits ds →
      IntLit (c :: ds) (Py.digitsToNat (c :: ds) : Int)
  | neg {c : Char} {ds : List Char} : isDIGIT1 c = true → Digits ds →
      IntLit ('-' :: c :: ds) (-(Py.digitsToNat (c :: ds) : Int))

/-- frac = "." 1*DIGIT (optional) -/
def OptFrac (s : List Char) : Prop := s = [] ∨ ∃ ds, s = '.' :: ds ∧ Digits1 ds

/-- exp = "e" [ "-" / "+" ] 1*DIGIT (optional; ABNF literals are case-insensitive) -/
def OptExp (s : List Char) : Prop :=
  s = [] ∨ ∃ e sg ds, s = e :: (sg ++ ds) ∧ (e = 'e' ∨ e = 'E') ∧ (sg = [] ∨ sg = ['+'] ∨ sg = ['-']) ∧ Digits1 ds

/-- number = (int / "-0") [ frac ] [ exp ] — the spelling -/
def NumberSp (s : List Char) : Prop :=
  ∃ ip fr ex, s = ip ++ fr ++ ex ∧ ((∃ i, IntLit ip i) ∨ ip = ['-', '0']) ∧ OptFrac fr ∧ OptExp ex

/-- 4HEXDIG with its value -/
def Hex4 (s : List Char) (v : Nat) : Prop :=
  ∃ a b c d, s = [a, b, c, d] ∧ isHEXDIG a = true ∧ isHEXDIG b = true ∧ isHEXDIG c = true ∧ isHEXDIG d = true ∧
    v = ((hexVal a * 16 + hexVal b) * 16 + hexVal c) * 16 + hexVal d

/-- hexchar = non-surrogate / (high-surrogate "\" %x75 low-surrogate), with the character it denotes -/
inductive HexChar : List Char → Char → Prop
  | nonSurrogate {s : List Char} {v : Nat} : Hex4 s v → ¬ (0xD800 ≤ v ∧ v ≤ 0xDFFF) → HexChar s (Char.ofNat v)
  | pair {h l : List Char} {hi lo : Nat} : Hex4 h hi → 0xD800 ≤ hi → hi ≤ 0xDBFF → Hex4 l lo → 0xDC00 ≤ lo → lo ≤ 0xDFFF →
      HexChar (h ++ '\\' :: 'u' :: l) (Char.ofNat (0x10000 + (hi - 0xD800) * 0x400 + (lo - 0xDC00)))

/-- escapable, except `"u" hexchar` and the quote: b f n r t "/" "\" with the character each denotes -/
inductive Escapable : Char → Char → Prop
  | b : Escapable 'b' (Char.ofNat 8)
  | f : Escapable 'f' (Char.ofNat 12)
  | n : Escapable 'n' '\n'
  | r : Escapable 'r' '\r'
  | t : Escapable 't' '\t'
  | slash : Escapable '/' '/'
  | backslash : Escapable '\\' '\\'

/-- *double-quoted (q = `"`) / *single-quoted (q = `'`), with the string denoted:
double-quoted = unescaped / %x27 / ESC %x22 / ESC escapable;  single-quoted = unescaped / %x22 / ESC %x27 / ESC escapable -/
inductive StrChars (q : Char) : List Char → Str → Prop
  | nil : StrChars q [] []
  | unescaped {c : Char} {rest : List Char} {v : Str} : isUnescaped c = true → StrChars q rest v →
      StrChars q (c :: rest) (c :: v)
  | otherQuote {c : Char} {rest : List Char} {v : Str} : (c = '\'' ∧ q = '"') ∨ (c = '"' ∧ q = '\'') → StrChars q rest v →
      StrChars q (c :: rest) (c :: v)
  | escQuote {rest : List Char} {v : Str} : StrChars q rest v → StrChars q ('\\' :: q :: rest) (q :: v)
  | esc {e ch : Char} {rest : List Char} {v : Str} : Escapable e ch → StrChars q rest v →
      StrChars q ('\\' :: e :: rest) (ch :: v)
  | hex {h : List Char} {ch : Char} {rest : List Char} {v : Str} : HexChar h ch → StrChars q rest v →
      StrChars q ('\\' :: 'u' :: (h ++ rest)) (ch :: v)

/-- string-literal = %x22 *double-quoted %x22 / %x27 *single-quoted %x27 -/
inductive StringLit : List Char → Str → Prop
  | dq {body : List Char} {v : Str} : StrChars '"' body v → StringLit ('"' :: (body ++ ['"'])) v
  | sq {body : List Char} {v : Str} : StrChars '\'' body v → StringLit ('\'' :: (body ++ ['\''])) v

/-- member-name-shorthand = name-first *name-char -/
def Shorthand (s : List Char) : Prop := ∃ c rest, s = c :: rest ∧ isNameFirst c = true ∧ ∀ d ∈ rest, isNameChar d = true

/-- function-name = function-name-first *function-name-char -/
def FunctionName (s : List Char) : Prop :=
  ∃ c rest, s = c :: rest ∧ isLCALPHA c = true ∧ ∀ d ∈ rest, (isLCALPHA d || d = '_' || isDIGIT d) = true

/-- comparison-op = "==" / "!=" / "<=" / ">=" / "<" / ">" -/
inductive CompOp : List Char → COp → Prop
  | eq : CompOp ['=', '='] .eq
  | ne : CompOp ['!', '='] .ne
  | le : CompOp ['<', '='] .le
  | ge : CompOp ['>', '='] .ge
  | lt : CompOp ['<'] .lt
  | gt : CompOp ['>'] .gt

/-- literal = number / string-literal / true / false / null -/
inductive Literal : List Char → Json → Prop
  | num {s : List Char} {x : Num} : NumberSp s → numberValue s = some x → Literal s (.num x)
  | str {s : List Char} {v : Str} : StringLit s v → Literal s (.str v)
  | true : Literal "true".toList (.bool true)
  | false : Literal "false".toList (.bool false)
  | null : Literal "null".toList .null

/-- `[int S]` -/
def OptIntS (s : List Char) (v : Option Int) : Prop :=
  (s = [] ∧ v = none) ∨ ∃ i bs n, s = i ++ bs ∧ IntLit i n ∧ Blanks bs ∧ v = some n

/-- `[":" [S step]]` -/
def OptStep (s : List Char) (v : Option Int) : Prop :=
  (s = [] ∧ v = none) ∨ (s = [':'] ∧ v = none) ∨ ∃ bs i n, s = ':' :: (bs ++ i) ∧ Blanks bs ∧ IntLit i n ∧ v = some n

/-- slice-selector = [start S] ":" S [end S] [":" [S step ]] -/
def SliceSel (s : List Char) (a b c : Option Int) : Prop :=
  ∃ p1 bs p2 p3, s = p1 ++ ':' :: (bs ++ p2 ++ p3) ∧ OptIntS p1 a ∧ Blanks bs ∧ OptIntS p2 b ∧ OptStep p3 c

/-- name-segment / index-segment of a singular query:
("[" name-selector "]") / ("." member-name-shorthand) / ("[" index-selector "]").
To the letter (`loose = false`) no blank space inside the brackets. -/
inductive SingularSeg (loose : Bool) : List Char → CSegment → Prop
  | dotName {n : List Char} : Shorthand n → SingularSeg loose ('.' :: n) (.child [.name n] false)
  | name {b1 s b2 : List Char} {n : Str} : Blanks b1 → StringLit s n → Blanks b2 → (loose = true ∨ (b1 = [] ∧ b2 = [])) →
      SingularSeg loose ('[' :: (b1 ++ s ++ b2 ++ [']'])) (.child [.name n] (!b1.isEmpty || !b2.isEmpty))
  | index {b1 s b2 : List Char} {i : Int} : Blanks b1 → IntLit s i → Blanks b2 → (loose = true ∨ (b1 = [] ∧ b2 = [])) →
      SingularSeg loose ('[' :: (b1 ++ s ++ b2 ++ [']'])) (.child [.index i] (!b1.isEmpty || !b2.isEmpty))

/-- singular-query-segments = *(S (name-segment / index-segment)) -/
inductive SingularSegs (loose : Bool) : List Char → List CSegment → Prop
  | nil : SingularSegs loose [] []
  | cons {b s rest : List Char} {seg : CSegment} {segs : List CSegment} :
      Blanks b → SingularSeg loose s seg → SingularSegs loose rest segs → SingularSegs loose (b ++ s ++ rest) (seg :: segs)

mutual

/-- segments = *(S segment) -/
inductive Segments (loose : Bool) : List Char → List CSegment → Prop
  | nil : Segments loose [] []
  | cons {b s rest : List Char} {seg : CSegment} {segs : List CSegment} :
      Blanks b → Segment loose s seg → Segments loose rest segs → Segments loose (b ++ s ++ rest) (seg :: segs)

/-- segment = child-segment / descendant-segment
child-segment = bracketed-selection / ("." (wildcard-selector / member-name-shorthand))
descendant-segment = ".." (bracketed-selection / wildcard-selector / member-name-shorthand) -/
inductive Segment (loose : Bool) : List Char → CSegment → Prop
  | bracketed {s : List Char} {sels : List CSelector} {fl : Bool} : Bracketed loose s sels fl → Segment loose s (.child sels fl)
  | dotWild : Segment loose ['.', '*'] (.child [.wild] false)
  | dotName {n : List Char} : Shorthand n → Segment loose ('.' :: n) (.child [.name n] false)
  | descBracketed {s : List Char} {sels : List CSelector} {fl : Bool} : Bracketed loose s sels fl →
      Segment loose ('.' :: '.' :: s) (.desc sels)
  | descWild : Segment loose ['.', '.', '*'] (.desc [.wild])
  | descName {n : List Char} : Shorthand n → Segment loose ('.' :: '.' :: n) (.desc [.name n])

/-- bracketed-selection = "[" S selector *(S "," S selector) S "]"
(the flag records whether blank space stands directly inside the brackets) -/
inductive Bracketed (loose : Bool) : List Char → List CSelector → Bool → Prop
  | mk {b1 s more b2 : List Char} {sel : CSelector} {sels : List CSelector} :
      Blanks b1 → Selector loose s sel → MoreSelectors loose more sels → Blanks b2 →
      Bracketed loose ('[' :: (b1 ++ s ++ more ++ b2 ++ [']'])) (sel :: sels) (!b1.isEmpty || !b2.isEmpty)

/-- *(S "," S selector) -/
inductive MoreSelectors (loose : Bool) : List Char → List CSelector → Prop
  | nil : MoreSelectors loose [] []
  | cons {b1 b2 s more : List Char} {sel : CSelector} {sels : List CSelector} :
      Blanks b1 → Blanks b2 → Selector loose s sel → MoreSelectors loose more sels →
      MoreSelectors loose (b1 ++ ',' :: (b2 ++ s ++ more)) (sel :: sels)

/-- selector = name-selector / wildcard-selector / slice-selector / index-selector / filter-selector
filter-selector = "?" S logical-expr -/
inductive Selector (loose : Bool) : List Char → CSelector → Prop
  | name {s : List Char} {n : Str} : StringLit s n → Selector loose s (.name n)
  | wild : Selector loose ['*'] .wild
  | slice {s : List Char} {a b c : Option Int} : SliceSel s a b c → Selector loose s (.slice a b c)
  | index {s : List Char} {i : Int} : IntLit s i → Selector loose s (.index i)
  | filter {b s : List Char} {e : CExpr} : Blanks b → LogicalOr loose s e → Selector loose ('?' :: (b ++ s)) (.filter e)

/-- logical-expr = logical-or-expr = logical-and-expr *(S "||" S logical-and-expr) (nested to the right) -/
inductive LogicalOr (loose : Bool) : List Char → CExpr → Prop
  | single {s : List Char} {e : CExpr} : LogicalAnd loose s e → LogicalOr loose s e
  | or {s b1 b2 rest : List Char} {l r : CExpr} : LogicalAnd loose s l → Blanks b1 → Blanks b2 → LogicalOr loose rest r →
      LogicalOr loose (s ++ b1 ++ '|' :: '|' :: (b2 ++ rest)) (.or l r)

/-- logical-and-expr = basic-expr *(S "&&" S basic-expr) (nested to the right) -/
inductive LogicalAnd (loose : Bool) : List Char → CExpr → Prop
  | single {s : List Char} {e : CExpr} : Basic loose s e → LogicalAnd loose s e
  | and {s b1 b2 rest : List Char} {l r : CExpr} : Basic loose s l → Blanks b1 → Blanks b2 → LogicalAnd loose rest r →
      LogicalAnd loose (s ++ b1 ++ '&' :: '&' :: (b2 ++ rest)) (.and l r)

/-- basic-expr = paren-expr / comparison-expr / test-expr
paren-expr = [logical-not-op S] "(" S logical-expr S ")"
test-expr = [logical-not-op S] (filter-query / function-expr)
comparison-expr = comparable S comparison-op S comparable -/
inductive Basic (loose : Bool) : List Char → CExpr → Prop
  | paren {s : List Char} {e : CExpr} : Paren loose s e → Basic loose s e
  | notParen {b s : List Char} {e : CExpr} : Blanks b → Paren loose s e → Basic loose ('!' :: (b ++ s)) (.not e)
  | test {s : List Char} {e : CExpr} : TestItem loose s e → Basic loose s e
  | notTest {b s : List Char} {e : CExpr} : Blanks b → TestItem loose s e → Basic loose ('!' :: (b ++ s)) (.not e)
  | cmp {s1 b1 o b2 s2 : List Char} {op : COp} {l r : CExpr} :
      Comparable loose s1 l → Blanks b1 → CompOp o op → Blanks b2 → Comparable loose s2 r →
      Basic loose (s1 ++ b1 ++ o ++ b2 ++ s2) (.cmp op l r)

/-- "(" S logical-expr S ")" -/
inductive Paren (loose : Bool) : List Char → CExpr → Prop
  | mk {b1 s b2 : List Char} {e : CExpr} : Blanks b1 → LogicalOr loose s e → Blanks b2 →
      Paren loose ('(' :: (b1 ++ s ++ b2 ++ [')'])) (.paren e)

/-- filter-query / function-expr;  filter-query = rel-query / jsonpath-query;
rel-query = current-node-identifier segments; jsonpath-query = root-identifier segments -/
inductive TestItem (loose : Bool) : List Char → CExpr → Prop
  | rel {s : List Char} {q : List CSegment} : Segments loose s q → TestItem loose ('@' :: s) (.rel q)
  | root {s : List Char} {q : List CSegment} : Segments loose s q → TestItem loose ('$' :: s) (.root q)
  | call {s : List Char} {e : CExpr} : FunctionExpr loose s e → TestItem loose s e

/-- comparable = literal / singular-query / function-expr
singular-query = rel-singular-query / abs-singular-query -/
inductive Comparable (loose : Bool) : List Char → CExpr → Prop
  | lit {s : List Char} {v : Json} : Literal s v → Comparable loose s (.lit v)
  | rel {s : List Char} {q : List CSegment} : SingularSegs loose s q → Comparable loose ('@' :: s) (.rel q)
  | root {s : List Char} {q : List CSegment} : SingularSegs loose s q → Comparable loose ('$' :: s) (.root q)
  | call {s : List Char} {e : CExpr} : FunctionExpr loose s e → Comparable loose s e

/-- function-expr = function-name "(" S [function-argument *(S "," S function-argument)] S ")" -/
inductive FunctionExpr (loose : Bool) : List Char → CExpr → Prop
  | noArgs {n b : List Char} : FunctionName n → Blanks b → FunctionExpr loose (n ++ '(' :: (b ++ [')'])) (.call n [])
  | args {n b1 s more b2 : List Char} {a : CExpr} {as : List CExpr} :
      FunctionName n → Blanks b1 → Argument loose s a → MoreArgs loose more as → Blanks b2 →
      FunctionExpr loose (n ++ '(' :: (b1 ++ s ++ more ++ b2 ++ [')'])) (.call n (a :: as))

/-- function-argument = literal / filter-query / logical-expr / function-expr -/
inductive Argument (loose : Bool) : List Char → CExpr → Prop
  | lit {s : List Char} {v : Json} : Literal s v → Argument loose s (.lit v)
  | rel {s : List Char} {q : List CSegment} : Segments loose s q → Argument loose ('@' :: s) (.rel q)
  | root {s : List Char} {q : List CSegment} : Segments loose s q → Argument loose ('$' :: s) (.root q)
  | logical {s : List Char} {e : CExpr} : LogicalOr loose s e → Argument loose s e
  | call {s : List Char} {e : CExpr} : FunctionExpr loose s e → Argument loose s e

/-- *(S "," S function-argument) -/
inductive MoreArgs (loose : Bool) : List Char → List CExpr → Prop
  | nil : MoreArgs loose [] []
  | cons {b1 b2 s more : List Char} {a : CExpr} {as : List CExpr} :
      Blanks b1 → Blanks b2 → Argument loose s a → MoreArgs loose more as →
      MoreArgs loose (b1 ++ ',' :: (b2 ++ s ++ more)) (a :: as)

end

/-- jsonpath-query = root-identifier segments -/
def Query (loose : Bool) (s : List Char) (c : List CSegment) : Prop :=
  ∃ rest, s = '$' :: rest ∧ Segments loose rest c

end JPV.Spec.Abnf
