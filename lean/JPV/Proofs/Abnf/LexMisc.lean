/-
`lit`, `shorthand`, `functionName`, `comparisonOp` against their ABNF rules.
-/
import JPV.Proofs.Abnf.Chars
namespace JPV.Proofs.AbnfP
open JPV JPV.Spec

/-! ### `lit` -/

theorem lit_sound {s : String} {inp r : List Char} (h : lit s inp = some r) : inp = s.toList ++ r := by
  unfold lit at h
  split at h
  · rename_i hp
    cases h
    have := List.prefix_iff_eq_append.1 (List.isPrefixOf_iff_prefix.1 hp)
    rw [String.length_toList] at this
    exact this.symm
  · cases h

theorem lit_complete (s : String) (R : List Char) : lit s (s.toList ++ R) = some R := by
  unfold lit
  have hp : s.toList.isPrefixOf (s.toList ++ R) = true :=
    List.isPrefixOf_iff_prefix.2 (List.prefix_append _ _)
  rw [if_pos hp, ← String.length_toList, List.drop_left]

theorem lit_none {s : String} {c : Char} {cs : List Char} (hs : s.toList = c :: cs) {inp : List Char}
    (h : HeadP (fun d => d ≠ c) inp) : lit s inp = none := by
  cases hl : lit s inp with
  | none => rfl
  | some r =>
    have := lit_sound hl
    rw [hs] at this
    exact absurd rfl (h c (cs ++ r) this)

/-! ### takeWhile / drop -/

theorem takeWhile_append_drop (p : Char → Bool) (l : List Char) :
    l = l.takeWhile p ++ l.drop (l.takeWhile p).length := by
  induction l with
  | nil => rfl
  | cons c l ih =>
    by_cases hc : p c = true
    · simp only [List.takeWhile_cons, hc, if_true, List.length_cons, List.drop_succ_cons, List.cons_append]
      exact congrArg _ ih
    · simp [List.takeWhile_cons, hc]

theorem takeWhile_all (p : Char → Bool) (l : List Char) : ∀ d ∈ l.takeWhile p, p d = true := by
  induction l with
  | nil => intro d hd; cases hd
  | cons c l ih =>
    intro d hd
    by_cases hc : p c = true
    · simp only [List.takeWhile_cons, hc, if_true] at hd
      cases hd with
      | head => exact hc
      | tail _ h => exact ih d h
    · simp [List.takeWhile_cons, hc] at hd

theorem takeWhile_append_of_all {p : Char → Bool} {ds R : List Char} (hds : ∀ d ∈ ds, p d = true)
    (hR : HeadP (fun c => p c = false) R) : (ds ++ R).takeWhile p = ds := by
  induction ds with
  | nil =>
    cases R with
    | nil => rfl
    | cons c t => simp [List.takeWhile_cons, hR.head]
  | cons d ds ih =>
    have hd : p d = true := hds d List.mem_cons_self
    simp only [List.cons_append, List.takeWhile_cons, hd, if_true]
    exact congrArg _ (ih (fun x hx => hds x (List.mem_cons_of_mem _ hx)))

/-! ### member-name-shorthand and function-name -/

theorem shorthand_sound {inp rest : List Char} {n : Str} (h : shorthand inp = some (n, rest)) :
    inp = n ++ rest ∧ Abnf.Shorthand n := by
  cases inp with
  | nil => simp [shorthand] at h
  | cons c r =>
    by_cases hc : isNameFirst c = true
    · simp only [shorthand, hc, if_true, Option.some.injEq, Prod.mk.injEq] at h
      obtain ⟨h1, h2⟩ := h
      subst h1 h2
      refine ⟨?_, c, _, rfl, hc, takeWhile_all _ _⟩
      simp only [List.cons_append]
      exact congrArg _ (takeWhile_append_drop _ _)
    · simp [shorthand, hc] at h

theorem shorthand_complete {n : List Char} (h : Abnf.Shorthand n) {R : List Char}
    (hR : HeadP (fun c => isNameChar c = false) R) : shorthand (n ++ R) = some (n, R) := by
  obtain ⟨c, rest, rfl, hc, hrest⟩ := h
  simp only [List.cons_append, shorthand, hc, if_true]
  rw [takeWhile_append_of_all hrest hR, List.drop_left]

theorem functionName_sound {inp rest : List Char} {n : Str} (h : functionName inp = some (n, rest)) :
    inp = n ++ rest ∧ Abnf.FunctionName n := by
  cases inp with
  | nil => simp [functionName] at h
  | cons c r =>
    by_cases hc : isLCALPHA c = true
    · simp only [functionName, hc, if_true, Option.some.injEq, Prod.mk.injEq] at h
      obtain ⟨h1, h2⟩ := h
      subst h1 h2
      refine ⟨?_, c, _, rfl, hc, takeWhile_all _ _⟩
      simp only [List.cons_append]
      exact congrArg _ (takeWhile_append_drop _ _)
    · simp [functionName, hc] at h

theorem functionName_complete {n : List Char} (h : Abnf.FunctionName n) {R : List Char}
    (hR : HeadP (fun c => (isLCALPHA c || c = '_' || isDIGIT c) = false) R) :
    functionName (n ++ R) = some (n, R) := by
  obtain ⟨c, rest, rfl, hc, hrest⟩ := h
  simp only [List.cons_append, functionName, hc, if_true]
  rw [takeWhile_append_of_all (p := fun c => isLCALPHA c || c = '_' || isDIGIT c) hrest hR, List.drop_left]

theorem functionName_none {inp : List Char} (h : HeadP (fun c => isLCALPHA c = false) inp) :
    functionName inp = none := by
  cases inp with
  | nil => rfl
  | cons c t => simp [functionName, h.head]

/-! ### comparison-op -/

theorem comparisonOp_sound {inp rest : List Char} {op : COp} (h : comparisonOp inp = some (op, rest)) :
    ∃ o, inp = o ++ rest ∧ Abnf.CompOp o op := by
  unfold comparisonOp at h
  split at h <;> simp only [Option.some.injEq, Prod.mk.injEq, reduceCtorEq] at h
  · obtain ⟨rfl, rfl⟩ := h; exact ⟨_, rfl, .eq⟩
  · obtain ⟨rfl, rfl⟩ := h; exact ⟨_, rfl, .ne⟩
  · obtain ⟨rfl, rfl⟩ := h; exact ⟨_, rfl, .le⟩
  · obtain ⟨rfl, rfl⟩ := h; exact ⟨_, rfl, .ge⟩
  · obtain ⟨rfl, rfl⟩ := h; exact ⟨['<'], rfl, .lt⟩
  · obtain ⟨rfl, rfl⟩ := h; exact ⟨['>'], rfl, .gt⟩

theorem comparisonOp_complete {o : List Char} {op : COp} (h : Abnf.CompOp o op) {R : List Char}
    (hR : HeadP (fun c => c ≠ '=') R) : comparisonOp (o ++ R) = some (op, R) := by
  cases h
  · rfl
  · rfl
  · rfl
  · rfl
  · cases R with
    | nil => rfl
    | cons c t =>
      have : c ≠ '=' := hR.head
      simp only [List.cons_append, List.nil_append]
      unfold comparisonOp
      split <;> simp_all
  · cases R with
    | nil => rfl
    | cons c t =>
      have : c ≠ '=' := hR.head
      simp only [List.cons_append, List.nil_append]
      unfold comparisonOp
      split <;> simp_all

theorem compOp_head {o : List Char} {op : COp} (h : Abnf.CompOp o op) :
    ∃ c t, o = c :: t ∧ (c = '=' ∨ c = '!' ∨ c = '<' ∨ c = '>') := by
  cases h <;> exact ⟨_, _, rfl, by simp⟩

theorem comparisonOp_none {inp : List Char}
    (h : HeadP (fun c => c ≠ '=' ∧ c ≠ '!' ∧ c ≠ '<' ∧ c ≠ '>') inp) : comparisonOp inp = none := by
  cases hc : comparisonOp inp with
  | none => rfl
  | some x =>
    obtain ⟨op, rest⟩ := x
    obtain ⟨o, ho, hop⟩ := comparisonOp_sound hc
    obtain ⟨c, t, rfl, hcc⟩ := compOp_head hop
    have := h c (t ++ rest) ho
    rcases hcc with rfl | rfl | rfl | rfl <;> simp at this

theorem comparisonOp_bang {r : List Char} (h : HeadP (fun c => c ≠ '=') r) : comparisonOp ('!' :: r) = none := by
  cases r with
  | nil => rfl
  | cons c t =>
    have : c ≠ '=' := h.head
    unfold comparisonOp
    split <;> simp_all

end JPV.Proofs.AbnfP
