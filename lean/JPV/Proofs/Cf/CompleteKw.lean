/-
`Proofs.Cf.CompleteKw` — parser completeness restricted to the environments whose registered function names
do not begin with a keyword literal (`true`, `false`, `null`).  Before the lexer's keyword patterns got
their lookahead (`Impl.reKeyword`) the restriction was necessary; now the statement is the special case of
`Proofs.compile_complete` (every environment), kept for its users.
-/
import JPV.Proofs.CompleteFull
namespace JPV.Proofs
open JPV JPV.Impl

theorem compile_complete_kwfree (env : Env) (_hkw : Cf.KwFree env) (s : Str) (c : List Spec.CSegment)
    (hj : Spec.judge (sigsOfEnv' env) env.minIdx env.maxIdx s = (.valid, some c)) :
    Impl.compile env s = .ok (Spec.abstractSegs c) :=
  compile_complete env s c hj

/-- a decidable sufficient condition for `Cf.KwFree`: no entry of the registry has a keyword-prefixed name -/
def kwFreeB (env : Env) : Bool := env.funcs.all (fun p => !Cf.kwName p.1)

theorem kwFree_of_b (env : Env) (h : kwFreeB env = true) : Cf.KwFree env := by
  intro n hn
  unfold Env.func at hn
  cases hf : env.funcs.find? (fun p => p.1 = n) with
  | none => simp [hf] at hn
  | some p =>
    have hm := List.mem_of_find?_eq_some hf
    have hp := List.find?_some hf
    simp only [decide_eq_true_eq] at hp
    have := List.all_eq_true.mp h p hm
    rw [← hp]
    simpa using this

/-- the default environment (no function extensions) and the environment of the three built-in
functions `length`, `count`, `value` are keyword-free -/
theorem kwFree_default : Cf.KwFree {} := kwFree_of_b _ rfl

theorem kwFree_builtin (env : Env)
    (h : env.funcs.map Prod.fst = ["length".toList, "count".toList, "value".toList]) : Cf.KwFree env := by
  apply kwFree_of_b
  unfold kwFreeB
  have : env.funcs.all (fun p => !Cf.kwName p.1) = (env.funcs.map Prod.fst).all (fun n => !Cf.kwName n) := by
    rw [List.all_map]; rfl
  rw [this, h]
  decide

end JPV.Proofs
