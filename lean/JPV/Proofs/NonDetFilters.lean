import JPV.Impl.NonDet
import JPV.Spec.NonDet
import JPV.Props.Common
import JPV.Proofs.NonDetPermitted
import JPV.Proofs.Eval
import JPV.Proofs.Ndf.Builtin
namespace JPV.Proofs
open JPV JPV.Impl

/-- C17, first half, WITH filter selectors (built-in functions length/count/value): for EVERY choice script,
a well-typed query on a well-formed value within the depth limit completes in nondeterministic mode and its
result is one of the nodelists RFC 9535 permits (`Spec.ND.outcomes`): the truth of a filter does not depend
on the order in which embedded queries deliver their nodes (existence tests, `count`, `value` and singular
comparands are order-insensitive), the members a filter selects from an object come in any order, from an
array in index order. -/
theorem nd_find_permitted_builtin (env : Env) (q : Query) (v : Json) (s : ND.Script)
    (hf : env.funcs = Props.builtinEnv.funcs)
    (hwt : Spec.wtQuery (Props.sigsOf Props.builtinReg) q = true)
    (hw : v.WF) (hd : (v.depth : Int) ≤ env.maxDepth) (h1 : 1 ≤ env.maxDepth) :
    ∃ r, ND.find env q v s = .ok r ∧ r ∈ Spec.ND.outcomes Props.builtinReg q v := by
  obtain ⟨r, h, hp, _⟩ := Ndf.find_permitted_builtin env q v s hf hwt hw hd h1
  exact ⟨r, h, hp⟩

end JPV.Proofs
