import JPV.Impl.Serialize
import JPV.Spec.NormalizedPath
import JPV.Proofs.PathsLoc
import JPV.Proofs.PathsCanon
import JPV.Proofs.PathsInj
namespace JPV.Proofs
open JPV

theorem finditer_locations : ∀ (env : Impl.Env) (q : Query) (v : Json), v.WF →
    ∀ n ∈ (Impl.finditer env q v).1, Json.getAt v n.loc = some n.val := by
  intro env q v hwf n hn
  exact (finditer_closed (at_closed v) env q v ⟨rfl, hwf⟩ n hn).1

theorem finditer_idx_nonneg (env : Impl.Env) (q : Query) (v : Json) :
    ∀ n ∈ (Impl.finditer env q v).1, ∀ k ∈ n.loc, ∀ i, k = .idx i → 0 ≤ i :=
  finditer_closed idxNonneg_closed env q v (by intro k hk; simp at hk)

theorem canonicalString_normal : ∀ s : Str, Impl.canonicalString s = Spec.normalName s :=
  canonicalString_eq

theorem path_normal (loc : Loc) (h : ∀ k ∈ loc, ∀ i, k = .idx i → 0 ≤ i) :
    Impl.path loc = Spec.normalizedPath loc := path_eq loc h

theorem normalizedPath_injective (l1 l2 : Loc) (h1 : ∀ k ∈ l1, ∀ i, k = .idx i → 0 ≤ i)
    (h2 : ∀ k ∈ l2, ∀ i, k = .idx i → 0 ≤ i)
    (h : Spec.normalizedPath l1 = Spec.normalizedPath l2) : l1 = l2 :=
  normalizedPath_inj l1 l2 h1 h2 h

end JPV.Proofs
