import JPV.Impl.Serialize
import JPV.Spec.NormalizedPath
/-
`canonical_string` is the RFC 9535 normal-name-selector (C08, third clause).
-/
namespace JPV.Proofs
open JPV

theorem flatMap_congr' {α β} {l : List α} {f f' : α → List β} (h : ∀ x ∈ l, f x = f' x) :
    l.flatMap f = l.flatMap f' := by
  induction l with
  | nil => rfl
  | cons x xs ih =>
    rw [List.flatMap_cons, List.flatMap_cons, h x (by simp), ih (fun y hy => h y (by simp [hy]))]

/-! ### the first `str.replace`: `\"` ↦ `"` over a `json.dumps` body -/

def qOld : Str := ['\\', '"']
def qNew : Str := ['"']

theorem go1_match (f : Nat) (t : Str) :
    Py.replace.go qOld qNew (f + 1) ('\\' :: '"' :: t) = '"' :: Py.replace.go qOld qNew f t := by
  simp [Py.replace.go, qOld, qNew, List.isPrefixOf]

/-- no match where the next character is not a quote -/
theorem go1_skip (f : Nat) (c : Char) (cs : Str) (h : ∀ t, cs ≠ '"' :: t) :
    Py.replace.go qOld qNew (f + 1) (c :: cs) = c :: Py.replace.go qOld qNew f cs := by
  have : qOld.isPrefixOf (c :: cs) = false := by
    cases cs with
    | nil => simp [qOld, List.isPrefixOf]
    | cons d t =>
      have hd : d ≠ '"' := fun hd => h t (by rw [hd])
      have hd' : ('"' == d) = false := by
        simp only [beq_eq_false_iff_ne, ne_eq]; exact fun e => hd e.symm
      simp [qOld, List.isPrefixOf, hd']
  simp only [Py.replace.go, this]
  rfl

/-- a block without any quote is copied, provided no quote follows it -/
theorem go1_inert : ∀ (b : Str), '"' ∉ b → ∀ (f : Nat) (rest : Str), (∀ t, rest ≠ '"' :: t) →
    Py.replace.go qOld qNew (f + b.length) (b ++ rest) = b ++ Py.replace.go qOld qNew f rest := by
  intro b
  induction b with
  | nil => intro _ f rest _; rfl
  | cons x b ih =>
    intro hb f rest hrest
    have hb' : '"' ∉ b := fun h => hb (List.mem_cons_of_mem _ h)
    have hnext : ∀ t, b ++ rest ≠ '"' :: t := by
      cases b with
      | nil => simpa using hrest
      | cons y b' =>
        intro t ht
        simp only [List.cons_append, List.cons.injEq] at ht
        exact hb (by rw [← ht.1]; simp)
    simp only [List.cons_append, List.length_cons]
    rw [show f + (b.length + 1) = (f + b.length) + 1 by omega, go1_skip _ _ _ hnext, ih hb' f rest hrest]

theorem hex_facts : ∀ n < 16, Py.hexDigit n ≠ '"' ∧ Py.hexDigit n ≠ '\'' ∧
    Py.hexDigit n = Spec.lowerHex n := by decide

theorem toNat_lt_32 {c : Char} (h : c.toNat < 32) : c.toNat / 16 < 16 ∧ c.toNat % 16 < 16 := by
  omega

theorem esc_no_quote {c : Char} (hc : c ≠ '"') : '"' ∉ Py.jsonEscapeChar c := by
  unfold Py.jsonEscapeChar
  rw [if_neg hc]
  repeat' split
  all_goals first
    | decide
    | (next h =>
        have := toNat_lt_32 h
        simp [(hex_facts _ this.1).1.symm, (hex_facts _ this.2).1.symm])
    | (simp; exact fun e => hc e.symm)

theorem esc_quote : Py.jsonEscapeChar '"' = ['\\', '"'] := by decide

theorem esc_head (c : Char) : ∀ t, Py.jsonEscapeChar c ≠ '"' :: t := by
  intro t
  by_cases hc : c = '"'
  · subst hc; rw [esc_quote]; simp
  · intro h
    exact esc_no_quote hc (by rw [h]; simp)

theorem esc_ne_nil (c : Char) : Py.jsonEscapeChar c ≠ [] := by
  unfold Py.jsonEscapeChar
  repeat' split
  all_goals simp

theorem body_head (cs : Str) : ∀ t, cs.flatMap Py.jsonEscapeChar ≠ '"' :: t := by
  intro t
  cases cs with
  | nil => simp
  | cons c cs =>
    rw [List.flatMap_cons]
    cases h : Py.jsonEscapeChar c with
    | nil => exact absurd h (esc_ne_nil c)
    | cons x b =>
      intro h2
      simp only [List.cons_append, List.cons.injEq] at h2
      exact esc_head c b (by rw [h, h2.1])

/-- one character after `json.dumps` and the first replace -/
def canonStep1 (c : Char) : Str := if c = '"' then ['"'] else Py.jsonEscapeChar c

theorem go1_body : ∀ (s : Str) (fuel : Nat), (s.flatMap Py.jsonEscapeChar).length ≤ fuel →
    Py.replace.go qOld qNew fuel (s.flatMap Py.jsonEscapeChar) = s.flatMap canonStep1 := by
  intro s
  induction s with
  | nil => intro fuel _; cases fuel <;> rfl
  | cons c cs ih =>
    intro fuel hf
    rw [List.flatMap_cons, List.flatMap_cons]
    rw [List.flatMap_cons, List.length_append] at hf
    by_cases hc : c = '"'
    · subst hc
      rw [esc_quote] at hf ⊢
      simp only [List.length_cons, List.length_nil] at hf
      obtain ⟨f, rfl⟩ : ∃ f, fuel = f + 2 := ⟨fuel - 2, by omega⟩
      rw [show ['\\', '"'] ++ List.flatMap Py.jsonEscapeChar cs =
        '\\' :: '"' :: List.flatMap Py.jsonEscapeChar cs from rfl, go1_match, ih (f + 1) (by omega)]
      rfl
    · obtain ⟨f, rfl⟩ : ∃ f, fuel = f + (Py.jsonEscapeChar c).length :=
        ⟨fuel - (Py.jsonEscapeChar c).length, by omega⟩
      rw [go1_inert _ (esc_no_quote hc) f _ (body_head cs), ih f (by omega)]
      simp [canonStep1, hc]

theorem replace1_body (s : Str) :
    Py.replace (Py.jsonDumpsBody s) ['\\', '"'] ['"'] = s.flatMap canonStep1 := by
  unfold Py.replace Py.jsonDumpsBody
  rw [if_neg (by simp)]
  exact go1_body s _ (Nat.le_refl _)

/-! ### the second `str.replace`: `'` ↦ `\'` -/

def canonStep2 (x : Char) : Str := if x = '\'' then ['\\', '\''] else [x]

theorem go2 : ∀ (s : Str) (fuel : Nat), s.length ≤ fuel →
    Py.replace.go ['\''] ['\\', '\''] fuel s = s.flatMap canonStep2 := by
  intro s
  induction s with
  | nil => intro fuel _; cases fuel <;> rfl
  | cons c cs ih =>
    intro fuel hf
    simp only [List.length_cons] at hf
    obtain ⟨f, rfl⟩ : ∃ f, fuel = f + 1 := ⟨fuel - 1, by omega⟩
    rw [List.flatMap_cons, ← ih f (by omega)]
    by_cases hc : c = '\''
    · subst hc
      simp [Py.replace.go, List.isPrefixOf, canonStep2]
    · have : ('\'' == c) = false := by
        simp only [beq_eq_false_iff_ne, ne_eq]; exact fun e => hc e.symm
      simp [Py.replace.go, List.isPrefixOf, canonStep2, hc, this]

theorem replace2 (s : Str) : Py.replace s ['\''] ['\\', '\''] = s.flatMap canonStep2 := by
  unfold Py.replace
  rw [if_neg (by simp)]
  exact go2 s _ (Nat.le_refl _)

/-! ### per character -/

theorem perchar_small : ∀ n < 32,
    (canonStep1 (Char.ofNat n)).flatMap canonStep2 = Spec.normalChar (Char.ofNat n) := by decide

theorem perchar (c : Char) : (canonStep1 c).flatMap canonStep2 = Spec.normalChar c := by
  by_cases h32 : c.toNat < 32
  · have := perchar_small c.toNat h32
    rwa [Char.ofNat_toNat] at this
  · by_cases h1 : c = '"'
    · subst h1; decide
    · by_cases h2 : c = '\''
      · subst h2; decide
      · by_cases h3 : c = '\\'
        · subst h3; decide
        · have e1 : c ≠ '\n' := by rintro rfl; exact h32 (by decide)
          have e2 : c ≠ '\r' := by rintro rfl; exact h32 (by decide)
          have e3 : c ≠ '\t' := by rintro rfl; exact h32 (by decide)
          have n1 : c.toNat ≠ 8 := by omega
          have n2 : c.toNat ≠ 9 := by omega
          have n3 : c.toNat ≠ 10 := by omega
          have n4 : c.toNat ≠ 12 := by omega
          have n5 : c.toNat ≠ 13 := by omega
          simp [canonStep1, canonStep2, Py.jsonEscapeChar, Spec.normalChar, h1, h2, h3, e1, e2, e3,
            n1, n2, n3, n4, n5, h32]

theorem canonicalString_eq (s : Str) : Impl.canonicalString s = Spec.normalName s := by
  unfold Impl.canonicalString Spec.normalName
  simp only [replace1_body, replace2, List.flatMap_assoc]
  congr 2
  apply flatMap_congr'
  intro c _
  exact perchar c

/-! ### `repr(int)` for a non-negative index -/

theorem reprInt_nonneg (i : Int) (h : 0 ≤ i) : Py.reprInt i = Spec.natDecimal i.toNat := by
  cases i with
  | ofNat n => rfl
  | negSucc n => exact absurd h (by omega)

theorem path_eq (loc : Loc) (h : ∀ k ∈ loc, ∀ i, k = Key.idx i → 0 ≤ i) :
    Impl.path loc = Spec.normalizedPath loc := by
  unfold Impl.path Spec.normalizedPath
  congr 1
  apply flatMap_congr'
  intro k hk
  cases k with
  | name s => simp only [canonicalString_eq]
  | idx i => simp only [reprInt_nonneg i (h _ hk i rfl)]

end JPV.Proofs
