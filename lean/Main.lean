import JPV.Driver
def main : IO Unit := do
  JPV.Driver.loop (← IO.getStdin) (← IO.getStdout)
