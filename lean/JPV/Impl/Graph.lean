/-
`Impl.Graph` — `JSONPathRecursiveDescentSegment._visit` on data that is NOT a finite
tree: Python containers that refer to each other (or to themselves).  A `Heap`
maps an object identity to its CONTAINER children in iteration order (scalar
children play no role in `_visit`: it recurses into dicts and lists only).
`_visit(node, depth)` raises when `depth > max_recursion_depth`, so the
traversal enters at most `max_recursion_depth` levels: the model recurses on the
number of levels that may still be entered and is total whatever the heap's shape —
cycles included.
-/
import JPV.Impl.Eval
namespace JPV.Impl.G

structure Heap where
  kids : Nat → List (Key × Nat)

abbrev Out := List (Loc × Nat) × Option ErrKind

def Out.append (a b : Out) : Out :=
  match a.2 with
  | some e => (a.1, some e)
  | none => (a.1 ++ b.1, b.2)

mutual
/-- `_visit(node, depth)` with `rem = max_recursion_depth + 1 - depth` -/
def visit (h : Heap) : Nat → Loc → Nat → Out
  | 0, _, _ => ([], some .recursion)
  | rem + 1, loc, n =>
    let r := visitKids h rem loc (h.kids n)
    ((loc, n) :: r.1, r.2)
/-- the loop over the container children -/
def visitKids (h : Heap) : Nat → Loc → List (Key × Nat) → Out
  | _, _, [] => ([], none)
  | rem, loc, (k, c) :: rest => Out.append (visit h rem (loc ++ [k]) c) (visitKids h rem loc rest)
end

/-- the traversal `resolve` starts: `_visit(node)` with `depth = 1` -/
def visitTop (h : Heap) (max : Int) (root : Nat) : Out := visit h max.toNat [] root

/-- a chain of `k` child links starting at `n` (a path that enters `k` further containers) -/
inductive Chain (h : Heap) : Nat → Nat → Prop
  | zero (n : Nat) : Chain h n 0
  | succ {n c : Nat} {key : Key} {k : Nat} : (key, c) ∈ h.kids n → Chain h c k → Chain h n (k + 1)

/-- `m` is reachable from `n` by one or more child links -/
inductive Reach (h : Heap) : Nat → Nat → Prop
  | one {n c : Nat} {key : Key} : (key, c) ∈ h.kids n → Reach h n c
  | step {n c m : Nat} {key : Key} : (key, c) ∈ h.kids n → Reach h c m → Reach h n m

/-- the geometric bound 1 + B + … + B^(rem-1) -/
def geom (B : Nat) : Nat → Nat
  | 0 => 0
  | rem + 1 => 1 + B * geom B rem

end JPV.Impl.G
