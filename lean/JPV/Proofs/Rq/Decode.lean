import JPV.Proofs.Rq.LexMain
import JPV.Proofs.Strings
import JPV.Proofs.PrinterStr
namespace JPV.Proofs.Rq
open JPV JPV.Impl

/-- decoding the normalized spelling of a member name gives the name back -/
theorem decode_nameBody (s : Str) : Impl.decodeStringLiteral .sqString (nameBody s) = .ok s := by
  have h1 := string_literal_correct '\'' (.inl rfl) (nameBody s ++ ['\''])
  have h2 := Prn.body_all s ((nameBody s ++ ['\'']).length + 1) [] [] (by simp [nameBody])
  rw [show s.flatMap Spec.normalChar = nameBody s from rfl] at h2
  rw [h2] at h1
  unfold implString' at h1
  rw [scanString_of_scanned (by decide) (scanned_nameBody s) []] at h1
  simp only [quoteKind', if_true] at h1
  cases hd : Impl.decodeStringLiteral .sqString (nameBody s) with
  | error e => rw [hd] at h1; cases h1
  | ok s' => rw [hd] at h1; simp at h1; rw [h1]

end JPV.Proofs.Rq
