/-
`Proofs.Cf.LexPSel` — `Cs.BL_selector` (non-filter selectors) at an arbitrary filter depth `D`.
-/
import JPV.Proofs.Cf.LexPSlice
import JPV.Proofs.Cf.LexPStr
import JPV.Proofs.Cs.LexSel
namespace JPV.Proofs.Cf
open JPV JPV.Impl JPV.Proofs.Rq

variable {D : Int}

theorem FBL_selector {f : Nat} {inp rest : List Char} {sel : Spec.CSelector} (hin : Spec.skipS inp = inp)
    (h : Spec.selector (f + 1) inp = some (sel, rest)) (hff : Cs.ffSel sel = true) (hf : Cs.Follow rest) :
    FBL D inp (Cs.SelShape sel) rest := by
  cases inp with
  | nil =>
    rw [Spec.selector] at h
    · simp [Spec.stringLiteral, Cs.sliceSelector_eq, Spec.intLit, Cs.sliceMid, Spec.lit] at h
    · intro r e; cases e
    · intro r e; cases e
  | cons c t =>
    by_cases h1 : c = '*'
    · subst h1
      rw [Prn.selector_wild] at h
      simp only [Option.some.injEq, Prod.mk.injEq] at h
      obtain ⟨rfl, rfl⟩ := h
      refine (FBL_wild hin).mono ?_
      rintro ts ⟨k, rfl⟩
      exact .wild k
    · by_cases h2 : c = '?'
      · subst h2
        rw [Spec.selector] at h
        cases hl : Spec.logicalOr f (Spec.skipS t) with
        | none => simp [hl] at h
        | some p =>
          simp only [hl, Option.map_some, Option.some.injEq, Prod.mk.injEq] at h
          rw [← h.1] at hff
          simp [Cs.ffSel] at hff
      · rw [Prn.selector_other _ _ _ h1 h2] at h
        cases hs : Spec.stringLiteral (c :: t) with
        | some p =>
          obtain ⟨s, r⟩ := p
          simp only [hs, Option.some.injEq, Prod.mk.injEq] at h
          obtain ⟨rfl, rfl⟩ := h
          refine (FBL_str (inp := c :: t) (by rw [hin]; exact hs)).mono ?_
          rintro ts ⟨q, body, k, hq, hd, rfl⟩
          exact .name q body s k hq hd
        | none =>
          simp only [hs] at h
          cases hsl : Spec.sliceSelector (c :: t) with
          | some res =>
            simp only [hsl, Option.some.injEq] at h
            subst h
            exact FBL_slice hin hsl hf
          | none =>
            simp only [hsl] at h
            cases hi : Spec.intLit (c :: t) with
            | none => simp [hi] at h
            | some p =>
              obtain ⟨i, r⟩ := p
              simp only [hi, Option.map_some, Option.some.injEq, Prod.mk.injEq] at h
              obtain ⟨rfl, rfl⟩ := h
              refine (FBL_int (inp := c :: t) (by rw [hin]; exact hi) hf.noDigit).mono ?_
              rintro ts ⟨v, k, hv, rfl⟩
              exact .index v i k hv

end JPV.Proofs.Cf
