import JPV.Tables.Common
namespace JPV.Tables
open JPV JPV.Impl

/-- signatures of the built-in functions -/
theorem builtin_sigs_model : Generated.builtins =
    [("count", "Count", Impl.countFunc.argTypes.map tyName, tyName Impl.countFunc.ret),
     ("length", "Length", Impl.lengthFunc.argTypes.map tyName, tyName Impl.lengthFunc.ret),
     ("match", "Match", ["VALUE", "VALUE"], "LOGICAL"),
     ("search", "Search", ["VALUE", "VALUE"], "LOGICAL"),
     ("value", "Value", Impl.valueFunc.argTypes.map tyName, tyName Impl.valueFunc.ret)] := by decide +kernel

end JPV.Tables
