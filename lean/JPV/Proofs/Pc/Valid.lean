/-
`Proofs.Pc.Valid` — the canonical derivation tree of a well-typed query is VALID and UNDISPUTED:
`nbSegs` (no blank space inside any brackets) makes the second components of `Spec.cmpShapeSegs` /
`Spec.cSegs` `false`; `gSegs (csegs q)` (`Sv.Good`: comparison operands are terms, parenthesised arguments
meet LogicalType parameters) follows from well-typedness of `q`.
-/
import JPV.Spec.Valid
import JPV.Proofs.Sv.Good
import JPV.Proofs.Pc.CTree
namespace JPV.Proofs.Pc
open JPV

/-! ### no blanks ⇒ nothing disputed -/

mutual
def nbE : Spec.CExpr → Bool
  | .lit _ => true
  | .not e => nbE e
  | .paren e => nbE e
  | .and l r => nbE l && nbE r
  | .or l r => nbE l && nbE r
  | .cmp _ l r => nbE l && nbE r
  | .rel q => nbSegs q
  | .root q => nbSegs q
  | .call _ args => nbArgs args
def nbArgs : List Spec.CExpr → Bool
  | [] => true
  | a :: as => nbE a && nbArgs as
def nbSel : Spec.CSelector → Bool
  | .filter e => nbE e
  | _ => true
def nbSels : List Spec.CSelector → Bool
  | [] => true
  | s :: ss => nbSel s && nbSels ss
def nbSegs : List Spec.CSegment → Bool
  | [] => true
  | .child sels fl :: rest => !fl && nbSels sels && nbSegs rest
  | .desc sels :: rest => nbSels sels && nbSegs rest
end

theorem singular2_of_nb : (q : List Spec.CSegment) → nbSegs q = true → (Spec.singularSegs q).2 = false
  | [], _ => by simp [Spec.singularSegs]
  | .desc sels :: rest, _ => by simp [Spec.singularSegs]
  | .child sels fl :: rest, h => by
    simp only [nbSegs, Bool.and_eq_true, Bool.not_eq_true'] at h
    have ih := singular2_of_nb rest h.2
    obtain ⟨⟨rfl, _⟩, _⟩ := h
    cases sels with
    | nil => simp [Spec.singularSegs]
    | cons s t =>
      cases t with
      | cons s2 t2 => simp [Spec.singularSegs]
      | nil => cases s <;> simp [Spec.singularSegs, ih]

theorem operand2_of_nb (c : Spec.CExpr) (h : nbE c = true) : (Spec.operandShape c).2 = false := by
  cases c with
  | rel q => simp only [nbE] at h; simp only [Spec.operandShape]; exact singular2_of_nb q h
  | root q => simp only [nbE] at h; simp only [Spec.operandShape]; exact singular2_of_nb q h
  | _ => simp [Spec.operandShape]

mutual
theorem cmpShape2_of_nb : (c : Spec.CExpr) → nbE c = true → (Spec.cmpShapeExpr c).2 = false
  | .lit _, _ => by simp [Spec.cmpShapeExpr]
  | .not e, h => by simp only [nbE] at h; simp only [Spec.cmpShapeExpr]; exact cmpShape2_of_nb e h
  | .paren e, h => by simp only [nbE] at h; simp only [Spec.cmpShapeExpr]; exact cmpShape2_of_nb e h
  | .and l r, h => by
    simp only [nbE, Bool.and_eq_true] at h
    simp only [Spec.cmpShapeExpr, cmpShape2_of_nb l h.1, cmpShape2_of_nb r h.2, Bool.or_false]
  | .or l r, h => by
    simp only [nbE, Bool.and_eq_true] at h
    simp only [Spec.cmpShapeExpr, cmpShape2_of_nb l h.1, cmpShape2_of_nb r h.2, Bool.or_false]
  | .cmp _ l r, h => by
    simp only [nbE, Bool.and_eq_true] at h
    simp only [Spec.cmpShapeExpr, cmpShape2_of_nb l h.1, cmpShape2_of_nb r h.2, operand2_of_nb l h.1,
      operand2_of_nb r h.2, Bool.or_false]
  | .rel q, h => by simp only [nbE] at h; simp only [Spec.cmpShapeExpr]; exact cmpShapeSegs2_of_nb q h
  | .root q, h => by simp only [nbE] at h; simp only [Spec.cmpShapeExpr]; exact cmpShapeSegs2_of_nb q h
  | .call _ args, h => by
    simp only [nbE] at h; simp only [Spec.cmpShapeExpr]; exact cmpShapeArgs2_of_nb args h
theorem cmpShapeArgs2_of_nb : (as : List Spec.CExpr) → nbArgs as = true → (Spec.cmpShapeArgs as).2 = false
  | [], _ => by simp [Spec.cmpShapeArgs]
  | a :: as, h => by
    simp only [nbArgs, Bool.and_eq_true] at h
    simp only [Spec.cmpShapeArgs, cmpShape2_of_nb a h.1, cmpShapeArgs2_of_nb as h.2, Bool.or_false]
theorem cmpShapeSel2_of_nb : (s : Spec.CSelector) → nbSel s = true → (Spec.cmpShapeSel s).2 = false
  | .filter e, h => by simp only [nbSel] at h; simp only [Spec.cmpShapeSel]; exact cmpShape2_of_nb e h
  | .name _, _ => by simp [Spec.cmpShapeSel]
  | .index _, _ => by simp [Spec.cmpShapeSel]
  | .slice _ _ _, _ => by simp [Spec.cmpShapeSel]
  | .wild, _ => by simp [Spec.cmpShapeSel]
theorem cmpShapeSels2_of_nb : (ss : List Spec.CSelector) → nbSels ss = true →
    (Spec.cmpShapeSels ss).2 = false
  | [], _ => by simp [Spec.cmpShapeSels]
  | s :: ss, h => by
    simp only [nbSels, Bool.and_eq_true] at h
    simp only [Spec.cmpShapeSels, cmpShapeSel2_of_nb s h.1, cmpShapeSels2_of_nb ss h.2, Bool.or_false]
theorem cmpShapeSegs2_of_nb : (q : List Spec.CSegment) → nbSegs q = true →
    (Spec.cmpShapeSegs q).2 = false
  | [], _ => by simp [Spec.cmpShapeSegs]
  | .child sels fl :: rest, h => by
    simp only [nbSegs, Bool.and_eq_true] at h
    simp only [Spec.cmpShapeSegs, cmpShapeSels2_of_nb sels h.1.2, cmpShapeSegs2_of_nb rest h.2, Bool.or_false]
  | .desc sels :: rest, h => by
    simp only [nbSegs, Bool.and_eq_true] at h
    simp only [Spec.cmpShapeSegs, cmpShapeSels2_of_nb sels h.1, cmpShapeSegs2_of_nb rest h.2, Bool.or_false]
end

theorem band_snd (a b : Bool × Bool) : (Spec.band a b).2 = (a.2 || b.2) := rfl
theorem guard_snd (c : Bool) : (Spec.guard c).2 = false := rfl
theorem ok_snd : Spec.ok.2 = false := rfl
theorem bad_snd : Spec.bad.2 = false := rfl

mutual
theorem cTest2_of_nb (sg : Spec.Sigs) (lo hi : Int) : (c : Spec.CExpr) → nbE c = true →
    (Spec.cTest sg lo hi c).2 = false
  | .lit _, _ => by simp [Spec.cTest, bad_snd]
  | .not e, h => by simp only [nbE] at h; simp only [Spec.cTest]; exact cTest2_of_nb sg lo hi e h
  | .paren e, h => by simp only [nbE] at h; simp only [Spec.cTest]; exact cTest2_of_nb sg lo hi e h
  | .and l r, h => by
    simp only [nbE, Bool.and_eq_true] at h
    simp only [Spec.cTest, band_snd, cTest2_of_nb sg lo hi l h.1, cTest2_of_nb sg lo hi r h.2, Bool.or_false]
  | .or l r, h => by
    simp only [nbE, Bool.and_eq_true] at h
    simp only [Spec.cTest, band_snd, cTest2_of_nb sg lo hi l h.1, cTest2_of_nb sg lo hi r h.2, Bool.or_false]
  | .cmp _ l r, h => by
    simp only [nbE, Bool.and_eq_true] at h
    simp only [Spec.cTest, band_snd, cComparable2_of_nb sg lo hi l h.1, cComparable2_of_nb sg lo hi r h.2,
      Bool.or_false]
  | .rel q, h => by simp only [nbE] at h; simp only [Spec.cTest]; exact cSegs2_of_nb sg lo hi q h
  | .root q, h => by simp only [nbE] at h; simp only [Spec.cTest]; exact cSegs2_of_nb sg lo hi q h
  | .call f args, h => by
    simp only [nbE] at h
    simp only [Spec.cTest]
    cases sg f with
    | none => rfl
    | some s => simp only [band_snd, guard_snd, cArgs2_of_nb sg lo hi s.argTypes args h, Bool.or_false]
theorem cComparable2_of_nb (sg : Spec.Sigs) (lo hi : Int) : (c : Spec.CExpr) → nbE c = true →
    (Spec.cComparable sg lo hi c).2 = false
  | .lit _, _ => by simp [Spec.cComparable, guard_snd]
  | .not e, _ => by simp [Spec.cComparable, bad_snd]
  | .paren e, _ => by simp [Spec.cComparable, bad_snd]
  | .and l r, _ => by simp [Spec.cComparable, bad_snd]
  | .or l r, _ => by simp [Spec.cComparable, bad_snd]
  | .cmp _ l r, _ => by simp [Spec.cComparable, bad_snd]
  | .rel q, h => by
    simp only [nbE] at h
    simp only [Spec.cComparable, band_snd, singular2_of_nb q h, cSegs2_of_nb sg lo hi q h, Bool.or_false]
  | .root q, h => by
    simp only [nbE] at h
    simp only [Spec.cComparable, band_snd, singular2_of_nb q h, cSegs2_of_nb sg lo hi q h, Bool.or_false]
  | .call f args, h => by
    simp only [nbE] at h
    simp only [Spec.cComparable]
    cases sg f with
    | none => rfl
    | some s => simp only [band_snd, guard_snd, cArgs2_of_nb sg lo hi s.argTypes args h, Bool.or_false]
theorem cNodes2_of_nb (sg : Spec.Sigs) (lo hi : Int) : (c : Spec.CExpr) → nbE c = true →
    (Spec.cNodes sg lo hi c).2 = false
  | .lit _, _ => by simp [Spec.cNodes, bad_snd]
  | .not e, _ => by simp [Spec.cNodes, bad_snd]
  | .paren e, _ => by simp [Spec.cNodes, bad_snd]
  | .and l r, _ => by simp [Spec.cNodes, bad_snd]
  | .or l r, _ => by simp [Spec.cNodes, bad_snd]
  | .cmp _ l r, _ => by simp [Spec.cNodes, bad_snd]
  | .rel q, h => by simp only [nbE] at h; simp only [Spec.cNodes]; exact cSegs2_of_nb sg lo hi q h
  | .root q, h => by simp only [nbE] at h; simp only [Spec.cNodes]; exact cSegs2_of_nb sg lo hi q h
  | .call f args, h => by
    simp only [nbE] at h
    simp only [Spec.cNodes]
    cases sg f with
    | none => rfl
    | some s => simp only [band_snd, guard_snd, cArgs2_of_nb sg lo hi s.argTypes args h, Bool.or_false]
theorem cArgs2_of_nb (sg : Spec.Sigs) (lo hi : Int) : (tys : List Ty) → (as : List Spec.CExpr) →
    nbArgs as = true → (Spec.cArgs sg lo hi tys as).2 = false
  | [], [], _ => by simp [Spec.cArgs, ok_snd]
  | [], a :: as, _ => by simp [Spec.cArgs, bad_snd]
  | t :: ts, [], _ => by simp [Spec.cArgs, bad_snd]
  | t :: ts, a :: as, h => by
    simp only [nbArgs, Bool.and_eq_true] at h
    simp only [Spec.cArgs, band_snd, cArgs2_of_nb sg lo hi ts as h.2, Bool.or_false]
    cases t with
    | value => exact cComparable2_of_nb sg lo hi a h.1
    | logical => exact cTest2_of_nb sg lo hi a h.1
    | nodes => exact cNodes2_of_nb sg lo hi a h.1
theorem cSel2_of_nb (sg : Spec.Sigs) (lo hi : Int) : (s : Spec.CSelector) → nbSel s = true →
    (Spec.cSel sg lo hi s).2 = false
  | .filter e, h => by simp only [nbSel] at h; simp only [Spec.cSel]; exact cTest2_of_nb sg lo hi e h
  | .name _, _ => by simp [Spec.cSel, ok_snd]
  | .index _, _ => by simp [Spec.cSel, guard_snd]
  | .slice _ _ _, _ => by simp [Spec.cSel, guard_snd]
  | .wild, _ => by simp [Spec.cSel, ok_snd]
theorem cSels2_of_nb (sg : Spec.Sigs) (lo hi : Int) : (ss : List Spec.CSelector) → nbSels ss = true →
    (Spec.cSels sg lo hi ss).2 = false
  | [], _ => by simp [Spec.cSels, ok_snd]
  | s :: ss, h => by
    simp only [nbSels, Bool.and_eq_true] at h
    simp only [Spec.cSels, band_snd, cSel2_of_nb sg lo hi s h.1, cSels2_of_nb sg lo hi ss h.2, Bool.or_false]
theorem cSegs2_of_nb (sg : Spec.Sigs) (lo hi : Int) : (q : List Spec.CSegment) → nbSegs q = true →
    (Spec.cSegs sg lo hi q).2 = false
  | [], _ => by simp [Spec.cSegs, ok_snd]
  | .child sels fl :: rest, h => by
    simp only [nbSegs, Bool.and_eq_true] at h
    simp only [Spec.cSegs, band_snd, cSels2_of_nb sg lo hi sels h.1.2, cSegs2_of_nb sg lo hi rest h.2,
      Bool.or_false]
  | .desc sels :: rest, h => by
    simp only [nbSegs, Bool.and_eq_true] at h
    simp only [Spec.cSegs, band_snd, cSels2_of_nb sg lo hi sels h.1, cSegs2_of_nb sg lo hi rest h.2,
      Bool.or_false]
end

/-! ### the canonical tree has no blanks -/

mutual
theorem nb_cstr : (e : Expr) → nbE (cstr e) = true
  | .lit v => by rw [cstr_lit, nbE]
  | .not e => by
    have ih := nb_cstr e
    cases e with
    | lit v => rw [cstr_not_lit]; simp [nbE]
    | cmp o a b => rw [cstr_not_cmp, nbE, nbE]; exact ih
    | not x => rw [cstr_not_not, nbE, nbE]; exact ih
    | logical o a b => rw [cstr_not_logical, nbE]; exact ih
    | rel q => rw [cstr_not_rel, nbE]; exact ih
    | root q => rw [cstr_not_root, nbE]; exact ih
    | call f args => rw [cstr_not_call, nbE]; exact ih
  | .logical .and l r => by rw [cstr_and, nbE, nbE, nb_cstr l, nb_cstr r]; rfl
  | .logical .or l r => by rw [cstr_or, nbE, nbE, nb_cstr l, nb_cstr r]; rfl
  | .cmp op l r => by rw [cstr_cmp, nbE, nb_cstr l, nb_cstr r]; rfl
  | .rel q => by rw [cstr_rel, nbE]; exact nb_csegs q
  | .root q => by rw [cstr_root, nbE]; exact nb_csegs q
  | .call f args => by rw [cstr_call, nbE]; exact nb_cargs args
theorem nb_cargs : (as : List Expr) → nbArgs (cargs as) = true
  | [] => by rw [cargs_nil, nbArgs]
  | a :: as => by rw [cargs_cons, nbArgs, nb_cstr a, nb_cargs as]; rfl
theorem nb_ccanon : (e : Expr) → (p : Nat) → nbE (ccanon p e) = true
  | .lit v, p => by rw [ccanon_lit, nbE]
  | .not e, p => by
    rw [ccanon_not]
    split
    · rw [nbE, nbE]; exact nb_ccanon e 7
    · rw [nbE]; exact nb_ccanon e 7
  | .logical .and l r, p => by
    rw [ccanon_and]
    split
    · rw [nbE, nbE, nb_ccanon l 4, nb_ccanon r 4]; rfl
    · rw [nbE, nb_ccanon l 4, nb_ccanon r 4]; rfl
  | .logical .or l r, p => by
    rw [ccanon_or]
    split
    · rw [nbE, nbE, nb_ccanon l 3, nb_ccanon r 3]; rfl
    · rw [nbE, nb_ccanon l 3, nb_ccanon r 3]; rfl
  | .cmp op l r, p => by
    have := nb_cstr (.cmp op l r)
    rw [ccanon_cmp]
    split
    · rw [nbE]; exact this
    · exact this
  | .rel q, p => by rw [ccanon_rel]; exact nb_cstr (.rel q)
  | .root q, p => by rw [ccanon_root]; exact nb_cstr (.root q)
  | .call f args, p => by rw [ccanon_call]; exact nb_cstr (.call f args)
theorem nb_csel : (s : Selector) → nbSel (csel s) = true
  | .name s => by rw [csel_name]; simp [nbSel]
  | .index i => by rw [csel_index]; simp [nbSel]
  | .wild => by rw [csel_wild]; simp [nbSel]
  | .slice a b c => by rw [csel_slice]; simp [nbSel]
  | .filter e => by rw [csel_filter, nbSel]; exact nb_ccanon e 1
theorem nb_csels : (ss : List Selector) → nbSels (csels ss) = true
  | [] => by rw [csels_nil, nbSels]
  | s :: ss => by rw [csels_cons, nbSels, nb_csel s, nb_csels ss]; rfl
theorem nb_csegs : (q : List Segment) → nbSegs (csegs q) = true
  | [] => by rw [csegs_nil, nbSegs]
  | .child sels :: rest => by rw [csegs_child, nbSegs, nb_csels sels, nb_csegs rest]; rfl
  | .desc sels :: rest => by rw [csegs_desc, nbSegs, nb_csels sels, nb_csegs rest]; rfl
end

end JPV.Proofs.Pc
