/-
`Proofs.Float.RoundTrip` — the round trip through the query syntax of the text `repr(float)` prints
(`ReprRoundTrips`: what `Proofs.FloatRoundTrips` said while `FloatLiteral.__str__` was plain `repr`): for the
doubles of the model it holds exactly when that text is a FLOAT spelling for `Spec.numberValue` (it has a `.` or a
negative exponent: `ReprIsFloat`).  It FAILS for the doubles printed as `1e+16`, `1e+22`, `5e+300`, …: one
significant digit and a positive exponent read back as an `int`.  It also fails for the infinities (`inf`).
This is the defect that `Impl.strFloat` (see `Proofs.Float.StrFloat`) repairs.
-/
import JPV.Proofs.Float.Main
namespace JPV.Proofs.Float
open JPV JPV.Proofs.Cf

/-- `Proofs.FloatRoundTrips` for the OLD printing, plain `repr`: the text is a complete RFC 9535 number and denotes
the same value -/
def ReprRoundTrips (x : Num) : Prop :=
  Spec.numberSpelling (Py.reprFloat x) = some (Py.reprFloat x, []) ∧
  Spec.numberValue (Py.reprFloat x) = some x

/-- the text `repr` prints for `x` is a float spelling: it contains a `.` or a negative exponent -/
def ReprIsFloat (x : Num) : Prop := Cf.isFloatSp (Py.reprFloat x) = true

instance (x : Num) : Decidable (ReprIsFloat x) := by unfold ReprIsFloat; infer_instance

theorem intOfFloatText_eq (s : Str) : Py.intOfFloatText s =
    match Py.floatOfText s with
    | none => none
    | some x => if x.d = 0 then some none else some (some (Int.tdiv x.n x.d)) := rfl

/-- what `Spec.numberValue` makes of `repr(x)` for a double -/
theorem numberValue_reprFloat (x : Num) (h : IsDouble x) (hd : x.d ≠ 0) :
    Spec.numberValue (Py.reprFloat x) =
      if Cf.isFloatSp (Py.reprFloat x) then some x else some (Num.ofInt (Int.tdiv x.n x.d)) := by
  rw [numberValue_eq]
  have hf := (floatOfText_reprFloat x h).2
  split
  · exact hf
  · unfold numOfIntTok
    rw [intOfFloatText_eq, hf]
    simp only
    rw [if_neg hd]

theorem IsDouble.d_ne_zero {x : Num} (h : IsDouble x) : x.d ≠ 0 := by
  by_cases hn : x.n = 0
  · obtain ⟨_, hz | ⟨m, e, hm0, _, _, _, hg, hv⟩⟩ := h
    · rcases hz.2 with h | h <;> omega
    · intro hd
      rw [hn, hd] at hg
      simp at hg
  · exact (h.nonzero hn).2.1.ne'

/-- for a double, the round trip through the query syntax holds iff `repr` prints a float spelling -/
theorem reprRoundTrips_iff (x : Num) (h : IsDouble x) : ReprRoundTrips x ↔ ReprIsFloat x := by
  unfold ReprRoundTrips ReprIsFloat
  rw [numberValue_reprFloat x h h.d_ne_zero]
  constructor
  · rintro ⟨_, hv⟩
    by_contra hc
    rw [if_neg hc] at hv
    have : (Num.ofInt (Int.tdiv x.n x.d)).flt = x.flt := by rw [Option.some.inj hv]
    rw [h.1] at this
    exact absurd this (by simp [Num.ofInt])
  · intro hc
    exact ⟨(floatOfText_reprFloat x h).1, by rw [if_pos hc]⟩

theorem repr_round_trips (x : Num) (h : IsDouble x) (hf : ReprIsFloat x) : ReprRoundTrips x :=
  (reprRoundTrips_iff x h).mpr hf

/-- with plain `repr`, the infinities (`d = 0`) never round-trip: `inf` is not a number of the query syntax -/
theorem not_reprRoundTrips_inf (x : Num) (h : x.d = 0) : ¬ ReprRoundTrips x := by
  rintro ⟨hs, _⟩
  unfold Py.reprFloat at hs
  rw [if_pos h] at hs
  split at hs
  · exact absurd hs (by decide +kernel)
  · exact absurd hs (by decide +kernel)

end JPV.Proofs.Float
