/-
`Proofs.Cf.Refute` — `compile_complete` as stated (for *every* environment) is false: an environment may
register a function extension whose name begins with a keyword literal (`true…`, `false…`, `null…`); the
grammar reads `truex(@.a)` as a function expression, the implementation's lexer emits TRUE first.
-/
import JPV.Impl.Parse
import JPV.Spec.Grammar
import JPV.Spec.Valid
import JPV.Proofs.ParseTyping
namespace JPV.Proofs.Cf
open JPV JPV.Impl

def kwFunc : Func := { argTypes := [.nodes], ret := .logical, body := fun _ => .ok (.val (.bool true)) }
def kwEnv : Env := { funcs := [(['t', 'r', 'u', 'e', 'x'], kwFunc)] }
/-- `$[?truex(@.a)]` -/
def kwQuery : Str := ['$', '[', '?', 't', 'r', 'u', 'e', 'x', '(', '@', '.', 'a', ')', ']']
def kwCst : List Spec.CSegment :=
  [.child [.filter (.call ['t', 'r', 'u', 'e', 'x'] [.rel [.child [.name ['a']] false]])] false]

theorem kw_judge : Spec.judge (sigsOfEnv' kwEnv) kwEnv.minIdx kwEnv.maxIdx kwQuery = (.valid, some kwCst) := by
  rfl

theorem kw_compile : (match Impl.compile kwEnv kwQuery with | .ok _ => false | .error _ => true) = true := by
  decide +kernel

/-- the statement of `compile_complete`, quantified over every environment, does not hold -/
theorem compile_complete_refuted :
    ¬ (∀ (env : Env) (s : Str) (c : List Spec.CSegment),
        Spec.judge (sigsOfEnv' env) env.minIdx env.maxIdx s = (.valid, some c) →
        Impl.compile env s = .ok (Spec.abstractSegs c)) := by
  intro h
  have h1 := h kwEnv kwQuery kwCst kw_judge
  have h2 := kw_compile
  rw [h1] at h2
  cases h2

end JPV.Proofs.Cf
