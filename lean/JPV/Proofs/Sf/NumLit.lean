/-
`Proofs.Sf.NumLit` — the number tokens of the filter lexer (`RE_FLOAT`, `RE_INT`) that the parser accepts
(`litVal`: no leading zero, `float()` succeeds) are spelled as the RFC grammar's `number`, with the value the
grammar gives that spelling.
-/
import JPV.Proofs.Sf.Shape
import JPV.Proofs.LexInv
import JPV.Proofs.Sf.NumAux
namespace JPV.Proofs.Sf
open JPV JPV.Impl

/-- a FLOAT match that the parser can accept starts at a `-?[0-9]+` match and is followed by a fraction
(first alternative) or by a negative exponent (second alternative) -/
theorem reFloat_inv {x : List Char} {n : Nat} {k : Int} {v : Json} (hre : reFloat x = some n)
    (hv : litVal ⟨.float, x.take n, k⟩ = some v) :
    ∃ n0, reSignedDigits x = some n0 ∧
      n = n0 + (fracLen (x.drop n0) + reExpOpt (x.drop (n0 + fracLen (x.drop n0)))) ∧
      (fracLen (x.drop n0) ≠ 0 ∨ ∃ e r', x.drop n0 = e :: '-' :: r' ∧ (e = 'e' ∨ e = 'E') ∧
        spanLen isDigit r' ≠ 0) := by
  unfold reFloat at hre
  rcases orElse_some hre with h | h
  · rw [reFloatAlt1_eq] at h
    have main : floatTry 0 x = some n → ∃ n0, reSignedDigits x = some n0 ∧
        n = n0 + (fracLen (x.drop n0) + reExpOpt (x.drop (n0 + fracLen (x.drop n0)))) ∧
        (fracLen (x.drop n0) ≠ 0 ∨ ∃ e r', x.drop n0 = e :: '-' :: r' ∧ (e = 'e' ∨ e = 'E') ∧
          spanLen isDigit r' ≠ 0) := by
      intro h
      have h' := h
      unfold floatTry at h'
      split at h'
      · cases h'
      · rename_i n0 h0
        rw [floatTry_eq h0] at h
        split at h
        · cases h
        · rename_i hfl
          simp only [Option.some.injEq] at h
          exact ⟨n0, h0, by omega, Or.inl hfl⟩
    split at h
    · rename_i r
      exfalso
      have hf := (litVal_float hv).2
      cases n with
      | zero => rw [List.take_zero, floatOfText_nil] at hf; cases hf
      | succ m => rw [List.take_succ_cons, floatOfText_colon] at hf; cases hf
    · exact main h
  · obtain ⟨n0, e, r', h0, hd, he, hne, hn⟩ := reFloatAlt2_some h
    have hdot : e ≠ '.' := by rcases he with rfl | rfl <;> decide
    refine ⟨n0, h0, ?_, Or.inr ⟨e, r', hd, he, hne⟩⟩
    rw [hd, fracLen_ne_dot _ hdot, Nat.add_zero, hd, reExpOpt_minus he, if_neg hne]
    omega

/-- a FLOAT token the parser accepts is a `number` of the grammar with the same value -/
theorem literal_of_float {x : List Char} {n : Nat} {k : Int} {v : Json} (hre : reFloat x = some n)
    (hv : litVal ⟨.float, x.take n, k⟩ = some v) : Spec.literal x = some (v, x.drop n) := by
  obtain ⟨n0, h0, hn, hk⟩ := reFloat_inv hre hv
  obtain ⟨hz, hf⟩ := litVal_float hv
  have hfl : isFloatSp (x.take n) = true := by
    rcases hk with hk | ⟨e, r', hd, he, hne⟩
    · exact isFloat_frac h0 hn hk
    · exact isFloat_negexp h0 hn hd he hne
  rw [literal_core h0 hn hz, numberValue_eq, hfl, if_pos rfl]
  cases hft : Py.floatOfText (x.take n) with
  | none => rw [hft] at hf; cases hf
  | some y =>
    rw [hft] at hf
    simp only [Option.map_some, Option.some.injEq] at hf
    rw [← hf]; rfl

theorem reSignedDigits_colon (r : List Char) : reSignedDigits (':' :: r) = none := by
  have h : isDigit ':' = false := by decide
  simp [reSignedDigits, spanLen, h]

/-- an INT match where `RE_FLOAT` does not match: no fraction follows the digits, and the exponent (if any)
is not negative -/
theorem reInt_inv {x : List Char} {n : Nat} (hf : reFloat x = none) (hre : reInt x = some n) :
    ∃ n0, reSignedDigits x = some n0 ∧
      n = n0 + (fracLen (x.drop n0) + reExpOpt (x.drop (n0 + fracLen (x.drop n0)))) ∧
      fracLen (x.drop n0) = 0 ∧
      (∀ e r', x.drop n0 = e :: '-' :: r' → (e = 'e' ∨ e = 'E') → spanLen isDigit r' = 0) := by
  have h0 : ∃ n0, reSignedDigits x = some n0 := by
    unfold reInt at hre
    split at hre
    · cases hre
    · rename_i n0 h0; exact ⟨n0, h0⟩
  obtain ⟨n0, h0⟩ := h0
  unfold reFloat at hf
  have h1 : reFloatAlt1 x = none := by
    cases h : reFloatAlt1 x with
    | none => rfl
    | some m => rw [h] at hf; cases hf
  have h2 : reFloatAlt2 x = none := by rw [h1] at hf; exact hf
  have h1' : floatTry 0 x = none := by
    rw [reFloatAlt1_eq] at h1
    split at h1
    · rw [reSignedDigits_colon] at h0; cases h0
    · exact h1
  have hfl : fracLen (x.drop n0) = 0 := by
    rw [floatTry_eq h0] at h1'
    split at h1'
    · assumption
    · cases h1'
  have hm : ∀ e r', x.drop n0 = e :: '-' :: r' → (e = 'e' ∨ e = 'E') → spanLen isDigit r' = 0 :=
    fun e r' hd he => reFloatAlt2_none h0 h2 hd he
  rw [reInt_eq h0 hm] at hre
  simp only [Option.some.injEq] at hre
  refine ⟨n0, h0, ?_, hfl, hm⟩
  rw [hfl, Nat.add_zero, Nat.zero_add]
  exact hre.symm

/-- an INT token (lexed only where `RE_FLOAT` does not match) the parser accepts is a `number` of the
grammar with the same value -/
theorem literal_of_int {x : List Char} {n : Nat} {k : Int} {v : Json} (hf : reFloat x = none)
    (hre : reInt x = some n) (hv : litVal ⟨.int, x.take n, k⟩ = some v) :
    Spec.literal x = some (v, x.drop n) := by
  obtain ⟨n0, h0, hn, hfl, hm⟩ := reInt_inv hf hre
  obtain ⟨hz, hi⟩ := litVal_int hv
  have hnf : isFloatSp (x.take n) = false := isFloat_int h0 hn hfl hm
  rw [literal_core h0 hn hz, numberValue_eq, hnf]
  simp only [Bool.false_eq_true, if_false]
  cases hift : Py.intOfFloatText (x.take n) with
  | none => rw [hift] at hi; cases hi
  | some o =>
    rw [hift] at hi
    cases o with
    | some i =>
      simp only [Option.some.injEq] at hi
      rw [← hi]; rfl
    | none =>
      simp only at hi ⊢
      cases hft : Py.floatOfText (x.take n) with
      | none => rw [hft] at hi; cases hi
      | some y =>
        rw [hft] at hi
        simp only [Option.map_some, Option.some.injEq] at hi
        rw [← hi]; rfl

end JPV.Proofs.Sf
