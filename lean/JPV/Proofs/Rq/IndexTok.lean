import JPV.Proofs.Rq.LexMain
namespace JPV.Proofs.Rq
open JPV JPV.Impl

theorem index_no_leading_zero (n : Nat) :
    ((decide ((Nat.toDigits 10 n).length > 1) && decide ((Nat.toDigits 10 n).head? = some '0'))
      || ['-', '0'].isPrefixOf (Nat.toDigits 10 n)) = false := by
  by_cases h0 : n = 0
  · subst h0; decide
  · obtain ⟨d, ds, e, hd⟩ := Prn.toDigits_head n (by omega)
    have h1 : d ≠ '0' := by rintro rfl; revert hd; decide
    have h2 : d ≠ '-' := by rintro rfl; revert hd; decide
    rw [e]
    simp [h1, List.isPrefixOf, Ne.symm h2]

theorem intOfText_toDigits (n : Nat) : Py.intOfText (Nat.toDigits 10 n) = some (n : Int) := by
  have hall : Py.allDigits (Nat.toDigits 10 n) = true := by
    unfold Py.allDigits
    have : (fun c => decide ('0' ≤ c) && decide (c ≤ '9')) = isDigit := rfl
    rw [this]
    have h1 : (Nat.toDigits 10 n).all isDigit = true := List.all_eq_true.mpr (isDigit_toDigits n)
    have h2 : (Nat.toDigits 10 n).isEmpty = false := by
      cases h : Nat.toDigits 10 n with
      | nil => exact absurd h Nat.toDigits_ne_nil
      | cons => rfl
    rw [h1, h2]; rfl
  unfold Py.intOfText
  split
  · rename_i r heq
    have := isDigit_toDigits n '-' (by rw [heq]; simp)
    exact absurd this (by decide)
  · rw [hall, if_pos rfl, Prn.digitsToNat_toDigits]

end JPV.Proofs.Rq
