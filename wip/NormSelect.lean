import JPV.Spec.Semantics
import JPV.Proofs.PrintCompile
namespace JPV.Proofs
open JPV

/-- writing out an omitted slice step as `1`, at every nesting level, does not change what a query selects:
same nodes, same order, on every JSON value, for every function registry -/
theorem select_normSegs (reg : Spec.Registry) (q : Query) (v : Json) :
    Spec.select reg (normSegs q) v = Spec.select reg q v := by
  sorry

end JPV.Proofs
