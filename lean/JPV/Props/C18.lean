/-
C18 — Descendant traversal is bounded: deep data raises JSONPathRecursionError.

Property text: "Applying a descendant segment to data whose container nesting
does not exceed the environment's max_recursion_depth always completes with the
full result; applying it to deeper or self-referential data raises
JSONPathRecursionError in bounded time, never an interpreter RecursionError, a
hang or unbounded memory growth. The bound is the one configured on the
environment, in both deterministic and nondeterministic mode."

This file: the deterministic traversal `_visit` on finite trees (all shapes, the
deep branch anywhere: the statement is in terms of `Json.depth`, a max over
branches).  Cyclic data and the nondeterministic mode are in `C18Graph`/`C17`.
-/
import JPV.Props.Common
import JPV.Proofs.Visit
namespace JPV.Props
open JPV

/-- exact boundary: `_visit` raises iff the container nesting exceeds the limit -/
def C18_boundary_statement : Prop :=
  ∀ (max : Int) (loc : Loc) (v : Json),
    ((Impl.visit max 1 loc v).2 = none ↔ (1 ≤ max ∧ (v.depth : Int) ≤ max)) ∧
    ((Impl.visit max 1 loc v).2 = none ∨ (Impl.visit max 1 loc v).2 = some .recursion)

theorem C18_boundary : C18_boundary_statement := Proofs.visit_boundary

/-- within the limit the traversal completes and visits exactly the input node
and every container descendant, in document pre-order (scalars are skipped; no
selector selects anything from a scalar, see `C01`) -/
theorem C18_complete (max : Int) (loc : Loc) (v : Json) (h : (v.depth : Int) ≤ max) (h1 : 1 ≤ max) :
    Impl.visit max 1 loc v =
      ((Spec.descendants loc v).filter (fun n => n.val.isContainer || n.loc == loc), none) :=
  Proofs.visit_complete max loc v h h1

/-- beyond the limit the stream ends in JSONPathRecursionError after finitely
many nodes, all of them genuine descendants (a prefix of the full traversal) -/
theorem C18_raise (max : Int) (loc : Loc) (v : Json) (h : (v.depth : Int) > max) :
    (Impl.visit max 1 loc v).2 = some .recursion ∧
    (Impl.visit max 1 loc v).1 <+:
      (Spec.descendants loc v).filter (fun n => n.val.isContainer || n.loc == loc) :=
  Proofs.visit_raise max loc v h

/-- the work done is bounded by the size of the document -/
theorem C18_steps (max : Int) (loc : Loc) (v : Json) :
    (Impl.visit max 1 loc v).1.length ≤ v.size := Proofs.visit_length max loc v

example : (Impl.visit 2 1 [] (.arr [.arr [.arr []]])).2 = some .recursion := by decide
example : (Impl.visit 3 1 [] (.arr [.arr [.arr []]])).2 = none := by decide

end JPV.Props
