import JPV.Tables.Common
namespace JPV.Tables
open JPV JPV.Impl

/-- `PRECEDENCES.get(kind, PRECEDENCE_LOWEST)` of the source, for every token kind of the model -/
theorem precedences_model :
    (match tableK Generated.precedences with
     | some t => allKinds.all (fun k => (Impl.precedence k : Int) = (lookupK k t).getD (constOf "PRECEDENCE_LOWEST"))
     | none => false) = true := by decide +kernel

end JPV.Tables
