/-
Models of the CPython / stdlib primitives the implementation leans on.
Each is a small total function; each is *assumed* to describe CPython 3.12 and
is exercised directly by a correspondence op of its own (`py.*`), see DESIGN §6.
-/
import JPV.Json
namespace JPV.Py

/-- `xs[i]` for a Python list: negative indices wrap once; `none` = IndexError. -/
def index {α} (xs : List α) (i : Int) : Option α :=
  let len : Int := xs.length
  let j := if i < 0 then i + len else i
  if j < 0 ∨ j ≥ len then none else xs[j.toNat]?

/-- `slice(start, stop, step).indices(len)` (sliceobject.c `_PySlice_GetLongIndices`).
`none` = `ValueError` (step 0). -/
def sliceIndices (len : Nat) (start stop step : Option Int) : Option (Int × Int × Int) :=
  let st : Int := step.getD 1
  if st = 0 then none else
  let neg := st < 0
  let lower : Int := if neg then -1 else 0
  let upper : Int := if neg then (len : Int) - 1 else len
  let clip (v : Int) : Int :=
    if v < 0 then (if v + len < lower then lower else v + len)
    else (if v > upper then upper else v)
  let s := match start with
    | none => if neg then upper else lower
    | some v => clip v
  let e := match stop with
    | none => if neg then lower else upper
    | some v => clip v
  some (s, e, st)

/-- `len(range(start, stop, step))` (rangeobject.c `compute_range_length`), step ≠ 0. -/
def rangeLen (start stop step : Int) : Nat :=
  if step > 0 then
    (if start < stop then ((stop - start - 1) / step + 1).toNat else 0)
  else
    (if stop < start then ((start - stop - 1) / (-step) + 1).toNat else 0)

/-- `list(range(start, stop, step))`, step ≠ 0. -/
def range (start stop step : Int) : List Int :=
  (List.range (rangeLen start stop step)).map (fun (k : Nat) => start + (k : Int) * step)

/-- `zip(range(*slice(a,b,c).indices(len(xs))), xs[slice(a,b,c)])`.
List slicing picks the elements at `range(*indices)` (listobject.c `list_subscript`);
all those indices are within bounds, which `C07` proves rather than assumes:
an out-of-bounds index would make this list shorter than the range. -/
def sliceZip {α} (xs : List α) (start stop step : Option Int) : Option (List (Int × α)) :=
  match sliceIndices xs.length start stop step with
  | none => none
  | some (s, e, st) =>
    some ((range s e st).filterMap (fun i => if i < 0 then none else (xs[i.toNat]?).map (fun x => (i, x))))

/-- `len(s)` of a `str` counts code points. -/
def strLen (s : Str) : Nat := s.length

/-- `str.replace(old, new)`: left to right, non-overlapping; `old` non-empty. -/
def replace (s old new : Str) : Str :=
  if old.isEmpty then s else go s.length s
where
  go : Nat → Str → Str
  | 0, s => s
  | _, [] => []
  | fuel + 1, c :: cs =>
    if old.isPrefixOf (c :: cs) then new ++ go fuel ((c :: cs).drop old.length)
    else c :: go fuel cs

def hexDigit (n : Nat) : Char := if n < 10 then Char.ofNat (48 + n) else Char.ofNat (87 + n)

/-- `json.dumps(s, ensure_ascii=False)[1:-1]`: `ESCAPE` table of json/encoder.py. -/
def jsonEscapeChar (c : Char) : Str :=
  if c = '"' then ['\\', '"']
  else if c = '\\' then ['\\', '\\']
  else if c = '\n' then ['\\', 'n']
  else if c = '\r' then ['\\', 'r']
  else if c = '\t' then ['\\', 't']
  else if c.toNat = 8 then ['\\', 'b']
  else if c.toNat = 12 then ['\\', 'f']
  else if c.toNat < 32 then
    ['\\', 'u', '0', '0', hexDigit (c.toNat / 16), hexDigit (c.toNat % 16)]
  else [c]

def jsonDumpsBody (s : Str) : Str := s.flatMap jsonEscapeChar

/-- `repr(i)` for an int. -/
def reprInt (i : Int) : Str := (toString i).toList

end JPV.Py

namespace JPV.Py

/-! ### `float(text)` for the lexer's number spellings

Round-to-nearest-even onto binary64 with integer arithmetic.  *Modelled*, not
verified: assumed to describe CPython's `float()` (correctly rounded
`strtod`); exercised directly by the `py.float` correspondence op. -/

/-- quotient and "twice the remainder compared with the divisor" of `n / (d * 2^e)` (`e` may be negative) -/
def scaledDiv (n d : Nat) (e : Int) : Nat × Nat × Nat :=
  if e ≥ 0 then
    let den := d * 2 ^ e.toNat
    (n / den, n % den, den)
  else
    let num := n * 2 ^ (-e).toNat
    (num / d, num % d, d)

/-- Nearest binary64 to the non-negative rational `n / d` (`d > 0`), ties to even:
`some (m, e)` is the value `m * 2^e` with `m < 2^53`, `e ≥ -1074`; `none` is overflow (`inf`). -/
def roundBinary64 (n d : Nat) : Option (Nat × Int) :=
  if n = 0 then some (0, 0) else
  let e0 : Int := (Nat.log2 n : Int) - (Nat.log2 d : Int) - 52
  -- the right exponent is one of e0-1, e0, e0+1 (or the subnormal floor)
  let pick (e : Int) : Option Int :=
    let e' := if e < -1074 then -1074 else e
    let (q, _, _) := scaledDiv n d e'
    if q < 2 ^ 53 ∧ (q ≥ 2 ^ 52 ∨ e' = -1074) then some e' else none
  let e := ((pick (e0 - 1)).orElse (fun _ => (pick e0).orElse (fun _ => pick (e0 + 1)))).getD (e0 + 2)
  let (q, r, den) := scaledDiv n d e
  let q := if 2 * r > den ∨ (2 * r = den ∧ q % 2 = 1) then q + 1 else q
  let (q, e) := if q = 2 ^ 53 then (2 ^ 52, e + 1) else (q, e)
  if e > 971 then none else some (q, e)

/-- reduce `m * 2^e` to an exact fraction in lowest terms (what `as_integer_ratio` returns) -/
def ratioOfBinary (m : Nat) (e : Int) : Nat × Nat :=
  if e ≥ 0 then (m * 2 ^ e.toNat, 1) else
  let d := 2 ^ (-e).toNat
  let g := Nat.gcd m d
  (m / g, d / g)

def digitsToNat (ds : List Char) : Nat := ds.foldl (fun acc c => acc * 10 + (c.toNat - 48)) 0

def allDigits (ds : List Char) : Bool := !ds.isEmpty && ds.all (fun c => '0' ≤ c && c ≤ '9')

/-- A decimal spelling `-?D+(.D+)?([eE][+-]?D+)?` as sign and exact rational `n / d`;
`none` = Python's `float()` would raise `ValueError` (e.g. the stray `:` RE_FLOAT admits). -/
def parseDecimal (s : Str) : Option (Bool × Nat × Nat) :=
  let (neg, s) := match s with
    | '-' :: r => (true, r)
    | _ => (false, s)
  let ip := s.takeWhile (fun c => '0' ≤ c && c ≤ '9')
  let r := s.drop ip.length
  let (fp, r) := match r with
    | '.' :: r' =>
      let f := r'.takeWhile (fun c => '0' ≤ c && c ≤ '9')
      (some f, r'.drop f.length)
    | _ => (none, r)
  let ex : Option Int := match r with
    | [] => some 0
    | e :: r' =>
      if e = 'e' || e = 'E' then
        let (sg, ds) := match r' with
          | '+' :: ds => (1, ds)
          | '-' :: ds => (-1, ds)
          | _ => ((1 : Int), r')
        if allDigits ds then some (sg * (digitsToNat ds : Int)) else none
      else none
  -- exponents far outside the double range are clamped (same rounded result: ±inf or ±0), so that the
  -- model never raises 10 to an astronomically large power
  let mk (mant : Nat) (x' : Int) : Bool × Nat × Nat :=
    let nd : Int := (toString mant).length
    if mant = 0 then (neg, 0, 1)
    else if x' > 400 then (neg, 10 ^ 400, 1)
    else if x' + nd < -400 then (neg, 1, 10 ^ 400)
    else if x' ≥ 0 then (neg, mant * 10 ^ x'.toNat, 1) else (neg, mant, 10 ^ (-x').toNat)
  if !allDigits ip then none else
  match fp, ex with
  | some f, some x =>
    if !allDigits f then none else
    some (mk (digitsToNat (ip ++ f)) (x - (f.length : Int)))
  | none, some x => some (mk (digitsToNat ip) x)
  | _, none => none

/-- `float(text)` as a `Num` (`d = 0` for ±inf); `none` = `ValueError`. -/
def floatOfText (s : Str) : Option Num :=
  match parseDecimal s with
  | none => none
  | some (neg, n, d) =>
    match roundBinary64 n d with
    | none => some ⟨true, if neg then -1 else 1, 0⟩
    | some (m, e) =>
      let (a, b) := ratioOfBinary m e
      -- `-0.0` is represented as `0/2` (numerically zero, distinguishable for `repr`)
      if neg ∧ a = 0 then some ⟨true, 0, 2⟩ else
      some ⟨true, if neg then -(a : Int) else a, b⟩

/-- `int(float(text))`: `none` = `ValueError`, `some none` = `OverflowError` (inf). -/
def intOfFloatText (s : Str) : Option (Option Int) :=
  match floatOfText s with
  | none => none
  | some x => if x.d = 0 then some none else some (some (Int.tdiv x.n x.d))

/-- `int(text)` for `-?[0-9]+` -/
def intOfText (s : Str) : Option Int :=
  match s with
  | '-' :: r => if allDigits r then some (-(digitsToNat r : Int)) else none
  | _ => if allDigits s then some (digitsToNat s : Int) else none

end JPV.Py

namespace JPV.Py

/-! ### `repr(float)`

Shortest decimal that reads back to the same double, laid out as CPython's
`float_repr` does (`repr` style: exponent form when the decimal point position
is > 16 or < -3).  *Modelled*, not verified; exercised by the `py.repr` op. -/

def natDigits (n : Nat) : List Char := (toString n).toList

/-- `n / d` rounded half-even to an integer -/
def roundHalfEven (n d : Nat) : Nat :=
  let q := n / d
  let r := n % d
  if 2 * r > d ∨ (2 * r = d ∧ q % 2 = 1) then q + 1 else q

/-- number of decimal digits of the integer part position: the `e` with `10^(e-1) ≤ n/d < 10^e`
(for `n > 0`), found by search from an estimate -/
def decimalExponent (n d : Nat) : Int :=
  -- estimate from bit lengths, then correct
  let est : Int := ((Nat.log2 n : Int) - (Nat.log2 d : Int)) * 30103 / 100000
  let ge (e : Int) : Bool :=  -- n/d ≥ 10^e
    if e ≥ 0 then n ≥ d * 10 ^ e.toNat else n * 10 ^ (-e).toNat ≥ d
  let rec up (fuel : Nat) (e : Int) : Int :=
    match fuel with
    | 0 => e
    | f + 1 => if ge e then up f (e + 1) else e
  let rec down (fuel : Nat) (e : Int) : Int :=
    match fuel with
    | 0 => e
    | f + 1 => if ge (e - 1) then e else down f (e - 1)
  down 8 (up 8 (est - 2))

/-- the k most significant decimal digits of `n/d` (rounded half-even) and the
decimal point position `decpt` such that value ≈ 0.DIGITS × 10^decpt -/
def toDigits (n d : Nat) (k : Nat) : Nat × Int :=
  let e := decimalExponent n d         -- 10^(e-1) ≤ n/d < 10^e
  let sh : Int := (k : Int) - e        -- scale by 10^sh
  let m := if sh ≥ 0 then roundHalfEven (n * 10 ^ sh.toNat) d else roundHalfEven n (d * 10 ^ (-sh).toNat)
  if m ≥ 10 ^ k then (m / 10, e + 1) else (m, e)

def stripTrailingZeros (ds : List Char) : List Char :=
  (ds.reverse.dropWhile (· = '0')).reverse

/-- `repr(x)` for a finite non-negative double given exactly as `n / d` -/
def reprPos (n d : Nat) : Str :=
  if n = 0 then "0.0".toList else
  let target := roundBinary64 n d
  let rec find (fuel : Nat) (k : Nat) : Nat × Int :=
    match fuel with
    | 0 => toDigits n d 17
    | f + 1 =>
      let (m, e) := toDigits n d k
      let back := if (e - (k : Int)) ≥ 0 then roundBinary64 (m * 10 ^ (e - k).toNat) 1
                  else roundBinary64 m (10 ^ ((k : Int) - e).toNat)
      if back = target ∨ k ≥ 17 then (m, e) else find f (k + 1)
  let (m, decpt) := find 17 1
  let ds := stripTrailingZeros (natDigits m)
  let ds := if ds.isEmpty then ['0'] else ds
  let nd : Int := ds.length
  if decpt > 16 ∨ decpt < -3 then
    -- exponent form d.ddde±XX
    let mant := match ds with
      | [c] => [c]
      | c :: rest => c :: '.' :: rest
      | [] => ['0']
    let ex := decpt - 1
    let exs := natDigits ex.natAbs
    let exs := if exs.length < 2 then '0' :: exs else exs
    mant ++ ['e', if ex < 0 then '-' else '+'] ++ exs
  else if decpt ≤ 0 then
    "0.".toList ++ List.replicate (-decpt).toNat '0' ++ ds
  else if nd ≤ decpt then
    ds ++ List.replicate (decpt - nd).toNat '0' ++ ".0".toList
  else
    ds.take decpt.toNat ++ ['.'] ++ ds.drop decpt.toNat

/-- `repr(x)` for a Python float given as a `Num` (`-0.0` cannot be told from `0.0`
in this representation: see `Impl.Serialize`) -/
def reprFloat (x : Num) : Str :=
  if x.d = 0 then (if x.n < 0 then "-inf".toList else "inf".toList)
  else if x.n = 0 ∧ x.d = 2 then "-0.0".toList
  else if x.n < 0 then '-' :: reprPos x.n.natAbs x.d
  else reprPos x.n.natAbs x.d

end JPV.Py
