/-
`IRegexpAbnfEquiv`, completeness half: every derivation is found by `parseAlt` / `parseBranch`
with the fuel `parse` supplies.
-/
import JPV.Proofs.IReAbnf.Sound
namespace JPV.Proofs.IReAbnf
open JPV JPV.Spec JPV.Spec.IRe JPV.Spec.IReAbnf

/-! ### follow sets -/

/-- `c` is none of the characters that may follow a piece without starting an atom -/
def NotAtomFollow (c : Char) : Prop := c ≠ '*' ∧ c ≠ '+' ∧ c ≠ '?' ∧ c ≠ '{' ∧ c ≠ '|' ∧ c ≠ ')'

def BranchEnd (t : List Char) : Prop := t = [] ∨ ∃ r, t = '|' :: r ∨ t = ')' :: r
def AltEnd (t : List Char) : Prop := t = [] ∨ ∃ r, t = ')' :: r

theorem Atom_head {s : List Char} {a : Re} (h : Atom s a) : ∃ c t, s = c :: t ∧ NotAtomFollow c := by
  cases h with
  | normal hc =>
    refine ⟨_, [], rfl, ?_, ?_, ?_, ?_, ?_, ?_⟩ <;> (intro e; subst e; revert hc; decide)
  | dot => exact ⟨'.', [], rfl, by decide, by decide, by decide, by decide, by decide, by decide⟩
  | esc he =>
    obtain ⟨c, rfl, _⟩ := he
    exact ⟨'\\', [c], rfl, by decide, by decide, by decide, by decide, by decide, by decide⟩
  | classEsc he =>
    obtain ⟨t, rfl⟩ := CharClassEsc_head he
    exact ⟨'\\', t, rfl, by decide, by decide, by decide, by decide, by decide, by decide⟩
  | classExpr he =>
    obtain ⟨s', rfl, _⟩ := classExpr_complete he
    exact ⟨'[', s', rfl, by decide, by decide, by decide, by decide, by decide, by decide⟩
  | group _ => exact ⟨'(', _, rfl, by decide, by decide, by decide, by decide, by decide, by decide⟩

theorem Piece_head {s : List Char} {p : Re} (h : Piece s p) : ∃ c t, s = c :: t ∧ NotAtomFollow c := by
  cases h with
  | plain ha => exact Atom_head ha
  | quantified ha _ =>
    obtain ⟨c, t, rfl, hc⟩ := Atom_head ha
    exact ⟨c, _, rfl, hc⟩

theorem noQuant_of_branchEnd {t : List Char} (h : BranchEnd t) : NoQuant t := by
  intro c r e
  rcases h with rfl | ⟨r', rfl | rfl⟩
  · cases e
  · injection e with e _; subst e; exact ⟨by decide, by decide, by decide, by decide⟩
  · injection e with e _; subst e; exact ⟨by decide, by decide, by decide, by decide⟩

theorem Pieces_noQuant {s : List Char} {ps : List Re} (h : Pieces s ps) {rest : List Char} (hr : BranchEnd rest) :
    NoQuant (s ++ rest) := by
  cases h with
  | nil => exact noQuant_of_branchEnd hr
  | cons hp _ =>
    obtain ⟨c, t, rfl, hc⟩ := Piece_head hp
    intro c' r e
    simp only [List.cons_append, List.append_assoc] at e
    injection e with e _
    subst e
    exact ⟨hc.1, hc.2.1, hc.2.2.1, hc.2.2.2.1⟩

/-! ### atoms -/

theorem atomP_normal {c : Char} (hc : isNormalChar c = true) (fuel : Nat) (rest : List Char) :
    atomP fuel (c :: rest) = some (.chr c.toNat, rest) := by
  have h1 : c ≠ '(' := by intro e; subst e; revert hc; decide
  have h2 : c ≠ '.' := by intro e; subst e; revert hc; decide
  have h3 : c ≠ '[' := by intro e; subst e; revert hc; decide
  have h4 : c ≠ '\\' := by intro e; subst e; revert hc; decide
  unfold atomP
  split
  · rename_i heq; injection heq with e _; exact absurd e h1
  · rename_i heq; injection heq with e _; exact absurd e h2
  · rename_i heq; injection heq with e _; exact absurd e h3
  · rename_i heq; injection heq with e _; exact absurd e h4
  · rename_i heq; injection heq with e1 e2; subst e1 e2; simp [hc]
  · rename_i heq; cases heq

theorem atomP_esc {s : List Char} {n : Nat} (h : SingleCharEsc s n) (fuel : Nat) (rest : List Char) :
    atomP fuel (s ++ rest) = some (.chr n, rest) := by
  obtain ⟨c, rfl, hc⟩ := h
  show atomP fuel ('\\' :: c :: rest) = _
  unfold atomP
  simp only
  rw [catEsc_none_of_singleEsc _ hc, hc]
  rfl

theorem atomP_classEsc {s : List Char} {neg : Bool} {p : Str} (h : CharClassEsc s neg p) (fuel : Nat)
    (rest : List Char) : atomP fuel (s ++ rest) = some (.cat neg p, rest) := by
  have hc := catEsc_complete h rest
  cases h with
  | cat hp =>
    simp only [List.cons_append] at hc ⊢
    unfold atomP
    simp only
    rw [hc]
  | compl hp =>
    simp only [List.cons_append] at hc ⊢
    unfold atomP
    simp only
    rw [hc]

theorem atomP_group {fuel : Nat} {s : List Char} {r : Re} {rest : List Char}
    (h : parseAlt fuel (s ++ ')' :: rest) = some (r, ')' :: rest)) :
    atomP fuel ('(' :: (s ++ [')']) ++ rest) = some (r, rest) := by
  have e : '(' :: (s ++ [')']) ++ rest = '(' :: (s ++ ')' :: rest) := by simp
  rw [e]
  unfold atomP
  simp only
  rw [h]
  rfl

theorem atomP_none_of_branchEnd {t : List Char} (h : BranchEnd t) (fuel : Nat) : atomP fuel t = none := by
  rcases h with rfl | ⟨r', rfl | rfl⟩
  · rfl
  · unfold atomP; simp; decide
  · unfold atomP; simp; decide

theorem parseBranch_end {t : List Char} (h : BranchEnd t) (fuel : Nat) (acc : Re) :
    parseBranch (fuel + 1) t acc = some (acc, t) := by
  rw [parseBranch_succ, atomP_none_of_branchEnd h]
  rcases h with rfl | ⟨r', rfl | rfl⟩ <;> rfl

/-! ### pieces -/

theorem parseBranch_plain {fuel : Nat} {s : List Char} {a : Re} {rest : List Char}
    (h : atomP fuel (s ++ rest) = some (a, rest)) (hr : NoQuant rest) (acc : Re) :
    parseBranch (fuel + 1) (s ++ rest) acc = parseBranch fuel rest (.seq acc a) := by
  rw [parseBranch_succ, h]
  simp only
  rw [quantifier_none hr]
  simp only
  split
  · exact absurd rfl (hr _ _ rfl).2.2.2
  · exact absurd rfl (hr _ _ rfl).1
  · exact absurd rfl (hr _ _ rfl).2.1
  · exact absurd rfl (hr _ _ rfl).2.2.1
  · rfl

theorem parseBranch_quantified {fuel : Nat} {s q : List Char} {a : Re} {lo : Nat} {hi : Option Nat}
    {rest : List Char} (h : atomP fuel (s ++ (q ++ rest)) = some (a, q ++ rest)) (hq : Quantifier q lo hi)
    (acc : Re) :
    parseBranch (fuel + 1) ((s ++ q) ++ rest) acc = parseBranch fuel rest (.seq acc (.rep a lo hi)) := by
  obtain ⟨hq1, hq2⟩ := quantifier_complete hq rest
  rw [List.append_assoc, parseBranch_succ, h]
  simp only
  rw [hq1]
  simp only
  cases hi with
  | none => rfl
  | some k => simp [hq2 k rfl]

/-! ### completeness -/

mutual

theorem complete_alt : ∀ {s : List Char} {r : Re}, IRegexp s r → ∀ rest, AltEnd rest → ∀ fuel,
    2 * s.length + 2 ≤ fuel → parseAlt fuel (s ++ rest) = some (r, rest)
  | _, _, .single (s := s) hp => by
    intro rest hr fuel hf
    obtain ⟨f, rfl⟩ : ∃ f, fuel = f + 1 := ⟨fuel - 1, by omega⟩
    have hb : BranchEnd rest := by
      rcases hr with rfl | ⟨r', rfl⟩
      · exact Or.inl rfl
      · exact Or.inr ⟨r', Or.inr rfl⟩
    rw [parseAlt_succ, complete_pieces hp rest hb f .eps (by omega)]
    simp only
    split
    · rcases hr with h | ⟨r', h⟩ <;> cases h
    · rfl
  | _, _, .alt (s := s) (rest := s2) hp hr2 => by
    intro rest hr fuel hf
    obtain ⟨f, rfl⟩ : ∃ f, fuel = f + 1 := ⟨fuel - 1, by omega⟩
    simp only [List.length_append, List.length_cons] at hf
    have e : (s ++ '|' :: s2) ++ rest = s ++ ('|' :: (s2 ++ rest)) := by simp
    rw [e, parseAlt_succ, complete_pieces hp _ (Or.inr ⟨_, Or.inl rfl⟩) f .eps (by omega)]
    simp only
    rw [complete_alt hr2 rest hr f (by omega)]
    rfl

theorem complete_pieces : ∀ {s : List Char} {ps : List Re}, Pieces s ps → ∀ rest, BranchEnd rest →
    ∀ fuel acc, 2 * s.length + 1 ≤ fuel → parseBranch fuel (s ++ rest) acc = some (ps.foldl Re.seq acc, rest)
  | _, _, .nil => by
    intro rest hr fuel acc hf
    obtain ⟨f, rfl⟩ : ∃ f, fuel = f + 1 := ⟨fuel - 1, by omega⟩
    exact parseBranch_end hr f acc
  | _, _, .cons (s := s) (rest := s2) hp hps => by
    intro rest hr fuel acc hf
    obtain ⟨f, rfl⟩ : ∃ f, fuel = f + 1 := ⟨fuel - 1, by omega⟩
    obtain ⟨c, t, e, _⟩ := Piece_head hp
    have hlen : 1 ≤ s.length := by rw [e]; simp
    simp only [List.length_append] at hf
    rw [List.append_assoc, complete_piece hp (s2 ++ rest) (Pieces_noQuant hps hr) f acc (by omega),
      complete_pieces hps rest hr f _ (by omega)]
    rfl

theorem complete_piece : ∀ {s : List Char} {p : Re}, Piece s p → ∀ rest, NoQuant rest → ∀ fuel acc,
    2 * s.length ≤ fuel → parseBranch (fuel + 1) (s ++ rest) acc = parseBranch fuel rest (.seq acc p)
  | _, _, .plain ha => by
    intro rest hr fuel acc hf
    exact parseBranch_plain (complete_atom ha rest fuel hf) hr acc
  | _, _, .quantified (s := s) (q := q) ha hq => by
    intro rest hr fuel acc hf
    simp only [List.length_append] at hf
    exact parseBranch_quantified (complete_atom ha (q ++ rest) fuel (by omega)) hq acc

theorem complete_atom : ∀ {s : List Char} {a : Re}, Atom s a → ∀ rest fuel,
    2 * s.length ≤ fuel → atomP fuel (s ++ rest) = some (a, rest)
  | _, _, .normal hc => by
    intro rest fuel _
    exact atomP_normal hc fuel rest
  | _, _, .dot => by
    intro rest fuel _
    rfl
  | _, _, .esc he => by
    intro rest fuel _
    exact atomP_esc he fuel rest
  | _, _, .classEsc he => by
    intro rest fuel _
    exact atomP_classEsc he fuel rest
  | _, _, .classExpr he => by
    intro rest fuel _
    obtain ⟨s', rfl, hs'⟩ := classExpr_complete he
    exact hs' rest
  | _, _, .group (s := s) hr => by
    intro rest fuel hf
    simp only [List.length_append, List.length_cons, List.length_nil] at hf
    exact atomP_group (complete_alt hr (')' :: rest) (Or.inr ⟨rest, rfl⟩) fuel (by omega))

end

theorem parse_complete {p : Str} {r : Re} (h : IRegexp p r) : parse p = some r := by
  have := complete_alt h [] (Or.inl rfl) (2 * p.length + 2) (Nat.le_refl _)
  unfold parse
  rw [List.append_nil] at this
  rw [this]

end JPV.Proofs.IReAbnf
