/-
The executable recogniser `Spec.IRe.parse` (RFC 9485 grammar → AST) decides exactly the declarative relation
`Spec.IReAbnf.IRegexp`.  STATEMENTS ARE FIXED.  Helper lemmas go in `JPV/Proofs/IReAbnf/*.lean`.
-/
import JPV.Spec.IRegexpAbnf
import JPV.Proofs.IReAbnf.Sound
import JPV.Proofs.IReAbnf.Complete
namespace JPV.Proofs
open JPV JPV.Spec

/-- the recogniser accepts a pattern with tree `r` iff the grammar derives it with tree `r` -/
theorem ire_parse_iff (p : Str) (r : IRe.Re) :
    IRe.parse p = some r ↔ IReAbnf.IRegexp p r :=
  ⟨IReAbnf.parse_sound, IReAbnf.parse_complete⟩

/-- the grammar is unambiguous -/
theorem ire_unambiguous (p : Str) (r r' : IRe.Re) :
    IReAbnf.IRegexp p r → IReAbnf.IRegexp p r' → r = r' := by
  intro h h'
  have e := IReAbnf.parse_complete h
  rw [IReAbnf.parse_complete h'] at e
  injection e with e
  exact e.symm

end JPV.Proofs
