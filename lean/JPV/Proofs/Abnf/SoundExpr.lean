/-
Soundness, expression level (logical-or … function arguments), and the final assembly.
-/
import JPV.Proofs.Abnf.Sound
namespace JPV.Proofs.AbnfP
open JPV JPV.Spec

variable {l : Bool} {n : Nat}

theorem logicalOr_step (ih : SoundAt l n) : ∀ inp c rest, logicalOr (n+1) inp = some (c, rest) →
    OK l (cmpShapeExpr c) → ∃ pre, inp = pre ++ rest ∧ Abnf.LogicalOr l pre c := by
  intro inp c rest h hok
  unfold logicalOr at h
  split at h
  · cases h
  · rename_i e r hand
    split at h
    · rename_i r2 hlit
      obtain ⟨⟨e2, r3⟩, hlo, heq⟩ := Option.map_eq_some_iff.1 h
      cases heq
      obtain ⟨hok1, hok2⟩ := OK_or_expr.1 hok
      obtain ⟨p1, hp1, hd1⟩ := ih.land _ _ _ hand hok1
      obtain ⟨p2, hp2, hd2⟩ := ih.lor _ _ _ hlo hok2
      obtain ⟨b1, hb1, hbl1⟩ := skipS_spec r
      obtain ⟨b2, hb2, hbl2⟩ := skipS_spec r2
      have hl := lit_sound hlit
      refine ⟨p1 ++ b1 ++ '|' :: '|' :: (b2 ++ p2), ?_, .or hd1 hbl1 hbl2 hd2⟩
      simp only [List.append_assoc, List.cons_append]
      rw [← hp2, ← hb2]
      have : "||".toList = ['|', '|'] := rfl
      rw [this] at hl
      simp only [List.cons_append, List.nil_append] at hl
      rw [← hl, ← hb1]; exact hp1
    · cases h
      obtain ⟨p1, hp1, hd1⟩ := ih.land _ _ _ hand hok
      exact ⟨p1, hp1, .single hd1⟩

theorem logicalAnd_step (ih : SoundAt l n) : ∀ inp c rest, logicalAnd (n+1) inp = some (c, rest) →
    OK l (cmpShapeExpr c) → ∃ pre, inp = pre ++ rest ∧ Abnf.LogicalAnd l pre c := by
  intro inp c rest h hok
  unfold logicalAnd at h
  split at h
  · cases h
  · rename_i e r hbas
    split at h
    · rename_i r2 hlit
      obtain ⟨⟨e2, r3⟩, hla, heq⟩ := Option.map_eq_some_iff.1 h
      cases heq
      obtain ⟨hok1, hok2⟩ := OK_and_expr.1 hok
      obtain ⟨p1, hp1, hd1⟩ := ih.bas _ _ _ hbas hok1
      obtain ⟨p2, hp2, hd2⟩ := ih.land _ _ _ hla hok2
      obtain ⟨b1, hb1, hbl1⟩ := skipS_spec r
      obtain ⟨b2, hb2, hbl2⟩ := skipS_spec r2
      have hl := lit_sound hlit
      refine ⟨p1 ++ b1 ++ '&' :: '&' :: (b2 ++ p2), ?_, .and hd1 hbl1 hbl2 hd2⟩
      simp only [List.append_assoc, List.cons_append]
      rw [← hp2, ← hb2]
      have : "&&".toList = ['&', '&'] := rfl
      rw [this] at hl
      simp only [List.cons_append, List.nil_append] at hl
      rw [← hl, ← hb1]; exact hp1
    · cases h
      obtain ⟨p1, hp1, hd1⟩ := ih.bas _ _ _ hbas hok
      exact ⟨p1, hp1, .single hd1⟩

theorem parenExpr_step (ih : SoundAt l n) : ∀ inp c rest, parenExpr (n+1) inp = some (c, rest) →
    OK l (cmpShapeExpr c) → ∃ pre, inp = pre ++ rest ∧ Abnf.Paren l pre c := by
  intro inp c rest h hok
  unfold parenExpr at h
  split at h
  · rename_i r
    split at h
    · rename_i e r2 hlo
      split at h
      · rename_i r3 hsk
        cases h
        obtain ⟨p, hp, hd⟩ := ih.lor _ _ _ hlo (by simpa [cmpShapeExpr] using hok)
        obtain ⟨b1, hb1, hbl1⟩ := skipS_spec r
        obtain ⟨b2, hb2, hbl2⟩ := skipS_spec r2
        refine ⟨'(' :: (b1 ++ p ++ b2 ++ [')']), ?_, .mk hbl1 hd hbl2⟩
        simp only [List.append_assoc, List.cons_append, List.nil_append, List.cons.injEq, true_and]
        rw [← hsk, ← hb2, ← hp]; exact hb1
      · cases h
    · cases h
  · cases h

theorem testItem_of_termD {pre : List Char} {e : CExpr} (h : TermD l pre e) (hne : ∀ v, e ≠ .lit v) :
    Abnf.TestItem l pre e := by
  rcases h with ⟨v, rfl, _⟩ | h
  · exact absurd rfl (hne v)
  · exact h

theorem basic_step (ih : SoundAt l n) : ∀ inp c rest, basic (n+1) inp = some (c, rest) →
    OK l (cmpShapeExpr c) → ∃ pre, inp = pre ++ rest ∧ Abnf.Basic l pre c := by
  intro inp c rest h hok
  unfold basic at h
  split at h
  · rename_i r
    split at h
    · cases h
    · simp only [] at h
      obtain ⟨b, hb, hbl⟩ := skipS_spec r
      split at h
      · rename_i tl hsk
        obtain ⟨⟨e, r2⟩, hpar, heq⟩ := Option.map_eq_some_iff.1 h
        cases heq
        obtain ⟨p, hp, hd⟩ := ih.par _ _ _ hpar (by simpa [cmpShapeExpr] using hok)
        refine ⟨'!' :: (b ++ p), ?_, .notParen hbl hd⟩
        simp only [List.append_assoc, List.cons_append, List.cons.injEq, true_and]
        rw [← hp]; exact hb
      · split at h
        · cases h
        · rename_i e r2 hne htrm
          cases h
          obtain ⟨p, hp, hd⟩ := ih.trm _ _ _ htrm (by simpa [cmpShapeExpr] using hok)
          have ht := testItem_of_termD hd (by intro v hv; subst hv; exact hne _ rfl)
          refine ⟨'!' :: (b ++ p), ?_, .notTest hbl ht⟩
          simp only [List.append_assoc, List.cons_append, List.cons.injEq, true_and]
          rw [← hp]; exact hb
        · cases h
  · obtain ⟨p, hp, hd⟩ := ih.par _ _ _ h hok
    exact ⟨p, hp, .paren hd⟩
  · split at h
    · cases h
    · rename_i e r htrm
      split at h
      · rename_i op r2 hop
        split at h
        · rename_i rhs r3 htrm2
          cases h
          obtain ⟨⟨hs1, hs2⟩, hok1, hok2⟩ := OK_cmp_expr.1 hok
          obtain ⟨p1, hp1, hd1⟩ := ih.trm _ _ _ htrm hok1
          obtain ⟨p2, hp2, hd2⟩ := ih.trm _ _ _ htrm2 hok2
          obtain ⟨o, ho, hdo⟩ := comparisonOp_sound hop
          obtain ⟨b1, hb1, hbl1⟩ := skipS_spec r
          obtain ⟨b2, hb2, hbl2⟩ := skipS_spec r2
          refine ⟨p1 ++ b1 ++ o ++ b2 ++ p2, ?_,
            .cmp (comparable_of_termD hd1 hs1) hbl1 hdo hbl2 (comparable_of_termD hd2 hs2)⟩
          simp only [List.append_assoc]
          rw [← hp2, ← hb2, ← ho, ← hb1]; exact hp1
        · cases h
      · split at h
        · cases h
        · rename_i hne
          cases h
          obtain ⟨p1, hp1, hd1⟩ := ih.trm _ _ _ htrm hok
          have ht := testItem_of_termD hd1 (by intro v hv; exact hne v hv)
          exact ⟨p1, hp1, .test ht⟩

theorem term_step (ih : SoundAt l n) : ∀ inp c rest, term (n+1) inp = some (c, rest) →
    OK l (cmpShapeExpr c) → ∃ pre, inp = pre ++ rest ∧ TermD l pre c := by
  intro inp c rest h hok
  unfold term at h
  split at h
  · obtain ⟨⟨segs, r2⟩, hs, heq⟩ := Option.map_eq_some_iff.1 h
    cases heq
    obtain ⟨p, hp, hd⟩ := ih.segs _ _ _ hs (by simpa [cmpShapeExpr] using hok)
    exact ⟨'@' :: p, by rw [hp]; rfl, Or.inr (.rel hd)⟩
  · obtain ⟨⟨segs, r2⟩, hs, heq⟩ := Option.map_eq_some_iff.1 h
    cases heq
    obtain ⟨p, hp, hd⟩ := ih.segs _ _ _ hs (by simpa [cmpShapeExpr] using hok)
    exact ⟨'$' :: p, by rw [hp]; rfl, Or.inr (.root hd)⟩
  · split at h
    · rename_i name r hfn
      obtain ⟨hinp, hname⟩ := functionName_sound hfn
      obtain ⟨b1, hb1, hbl1⟩ := skipS_spec r
      simp only [] at h
      split at h
      · rename_i r2 hsk
        cases h
        refine ⟨name ++ '(' :: (b1 ++ [')']), ?_, Or.inr (.call (.noArgs hname hbl1))⟩
        simp only [List.append_assoc, List.cons_append, List.nil_append]
        rw [← hsk, ← hb1]; exact hinp
      · split at h
        · cases h
        · rename_i a r2 harg
          split at h
          · cases h
          · rename_i as r3 hmore
            split at h
            · rename_i r4 hsk
              cases h
              obtain ⟨hok1, hok2⟩ := OK_args_cons.1 (by simpa [cmpShapeExpr] using hok)
              obtain ⟨pa, hpa, hda⟩ := ih.arg _ _ _ harg hok1
              obtain ⟨pm, hpm, hdm⟩ := ih.margs _ _ _ hmore hok2
              obtain ⟨b2, hb2, hbl2⟩ := skipS_spec r3
              refine ⟨name ++ '(' :: (b1 ++ pa ++ pm ++ b2 ++ [')']), ?_,
                Or.inr (.call (.args hname hbl1 hda hdm hbl2))⟩
              simp only [List.append_assoc, List.cons_append, List.nil_append]
              rw [← hsk, ← hb2, ← hpm, ← hpa, ← hb1]; exact hinp
            · cases h
    · obtain ⟨⟨v, r⟩, hl, heq⟩ := Option.map_eq_some_iff.1 h
      cases heq
      obtain ⟨p, hp, hd⟩ := literal_sound hl
      exact ⟨p, hp, Or.inl ⟨v, rfl, hd⟩⟩

theorem argument_step (ih : SoundAt l n) : ∀ inp c rest, argument (n+1) inp = some (c, rest) →
    OK l (cmpShapeExpr c) → ∃ pre, inp = pre ++ rest ∧ Abnf.Argument l pre c := by
  intro inp c rest h hok
  have hlog : logicalOr n inp = some (c, rest) → ∃ pre, inp = pre ++ rest ∧ Abnf.Argument l pre c := by
    intro h
    obtain ⟨p, hp, hd⟩ := ih.lor _ _ _ h hok
    exact ⟨p, hp, .logical hd⟩
  unfold argument at h
  split at h
  · rename_i v r hl
    obtain ⟨p, hp, hd⟩ := literal_sound hl
    split at h
    · cases h; exact ⟨p, hp, .lit hd⟩
    · cases h; exact ⟨p, hp, .lit hd⟩
    · exact hlog h
  · exact hlog h

theorem moreArgs_step (ih : SoundAt l n) : ∀ inp c rest, moreArgs (n+1) inp = some (c, rest) →
    OK l (cmpShapeArgs c) → ∃ pre, inp = pre ++ rest ∧ Abnf.MoreArgs l pre c := by
  intro inp c rest h hok
  unfold moreArgs at h
  split at h
  · rename_i r hsk
    split at h
    · cases h
    · rename_i a r2 harg
      split at h
      · rename_i as r3 hms
        cases h
        obtain ⟨hok1, hok2⟩ := OK_args_cons.1 hok
        obtain ⟨ps, hps, hds⟩ := ih.arg _ _ _ harg hok1
        obtain ⟨pm, hpm, hdm⟩ := ih.margs _ _ _ hms hok2
        obtain ⟨b1, hb1, hbl1⟩ := skipS_spec inp
        obtain ⟨b2, hb2, hbl2⟩ := skipS_spec r
        refine ⟨b1 ++ ',' :: (b2 ++ ps ++ pm), ?_, .cons hbl1 hbl2 hds hdm⟩
        simp only [List.append_assoc, List.cons_append]
        rw [← hpm, ← hps, ← hb2, ← hsk]; exact hb1
      · cases h
  · cases h; exact ⟨[], rfl, .nil⟩

theorem soundAt (l : Bool) : ∀ n, SoundAt l n
  | 0 => soundAt_zero l
  | n + 1 =>
    have ih := soundAt l n
    { segs := segments_step ih, seg := segment_step ih, brk := bracketed_step ih
      msel := moreSelectors_step ih, sel := selector_step ih, lor := logicalOr_step ih
      land := logicalAnd_step ih, bas := basic_step ih, par := parenExpr_step ih
      trm := term_step ih, arg := argument_step ih, margs := moreArgs_step ih }

/-- the verdict of `parseQuery`, unfolded -/
theorem parseQuery_valid {s : List Char} {c : List CSegment} (h : parseQuery s = .valid c) :
    ∃ r, s = '$' :: r ∧ segments (2 * s.length + 4) r = some (c, []) ∧ cmpShapeSegs c = (true, false) := by
  unfold parseQuery at h
  split at h
  · rename_i r
    split at h
    · rename_i segs hs
      simp only [] at h
      split at h
      · cases h
      · split at h
        · cases h
        · rename_i h1 h2
          cases h
          refine ⟨r, rfl, hs, ?_⟩
          simp only [Bool.not_eq_true', Bool.not_eq_false] at h1 h2
          exact Prod.ext (by simpa using h1) (by simpa using h2)
    · cases h
  · cases h

theorem parseQuery_disputed {s : List Char} {c : List CSegment} (h : parseQuery s = .disputed c) :
    ∃ r, s = '$' :: r ∧ segments (2 * s.length + 4) r = some (c, []) ∧ cmpShapeSegs c = (true, true) := by
  unfold parseQuery at h
  split at h
  · rename_i r
    split at h
    · rename_i segs hs
      simp only [] at h
      split at h
      · cases h
      · split at h
        · rename_i h1 h2
          cases h
          refine ⟨r, rfl, hs, ?_⟩
          simp only [Bool.not_eq_true', Bool.not_eq_false] at h1
          exact Prod.ext (by simpa using h1) (by simpa using h2)
        · cases h
    · cases h
  · cases h

theorem valid_sound {s : List Char} {c : List CSegment} (h : parseQuery s = .valid c) : Abnf.Query false s c := by
  obtain ⟨r, rfl, hs, hsh⟩ := parseQuery_valid h
  obtain ⟨pre, hp, hd⟩ := (soundAt false _).segs _ _ _ hs (by rw [hsh]; exact OK_triv _)
  rw [List.append_nil] at hp
  subst hp
  exact ⟨_, rfl, hd⟩

theorem accepts_sound {s : List Char} {c : List CSegment}
    (h : parseQuery s = .valid c ∨ parseQuery s = .disputed c) : Abnf.Query true s c := by
  have : ∃ r, s = '$' :: r ∧ segments (2 * s.length + 4) r = some (c, []) ∧ (cmpShapeSegs c).1 = true := by
    rcases h with h | h
    · obtain ⟨r, h1, h2, h3⟩ := parseQuery_valid h; exact ⟨r, h1, h2, by rw [h3]⟩
    · obtain ⟨r, h1, h2, h3⟩ := parseQuery_disputed h; exact ⟨r, h1, h2, by rw [h3]⟩
  obtain ⟨r, rfl, hs, hsh⟩ := this
  obtain ⟨pre, hp, hd⟩ := (soundAt true _).segs _ _ _ hs ⟨hsh, fun h => by cases h⟩
  rw [List.append_nil] at hp
  subst hp
  exact ⟨_, rfl, hd⟩

end JPV.Proofs.AbnfP
