/-
Completeness, logical level: `LogicalOr`, `LogicalAnd`, `Basic`, `Paren`.
-/
import JPV.Proofs.Abnf.Compl2
namespace JPV.Proofs.AbnfP
open JPV JPV.Spec

theorem cOr_single {s : List Char} {e : CExpr} (ih : CAnd s e) : COr s e := by
  intro R fuel hR hf
  obtain ⟨f, rfl⟩ : ∃ f, fuel = f + 1 := ⟨fuel - 1, by omega⟩
  obtain ⟨e', h1, hn⟩ := ih R f (hR.mono fun _ h => h.and) (by omega)
  have h2 : lit "||" (skipS R) = none :=
    lit_none (c := '|') rfl (HeadP.mono hR (fun c hc => by rcases hc with h | h | h <;> subst h <;> decide))
  exact ⟨e', by rw [logicalOr, h1]; simp only [h2], hn⟩

theorem cOr_or {l : Bool} {s b1 b2 rest : List Char} {el er : CExpr}
    (hb1 : Abnf.Blanks b1) (hb2 : Abnf.Blanks b2) (hr : Abnf.LogicalOr l rest er)
    (ihs : CAnd s el) (ihr : COr rest er) : COr (s ++ b1 ++ '|' :: '|' :: (b2 ++ rest)) (.or el er) := by
  intro R fuel hR hf
  simp only [List.length_append, List.length_cons] at hf
  obtain ⟨f, rfl⟩ : ∃ f, fuel = f + 1 := ⟨fuel - 1, by omega⟩
  have hinp : (s ++ b1 ++ '|' :: '|' :: (b2 ++ rest)) ++ R = s ++ (b1 ++ '|' :: '|' :: (b2 ++ (rest ++ R))) := by
    simp
  rw [hinp]
  obtain ⟨l', h1, hn1⟩ := ihs (b1 ++ '|' :: '|' :: (b2 ++ (rest ++ R))) f
    (SFol.of_blanks hb1 (by decide) (Or.inr rfl)) (by omega)
  obtain ⟨ch, t, rfl, hch⟩ := logicalOr_head hr
  have hsk1 : skipS (b1 ++ '|' :: '|' :: (b2 ++ (ch :: t ++ R))) = '|' :: '|' :: (b2 ++ (ch :: t ++ R)) :=
    skipS_blanks_cons hb1 (by decide) _
  have hlit : lit "||" ('|' :: '|' :: (b2 ++ (ch :: t ++ R))) = some (b2 ++ (ch :: t ++ R)) :=
    lit_complete "||" _
  have hsk2 : skipS (b2 ++ (ch :: t ++ R)) = ch :: t ++ R := skipS_blanks_cons hb2 hch.facts.notBlank _
  obtain ⟨r', h2, hn2⟩ := ihr R f hR (by simp only [List.length_cons] at hf ⊢; omega)
  refine ⟨.or l' r', ?_, by simp only [normExpr, hn1, hn2]⟩
  rw [logicalOr, h1]
  simp only [hsk1, hlit, hsk2, h2, Option.map_some]

theorem cAnd_single {s : List Char} {e : CExpr} (ih : CBasic s e) : CAnd s e := by
  intro R fuel hR hf
  obtain ⟨f, rfl⟩ : ∃ f, fuel = f + 1 := ⟨fuel - 1, by omega⟩
  obtain ⟨e', h1, hn⟩ := ih R f (hR.mono fun _ h => h.basic) (by omega)
  have h2 : lit "&&" (skipS R) = none :=
    lit_none (c := '&') rfl (HeadP.mono hR (fun c hc => by
      rcases hc with (h | h | h) | h <;> subst h <;> decide))
  exact ⟨e', by rw [logicalAnd, h1]; simp only [h2], hn⟩

theorem cAnd_and {l : Bool} {s b1 b2 rest : List Char} {el er : CExpr}
    (hb1 : Abnf.Blanks b1) (hb2 : Abnf.Blanks b2) (hr : Abnf.LogicalAnd l rest er)
    (ihs : CBasic s el) (ihr : CAnd rest er) : CAnd (s ++ b1 ++ '&' :: '&' :: (b2 ++ rest)) (.and el er) := by
  intro R fuel hR hf
  simp only [List.length_append, List.length_cons] at hf
  obtain ⟨f, rfl⟩ : ∃ f, fuel = f + 1 := ⟨fuel - 1, by omega⟩
  have hinp : (s ++ b1 ++ '&' :: '&' :: (b2 ++ rest)) ++ R = s ++ (b1 ++ '&' :: '&' :: (b2 ++ (rest ++ R))) := by
    simp
  rw [hinp]
  obtain ⟨l', h1, hn1⟩ := ihs (b1 ++ '&' :: '&' :: (b2 ++ (rest ++ R))) f
    (SFol.of_blanks hb1 (by decide) (Or.inr rfl)) (by omega)
  obtain ⟨ch, t, rfl, hch⟩ := logicalAnd_head hr
  have hsk1 : skipS (b1 ++ '&' :: '&' :: (b2 ++ (ch :: t ++ R))) = '&' :: '&' :: (b2 ++ (ch :: t ++ R)) :=
    skipS_blanks_cons hb1 (by decide) _
  have hlit : lit "&&" ('&' :: '&' :: (b2 ++ (ch :: t ++ R))) = some (b2 ++ (ch :: t ++ R)) :=
    lit_complete "&&" _
  have hsk2 : skipS (b2 ++ (ch :: t ++ R)) = ch :: t ++ R := skipS_blanks_cons hb2 hch.facts.notBlank _
  obtain ⟨r', h2, hn2⟩ := ihr R f hR (by simp only [List.length_cons] at hf ⊢; omega)
  refine ⟨.and l' r', ?_, by simp only [normExpr, hn1, hn2]⟩
  rw [logicalAnd, h1]
  simp only [hsk1, hlit, hsk2, h2, Option.map_some]

theorem cParen_mk {l : Bool} {b1 s b2 : List Char} {e : CExpr} (hb1 : Abnf.Blanks b1)
    (hs : Abnf.LogicalOr l s e) (hb2 : Abnf.Blanks b2) (ih : COr s e) :
    CParen ('(' :: (b1 ++ s ++ b2 ++ [')'])) (.paren e) := by
  intro R fuel hf
  simp only [List.length_append, List.length_cons, List.length_nil] at hf
  obtain ⟨f, rfl⟩ : ∃ f, fuel = f + 1 := ⟨fuel - 1, by omega⟩
  have hinp : ('(' :: (b1 ++ s ++ b2 ++ [')'])) ++ R = '(' :: (b1 ++ (s ++ (b2 ++ ')' :: R))) := by simp
  rw [hinp]
  obtain ⟨ch, t, rfl, hch⟩ := logicalOr_head hs
  have hsk1 : skipS (b1 ++ (ch :: t ++ (b2 ++ ')' :: R))) = ch :: t ++ (b2 ++ ')' :: R) :=
    skipS_blanks_cons hb1 hch.facts.notBlank _
  obtain ⟨e', h1, hn⟩ := ih (b2 ++ ')' :: R) f (SFol.of_blanks hb2 (by decide) (Or.inr (Or.inr rfl)))
    (by simp only [List.length_cons] at hf ⊢; omega)
  have hsk2 : skipS (b2 ++ ')' :: R) = ')' :: R := skipS_blanks_cons hb2 (by decide) _
  refine ⟨.paren e', ?_, by simp only [normExpr, hn]⟩
  rw [parenExpr]
  simp only [hsk1, h1, hsk2]

end JPV.Proofs.AbnfP
