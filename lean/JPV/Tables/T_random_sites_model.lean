import JPV.Tables.Common
namespace JPV.Tables
open JPV JPV.Impl

/-- the call sites into `random` are the five the nondeterministic model covers: in segments.py one
`random.choice` (visit now or later), one `random.sample` (queue interleaving) and one `random.shuffle` (members of an
object met by the traversal); in selectors.py two `random.shuffle` (wildcard and filter selector on objects) -/
theorem random_sites_model : Generated.randomCalls =
    [("segments.py", "random.choice", 1),
     ("segments.py", "random.sample", 1),
     ("segments.py", "random.shuffle", 1),
     ("selectors.py", "random.shuffle", 2)] := by decide +kernel

end JPV.Tables
