import JPV.Proofs.NdExh.ReachSound
import JPV.Proofs.NdExh.Shuffle
/-
Completeness of the enumeration of the reachable set (`ND.findA`): every listed result is the result
of the scripted evaluator under SOME choice script.  With `ReachSound.lean`:
`r ∈ ND.findA env q v ↔ ∃ s, ND.find env q v s = r` for filter-free queries — the enumeration is exactly
the set of things nondeterministic mode can return.
-/
namespace JPV.Proofs.NdExh
open JPV JPV.Impl JPV.Impl.ND

/-! ### the primitive choices -/

theorem merges_complete {α} : ∀ (q g m : List α), m ∈ merges q g → Ndp.Merge q g m := by
  intro q
  induction q with
  | nil =>
    intro g m h
    simp only [merges_nil, List.mem_singleton] at h
    subst h
    exact .nil_left _
  | cons x q ihq =>
    intro g
    induction g with
    | nil =>
      intro m h
      simp only [merges_cons, mergesGo, List.mem_singleton] at h
      subst h
      exact .nil_right _
    | cons y g ihg =>
      intro m h
      simp only [merges_cons, mergesGo, List.mem_append, List.mem_map] at h
      rcases h with ⟨c, hc, rfl⟩ | ⟨c, hc, rfl⟩
      · exact .left x (ihq _ _ hc)
      · exact .right y (ihg c (by rw [merges_cons]; exact hc))

theorem interleave_nil_left {α} (bs : List Bool) (b : List α) : interleave bs [] b = b := by
  simp [interleave]

theorem interleave_nil_right {α} (bs : List Bool) (a : List α) : interleave bs a [] = a := by
  cases a with
  | nil => simp [interleave]
  | cons x a => simp [interleave]

theorem interleave_true {α} (bs : List Bool) (x y : α) (a b : List α) :
    interleave (true :: bs) (x :: a) (y :: b) = x :: interleave bs a (y :: b) := by
  simp [interleave]

theorem interleave_false {α} (bs : List Bool) (x y : α) (a b : List α) :
    interleave (false :: bs) (x :: a) (y :: b) = y :: interleave bs (x :: a) b := by
  simp [interleave]

theorem merge_interleave {α} {a b c : List α} (h : Ndp.Merge a b c) : ∃ bs, interleave bs a b = c := by
  induction h with
  | nil_left b => exact ⟨[], interleave_nil_left _ _⟩
  | nil_right a => exact ⟨[], interleave_nil_right _ _⟩
  | @left x a b c h ih =>
    obtain ⟨bs, hbs⟩ := ih
    cases b with
    | nil =>
      have := merge_nil_right_inv h
      subst this
      exact ⟨[], interleave_nil_right _ _⟩
    | cons y b => exact ⟨true :: bs, by rw [interleave_true, hbs]⟩
  | @right y a b c h ih =>
    obtain ⟨bs, hbs⟩ := ih
    cases a with
    | nil =>
      have := merge_nil_left_inv h
      subst this
      exact ⟨[], interleave_nil_left _ _⟩
    | cons x a => exact ⟨false :: bs, by rw [interleave_false, hbs]⟩

/-- the queue merge is exhaustive: every order-preserving interleaving is produced by one script entry
(none when a side is empty) -/
theorem mergeQ_surj {α} (q g m : List α) (hm : m ∈ merges q g) :
    ∃ pre : Script, ∀ t, mergeQ q g (pre ++ t) = (m, t) := by
  have hM := merges_complete q g m hm
  by_cases he : (q.isEmpty || g.isEmpty) = true
  · refine ⟨[], fun t => ?_⟩
    have : m = q ++ g := by
      rcases Bool.or_eq_true_iff.1 he with h | h
      · have := List.isEmpty_iff.1 h
        subst this
        exact merge_nil_left_inv hM
      · have := List.isEmpty_iff.1 h
        subst this
        rw [merge_nil_right_inv hM, List.append_nil]
    simp only [mergeQ, he, if_true, List.nil_append, this]
  · obtain ⟨bs, hbs⟩ := merge_interleave hM
    refine ⟨[.merge bs], fun t => ?_⟩
    simp only [mergeQ, he, List.cons_append, List.nil_append, hbs]
    rfl

theorem coin_surj (b : Bool) : ∀ t, coin ([.coin b] ++ t) = (b, t) := fun _ => rfl

theorem ndChildrenA_complete (n : Node) (m : List Node) (hm : m ∈ ndChildrenA n) :
    ∃ pre : Script, ∀ t, ndChildren n (pre ++ t) = (m, t) := by
  unfold ndChildrenA at hm
  cases hv : n.val with
  | obj kvs =>
    rw [hv] at hm
    simp only [List.mem_map] at hm
    obtain ⟨kvs', hk, rfl⟩ := hm
    obtain ⟨pre, _, hpre⟩ := shuffle_surj kvs kvs' (NdRel.mem_perms_iff.1 hk)
    exact ⟨pre, fun t => by simp only [ndChildren, hv, hpre t]⟩
  | arr xs =>
    rw [hv] at hm
    simp only [List.mem_singleton] at hm
    exact ⟨[], fun t => by simp only [ndChildren, hv, hm, List.nil_append]⟩
  | null => rw [hv] at hm; simp only [List.mem_singleton] at hm; exact ⟨[], fun t => by simp only [ndChildren, hv, hm, List.nil_append]⟩
  | bool b => rw [hv] at hm; simp only [List.mem_singleton] at hm; exact ⟨[], fun t => by simp only [ndChildren, hv, hm, List.nil_append]⟩
  | num x => rw [hv] at hm; simp only [List.mem_singleton] at hm; exact ⟨[], fun t => by simp only [ndChildren, hv, hm, List.nil_append]⟩
  | str x => rw [hv] at hm; simp only [List.mem_singleton] at hm; exact ⟨[], fun t => by simp only [ndChildren, hv, hm, List.nil_append]⟩

/-! ### stages -/

/-- the stage output `o` is the wanted result `r`, and when it is not an exception the script left is `t` -/
def Hit (o : Out) (r : Res) (t : Script) : Prop := o.res = r ∧ (r.2 = none → o.script = t)

theorem Hit.ok {o : Out} {ns : List Node} {t : Script} (h : Hit o (ns, none) t) :
    o.nodes = ns ∧ o.err = none ∧ o.script = t := by
  obtain ⟨h1, h2⟩ := h
  simp only [Out.res, Prod.mk.injEq] at h1
  exact ⟨h1.1, h1.2, h2 rfl⟩

theorem Hit.err {o : Out} {ns : List Node} {e : ErrKind} {t : Script} (h : Hit o (ns, some e) t) :
    o.nodes = ns ∧ o.err = some e := by
  obtain ⟨h1, _⟩ := h
  simp only [Out.res, Prod.mk.injEq] at h1
  exact h1

theorem hit_err (ns : List Node) (e : ErrKind) (s t : Script) : Hit ⟨ns, some e, s⟩ (ns, some e) t :=
  ⟨rfl, fun h => by cases h⟩

theorem hit_ok (ns : List Node) (t : Script) : Hit ⟨ns, none, t⟩ (ns, none) t := ⟨rfl, fun _ => rfl⟩

/-- every result the list-monad stage `K` lists is produced by the scripted stage `k` under some script
prefix, which is consumed exactly -/
def KC (k : Node → Script → Out) (K : KA) : Prop :=
  ∀ n r, r ∈ K n → ∃ pre : Script, ∀ t, Hit (k n (pre ++ t)) r t

theorem forEachA_complete {k : Node → Script → Out} {K : KA} (hk : KC k K) :
    ∀ (ns : List Node) (r : Res), r ∈ forEachA K ns →
      ∃ pre : Script, ∀ t, Hit (forEach ns (pre ++ t) k) r t := by
  intro ns
  induction ns with
  | nil =>
    intro r hr
    simp only [forEachA, List.mem_singleton] at hr
    subst hr
    exact ⟨[], fun t => hit_ok _ _⟩
  | cons n rest ih =>
    intro r hr
    simp only [forEachA, List.mem_flatMap] at hr
    obtain ⟨⟨a, e⟩, hr1, hr⟩ := hr
    obtain ⟨pre1, h1⟩ := hk n _ hr1
    cases e with
    | some e =>
      simp only [List.mem_singleton] at hr
      subst hr
      refine ⟨pre1, fun t => ?_⟩
      have := (h1 t).err
      rw [forEach_cons, this.2]
      simp only [this.1]
      exact hit_err _ _ _ _
    | none =>
      simp only [List.mem_map] at hr
      obtain ⟨⟨a2, e2⟩, hr2, rfl⟩ := hr
      obtain ⟨pre2, h2⟩ := ih _ hr2
      refine ⟨pre1 ++ pre2, fun t => ?_⟩
      have g1 := (h1 (pre2 ++ t)).ok
      rw [List.append_assoc, forEach_cons, g1.2.1]
      simp only [g1.1, g1.2.2]
      have g2 := h2 t
      refine ⟨?_, fun h => g2.2 h⟩
      have := g2.1
      simp only [Out.res, Prod.mk.injEq] at this ⊢
      exact ⟨by rw [this.1], this.2⟩

theorem vcn_nil (max : Int) (depth : Nat) (k : Node → Script → Out) (queue : List (Node × Nat))
    (s : Script) (acc : List Node) :
    visitChildrenNow max depth k [] queue s acc = (queue, ⟨acc, none, s⟩) := rfl

theorem vcnA_complete {k : Node → Script → Out} {K : KA} (hk : KC k K) (max : Int) (depth : Nat) :
    ∀ (cs : List Node) (queue : List (Node × Nat)) (acc : List Node) (q' : List (Node × Nat)) (r : Res),
      (q', r) ∈ visitChildrenNowA max depth K cs queue acc →
      ∃ pre : Script, ∀ t,
        (visitChildrenNow max depth k cs queue (pre ++ t) acc).1 = q' ∧
        Hit (visitChildrenNow max depth k cs queue (pre ++ t) acc).2 r t := by
  intro cs
  induction cs with
  | nil =>
    intro queue acc q' r h
    simp only [visitChildrenNowA, List.mem_singleton, Prod.mk.injEq] at h
    obtain ⟨rfl, rfl⟩ := h
    exact ⟨[], fun t => ⟨rfl, hit_ok _ _⟩⟩
  | cons c cs ih =>
    intro queue acc q' r h
    simp only [visitChildrenNowA] at h
    by_cases hd : isDeep max c (depth + 1) = true
    · rw [if_pos hd] at h
      simp only [List.mem_singleton, Prod.mk.injEq] at h
      obtain ⟨rfl, rfl⟩ := h
      refine ⟨[], fun t => ?_⟩
      rw [vcn_cons, if_pos hd]
      exact ⟨rfl, hit_err _ _ _ _⟩
    · rw [if_neg hd] at h
      obtain ⟨⟨a, e⟩, hr1, h⟩ := List.mem_flatMap.1 h
      obtain ⟨pre1, h1⟩ := hk c _ hr1
      cases e with
      | some e =>
        simp only [List.mem_singleton, Prod.mk.injEq] at h
        obtain ⟨rfl, rfl⟩ := h
        refine ⟨pre1, fun t => ?_⟩
        have g := (h1 t).err
        rw [vcn_cons, if_neg hd, g.2]
        simp only [g.1]
        exact ⟨trivial, hit_err _ _ _ _⟩
      | none =>
        simp only at h
        obtain ⟨gcs, hg, h⟩ := List.mem_flatMap.1 h
        obtain ⟨queue', hq, h⟩ := List.mem_flatMap.1 h
        obtain ⟨pre2, h2⟩ := ndChildrenA_complete c gcs hg
        obtain ⟨pre3, h3⟩ := mergeQ_surj _ _ queue' hq
        obtain ⟨pre4, h4⟩ := ih queue' (acc ++ a) q' r h
        refine ⟨pre1 ++ (pre2 ++ (pre3 ++ pre4)), fun t => ?_⟩
        have g := (h1 (pre2 ++ (pre3 ++ (pre4 ++ t)))).ok
        have e1 : pre1 ++ (pre2 ++ (pre3 ++ pre4)) ++ t = pre1 ++ (pre2 ++ (pre3 ++ (pre4 ++ t))) := by
          simp only [List.append_assoc]
        rw [e1, vcn_cons, if_neg hd, g.2.1]
        simp only [g.1, g.2.2, h2, h3]
        exact h4 t

theorem visitLoop_zero (max : Int) (k : Node → Script → Out) (queue : List (Node × Nat)) (s : Script)
    (acc : List Node) : visitLoop max k 0 queue s acc = ⟨acc, some .fuel, s⟩ := by
  simp only [visitLoop]

theorem visitLoop_nil (max : Int) (k : Node → Script → Out) (fuel : Nat) (s : Script)
    (acc : List Node) : visitLoop max k (fuel + 1) [] s acc = ⟨acc, none, s⟩ := by
  simp only [visitLoop]

theorem visitLoopA_complete {k : Node → Script → Out} {K : KA} (hk : KC k K) (max : Int) :
    ∀ (fuel : Nat) (queue : List (Node × Nat)) (acc : List Node) (r : Res),
      r ∈ visitLoopA max K fuel queue acc →
      ∃ pre : Script, ∀ t, Hit (visitLoop max k fuel queue (pre ++ t) acc) r t := by
  intro fuel
  induction fuel with
  | zero =>
    intro queue acc r h
    simp only [visitLoopA, List.mem_singleton] at h
    subst h
    exact ⟨[], fun t => by rw [visitLoop_zero]; exact hit_err _ _ _ _⟩
  | succ fuel ih =>
    intro queue acc r h
    match queue, h with
    | [], h =>
      simp only [visitLoopA, List.mem_singleton] at h
      subst h
      exact ⟨[], fun t => by rw [visitLoop_nil]; exact hit_ok _ _⟩
    | (node, depth) :: queue, h =>
      simp only [visitLoopA] at h
      by_cases hd : isDeep max node depth = true
      · rw [if_pos hd] at h
        simp only [List.mem_singleton] at h
        subst h
        refine ⟨[], fun t => ?_⟩
        rw [visitLoop_cons, if_pos hd]
        exact hit_err _ _ _ _
      · rw [if_neg hd] at h
        obtain ⟨⟨a, e⟩, hr1, h⟩ := List.mem_flatMap.1 h
        obtain ⟨pre1, h1⟩ := hk node _ hr1
        cases e with
        | some e =>
          simp only [List.mem_singleton] at h
          subst h
          refine ⟨pre1, fun t => ?_⟩
          have g := (h1 t).err
          rw [visitLoop_cons, if_neg hd, g.2]
          simp only [g.1]
          exact hit_err _ _ _ _
        | none =>
          simp only at h
          obtain ⟨cs, hcs, h⟩ := List.mem_flatMap.1 h
          obtain ⟨pre3, h3⟩ := ndChildrenA_complete node cs hcs
          rcases List.mem_append.1 h with h | h
          · obtain ⟨⟨q', ⟨a2, e2⟩⟩, hv, h⟩ := List.mem_flatMap.1 h
            obtain ⟨pre4, h4⟩ := vcnA_complete hk max depth cs queue (acc ++ a) q' _ hv
            cases e2 with
            | some e2 =>
              simp only [List.mem_singleton] at h
              subst h
              refine ⟨pre1 ++ ([.coin true] ++ (pre3 ++ pre4)), fun t => ?_⟩
              have g := (h1 ([.coin true] ++ (pre3 ++ (pre4 ++ t)))).ok
              have e1 : pre1 ++ ([.coin true] ++ (pre3 ++ pre4)) ++ t =
                  pre1 ++ ([.coin true] ++ (pre3 ++ (pre4 ++ t))) := by
                simp only [List.append_assoc]
              rw [e1, visitLoop_cons, if_neg hd, g.2.1]
              simp only [g.1, g.2.2, coin_surj, h3, if_true]
              have g4 := (h4 t).2.err
              rw [g4.2]
              simp only [g4.1]
              exact hit_err _ _ _ _
            | none =>
              simp only at h
              obtain ⟨pre5, h5⟩ := ih q' a2 r h
              refine ⟨pre1 ++ ([.coin true] ++ (pre3 ++ (pre4 ++ pre5))), fun t => ?_⟩
              have g := (h1 ([.coin true] ++ (pre3 ++ (pre4 ++ (pre5 ++ t))))).ok
              have e1 : pre1 ++ ([.coin true] ++ (pre3 ++ (pre4 ++ pre5))) ++ t =
                  pre1 ++ ([.coin true] ++ (pre3 ++ (pre4 ++ (pre5 ++ t)))) := by
                simp only [List.append_assoc]
              rw [e1, visitLoop_cons, if_neg hd, g.2.1]
              simp only [g.1, g.2.2, coin_surj, h3, if_true]
              have g4 := h4 (pre5 ++ t)
              have g4' := g4.2.ok
              rw [g4'.2.1]
              simp only [g4.1, g4'.1, g4'.2.2]
              exact h5 t
          · obtain ⟨pre4, h4⟩ := ih _ _ r h
            refine ⟨pre1 ++ ([.coin false] ++ (pre3 ++ pre4)), fun t => ?_⟩
            have g := (h1 ([.coin false] ++ (pre3 ++ (pre4 ++ t)))).ok
            have e1 : pre1 ++ ([.coin false] ++ (pre3 ++ pre4)) ++ t =
                pre1 ++ ([.coin false] ++ (pre3 ++ (pre4 ++ t))) := by
              simp only [List.append_assoc]
            rw [e1, visitLoop_cons, if_neg hd, g.2.1]
            simp only [g.1, g.2.2, coin_surj, h3, Bool.false_eq_true, if_false]
            exact h4 t

theorem visitA_complete {k : Node → Script → Out} {K : KA} (hk : KC k K) (max : Int) (root : Node)
    (r : Res) (h : r ∈ visitA max root K) :
    ∃ pre : Script, ∀ t, Hit (visit max root (pre ++ t) k) r t := by
  simp only [visitA] at h
  obtain ⟨⟨a, e⟩, hr1, h⟩ := List.mem_flatMap.1 h
  obtain ⟨pre1, h1⟩ := hk root _ hr1
  cases e with
  | some e =>
    simp only [List.mem_singleton] at h
    subst h
    refine ⟨pre1, fun t => ?_⟩
    have g := (h1 t).err
    rw [visit_eq, g.2]
    simp only [g.1]
    exact hit_err _ _ _ _
  | none =>
    simp only at h
    obtain ⟨cs, hcs, h⟩ := List.mem_flatMap.1 h
    obtain ⟨pre2, h2⟩ := ndChildrenA_complete root cs hcs
    obtain ⟨pre3, h3⟩ := visitLoopA_complete hk max _ _ _ r h
    refine ⟨pre1 ++ (pre2 ++ pre3), fun t => ?_⟩
    have g := (h1 (pre2 ++ (pre3 ++ t))).ok
    have e1 : pre1 ++ (pre2 ++ pre3) ++ t = pre1 ++ (pre2 ++ (pre3 ++ t)) := by
      simp only [List.append_assoc]
    rw [e1, visit_eq, g.2.1]
    simp only [g.1, g.2.2, h2]
    exact h3 t

/-! ### selectors, segments, queries -/

theorem runSelA_complete (env : Env) (root : Json) {k : Node → Script → Out} {K : KA} (hk : KC k K)
    (sel : Selector) (n : Node) (r : Res) (h : r ∈ runSelA K sel n) :
    ∃ pre : Script, ∀ t, Hit (runSel env root k sel n (pre ++ t)) r t := by
  cases sel with
  | name nm => simp only [runSel, runSelA] at h ⊢; exact forEachA_complete hk _ _ h
  | index i => simp only [runSel, runSelA] at h ⊢; exact forEachA_complete hk _ _ h
  | slice a b c => simp only [runSel, runSelA] at h ⊢; exact forEachA_complete hk _ _ h
  | wild =>
    simp only [runSelA] at h
    obtain ⟨m, hm, h⟩ := List.mem_flatMap.1 h
    obtain ⟨pre1, h1⟩ := ndChildrenA_complete n m hm
    obtain ⟨pre2, h2⟩ := forEachA_complete hk _ _ h
    refine ⟨pre1 ++ pre2, fun t => ?_⟩
    simp only [runSel, ndMembers, List.append_assoc, h1]
    exact h2 t
  | filter e => simp [runSelA] at h

theorem runSels_nil (env : Env) (root : Json) (k : Node → Script → Out) (n : Node) (s : Script) :
    runSels env root k [] n s = ⟨[], none, s⟩ := by
  rw [runSels]; rfl

theorem runSelsA_complete (env : Env) (root : Json) {k : Node → Script → Out} {K : KA} (hk : KC k K) :
    ∀ (sels : List Selector) (n : Node) (r : Res), r ∈ runSelsA K sels n →
      ∃ pre : Script, ∀ t, Hit (runSels env root k sels n (pre ++ t)) r t := by
  intro sels
  induction sels with
  | nil =>
    intro n r h
    simp only [runSelsA, List.mem_singleton] at h
    subst h
    exact ⟨[], fun t => by rw [runSels_nil]; exact hit_ok _ _⟩
  | cons sel sels ih =>
    intro n r h
    simp only [runSelsA] at h
    obtain ⟨⟨a, e⟩, hr1, h⟩ := List.mem_flatMap.1 h
    obtain ⟨pre1, h1⟩ := runSelA_complete env root hk sel n _ hr1
    cases e with
    | some e =>
      simp only [List.mem_singleton] at h
      subst h
      refine ⟨pre1, fun t => ?_⟩
      have g := (h1 t).err
      rw [runSels_cons, g.2]
      simp only [g.1]
      exact hit_err _ _ _ _
    | none =>
      simp only [List.mem_map] at h
      obtain ⟨⟨a2, e2⟩, hr2, rfl⟩ := h
      obtain ⟨pre2, h2⟩ := ih n _ hr2
      refine ⟨pre1 ++ pre2, fun t => ?_⟩
      have g1 := (h1 (pre2 ++ t)).ok
      rw [List.append_assoc, runSels_cons, g1.2.1]
      simp only [g1.1, g1.2.2]
      have g2 := h2 t
      refine ⟨?_, fun h => g2.2 h⟩
      have := g2.1
      simp only [Out.res, Prod.mk.injEq] at this ⊢
      exact ⟨by rw [this.1], this.2⟩

theorem runSegsA_complete (env : Env) (root : Json) :
    ∀ (segs : List Segment),
      KC (fun n s => runSegs env root segs n s) (runSegsA env.maxDepth segs) := by
  intro segs
  induction segs with
  | nil =>
    intro n r h
    simp only [runSegsA, List.mem_singleton] at h
    subst h
    exact ⟨[], fun t => by simp only [runSegs]; exact hit_ok _ _⟩
  | cons seg segs ih =>
    intro n r h
    cases seg with
    | child sels =>
      simp only [runSegsA] at h
      obtain ⟨pre, hp⟩ := runSelsA_complete env root ih sels n r h
      exact ⟨pre, fun t => by simp only [runSegs]; exact hp t⟩
    | desc sels =>
      simp only [runSegsA] at h
      have hk : KC (fun m s' => runSels env root (fun m2 s2 => runSegs env root segs m2 s2) sels m s')
          (fun m => runSelsA (runSegsA env.maxDepth segs) sels m) :=
        fun m r hr => runSelsA_complete env root ih sels m r hr
      obtain ⟨pre, hp⟩ := visitA_complete hk env.maxDepth n r h
      exact ⟨pre, fun t => by simp only [runSegs]; exact hp t⟩

/-- every enumerated result is the result under some script -/
theorem findA_complete (env : Env) (q : Query) (v : Json) (r : Except ErrKind (List Node))
    (h : r ∈ findA env q v) : ∃ s : Script, ND.find env q v s = r := by
  obtain ⟨⟨a, e⟩, hr, rfl⟩ := List.mem_map.1 h
  obtain ⟨pre, hp⟩ := runSegsA_complete env v q ⟨[], v⟩ _ hr
  refine ⟨pre, ?_⟩
  have g := hp []
  simp only [List.append_nil] at g
  cases e with
  | some e =>
    have g' := g.err
    simp only [ND.find, g'.2, Res.toExcept]
  | none =>
    have g' := g.ok
    simp only [ND.find, g'.2.1, g'.1, Res.toExcept]

/-- `ND.findA` is exactly the set of results of nondeterministic mode (filter-free queries) -/
theorem findA_iff (env : Env) (q : Query) (v : Json) (hf : Spec.filterFree q = true)
    (r : Except ErrKind (List Node)) : r ∈ findA env q v ↔ ∃ s : Script, ND.find env q v s = r :=
  ⟨findA_complete env q v r, fun ⟨s, hs⟩ => hs ▸ findA_sound env q v hf s⟩

end JPV.Proofs.NdExh
