import JPV.Proofs.LexShape
namespace JPV.Proofs.Rq
open JPV JPV.Impl

/-! ### fuel-free big-step runs of the lexer state machine -/

/-- the state machine started in state `s` on lexer `l` stops with lexer `lf` -/
inductive Halts : LState → Lexer → Lexer → Prop
  | stop {s l lf} : Impl.step s l = .ok (lf, none) → Halts s l lf
  | step {s l s' l' lf} : Impl.step s l = .ok (l', some s') → Halts s' l' lf → Halts s l lf

/-- zero or more calls lead from `(s, l)` to `(s', l')` -/
inductive Reach : LState → Lexer → LState → Lexer → Prop
  | refl {s l} : Reach s l s l
  | step {s l s' l' s'' l''} : Impl.step s l = .ok (l', some s') → Reach s' l' s'' l'' → Reach s l s'' l''

theorem Reach.trans {s l s' l' s'' l''} (h1 : Reach s l s' l') (h2 : Reach s' l' s'' l'') :
    Reach s l s'' l'' := by
  induction h1 with
  | refl => exact h2
  | step hs _ ih => exact .step hs (ih h2)

theorem Reach.one {s l s' l'} (h : Impl.step s l = .ok (l', some s')) : Reach s l s' l' := .step h .refl

theorem Reach.halts {s l s' l' lf} (h1 : Reach s l s' l') (h2 : Halts s' l' lf) : Halts s l lf := by
  induction h1 with
  | refl => exact h2
  | step hs _ ih => exact .step hs (ih h2)

/-- a halting run is found by `run` with any fuel above the potential -/
theorem run_of_halts {n : Nat} {s : LState} {l lf : Lexer} (h : Halts s l lf) :
    ∀ fuel, Lexer.Inv n l → pot n s l < fuel → run fuel s l = .ok lf := by
  induction h with
  | stop hs =>
    intro fuel _ hp
    obtain ⟨f, rfl⟩ : ∃ f, fuel = f + 1 := ⟨fuel - 1, by omega⟩
    simp only [run, hs]
  | @step s l s' l' lf hs _ ih =>
    intro fuel hinv hp
    obtain ⟨f, rfl⟩ : ∃ f, fuel = f + 1 := ⟨fuel - 1, by omega⟩
    have hok := step_ok s hinv
    have hg := step_prog s l
    rw [hs] at hok hg
    simp only [run, hs]
    refine ih f hok.1 ?_
    have h1 := hok.1.pos_le
    have h2 := hinv.pos_le
    have h3 := rank_le s' l'
    simp only [Prog] at hg
    unfold pot at *
    omega

/-! ### a list view of the lexer object -/

/-- the text is `pre ++ cur ++ rest` with `start` after `pre` and `pos` after `cur`; the tokens and
open brackets are `toks` and `br`; not inside a filter -/
structure St (l : Lexer) (pre cur rest : List Char) (toks : List Token) (br : List (Char × Nat)) : Prop where
  q : l.q.toList = pre ++ (cur ++ rest)
  start : l.start = pre.length
  pos : l.pos = pre.length + cur.length
  toks : l.toks = toks
  br : l.brackets = br
  fd : l.filterDepth = 0

theorem peek_eq (l : Lexer) : l.peek = l.q.toList[l.pos]? := by
  unfold Lexer.peek; split <;> simp [*]

section
variable {l : Lexer} {pre cur rest : List Char} {toks : List Token} {br : List (Char × Nat)}

theorem St.peek (h : St l pre cur rest toks br) : l.peek = rest.head? := by
  rw [peek_eq, h.q, h.pos, ← List.append_assoc]
  rw [List.getElem?_append_right (by simp)]
  simp [List.head?_eq_getElem?]

theorem St.restFrom (h : St l pre cur rest toks br) : l.restFrom = rest := by
  rw [Lexer.restFrom_eq, h.q, h.pos, ← List.append_assoc]
  rw [List.drop_append_of_le_length (by simp)]
  simp

theorem St.slice (h : St l pre cur rest toks br) : l.slice l.start l.pos = cur := by
  rw [Lexer.slice_eq, h.q, h.pos, h.start]
  simp

theorem St.adv {c : Char} {r : List Char} (h : St l pre cur (c :: r) toks br) :
    St l.adv pre (cur ++ [c]) r toks br := by
  have hp : l.peek = some c := by rw [h.peek]; rfl
  have hpos := Lexer.adv_pos_some hp
  refine ⟨by simp [h.q], by simp [h.start], by simp [hpos, h.pos]; omega, by simp [h.toks],
    by simp [h.br], ?_⟩
  have := h.fd
  unfold Lexer.adv Lexer.next; split <;> exact this

theorem St.emit (h : St l pre cur rest toks br) (k : TokKind) :
    St (l.emit k) (pre ++ cur) [] rest (⟨k, cur, pre.length⟩ :: toks) br := by
  refine ⟨by simp [Lexer.emit, h.q], by simp [Lexer.emit, h.pos], by simp [Lexer.emit, h.pos], ?_,
    h.br, h.fd⟩
  show (⟨k, l.slice l.start l.pos, l.start⟩ : Token) :: l.toks = _
  rw [h.slice, h.start, h.toks]

theorem St.ignore (h : St l pre cur rest toks br) : St l.ignore (pre ++ cur) [] rest toks br :=
  ⟨by simp [Lexer.ignore, h.q], by simp [Lexer.ignore, h.pos], by simp [Lexer.ignore, h.pos],
    h.toks, h.br, h.fd⟩

theorem St.pushBracket (h : St l pre cur rest toks br) (c : Char) (i : Nat) :
    St (l.pushBracket c i) pre cur rest toks ((c, i) :: br) :=
  ⟨h.q, h.start, h.pos, h.toks, by simp [Lexer.pushBracket, h.br], h.fd⟩

theorem St.popBracket {b : Char × Nat} (h : St l pre cur rest toks (b :: br)) :
    St { l with brackets := br } pre cur rest toks br :=
  ⟨h.q, h.start, h.pos, h.toks, rfl, h.fd⟩

theorem St.backup {c : Char} (h : St l pre (cur ++ [c]) rest toks br) :
    ∃ l', l.backup = .ok l' ∧ St l' pre cur (c :: rest) toks br := by
  refine ⟨{ l with pos := l.pos - 1 }, ?_, by simp [h.q], h.start, by simp [h.pos], h.toks, h.br, h.fd⟩
  unfold Lexer.backup
  rw [if_neg]
  rw [h.pos, h.start]; simp

theorem St.acceptMatch (h : St l pre cur rest toks br) {re : List Char → Option Nat} {k : Nat}
    (hre : re rest = some k) (hk : k ≤ rest.length) :
    ∃ l', l.acceptMatch re = some l' ∧ St l' pre (cur ++ rest.take k) (rest.drop k) toks br := by
  refine ⟨{ l with pos := l.pos + k }, by simp [Lexer.acceptMatch, h.restFrom, hre], by simp [h.q], h.start, ?_, h.toks, h.br, h.fd⟩
  simp [h.pos]; omega

/-- no whitespace to skip -/
theorem St.ws_none (h : St l pre [] rest toks br) (hr : ∀ c, rest.head? = some c → isWs c = false) :
    l.ignoreWhitespace = .ok (false, l) := by
  unfold Lexer.ignoreWhitespace
  have : l.pos = l.start := by rw [h.pos, h.start]; simp
  rw [if_neg (by simp [this])]
  have hm : l.acceptMatch reWhitespace = none := by
    simp only [Lexer.acceptMatch, h.restFrom, reWhitespace]
    cases rest with
    | nil => simp [spanLen]
    | cons c r => simp [spanLen, hr c rfl]
  rw [hm]

end

end JPV.Proofs.Rq
