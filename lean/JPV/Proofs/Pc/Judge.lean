/-
`Proofs.Pc.Judge` — fuel-free big-step judgements for the RFC 9535 recogniser `Spec.Grammar` with the
derivation tree EXPLICIT (`JTerm inp cx rest`: `Spec.term F inp = some (cx, rest)` for every `F` that is at
least twice the number of characters consumed plus a constant).  Same fuel accounting as `Sf.Judge` /
`Sv.Judge`, whose one-step unfoldings (`Sf.GjAux`, `PfGrammar`) are reused; the bracketed selection rule
records that no blank space occurs inside the brackets (flag `false`).
-/
import JPV.Spec.Grammar
import JPV.Proofs.Sf.GjAux
import JPV.Proofs.Sf.Judge
namespace JPV.Proofs.Pc
open JPV JPV.Proofs JPV.Proofs.Sf

/-! ### the judgements -/

def JTerm (inp : List Char) (cx : Spec.CExpr) (rest : List Char) : Prop :=
  rest.length < inp.length ∧ ∀ F, 2 * inp.length + 2 ≤ F + 2 * rest.length → Spec.term F inp = some (cx, rest)

def JBasic (inp : List Char) (cx : Spec.CExpr) (rest : List Char) : Prop :=
  rest.length < inp.length ∧ ∀ F, 2 * inp.length + 3 ≤ F + 2 * rest.length → Spec.basic F inp = some (cx, rest)

def JAnd (inp : List Char) (cx : Spec.CExpr) (rest : List Char) : Prop :=
  rest.length < inp.length ∧ ∀ F, 2 * inp.length + 4 ≤ F + 2 * rest.length →
    Spec.logicalAnd F inp = some (cx, rest)

def JOr (inp : List Char) (cx : Spec.CExpr) (rest : List Char) : Prop :=
  rest.length < inp.length ∧ ∀ F, 2 * inp.length + 5 ≤ F + 2 * rest.length →
    Spec.logicalOr F inp = some (cx, rest)

def JArg (inp : List Char) (cx : Spec.CExpr) (rest : List Char) : Prop :=
  rest.length < inp.length ∧ ∀ F, 2 * inp.length + 6 ≤ F + 2 * rest.length →
    Spec.argument F inp = some (cx, rest)

def JMoreArgs (inp : List Char) (cxs : List Spec.CExpr) (rest : List Char) : Prop :=
  rest.length ≤ inp.length ∧ ∀ F, 2 * inp.length + 5 ≤ F + 2 * rest.length →
    Spec.moreArgs F inp = some (cxs, rest)

def JSel (inp : List Char) (cs : Spec.CSelector) (rest : List Char) : Prop :=
  rest.length < inp.length ∧ ∀ F, 2 * inp.length + 4 ≤ F + 2 * rest.length →
    Spec.selector F inp = some (cs, rest)

def JMoreSels (inp : List Char) (css : List Spec.CSelector) (rest : List Char) : Prop :=
  rest.length ≤ inp.length ∧ ∀ F, 2 * inp.length + 3 ≤ F + 2 * rest.length →
    Spec.moreSelectors F inp = some (css, rest)

/-- a bracketed selection without blank space inside the brackets -/
def JBrk (inp : List Char) (css : List Spec.CSelector) (rest : List Char) : Prop :=
  rest.length < inp.length ∧ ∀ F, 2 * inp.length + 1 ≤ F + 2 * rest.length →
    Spec.bracketed F inp = some (css, false, rest)

def JSeg (inp : List Char) (cs : Spec.CSegment) (rest : List Char) : Prop :=
  rest.length < inp.length ∧ ∀ F, 2 * inp.length + 2 ≤ F + 2 * rest.length →
    Spec.segment F inp = some (cs, rest)

def JSegs (inp : List Char) (c : List Spec.CSegment) (rest : List Char) : Prop :=
  rest.length ≤ inp.length ∧ ∀ F, 2 * inp.length + 3 ≤ F + 2 * rest.length →
    Spec.segments F inp = some (c, rest)

/-! ### terms -/

/-- a literal that is not the beginning of a function call -/
theorem JTerm.lit {inp rest : List Char} {v : Json} (h : Spec.literal inp = some (v, rest))
    (hlen : rest.length < inp.length) (h1 : inp.head? ≠ some '@') (h2 : inp.head? ≠ some '$')
    (hfn : ∀ name r, Spec.functionName inp ≠ some (name, '(' :: r)) : JTerm inp (.lit v) rest := by
  refine ⟨hlen, fun F hb => ?_⟩
  obtain ⟨f, rfl⟩ : ∃ f, F = f + 1 := ⟨F - 1, by omega⟩
  cases inp with
  | nil => simp at hlen
  | cons c t =>
    rw [Pf.term_other _ _ _ (head_ne h1 rfl) (head_ne h2 rfl)]
    split
    · rename_i name r hfe; exact absurd hfe (hfn _ _)
    · rw [h]; rfl

theorem JTerm.rel {r rest : List Char} {c : List Spec.CSegment} (h : JSegs r c rest) :
    JTerm ('@' :: r) (.rel c) rest := by
  obtain ⟨hlen, hF⟩ := h
  refine ⟨by simp only [List.length_cons]; omega, fun F hb => ?_⟩
  simp only [List.length_cons] at hb
  obtain ⟨f, rfl⟩ : ∃ f, F = f + 1 := ⟨F - 1, by omega⟩
  rw [Pf.term_rel, hF f (by omega)]; rfl

theorem JTerm.root {r rest : List Char} {c : List Spec.CSegment} (h : JSegs r c rest) :
    JTerm ('$' :: r) (.root c) rest := by
  obtain ⟨hlen, hF⟩ := h
  refine ⟨by simp only [List.length_cons]; omega, fun F hb => ?_⟩
  simp only [List.length_cons] at hb
  obtain ⟨f, rfl⟩ : ∃ f, F = f + 1 := ⟨F - 1, by omega⟩
  rw [Pf.term_root, hF f (by omega)]; rfl

/-- `name "(" S ")"` -/
theorem JTerm.call0 {inp r rest : List Char} {name : Str} (hf : Spec.functionName inp = some (name, '(' :: r))
    (hr : Spec.skipS r = ')' :: rest) : JTerm inp (.call name []) rest := by
  obtain ⟨c, t, rfl, hc, hl, hn⟩ := functionName_inv hf
  have hr' := skipS_le r
  rw [hr] at hr'
  simp only [List.length_cons] at hl hr'
  refine ⟨by simp only [List.length_cons]; omega, fun F hb => ?_⟩
  simp only [List.length_cons] at hb
  obtain ⟨f, rfl⟩ : ∃ f, F = f + 1 := ⟨F - 1, by omega⟩
  rw [Pf.term_other _ _ _ (lcalpha_ne hc _) (lcalpha_ne hc _), hf]
  simp only [hr]

/-- `name "(" S argument *(S "," S argument) S ")"` -/
theorem JTerm.call {inp r r2 r3 rest : List Char} {name : Str} {a : Spec.CExpr} {as : List Spec.CExpr}
    (hf : Spec.functionName inp = some (name, '(' :: r))
    (ha : JArg (Spec.skipS r) a r2) (hm : JMoreArgs r2 as r3) (hr : Spec.skipS r3 = ')' :: rest) :
    JTerm inp (.call name (a :: as)) rest := by
  obtain ⟨c, t, rfl, hc, hl, hn⟩ := functionName_inv hf
  obtain ⟨hal, haF⟩ := ha
  obtain ⟨hml, hmF⟩ := hm
  have hr' := skipS_le r3
  rw [hr] at hr'
  have hr1 := skipS_le r
  simp only [List.length_cons] at hl hr'
  refine ⟨by simp only [List.length_cons]; omega, fun F hb => ?_⟩
  simp only [List.length_cons] at hb
  obtain ⟨f, rfl⟩ : ∃ f, F = f + 1 := ⟨F - 1, by omega⟩
  exact term_call (lcalpha_ne hc _) (lcalpha_ne hc _) hf (haF f (by omega)) (hmF f (by omega)) hr

/-! ### basic expressions -/

theorem JBasic.test {inp r : List Char} {cx : Spec.CExpr} (h : JTerm inp cx r) (hl : ∀ v, cx ≠ .lit v)
    (hc : Spec.comparisonOp (Spec.skipS r) = none)
    (h1 : inp.head? ≠ some '!') (h2 : inp.head? ≠ some '(') : JBasic inp cx r := by
  obtain ⟨hlen, hF⟩ := h
  refine ⟨hlen, fun F hb => ?_⟩
  obtain ⟨f, rfl⟩ : ∃ f, F = f + 1 := ⟨F - 1, by omega⟩
  have hcx := hF f (by omega)
  cases inp with
  | nil => simp at hlen
  | cons c t =>
    rw [Pf.basic_other _ _ _ (head_ne h1 rfl) (head_ne h2 rfl), hcx]
    simp only [hc]
    try (cases cx <;> first | rfl | exact absurd rfl (hl _))

theorem JBasic.cmp {inp r1 r2 rest : List Char} {l r : Spec.CExpr} {op : COp} (hl : JTerm inp l r1)
    (hc : Spec.comparisonOp (Spec.skipS r1) = some (op, r2)) (hr : JTerm (Spec.skipS r2) r rest)
    (h1 : inp.head? ≠ some '!') (h2 : inp.head? ≠ some '(') : JBasic inp (.cmp op l r) rest := by
  obtain ⟨hll, hlF⟩ := hl
  obtain ⟨hrl, hrF⟩ := hr
  have s1 := skipS_le r1
  have s2 := skipS_le r2
  have s3 := comparisonOp_length hc
  refine ⟨by omega, fun F hb => ?_⟩
  obtain ⟨f, rfl⟩ : ∃ f, F = f + 1 := ⟨F - 1, by omega⟩
  have hcl := hlF f (by omega)
  have hcr := hrF f (by omega)
  cases inp with
  | nil => simp at hll
  | cons c t =>
    rw [Pf.basic_other _ _ _ (head_ne h1 rfl) (head_ne h2 rfl), hcl]
    simp only [hc, hcr]

/-- `"(" S logical-or-expr S ")"` -/
theorem JBasic.paren {r r2 rest : List Char} {e : Spec.CExpr} (h : JOr (Spec.skipS r) e r2)
    (hr : Spec.skipS r2 = ')' :: rest) : JBasic ('(' :: r) (.paren e) rest := by
  obtain ⟨hlen, hF⟩ := h
  have s1 := skipS_le r
  have s2 := skipS_le r2
  rw [hr] at s2
  simp only [List.length_cons] at s2
  refine ⟨by simp only [List.length_cons]; omega, fun F hb => ?_⟩
  simp only [List.length_cons] at hb
  obtain ⟨f, rfl⟩ : ∃ f, F = f + 2 := ⟨F - 2, by omega⟩
  rw [Pf.basic_paren]
  exact parenExpr_cons (hF f (by omega)) hr

/-- `"!" S "(" S logical-or-expr S ")"` -/
theorem JBasic.notParen {r r' r2 rest : List Char} {e : Spec.CExpr} (hb : r.head? ≠ some '=')
    (hp : Spec.skipS r = '(' :: r') (h : JOr (Spec.skipS r') e r2) (hr : Spec.skipS r2 = ')' :: rest) :
    JBasic ('!' :: r) (.not (.paren e)) rest := by
  obtain ⟨hlen, hF⟩ := h
  have s0 := skipS_le r
  rw [hp] at s0
  have s1 := skipS_le r'
  have s2 := skipS_le r2
  rw [hr] at s2
  simp only [List.length_cons] at s0 s2
  refine ⟨by simp only [List.length_cons]; omega, fun F hF' => ?_⟩
  simp only [List.length_cons] at hF'
  obtain ⟨f, rfl⟩ : ∃ f, F = f + 2 := ⟨F - 2, by omega⟩
  rw [basic_bang_paren' hb hp, parenExpr_cons (hF f (by omega)) hr]
  rfl

/-- `"!" S (filter-query / function-expr)` -/
theorem JBasic.notTerm {r rest : List Char} {cx : Spec.CExpr} (hb : r.head? ≠ some '=')
    (h : JTerm (Spec.skipS r) cx rest) (hl : ∀ v, cx ≠ .lit v)
    (hp : (Spec.skipS r).head? ≠ some '(') : JBasic ('!' :: r) (.not cx) rest := by
  obtain ⟨hlen, hF⟩ := h
  have s0 := skipS_le r
  refine ⟨by simp only [List.length_cons]; omega, fun F hF' => ?_⟩
  simp only [List.length_cons] at hF'
  obtain ⟨f, rfl⟩ : ∃ f, F = f + 1 := ⟨F - 1, by omega⟩
  rw [basic_bang_term' hb hp, hF f (by omega)]
  cases cx <;> first | rfl | exact absurd rfl (hl _)

/-! ### conjunctions and disjunctions -/

theorem JAnd.one {inp r : List Char} {cx : Spec.CExpr} (h : JBasic inp cx r)
    (hn : Spec.lit "&&" (Spec.skipS r) = none) : JAnd inp cx r := by
  obtain ⟨hlen, hF⟩ := h
  refine ⟨hlen, fun F hb => ?_⟩
  obtain ⟨f, rfl⟩ : ∃ f, F = f + 1 := ⟨F - 1, by omega⟩
  exact Pf.logicalAnd_stop (hF f (by omega)) hn

theorem JAnd.and {inp r1 r2 rest : List Char} {l r : Spec.CExpr} (hl : JBasic inp l r1)
    (ho : Spec.skipS r1 = '&' :: '&' :: r2) (hr : JAnd (Spec.skipS r2) r rest) :
    JAnd inp (.and l r) rest := by
  obtain ⟨hll, hlF⟩ := hl
  obtain ⟨hrl, hrF⟩ := hr
  have s1 := skipS_le r1
  rw [ho] at s1
  have s2 := skipS_le r2
  simp only [List.length_cons] at s1
  refine ⟨by omega, fun F hb => ?_⟩
  obtain ⟨f, rfl⟩ : ∃ f, F = f + 1 := ⟨F - 1, by omega⟩
  exact logicalAnd_and (hlF f (by omega)) ho (hrF f (by omega))

theorem JOr.one {inp r : List Char} {cx : Spec.CExpr} (h : JAnd inp cx r)
    (hn : Spec.lit "||" (Spec.skipS r) = none) : JOr inp cx r := by
  obtain ⟨hlen, hF⟩ := h
  refine ⟨hlen, fun F hb => ?_⟩
  obtain ⟨f, rfl⟩ : ∃ f, F = f + 1 := ⟨F - 1, by omega⟩
  exact Pf.logicalOr_stop (hF f (by omega)) hn

theorem JOr.or {inp r1 r2 rest : List Char} {l r : Spec.CExpr} (hl : JAnd inp l r1)
    (ho : Spec.skipS r1 = '|' :: '|' :: r2) (hr : JOr (Spec.skipS r2) r rest) :
    JOr inp (.or l r) rest := by
  obtain ⟨hll, hlF⟩ := hl
  obtain ⟨hrl, hrF⟩ := hr
  have s1 := skipS_le r1
  rw [ho] at s1
  have s2 := skipS_le r2
  simp only [List.length_cons] at s1
  refine ⟨by omega, fun F hb => ?_⟩
  obtain ⟨f, rfl⟩ : ∃ f, F = f + 1 := ⟨F - 1, by omega⟩
  exact logicalOr_or (hlF f (by omega)) ho (hrF f (by omega))

/-! ### function arguments -/

/-- a literal directly followed (up to blanks) by `,` or `)` -/
theorem JArg.lit {inp r : List Char} {v : Json} (h : Spec.literal inp = some (v, r))
    (hlen : r.length < inp.length)
    (hf : (∃ t, Spec.skipS r = ',' :: t) ∨ (∃ t, Spec.skipS r = ')' :: t)) :
    JArg inp (.lit v) r := by
  refine ⟨hlen, fun F hb => ?_⟩
  obtain ⟨f, rfl⟩ : ∃ f, F = f + 1 := ⟨F - 1, by omega⟩
  exact argument_lit' h hf

/-- anything else is a logical-or-expr -/
theorem JArg.expr {inp r : List Char} {cx : Spec.CExpr} (h : JOr inp cx r)
    (hn : ∀ v r', Spec.literal inp = some (v, r') →
      (∀ t, Spec.skipS r' ≠ ',' :: t) ∧ (∀ t, Spec.skipS r' ≠ ')' :: t)) : JArg inp cx r := by
  obtain ⟨hlen, hF⟩ := h
  refine ⟨hlen, fun F hb => ?_⟩
  obtain ⟨f, rfl⟩ : ∃ f, F = f + 1 := ⟨F - 1, by omega⟩
  rw [Pf.argument_nolit _ _ hn, hF f (by omega)]

theorem JMoreArgs.nil {inp : List Char} (h : ∀ t, Spec.skipS inp ≠ ',' :: t) : JMoreArgs inp [] inp := by
  refine ⟨Nat.le_refl _, fun F hb => ?_⟩
  obtain ⟨f, rfl⟩ : ∃ f, F = f + 1 := ⟨F - 1, by omega⟩
  exact moreArgs_nil h

theorem JMoreArgs.cons {inp r r2 rest : List Char} {a : Spec.CExpr} {as : List Spec.CExpr}
    (hc : Spec.skipS inp = ',' :: r) (ha : JArg (Spec.skipS r) a r2) (hm : JMoreArgs r2 as rest) :
    JMoreArgs inp (a :: as) rest := by
  obtain ⟨hal, haF⟩ := ha
  obtain ⟨hml, hmF⟩ := hm
  have s1 := skipS_le inp
  rw [hc] at s1
  have s2 := skipS_le r
  simp only [List.length_cons] at s1
  refine ⟨by omega, fun F hb => ?_⟩
  obtain ⟨f, rfl⟩ : ∃ f, F = f + 1 := ⟨F - 1, by omega⟩
  exact moreArgs_cons hc (haF f (by omega)) (hmF f (by omega))

/-! ### selectors and bracketed selections -/

theorem JSel.filter {r rest : List Char} {e : Spec.CExpr} (h : JOr (Spec.skipS r) e rest) :
    JSel ('?' :: r) (.filter e) rest := by
  obtain ⟨hlen, hF⟩ := h
  have s1 := skipS_le r
  refine ⟨by simp only [List.length_cons]; omega, fun F hb => ?_⟩
  simp only [List.length_cons] at hb
  obtain ⟨f, rfl⟩ : ∃ f, F = f + 1 := ⟨F - 1, by omega⟩
  rw [selector_filter, hF f (by omega)]; rfl

/-- name, index, slice, wildcard selectors: `Spec.selector` does not recurse on them -/
theorem JSel.leaf {inp rest : List Char} {cs : Spec.CSelector}
    (h : ∀ F, Spec.selector (F + 1) inp = some (cs, rest))
    (hlen : rest.length < inp.length) : JSel inp cs rest := by
  refine ⟨hlen, fun F hb => ?_⟩
  obtain ⟨f, rfl⟩ : ∃ f, F = f + 1 := ⟨F - 1, by omega⟩
  exact h f

theorem JMoreSels.nil {inp : List Char} (h : ∀ t, Spec.skipS inp ≠ ',' :: t) : JMoreSels inp [] inp := by
  refine ⟨Nat.le_refl _, fun F hb => ?_⟩
  obtain ⟨f, rfl⟩ : ∃ f, F = f + 1 := ⟨F - 1, by omega⟩
  exact moreSelectors_nil h

theorem JMoreSels.cons {inp r r2 rest : List Char} {s : Spec.CSelector} {ss : List Spec.CSelector}
    (hc : Spec.skipS inp = ',' :: r) (hs : JSel (Spec.skipS r) s r2) (hm : JMoreSels r2 ss rest) :
    JMoreSels inp (s :: ss) rest := by
  obtain ⟨hsl, hsF⟩ := hs
  obtain ⟨hml, hmF⟩ := hm
  have s1 := skipS_le inp
  rw [hc] at s1
  have s2 := skipS_le r
  simp only [List.length_cons] at s1
  refine ⟨by omega, fun F hb => ?_⟩
  obtain ⟨f, rfl⟩ : ∃ f, F = f + 1 := ⟨F - 1, by omega⟩
  exact moreSelectors_cons hc (hsF f (by omega)) (hmF f (by omega))

/-- no blank space after `[` nor before `]` -/
theorem JBrk.mk {r r2 rest : List Char} {s : Spec.CSelector} {ss : List Spec.CSelector}
    (h0 : Spec.skipS r = r) (hs : JSel r s r2) (hm : JMoreSels r2 ss (']' :: rest)) :
    JBrk ('[' :: r) (s :: ss) rest := by
  obtain ⟨hsl, hsF⟩ := hs
  obtain ⟨hml, hmF⟩ := hm
  simp only [List.length_cons] at hml
  refine ⟨by simp only [List.length_cons]; omega, fun F hb => ?_⟩
  simp only [List.length_cons] at hb
  obtain ⟨f, rfl⟩ : ∃ f, F = f + 1 := ⟨F - 1, by omega⟩
  have e1 := hsF f (by omega)
  have e2 := hmF f (by simp only [List.length_cons]; omega)
  rw [Spec.bracketed]
  simp only [h0, e1, e2, Prn.skipS_cons (show Spec.isBlank ']' = false by decide)]
  simp

/-! ### segments -/

theorem JSeg.brack {r rest : List Char} {ss : List Spec.CSelector} (h : JBrk ('[' :: r) ss rest) :
    JSeg ('[' :: r) (.child ss false) rest := by
  obtain ⟨hlen, hF⟩ := h
  refine ⟨hlen, fun F hb => ?_⟩
  obtain ⟨f, rfl⟩ : ∃ f, F = f + 1 := ⟨F - 1, by omega⟩
  rw [segment_brack, hF f (by omega)]; rfl

theorem JSeg.descBrack {r rest : List Char} {ss : List Spec.CSelector} (h : JBrk ('[' :: r) ss rest) :
    JSeg ('.' :: '.' :: '[' :: r) (.desc ss) rest := by
  obtain ⟨hlen, hF⟩ := h
  simp only [List.length_cons] at hlen
  refine ⟨by simp only [List.length_cons]; omega, fun F hb => ?_⟩
  simp only [List.length_cons] at hb
  obtain ⟨f, rfl⟩ : ∃ f, F = f + 1 := ⟨F - 1, by omega⟩
  rw [segment_dd_brack, hF f (by simp only [List.length_cons]; omega)]; rfl

/-- no further segment: what follows (after blanks) starts with neither `.` nor `[` -/
theorem JSegs.nil {inp : List Char} (h : ∀ c t, Spec.skipS inp = c :: t → c ≠ '.' ∧ c ≠ '[') :
    JSegs inp [] inp := by
  refine ⟨Nat.le_refl _, fun F hb => ?_⟩
  obtain ⟨f, rfl⟩ : ∃ f, F = f + 1 := ⟨F - 1, by omega⟩
  refine segments_stop ?_
  cases e : Spec.skipS inp with
  | nil => exact segment_nil _
  | cons c t =>
    obtain ⟨c1, c2⟩ := h c t e
    exact Pf.segment_none _ _ _ c1 c2

theorem JSegs.cons {inp r rest : List Char} {s : Spec.CSegment} {q : List Spec.CSegment}
    (hs : JSeg (Spec.skipS inp) s r) (hq : JSegs r q rest) : JSegs inp (s :: q) rest := by
  obtain ⟨hsl, hsF⟩ := hs
  obtain ⟨hql, hqF⟩ := hq
  have s1 := skipS_le inp
  refine ⟨by omega, fun F hb => ?_⟩
  obtain ⟨f, rfl⟩ : ∃ f, F = f + 1 := ⟨F - 1, by omega⟩
  exact segments_cons (hsF f (by omega)) (hqF f (by omega))

/-- the top level: `Spec.parseQuery`'s fuel is enough -/
theorem JSegs.top {r : List Char} {c : List Spec.CSegment} (h : JSegs r c []) :
    Spec.segments (2 * ('$' :: r).length + 4) r = some (c, []) := by
  obtain ⟨_, hF⟩ := h
  exact hF _ (by simp only [List.length_cons, List.length_nil]; omega)

end JPV.Proofs.Pc
