/-
C19 — Reported error positions are real positions in the query text.

Property text: "Whenever compile() rejects a query, the error identifies an
offset inside the query text (between 0 and its length), and the line and column
printed in the error message are exactly the line and column of that offset in
the query text, for single-line and multi-line queries alike."
-/
import JPV.Impl.Parse
import JPV.Spec.Position
import JPV.Proofs.Position
import JPV.Props.C13
namespace JPV.Props
open JPV

/-- `Token.position()` (count / rfind over the query text) is the line and column of the offset -/
def C19_linecol_statement : Prop :=
  ∀ (s : Str) (off : Nat), off ≤ s.length →
    Impl.position s off = ((Spec.lineCol s off).1, ((Spec.lineCol s off).2 : Int))

theorem C19_linecol : C19_linecol_statement := Proofs.position_correct

/-- every error compile() raises carries a token, and its offset lies in `[0, |s|]` -/
def C19_offset_statement : Prop :=
  ∀ (env : Impl.Env) (s : Str) (e : Impl.Err), Impl.compile env s = .error e →
    e.kind.isJSONPathError = true →
    ∃ t, e.tok = some t ∧ 0 ≤ t.index ∧ t.index ≤ (s.length : Int)

theorem C19_offset : C19_offset_statement := Proofs.compile_error_offset

/-- the lexer half on its own: every token the lexer produces, and every lexer
error, is positioned inside the text -/
theorem C19_tokens (s : Str) (toks : List Impl.Token) (h : Impl.tokenize s = .ok toks) :
    ∀ t ∈ toks, 0 ≤ t.index ∧ t.index ≤ (s.length : Int) := Proofs.tokenize_offsets s toks h

/-- **C19 at full strength, for every environment and every string**: whenever compile() rejects a query, the error
carries a token whose offset lies between 0 and the length of the query text, and the (line, column) that
`Token.position()` computes for that offset — what the message prints — is the line (1 + number of LF before the
offset) and column (distance from the last LF) of that offset in the text.  (`C19_offset` ∘ `C13_compile` ∘
`C19_linecol`: no hypothesis on the kind of error is left.) -/
theorem C19 (env : Impl.Env) (s : Str) (e : Impl.Err) (h : Impl.compile env s = .error e) :
    ∃ t, e.tok = some t ∧ 0 ≤ t.index ∧ t.index ≤ (s.length : Int) ∧
      Impl.position s t.index.toNat = ((Spec.lineCol s t.index.toNat).1, ((Spec.lineCol s t.index.toNat).2 : Int)) := by
  have hj : e.kind.isJSONPathError = true := by
    have := C13_compile env s
    rw [h] at this
    exact this
  obtain ⟨t, ht, h0, h1⟩ := C19_offset env s e h hj
  refine ⟨t, ht, h0, h1, C19_linecol s t.index.toNat ?_⟩
  omega

example : Impl.position "$.a\n.b c".toList 7 = (2, 3) := by decide
example : Spec.lineCol "$.a\n.b c".toList 7 = (2, 3) := by decide

end JPV.Props
