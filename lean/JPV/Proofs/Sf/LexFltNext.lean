/-
`Proofs.Sf.LexFltNext` — `flt_next`: what a successful run of the lexer does from the filter state up to
its next token.
-/
import JPV.Proofs.Sf.LexFlt
set_option linter.unusedSimpArgs false
set_option linter.unusedVariables false
namespace JPV.Proofs.Sf
open JPV JPV.Impl JPV.Proofs.Rq JPV.Proofs.Cs JPV.Proofs.Ss

variable {l lf : Lexer} {pre cur rest inp x : List Char} {toks : List Token} {br : List (Char × Nat)} {d : Int}

/-- operator characters with an optional `=` -/
theorem head_eq_cases (r : List Char) : (∃ r', r = '=' :: r') ∨ r.head? ≠ some '=' := by
  cases r with
  | nil => right; simp
  | cons c r' =>
    by_cases hc : c = '='
    · subst hc; exact .inl ⟨r', rfl⟩
    · right; simpa using hc

/-- the closing bracket seen from the filter state: hand-over to the bracketed state, which closes -/
theorem flt_rbracket {r : List Char} (h1 : StG d l pre [] (']' :: r) toks br) (hh : Halts .filter l lf)
    (hg : ¬ Bad lf) :
    ∃ i br' pre' l' n, br = ('[', i) :: br' ∧
      StG (d - 1) l' pre' [] r (⟨.rbracket, [']'], n⟩ :: toks) br' ∧ Halts .segment l' lf := by
  have hp : l.peek = some ']' := by rw [h1.peek]; rfl
  have hw := h1.ws_none (by simp [isWs])
  have h2 := h1.adv.decFd
  obtain ⟨l3, hb, h3⟩ := h2.backup
  have s1 : Impl.step .filter l = .ok (l3, some .bracketed) := by
    simp only [Impl.step, lexFilter, hw, Lexer.next_eq, hp, bind, Except.bind]
    rw [hb]; rfl
  have hh3 := hh.step_some s1
  have hp3 : l3.peek = some ']' := by rw [h3.peek]; rfl
  have hw3 := h3.ws_none (by simp [isWs])
  cases br with
  | nil =>
    exfalso
    obtain ⟨l4, hb4, _⟩ := h3.adv.backup
    have s2 : Impl.step .bracketed l3 = .ok (l4.error, none) := by
      simp [Impl.step, lexBracketed, hw3, Lexer.next_eq, hp3, bind, Except.bind, h3.br, hb4, stop]
    rw [hh3.step_none s2] at hg
    exact hg Bad.of_error
  | cons b br' =>
    obtain ⟨bc, bi⟩ := b
    by_cases hbc : bc = '['
    · subst hbc
      have s2 := lexBracketed_rbracket h3
      have h4 := (h3.adv.popBracket).emit .rbracket
      exact ⟨bi, br', _, _, _, rfl, by simpa using h4, hh3.step_some s2⟩
    · exfalso
      obtain ⟨l4, hb4, _⟩ := h3.adv.backup
      have s2 : Impl.step .bracketed l3 = .ok (l4.error, none) := by
        simp [Impl.step, lexBracketed, hw3, Lexer.next_eq, hp3, bind, Except.bind, h3.br, hb4, stop, hbc]
      rw [hh3.step_none s2] at hg
      exact hg Bad.of_error

theorem halts_congr {s : LState} {l l1 : Lexer} (hh : Halts s l lf) (e : Impl.step s l = Impl.step s l1) :
    Halts s l1 lf := by
  cases hh with
  | stop h => exact .stop (e ▸ h)
  | step h h2 => exact .step (e ▸ h) h2

/-- `(`: LPAREN -/
theorem flt_lparen {r : List Char} (h1 : StG d l pre [] ('(' :: r) toks br) :
    ∃ l' i, Impl.step .filter l = .ok (l', some .filter) ∧
      StG d l' (pre ++ ['(']) [] r (⟨.lparen, ['('], pre.length⟩ :: toks) (('(', i) :: br) := by
  have hp : l.peek = some '(' := by rw [h1.peek]; rfl
  have hw := h1.ws_none (by simp [isWs])
  have h2 := (h1.adv.emit .lparen).pushBracket '(' ((l.adv.emit .lparen).pos - 1)
  cases hfs : l.adv.funcStack with
  | nil =>
    refine ⟨_, _, ?_, by simpa using h2⟩
    simp [Impl.step, lexFilter, hw, Lexer.next_eq, hp, goto, bind, Except.bind, Lexer.emit, Lexer.pushBracket, hfs]
  | cons n more =>
    refine ⟨_, _, ?_, by simpa using h2.setFs ((n + 1) :: more)⟩
    simp [Impl.step, lexFilter, hw, Lexer.next_eq, hp, goto, bind, Except.bind, Lexer.emit, Lexer.pushBracket, hfs]

/-- `)`: RPAREN, closing a `(` -/
theorem flt_rparen {r : List Char} {i : Nat} {br' : List (Char × Nat)}
    (h1 : StG d l pre [] (')' :: r) toks (('(', i) :: br')) :
    ∃ l', Impl.step .filter l = .ok (l', some .filter) ∧
      StG d l' (pre ++ [')']) [] r (⟨.rparen, [')'], pre.length⟩ :: toks) br' := by
  have hp : l.peek = some ')' := by rw [h1.peek]; rfl
  have hw := h1.ws_none (by simp [isWs])
  have h2 := (h1.adv.popBracket).emit .rparen
  have hbr : l.brackets = ('(', i) :: br' := h1.br
  cases hfs : l.adv.funcStack with
  | nil =>
    refine ⟨_, ?_, by simpa using h2⟩
    simp [Impl.step, lexFilter, hw, Lexer.next_eq, hp, goto, bind, Except.bind, Lexer.emit, hfs, hbr]
  | cons n more =>
    by_cases hn : n = 1
    · refine ⟨_, ?_, by simpa using h2.setFs more⟩
      simp [Impl.step, lexFilter, hw, Lexer.next_eq, hp, goto, bind, Except.bind, Lexer.emit, hfs, hbr, hn]
    · refine ⟨_, ?_, by simpa using h2.setFs ((n - 1) :: more)⟩
      simp [Impl.step, lexFilter, hw, Lexer.next_eq, hp, goto, bind, Except.bind, Lexer.emit, hfs, hbr, hn]

/-- `)` without an open `(` -/
theorem flt_rparen_bad {r : List Char} (h1 : StG d l pre [] (')' :: r) toks br)
    (hbr : ∀ i br', br ≠ ('(', i) :: br') (hh : Halts .filter l lf) : Bad lf := by
  have hp : l.peek = some ')' := by rw [h1.peek]; rfl
  have hw := h1.ws_none (by simp [isWs])
  obtain ⟨l2, hb, _⟩ := h1.adv.backup
  have hs : Impl.step .filter l = .ok (l2.error, none) := by
    have hbr' : l.brackets = br := h1.br
    cases br with
    | nil => simp [Impl.step, lexFilter, hw, Lexer.next_eq, hp, bind, Except.bind, hbr', hb, stop]
    | cons b br' =>
      obtain ⟨bc, bi⟩ := b
      have : bc ≠ '(' := by rintro rfl; exact hbr bi br' rfl
      simp [Impl.step, lexFilter, hw, Lexer.next_eq, hp, bind, Except.bind, hbr', hb, stop, this]
  rw [hh.step_none hs]
  exact Bad.of_error

/-- `,` inside a function call or a parenthesis -/
theorem flt_comma_paren {r : List Char} {i : Nat} {br' : List (Char × Nat)}
    (h1 : StG d l pre [] (',' :: r) toks (('(', i) :: br')) :
    Impl.step .filter l = .ok (l.adv.emit .comma, some .filter) := by
  have hp : l.peek = some ',' := by rw [h1.peek]; rfl
  have hw := h1.ws_none (by simp [isWs])
  have hbr : l.brackets = ('(', i) :: br' := h1.br
  simp [Impl.step, lexFilter, hw, Lexer.next_eq, hp, goto, bind, Except.bind, Lexer.emit, hbr]

/-- `,` ending a filter selector -/
theorem flt_comma_brack {r : List Char} (h1 : StG d l pre [] (',' :: r) toks br)
    (hbr : ∀ i br', br ≠ ('(', i) :: br') :
    Impl.step .filter l = .ok ({ (l.adv.emit .comma) with filterDepth := (l.adv.emit .comma).filterDepth - 1 },
      some .bracketed) := by
  have hp : l.peek = some ',' := by rw [h1.peek]; rfl
  have hw := h1.ws_none (by simp [isWs])
  have hbr' : l.brackets = br := h1.br
  cases br with
  | nil => simp [Impl.step, lexFilter, hw, Lexer.next_eq, hp, goto, bind, Except.bind, Lexer.emit, hbr']
  | cons b br' =>
    obtain ⟨bc, bi⟩ := b
    have : bc ≠ '(' := by rintro rfl; exact hbr bi br' rfl
    simp [Impl.step, lexFilter, hw, Lexer.next_eq, hp, goto, bind, Except.bind, Lexer.emit, hbr', this]

/-- a one- or two-character operator `c` / `c=` -/
theorem flt_op2 {c : Char} {r : List Char} (k1 k2 : TokKind) (h1 : StG d l pre [] (c :: '=' :: r) toks br)
    (hs : Impl.step .filter l = .ok (l.adv.adv.emit k2, some .filter)) :
    StG d (l.adv.adv.emit k2) (pre ++ [c, '=']) [] r (⟨k2, [c, '='], pre.length⟩ :: toks) br := by
  simpa using h1.adv.adv.emit k2

theorem flt_next (hst : StG d l pre [] inp toks br) (hh : Halts .filter l lf) (hg : ¬ Bad lf) :
    (∃ r l' pre', Spec.skipS inp = '.' :: r ∧ StG d l' pre' [] ('.' :: r) toks br ∧ Halts .segment l' lf) ∨
    ∃ k v rest n l', fTok inp = some (k, v, rest) ∧ FltPost (fun s l' => Halts s l' lf) d br (⟨k, v, n⟩ :: toks) k rest l' := by
  cases hsk : Spec.skipS inp with
  | nil => exact absurd (flt_nil hst hsk hh) hg
  | cons c r =>
    obtain ⟨l1, pre1, h1, e1⟩ := step_filter_ws hst
    rw [hsk] at h1
    have hh1 : Halts .filter l1 lf := halts_congr hh e1
    have hcw : isWs c = false := skipS_head inp c (by rw [hsk]; rfl)
    have hp : l1.peek = some c := by rw [h1.peek]; rfl
    have hw := h1.ws_none (by simp [hcw])
    by_cases c1 : c = ']'
    · subst c1
      right
      obtain ⟨i, br', pre', l', n, rfl, h', hh'⟩ := flt_rbracket h1 hh1 hg
      exact ⟨.rbracket, [']'], r, n, l', by simp [fTok, hsk], .inl ⟨rfl, i, br', pre', rfl, h', hh'⟩⟩
    by_cases c2 : c = ','
    · subst c2
      right
      by_cases hbr : ∃ i br', br = ('(', i) :: br'
      · obtain ⟨i, br', rfl⟩ := hbr
        have s1 := flt_comma_paren h1
        have h2 := h1.adv.emit .comma
        exact ⟨.comma, [','], r, _, _, by simp [fTok, hsk], .inr (.inl ⟨rfl, i, br', _, rfl, by simpa using h2,
          hh1.step_some s1⟩)⟩
      · have hbr' : ∀ i br', br ≠ ('(', i) :: br' := fun i br' e => hbr ⟨i, br', e⟩
        have s1 := flt_comma_brack h1 hbr'
        have h2 := (h1.adv.emit .comma).decFd
        exact ⟨.comma, [','], r, _, _, by simp [fTok, hsk], .inr (.inr (.inl ⟨rfl, hbr', _, by simpa using h2,
          hh1.step_some s1⟩))⟩
    by_cases c3 : c = '\''
    · subst c3
      right
      have s1 : Impl.step .filter l1 = .ok (l1.adv, some (.strStart '\'' true)) := by
        simp [Impl.step, lexFilter, hw, Lexer.next_eq, hp, goto, bind, Except.bind]
      obtain ⟨body, rest, l', pre', hsc, h3, hh3⟩ := str_firstF (.inl rfl) (by simpa using h1.adv)
        (hh1.step_some s1) hg
      exact ⟨.sqString, body, rest, _, l', by simp [fTok, hsk, hsc],
        .inr (.inr (.inr (.inr (.inr (.inr ⟨by decide, by decide, by decide, by decide, by decide, by decide,
          by decide, pre', by simpa [strKind] using h3, hh3⟩)))))⟩
    by_cases c4 : c = '"'
    · subst c4
      right
      have s1 : Impl.step .filter l1 = .ok (l1.adv, some (.strStart '"' true)) := by
        simp [Impl.step, lexFilter, hw, Lexer.next_eq, hp, goto, bind, Except.bind]
      obtain ⟨body, rest, l', pre', hsc, h3, hh3⟩ := str_firstF (.inr rfl) (by simpa using h1.adv)
        (hh1.step_some s1) hg
      exact ⟨.dqString, body, rest, _, l', by simp [fTok, hsk, hsc],
        .inr (.inr (.inr (.inr (.inr (.inr ⟨by decide, by decide, by decide, by decide, by decide, by decide,
          by decide, pre', by simpa [strKind] using h3, hh3⟩)))))⟩
    by_cases c5 : c = '('
    · subst c5
      right
      obtain ⟨l', i, s1, h2⟩ := flt_lparen h1
      exact ⟨.lparen, ['('], r, _, l', by simp [fTok, hsk],
        .inr (.inr (.inr (.inl ⟨.inl rfl, i, _, h2, hh1.step_some s1⟩)))⟩
    by_cases c6 : c = ')'
    · subst c6
      right
      by_cases hbr : ∃ i br', br = ('(', i) :: br'
      · obtain ⟨i, br', rfl⟩ := hbr
        obtain ⟨l', s1, h2⟩ := flt_rparen h1
        exact ⟨.rparen, [')'], r, _, l', by simp [fTok, hsk],
          .inr (.inr (.inr (.inr (.inl ⟨rfl, i, br', _, rfl, h2, hh1.step_some s1⟩))))⟩
      · exact absurd (flt_rparen_bad h1 (fun i br' e => hbr ⟨i, br', e⟩) hh1) hg
    by_cases c7 : c = '$'
    · subst c7
      right
      have s1 : Impl.step .filter l1 = .ok (l1.adv.emit .root, some .segment) := by
        simp [Impl.step, lexFilter, hw, Lexer.next_eq, hp, goto, bind, Except.bind]
      have h2 := h1.adv.emit .root
      exact ⟨.root, ['$'], r, _, _, by simp [fTok, hsk],
        .inr (.inr (.inr (.inr (.inr (.inl ⟨.inl rfl, _, by simpa using h2, hh1.step_some s1⟩)))))⟩
    by_cases c8 : c = '@'
    · subst c8
      right
      have s1 : Impl.step .filter l1 = .ok (l1.adv.emit .current, some .segment) := by
        simp [Impl.step, lexFilter, hw, Lexer.next_eq, hp, goto, bind, Except.bind]
      have h2 := h1.adv.emit .current
      exact ⟨.current, ['@'], r, _, _, by simp [fTok, hsk],
        .inr (.inr (.inr (.inr (.inr (.inl ⟨.inr rfl, _, by simpa using h2, hh1.step_some s1⟩)))))⟩
    by_cases c9 : c = '.'
    · subst c9
      left
      obtain ⟨l2, hb, h2⟩ := h1.adv.backup
      have s1 : Impl.step .filter l1 = .ok (l2, some .segment) := by
        simp [Impl.step, lexFilter, hw, Lexer.next_eq, hp, goto, bind, Except.bind, hb]
      exact ⟨r, l2, pre1, rfl, h2, hh1.step_some s1⟩
    by_cases c10 : c = '!'
    · subst c10
      right
      rcases head_eq_cases r with ⟨r', rfl⟩ | hne
      · have hp2 : l1.adv.peek = some '=' := by rw [h1.adv.peek]; rfl
        have s1 : Impl.step .filter l1 = .ok (l1.adv.adv.emit .ne, some .filter) := by
          simp [Impl.step, lexFilter, hw, Lexer.next_eq, hp, hp2, goto, bind, Except.bind]
        have h2 := h1.adv.adv.emit .ne
        exact ⟨.ne, ['!', '='], r', _, _, by simp [fTok, hsk],
          .inr (.inr (.inr (.inr (.inr (.inr ⟨by decide, by decide, by decide, by decide, by decide, by decide,
            by decide, _, by simpa using h2, hh1.step_some s1⟩)))))⟩
      · have hp2 : l1.adv.peek ≠ some '=' := by rw [h1.adv.peek]; exact hne
        have s1 : Impl.step .filter l1 = .ok (l1.adv.emit .not, some .filter) := by
          simp [Impl.step, lexFilter, hw, Lexer.next_eq, hp, hp2, goto, bind, Except.bind]
        have h2 := h1.adv.emit .not
        exact ⟨.not, ['!'], r, _, _, by simp [fTok, hsk, hne],
          .inr (.inr (.inr (.inr (.inr (.inr ⟨by decide, by decide, by decide, by decide, by decide, by decide,
            by decide, _, by simpa using h2, hh1.step_some s1⟩)))))⟩
    by_cases c11 : c = '='
    · subst c11
      right
      rcases head_eq_cases r with ⟨r', rfl⟩ | hne
      · have hp2 : l1.adv.peek = some '=' := by rw [h1.adv.peek]; rfl
        have s1 : Impl.step .filter l1 = .ok (l1.adv.adv.emit .eq, some .filter) := by
          simp [Impl.step, lexFilter, hw, Lexer.next_eq, hp, hp2, goto, bind, Except.bind]
        have h2 := h1.adv.adv.emit .eq
        exact ⟨.eq, ['=', '='], r', _, _, by simp [fTok, hsk],
          .inr (.inr (.inr (.inr (.inr (.inr ⟨by decide, by decide, by decide, by decide, by decide, by decide,
            by decide, _, by simpa using h2, hh1.step_some s1⟩)))))⟩
      · exfalso
        have hp2 : l1.adv.peek ≠ some '=' := by rw [h1.adv.peek]; exact hne
        obtain ⟨l2, hb, _⟩ := h1.adv.backup
        have s1 : Impl.step .filter l1 = .ok (l2.error, none) := by
          simp [Impl.step, lexFilter, hw, Lexer.next_eq, hp, hp2, stop, bind, Except.bind, hb]
        rw [hh1.step_none s1] at hg
        exact hg Bad.of_error
    by_cases c12 : c = '<'
    · subst c12
      right
      rcases head_eq_cases r with ⟨r', rfl⟩ | hne
      · have hp2 : l1.adv.peek = some '=' := by rw [h1.adv.peek]; rfl
        have s1 : Impl.step .filter l1 = .ok (l1.adv.adv.emit .le, some .filter) := by
          simp [Impl.step, lexFilter, hw, Lexer.next_eq, hp, hp2, goto, bind, Except.bind]
        have h2 := h1.adv.adv.emit .le
        exact ⟨.le, ['<', '='], r', _, _, by simp [fTok, hsk],
          .inr (.inr (.inr (.inr (.inr (.inr ⟨by decide, by decide, by decide, by decide, by decide, by decide,
            by decide, _, by simpa using h2, hh1.step_some s1⟩)))))⟩
      · have hp2 : l1.adv.peek ≠ some '=' := by rw [h1.adv.peek]; exact hne
        have s1 : Impl.step .filter l1 = .ok (l1.adv.emit .lt, some .filter) := by
          simp [Impl.step, lexFilter, hw, Lexer.next_eq, hp, hp2, goto, bind, Except.bind]
        have h2 := h1.adv.emit .lt
        exact ⟨.lt, ['<'], r, _, _, by simp [fTok, hsk, hne],
          .inr (.inr (.inr (.inr (.inr (.inr ⟨by decide, by decide, by decide, by decide, by decide, by decide,
            by decide, _, by simpa using h2, hh1.step_some s1⟩)))))⟩
    by_cases c13 : c = '>'
    · subst c13
      right
      rcases head_eq_cases r with ⟨r', rfl⟩ | hne
      · have hp2 : l1.adv.peek = some '=' := by rw [h1.adv.peek]; rfl
        have s1 : Impl.step .filter l1 = .ok (l1.adv.adv.emit .ge, some .filter) := by
          simp [Impl.step, lexFilter, hw, Lexer.next_eq, hp, hp2, goto, bind, Except.bind]
        have h2 := h1.adv.adv.emit .ge
        exact ⟨.ge, ['>', '='], r', _, _, by simp [fTok, hsk],
          .inr (.inr (.inr (.inr (.inr (.inr ⟨by decide, by decide, by decide, by decide, by decide, by decide,
            by decide, _, by simpa using h2, hh1.step_some s1⟩)))))⟩
      · have hp2 : l1.adv.peek ≠ some '=' := by rw [h1.adv.peek]; exact hne
        have s1 : Impl.step .filter l1 = .ok (l1.adv.emit .gt, some .filter) := by
          simp [Impl.step, lexFilter, hw, Lexer.next_eq, hp, hp2, goto, bind, Except.bind]
        have h2 := h1.adv.emit .gt
        exact ⟨.gt, ['>'], r, _, _, by simp [fTok, hsk, hne],
          .inr (.inr (.inr (.inr (.inr (.inr ⟨by decide, by decide, by decide, by decide, by decide, by decide,
            by decide, _, by simpa using h2, hh1.step_some s1⟩)))))⟩
    -- the default branch
    right
    obtain ⟨l2, hb, h2⟩ := h1.adv.backup
    have hft : fTok inp = fDefault (c :: r) := by
      simp [fTok, hsk, c1, c2, c3, c4, c5, c6, c7, c8, c9, c10, c11, c12, c13]
    have hstep : Impl.step .filter l1 = lexFilterDefault l2 := by
      simp only [Impl.step, lexFilter, hw, Lexer.next_eq, hp, bind, Except.bind]
      simp [hb]
    rcases fltDefault_spec h2 with ⟨k, v, rest, l', pre', br', hfd, hs, h', hbr⟩ | ⟨_, l', hs, hbad⟩
    · have s1 : Impl.step .filter l1 = .ok (l', some .filter) := hstep.trans hs
      refine ⟨k, v, rest, (pre1.length : Int), l', hft.trans hfd, ?_⟩
      rcases hbr with ⟨rfl, i, rfl⟩ | ⟨hk, rfl⟩
      · exact .inr (.inr (.inr (.inl ⟨.inr rfl, i, pre', h', hh1.step_some s1⟩)))
      · have hk' : k ≠ .rbracket ∧ k ≠ .comma ∧ k ≠ .lparen ∧ k ≠ .rparen ∧ k ≠ .root ∧ k ≠ .current := by
          unfold fDefault at hfd
          repeat' split at hfd
          all_goals (cases hfd; try decide)
        exact .inr (.inr (.inr (.inr (.inr (.inr ⟨hk'.1, hk'.2.1, hk'.2.2.1, hk, hk'.2.2.2.1, hk'.2.2.2.2.1,
          hk'.2.2.2.2.2, pre', h', hh1.step_some s1⟩)))))
    · exfalso
      have s1 : Impl.step .filter l1 = .ok (l', none) := hstep.trans hs
      rw [hh1.step_none s1] at hg
      exact hg hbad

end JPV.Proofs.Sf
