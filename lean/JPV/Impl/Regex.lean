/-
`Impl.Regex` — function_extensions/_pattern.py `map_re` (the character loop with
its `escaped` / `char_class` flags) and the decision logic of
`Match.__call__` / `Search.__call__`: type test, validity gate
(`iregexp_check.check`), `fullmatch` vs `search`, the swallowed exceptions.
The two third-party engines are parameters (`Engines`): *modelled, not verified*.
-/
import JPV.Impl.Eval
namespace JPV.Impl

/-- what `.` outside a character class is rewritten to -/
def dotGroup : Str := "(?:(?![\\r\\n])\\P{Cs}|\\p{Cs}\\p{Cs})".toList

/-- `map_re(pattern)`: state = (escaped, char_class) -/
def mapReGo : Bool → Bool → List Char → List Char
  | _, _, [] => []
  | true, cc, ch :: rest => ch :: mapReGo false cc rest
  | false, cc, ch :: rest =>
    if ch = '.' then (if !cc then dotGroup else ['.']) ++ mapReGo false cc rest
    else if ch = '\\' then ch :: mapReGo true cc rest
    else if ch = '[' then ch :: mapReGo false true rest
    else if ch = ']' then ch :: mapReGo false false rest
    else ch :: mapReGo false cc rest

def mapRe (p : Str) : Str := mapReGo false false p

/-- the third-party components -/
structure Engines where
  /-- `iregexp_check.check(pattern)` -/
  check : Str → Bool
  /-- `bool(regex.fullmatch(translated, subject))`; `none` = raises `re.error` or `TypeError` -/
  fullmatch : Str → Str → Option Bool
  /-- `bool(regex.search(translated, subject))` -/
  search : Str → Str → Option Bool

/-- `Match.__call__(string, pattern)` on the objects `_unpack_node_lists` passes -/
def matchBody (eng : Engines) : List Obj → Except ErrKind Obj
  | [subject, pattern] =>
    match pattern with
    | .val (.str p) =>
      if !eng.check p then .ok (.val (.bool false)) else
      (match subject with
       | .val (.str s) => .ok (.val (.bool ((eng.fullmatch (mapRe p) s).getD false)))
       | _ => .ok (.val (.bool false)))  -- `re.fullmatch` raises TypeError on a non-string: swallowed
    | _ => .ok (.val (.bool false))
  | _ => .error (.py "TypeError")

/-- `Search.__call__(string, pattern)` -/
def searchBody (eng : Engines) : List Obj → Except ErrKind Obj
  | [subject, pattern] =>
    match pattern with
    | .val (.str p) =>
      if !eng.check p then .ok (.val (.bool false)) else
      (match subject with
       | .val (.str s) => .ok (.val (.bool ((eng.search (mapRe p) s).getD false)))
       | _ => .ok (.val (.bool false)))
    | _ => .ok (.val (.bool false))
  | _ => .error (.py "TypeError")

end JPV.Impl
