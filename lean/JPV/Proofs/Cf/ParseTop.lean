/-
`Proofs.Cf.ParseTop` — the parser half of `compile_complete`: on `ROOT`, the tokens of a valid
derivation and `EOF`, `parseTop` returns the derivation's AST for all sufficiently large fuel.
-/
import JPV.Proofs.Cf.ParseExpr
set_option linter.unusedSimpArgs false
set_option linter.unusedVariables false
namespace JPV.Proofs.Cf
open JPV JPV.Impl JPV.Proofs.Rq

theorem parse_top_full (env : Env) {segs : List Spec.CSegment} {ts : List Token} (h : FSegsShape segs ts)
    (hv : (Spec.cSegs (sigsOfEnv' env) env.minIdx env.maxIdx segs).1 = true)
    (r e : Token) (hrk : r.kind = .root) (hek : e.kind = .eof) :
    ∃ F0, ∀ F, F0 ≤ F →
      (exec (parseTop env F) (TStream.init (r :: (ts ++ [e])))).1 = .ok (Spec.abstractSegs segs) := by
  obtain ⟨t, ts', hts, F0, hev⟩ := parse_segs_full env ts.length segs ts h hv (Nat.le_refl _) false [] e []
    (by simp [hek, segStart])
  refine ⟨F0, fun F hF => ?_⟩
  have he := hev F hF
  have hre : r.kind ≠ .eof := by rw [hrk]; simp
  have hinit : TStream.init (r :: (ts ++ [e])) = ⟨r, [], t :: ts'⟩ := by
    rw [hts]; simp [TStream.init, TStream.next, initTok]
  rw [hinit]
  unfold parseTop
  simp only [endState, Bool.false_eq_true, if_false, List.nil_append] at he
  simp [exec_bind, exec_cur, exec_pure, exec_nextTok, next_fresh _ _ _ hre, expect, he, hek, hrk]

end JPV.Proofs.Cf

#print axioms JPV.Proofs.Cf.parse_top_full
