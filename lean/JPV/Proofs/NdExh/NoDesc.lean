import JPV.Proofs.NdExh.Shuffle
import JPV.Proofs.NonDetRelEquiv
import JPV.Proofs.NonDetPermitted
/-
C17, second half, for queries without descendant segments (and without filters): every nodelist
RFC 9535 permits is produced by some choice script.  Scripts compose: every stage is shown to be
"reachable" in the strong sense that some script PREFIX produces the wanted result and leaves
whatever follows it untouched, so the script of a sequence of stages is the concatenation.
-/
namespace JPV.Spec
/-- no descendant segment (at the top level of the query) -/
def noDescendant (q : Query) : Bool :=
  q.all (fun seg => match seg with
    | .child _ => true
    | .desc _ => false)
end JPV.Spec

namespace JPV.Proofs.NdExh
open JPV JPV.Impl JPV.Spec.ND

/-- some script prefix makes the stage `k` produce exactly `r` from `n`, without an exception, and
consumes exactly that prefix -/
def Reach (k : Node → ND.Script → ND.Out) (n : Node) (r : List Node) : Prop :=
  ∃ pre : ND.Script, ∀ t, k n (pre ++ t) = ⟨r, none, t⟩

/-! ### `Each` -/

theorem each_nil_inv {P : Node → List Node → Prop} {out : List Node} (h : Each P [] out) : out = [] := by
  cases h; rfl

theorem each_cons_inv {P : Node → List Node → Prop} {n : Node} {ns out : List Node}
    (h : Each P (n :: ns) out) : ∃ l r, out = l ++ r ∧ P n l ∧ Each P ns r := by
  cases h with
  | cons h1 h2 => exact ⟨_, _, rfl, h1, h2⟩

theorem each_append_inv {P : Node → List Node → Prop} : ∀ (a b out : List Node),
    Each P (a ++ b) out → ∃ o1 o2, out = o1 ++ o2 ∧ Each P a o1 ∧ Each P b o2 := by
  intro a
  induction a with
  | nil => intro b out h; exact ⟨[], out, rfl, .nil, h⟩
  | cons x a ih =>
    intro b out h
    obtain ⟨l, r, rfl, hl, hr⟩ := each_cons_inv h
    obtain ⟨o1, o2, rfl, h1, h2⟩ := ih b r hr
    exact ⟨l ++ o1, o2, by rw [List.append_assoc], .cons hl h1, h2⟩

theorem each_singletons {P : Node → List Node → Prop} (hP : ∀ n, P n [n]) :
    ∀ ns : List Node, Each P ns ns := by
  intro ns
  induction ns with
  | nil => exact .nil
  | cons n ns ih => exact Each.cons (l := [n]) (hP n) ih

/-! ### the loop over a nodelist -/

theorem forEach_reach {P : Node → List Node → Prop} {k : Node → ND.Script → ND.Out}
    (hk : ∀ n r, n.val.WF → P n r → Reach k n r) :
    ∀ {ns r : List Node}, Each P ns r → (∀ n, n ∈ ns → n.val.WF) →
      ∃ pre : ND.Script, ∀ t, ND.forEach ns (pre ++ t) k = ⟨r, none, t⟩ := by
  intro ns r h
  induction h with
  | nil => intro _; exact ⟨[], fun t => rfl⟩
  | @cons n ns l r hp _ ih =>
    intro hw
    obtain ⟨pre1, h1⟩ := hk n l (hw n List.mem_cons_self) hp
    obtain ⟨pre2, h2⟩ := ih (fun m hm => hw m (List.mem_cons_of_mem _ hm))
    refine ⟨pre1 ++ pre2, fun t => ?_⟩
    simp only [ND.forEach, List.append_assoc, h1 (pre2 ++ t), h2 t]

/-! ### selectors -/

theorem runSel_reach (env : Env) (reg : Spec.Registry) (root : Json)
    {P : Node → List Node → Prop} {k : Node → ND.Script → ND.Out}
    (hk : ∀ n r, n.val.WF → P n r → Reach k n r)
    {sel : Selector} {n : Node} {m r : List Node}
    (hs : SelPermitted reg root sel n m) (hnf : ∀ e, sel ≠ .filter e) (hw : n.val.WF)
    (he : Each P m r) :
    Reach (fun n s => ND.runSel env root k sel n s) n r := by
  have hwm := NdRel.selPermitted_wf hs hw
  obtain ⟨pre1, h1⟩ := forEach_reach hk he hwm
  cases hs with
  | wildObj ho hp =>
    have hm : (match n.val with
        | .obj _ => m.Perm (Spec.children n)
        | _ => m = Spec.children n) := by
      cases hv : n.val <;> simp_all [isObj]
    obtain ⟨pre0, h0⟩ := ndChildren_surj n m hm
    refine ⟨pre0 ++ pre1, fun t => ?_⟩
    simp only [ND.runSel, ND.ndMembers, List.append_assoc, h0 (pre1 ++ t), h1 t]
  | wildOther ho =>
    have hm : (match n.val with
        | .obj _ => (Spec.children n).Perm (Spec.children n)
        | _ => Spec.children n = Spec.children n) := by
      cases hv : n.val <;> simp_all [isObj]
    obtain ⟨pre0, h0⟩ := ndChildren_surj n _ hm
    refine ⟨pre0 ++ pre1, fun t => ?_⟩
    simp only [ND.runSel, ND.ndMembers, List.append_assoc, h0 (pre1 ++ t), h1 t]
  | filterObj _ _ => exact absurd rfl (hnf _)
  | filterOther _ => exact absurd rfl (hnf _)
  | name =>
    refine ⟨pre1, fun t => ?_⟩
    simp only [ND.runSel, selName_eq _ n hw, h1 t]
  | index =>
    refine ⟨pre1, fun t => ?_⟩
    simp only [ND.runSel, selIndex_correct, h1 t]
  | slice =>
    refine ⟨pre1, fun t => ?_⟩
    simp only [ND.runSel, selSlice_correct, h1 t]

theorem runSels_reach (env : Env) (reg : Spec.Registry) (root : Json)
    {P : Node → List Node → Prop} {k : Node → ND.Script → ND.Out}
    (hk : ∀ n r, n.val.WF → P n r → Reach k n r)
    {sels : List Selector} {n : Node} {m : List Node}
    (hs : SelsPermitted reg root sels n m) (hw : n.val.WF) :
    Spec.filterFreeSels sels = true → ∀ r, Each P m r →
    Reach (fun n s => ND.runSels env root k sels n s) n r := by
  induction hs with
  | nil =>
    intro _ r he
    have := each_nil_inv he
    subst this
    exact ⟨[], fun t => by simp only [ND.runSels, ND.Out.ok, List.nil_append]⟩
  | @cons sel ss n l r' h1 _ ih =>
    intro hf r he
    have hnf : ∀ e, sel ≠ .filter e := by
      intro e he; subst he; simp [Spec.filterFreeSels] at hf
    have hf' : Spec.filterFreeSels ss = true := by
      cases sel <;> simp_all [Spec.filterFreeSels]
    obtain ⟨o1, o2, rfl, he1, he2⟩ := each_append_inv _ _ _ he
    obtain ⟨pre1, hp1⟩ := runSel_reach env reg root hk h1 hnf hw he1
    obtain ⟨pre2, hp2⟩ := ih hw hf' o2 he2
    refine ⟨pre1 ++ pre2, fun t => ?_⟩
    have e1 := hp1 (pre2 ++ t)
    have e2 := hp2 t
    simp only at e1 e2
    simp only [ND.runSels, List.append_assoc, e1, e2]

/-! ### segments, depth first -/

/-- the permitted results of pushing ONE node through child segments, in the depth-first shape of
the evaluator: the selectors' results for the node, then each of them pushed through the rest -/
def DF (reg : Spec.Registry) (root : Json) : List Segment → Node → List Node → Prop
  | [], n, r => r = [n]
  | .child sels :: rest, n, r => ∃ m, SelsPermitted reg root sels n m ∧ Each (DF reg root rest) m r
  | .desc _ :: _, _, _ => False

theorem segsPermitted_df (reg : Spec.Registry) (root : Json) :
    ∀ (segs : List Segment), Spec.noDescendant segs = true → ∀ (ns out : List Node),
      SegsPermitted reg root segs ns out → Each (DF reg root segs) ns out := by
  intro segs
  induction segs with
  | nil =>
    intro _ ns out h
    cases h
    exact each_singletons (fun n => by simp only [DF]) ns
  | cons seg segs ih =>
    intro hnd ns out h
    simp only [Spec.noDescendant, List.all_cons, Bool.and_eq_true] at hnd
    cases seg with
    | desc sels => simp at hnd
    | child sels =>
      have hnd' : Spec.noDescendant segs = true := hnd.2
      cases h with
      | @cons _ _ _ mid _ h1 h2 =>
        have h3 := ih hnd' mid out h2
        simp only [SegPermitted] at h1
        clear h2
        induction h1 generalizing out with
        | nil =>
          have := each_nil_inv h3
          subst this
          exact .nil
        | @cons n ns' l r hp _ ih' =>
          obtain ⟨o1, o2, rfl, he1, he2⟩ := each_append_inv _ _ _ h3
          exact .cons (by simp only [DF]; exact ⟨l, hp, he1⟩) (ih' o2 he2)

theorem runSegs_reach (env : Env) (reg : Spec.Registry) (root : Json) :
    ∀ (segs : List Segment), Spec.filterFree segs = true → ∀ (n : Node) (r : List Node),
      n.val.WF → DF reg root segs n r →
      Reach (fun m s => ND.runSegs env root segs m s) n r := by
  intro segs
  induction segs with
  | nil =>
    intro _ n r _ h
    simp only [DF] at h
    subst h
    exact ⟨[], fun t => by simp only [ND.runSegs, List.nil_append]⟩
  | cons seg segs ih =>
    intro hf n r hw h
    simp only [Spec.filterFree, List.all_cons, Bool.and_eq_true] at hf
    cases seg with
    | desc sels => simp only [DF] at h
    | child sels =>
      simp only [DF] at h
      obtain ⟨m, hm, he⟩ := h
      have hk : ∀ n r, n.val.WF → DF reg root segs n r →
          Reach (fun m s => ND.runSegs env root segs m s) n r :=
        fun n r hw h => ih hf.2 n r hw h
      obtain ⟨pre, hp⟩ := runSels_reach env reg root hk hm hw hf.1 r he
      refine ⟨pre, fun t => ?_⟩
      have e := hp t
      simp only at e
      simp only [ND.runSegs, e]

/-- C17, second half, for filter-free queries without descendant segments: every nodelist RFC 9535
permits is the result under some choice script -/
theorem find_exhaustive_nodesc (env : Env) (reg : Spec.Registry) (q : Query) (v : Json)
    (hnd : Spec.noDescendant q = true) (hff : Spec.filterFree q = true) (hw : v.WF) :
    ∀ r ∈ Spec.ND.outcomes reg q v, ∃ s : ND.Script, ND.find env q v s = .ok r := by
  intro r hr
  have hp := Proofs.outcomes_sound reg q v hw r hr
  have he := segsPermitted_df reg v q hnd _ _ hp
  obtain ⟨l, r', rfl, hl, hr'⟩ := each_cons_inv he
  have := each_nil_inv hr'
  subst this
  obtain ⟨pre, hpre⟩ := runSegs_reach env reg v q hff ⟨[], v⟩ l hw hl
  refine ⟨pre, ?_⟩
  have e := hpre []
  simp only [List.append_nil] at e
  simp only [ND.find, e, List.append_nil]

end JPV.Proofs.NdExh
