/-
Every tree derivable at looseness `l` has an acceptable shape verdict at `l`:
all comparison operands are singular in shape, and to the letter (`l = false`)
no singular-segment bracket contains blanks.
-/
import JPV.Proofs.Abnf.Shape
namespace JPV.Proofs.AbnfP
open JPV JPV.Spec

/-! ### small facts about the verdict functions -/

theorem OK_segs_nil (l : Bool) : OK l (cmpShapeSegs []) := by
  rw [cmpShapeSegs]; exact OK_triv l
theorem OK_sels_nil (l : Bool) : OK l (cmpShapeSels []) := by
  rw [cmpShapeSels]; exact OK_triv l
theorem OK_args_nil (l : Bool) : OK l (cmpShapeArgs []) := by
  rw [cmpShapeArgs]; exact OK_triv l
theorem OK_sel_name (l : Bool) (n : Str) : OK l (cmpShapeSel (.name n)) := by
  simp only [cmpShapeSel]; exact OK_triv l
theorem OK_sel_wild (l : Bool) : OK l (cmpShapeSel .wild) := by
  simp only [cmpShapeSel]; exact OK_triv l
theorem OK_sel_slice (l : Bool) (a b c : Option Int) : OK l (cmpShapeSel (.slice a b c)) := by
  simp only [cmpShapeSel]; exact OK_triv l
theorem OK_sel_index (l : Bool) (i : Int) : OK l (cmpShapeSel (.index i)) := by
  simp only [cmpShapeSel]; exact OK_triv l
theorem OK_sel_filter {l : Bool} {e : CExpr} (h : OK l (cmpShapeExpr e)) : OK l (cmpShapeSel (.filter e)) := by
  rw [cmpShapeSel]; exact h
theorem OK_expr_lit (l : Bool) (v : Json) : OK l (cmpShapeExpr (.lit v)) := by
  rw [cmpShapeExpr]; exact OK_triv l
theorem OK_expr_not {l : Bool} {e : CExpr} (h : OK l (cmpShapeExpr e)) : OK l (cmpShapeExpr (.not e)) := by
  rw [cmpShapeExpr]; exact h
theorem OK_expr_paren {l : Bool} {e : CExpr} (h : OK l (cmpShapeExpr e)) : OK l (cmpShapeExpr (.paren e)) := by
  rw [cmpShapeExpr]; exact h
theorem OK_expr_rel {l : Bool} {q : List CSegment} (h : OK l (cmpShapeSegs q)) : OK l (cmpShapeExpr (.rel q)) := by
  rw [cmpShapeExpr]; exact h
theorem OK_expr_root {l : Bool} {q : List CSegment} (h : OK l (cmpShapeSegs q)) : OK l (cmpShapeExpr (.root q)) := by
  rw [cmpShapeExpr]; exact h
theorem OK_expr_call {l : Bool} {n : List Char} {args : List CExpr} (h : OK l (cmpShapeArgs args)) :
    OK l (cmpShapeExpr (.call n args)) := by
  rw [cmpShapeExpr]; exact h
theorem OK_operand_lit (l : Bool) (v : Json) : OK l (operandShape (.lit v)) := by
  simp only [operandShape]; exact OK_triv l
theorem OK_operand_rel {l : Bool} {q : List CSegment} (h : OK l (singularSegs q)) : OK l (operandShape (.rel q)) := by
  rw [operandShape]; exact h
theorem OK_operand_root {l : Bool} {q : List CSegment} (h : OK l (singularSegs q)) : OK l (operandShape (.root q)) := by
  rw [operandShape]; exact h

/-- single-segment list over a single plain selector -/
theorem OK_segs_single_child {l : Bool} {sel : CSelector} {fl : Bool} (h : OK l (cmpShapeSel sel)) :
    OK l (cmpShapeSegs [.child [sel] fl]) :=
  OK_segs_child.2 ⟨OK_sels_cons.2 ⟨h, OK_sels_nil l⟩, OK_segs_nil l⟩
theorem OK_segs_single_desc {l : Bool} {sel : CSelector} (h : OK l (cmpShapeSel sel)) :
    OK l (cmpShapeSegs [.desc [sel]]) :=
  OK_segs_desc.2 ⟨OK_sels_cons.2 ⟨h, OK_sels_nil l⟩, OK_segs_nil l⟩

/-- a segment list is fine when its head (as a one-segment list) and its tail are -/
theorem OK_segs_cons {l : Bool} {seg : CSegment} {rest : List CSegment}
    (h1 : OK l (cmpShapeSegs [seg])) (h2 : OK l (cmpShapeSegs rest)) : OK l (cmpShapeSegs (seg :: rest)) := by
  cases seg with
  | child sels b => exact OK_segs_child.2 ⟨(OK_segs_child.1 h1).1, h2⟩
  | desc sels => exact OK_segs_desc.2 ⟨(OK_segs_desc.1 h1).1, h2⟩

/-! ### singular-query-segments -/

theorem flag_false {l : Bool} {b1 b2 : List Char} (h : l = true ∨ (b1 = [] ∧ b2 = [])) (hl : l = false) :
    (!b1.isEmpty || !b2.isEmpty) = false := by
  rcases h with h | ⟨h1, h2⟩
  · rw [hl] at h; cases h
  · subst h1; subst h2; rfl

theorem singularSegs_shape {l : Bool} {s : List Char} {q : List CSegment} (h : Abnf.SingularSegs l s q) :
    OK l (singularSegs q) ∧ cmpShapeSegs q = (true, false) := by
  induction h with
  | nil =>
    refine ⟨?_, ?_⟩
    · rw [singularSegs]; exact OK_triv l
    · rw [cmpShapeSegs]
  | cons hb hs _ ih =>
    obtain ⟨⟨ih1, ih2⟩, ih3⟩ := ih
    cases hs with
    | dotName hn =>
      refine ⟨?_, ?_⟩
      · simp only [singularSegs]
        exact ⟨ih1, fun hl => by simp [ih2 hl]⟩
      · simp only [cmpShapeSegs, cmpShapeSels, cmpShapeSel, ih3, Bool.and_self, Bool.or_self]
    | name h1 h2 h3 h4 =>
      refine ⟨?_, ?_⟩
      · simp only [singularSegs]
        exact ⟨ih1, fun hl => by simp only [flag_false h4 hl, ih2 hl]; rfl⟩
      · simp only [cmpShapeSegs, cmpShapeSels, cmpShapeSel, ih3, Bool.and_self, Bool.or_self]
    | index h1 h2 h3 h4 =>
      refine ⟨?_, ?_⟩
      · simp only [singularSegs]
        exact ⟨ih1, fun hl => by simp only [flag_false h4 hl, ih2 hl]; rfl⟩
      · simp only [cmpShapeSegs, cmpShapeSels, cmpShapeSel, ih3, Bool.and_self, Bool.or_self]

theorem OK_of_eq_triv {l : Bool} {sh : Bool × Bool} (h : sh = (true, false)) : OK l sh := by
  rw [h]; exact OK_triv l

/-- a function-expr is never a query, so as a comparison operand its shape is trivially fine -/
theorem functionExpr_operand {l : Bool} {s : List Char} {e : CExpr} (h : Abnf.FunctionExpr l s e) :
    ∀ l', OK l' (operandShape e) := by
  intro l'
  cases h with
  | noArgs _ _ => simp only [operandShape]; exact OK_triv l'
  | args _ _ _ _ _ => simp only [operandShape]; exact OK_triv l'

/-! ### the mutual block -/

mutual
theorem segments_shapeOK {l : Bool} {s : List Char} {c : List CSegment} : Abnf.Segments l s c → OK l (cmpShapeSegs c)
  | .nil => OK_segs_nil l
  | .cons _ hs hr => OK_segs_cons (segment_shapeOK hs) (segments_shapeOK hr)
theorem segment_shapeOK {l : Bool} {s : List Char} {c : CSegment} : Abnf.Segment l s c → OK l (cmpShapeSegs [c])
  | .bracketed h => OK_segs_child.2 ⟨bracketed_shapeOK h, OK_segs_nil l⟩
  | .dotWild => OK_segs_single_child (OK_sel_wild l)
  | .dotName _ => OK_segs_single_child (OK_sel_name l _)
  | .descBracketed h => OK_segs_desc.2 ⟨bracketed_shapeOK h, OK_segs_nil l⟩
  | .descWild => OK_segs_single_desc (OK_sel_wild l)
  | .descName _ => OK_segs_single_desc (OK_sel_name l _)
theorem bracketed_shapeOK {l : Bool} {s : List Char} {c : List CSelector} {fl : Bool} :
    Abnf.Bracketed l s c fl → OK l (cmpShapeSels c)
  | .mk _ h2 h3 _ => OK_sels_cons.2 ⟨selector_shapeOK h2, moreSelectors_shapeOK h3⟩
theorem moreSelectors_shapeOK {l : Bool} {s : List Char} {c : List CSelector} :
    Abnf.MoreSelectors l s c → OK l (cmpShapeSels c)
  | .nil => OK_sels_nil l
  | .cons _ _ h3 h4 => OK_sels_cons.2 ⟨selector_shapeOK h3, moreSelectors_shapeOK h4⟩
theorem selector_shapeOK {l : Bool} {s : List Char} {c : CSelector} : Abnf.Selector l s c → OK l (cmpShapeSel c)
  | .name _ => OK_sel_name l _
  | .wild => OK_sel_wild l
  | .slice _ => OK_sel_slice l _ _ _
  | .index _ => OK_sel_index l _
  | .filter _ h => OK_sel_filter (logicalOr_shapeOK h)
theorem logicalOr_shapeOK {l : Bool} {s : List Char} {e : CExpr} : Abnf.LogicalOr l s e → OK l (cmpShapeExpr e)
  | .single h => logicalAnd_shapeOK h
  | .or h1 _ _ h4 => OK_or_expr.2 ⟨logicalAnd_shapeOK h1, logicalOr_shapeOK h4⟩
theorem logicalAnd_shapeOK {l : Bool} {s : List Char} {e : CExpr} : Abnf.LogicalAnd l s e → OK l (cmpShapeExpr e)
  | .single h => basic_shapeOK h
  | .and h1 _ _ h4 => OK_and_expr.2 ⟨basic_shapeOK h1, logicalAnd_shapeOK h4⟩
theorem basic_shapeOK {l : Bool} {s : List Char} {e : CExpr} : Abnf.Basic l s e → OK l (cmpShapeExpr e)
  | .paren h => paren_shapeOK h
  | .notParen _ h => OK_expr_not (paren_shapeOK h)
  | .test h => testItem_shapeOK h
  | .notTest _ h => OK_expr_not (testItem_shapeOK h)
  | .cmp h1 _ _ _ h5 =>
    OK_cmp_expr.2 ⟨⟨(comparable_shapeOK h1).2, (comparable_shapeOK h5).2⟩,
      (comparable_shapeOK h1).1, (comparable_shapeOK h5).1⟩
theorem paren_shapeOK {l : Bool} {s : List Char} {e : CExpr} : Abnf.Paren l s e → OK l (cmpShapeExpr e)
  | .mk _ h _ => OK_expr_paren (logicalOr_shapeOK h)
theorem testItem_shapeOK {l : Bool} {s : List Char} {e : CExpr} : Abnf.TestItem l s e → OK l (cmpShapeExpr e)
  | .rel h => OK_expr_rel (segments_shapeOK h)
  | .root h => OK_expr_root (segments_shapeOK h)
  | .call h => functionExpr_shapeOK h
theorem comparable_shapeOK {l : Bool} {s : List Char} {e : CExpr} :
    Abnf.Comparable l s e → OK l (cmpShapeExpr e) ∧ OK l (operandShape e)
  | .lit _ => ⟨OK_expr_lit l _, OK_operand_lit l _⟩
  | .rel h => ⟨OK_expr_rel (OK_of_eq_triv (singularSegs_shape h).2), OK_operand_rel (singularSegs_shape h).1⟩
  | .root h => ⟨OK_expr_root (OK_of_eq_triv (singularSegs_shape h).2), OK_operand_root (singularSegs_shape h).1⟩
  | .call h => ⟨functionExpr_shapeOK h, functionExpr_operand h l⟩
theorem functionExpr_shapeOK {l : Bool} {s : List Char} {e : CExpr} : Abnf.FunctionExpr l s e → OK l (cmpShapeExpr e)
  | .noArgs _ _ => OK_expr_call (OK_args_nil l)
  | .args _ _ h3 h4 _ => OK_expr_call (OK_args_cons.2 ⟨argument_shapeOK h3, moreArgs_shapeOK h4⟩)
theorem argument_shapeOK {l : Bool} {s : List Char} {e : CExpr} : Abnf.Argument l s e → OK l (cmpShapeExpr e)
  | .lit _ => OK_expr_lit l _
  | .rel h => OK_expr_rel (segments_shapeOK h)
  | .root h => OK_expr_root (segments_shapeOK h)
  | .logical h => logicalOr_shapeOK h
  | .call h => functionExpr_shapeOK h
theorem moreArgs_shapeOK {l : Bool} {s : List Char} {c : List CExpr} : Abnf.MoreArgs l s c → OK l (cmpShapeArgs c)
  | .nil => OK_args_nil l
  | .cons _ _ h3 h4 => OK_args_cons.2 ⟨argument_shapeOK h3, moreArgs_shapeOK h4⟩
end

end JPV.Proofs.AbnfP
