import JPV.Impl.Eval
namespace JPV.Proofs.Rq
open JPV JPV.Impl

def segOfKey : Key → Segment
  | .name s => Segment.child [.name s]
  | .idx i => Segment.child [.index i]

/-- the singular query a location denotes (same body as `JPV.Proofs.queryOfLoc`) -/
def qOfLoc (loc : Loc) : Query := loc.map segOfKey

theorem index_nonneg {α} (xs : List α) (i : Int) (x : α) (h0 : 0 ≤ i)
    (h : xs[i.toNat]? = some x) : Py.index xs i = some x := by
  have hlt : i.toNat < xs.length := by
    rcases Nat.lt_or_ge i.toNat xs.length with h' | h'
    · exact h'
    · rw [List.getElem?_eq_none h'] at h; cases h
  unfold Py.index
  simp only []
  have h1 : ¬ i < 0 := by omega
  rw [if_neg h1, if_neg (by omega)]
  exact h

theorem evalSeg_key (env : Env) (root : Json) (k : Key) (pre : Loc) (cur c : Json)
    (hs : Json.step cur k = some c) (hk : ∀ i, k = .idx i → 0 ≤ i) :
    Impl.evalSeg env root (segOfKey k) ([⟨pre, cur⟩], none) = ([⟨pre ++ [k], c⟩], none) := by
  cases k with
  | name s =>
    cases cur <;> simp [Json.step] at hs
    simp [segOfKey, Impl.evalSeg, Impl.evalSels, Impl.evalSel, Stream.bind, Stream.bindList,
      Stream.append, Stream.nil, Impl.selName, hs, Impl.child]
  | idx i =>
    have h0 : 0 ≤ i := hk i rfl
    cases cur <;> simp [Json.step] at hs
    next xs =>
    have hi := index_nonneg xs i c h0 hs.2
    have hn : Impl.normIndex i xs.length = i := by
      unfold Impl.normIndex; rw [if_neg]; omega
    simp [segOfKey, Impl.evalSeg, Impl.evalSels, Impl.evalSel, Stream.bind, Stream.bindList,
      Stream.append, Stream.nil, Impl.selIndex, hi, hn, Impl.child]

theorem evalSegs_loc (env : Env) (root : Json) (ks : Loc) :
    ∀ (pre : Loc) (cur val : Json), Json.getAt cur ks = some val →
    (∀ k ∈ ks, ∀ i, k = .idx i → 0 ≤ i) →
    Impl.evalSegs env root (qOfLoc ks) ([⟨pre, cur⟩], none) = ([⟨pre ++ ks, val⟩], none) := by
  induction ks with
  | nil =>
    intro pre cur val hg _
    simp [Json.getAt] at hg
    simp [qOfLoc, Impl.evalSegs, hg]
  | cons k ks ih =>
    intro pre cur val hg hk
    simp only [Json.getAt] at hg
    cases hs : Json.step cur k with
    | none => rw [hs] at hg; cases hg
    | some c =>
      rw [hs] at hg
      simp only [Option.bind] at hg
      have ih' := ih (pre ++ [k]) c val hg (fun k' hk' => hk k' (List.mem_cons_of_mem _ hk'))
      have key := evalSeg_key env root k pre cur c hs (hk k List.mem_cons_self)
      show Impl.evalSegs env root (segOfKey k :: qOfLoc ks) _ = _
      rw [Impl.evalSegs, key, ih']
      simp

end JPV.Proofs.Rq
