/-
`Impl.Serialize` — every `__str__` that `str(query)` goes through
(query.py, segments.py, selectors.py, filter_expressions.py, serialize.py) and
`JSONPathNode.path()` (node.py).
-/
import JPV.Impl.Eval
namespace JPV.Impl

/-- `canonical_string(value)`:
`"'" + json.dumps(value, ensure_ascii=False)[1:-1].replace('\\"', '"').replace("'", "\\'") + "'"` -/
def canonicalString (s : Str) : Str :=
  let body := Py.jsonDumpsBody s
  let body := Py.replace body ['\\', '"'] ['"']
  let body := Py.replace body ['\''] ['\\', '\'']
  ['\''] ++ body ++ ['\'']

/-- `JSONPathNode.path()` -/
def path (loc : Loc) : Str :=
  '$' :: loc.flatMap (fun k => match k with
    | .name s => ['['] ++ canonicalString s ++ [']']
    | .idx i => ['['] ++ Py.reprInt i ++ [']'])

def serPrecLowest : Nat := 1
def serPrecOr : Nat := 3
def serPrecAnd : Nat := 4
def serPrecRelational : Nat := 5
def serPrecPrefix : Nat := 7

def copText : COp → Str
  | .eq => "==".toList | .ne => "!=".toList | .lt => "<".toList
  | .le => "<=".toList | .gt => ">".toList | .ge => ">=".toList

/-- `FloatLiteral.__str__`: `repr(value).lower()`, except that an infinity (a literal too big for a double, like
`1e400`) is written as a number that reads back as that infinity, and a repr with a positive exponent and no `.`
(`1e+16`, which would read back as an INTEGER literal) gets `.0` after its mantissa -/
def strFloat (x : Num) : Str :=
  if x.d = 0 then (if x.n < 0 then "-1e400".toList else "1e400".toList) else
  let s := Py.reprFloat x
  let mant := s.takeWhile (fun c => c != 'e')
  let rest := s.drop mant.length
  match rest with
  | 'e' :: '+' :: _ => if mant.contains '.' then s else mant ++ ".0".toList ++ rest
  | _ => s

/-- `FilterExpressionLiteral.__str__` and its overrides -/
def strLit : Json → Str
  | .null => "null".toList
  | .bool true => "true".toList
  | .bool false => "false".toList
  | .str s => canonicalString s
  | .num x => if x.flt then strFloat x else Py.reprInt x.n
  | _ => "<non-literal>".toList

def joinSep (sep : Str) : List Str → Str
  | [] => []
  | [x] => x
  | x :: xs => x ++ sep ++ joinSep sep xs

def optIntStr : Option Int → Str
  | none => []
  | some i => Py.reprInt i

mutual
/-- `str(expression)` -/
def strExpr : Expr → Str
  | .lit v => strLit v
  | .not e =>
    (match e with
     | .cmp _ _ _ => ['!', '('] ++ strExpr e ++ [')']
     | .not _ => ['!', '('] ++ strExpr e ++ [')']
     | _ => '!' :: strExpr e)
  | .logical op l r =>
    ['('] ++ strExpr l ++ (match op with | .and => " && ".toList | .or => " || ".toList) ++ strExpr r ++ [')']
  | .cmp op l r => strExpr l ++ [' '] ++ copText op ++ [' '] ++ strExpr r
  | .rel q => '@' :: strSegs q
  | .root q => '$' :: strSegs q
  | .call f args => f ++ ['('] ++ strArgs args ++ [')']
/-- `', '.join(str(arg) for arg in args)` -/
def strArgs : List Expr → Str
  | [] => []
  | [a] => strExpr a
  | a :: as => strExpr a ++ [',', ' '] ++ strArgs as
/-- `FilterExpression._canonical_string(expression, parent_precedence)` -/
def canonExpr (parent : Nat) : Expr → Str
  | .logical .and l r =>
    let s := canonExpr serPrecAnd l ++ " && ".toList ++ canonExpr serPrecAnd r
    if parent ≥ serPrecAnd then ['('] ++ s ++ [')'] else s
  | .logical .or l r =>
    let s := canonExpr serPrecOr l ++ " || ".toList ++ canonExpr serPrecOr r
    if parent ≥ serPrecOr then ['('] ++ s ++ [')'] else s
  | .not e =>
    let s := '!' :: canonExpr serPrecPrefix e
    if parent ≥ serPrecPrefix then ['('] ++ s ++ [')'] else s
  | .cmp op l r =>
    let s := strExpr l ++ [' '] ++ copText op ++ [' '] ++ strExpr r
    if parent > serPrecRelational then ['('] ++ s ++ [')'] else s
  | .lit v => strLit v
  | .rel q => '@' :: strSegs q
  | .root q => '$' :: strSegs q
  | .call f args => f ++ ['('] ++ strArgs args ++ [')']
/-- `str(selector)` -/
def strSel : Selector → Str
  | .name s => canonicalString s
  | .index i => Py.reprInt i
  | .slice a b c => optIntStr a ++ [':'] ++ optIntStr b ++ [':'] ++ (match c with | none => ['1'] | some i => Py.reprInt i)
  | .wild => ['*']
  | .filter e => '?' :: canonExpr serPrecLowest e
def strSels : List Selector → Str
  | [] => []
  | [s] => strSel s
  | s :: ss => strSel s ++ [',', ' '] ++ strSels ss
/-- `''.join(str(segment) for segment in segments)` -/
def strSegs : List Segment → Str
  | [] => []
  | .child sels :: rest => ['['] ++ strSels sels ++ [']'] ++ strSegs rest
  | .desc sels :: rest => ['.', '.', '['] ++ strSels sels ++ [']'] ++ strSegs rest
end

/-- `str(query)` -/
def strQuery (q : Query) : Str := '$' :: strSegs q

end JPV.Impl
