import JPV.Tables.Common
namespace JPV.Tables
open JPV JPV.Impl

/-- the two dispatch maps -/
theorem token_map_model :
    (match tableK Generated.tokenMap with
     | some t => allKinds.all (fun k => (Impl.tokenMap k).map handlerName = lookupK k t)
     | none => false) = true := by decide +kernel

end JPV.Tables
