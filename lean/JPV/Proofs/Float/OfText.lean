/-
`Proofs.Float.OfText` — every finite value `Py.floatOfText` returns is a double (`IsDouble`).
-/
import JPV.Proofs.Float.RoundTrip
namespace JPV.Proofs.Float
open JPV JPV.Proofs.Pc

theorem mkDec_den_pos (neg : Bool) (mant : Nat) (x' : Int) : 0 < (mkDec neg mant x').2.2 := by
  have h10 : ∀ k : Nat, 0 < 10 ^ k := fun k => Nat.pow_pos (by decide)
  unfold mkDec
  simp only
  split
  · exact Nat.one_pos
  · split
    · exact Nat.one_pos
    · split
      · apply h10
      · split
        · exact Nat.one_pos
        · exact Nat.pow_pos (by decide)

theorem parseBody_den_pos (neg : Bool) (s : Str) (t : Bool × Nat × Nat) (h : parseBody neg s = some t) :
    0 < t.2.2 := by
  unfold parseBody at h
  simp only at h
  split at h
  · cases h
  · split at h
    · split at h
      · cases h
      · cases h; exact mkDec_den_pos _ _ _
    · cases h; exact mkDec_den_pos _ _ _
    · cases h

/-- the fraction `Py.parseDecimal` returns has a positive denominator -/
theorem parseDecimal_den_pos (s : Str) (t : Bool × Nat × Nat) (h : Py.parseDecimal s = some t) : 0 < t.2.2 := by
  by_cases hs : ∃ r, s = '-' :: r
  · obtain ⟨r, rfl⟩ := hs
    rw [parseDecimal_minus] at h
    exact parseBody_den_pos _ _ _ h
  · rw [parseDecimal_plain s (fun r e => hs ⟨r, e⟩)] at h
    exact parseBody_den_pos _ _ _ h

/-- the exponent of a rounded result is at least the subnormal floor -/
theorem roundBinary64_exp_ge {n d m : ℕ} {e : ℤ} (hd : 0 < d) (h : Py.roundBinary64 n d = some (m, e)) :
    -1074 ≤ e := by
  rw [roundBinary64_eq] at h
  split at h
  · cases h; decide
  · rename_i hn
    have hN := (chooseE_spec n d (by omega) hd).1
    generalize chooseE n d _ = E at *
    rw [finishE_eq] at h
    unfold normQ at h
    generalize roundQ _ _ _ = q at h
    split at h
    · split at h
      · cases h
      · cases h; omega
    · split at h
      · cases h
      · cases h; exact hN

/-- every finite value of `float(text)` is a double -/
theorem floatOfText_isDouble (s : Str) (x : Num) (h : Py.floatOfText s = some x) (hx : x.d ≠ 0) : IsDouble x := by
  rw [floatOfText_eq] at h
  cases hp : Py.parseDecimal s with
  | none => rw [hp] at h; cases h
  | some t =>
    obtain ⟨neg, n, d⟩ := t
    have hd : 0 < d := parseDecimal_den_pos s _ hp
    rw [hp] at h
    simp only at h
    cases hr : Py.roundBinary64 n d with
    | none => rw [hr] at h; simp only at h; cases h; exact absurd rfl hx
    | some me =>
      obtain ⟨m, e⟩ := me
      rw [hr] at h
      simp only at h
      obtain ⟨hm, he1⟩ := roundBinary64_bound hr
      have he0 := roundBinary64_exp_ge hd hr
      rcases Nat.eq_zero_or_pos m with hm0 | hm0
      · subst hm0
        rw [ratioOfBinary_zero] at h
        simp only [and_true] at h
        split at h
        · cases h; exact ⟨rfl, .inl ⟨rfl, .inr rfl⟩⟩
        · cases h
          exact ⟨rfl, .inl ⟨rfl, .inl rfl⟩⟩
      · obtain ⟨ha, hb, hg, hv⟩ := ratioOfBinary_spec m e hm0
        generalize Py.ratioOfBinary m e = ab at *
        obtain ⟨a, b⟩ := ab
        simp only at *
        rw [if_neg (fun hc => by omega)] at h
        cases h
        refine ⟨rfl, .inr ⟨m, e, hm0, hm, he0, he1, ?_, ?_⟩⟩
        · simp only
          split <;> simpa using hg
        · simp only
          split <;> simpa using hv

end JPV.Proofs.Float
