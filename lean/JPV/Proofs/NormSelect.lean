import JPV.Spec.Semantics
import JPV.Proofs.PrintCompile
namespace JPV.Proofs
open JPV

theorem sliceIndices_none_step (len : Nat) (a b : Option Int) :
    Spec.sliceIndices len a b none = Spec.sliceIndices len a b (some 1) := rfl

theorem selSlice_none_step (a b : Option Int) (n : Node) :
    Spec.selSlice a b (some 1) n = Spec.selSlice a b none n := by
  unfold Spec.selSlice
  cases n.val <;> simp only [sliceIndices_none_step]

mutual
theorem testOf_norm (reg : Spec.Registry) (root : Json) :
    (e : Expr) → (cur : Json) → Spec.testOf reg root cur (normExpr e) = Spec.testOf reg root cur e
  | .lit v, cur => by rw [normExpr]
  | .not e, cur => by rw [normExpr, Spec.testOf, Spec.testOf, testOf_norm reg root e cur]
  | .logical .and l r, cur => by
      rw [normExpr, Spec.testOf, Spec.testOf, testOf_norm reg root l cur, testOf_norm reg root r cur]
  | .logical .or l r, cur => by
      rw [normExpr, Spec.testOf, Spec.testOf, testOf_norm reg root l cur, testOf_norm reg root r cur]
  | .cmp op l r, cur => by
      rw [normExpr, Spec.testOf, Spec.testOf, valueOf_norm reg root l cur, valueOf_norm reg root r cur]
  | .rel q, cur => by
      rw [normExpr, Spec.testOf, Spec.testOf, selectFrom_norm reg root q]
  | .root q, cur => by
      rw [normExpr, Spec.testOf, Spec.testOf, selectFrom_norm reg root q]
  | .call f args, cur => by
      rw [normExpr, Spec.testOf, Spec.testOf]
      cases reg f with
      | none => rfl
      | some fn => simp only [argsOf_norm reg root args cur]
theorem valueOf_norm (reg : Spec.Registry) (root : Json) :
    (e : Expr) → (cur : Json) → Spec.valueOf reg root cur (normExpr e) = Spec.valueOf reg root cur e
  | .lit v, cur => by rw [normExpr]
  | .not e, cur => by simp only [normExpr, Spec.valueOf]
  | .logical op l r, cur => by simp only [normExpr, Spec.valueOf]
  | .cmp op l r, cur => by simp only [normExpr, Spec.valueOf]
  | .rel q, cur => by
      rw [normExpr, Spec.valueOf, Spec.valueOf, selectFrom_norm reg root q]
  | .root q, cur => by
      rw [normExpr, Spec.valueOf, Spec.valueOf, selectFrom_norm reg root q]
  | .call f args, cur => by
      rw [normExpr, Spec.valueOf, Spec.valueOf]
      cases reg f with
      | none => rfl
      | some fn => simp only [argsOf_norm reg root args cur]
theorem nodesOf_norm (reg : Spec.Registry) (root : Json) :
    (e : Expr) → (cur : Json) → Spec.nodesOf reg root cur (normExpr e) = Spec.nodesOf reg root cur e
  | .lit v, cur => by rw [normExpr]
  | .not e, cur => by simp only [normExpr, Spec.nodesOf]
  | .logical op l r, cur => by simp only [normExpr, Spec.nodesOf]
  | .cmp op l r, cur => by simp only [normExpr, Spec.nodesOf]
  | .rel q, cur => by
      rw [normExpr, Spec.nodesOf, Spec.nodesOf, selectFrom_norm reg root q]
  | .root q, cur => by
      rw [normExpr, Spec.nodesOf, Spec.nodesOf, selectFrom_norm reg root q]
  | .call f args, cur => by
      rw [normExpr, Spec.nodesOf, Spec.nodesOf]
      cases reg f with
      | none => rfl
      | some fn => simp only [argsOf_norm reg root args cur]
theorem argsOf_norm (reg : Spec.Registry) (root : Json) :
    (es : List Expr) → (cur : Json) → (ts : List Ty) →
      Spec.argsOf reg root cur ts (normArgs es) = Spec.argsOf reg root cur ts es
  | [], cur, ts => by rw [normArgs]
  | e :: es, cur, [] => by simp only [normArgs, Spec.argsOf]
  | e :: es, cur, t :: ts => by
      simp only [normArgs, Spec.argsOf, testOf_norm reg root e cur, valueOf_norm reg root e cur,
        nodesOf_norm reg root e cur, argsOf_norm reg root es cur ts]
theorem selectSel_norm (reg : Spec.Registry) (root : Json) :
    (s : Selector) → (n : Node) → Spec.selectSel reg root (normSel s) n = Spec.selectSel reg root s n
  | .name s, n => by simp only [normSel]
  | .index i, n => by simp only [normSel]
  | .wild, n => by simp only [normSel]
  | .slice a b none, n => by
      rw [normSel, Spec.selectSel, Spec.selectSel, selSlice_none_step]
  | .slice a b (some c), n => by simp only [normSel]
  | .filter e, n => by
      rw [normSel, Spec.selectSel, Spec.selectSel]
      congr 1
      funext c
      rw [testOf_norm reg root e c.val]
theorem selectSels_norm (reg : Spec.Registry) (root : Json) :
    (ss : List Selector) → (n : Node) →
      Spec.selectSels reg root (normSels ss) n = Spec.selectSels reg root ss n
  | [], n => by rw [normSels]
  | s :: ss, n => by
      rw [normSels, Spec.selectSels, Spec.selectSels, selectSel_norm reg root s n,
        selectSels_norm reg root ss n]
theorem selectFrom_norm (reg : Spec.Registry) (root : Json) :
    (q : List Segment) → (ns : List Node) →
      Spec.selectFrom reg root (normSegs q) ns = Spec.selectFrom reg root q ns
  | [], ns => by rw [normSegs]
  | .child sels :: rest, ns => by
      rw [normSegs, Spec.selectFrom, Spec.selectFrom, selectFrom_norm reg root rest,
        Spec.selectSeg, Spec.selectSeg]
      congr 2
      funext n
      exact selectSels_norm reg root sels n
  | .desc sels :: rest, ns => by
      rw [normSegs, Spec.selectFrom, Spec.selectFrom, selectFrom_norm reg root rest,
        Spec.selectSeg, Spec.selectSeg]
      congr 2
      funext n
      congr 1
      funext m
      exact selectSels_norm reg root sels m
end

/-- writing out an omitted slice step as `1`, at every nesting level, does not change what a query selects:
same nodes, same order, on every JSON value, for every function registry -/
theorem select_normSegs (reg : Spec.Registry) (q : Query) (v : Json) :
    Spec.select reg (normSegs q) v = Spec.select reg q v := by
  unfold Spec.select
  exact selectFrom_norm reg v q _

end JPV.Proofs
