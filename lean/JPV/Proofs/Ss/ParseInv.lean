/-
`Proofs.Ss.ParseInv` — PARSER INVERSION for the filter-free language: if `parseTop` succeeds on an
EOF-terminated token list with a filter-free query `q`, the token list is a ROOT token followed by
the tokens of the segments of `q` (in the sense of `Ss.Shape.QT`) and an EOF token.
Pure parser reasoning by symbolic execution; arbitrary tokens, no lexer.
-/
import JPV.Proofs.Ss.Shape
import JPV.Proofs.Cs.ParseSegs
set_option linter.unusedSimpArgs false
set_option linter.unusedVariables false
namespace JPV.Proofs.Ss
open JPV JPV.Impl JPV.Proofs.Rq JPV.Proofs.Cs

/-! ### generic inversion of `exec` -/

theorem exec_bind_ok {α β} {m : P α} {f : α → P β} {st st' : TStream} {r : β}
    (h : exec (m >>= f) st = (.ok r, st')) :
    ∃ a st1, exec m st = (.ok a, st1) ∧ exec (f a) st1 = (.ok r, st') := by
  rw [exec_bind] at h
  rcases hm : exec m st with ⟨_ | a, st1⟩
  · rw [hm] at h; simp at h
  · rw [hm] at h; exact ⟨a, st1, rfl, h⟩

theorem exec_cur_ok {st st1 : TStream} {a : Token} (h : exec cur st = (.ok a, st1)) :
    st.cur = a ∧ st = st1 := by
  rw [exec_cur] at h
  obtain ⟨h1, h2⟩ := Prod.mk.inj h
  exact ⟨Except.ok.inj h1, h2⟩

theorem exec_pure_ok {α} {st st1 : TStream} {a b : α} (h : exec (pure a : P α) st = (.ok b, st1)) :
    a = b ∧ st = st1 := by
  rw [exec_pure] at h
  obtain ⟨h1, h2⟩ := Prod.mk.inj h
  exact ⟨Except.ok.inj h1, h2⟩

theorem exec_nextTok_ok {st st1 : TStream} {a : Token} (h : exec nextTok st = (.ok a, st1)) :
    st.next.2 = st1 := by
  rw [exec_nextTok] at h
  exact (Prod.mk.inj h).2

theorem exec_guard_ok {α} {p : Prop} [Decidable p] {kd : ErrKind} {t : Token} {k : Unit → P α}
    {st st' : TStream} {r : α}
    (h : exec (if p then (failAt kd t : P Unit) >>= k else k ()) st = (.ok r, st')) :
    ¬ p ∧ exec (k ()) st = (.ok r, st') := by
  by_cases hp : p
  · simp [hp, failAt, exec_bind, exec_throw] at h
  · simp only [hp, if_false] at h; exact ⟨hp, h⟩

theorem failAt_ne_ok {α} {k : ErrKind} {t : Token} {st st' : TStream} {r : α} :
    exec (failAt k t : P α) st ≠ (.ok r, st') := by
  simp [failAt, exec_throw]

/-! ### stream facts -/

theorem fresh_next {c : Token} {rest : List Token} (he : EndsEof (c :: rest)) (hc : c.kind ≠ .eof) :
    ∃ t rest', rest = t :: rest' ∧ EndsEof (t :: rest') ∧
      TStream.next ⟨c, [], rest⟩ = (c, ⟨t, [], rest'⟩) := by
  obtain ⟨t, rest', rfl, he'⟩ := he.next hc
  exact ⟨t, rest', rfl, he', next_fresh c t rest' hc⟩

/-! ### `parseSlice` -/

/-- optional-index stage of `parseSlice` in continuation-passing style -/
def optStage {α} (k : Option Int → P α) : P α := do
  let l ← cur
  let b ← maybeIndex l
  if b = true then do
    let c ← cur
    let i ← intOf c
    let _ ← nextTok
    k (some i)
  else k none

def sliceFin (env : Env) (tok : Token) (start stop step : Option Int) : P Selector := do
  let c ← cur
  pushTok c
  for i in [start, stop, step] do
    match i with
    | some v => if !inRange env v then failAt .index tok
    | none => pure ()
  return .slice start stop step

def sliceStep (env : Env) (tok : Token) (start stop : Option Int) : P Selector := do
  let c ← cur
  if c.kind = .colon then do
    let _ ← nextTok
    optStage (fun step => sliceFin env tok start stop step)
  else sliceFin env tok start stop none

def sliceStop (env : Env) (tok : Token) (start : Option Int) : P Selector :=
  optStage (fun stop => sliceStep env tok start stop)

theorem parseSlice_eq (env : Env) : parseSlice env = (do
    let tok ← cur
    optStage (fun start => do
      expect .colon
      let _ ← nextTok
      sliceStop env tok start)) := by
  rfl

theorem optStage_inv {α} {k : Option Int → P α} {st st' : TStream} {r : α}
    (h : exec (optStage k) st = (.ok r, st')) :
    (st.cur.kind ≠ .index ∧ exec (k none) st = (.ok r, st')) ∨
    (st.cur.kind = .index ∧ ∃ i, IdxTok st.cur.value i ∧ exec (k (some i)) st.next.2 = (.ok r, st')) := by
  unfold optStage at h
  by_cases hk : st.cur.kind = .index
  · right; refine ⟨hk, ?_⟩
    simp only [exec_bind, exec_cur, maybeIndex, hk, if_true] at h
    by_cases hz : (decide (st.cur.value.length > 1) &&
        (decide (st.cur.value.head? = some '0') || ['-', '0'].isPrefixOf st.cur.value)) = true
    · simp [hz, exec_bind, failAt, exec_throw] at h
    · cases hi : Py.intOfText st.cur.value with
      | none => simp [hz, exec_pure, exec_bind, exec_cur, intOf, hi, exec_throw] at h
      | some i =>
        simp [hz, exec_pure, exec_bind, exec_cur, intOf, hi, exec_nextTok] at h
        refine ⟨i, ⟨hi, ?_, ?_⟩, h⟩
        · intro hc; apply hz; simp [hc.1, hc.2]
        · intro hc; apply hz
          have : 2 ≤ st.cur.value.length := by
            have := hc.length_le; simpa using this
          simp [List.isPrefixOf_iff_prefix.mpr hc]; omega
  · left; refine ⟨hk, ?_⟩
    simpa only [exec_bind, exec_cur, maybeIndex, hk, if_false, exec_pure, Bool.false_eq_true] using h

theorem rangeLoop_inv (env : Env) (tok : Token) (l : List (Option Int)) (st st' : TStream) (r : PUnit)
    (h : exec (forIn l PUnit.unit fun i (_ : PUnit) =>
        match i with
        | some v =>
          if (!inRange env v) = true then do
            failAt ErrKind.index tok
            pure (ForInStep.yield PUnit.unit)
          else pure (ForInStep.yield PUnit.unit)
        | none => (pure (ForInStep.yield PUnit.unit) : P _)) st = (.ok r, st')) : st' = st := by
  induction l generalizing st with
  | nil => simp [exec_pure] at h; exact h.symm
  | cons a l ih =>
    rw [List.forIn_cons] at h
    obtain ⟨s1, st1, h1, h2⟩ := exec_bind_ok h
    cases a with
    | none =>
      simp [exec_pure] at h1
      obtain ⟨rfl, rfl⟩ := h1
      exact ih _ h2
    | some v =>
      by_cases hv : (!inRange env v) = true
      · simp [hv, exec_bind, failAt, exec_throw] at h1
      · simp [hv, exec_pure] at h1
        obtain ⟨rfl, rfl⟩ := h1
        exact ih _ h2

theorem sliceFin_inv {env : Env} {tok : Token} {a b c : Option Int} {st st' : TStream} {r : Selector}
    (h : exec (sliceFin env tok a b c) st = (.ok r, st')) : r = .slice a b c ∧ st' = st.push st.cur := by
  unfold sliceFin at h
  obtain ⟨x, st1, h1, h⟩ := exec_bind_ok h
  obtain ⟨rfl, rfl⟩ := exec_cur_ok h1
  obtain ⟨x, st1, h1, h⟩ := exec_bind_ok h
  rw [exec_pushTok] at h1
  obtain ⟨-, rfl⟩ := Prod.mk.inj h1
  obtain ⟨x, st2, h1, h⟩ := exec_bind_ok h
  have := rangeLoop_inv env tok _ _ _ _ h1
  subst this
  obtain ⟨rfl, rfl⟩ := exec_pure_ok h
  exact ⟨rfl, rfl⟩

theorem sliceStep_inv {env : Env} {tok : Token} {a b : Option Int} {t : Token} {rest : List Token}
    {st' : TStream} {r : Selector} (he : EndsEof (t :: rest))
    (h : exec (sliceStep env tok a b) ⟨t, [], rest⟩ = (.ok r, st')) :
    ∃ cc tc x more, r = .slice a b cc ∧ StepT cc tc ∧ t :: rest = tc ++ x :: more ∧
      st' = ⟨x, [x], more⟩ ∧ EndsEof (x :: more) := by
  unfold sliceStep at h
  obtain ⟨x, st1, h1, h⟩ := exec_bind_ok h
  obtain ⟨rfl, rfl⟩ := exec_cur_ok h1
  by_cases hk : t.kind = .colon
  · simp only [hk, if_true] at h
    obtain ⟨x, st1, h1, h⟩ := exec_bind_ok h
    have hne : t.kind ≠ .eof := by rw [hk]; simp
    obtain ⟨t2, rest2, rfl, he2, hn⟩ := fresh_next he hne
    have := exec_nextTok_ok h1
    rw [hn] at this
    subst this
    rcases optStage_inv h with ⟨hk2, h⟩ | ⟨hk2, i, hi, h⟩
    · obtain ⟨rfl, rfl⟩ := sliceFin_inv h
      exact ⟨none, [t], t2, rest2, rfl, .colon t hk, rfl, rfl, he2⟩
    · have hne2 : t2.kind ≠ .eof := by
        have : t2.kind = .index := hk2
        rw [this]; simp
      obtain ⟨t3, rest3, rfl, he3, hn2⟩ := fresh_next he2 hne2
      rw [hn2] at h
      obtain ⟨rfl, rfl⟩ := sliceFin_inv h
      exact ⟨some i, [t, t2], t3, rest3, rfl, .step t t2 i hk hk2 hi, rfl, rfl, he3⟩
  · simp only [hk, if_false] at h
    obtain ⟨rfl, rfl⟩ := sliceFin_inv h
    exact ⟨none, [], t, rest, rfl, .absent, rfl, rfl, he⟩

theorem sliceStop_inv {env : Env} {tok : Token} {a : Option Int} {t : Token} {rest : List Token}
    {st' : TStream} {r : Selector} (he : EndsEof (t :: rest))
    (h : exec (sliceStop env tok a) ⟨t, [], rest⟩ = (.ok r, st')) :
    ∃ b cc tb tc x more, r = .slice a b cc ∧ OptT b tb ∧ StepT cc tc ∧ t :: rest = tb ++ (tc ++ x :: more) ∧
      st' = ⟨x, [x], more⟩ ∧ EndsEof (x :: more) := by
  unfold sliceStop at h
  rcases optStage_inv h with ⟨hk, h⟩ | ⟨hk, i, hi, h⟩
  · obtain ⟨cc, tc, x, more, rfl, hc, htoks, rfl, hx⟩ := sliceStep_inv he h
    exact ⟨none, cc, [], tc, x, more, rfl, .none, hc, htoks, rfl, hx⟩
  · have hne : t.kind ≠ .eof := by
      have : t.kind = .index := hk
      rw [this]; simp
    obtain ⟨t2, rest2, rfl, he2, hn⟩ := fresh_next he hne
    rw [hn] at h
    obtain ⟨cc, tc, x, more, rfl, hc, htoks, rfl, hx⟩ := sliceStep_inv he2 h
    refine ⟨some i, cc, [t], tc, x, more, rfl, .some t i hk hi, hc, ?_, rfl, hx⟩
    rw [htoks]; rfl

/-- `parseSlice` entered on a colon (no start) -/
theorem parseSlice_inv_colon {env : Env} {c : Token} {rest : List Token} {st' : TStream} {sel : Selector}
    (he : EndsEof (c :: rest)) (hk : c.kind = .colon)
    (h : exec (parseSlice env) ⟨c, [], rest⟩ = (.ok sel, st')) :
    ∃ ts x more, SelT sel ts ∧ c :: rest = ts ++ x :: more ∧ st' = ⟨x, [x], more⟩ ∧ EndsEof (x :: more) := by
  rw [parseSlice_eq] at h
  obtain ⟨x, st1, h1, h⟩ := exec_bind_ok h
  obtain ⟨rfl, rfl⟩ := exec_cur_ok h1
  rcases optStage_inv h with ⟨-, h⟩ | ⟨hk2, -⟩
  · obtain ⟨u, st1, h1, h⟩ := exec_bind_ok h
    have : st1 = ⟨c, [], rest⟩ := by
      simp [expect, exec_bind, exec_cur, hk, exec_pure] at h1
      exact h1.symm
    subst this
    obtain ⟨x, st1, h1, h⟩ := exec_bind_ok h
    have hne : c.kind ≠ .eof := by rw [hk]; simp
    obtain ⟨t2, rest2, rfl, he2, hn⟩ := fresh_next he hne
    have := exec_nextTok_ok h1
    rw [hn] at this
    subst this
    obtain ⟨b, cc, tb, tc, x, more, rfl, hb, hc, htoks, rfl, hx⟩ := sliceStop_inv he2 h
    refine ⟨_, x, more, .slice none b cc [] tb tc c hk .none hb hc, ?_, rfl, hx⟩
    rw [htoks]; simp
  · have : c.kind = .index := hk2
    rw [hk] at this; cases this

/-- `parseSlice` entered after the lookahead that found a colon behind an index -/
theorem parseSlice_inv_index {env : Env} {c p : Token} {rest : List Token} {st' : TStream} {sel : Selector}
    (he : EndsEof (p :: rest)) (hk : c.kind = .index) (hp : p.kind = .colon)
    (h : exec (parseSlice env) ⟨c, [p], rest⟩ = (.ok sel, st')) :
    ∃ ts x more, SelT sel ts ∧ c :: p :: rest = ts ++ x :: more ∧ st' = ⟨x, [x], more⟩ ∧
      EndsEof (x :: more) := by
  rw [parseSlice_eq] at h
  obtain ⟨x, st1, h1, h⟩ := exec_bind_ok h
  obtain ⟨rfl, rfl⟩ := exec_cur_ok h1
  rcases optStage_inv h with ⟨hk2, -⟩ | ⟨-, i, hi, h⟩
  · exact absurd hk hk2
  · rw [next_pushed] at h
    obtain ⟨u, st1, h1, h⟩ := exec_bind_ok h
    have : st1 = ⟨p, [], rest⟩ := by
      simp [expect, exec_bind, exec_cur, hp, exec_pure] at h1
      exact h1.symm
    subst this
    obtain ⟨x, st1, h1, h⟩ := exec_bind_ok h
    have hne : p.kind ≠ .eof := by rw [hp]; simp
    obtain ⟨t2, rest2, rfl, he2, hn⟩ := fresh_next he hne
    have := exec_nextTok_ok h1
    rw [hn] at this
    subst this
    obtain ⟨b, cc, tb, tc, x, more, rfl, hb, hc, htoks, rfl, hx⟩ := sliceStop_inv he2 h
    refine ⟨_, x, more, .slice (some i) b cc [c] tb tc p hp (.some c i hk hi) hb hc, ?_, rfl, hx⟩
    rw [htoks]; simp

/-! ### one selector -/

theorem parseFilterSelector_ok {env : Env} {f : Nat} {st st' : TStream} {sel : Selector}
    (h : exec (parseFilterSelector env f) st = (.ok sel, st')) : ∃ e, sel = .filter e := by
  cases f with
  | zero => rw [parseFilterSelector] at h; simp [outOfFuel, exec_throw] at h
  | succ f =>
    rw [parseFilterSelector] at h
    obtain ⟨tok, st1, -, h⟩ := exec_bind_ok h
    obtain ⟨x, st2, -, h⟩ := exec_bind_ok h
    have fin : ∀ {st : TStream}, exec (if isLiteral x.e = true then
          (failAt ErrKind.syntax x.tok : P Unit) >>= fun _ => pure (Selector.filter x.e)
        else pure (Selector.filter x.e)) st = (.ok sel, st') → ∃ e, sel = .filter e := by
      intro st h
      obtain ⟨-, h⟩ := exec_guard_ok h
      obtain ⟨rfl, -⟩ := exec_pure_ok h
      exact ⟨_, rfl⟩
    dsimp only at h
    split at h
    · split at h
      · exact fin (exec_guard_ok h).2
      · exact fin h
    · exact fin h

theorem selPart_inv {env : Env} {f : Nat} {c : Token} {rest : List Token} {st' : TStream} {sel : Selector}
    (he : EndsEof (c :: rest))
    (h : exec (selPart env f c) ⟨c, [], rest⟩ = (.ok sel, st')) :
    (∃ e, sel = .filter e) ∨
    ∃ ts x more, SelT sel ts ∧ c :: rest = ts ++ x :: more ∧ Ready x more st' ∧ EndsEof (x :: more) := by
  unfold selPart at h
  by_cases hk : c.kind = .index
  · right
    simp only [hk, if_true] at h
    have hne : c.kind ≠ .eof := by rw [hk]; simp
    obtain ⟨t, rest', rfl, he', hn⟩ := fresh_next he hne
    obtain ⟨p, st1, h1, h⟩ := exec_bind_ok h
    rw [exec_peekTok, peek_fresh c t rest' hne] at h1
    obtain ⟨h1a, rfl⟩ := Prod.mk.inj h1
    obtain rfl := Except.ok.inj h1a
    by_cases hp : t.kind = .colon
    · simp only [hp, if_true] at h
      obtain ⟨ts, x, more, hs, htoks, rfl, hx⟩ := parseSlice_inv_index he' hk hp h
      exact ⟨ts, x, more, hs, htoks, .inr ⟨_, rfl⟩, hx⟩
    · simp only [hp, if_false] at h
      obtain ⟨hz, h⟩ := exec_guard_ok h
      · obtain ⟨i, st1, h1, h⟩ := exec_bind_ok h
        cases hi : Py.intOfText c.value with
        | none => simp [intOf, hi, exec_throw] at h1
        | some j =>
          simp only [intOf, hi] at h1
          obtain ⟨rfl, rfl⟩ := exec_pure_ok h1
          · obtain ⟨hr, h⟩ := exec_guard_ok h
            obtain ⟨rfl, rfl⟩ := exec_pure_ok h
            refine ⟨[c], t, rest', .index c j hk ⟨hi, ?_, ?_⟩, rfl, .inr ⟨_, rfl⟩, he'⟩
            · intro hc; apply hz; simp [hc.1, hc.2]
            · intro hc; apply hz; simp [List.isPrefixOf_iff_prefix.mpr hc]
  · simp only [hk, if_false] at h
    by_cases hs : c.kind = .dqString ∨ c.kind = .sqString
    · right
      have hne : c.kind ≠ .eof := by rcases hs with e | e <;> rw [e] <;> simp
      obtain ⟨t, rest', rfl, he', hn⟩ := fresh_next he hne
      have hs' : (decide (c.kind = .dqString) || decide (c.kind = .sqString)) = true := by
        rcases hs with e | e <;> simp [e]
      simp only [hs', if_true] at h
      obtain ⟨s, st1, h1, h⟩ := exec_bind_ok h
      obtain ⟨rfl, rfl⟩ := exec_pure_ok h
      cases hd : decodeStringLiteral c.kind c.value with
      | error e => cases e <;> simp [decodeAt, hd, failAt, exec_throw] at h1
      | ok s' =>
        simp only [decodeAt, hd] at h1
        obtain ⟨rfl, rfl⟩ := exec_pure_ok h1
        exact ⟨[c], t, rest', .name c _ hs.symm hd, rfl, .inl ⟨c, hne, rfl⟩, he'⟩
    · have hs' : (decide (c.kind = .dqString) || decide (c.kind = .sqString)) = false := by
        simp only [not_or] at hs
        simp [hs.1, hs.2]
      simp only [hs', if_false, Bool.false_eq_true] at h
      by_cases hc : c.kind = .colon
      · right
        simp only [hc, if_true] at h
        obtain ⟨ts, x, more, hs, htoks, rfl, hx⟩ := parseSlice_inv_colon he hc h
        exact ⟨ts, x, more, hs, htoks, .inr ⟨_, rfl⟩, hx⟩
      · simp only [hc, if_false] at h
        by_cases hw : c.kind = .wild
        · right
          simp only [hw, if_true] at h
          have hne : c.kind ≠ .eof := by rw [hw]; simp
          obtain ⟨t, rest', rfl, he', hn⟩ := fresh_next he hne
          obtain ⟨rfl, rfl⟩ := exec_pure_ok h
          exact ⟨[c], t, rest', .wild c hw, rfl, .inl ⟨c, hne, rfl⟩, he'⟩
        · simp only [hw, if_false] at h
          by_cases hf : c.kind = .filter
          · left
            simp only [hf, if_true] at h
            exact parseFilterSelector_ok h
          · simp [hf, failAt, exec_throw] at h

/-! ### the bracketed selection loop -/

theorem tailPart_inv {env : Env} {o : Token} {f : Nat} {acc : List Selector} {sel : Selector}
    {x : Token} {more : List Token} {st st' : TStream} {r : List Selector}
    (hr : Ready x more st) (he : EndsEof (x :: more))
    (h : exec (tailPart env o f acc sel) st = (.ok r, st')) :
    (x.kind = .rbracket ∧ exec (parseBracketed env o f (acc ++ [sel])) ⟨x, [], more⟩ = (.ok r, st')) ∨
    (x.kind = .comma ∧ ∃ y more', more = y :: more' ∧ y.kind ≠ .rbracket ∧
      exec (parseBracketed env o f (acc ++ [sel])) ⟨y, [], more'⟩ = (.ok r, st')) := by
  by_cases hx : x.kind = .rbracket
  · left
    rw [tailPart_close env o f acc sel hr hx] at h
    exact ⟨hx, h⟩
  · by_cases hc : x.kind = .comma
    · right
      have hne : x.kind ≠ .eof := by rw [hc]; simp
      obtain ⟨y, more', rfl, he'⟩ := he.next hne
      refine ⟨hc, y, more', rfl, ?_⟩
      by_cases hy : y.kind = .rbracket
      · exfalso
        rcases hr with ⟨c, hcc, rfl⟩ | ⟨c, rfl⟩
        · simp [tailPart, exec_bind, exec_peekTok, exec_nextTok, exec_pure, peek_fresh, peek_pushed,
            next_pushed, expectPeek, expectPeekNot, hcc, hc, hy, hne, failAt, exec_throw] at h
        · simp [tailPart, exec_bind, exec_peekTok, exec_nextTok, exec_pure, peek_fresh, peek_pushed,
            next_pushed, expectPeek, expectPeekNot, hc, hy, hne, failAt, exec_throw] at h
      · rw [tailPart_comma env o f acc sel hr hc hy] at h
        exact ⟨hy, h⟩
    · exfalso
      by_cases hxe : x.kind = .eof
      · rcases hr with ⟨c, hcc, rfl⟩ | ⟨c, rfl⟩
        · simp [tailPart, exec_bind, exec_peekTok, exec_cur, exec_pure, peek_fresh, peek_pushed,
            hcc, hxe, failAt, exec_throw] at h
        · simp [tailPart, exec_bind, exec_peekTok, exec_cur, exec_pure, peek_fresh, peek_pushed,
            hxe, failAt, exec_throw] at h
      · rcases hr with ⟨c, hcc, rfl⟩ | ⟨c, rfl⟩
        · simp [tailPart, exec_bind, exec_peekTok, exec_nextTok, exec_pure, peek_fresh, peek_pushed,
            next_pushed, expectPeek, hcc, hc, hx, hxe, failAt, exec_throw] at h
        · simp [tailPart, exec_bind, exec_peekTok, exec_nextTok, exec_pure, peek_fresh, peek_pushed,
            next_pushed, expectPeek, hc, hx, hxe, failAt, exec_throw] at h

theorem ffSels_filter (e : Expr) (ss : List Selector) : Spec.filterFreeSels (.filter e :: ss) = false := by
  simp [Spec.filterFreeSels]

theorem SelT.ff {s : Selector} {ts : List Token} (h : SelT s ts) (ss : List Selector) :
    Spec.filterFreeSels (s :: ss) = Spec.filterFreeSels ss := by
  cases h <;> simp [Spec.filterFreeSels]

theorem tailPart_ok {env : Env} {o : Token} {f : Nat} {acc : List Selector} {sel : Selector}
    {st st' : TStream} {r : List Selector}
    (h : exec (tailPart env o f acc sel) st = (.ok r, st')) :
    ∃ st2, exec (parseBracketed env o f (acc ++ [sel])) st2 = (.ok r, st') := by
  unfold tailPart at h
  obtain ⟨p1, st1, -, h⟩ := exec_bind_ok h
  dsimp only at h
  split at h
  · obtain ⟨_, _, _, h⟩ := exec_bind_ok h
    obtain ⟨_, _, h1, _⟩ := exec_bind_ok h
    exact absurd h1 failAt_ne_ok
  · obtain ⟨p2, st2, -, h⟩ := exec_bind_ok h
    split at h
    · obtain ⟨_, _, -, h⟩ := exec_bind_ok h
      obtain ⟨_, _, -, h⟩ := exec_bind_ok h
      obtain ⟨_, _, -, h⟩ := exec_bind_ok h
      obtain ⟨_, st3, -, h⟩ := exec_bind_ok h
      exact ⟨_, h⟩
    · obtain ⟨_, st3, -, h⟩ := exec_bind_ok h
      exact ⟨_, h⟩

theorem parseBracketed_inv (env : Env) (o : Token) : ∀ (f : Nat) (acc : List Selector) (st st' : TStream)
    (r : List Selector), exec (parseBracketed env o f acc) st = (.ok r, st') →
    ∃ sels, r = acc ++ sels ∧ ∀ c rest, st = ⟨c, [], rest⟩ → EndsEof (c :: rest) →
      Spec.filterFreeSels sels = true →
      ∃ ts rb more, c :: rest = ts ++ rb :: more ∧ rb.kind = .rbracket ∧ st' = ⟨rb, [], more⟩ ∧
        EndsEof (rb :: more) ∧ (c.kind = .rbracket → sels = [] ∧ ts = [] ∧ acc ≠ []) ∧
        (c.kind ≠ .rbracket → SelsT sels ts) := by
  intro f
  induction f with
  | zero =>
    intro acc st st' r h
    rw [parseBracketed] at h; simp [outOfFuel, exec_throw] at h
  | succ f ih =>
    intro acc st st' r h
    rw [parseBracketed_eq] at h
    obtain ⟨c0, st0, h1, h⟩ := exec_bind_ok h
    obtain ⟨rfl, rfl⟩ := exec_cur_ok h1
    by_cases hk : st.cur.kind = .rbracket
    · simp only [hk, if_true] at h
      obtain ⟨hacc, h⟩ := exec_guard_ok h
      obtain ⟨rfl, rfl⟩ := exec_pure_ok h
      refine ⟨[], by simp, ?_⟩
      rintro c rest rfl he -
      refine ⟨[], c, rest, rfl, hk, rfl, he, fun _ => ⟨rfl, rfl, ?_⟩, fun hn => absurd hk hn⟩
      rintro rfl; exact hacc rfl
    · simp only [hk, if_false] at h
      obtain ⟨sel, st1, hS, hT⟩ := exec_bind_ok h
      clear h
      obtain ⟨st2, h2⟩ := tailPart_ok hT
      obtain ⟨sels', rfl, -⟩ := ih _ _ _ _ h2
      refine ⟨sel :: sels', by simp, ?_⟩
      rintro c rest rfl he hff
      rcases selPart_inv he hS with ⟨e, rfl⟩ | ⟨ts1, x, more, hsel, htoks, hready, hx⟩
      · rw [ffSels_filter] at hff; cases hff
      · rw [hsel.ff] at hff
        rcases tailPart_inv hready hx hT with ⟨hxk, h3⟩ | ⟨hxk, y, more', rfl, hy, h3⟩
        · obtain ⟨sels'', heq, hrest⟩ := ih _ _ _ _ h3
          have : sels'' = sels' := (List.append_cancel_left heq).symm
          subst this
          obtain ⟨ts2, rb, more2, htoks2, hrb, rfl, herb, hA, -⟩ := hrest x more rfl hx hff
          obtain ⟨rfl, rfl, -⟩ := hA hxk
          simp only [List.nil_append, List.cons.injEq] at htoks2
          obtain ⟨rfl, rfl⟩ := htoks2
          exact ⟨ts1, x, more, htoks, hrb, rfl, herb, fun hc => absurd hc hk,
            fun _ => .one sel ts1 hsel⟩
        · obtain ⟨sels'', heq, hrest⟩ := ih _ _ _ _ h3
          have : sels'' = sels' := (List.append_cancel_left heq).symm
          subst this
          obtain ⟨ts2, rb, more2, htoks2, hrb, rfl, herb, -, hB⟩ := hrest y more' rfl hx.tail hff
          refine ⟨ts1 ++ x :: ts2, rb, more2, ?_, hrb, rfl, herb, fun hc => absurd hc hk,
            fun _ => .cons sel _ x ts1 ts2 hsel hxk (hB hy)⟩
          rw [htoks, htoks2]; simp

/-! ### `parseSelectors` -/

theorem parseSelectors_inv {env : Env} {f : Nat} {c : Token} {rest : List Token} {sels : List Selector}
    {st' : TStream} (he : EndsEof (c :: rest))
    (h : exec (parseSelectors env f) ⟨c, [], rest⟩ = (.ok sels, st')) :
    (c.kind = .property ∧ sels = [.name c.value] ∧ st' = ⟨c, [], rest⟩) ∨
    (c.kind = .wild ∧ sels = [.wild] ∧ st' = ⟨c, [], rest⟩) ∨
    (c.kind = .lbracket ∧ (Spec.filterFreeSels sels = true → ∃ ts rb more, rest = ts ++ rb :: more ∧
      rb.kind = .rbracket ∧ st' = ⟨rb, [], more⟩ ∧ EndsEof (rb :: more) ∧ SelsT sels ts)) ∨
    (c.kind ≠ .property ∧ c.kind ≠ .wild ∧ c.kind ≠ .lbracket ∧ sels = [] ∧ st' = ⟨c, [], rest⟩) := by
  cases f with
  | zero => rw [parseSelectors] at h; simp [outOfFuel, exec_throw] at h
  | succ f =>
    rw [parseSelectors] at h
    obtain ⟨c0, st0, h1, h⟩ := exec_bind_ok h
    obtain ⟨rfl, rfl⟩ := exec_cur_ok h1
    dsimp only at h
    by_cases hp : c.kind = .property
    · simp only [hp, if_true] at h
      obtain ⟨rfl, rfl⟩ := exec_pure_ok h
      exact .inl ⟨hp, rfl, rfl⟩
    · simp only [hp, if_false] at h
      by_cases hw : c.kind = .wild
      · simp only [hw, if_true] at h
        obtain ⟨rfl, rfl⟩ := exec_pure_ok h
        exact .inr (.inl ⟨hw, rfl, rfl⟩)
      · simp only [hw, if_false] at h
        by_cases hl : c.kind = .lbracket
        · simp only [hl, if_true] at h
          refine .inr (.inr (.inl ⟨hl, ?_⟩))
          obtain ⟨tok, st1, h2, h⟩ := exec_bind_ok h
          have hne : c.kind ≠ .eof := by rw [hl]; simp
          obtain ⟨t, rest', rfl, he', hn⟩ := fresh_next he hne
          have := exec_nextTok_ok h2
          rw [hn] at this
          subst this
          obtain ⟨sels', hs, hrest⟩ := parseBracketed_inv env tok f [] _ _ _ h
          simp only [List.nil_append] at hs
          subst hs
          intro hff
          obtain ⟨ts, rb, more, htoks, hrb, rfl, herb, hA, hB⟩ := hrest t rest' rfl he' hff
          refine ⟨ts, rb, more, htoks, hrb, rfl, herb, hB ?_⟩
          intro ht
          exact (hA ht).2.2 rfl
        · simp only [hl, if_false] at h
          obtain ⟨rfl, rfl⟩ := exec_pure_ok h
          exact .inr (.inr (.inr ⟨hp, hw, hl, rfl, rfl⟩))

/-! ### the segment loop -/

theorem next_step {c : Token} {rest : List Token} {st : TStream} (he : EndsEof (c :: rest))
    (hc : c.kind ≠ .eof) (h : (TStream.next ⟨c, [], rest⟩).2 = st) :
    ∃ t rest', rest = t :: rest' ∧ EndsEof (t :: rest') ∧ st = ⟨t, [], rest'⟩ := by
  obtain ⟨t, rest', rfl, he', hn⟩ := fresh_next he hc
  rw [hn] at h
  exact ⟨t, rest', rfl, he', h.symm⟩

theorem SegT.head {s : Segment} {ts : List Token} (h : SegT s ts) :
    ∃ t ts', ts = t :: ts' ∧ t.kind ≠ .eof := by
  cases h with
  | dotName t hk => exact ⟨_, _, rfl, by rw [hk]; simp⟩
  | dotWild t hk => exact ⟨_, _, rfl, by rw [hk]; simp⟩
  | brack lb rb sels ts hk => exact ⟨_, _, rfl, by rw [hk]; simp⟩
  | descName d t hk => exact ⟨_, _, rfl, by rw [hk]; simp⟩
  | descWild d t hk => exact ⟨_, _, rfl, by rw [hk]; simp⟩
  | descBrack d lb rb sels ts hk => exact ⟨_, _, rfl, by rw [hk]; simp⟩
  | descBad d t hk => exact ⟨_, _, rfl, by rw [hk]; simp⟩

theorem QT.eof_inv {q : Query} {t : Token} {l left : List Token} (h : QT q (t :: l) left)
    (ht : t.kind = .eof) : q = [] ∧ left = t :: l := by
  generalize hl : t :: l = toks at h
  cases h with
  | nil => exact ⟨rfl, rfl⟩
  | cons s ss t1 rest left hs _ =>
    obtain ⟨t', ts', rfl, hk⟩ := hs.head
    simp only [List.cons_append, List.cons.injEq] at hl
    rw [← hl.1] at hk; exact absurd ht hk
  | descEof d e more hd _ =>
    simp only [List.cons.injEq] at hl
    rw [← hl.1, ht] at hd; cases hd

theorem ff_cons_desc {sels : List Selector} {segs : Query}
    (h : Spec.filterFree (.desc sels :: segs) = true) :
    Spec.filterFreeSels sels = true ∧ Spec.filterFree segs = true := by
  simpa [Spec.filterFree, Spec.filterFreeSeg] using h

theorem ff_cons_child {sels : List Selector} {segs : Query}
    (h : Spec.filterFree (.child sels :: segs) = true) :
    Spec.filterFreeSels sels = true ∧ Spec.filterFree segs = true := by
  simpa [Spec.filterFree, Spec.filterFreeSeg] using h

theorem parseQuery_inv (env : Env) : ∀ (f : Nat) (acc : List Segment) (st st' : TStream) (r : List Segment),
    exec (parseQuery env false f acc) st = (.ok r, st') →
    ∃ segs, r = acc ++ segs ∧ ∀ c rest, st = ⟨c, [], rest⟩ → EndsEof (c :: rest) →
      Spec.filterFree segs = true →
      ∃ x more, st' = ⟨x, [], more⟩ ∧ QT segs (c :: rest) (x :: more) := by
  intro f
  induction f with
  | zero =>
    intro acc st st' r h
    rw [parseQuery] at h; simp [outOfFuel, exec_throw] at h
  | succ f ih =>
    intro acc st st' r h
    rw [parseQuery] at h
    obtain ⟨c0, st0, h1, h⟩ := exec_bind_ok h
    obtain ⟨rfl, rfl⟩ := exec_cur_ok h1
    by_cases hd : st.cur.kind = .doubleDot
    · simp only [hd, if_true] at h
      obtain ⟨_, st1, hN1, h⟩ := exec_bind_ok h
      obtain ⟨sels, st2, hS, h⟩ := exec_bind_ok h
      obtain ⟨_, st3, hN3, hQ⟩ := exec_bind_ok h
      clear h
      have hN1 := exec_nextTok_ok hN1
      have hN3 := exec_nextTok_ok hN3
      obtain ⟨segs', rfl, hrest⟩ := ih _ _ _ _ hQ
      refine ⟨.desc sels :: segs', by simp, ?_⟩
      rintro c rest rfl he hff
      obtain ⟨hff1, hff2⟩ := ff_cons_desc hff
      have hne : c.kind ≠ .eof := by
        have : c.kind = .doubleDot := hd
        rw [this]; simp
      obtain ⟨t, rest', rfl, he', rfl⟩ := next_step he hne hN1
      rcases parseSelectors_inv he' hS with ⟨hp, rfl, rfl⟩ | ⟨hw, rfl, rfl⟩ | ⟨hl, hb⟩ |
        ⟨hp, hw, hl, rfl, rfl⟩
      · have hte : t.kind ≠ .eof := by rw [hp]; simp
        obtain ⟨u, rest'', rfl, he'', rfl⟩ := next_step he' hte hN3
        obtain ⟨x, more, rfl, hq⟩ := hrest u rest'' rfl he'' hff2
        exact ⟨x, more, rfl, .cons _ _ [c, t] _ _ (.descName c t hd hp) hq⟩
      · have hte : t.kind ≠ .eof := by rw [hw]; simp
        obtain ⟨u, rest'', rfl, he'', rfl⟩ := next_step he' hte hN3
        obtain ⟨x, more, rfl, hq⟩ := hrest u rest'' rfl he'' hff2
        exact ⟨x, more, rfl, .cons _ _ [c, t] _ _ (.descWild c t hd hw) hq⟩
      · obtain ⟨ts, rb, more0, rfl, hrb, rfl, herb, hsels⟩ := hb hff1
        have hrbe : rb.kind ≠ .eof := by rw [hrb]; simp
        obtain ⟨u, more', rfl, he'', rfl⟩ := next_step herb hrbe hN3
        obtain ⟨x, more, rfl, hq⟩ := hrest u more' rfl he'' hff2
        refine ⟨x, more, rfl, ?_⟩
        have : c :: t :: (ts ++ rb :: u :: more') = (c :: t :: (ts ++ [rb])) ++ (u :: more') := by simp
        rw [this]
        exact .cons _ _ _ _ _ (.descBrack c t rb sels ts hd hl hrb hsels) hq
      · by_cases hte : t.kind = .eof
        · have : (TStream.next ⟨t, [], rest'⟩).2 = ⟨t, [], rest'⟩ := by simp [TStream.next, hte]
          rw [this] at hN3
          obtain ⟨x, more, rfl, hq⟩ := hrest t rest' hN3.symm he' hff2
          obtain ⟨rfl, hxm⟩ := hq.eof_inv hte
          refine ⟨x, more, rfl, ?_⟩
          rw [hxm]
          exact .descEof c t rest' hd hte
        · obtain ⟨u, rest'', rfl, he'', rfl⟩ := next_step he' hte hN3
          obtain ⟨x, more, rfl, hq⟩ := hrest u rest'' rfl he'' hff2
          exact ⟨x, more, rfl, .cons _ _ [c, t] _ _ (.descBad c t hd hp hw hl) hq⟩
    · simp only [hd, if_false] at h
      by_cases hb : (decide (st.cur.kind = .lbracket) || decide (st.cur.kind = .property) ||
          decide (st.cur.kind = .wild)) = true
      · simp only [hb, if_true] at h
        obtain ⟨sels, st2, hS, h⟩ := exec_bind_ok h
        obtain ⟨_, st3, hN3, hQ⟩ := exec_bind_ok h
        clear h
        have hN3 := exec_nextTok_ok hN3
        obtain ⟨segs', rfl, hrest⟩ := ih _ _ _ _ hQ
        refine ⟨.child sels :: segs', by simp, ?_⟩
        rintro c rest rfl he hff
        obtain ⟨hff1, hff2⟩ := ff_cons_child hff
        rcases parseSelectors_inv he hS with ⟨hp, rfl, rfl⟩ | ⟨hw, rfl, rfl⟩ | ⟨hl, hbr⟩ |
          ⟨hp, hw, hl, rfl, rfl⟩
        · have hte : c.kind ≠ .eof := by rw [hp]; simp
          obtain ⟨u, rest'', rfl, he'', rfl⟩ := next_step he hte hN3
          obtain ⟨x, more, rfl, hq⟩ := hrest u rest'' rfl he'' hff2
          exact ⟨x, more, rfl, .cons _ _ [c] _ _ (.dotName c hp) hq⟩
        · have hte : c.kind ≠ .eof := by rw [hw]; simp
          obtain ⟨u, rest'', rfl, he'', rfl⟩ := next_step he hte hN3
          obtain ⟨x, more, rfl, hq⟩ := hrest u rest'' rfl he'' hff2
          exact ⟨x, more, rfl, .cons _ _ [c] _ _ (.dotWild c hw) hq⟩
        · obtain ⟨ts, rb, more0, rfl, hrb, rfl, herb, hsels⟩ := hbr hff1
          have hrbe : rb.kind ≠ .eof := by rw [hrb]; simp
          obtain ⟨u, more', rfl, he'', rfl⟩ := next_step herb hrbe hN3
          obtain ⟨x, more, rfl, hq⟩ := hrest u more' rfl he'' hff2
          refine ⟨x, more, rfl, ?_⟩
          have : c :: (ts ++ rb :: u :: more') = (c :: (ts ++ [rb])) ++ (u :: more') := by simp
          rw [this]
          exact .cons _ _ _ _ _ (.brack c rb sels ts hl hrb hsels) hq
        · exfalso
          have hp' : c.kind ≠ .property := hp
          simp [hp, hw, hl] at hb
      · simp only [hb, if_false, Bool.false_eq_true] at h
        obtain ⟨rfl, rfl⟩ := exec_pure_ok h
        refine ⟨[], by simp, ?_⟩
        rintro c rest rfl he -
        exact ⟨c, rest, rfl, .nil _⟩

/-! ### the top level -/

/-- PARSER INVERSION: a successful parse of an EOF-terminated token list with a filter-free result
consumed a ROOT token, the tokens of the result's segments, and stopped at an EOF token. -/
theorem parseTop_inv (env : Env) (F : Nat) (toks : List Token) (q : Query)
    (h : (exec (parseTop env F) (TStream.init toks)).1 = .ok q) (hff : Spec.filterFree q = true)
    (he : EndsEof toks) :
    ∃ r ts e more, toks = r :: ts ∧ r.kind = .root ∧ e.kind = .eof ∧ QT q ts (e :: more) := by
  cases toks with
  | nil =>
    obtain ⟨t, ht, -⟩ := he
    simp at ht
  | cons r ts =>
    have hinit : TStream.init (r :: ts) = ⟨r, [], ts⟩ := by
      simp [TStream.init, TStream.next, initTok]
    rw [hinit] at h
    rcases hx : exec (parseTop env F) ⟨r, [], ts⟩ with ⟨res, st'⟩
    rw [hx] at h
    simp only at h
    subst h
    unfold parseTop at hx
    obtain ⟨_, st1, hE, hx⟩ := exec_bind_ok hx
    have hrk : r.kind = .root := by
      by_cases hrk : r.kind = .root
      · exact hrk
      · simp [expect, exec_bind, exec_cur, hrk, failAt, exec_throw] at hE
    have : st1 = ⟨r, [], ts⟩ := by
      simp [expect, exec_bind, exec_cur, hrk, exec_pure] at hE
      exact hE.symm
    subst this
    obtain ⟨_, st2, hN, hx⟩ := exec_bind_ok hx
    have hN := exec_nextTok_ok hN
    have hre : r.kind ≠ .eof := by rw [hrk]; simp
    obtain ⟨t, ts', rfl, he', rfl⟩ := next_step he hre hN
    obtain ⟨segs, st3, hQ, hx⟩ := exec_bind_ok hx
    obtain ⟨segs', hs, hrest⟩ := parseQuery_inv env F [] _ _ _ hQ
    simp only [List.nil_append] at hs
    subst hs
    obtain ⟨c, st4, hC, hx⟩ := exec_bind_ok hx
    obtain ⟨rfl, rfl⟩ := exec_cur_ok hC
    obtain ⟨hce, hx⟩ := exec_guard_ok hx
    obtain ⟨rfl, rfl⟩ := exec_pure_ok hx
    obtain ⟨x, more, rfl, hq⟩ := hrest t ts' rfl he' hff
    refine ⟨r, t :: ts', x, more, rfl, hrk, ?_, hq⟩
    simpa using hce

end JPV.Proofs.Ss
