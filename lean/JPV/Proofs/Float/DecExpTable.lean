/-
`Proofs.Float.DecExpTable` — the finite table behind `Py.decimalExponent`: for every difference of bit lengths
`t ∈ [-1100, 1100]`, with `s = t·30103/100000 - 2`, `10^(s-1) ≤ 2^(t-1)` and `2^(t+1) ≤ 10^(s+7)`.
-/
import JPV.Proofs.Float.Q
namespace JPV.Proofs.Float
open JPV

/-- `a^x ≤ b^y` for integer exponents, cross-multiplied into naturals -/
def zpowLe (a : Nat) (x : Int) (b : Nat) (y : Int) : Bool :=
  a ^ x.toNat * b ^ (-y).toNat ≤ b ^ y.toNat * a ^ (-x).toNat

def tableOK (t : Int) : Bool :=
  zpowLe 10 (t * 30103 / 100000 - 2 - 1) 2 (t - 1) && zpowLe 2 (t + 1) 10 (t * 30103 / 100000 - 2 + 7)

theorem decExp_table : (List.range 2201).all (fun i => tableOK ((i : Int) - 1100)) = true := by
  decide +kernel

theorem zpowLe_sound (a b : Nat) (ha : 0 < a) (hb : 0 < b) (x y : Int) (h : zpowLe a x b y = true) :
    (a : ℚ) ^ x ≤ (b : ℚ) ^ y := by
  have haq : (0 : ℚ) < a := by exact_mod_cast ha
  have hbq : (0 : ℚ) < b := by exact_mod_cast hb
  rw [zpow_split _ haq x, zpow_split _ hbq y, div_le_div_iff₀ (by positivity) (by positivity)]
  unfold zpowLe at h
  have h' := of_decide_eq_true h
  exact_mod_cast h'

theorem tableOK_of_range (t : Int) (hlo : -1100 ≤ t) (hhi : t ≤ 1100) : tableOK t = true := by
  have h := List.all_eq_true.mp decExp_table (t + 1100).toNat (List.mem_range.mpr (by omega))
  have e : (((t + 1100).toNat : Nat) : Int) - 1100 = t := by omega
  rw [e] at h
  exact h

theorem table_lo (t : Int) (hlo : -1100 ≤ t) (hhi : t ≤ 1100) :
    (10 : ℚ) ^ (t * 30103 / 100000 - 2 - 1) ≤ (2 : ℚ) ^ (t - 1) := by
  have h := tableOK_of_range t hlo hhi
  unfold tableOK at h
  rw [Bool.and_eq_true] at h
  exact_mod_cast zpowLe_sound 10 2 (by decide) (by decide) _ _ h.1

theorem table_hi (t : Int) (hlo : -1100 ≤ t) (hhi : t ≤ 1100) :
    (2 : ℚ) ^ (t + 1) ≤ (10 : ℚ) ^ (t * 30103 / 100000 - 2 + 7) := by
  have h := tableOK_of_range t hlo hhi
  unfold tableOK at h
  rw [Bool.and_eq_true] at h
  exact_mod_cast zpowLe_sound 2 10 (by decide) (by decide) _ _ h.2

end JPV.Proofs.Float
