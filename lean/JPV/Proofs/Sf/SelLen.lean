/-
`Proofs.Sf.SelLen` — the non-filter selectors of the grammar consume at least one character.
-/
import JPV.Spec.Grammar
import JPV.Proofs.StringsAux
namespace JPV.Proofs.Sf
open JPV

namespace SelLen

theorem skipS_len (l : List Char) : (Spec.skipS l).length ≤ l.length := by
  induction l with
  | nil => simp [Spec.skipS]
  | cons c cs ih =>
    simp only [Spec.skipS]
    split
    · simp only [List.length_cons]; omega
    · exact Nat.le_refl _

theorem lit_colon {inp r : List Char} (h : Spec.lit ":" inp = some r) :
    r.length + 1 = inp.length := by
  unfold Spec.lit at h
  split at h
  · rename_i hp
    rw [List.isPrefixOf_iff_prefix] at hp
    obtain ⟨t, rfl⟩ := hp
    simp only [Option.some.injEq] at h
    rw [← h, ← String.length_toList, List.drop_left]
    simp
  · cases h

theorem drop_takeWhile_lt (c : Char) (r : List Char) (h : Spec.isDIGIT c = true) :
    ((c :: r).drop ((c :: r).takeWhile Spec.isDIGIT).length).length < (c :: r).length := by
  rw [List.takeWhile_cons_of_pos h]
  simp only [List.length_cons, List.drop_succ_cons, List.length_drop]
  omega

theorem digit1_digit {c : Char} (h : Spec.isDIGIT1 c = true) : Spec.isDIGIT c = true := by
  simp only [Spec.isDIGIT1, Spec.isDIGIT, Bool.and_eq_true, decide_eq_true_eq] at h ⊢
  refine ⟨?_, h.2⟩
  exact Nat.le_trans (by decide) h.1

theorem intLit_lt {inp r : List Char} {i : Int} (h : Spec.intLit inp = some (i, r)) :
    r.length < inp.length := by
  unfold Spec.intLit at h
  split at h
  · simp only [Option.some.injEq, Prod.mk.injEq] at h
    rw [← h.2]; simp
  · split at h
    · rename_i c r' hd
      simp only [Option.some.injEq, Prod.mk.injEq] at h
      rw [← h.2]
      have := drop_takeWhile_lt c r' (digit1_digit hd)
      simp only [List.length_cons] at this ⊢
      omega
    · cases h
  · split at h
    · rename_i hd
      simp only [Option.some.injEq, Prod.mk.injEq] at h
      rw [← h.2]
      exact drop_takeWhile_lt _ _ (digit1_digit hd)
    · cases h
  · cases h

theorem stringBody_lt (q : Char) : ∀ (fuel : Nat) (inp acc : List Char) {s : Str} {r : List Char},
    Spec.stringBody q fuel inp acc = some (s, r) → r.length < inp.length := by
  intro fuel
  induction fuel with
  | zero => intro inp acc s r h; simp [Spec.stringBody] at h
  | succ fuel ih =>
    intro inp acc s r h
    rw [Spec.stringBody.eq_def] at h
    simp only at h
    split at h
    · cases h
    · rename_i c r0
      split at h
      · simp only [Option.some.injEq, Prod.mk.injEq] at h
        rw [← h.2]; simp
      · split at h
        · split at h
          · rename_i e r2
            have step : ∀ a, Spec.stringBody q fuel r2 a = some (s, r) →
                r.length < (c :: e :: r2).length := by
              intro a ha
              have := ih r2 a ha
              simp only [List.length_cons]; omega
            repeat' split at h
            all_goals first
              | exact step _ h
              | cases h
              | skip
            · rename_i ch r3 hx
              have h1 := StrAux.hexchar_len hx
              have h2 := ih r3 _ h
              simp only [List.length_cons]; omega
          · cases h
        · split at h
          · have := ih r0 _ h
            simp only [List.length_cons]; omega
          · cases h

theorem stringLiteral_lt {inp r : List Char} {s : Str} (h : Spec.stringLiteral inp = some (s, r)) :
    r.length < inp.length := by
  unfold Spec.stringLiteral at h
  split at h
  · have := stringBody_lt _ _ _ _ h
    simp only [List.length_cons]; omega
  · have := stringBody_lt _ _ _ _ h
    simp only [List.length_cons]; omega
  · cases h

theorem sliceSelector_lt {inp rest : List Char} {cs : Spec.CSelector}
    (h : Spec.sliceSelector inp = some (cs, rest)) : rest.length < inp.length := by
  have key : ∀ (start : Option Int) (r1 : List Char), r1.length ≤ inp.length →
      (Option.bind (Spec.lit ":" r1) fun r =>
        match
          (match Spec.intLit (Spec.skipS r) with
            | some (i, r') => ((some i : Option Int), Spec.skipS r')
            | none => (none, Spec.skipS r)) with
        | (stop, r) =>
          match Spec.lit ":" r with
          | some r2 =>
            match Spec.intLit (Spec.skipS r2) with
            | some (st, r3) => some (Spec.CSelector.slice start stop (some st), r3)
            | none => some (Spec.CSelector.slice start stop none, r2)
          | none => some (Spec.CSelector.slice start stop none, r)) = some (cs, rest) →
      rest.length < inp.length := by
    intro start r1 hr1 h
    cases hl : Spec.lit ":" r1 with
    | none => rw [hl] at h; cases h
    | some r2 =>
      rw [hl] at h
      simp only [Option.bind] at h
      have hl := lit_colon hl
      have h3 := skipS_len r2
      have tl : ∀ (stop : Option Int) (r3 : List Char), r3.length ≤ r2.length →
          (match Spec.lit ":" r3 with
          | some r2 =>
            match Spec.intLit (Spec.skipS r2) with
            | some (st, r3) => some (Spec.CSelector.slice start stop (some st), r3)
            | none => some (Spec.CSelector.slice start stop none, r2)
          | none => some (Spec.CSelector.slice start stop none, r3)) = some (cs, rest) →
          rest.length < inp.length := by
        intro stop r3 hr3 h
        split at h
        · rename_i r4 hl2
          have hl2 := lit_colon hl2
          split at h
          · rename_i st r5 hi
            have := intLit_lt hi
            have := skipS_len r4
            simp only [Option.some.injEq, Prod.mk.injEq] at h
            rw [← h.2]; omega
          · simp only [Option.some.injEq, Prod.mk.injEq] at h
            rw [← h.2]; omega
        · simp only [Option.some.injEq, Prod.mk.injEq] at h
          rw [← h.2]; omega
      cases hi : Spec.intLit (Spec.skipS r2) with
      | none =>
        rw [hi] at h
        exact tl _ _ h3 h
      | some p =>
        obtain ⟨i, r'⟩ := p
        rw [hi] at h
        have := intLit_lt hi
        have := skipS_len r'
        exact tl _ (Spec.skipS r') (by omega) h
  simp only [Spec.sliceSelector, bind] at h
  cases hi : Spec.intLit inp with
  | none =>
    rw [hi] at h
    exact key _ _ (Nat.le_refl _) h
  | some p =>
    obtain ⟨i, r'⟩ := p
    rw [hi] at h
    have := intLit_lt hi
    have := skipS_len r'
    exact key _ (Spec.skipS r') (by omega) h

end SelLen

/-- name, wildcard, slice and index selectors make progress -/
theorem selector_progress {F : Nat} {inp rest : List Char} {cs : Spec.CSelector}
    (h : Spec.selector (F + 1) inp = some (cs, rest)) (hq : inp.head? ≠ some '?') :
    rest.length < inp.length := by
  rw [Spec.selector.eq_def] at h
  simp only at h
  split at h
  · simp only [Option.some.injEq, Prod.mk.injEq] at h
    rw [← h.2]; simp
  · simp at hq
  · split at h
    · rename_i s r hs
      simp only [Option.some.injEq, Prod.mk.injEq] at h
      rw [← h.2]; exact SelLen.stringLiteral_lt hs
    · split at h
      · rename_i res hs
        simp only [Option.some.injEq] at h
        subst h
        exact SelLen.sliceSelector_lt hs
      · cases hi : Spec.intLit inp with
        | none => rw [hi] at h; cases h
        | some p =>
          obtain ⟨i, r⟩ := p
          rw [hi] at h
          simp only [Option.map_some, Option.some.injEq, Prod.mk.injEq] at h
          rw [← h.2]; exact SelLen.intLit_lt hi

end JPV.Proofs.Sf
