/-
`Spec.IRegexpAbnf` — the grammar of RFC 9485 (I-Regexp), section 4, as a
DECLARATIVE derivation relation: one inductive/definition per non-terminal, each
string index the concatenation the rule spells out, no lookahead, no fuel.
`IReAbnf.IRegexp s r` reads "`s` is an i-regexp and `r` is its abstract syntax"
(the same `Re` tree the recogniser `Spec.IRe.parse` builds).
`Proofs/IRegexpAbnfEquiv.lean` proves `parse p = some r ↔ IRegexp p r`, so the
grammar that has to be trusted as a reading of RFC 9485 is this file, not the
recogniser's control flow.

Two well-formedness conditions that RFC 9485 inherits from XSD (and that every
I-Regexp checker enforces) are part of the relation: in `{m,n}` m ≤ n, and in a
class range `a-b` the code point of a is ≤ that of b.
-/
import JPV.Spec.IRegexp
namespace JPV.Spec.IReAbnf
open JPV JPV.Spec.IRe

/-- SingleCharEsc = "\" ( %x28-2B / "-" / "." / "?" / %x5B-5E / %s"n" / %s"r" / %s"t" / %x7B-7D ), with the code point denoted -/
def SingleCharEsc (s : List Char) (n : Nat) : Prop := ∃ c, s = ['\\', c] ∧ singleEsc c = some n

/-- charProp = IsCategory (a major letter, optionally one of its minor letters) -/
def CharProp (p : List Char) : Prop := validProp p = true

/-- charClassEsc = catEsc / complEsc;  catEsc = %s"\p{" charProp "}";  complEsc = %s"\P{" charProp "}" -/
inductive CharClassEsc : List Char → Bool → Str → Prop
  | cat {p : List Char} : CharProp p → CharClassEsc ('\\' :: 'p' :: '{' :: (p ++ ['}'])) false p
  | compl {p : List Char} : CharProp p → CharClassEsc ('\\' :: 'P' :: '{' :: (p ++ ['}'])) true p

/-- CCchar = ( %x00-2C / %x2E-5A / %x5E-D7FF / %xE000-10FFFF ) / SingleCharEsc -/
inductive CCchar : List Char → Nat → Prop
  | raw {c : Char} : isCCchar c = true → CCchar [c] c.toNat
  | esc {s : List Char} {n : Nat} : SingleCharEsc s n → CCchar s n

/-- CCE1 = ( CCchar [ "-" CCchar ] ) / charClassEsc -/
inductive CCE1 : List Char → CCItem → Prop
  | single {s : List Char} {n : Nat} : CCchar s n → CCE1 s (.range n n)
  | range {s t : List Char} {lo hi : Nat} : CCchar s lo → CCchar t hi → lo ≤ hi → CCE1 (s ++ '-' :: t) (.range lo hi)
  | esc {s : List Char} {neg : Bool} {p : Str} : CharClassEsc s neg p → CCE1 s (.cat neg p)

/-- *CCE1 -/
inductive CCE1s : List Char → List CCItem → Prop
  | nil : CCE1s [] []
  | cons {s rest : List Char} {i : CCItem} {is : List CCItem} : CCE1 s i → CCE1s rest is → CCE1s (s ++ rest) (i :: is)

/-- charClassExpr = "[" [ "^" ] ( "-" / CCE1 ) *CCE1 [ "-" ] "]".
A "^" directly after "[" is the negation sign (XSD's rule, followed by every I-Regexp checker; the ABNF
alone would also let it be the first class character, so that `[^]` would be a class and `[^a]` ambiguous). -/
def CharClassExpr (s : List Char) (r : Re) : Prop :=
  ∃ (neg : Bool) (first body : List Char) (i : CCItem) (is : List CCItem) (trail : Bool),
    s = '[' :: ((if neg then ['^'] else []) ++ first ++ body ++ (if trail then ['-'] else []) ++ [']']) ∧
    ((first = ['-'] ∧ i = .range 45 45) ∨ CCE1 first i) ∧ (neg = false → first.head? ≠ some '^') ∧ CCE1s body is ∧
    r = .cls neg (i :: is ++ (if trail then [.range 45 45] else []))

/-- QuantExact = 1*%x30-39 -/
def QuantExact (s : List Char) : Prop := s ≠ [] ∧ ∀ c ∈ s, ('0' ≤ c && c ≤ '9') = true

/-- quantifier = ( "*" / "+" / "?" ) / range-quantifier;  range-quantifier = "{" QuantExact [ "," [ QuantExact ] ] "}" -/
inductive Quantifier : List Char → Nat → Option Nat → Prop
  | star : Quantifier ['*'] 0 none
  | plus : Quantifier ['+'] 1 none
  | opt : Quantifier ['?'] 0 (some 1)
  | exact {a : List Char} : QuantExact a → Quantifier ('{' :: (a ++ ['}'])) (digitsVal a) (some (digitsVal a))
  | atLeast {a : List Char} : QuantExact a → Quantifier ('{' :: (a ++ [',', '}'])) (digitsVal a) none
  | between {a b : List Char} : QuantExact a → QuantExact b → digitsVal a ≤ digitsVal b →
      Quantifier ('{' :: (a ++ ',' :: (b ++ ['}']))) (digitsVal a) (some (digitsVal b))

mutual

/-- i-regexp = branch *( "|" branch ) (nested to the right) -/
inductive IRegexp : List Char → Re → Prop
  | single {s : List Char} {ps : List Re} : Pieces s ps → IRegexp s (ps.foldl Re.seq Re.eps)
  | alt {s rest : List Char} {ps : List Re} {r : Re} : Pieces s ps → IRegexp rest r →
      IRegexp (s ++ '|' :: rest) (.alt (ps.foldl Re.seq Re.eps) r)

/-- branch = *piece (the pieces, in order) -/
inductive Pieces : List Char → List Re → Prop
  | nil : Pieces [] []
  | cons {s rest : List Char} {p : Re} {ps : List Re} : Piece s p → Pieces rest ps → Pieces (s ++ rest) (p :: ps)

/-- piece = atom [ quantifier ] -/
inductive Piece : List Char → Re → Prop
  | plain {s : List Char} {a : Re} : Atom s a → Piece s a
  | quantified {s q : List Char} {a : Re} {lo : Nat} {hi : Option Nat} : Atom s a → Quantifier q lo hi → Piece (s ++ q) (.rep a lo hi)

/-- atom = NormalChar / charClass / ( "(" i-regexp ")" );  charClass = "." / SingleCharEsc / charClassEsc / charClassExpr -/
inductive Atom : List Char → Re → Prop
  | normal {c : Char} : isNormalChar c = true → Atom [c] (.chr c.toNat)
  | dot : Atom ['.'] .dot
  | esc {s : List Char} {n : Nat} : SingleCharEsc s n → Atom s (.chr n)
  | classEsc {s : List Char} {neg : Bool} {p : Str} : CharClassEsc s neg p → Atom s (.cat neg p)
  | classExpr {s : List Char} {r : Re} : CharClassExpr s r → Atom s r
  | group {s : List Char} {r : Re} : IRegexp s r → Atom ('(' :: (s ++ [')'])) r

end

end JPV.Spec.IReAbnf
