/-
The D30 heap, nondeterministic mode: there IS a fast script.  If every `random.sample` interleaving puts
the grandchildren ahead of the queue and every coin says "visit the children now", the depth of the node
at the head of the queue grows by 2 per pop, and JSONPathRecursionError is raised after about 1.5 · max
nodes.  (So "no script is fast" is false; the exponential behaviour belongs to the queue-first scripts,
see `D30Lower`.)
-/
import JPV.Proofs.NdGraph.Basic
namespace JPV.Proofs.NdG
open JPV JPV.Impl JPV.Impl.G

/-- `n` rounds of: coin = True; both interleavings put the two grandchildren first -/
def fastScript : Nat → ND.Script
  | 0 => []
  | n + 1 => .coin true :: .merge [false, false] :: .merge [false, false] :: fastScript n

theorem d30_kids (loc : Loc) (i : Nat) (s : ND.Script) :
    ndKids d30 (loc, .ref i) s = ([(loc ++ [.idx 0], .ref 0), (loc ++ [.idx 1], .ref 0)], s) := rfl

theorem mergeQ_front {α} (x : α) (q : List α) (g1 g2 : α) (s : ND.Script) :
    ND.mergeQ (x :: q) [g1, g2] (.merge [false, false] :: s) = (g1 :: g2 :: x :: q, s) := rfl

/-- one round at the head of a queue with something behind it -/
theorem fast_round (max : Int) (fuel : Nat) (loc : Loc) (i d : Nat) (x : NdNode × Nat)
    (rest : List (NdNode × Nat)) (s : ND.Script) (acc : List NdNode) (hd : ((d : Int) + 1) < max) :
    ndLoop d30 max (fuel + 1) (((loc, .ref i), d) :: x :: rest)
        (.coin true :: .merge [false, false] :: .merge [false, false] :: s) acc =
      ndLoop d30 max fuel
        (((loc ++ [.idx 1] ++ [.idx 0], .ref 0), d + 2) :: ((loc ++ [.idx 1] ++ [.idx 1], .ref 0), d + 2) ::
          ((loc ++ [.idx 0] ++ [.idx 0], .ref 0), d + 2) :: ((loc ++ [.idx 0] ++ [.idx 1], .ref 0), d + 2) ::
          x :: rest) s
        (acc ++ [(loc, .ref i)] ++ [(loc ++ [.idx 0], .ref 0)] ++ [(loc ++ [.idx 1], .ref 0)]) := by
  have h0 : ndIsDeep max (Child.ref i) d = false := by
    rw [isDeep_ref]; exact decide_eq_false (by omega)
  have h1 : ndIsDeep max (Child.ref 0) (d + 1) = false := by
    rw [isDeep_ref]; exact decide_eq_false (by push_cast; omega)
  have hc : (ND.coin (.coin true :: .merge [false, false] :: .merge [false, false] :: s)).1 = true := rfl
  rw [loop_true_ok d30 max fuel (loc, .ref i) d (x :: rest) _ acc h0 hc]
  show ndVisitNow d30 max d [(loc ++ [.idx 0], .ref 0), (loc ++ [.idx 1], .ref 0)] (x :: rest)
      (.merge [false, false] :: .merge [false, false] :: s) (acc ++ [(loc, .ref i)]) = _
  rw [now_cons d30 max d _ _ _ _ _ h1, d30_kids]
  simp only [List.map_cons, List.map_nil]
  rw [mergeQ_front]
  simp only []
  rw [now_cons d30 max d _ _ _ _ _ h1, d30_kids]
  simp only [List.map_cons, List.map_nil]
  rw [mergeQ_front]
  simp only []
  rw [now_nil]

/-- `n + 1` rounds raise, whatever follows in the queue -/
theorem fast_loop (max : Int) (n : Nat) :
    ∀ (fuel : Nat) (loc : Loc) (i d : Nat) (x : NdNode × Nat) (rest : List (NdNode × Nat)) (acc : List NdNode),
      n + 1 ≤ fuel → max ≤ (d : Int) + 2 * n + 1 →
      (ndLoop d30 max fuel (((loc, .ref i), d) :: x :: rest) (fastScript (n + 1)) acc).2 = some .recursion ∧
      (ndLoop d30 max fuel (((loc, .ref i), d) :: x :: rest) (fastScript (n + 1)) acc).1.length ≤
        acc.length + 3 * n + 1 := by
  induction n with
  | zero =>
    intro fuel loc i d x rest acc hf hm
    obtain ⟨fuel, rfl⟩ : ∃ f, fuel = f + 1 := ⟨fuel - 1, by omega⟩
    cases h0 : ndIsDeep max (Child.ref i) d with
    | true =>
      rw [loop_deep d30 max fuel (loc, .ref i) d _ _ acc h0]
      exact ⟨rfl, by simp⟩
    | false =>
      have h1 : ndIsDeep max (Child.ref 0) (d + 1) = true := by
        rw [isDeep_ref]; exact decide_eq_true (by push_cast; omega)
      have hc : (ND.coin (fastScript (0 + 1))).1 = true := rfl
      rw [loop_true_err d30 max fuel (loc, .ref i) d (x :: rest) _ acc h0 hc
        (q' := x :: rest) (s' := (ND.coin (fastScript (0 + 1))).2) (acc' := acc ++ [(loc, .ref i)])
        (e := .recursion) (by rw [d30_kids]; exact now_deep d30 max d _ _ _ _ _ h1)]
      exact ⟨rfl, by simp⟩
  | succ n ih =>
    intro fuel loc i d x rest acc hf hm
    obtain ⟨fuel, rfl⟩ : ∃ f, fuel = f + 1 := ⟨fuel - 1, by omega⟩
    cases h0 : ndIsDeep max (Child.ref i) d with
    | true =>
      rw [loop_deep d30 max fuel (loc, .ref i) d _ _ acc h0]
      exact ⟨rfl, by simp only []; omega⟩
    | false =>
      cases h1 : ndIsDeep max (Child.ref 0) (d + 1) with
      | true =>
        have hc : (ND.coin (fastScript (n + 1 + 1))).1 = true := rfl
        rw [loop_true_err d30 max fuel (loc, .ref i) d (x :: rest) _ acc h0 hc
          (q' := x :: rest) (s' := (ND.coin (fastScript (n + 1 + 1))).2) (acc' := acc ++ [(loc, .ref i)])
          (e := .recursion) (by rw [d30_kids]; exact now_deep d30 max d _ _ _ _ _ h1)]
        exact ⟨rfl, by simp only [List.length_append, List.length_cons, List.length_nil]; omega⟩
      | false =>
        have hd : ((d : Int) + 1) < max := by
          have := isDeep_ref_false h1
          push_cast at this
          omega
        have hs : fastScript (n + 1 + 1) =
            .coin true :: .merge [false, false] :: .merge [false, false] :: fastScript (n + 1) := rfl
        rw [hs, fast_round max fuel loc i d x rest _ acc hd]
        obtain ⟨r1, r2⟩ := ih fuel (loc ++ [.idx 1] ++ [.idx 0]) 0 (d + 2)
          ((loc ++ [.idx 1] ++ [.idx 1], .ref 0), d + 2)
          (((loc ++ [.idx 0] ++ [.idx 0], .ref 0), d + 2) :: ((loc ++ [.idx 0] ++ [.idx 1], .ref 0), d + 2) ::
            x :: rest)
          (acc ++ [(loc, .ref i)] ++ [(loc ++ [.idx 0], .ref 0)] ++ [(loc ++ [.idx 1], .ref 0)])
          (by omega) (by push_cast; omega)
        refine ⟨r1, ?_⟩
        simp only [List.length_append, List.length_cons, List.length_nil] at r2 ⊢
        omega

/-- the D30 heap under the fast script: JSONPathRecursionError after at most 3·(max/2) + 2 nodes
and max/2 + 1 pops -/
theorem d30_fast (max fuel : Nat) (hf : max / 2 + 1 ≤ fuel) :
    (ndVisit d30 max fuel 0 (fastScript (max / 2 + 1))).2 = some .recursion ∧
    (ndVisit d30 max fuel 0 (fastScript (max / 2 + 1))).1.length ≤ 3 * (max / 2) + 2 := by
  rw [visit_eq, d30_kids]
  simp only [List.map_cons, List.map_nil]
  obtain ⟨r1, r2⟩ := fast_loop max (max / 2) fuel ([] ++ [.idx 0]) 0 1 (([] ++ [.idx 1], .ref 0), 1) []
    [([], .ref 0)] hf (by push_cast; omega)
  refine ⟨r1, ?_⟩
  simp only [List.length_cons, List.length_nil] at r2
  omega

end JPV.Proofs.NdG
