/-
C17, second half — "Conversely the mode is exhaustive: every ordering the RFC permits is
produced by some outcome of the random choices."

TRUE for queries without (top-level) descendant segments: `C17_exhaustive_nodesc` (filter-free) and
`C17_exhaustive_nodesc_wt` (with filters, under the hypotheses of `C17_permitted_wt`).  Member shuffles
reach every permutation (`C17_shuffle_exhaustive`), the queue merge reaches every interleaving
(`C17_merge_exhaustive`), and the scripts of successive stages concatenate: every stage, filter tests and
their embedded queries included, can be replayed from a script PREFIX that it consumes exactly.

TRUE also WITH descendant segments on chain documents — every container has at most one container child —
(`C17_exhaustive_chain`, filter-free queries).

FALSE in general (`C17_exhaustive_false`, known finding D24): for `$..*` on `[[[1],[5]],[[2]]]` a nodelist
RFC 9535 permits is produced by NO choice script (`C17_exhaustive_refuted`); of the six permitted orderings
exactly three are ever produced (`C17_D24_*`).

The quantifier over all scripts is discharged through `ND.findA`, an executable enumeration (the evaluator of
`Impl/NonDet.lean` re-read in the list monad) which is proved to be EXACTLY the set of results of the mode on
filter-free queries (`C17_reachable_iff`): this characterises the reachable set in general and makes
"some script produces r" / "no script produces r" decidable by evaluation on concrete inputs.
-/
import JPV.Props.C17
import JPV.Proofs.NdExh.NoDesc
import JPV.Proofs.NdExh.NoDescWt
import JPV.Proofs.NdExh.ReachComplete
import JPV.Proofs.NdExh.D24
import JPV.Proofs.NdExh.ChainCheck
namespace JPV.Props
open JPV JPV.Impl

/-! ### the primitive choices are exhaustive -/

/-- every permutation is an outcome of `random.shuffle`, under one script entry (none for fewer than two
items), whatever follows in the script -/
theorem C17_shuffle_exhaustive {α} (xs ys : List α) (hp : ys.Perm xs) :
    ∃ pre : ND.Script, pre.length ≤ 1 ∧ ∀ t, ND.shuffle xs (pre ++ t) = (ys, t) :=
  Proofs.NdExh.shuffle_surj xs ys hp

/-- every order-preserving interleaving of the queue with the new entries is an outcome of the
`random.sample` merge, under a script prefix it consumes exactly -/
theorem C17_merge_exhaustive {α} (q g m : List α) (hm : Proofs.Ndp.Merge q g m) :
    ∃ pre : ND.Script, ∀ t, ND.mergeQ q g (pre ++ t) = (m, t) :=
  Proofs.NdExh.mergeQ_surj q g m (Proofs.NdExh.merges_sound hm)

/-! ### exhaustive without descendant segments -/

/-- exhaustiveness for filter-free queries without descendant segments: every nodelist RFC 9535 permits is
the result under some choice script (any environment: no depth limit is involved without `..`) -/
theorem C17_exhaustive_nodesc (env : Env) (reg : Spec.Registry) (q : Query) (v : Json)
    (hnd : Spec.noDescendant q = true) (hff : Spec.filterFree q = true) (hw : v.WF) :
    ∀ r ∈ Spec.ND.outcomes reg q v, ∃ s : ND.Script, ND.find env q v s = .ok r :=
  Proofs.NdExh.find_exhaustive_nodesc env reg q v hnd hff hw

/-- ... and WITH filter selectors (whose embedded queries may contain anything, `..` included), under the
hypotheses of `C17_permitted_wt` -/
theorem C17_exhaustive_nodesc_wt (env : Env) (reg : Spec.Registry) (q : Query) (v : Json)
    (hnd : Spec.noDescendant q = true)
    (hc : EnvConforms env reg) (hoi : Proofs.Ndf.OrderInsensitive reg)
    (hwt : Spec.wtQuery (sigsOf reg) q = true)
    (hw : v.WF) (hd : (v.depth : Int) ≤ env.maxDepth) (h1 : 1 ≤ env.maxDepth) :
    ∀ r ∈ Spec.ND.outcomes reg q v, ∃ s : ND.Script, ND.find env q v s = .ok r :=
  Proofs.NdExh.find_exhaustive_nodesc_wt env reg q v hnd hc hoi hwt hw hd h1

/-- in terms of the declarative relation of `Spec/NonDetRel.lean` -/
theorem C17_exhaustive_nodesc_rel (env : Env) (reg : Spec.Registry) (q : Query) (v : Json)
    (hnd : Spec.noDescendant q = true) (hff : Spec.filterFree q = true) (hw : v.WF) :
    ∀ r, Spec.ND.Permitted reg q v r → ∃ s : ND.Script, ND.find env q v s = .ok r :=
  fun r hr => C17_exhaustive_nodesc env reg q v hnd hff hw r (Proofs.outcomes_complete reg q v hw r hr)

/-- every stage of the evaluator can be replayed from a script prefix: whatever `find`'s pipeline does on
one node under a script `s`, it does under `pre ++ t` for some `pre` and every `t`, leaving exactly `t`
(any query, filters included; no typing or depth assumption) -/
theorem C17_replay (env : Env) (root : Json) (segs : List Segment) (n : Node) (s : ND.Script) :
    ∃ pre : ND.Script, ∀ t,
      (ND.runSegs env root segs n (pre ++ t)).nodes = (ND.runSegs env root segs n s).nodes ∧
      (ND.runSegs env root segs n (pre ++ t)).err = (ND.runSegs env root segs n s).err ∧
      ((ND.runSegs env root segs n s).err = none → (ND.runSegs env root segs n (pre ++ t)).script = t) :=
  Proofs.NdExh.segs_replay_explicit env root segs n s

/-! ### exhaustive WITH descendant segments on chain documents -/

/-- on a chain document (`Spec.chainDoc`: every container has at most one container child) the mode is
exhaustive for every filter-free query, descendant segments included: the containers of a chain are totally
ordered by the ancestor relation, scalars yield nothing under any selector, and the breadth-first traversal
(every coin "later") visits the containers outermost first -/
theorem C17_exhaustive_chain (env : Env) (reg : Spec.Registry) (q : Query) (v : Json)
    (hff : Spec.filterFree q = true) (hw : v.WF) (hd : (v.depth : Int) ≤ env.maxDepth)
    (hch : Spec.chainDoc v = true) :
    ∀ r ∈ Spec.ND.outcomes reg q v, ∃ s : ND.Script, ND.find env q v s = .ok r :=
  Proofs.NdExh.find_exhaustive_chainDoc env reg q v hff hw hd hch

/-! ### the reachable set in general -/

/-- `ND.findA env q v` lists exactly the results of nondeterministic mode on a filter-free query -/
theorem C17_reachable_iff (env : Env) (q : Query) (v : Json) (hff : Spec.filterFree q = true)
    (r : Except ErrKind (List Node)) :
    r ∈ ND.findA env q v ↔ ∃ s : ND.Script, ND.find env q v s = r :=
  Proofs.NdExh.findA_iff env q v hff r

/-- whatever the script, the result of a filter-free query is in the enumeration -/
theorem C17_reachable_sound (env : Env) (q : Query) (v : Json) (hff : Spec.filterFree q = true)
    (s : ND.Script) : ND.find env q v s ∈ ND.findA env q v :=
  Proofs.NdExh.findA_sound env q v hff s

/-- every enumerated result (of any query; filter selectors contribute nothing to the enumeration) is the
result under some script -/
theorem C17_reachable_complete (env : Env) (q : Query) (v : Json) (r : Except ErrKind (List Node))
    (h : r ∈ ND.findA env q v) : ∃ s : ND.Script, ND.find env q v s = r :=
  Proofs.NdExh.findA_complete env q v r h

/-! ### not exhaustive with descendant segments (D24) -/

/-- D24: `$..*` on `[[[1],[5]],[[2]]]`, default environment with the nondeterministic flag on — a nodelist
RFC 9535 permits that no choice script produces -/
theorem C17_exhaustive_refuted :
    ∃ r, r ∈ Spec.ND.outcomes Proofs.NdExh.D24.reg Proofs.NdExh.D24.query Proofs.NdExh.D24.doc ∧
      ∀ s : ND.Script,
        ND.find Proofs.NdExh.D24.env Proofs.NdExh.D24.query Proofs.NdExh.D24.doc s ≠ .ok r :=
  Proofs.NdExh.D24.exhaustive_refuted

/-- the same against the declarative relation of `Spec/NonDetRel.lean` -/
theorem C17_exhaustive_refuted_rel :
    ∃ r, Spec.ND.Permitted Proofs.NdExh.D24.reg Proofs.NdExh.D24.query Proofs.NdExh.D24.doc r ∧
      ∀ s : ND.Script,
        ND.find Proofs.NdExh.D24.env Proofs.NdExh.D24.query Proofs.NdExh.D24.doc s ≠ .ok r :=
  Proofs.NdExh.D24.exhaustive_refuted_rel

/-- the second half of the property at full strength, under the hypotheses of `C17_permitted` -/
def C17_exhaustive_statement : Prop :=
  ∀ (env : Env) (reg : Spec.Registry) (q : Query) (v : Json),
    Spec.filterFree q = true → v.WF → (v.depth : Int) ≤ env.maxDepth → 1 ≤ env.maxDepth →
    ∀ r ∈ Spec.ND.outcomes reg q v, ∃ s : ND.Script, ND.find env q v s = .ok r

/-- ... is false -/
theorem C17_exhaustive_false : ¬ C17_exhaustive_statement :=
  Proofs.NdExh.D24.statement_false

open Proofs.NdExh.D24 in
/-- D24 in full, at the level of node locations: RFC 9535 permits exactly six orderings ... -/
theorem C17_D24_permitted_six :
    (∀ r ∈ Spec.ND.outcomes reg query doc, locsOf r ∈ produced ++ notProduced) ∧
    (∀ l ∈ produced ++ notProduced, ∃ r ∈ Spec.ND.outcomes reg query doc, locsOf r = l) :=
  Proofs.NdExh.D24.permitted_six

open Proofs.NdExh.D24 in
/-- ... every script yields one of three of them ... -/
theorem C17_D24_produced_only (s : ND.Script) :
    ∃ r, ND.find env query doc s = .ok r ∧ locsOf r ∈ produced :=
  Proofs.NdExh.D24.produced_only s

open Proofs.NdExh.D24 in
/-- ... each of the three is produced ... -/
theorem C17_D24_produced_all : ∀ l ∈ produced, ∃ (s : ND.Script) (r : List Node),
    ND.find env query doc s = .ok r ∧ locsOf r = l :=
  Proofs.NdExh.D24.produced_all

open Proofs.NdExh.D24 in
/-- ... and the other three never -/
theorem C17_D24_notProduced_never : ∀ l ∈ notProduced, ∀ (s : ND.Script) (r : List Node),
    ND.find env query doc s = .ok r → locsOf r ≠ l :=
  Proofs.NdExh.D24.notProduced_never

end JPV.Props
