/-
`Proofs.Pc.Lit` — printed literals read back: strings, `true`/`false`/`null` (`PfTerm`), integers
(`Pc.Num`) and floats (under the round-trip hypothesis on `Py.reprFloat`).
-/
import JPV.Proofs.PfTerm
import JPV.Proofs.Pc.Num
namespace JPV.Proofs.Pc
open JPV JPV.Impl JPV.Proofs.Cf JPV.Proofs.Prn

/-- copy of `Proofs.FloatRoundTrips` (stated in `Proofs.PrintCompile`, which imports this file) -/
def FloatRT (x : Num) : Prop :=
  Spec.numberSpelling (Impl.strFloat x) = some (Impl.strFloat x, []) ∧
  Spec.numberValue (Impl.strFloat x) = some x

/-- a number literal whose printed spelling reads back -/
def NumOK (x : Num) : Prop :=
  if x.flt = true then FloatRT x else Spec.numberValue (Py.reprInt x.n) = some x

/-- literal values whose printed spelling reads back -/
def LitOK : Json → Prop
  | .num x => NumOK x
  | .arr _ => False
  | .obj _ => False
  | _ => True

/-- the text a number literal is printed as -/
def numText (x : Num) : Str := if x.flt then Impl.strFloat x else Py.reprInt x.n

theorem strLit_num (x : Num) : Impl.strLit (.num x) = numText x := by rw [Impl.strLit]; rfl

theorem numText_ok (x : Num) (h : NumOK x) :
    Spec.numberSpelling (numText x) = some (numText x, []) ∧ Spec.numberValue (numText x) = some x := by
  unfold NumOK at h
  unfold numText
  cases hf : x.flt with
  | true => simp only [hf, if_true] at h ⊢; exact h
  | false =>
    simp only [hf, Bool.false_eq_true, if_false] at h ⊢
    refine ⟨?_, h⟩
    have := numberSpelling_reprInt x.n [] (by intro c t e; cases e)
    simpa using this

theorem isDigit_iff (c : Char) : isDigit c = true ↔ 48 ≤ c.toNat ∧ c.toNat ≤ 57 := Prn.isDIGIT_iff c

/-- the first character of a printed number -/
def NH (c : Char) : Prop := isDigit c = true ∨ c = '-'

theorem NH.props {c : Char} (h : NH c) :
    Spec.isBlank c = false ∧ Spec.isLCALPHA c = false ∧ c ≠ '"' ∧ c ≠ '\'' ∧ c ≠ '@' ∧ c ≠ '$' ∧ c ≠ '!' ∧
      c ≠ '(' ∧ c ≠ ')' ∧ c ≠ '=' ∧ c ≠ 't' ∧ c ≠ 'f' ∧ c ≠ 'n' := by
  rcases h with h | rfl
  · rw [isDigit_iff] at h
    have hl : Spec.isLCALPHA c = false := by
      cases hx : Spec.isLCALPHA c with
      | false => rfl
      | true => rw [Pf.isLCALPHA_iff] at hx; omega
    refine ⟨?_, hl, ?_, ?_, ?_, ?_, ?_, ?_, ?_, ?_, ?_, ?_, ?_⟩
    · simp only [Spec.isBlank, Bool.or_eq_false_iff, decide_eq_false_iff_not]
      refine ⟨⟨⟨?_, ?_⟩, ?_⟩, ?_⟩ <;> rintro rfl <;> revert h <;> decide
    all_goals (rintro rfl; revert h; decide)
  · decide

theorem numText_head (x : Num) (h : NumOK x) : ∃ c t, numText x = c :: t ∧ NH c :=
  numberSpelling_head (numText_ok x h).1

theorem lit_none_of_head (kw : String) (c d : Char) (t : List Char) (u : List Char) (hk : kw.toList = d :: u)
    (h : c ≠ d) : Spec.lit kw (c :: t) = none := by
  unfold Spec.lit
  rw [hk, if_neg]
  simp only [List.isPrefixOf, Bool.and_eq_true, beq_iff_eq, not_and]
  intro e; exact absurd e.symm h

/-- a number spelling is read as a number literal -/
theorem literal_number {sp rest : List Char} {x : Num} (h1 : Spec.numberSpelling (sp ++ rest) = some (sp, rest))
    (h2 : Spec.numberValue sp = some x) (hh : ∃ c t, sp = c :: t ∧ NH c) :
    Spec.literal (sp ++ rest) = some (.num x, rest) := by
  obtain ⟨c, t, rfl, hc⟩ := hh
  obtain ⟨-, -, c1, c2, -, -, -, -, -, -, c3, c4, c5⟩ := hc.props
  rw [List.cons_append] at h1 ⊢
  rw [Spec.literal, stringLiteral_other _ _ c1 c2, lit_none_of_head "true" c 't' _ _ rfl c3,
    lit_none_of_head "false" c 'f' _ _ rfl c4, lit_none_of_head "null" c 'n' _ _ rfl c5, h1]
  simp only [h2, Option.map_some]

/-- what follows a printed literal: blank, `)`, `]` or `,` -/
def LFollow (rest : List Char) : Prop := ∃ c t, rest = c :: t ∧ (c = ' ' ∨ c = ')' ∨ c = ']' ∨ c = ',')

theorem LFollow.numFollow {rest} (h : LFollow rest) : NumFollow rest := by
  obtain ⟨c, t, rfl, hc⟩ := h
  intro d u e
  simp only [List.cons.injEq] at e
  rw [← e.1]
  rcases hc with rfl | rfl | rfl | rfl <;> decide

theorem literal_numText (x : Num) (h : NumOK x) (rest : List Char) (hr : LFollow rest) :
    Spec.literal (numText x ++ rest) = some (.num x, rest) := by
  obtain ⟨h1, h2⟩ := numText_ok x h
  exact literal_number (numberSpelling_append h1 hr.numFollow) h2 (numberSpelling_head h1)

theorem literal_strLit (v : Json) (hv : LitOK v) (rest : List Char) (hr : LFollow rest) :
    Spec.literal (Impl.strLit v ++ rest) = some (v, rest) := by
  cases v with
  | num x => rw [strLit_num]; exact literal_numText x hv rest hr
  | str s => exact Pf.literal_strLit _ rfl rest
  | bool b => exact Pf.literal_strLit _ rfl rest
  | null => exact Pf.literal_strLit _ rfl rest
  | arr _ => exact hv.elim
  | obj _ => exact hv.elim

/-- the first character of a printed literal -/
theorem strLit_head (v : Json) (hv : LitOK v) :
    ∃ c t, Impl.strLit v = c :: t ∧ (c = '\'' ∨ Pf.nameOK (c :: t) = true ∨ NH c) := by
  cases v with
  | num x =>
    rw [strLit_num]
    obtain ⟨c, t, e, hc⟩ := numText_head x hv
    exact ⟨c, t, e, .inr (.inr hc)⟩
  | str s =>
    obtain ⟨c, t, e, hc⟩ := Pf.strLit_head (.str s) rfl
    exact ⟨c, t, e, hc.elim .inl (fun h => .inr (.inl h))⟩
  | bool b =>
    obtain ⟨c, t, e, hc⟩ := Pf.strLit_head (.bool b) rfl
    exact ⟨c, t, e, hc.elim .inl (fun h => .inr (.inl h))⟩
  | null =>
    obtain ⟨c, t, e, hc⟩ := Pf.strLit_head .null rfl
    exact ⟨c, t, e, hc.elim .inl (fun h => .inr (.inl h))⟩
  | arr _ => exact hv.elim
  | obj _ => exact hv.elim

/-- a printed literal followed by blank, `)`, `]` or `,` is not the beginning of a function call -/
theorem strLit_noCall (v : Json) (hv : LitOK v) (rest : List Char) (hr : LFollow rest) :
    ∀ name r, Spec.functionName (Impl.strLit v ++ rest) ≠ some (name, '(' :: r) := by
  intro name r
  obtain ⟨c, t, e, hc⟩ := strLit_head v hv
  rw [e]
  rcases hc with rfl | hc | hc
  · rw [List.cons_append, Pf.functionName_none _ _ (by decide)]; simp
  · have := Pf.functionName_stop (c :: t) hc rest (by
      obtain ⟨d, u, rfl, hd⟩ := hr
      intro d' u' e'
      simp only [List.cons.injEq] at e'
      rw [← e'.1]
      rcases hd with rfl | rfl | rfl | rfl <;> decide)
    rw [this]
    obtain ⟨d, u, rfl, hd⟩ := hr
    intro h
    simp only [Option.some.injEq, Prod.mk.injEq, List.cons.injEq] at h
    rcases hd with rfl | rfl | rfl | rfl <;> exact absurd h.2.1 (by decide)
  · rw [List.cons_append, Pf.functionName_none _ _ hc.props.2.1]; simp

end JPV.Proofs.Pc
