#!/bin/sh
# MANIFEST.setup_cmd: build the Lean development from files on disk (offline).
set -e
cd "$(dirname "$0")/.."
JPV_REPO=${JPV_REPO:-/repo} /venv/bin/python harness/gen_tables.py > /dev/null
cd lean
lake build 2>&1 | tail -5
