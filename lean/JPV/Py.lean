/-
Models of the CPython / stdlib primitives the implementation leans on.
Each is a small total function; each is *assumed* to describe CPython 3.12 and
is exercised directly by a correspondence op of its own (`py.*`), see DESIGN §6.
-/
import JPV.Json
namespace JPV.Py

/-- `xs[i]` for a Python list: negative indices wrap once; `none` = IndexError. -/
def index {α} (xs : List α) (i : Int) : Option α :=
  let len : Int := xs.length
  let j := if i < 0 then i + len else i
  if j < 0 ∨ j ≥ len then none else xs[j.toNat]?

/-- `slice(start, stop, step).indices(len)` (sliceobject.c `_PySlice_GetLongIndices`).
`none` = `ValueError` (step 0). -/
def sliceIndices (len : Nat) (start stop step : Option Int) : Option (Int × Int × Int) :=
  let st : Int := step.getD 1
  if st = 0 then none else
  let neg := st < 0
  let lower : Int := if neg then -1 else 0
  let upper : Int := if neg then (len : Int) - 1 else len
  let clip (v : Int) : Int :=
    if v < 0 then (if v + len < lower then lower else v + len)
    else (if v > upper then upper else v)
  let s := match start with
    | none => if neg then upper else lower
    | some v => clip v
  let e := match stop with
    | none => if neg then lower else upper
    | some v => clip v
  some (s, e, st)

/-- `len(range(start, stop, step))` (rangeobject.c `compute_range_length`), step ≠ 0. -/
def rangeLen (start stop step : Int) : Nat :=
  if step > 0 then
    (if start < stop then ((stop - start - 1) / step + 1).toNat else 0)
  else
    (if stop < start then ((start - stop - 1) / (-step) + 1).toNat else 0)

/-- `list(range(start, stop, step))`, step ≠ 0. -/
def range (start stop step : Int) : List Int :=
  (List.range (rangeLen start stop step)).map (fun (k : Nat) => start + (k : Int) * step)

/-- `zip(range(*slice(a,b,c).indices(len(xs))), xs[slice(a,b,c)])`.
List slicing picks the elements at `range(*indices)` (listobject.c `list_subscript`);
all those indices are within bounds, which `C07` proves rather than assumes:
an out-of-bounds index would make this list shorter than the range. -/
def sliceZip {α} (xs : List α) (start stop step : Option Int) : Option (List (Int × α)) :=
  match sliceIndices xs.length start stop step with
  | none => none
  | some (s, e, st) =>
    some ((range s e st).filterMap (fun i => if i < 0 then none else (xs[i.toNat]?).map (fun x => (i, x))))

/-- `len(s)` of a `str` counts code points. -/
def strLen (s : Str) : Nat := s.length

/-- `str.replace(old, new)`: left to right, non-overlapping; `old` non-empty. -/
def replace (s old new : Str) : Str :=
  if old.isEmpty then s else go s.length s
where
  go : Nat → Str → Str
  | 0, s => s
  | _, [] => []
  | fuel + 1, c :: cs =>
    if old.isPrefixOf (c :: cs) then new ++ go fuel ((c :: cs).drop old.length)
    else c :: go fuel cs

def hexDigit (n : Nat) : Char := if n < 10 then Char.ofNat (48 + n) else Char.ofNat (87 + n)

/-- `json.dumps(s, ensure_ascii=False)[1:-1]`: `ESCAPE` table of json/encoder.py. -/
def jsonEscapeChar (c : Char) : Str :=
  if c = '"' then ['\\', '"']
  else if c = '\\' then ['\\', '\\']
  else if c = '\n' then ['\\', 'n']
  else if c = '\r' then ['\\', 'r']
  else if c = '\t' then ['\\', 't']
  else if c.toNat = 8 then ['\\', 'b']
  else if c.toNat = 12 then ['\\', 'f']
  else if c.toNat < 32 then
    ['\\', 'u', '0', '0', hexDigit (c.toNat / 16), hexDigit (c.toNat % 16)]
  else [c]

def jsonDumpsBody (s : Str) : Str := s.flatMap jsonEscapeChar

/-- `repr(i)` for an int. -/
def reprInt (i : Int) : Str := (toString i).toList

end JPV.Py
