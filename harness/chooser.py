"""A scripted replacement for `random.shuffle / random.choice / random.sample`, and a DFS
over *all* choice scripts of an evaluation (the whole choice tree of small inputs)."""
from __future__ import annotations

import itertools
import math
import random as _random
from contextlib import contextmanager


def nth_permutation(n, k):
    """the k-th permutation (lexicographic) of range(n)"""
    items = list(range(n))
    out = []
    for i in range(n, 0, -1):
        f = math.factorial(i - 1)
        j, k = divmod(k, f)
        out.append(items.pop(j))
    return out


def nth_interleaving(nq, ng, k):
    """the k-th bit pattern with nq ones (take from queue) and ng zeros"""
    bits = []
    while nq > 0 and ng > 0:
        c = math.comb(nq - 1 + ng, ng)  # patterns starting with 1
        if k < c:
            bits.append(1)
            nq -= 1
        else:
            k -= c
            bits.append(0)
            ng -= 1
    bits += [1] * nq + [0] * ng
    return bits


class Chooser:
    """decides every random choice from a prescribed list of alternative indices; beyond the list it
    takes alternative 0 (or a random one) and records how many alternatives there were"""

    def __init__(self, prefix=(), rng=None):
        self.prefix = list(prefix)
        self.trace = []  # (number of alternatives, chosen index)
        self.script = []  # wire form
        self.rng = rng

    def _pick(self, n):
        i = len(self.trace)
        if i < len(self.prefix):
            k = self.prefix[i]
        elif self.rng is not None:
            k = self.rng.randrange(n)
        else:
            k = 0
        self.trace.append((n, k))
        return k

    def shuffle(self, items, *a, **kw):
        n = len(items)
        if n < 2:
            return
        k = self._pick(math.factorial(n))
        p = nth_permutation(n, k)
        items[:] = [items[i] for i in p]
        self.script.append("(perm " + " ".join(str(i) for i in p) + ")")

    def choice(self, seq):
        if list(seq) != [True, False]:
            raise AssertionError(f"unexpected random.choice({seq!r})")
        k = self._pick(2)
        self.script.append(f"(coin {1 if k == 0 else 0})")
        return seq[k]

    def sample(self, population, k, **kw):
        pop = list(population)
        if len(pop) != k:
            raise AssertionError("unexpected random.sample arguments")
        if not pop:
            return []
        a = pop[0]
        nq = sum(1 for x in pop if x is a)
        ng = len(pop) - nq
        if nq == 0 or ng == 0:
            return pop
        b = next(x for x in pop if x is not a)
        idx = self._pick(math.comb(nq + ng, nq))
        bits = nth_interleaving(nq, ng, idx)
        self.script.append("(merge " + " ".join(str(x) for x in bits) + ")")
        return [a if bit else b for bit in bits]

    def wire(self):
        return "(script" + "".join(" " + s for s in self.script) + ")"


@contextmanager
def scripted(chooser):
    saved = (_random.shuffle, _random.choice, _random.sample)
    _random.shuffle, _random.choice, _random.sample = chooser.shuffle, chooser.choice, chooser.sample
    try:
        yield chooser
    finally:
        _random.shuffle, _random.choice, _random.sample = saved


def all_scripts(run, cap=5000):
    """DFS over the choice tree: `run(chooser)` is executed once per leaf.
    Yields (chooser, result); stops after `cap` leaves (returns complete=False through the generator's
    `.complete` attribute on the returned list)."""
    prefix = []
    leaves = []
    complete = True
    while True:
        ch = Chooser(prefix)
        with scripted(ch):
            result = run()
        leaves.append((ch, result))
        if len(leaves) >= cap:
            complete = False
            break
        # next prefix: increment the last decision that still has alternatives
        tr = ch.trace
        i = len(tr) - 1
        while i >= 0 and tr[i][1] + 1 >= tr[i][0]:
            i -= 1
        if i < 0:
            break
        prefix = [k for (_n, k) in tr[:i]] + [tr[i][1] + 1]
    return leaves, complete
