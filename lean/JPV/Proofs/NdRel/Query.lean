/-
Selectors, segments and queries: the enumerations `selOutcomes`, `selsOutcomes`, `segOutcomes`,
`outcomesFrom` list exactly what `SelPermitted`, `SelsPermitted`, `SegPermitted`, `SegsPermitted`
accept (on nodelists of well-formed values), and the deterministic `select` is permitted.
-/
import JPV.Proofs.NdRel.LinExt
namespace JPV.Proofs.NdRel
open JPV JPV.Spec JPV.Spec.ND

/-! ### selectors -/

theorem selOutcomes_iff (reg : Registry) (root : Json) (s : Selector) (n : Node) (l : List Node) :
    l ∈ selOutcomes reg root s n ↔ SelPermitted reg root s n l := by
  cases s with
  | name k =>
    simp only [selOutcomes, selectSel, List.mem_singleton]
    exact ⟨fun h => h ▸ .name, fun h => by cases h; rfl⟩
  | index i =>
    simp only [selOutcomes, selectSel, List.mem_singleton]
    exact ⟨fun h => h ▸ .index, fun h => by cases h; rfl⟩
  | slice a b c =>
    simp only [selOutcomes, selectSel, List.mem_singleton]
    exact ⟨fun h => h ▸ .slice, fun h => by cases h; rfl⟩
  | wild =>
    simp only [selOutcomes]
    cases hv : n.val with
    | obj kvs =>
      simp only [mem_perms_iff]
      constructor
      · intro h; exact .wildObj (by rw [hv]; rfl) h
      · intro h
        cases h with
        | wildObj _ hp => exact hp
        | wildOther ho => exact .refl _
    | _ =>
      simp only [List.mem_singleton]
      constructor
      · intro h; subst h; exact .wildOther (by rw [hv]; rfl)
      · intro h
        cases h with
        | wildObj ho _ => rw [hv] at ho; cases ho
        | wildOther _ => rfl
  | filter e =>
    simp only [selOutcomes]
    cases hv : n.val with
    | obj kvs =>
      simp only [mem_perms_iff]
      constructor
      · intro h; exact .filterObj (by rw [hv]; rfl) h
      · intro h
        cases h with
        | filterObj _ hp => exact hp
        | filterOther ho => exact .refl _
    | _ =>
      simp only [List.mem_singleton]
      constructor
      · intro h; subst h; exact .filterOther (by rw [hv]; rfl)
      · intro h
        cases h with
        | filterObj ho _ => rw [hv] at ho; cases ho
        | filterOther _ => rfl

theorem selsOutcomes_iff (reg : Registry) (root : Json) (n : Node) :
    ∀ (sels : List Selector) (l : List Node),
      l ∈ selsOutcomes reg root sels n ↔ SelsPermitted reg root sels n l := by
  intro sels
  induction sels with
  | nil =>
    intro l
    simp only [selsOutcomes, List.map_nil, mem_product_nil]
    constructor
    · rintro rfl; exact .nil
    · intro h; cases h; rfl
  | cons s ss ih =>
    intro l
    simp only [selsOutcomes, List.map_cons] at ih ⊢
    rw [mem_product_cons]
    constructor
    · rintro ⟨a, ha, r, hr, rfl⟩
      exact .cons ((selOutcomes_iff reg root s n a).1 ha) ((ih r).1 hr)
    · intro h
      cases h with
      | cons h1 h2 => exact ⟨_, (selOutcomes_iff reg root s n _).2 h1, _, (ih _).2 h2, rfl⟩

/-! ### segments -/

theorem segOutcomes_iff (reg : Registry) (root : Json) (seg : Segment) (ns out : List Node)
    (hw : ∀ n, n ∈ ns → n.val.WF) :
    out ∈ segOutcomes reg root seg ns ↔ SegPermitted reg root seg ns out := by
  cases seg with
  | child sels =>
    simp only [segOutcomes, SegPermitted]
    rw [mem_product_map_iff]
    exact ⟨fun h => each_mono h (fun n _ l hl => (selsOutcomes_iff reg root n sels l).1 hl),
      fun h => each_mono h (fun n _ l hl => (selsOutcomes_iff reg root n sels l).2 hl)⟩
  | desc sels =>
    simp only [segOutcomes, SegPermitted]
    rw [mem_product_map_iff]
    constructor
    · intro h
      refine each_mono h (fun n hn l hl => ?_)
      obtain ⟨ord, hord, hl⟩ := List.mem_flatMap.1 hl
      refine ⟨ord, (visitOrders_iff' n (hw n hn) ord).1 hord, ?_⟩
      exact each_mono ((mem_product_map_iff _ ord l).1 hl)
        (fun m _ l' hl' => (selsOutcomes_iff reg root m sels l').1 hl')
    · intro h
      refine each_mono h (fun n hn l hl => ?_)
      obtain ⟨ord, hord, hl⟩ := hl
      refine List.mem_flatMap.2 ⟨ord, (visitOrders_iff' n (hw n hn) ord).2 hord, ?_⟩
      exact (mem_product_map_iff _ ord l).2
        (each_mono hl (fun m _ l' hl' => (selsOutcomes_iff reg root m sels l').2 hl'))

/-! ### well-formedness is preserved -/

theorem wf_of_mem_arr : ∀ {xs : List Json} {x : Json}, Json.WFArr xs → x ∈ xs → x.WF := by
  intro xs
  induction xs with
  | nil => intro x _ h; cases h
  | cons y ys ih =>
    intro x hw hx
    have hw' := (wfArr_cons y ys).1 hw
    rcases List.mem_cons.1 hx with hx | hx
    · subst hx; exact hw'.1
    · exact ih hw'.2 hx

theorem wf_of_mem_obj : ∀ {kvs : List (Str × Json)} {p : Str × Json}, Json.WFObj kvs → p ∈ kvs →
    p.2.WF := by
  intro kvs
  induction kvs with
  | nil => intro p _ h; cases h
  | cons q rest ih =>
    intro p hw hp
    obtain ⟨k, x⟩ := q
    have hw' := (wfObj_cons k x rest).1 hw
    rcases List.mem_cons.1 hp with hp | hp
    · subst hp; exact hw'.1
    · exact ih hw'.2 hp

theorem selName_wf {s : Str} {n m : Node} (hw : n.val.WF) (hm : m ∈ selName s n) : m.val.WF := by
  unfold selName at hm
  cases hv : n.val with
  | obj kvs =>
    rw [hv] at hm hw
    simp only [List.mem_map, List.mem_filter] at hm
    obtain ⟨p, ⟨hp, _⟩, rfl⟩ := hm
    exact wf_of_mem_obj ((wf_obj kvs).1 hw).2 hp
  | _ => rw [hv] at hm; cases hm

theorem selIndex_wf {i : Int} {n m : Node} (hw : n.val.WF) (hm : m ∈ selIndex i n) : m.val.WF := by
  unfold selIndex at hm
  cases hv : n.val with
  | arr xs =>
    rw [hv] at hm hw
    simp only at hm
    split at hm
    · cases hm
    · split at hm
      · rename_i x hx
        rw [List.mem_singleton] at hm; subst hm
        exact wf_of_mem_arr ((wf_arr xs).1 hw) (List.mem_of_getElem? hx)
      · cases hm
  | _ => rw [hv] at hm; cases hm

theorem selSlice_wf {a b c : Option Int} {n m : Node} (hw : n.val.WF) (hm : m ∈ selSlice a b c n) :
    m.val.WF := by
  unfold selSlice at hm
  cases hv : n.val with
  | arr xs =>
    rw [hv] at hm hw
    simp only [List.mem_filterMap] at hm
    obtain ⟨i, _, hi⟩ := hm
    split at hi
    · cases hi
    · cases hx : xs[i.toNat]? with
      | none => rw [hx] at hi; cases hi
      | some x =>
        rw [hx] at hi
        simp only [Option.map_some, Option.some.injEq] at hi
        subst hi
        exact wf_of_mem_arr ((wf_arr xs).1 hw) (List.mem_of_getElem? hx)
  | _ => rw [hv] at hm; cases hm

theorem selPermitted_wf {reg : Registry} {root : Json} {s : Selector} {n : Node} {l : List Node}
    (h : SelPermitted reg root s n l) (hw : n.val.WF) : ∀ m, m ∈ l → m.val.WF := by
  intro m hm
  cases h with
  | wildObj _ hp => exact children_wf hw (hp.mem_iff.1 hm)
  | wildOther _ => exact children_wf hw hm
  | filterObj _ hp => exact children_wf hw (List.mem_filter.1 (hp.mem_iff.1 hm)).1
  | filterOther _ => exact children_wf hw (List.mem_filter.1 hm).1
  | name => exact selName_wf hw hm
  | index => exact selIndex_wf hw hm
  | slice => exact selSlice_wf hw hm

theorem selsPermitted_wf {reg : Registry} {root : Json} {sels : List Selector} {n : Node}
    {l : List Node} (h : SelsPermitted reg root sels n l) (hw : n.val.WF) :
    ∀ m, m ∈ l → m.val.WF := by
  induction h with
  | nil => intro m hm; cases hm
  | cons h1 _ ih =>
    intro m hm
    rcases List.mem_append.1 hm with hm | hm
    · exact selPermitted_wf h1 hw m hm
    · exact ih hw m hm

theorem visitOrder_wf {n : Node} {ord : List Node} (h : VisitOrder n ord) (hw : n.val.WF) :
    ∀ m, m ∈ ord → m.val.WF :=
  fun m hm => desc_wf n.loc n.val hw m (h.1.mem_iff.1 hm)

theorem segPermitted_wf {reg : Registry} {root : Json} {seg : Segment} {ns out : List Node}
    (h : SegPermitted reg root seg ns out) (hw : ∀ n, n ∈ ns → n.val.WF) :
    ∀ m, m ∈ out → m.val.WF := by
  cases seg with
  | child sels =>
    simp only [SegPermitted] at h
    exact each_forall_mem h (fun n hn l hl => selsPermitted_wf hl (hw n hn))
  | desc sels =>
    simp only [SegPermitted] at h
    refine each_forall_mem h (fun n hn l hl => ?_)
    obtain ⟨ord, hord, hl⟩ := hl
    exact each_forall_mem hl (fun m hm l' hl' => selsPermitted_wf hl' (visitOrder_wf hord (hw n hn) m hm))

/-! ### queries -/

theorem outcomesFrom_iff (reg : Registry) (root : Json) (out : List Node) :
    ∀ (segs : List Segment) (acc : List (List Node)),
      (∀ start, start ∈ acc → ∀ n, n ∈ start → n.val.WF) →
      (out ∈ outcomesFrom reg root segs acc ↔
        ∃ start, start ∈ acc ∧ SegsPermitted reg root segs start out) := by
  intro segs
  induction segs with
  | nil =>
    intro acc _
    simp only [outcomesFrom]
    constructor
    · intro h; exact ⟨out, h, .nil⟩
    · rintro ⟨start, hs, h⟩; cases h; exact hs
  | cons seg segs ih =>
    intro acc hw
    simp only [outcomesFrom]
    have hw' : ∀ mid, mid ∈ acc.flatMap (segOutcomes reg root seg) → ∀ n, n ∈ mid → n.val.WF := by
      intro mid hmid
      obtain ⟨start, hs, hm⟩ := List.mem_flatMap.1 hmid
      exact segPermitted_wf ((segOutcomes_iff reg root seg start mid (hw start hs)).1 hm) (hw start hs)
    rw [ih _ hw']
    constructor
    · rintro ⟨mid, hmid, h⟩
      obtain ⟨start, hs, hm⟩ := List.mem_flatMap.1 hmid
      exact ⟨start, hs, .cons ((segOutcomes_iff reg root seg start mid (hw start hs)).1 hm) h⟩
    · rintro ⟨start, hs, h⟩
      cases h with
      | cons h1 h2 =>
        exact ⟨_, List.mem_flatMap.2 ⟨start, hs,
          (segOutcomes_iff reg root seg start _ (hw start hs)).2 h1⟩, h2⟩

theorem outcomes_iff (reg : Registry) (q : Query) (v : Json) (hw : v.WF) (out : List Node) :
    out ∈ outcomes reg q v ↔ Permitted reg q v out := by
  unfold outcomes Permitted
  rw [outcomesFrom_iff]
  · simp only [List.mem_singleton, exists_eq_left]
  · intro start hs n hn
    rw [List.mem_singleton] at hs; subst hs
    rw [List.mem_singleton] at hn; subst hn
    exact hw

/-! ### the deterministic nodelist -/

theorem each_flatMap {P : Node → List Node → Prop} (f : Node → List Node) :
    ∀ (ns : List Node), (∀ n, n ∈ ns → P n (f n)) → Each P ns (ns.flatMap f) := by
  intro ns
  induction ns with
  | nil => intro _; exact .nil
  | cons n ns ih =>
    intro h
    rw [List.flatMap_cons]
    exact .cons (h n List.mem_cons_self) (ih (fun m hm => h m (List.mem_cons_of_mem _ hm)))

theorem selectSel_permitted (reg : Registry) (root : Json) (s : Selector) (n : Node) :
    SelPermitted reg root s n (selectSel reg root s n) := by
  cases s with
  | name k => simp only [selectSel]; exact .name
  | index i => simp only [selectSel]; exact .index
  | slice a b c => simp only [selectSel]; exact .slice
  | wild =>
    simp only [selectSel]
    cases ho : isObj n.val with
    | true => exact .wildObj ho (.refl _)
    | false => exact .wildOther ho
  | filter e =>
    simp only [selectSel]
    cases ho : isObj n.val with
    | true => exact .filterObj ho (.refl _)
    | false => exact .filterOther ho

theorem selectSels_permitted (reg : Registry) (root : Json) (n : Node) :
    ∀ (sels : List Selector), SelsPermitted reg root sels n (selectSels reg root sels n) := by
  intro sels
  induction sels with
  | nil => simp only [selectSels]; exact .nil
  | cons s ss ih =>
    simp only [selectSels]
    exact .cons (selectSel_permitted reg root s n) ih

theorem selectSeg_permitted (reg : Registry) (root : Json) (seg : Segment) (ns : List Node)
    (hw : ∀ n, n ∈ ns → n.val.WF) : SegPermitted reg root seg ns (selectSeg reg root seg ns) := by
  cases seg with
  | child sels =>
    simp only [selectSeg, SegPermitted]
    exact each_flatMap _ ns (fun n _ => selectSels_permitted reg root n sels)
  | desc sels =>
    simp only [selectSeg, SegPermitted]
    refine each_flatMap (P := fun n l => ∃ ord, VisitOrder n ord ∧
      Each (SelsPermitted reg root sels) ord l) _ ns (fun n hn => ?_)
    exact ⟨descendants n.loc n.val, visitOrder_desc n (hw n hn),
      each_flatMap _ _ (fun m _ => selectSels_permitted reg root m sels)⟩

theorem selectFrom_permitted (reg : Registry) (root : Json) :
    ∀ (segs : List Segment) (ns : List Node), (∀ n, n ∈ ns → n.val.WF) →
      SegsPermitted reg root segs ns (selectFrom reg root segs ns) := by
  intro segs
  induction segs with
  | nil => intro ns _; simp only [selectFrom]; exact .nil
  | cons seg segs ih =>
    intro ns hw
    simp only [selectFrom]
    have h1 := selectSeg_permitted reg root seg ns hw
    exact .cons h1 (ih _ (segPermitted_wf h1 hw))

end JPV.Proofs.NdRel
